(* model/F32.v IS correct rounding in the sense of Flocq: rnd_mag / rnd compute
   round radix2 (FLX_exp 24) ZnearestE of the exact quotient (precision 24, round to nearest,
   ties to even, unbounded exponent range), and in the normal range of binary32 this is also
   the FLT (emin = -149, prec = 24) rounding.  f_mul / f_add / f_sub / f_div are correctly rounded.

   This file uses Flocq and the real numbers of the standard library (allowed for this file only);
   the axioms are listed by the Print Assumptions at the end. *)
From Coq Require Import ZArith Reals Lra Lia Psatz Bool.
From Flocq Require Import Core.
From WV Require Import F32.

Open Scope Z_scope.

Notation fx := (FLX_exp 24).
Notation RNE := (round radix2 (FLX_exp 24) ZnearestE).
Notation b2 := (bpow radix2).

(* ------------------------------------------------------------------------------------------ *)
(* 1. Nearest-even of a quotient of integers is the three-way formula of rnd_mag               *)
(* ------------------------------------------------------------------------------------------ *)

Definition near_even_div (a b : Z) : Z :=
  let q := a / b in
  let r := a mod b in
  if b <? 2 * r then q + 1
  else if (b =? 2 * r) then (if Z.odd q then q + 1 else q)
  else q.

Lemma div_frac_real : forall a b, 0 < b ->
  (IZR a / IZR b - IZR (a / b) = IZR (a mod b) / IZR b)%R.
Proof.
  intros a b Hb.
  assert (Hb' : (0 < IZR b)%R) by (apply IZR_lt; exact Hb).
  assert (Hdm : a = b * (a / b) + a mod b) by (apply Z.div_mod; lia).
  assert (HR : (IZR a = IZR b * IZR (a / b) + IZR (a mod b))%R).
  { rewrite <- mult_IZR, <- plus_IZR. f_equal. exact Hdm. }
  rewrite HR at 1. field. lra.
Qed.

Theorem Znearest_of_div : forall a b, 0 < b ->
  ZnearestE (IZR a / IZR b) = near_even_div a b.
Proof.
  intros a b Hb.
  assert (Hb' : (0 < IZR b)%R) by (apply IZR_lt; exact Hb).
  assert (Hmod : 0 <= a mod b < b) by (apply Z.mod_pos_bound; exact Hb).
  assert (Hmod0 : (0 <= IZR (a mod b))%R) by (apply IZR_le; lia).
  assert (Hfl : Zfloor (IZR a / IZR b) = a / b) by (apply Zfloor_div; lia).
  assert (Hfr := div_frac_real a b Hb).
  unfold Znearest, near_even_div. rewrite Hfl, Hfr.
  assert (Hceil : 0 < a mod b -> Zceil (IZR a / IZR b) = a / b + 1).
  { intros Hr. rewrite <- Hfl. apply Zceil_floor_neq. rewrite Hfl.
    intros Heq. rewrite <- Heq in Hfr.
    assert (Hz : (IZR (a mod b) / IZR b = 0)%R) by lra.
    assert (Hlt : (0 < IZR (a mod b))%R) by (apply IZR_lt; exact Hr).
    assert (Hpos : (0 < IZR (a mod b) / IZR b)%R) by (apply Rdiv_lt_0_compat; assumption).
    lra. }
  destruct (Z.ltb_spec b (2 * (a mod b))) as [Hlt | Hge].
  - (* fraction > 1/2 *)
    assert (HR : (IZR b < 2 * IZR (a mod b))%R).
    { rewrite <- mult_IZR. apply IZR_lt. exact Hlt. }
    rewrite Rcompare_Gt.
    + apply Hceil. lia.
    + apply Rmult_lt_reg_r with (IZR b); [exact Hb'|].
      unfold Rdiv. rewrite Rmult_assoc, Rinv_l by lra. lra.
  - destruct (Z.eqb_spec b (2 * (a mod b))) as [Heq | Hne].
    + (* tie *)
      assert (HR : (IZR b = 2 * IZR (a mod b))%R).
      { rewrite <- mult_IZR. f_equal. exact Heq. }
      rewrite Rcompare_Eq.
      * rewrite Z.negb_even. destruct (Z.odd (a / b)); [apply Hceil; lia | reflexivity].
      * apply Rmult_eq_reg_r with (IZR b); [|lra].
        unfold Rdiv. rewrite Rmult_assoc, Rinv_l by lra. lra.
    + (* fraction < 1/2 *)
      assert (HR : (2 * IZR (a mod b) < IZR b)%R).
      { rewrite <- mult_IZR. apply IZR_lt. lia. }
      rewrite Rcompare_Lt; [reflexivity|].
      apply Rmult_lt_reg_r with (IZR b); [exact Hb'|].
      unfold Rdiv. rewrite Rmult_assoc, Rinv_l by lra. lra.
Qed.

(* ------------------------------------------------------------------------------------------ *)
(* 2. rnd_mag, restated with the scaling function made explicit                                *)
(* ------------------------------------------------------------------------------------------ *)

Definition scl (n d e : Z) : Z * Z :=
  if 0 <=? e then (n, d * 2 ^ e) else (n * 2 ^ (- e), d).

Definition rnd_q0 (n d : Z) : Z :=
  let e0 := Z.log2 n - Z.log2 d - 23 in
  fst (scl n d e0) / snd (scl n d e0).

Definition rnd_exp (n d : Z) : Z :=
  let e0 := Z.log2 n - Z.log2 d - 23 in
  let q0 := rnd_q0 n d in
  if 2 ^ 24 <=? q0 then e0 + 1 else if q0 <? 2 ^ 23 then e0 - 1 else e0.

Lemma rnd_mag_unfold : forall n d,
  rnd_mag n d =
  (near_even_div (fst (scl n d (rnd_exp n d))) (snd (scl n d (rnd_exp n d))), rnd_exp n d).
Proof.
  intros n d. unfold rnd_mag, rnd_exp, rnd_q0, near_even_div, scl.
  set (e0 := Z.log2 n - Z.log2 d - 23).
  destruct (0 <=? e0); cbv beta iota zeta; cbn [fst snd];
  (destruct (2 ^ 24 <=? _); [| destruct (_ <? 2 ^ 23)]);
  match goal with |- context [0 <=? ?e] => destruct (0 <=? e) end; reflexivity.
Qed.

Lemma pow2_bpow : forall e, 0 <= e -> IZR (2 ^ e) = b2 e.
Proof. intros e He. exact (IZR_Zpower radix2 e He). Qed.

Lemma scl_spec : forall n d e, 0 < d ->
  0 < snd (scl n d e) /\
  (IZR (fst (scl n d e)) / IZR (snd (scl n d e)) = IZR n / IZR d * b2 (- e))%R.
Proof.
  intros n d e Hd.
  assert (Hd' : (0 < IZR d)%R) by (apply IZR_lt; exact Hd).
  unfold scl. destruct (Z.leb_spec 0 e) as [He | He]; cbn [fst snd].
  - split.
    + apply Z.mul_pos_pos; [exact Hd | apply Z.pow_pos_nonneg; lia].
    + rewrite mult_IZR, pow2_bpow by exact He. rewrite bpow_opp.
      assert (Hp := bpow_gt_0 radix2 e). field. lra.
  - split; [exact Hd|].
    rewrite mult_IZR, pow2_bpow by lia. field. lra.
Qed.

(* ------------------------------------------------------------------------------------------ *)
(* 3. The exponent chosen by rnd_mag is the canonical exponent                                 *)
(* ------------------------------------------------------------------------------------------ *)

Lemma log2_real : forall n, 0 < n ->
  (b2 (Z.log2 n) <= IZR n < 2 * b2 (Z.log2 n))%R.
Proof.
  intros n Hn.
  assert (Hl := Z.log2_spec n Hn).
  assert (H0 := Z.log2_nonneg n).
  rewrite <- pow2_bpow by exact H0. split.
  - apply IZR_le. lia.
  - rewrite <- mult_IZR. apply IZR_lt.
    replace (2 * 2 ^ Z.log2 n) with (2 ^ Z.succ (Z.log2 n)); [lia|].
    rewrite Z.pow_succ_r by exact H0. reflexivity.
Qed.

Lemma b2_succ : forall e, b2 (e + 1) = (2 * b2 e)%R.
Proof. intros e. rewrite bpow_plus_1. reflexivity. Qed.

Lemma b2_pred : forall e, b2 (e - 1) = (b2 e / 2)%R.
Proof.
  intros e. replace e with ((e - 1) + 1) at 2 by lia. rewrite b2_succ. field.
Qed.

Lemma b2_23 : b2 23 = 8388608%R.
Proof. rewrite <- (pow2_bpow 23) by lia. reflexivity. Qed.

(* y = x * 2^-e  in [2^23, 2^24)  gives  2^(e+23) <= x < 2^(e+24) *)
Lemma window_to_mag : forall x e,
  (8388608 <= x * b2 (- e) < 16777216)%R -> (b2 (e + 24 - 1) <= x < b2 (e + 24))%R.
Proof.
  intros x e Hy.
  assert (Hp := bpow_gt_0 radix2 e).
  assert (Hx : (x = (x * b2 (- e)) * b2 e)%R).
  { rewrite bpow_opp. field. lra. }
  replace (e + 24 - 1) with (23 + e) by lia. replace (e + 24) with ((23 + e) + 1) by lia.
  rewrite b2_succ, bpow_plus, b2_23.
  set (y := (x * b2 (- e))%R) in *. rewrite Hx. nra.
Qed.

Lemma rnd_exp_window : forall n d, 0 < n -> 0 < d ->
  (8388608 <= IZR n / IZR d * b2 (- rnd_exp n d) < 16777216)%R.
Proof.
  intros n d Hn Hd.
  assert (Hn' : (0 < IZR n)%R) by (apply IZR_lt; exact Hn).
  assert (Hd' : (0 < IZR d)%R) by (apply IZR_lt; exact Hd).
  assert (Ln := log2_real n Hn). assert (Ld := log2_real d Hd).
  set (ln := Z.log2 n) in *. set (ld := Z.log2 d) in *.
  set (x := (IZR n / IZR d)%R).
  assert (Hxd : (x * IZR d = IZR n)%R) by (unfold x; field; lra).
  assert (Pn := bpow_gt_0 radix2 ln). assert (Pd := bpow_gt_0 radix2 ld).
  (* y0 = x * 2^-e0 lies in (2^22, 2^25) *)
  set (e0 := ln - ld - 23).
  assert (He0 : b2 (- e0) = (8388608 * b2 ld / b2 ln)%R).
  { unfold e0. replace (- (ln - ld - 23)) with (23 + ld + - ln) by lia.
    rewrite !bpow_plus, b2_23, bpow_opp. field. lra. }
  set (y0 := (x * b2 (- e0))%R).
  assert (Hy0 : (y0 * b2 ln = 8388608 * (x * b2 ld))%R).
  { unfold y0. rewrite He0. field. lra. }
  assert (Hxlo : (b2 ln < 2 * (x * b2 ld))%R) by nra.
  assert (Hxhi : (x * b2 ld < 2 * b2 ln)%R) by nra.
  assert (Hylo : (4194304 < y0)%R) by nra.
  assert (Hyhi : (y0 < 33554432)%R) by nra.
  (* q0 is the floor of y0 *)
  assert (Hq0 : rnd_q0 n d = Zfloor y0).
  { unfold rnd_q0. fold ln ld e0. destruct (scl_spec n d e0 Hd) as [Hb Hv].
    unfold y0, x. rewrite <- Hv. symmetry. apply Zfloor_div. lia. }
  assert (Hlb := Zfloor_lb y0). assert (Hub := Zfloor_ub y0).
  unfold rnd_exp. fold ln ld e0. rewrite Hq0.
  change (2 ^ 24) with 16777216. change (2 ^ 23) with 8388608.
  destruct (Z.leb_spec 16777216 (Zfloor y0)) as [Hc1 | Hc1].
  - (* e = e0 + 1 *)
    assert (Hr : (16777216 <= IZR (Zfloor y0))%R) by (apply IZR_le; exact Hc1).
    replace (- (e0 + 1)) with (- e0 - 1) by lia. rewrite b2_pred. fold y0.
    unfold Rdiv. rewrite <- Rmult_assoc. fold y0. lra.
  - destruct (Z.ltb_spec (Zfloor y0) 8388608) as [Hc2 | Hc2].
    + (* e = e0 - 1 *)
      assert (Hr : (IZR (Zfloor y0) + 1 <= 8388608)%R).
      { rewrite <- plus_IZR. apply IZR_le. lia. }
      replace (- (e0 - 1)) with (- e0 + 1) by lia. rewrite b2_succ.
      replace (x * (2 * b2 (- e0)))%R with (2 * y0)%R by (unfold y0; ring). lra.
    + (* e = e0 *)
      assert (Hr1 : (8388608 <= IZR (Zfloor y0))%R) by (apply IZR_le; exact Hc2).
      assert (Hr2 : (IZR (Zfloor y0) + 1 <= 16777216)%R).
      { rewrite <- plus_IZR. apply IZR_le. lia. }
      fold y0. lra.
Qed.

Theorem rnd_mag_exponent : forall n d, 0 < n -> 0 < d ->
  snd (rnd_mag n d) = cexp radix2 fx (IZR n / IZR d).
Proof.
  intros n d Hn Hd. rewrite rnd_mag_unfold. cbn [snd].
  unfold cexp, FLX_exp.
  rewrite (mag_unique_pos radix2 _ (rnd_exp n d + 24)).
  - lia.
  - apply window_to_mag. apply rnd_exp_window; assumption.
Qed.

(* the rounded significand is a 24-bit number (or 2^24 after a carry) *)
Lemma rnd_exp_q_window : forall n d, 0 < n -> 0 < d ->
  2 ^ 23 <= fst (scl n d (rnd_exp n d)) / snd (scl n d (rnd_exp n d)) < 2 ^ 24.
Proof.
  intros n d Hn Hd.
  destruct (scl_spec n d (rnd_exp n d) Hd) as [Hb Hv].
  assert (Hw := rnd_exp_window n d Hn Hd). rewrite <- Hv in Hw.
  rewrite <- (Zfloor_div _ _ (not_eq_sym (Z.lt_neq _ _ Hb))).
  set (y := (IZR (fst (scl n d (rnd_exp n d))) / IZR (snd (scl n d (rnd_exp n d))))%R) in *.
  assert (Hlb := Zfloor_lb y). assert (Hub := Zfloor_ub y).
  change (2 ^ 23) with 8388608. change (2 ^ 24) with 16777216. split.
  - apply le_IZR.
    destruct (Z.le_gt_cases 8388608 (Zfloor y)) as [H | H]; [apply IZR_le; exact H|].
    exfalso. assert (Hr : (IZR (Zfloor y) + 1 <= 8388608)%R).
    { rewrite <- plus_IZR. apply IZR_le. lia. } lra.
  - apply lt_IZR. lra.
Qed.

(* ------------------------------------------------------------------------------------------ *)
(* 4. Main theorems                                                                            *)
(* ------------------------------------------------------------------------------------------ *)

Theorem rnd_mag_correct : forall n d, 0 < n -> 0 < d ->
  let '(m, e) := rnd_mag n d in
  (IZR m * b2 e)%R = RNE (IZR n / IZR d)%R.
Proof.
  intros n d Hn Hd.
  assert (He := rnd_mag_exponent n d Hn Hd).
  rewrite rnd_mag_unfold in *. cbn [snd] in He.
  destruct (scl_spec n d (rnd_exp n d) Hd) as [Hb Hv].
  unfold round, F2R, scaled_mantissa. cbn [Fnum Fexp].
  rewrite <- He, <- Hv, Znearest_of_div by exact Hb. reflexivity.
Qed.

Definition value (x : f32) : R := (IZR (fm x) * b2 (fe x))%R.

Theorem rnd_correct : forall a b, 0 < b ->
  let x := rnd a b in
  (IZR (fm x) * b2 (fe x))%R = RNE (IZR a / IZR b)%R.
Proof.
  intros a b Hb. cbv zeta. unfold rnd.
  destruct (Z.eqb_spec a 0) as [Ha | Ha].
  - subst a. cbn [fm fe]. unfold Rdiv. rewrite !Rmult_0_l.
    rewrite round_0; [reflexivity | apply valid_rnd_N].
  - assert (Habs : 0 < Z.abs a) by lia.
    assert (Hm := rnd_mag_correct (Z.abs a) b Habs Hb).
    destruct (rnd_mag (Z.abs a) b) as [m e]. cbn [fm fe].
    destruct (Z.lt_total a 0) as [Hneg | [H0 | Hpos]]; [| contradiction |].
    + replace (Z.sgn a) with (-1) by lia.
      replace (Z.abs a) with (- a) in Hm by lia.
      replace (IZR a / IZR b)%R with (- (IZR (- a) / IZR b))%R
        by (rewrite opp_IZR; unfold Rdiv; ring).
      rewrite round_NE_opp, <- Hm.
      replace (-1 * m) with (- m) by lia. rewrite opp_IZR. ring.
    + replace (Z.sgn a) with 1 by lia.
      replace (Z.abs a) with a in Hm by lia.
      rewrite Z.mul_1_l. exact Hm.
Qed.

Corollary rnd_value : forall a b, 0 < b -> value (rnd a b) = RNE (IZR a / IZR b)%R.
Proof. intros a b Hb. exact (rnd_correct a b Hb). Qed.

(* in the normal range of binary32 (|x| >= 2^-126) this is the binary32 (FLT, emin = -149) rounding *)
Theorem rnd_correct_FLT : forall a b, 0 < b ->
  (b2 (-149 + 24 - 1) <= Rabs (IZR a / IZR b))%R ->
  value (rnd a b) = round radix2 (FLT_exp (-149) 24) ZnearestE (IZR a / IZR b)%R.
Proof.
  intros a b Hb Hr. rewrite round_FLT_FLX by exact Hr. apply rnd_value; exact Hb.
Qed.

(* ------------------------------------------------------------------------------------------ *)
(* 5. The operations                                                                           *)
(* ------------------------------------------------------------------------------------------ *)

Lemma frac_correct : forall m e,
  0 < snd (frac m e) /\ (IZR (fst (frac m e)) / IZR (snd (frac m e)) = IZR m * b2 e)%R.
Proof.
  intros m e. unfold frac. destruct (Z.leb_spec 0 e) as [He | He]; cbn [fst snd].
  - split; [lia|]. rewrite mult_IZR, pow2_bpow by exact He. field.
  - split; [apply Z.pow_pos_nonneg; lia|].
    rewrite pow2_bpow by lia. rewrite bpow_opp.
    assert (Hp := bpow_gt_0 radix2 e). field. lra.
Qed.

Theorem f_mul_correct : forall x y,
  value (f_mul x y) = RNE (value x * value y)%R.
Proof.
  intros x y. unfold f_mul.
  destruct (frac_correct (fm x * fm y) (fe x + fe y)) as [Hb Hv].
  destruct (frac (fm x * fm y) (fe x + fe y)) as [a b]. cbn [fst snd] in *.
  rewrite rnd_value by exact Hb. f_equal. rewrite Hv.
  unfold value. rewrite mult_IZR, bpow_plus. ring.
Qed.

Theorem f_add_correct : forall x y,
  value (f_add x y) = RNE (value x + value y)%R.
Proof.
  intros x y. unfold f_add.
  destruct (frac_correct (fm x) (fe x)) as [Hb1 Hv1].
  destruct (frac_correct (fm y) (fe y)) as [Hb2 Hv2].
  destruct (frac (fm x) (fe x)) as [a1 b1]. destruct (frac (fm y) (fe y)) as [a2 b2'].
  cbn [fst snd] in *.
  assert (Hb1' : (0 < IZR b1)%R) by (apply IZR_lt; exact Hb1).
  assert (Hb2' : (0 < IZR b2')%R) by (apply IZR_lt; exact Hb2).
  rewrite rnd_value by (apply Z.mul_pos_pos; assumption). f_equal.
  unfold value. rewrite <- Hv1, <- Hv2, plus_IZR, !mult_IZR. field. lra.
Qed.

Lemma f_neg_value : forall x, value (f_neg x) = (- value x)%R.
Proof. intros x. unfold value, f_neg. cbn [fm fe]. rewrite opp_IZR. ring. Qed.

Theorem f_sub_correct : forall x y,
  value (f_sub x y) = RNE (value x - value y)%R.
Proof.
  intros x y. unfold f_sub. rewrite f_add_correct, f_neg_value. reflexivity.
Qed.

Theorem f_div_correct : forall x y, fm y <> 0 ->
  value (f_div x y) = RNE (value x / value y)%R.
Proof.
  intros x y Hy. unfold f_div.
  destruct (frac_correct (fm x) (fe x)) as [Hb1 Hv1].
  destruct (frac_correct (fm y) (fe y)) as [Hb2 Hv2].
  assert (Ha2 : fst (frac (fm y) (fe y)) <> 0).
  { unfold frac. destruct (0 <=? fe y) eqn:He; cbn [fst]; [|exact Hy].
    apply Z.leb_le in He. apply Z.neq_mul_0. split; [exact Hy|].
    apply Z.pow_nonzero; lia. }
  destruct (frac (fm x) (fe x)) as [a1 b1]. destruct (frac (fm y) (fe y)) as [a2 b2'].
  cbn [fst snd] in *.
  assert (Hb1' : (0 < IZR b1)%R) by (apply IZR_lt; exact Hb1).
  assert (Hb2' : (0 < IZR b2')%R) by (apply IZR_lt; exact Hb2).
  assert (Hden : 0 < b1 * Z.abs a2) by (apply Z.mul_pos_pos; lia).
  destruct (Z.eqb_spec (b1 * Z.abs a2) 0) as [H0 | _]; [lia|].
  rewrite rnd_value by exact Hden. f_equal.
  unfold value. rewrite <- Hv1, <- Hv2.
  assert (Ha2' : IZR a2 <> 0%R) by (intros H; apply Ha2; apply eq_IZR; exact H).
  rewrite !mult_IZR.
  destruct (Z.lt_total a2 0) as [Hneg | [H0 | Hpos]]; [| contradiction |].
  - replace (Z.sgn a2) with (-1) by lia. replace (Z.abs a2) with (- a2) by lia.
    rewrite opp_IZR. field. repeat split; lra.
  - replace (Z.sgn a2) with 1 by lia. replace (Z.abs a2) with a2 by lia.
    field. repeat split; lra.
Qed.

(* conversions *)
Theorem f_of_Z_correct : forall z, value (f_of_Z z) = RNE (IZR z).
Proof.
  intros z. unfold f_of_Z. rewrite rnd_value by lia. f_equal. field.
Qed.

Theorem f_of_dec_correct : forall q, 0 < snd q ->
  value (f_of_dec q) = RNE (IZR (fst q) / IZR (snd q))%R.
Proof. intros q Hq. unfold f_of_dec. apply rnd_value; exact Hq. Qed.

(* the result of rnd is a 24-bit significand (2^24 allowed after a rounding carry) *)
Theorem rnd_mag_significand : forall n d, 0 < n -> 0 < d ->
  2 ^ 23 <= fst (rnd_mag n d) <= 2 ^ 24.
Proof.
  intros n d Hn Hd. rewrite rnd_mag_unfold. cbn [fst].
  assert (Hq := rnd_exp_q_window n d Hn Hd).
  unfold near_even_div.
  repeat match goal with |- context [if ?c then _ else _] => destruct c end; lia.
Qed.

(* non-vacuity / sanity: 1/3 and a tie *)
Example rnd_mag_third : rnd_mag 1 3 = (11184811, -25).
Proof. vm_compute. reflexivity. Qed.
Example rnd_mag_tie_even : rnd_mag (2 ^ 25 + 2) 4 = (8388608, 0) /\ rnd_mag (2 ^ 25 + 6) 4 = (8388610, 0).
Proof. vm_compute. split; reflexivity. Qed.

Print Assumptions Znearest_of_div.
Print Assumptions rnd_mag_exponent.
Print Assumptions rnd_mag_correct.
Print Assumptions rnd_correct.
Print Assumptions rnd_correct_FLT.
Print Assumptions f_mul_correct.
Print Assumptions f_add_correct.
Print Assumptions f_sub_correct.
Print Assumptions f_div_correct.
Print Assumptions f_of_Z_correct.
Print Assumptions f_of_dec_correct.
Print Assumptions rnd_mag_significand.
