(* analyze_iterativeM with ONE worker is analyze_iterative (no cancellation), for every schedule:
   same events, same table, same history, same outcome.  This is what transfers the exact
   correspondence between model/Search.v and the code to the concurrent layer. *)
From Coq Require Import NArith ZArith List Bool Lia.
From WV Require Import Types Bits Attacks Board MoveEnc MoveGen Text Table Eval Search Conc.
From WV Require Import SearchBase ConcSeq ConcRG.
Import ListNotations.
Open Scope N_scope.

Lemma site_nonzero : forall site, 100 + site <> 0.
Proof. intros site. lia. Qed.

Definition proj_run (r : run_result) := (r_events r, r_tt r, r_history r, r_outcome r).
Definition proj_mrun (m : mrun) := (m_events m, m_tt m, m_history m, m_outcome m).

Lemma iterateM_single : forall hs jit_of iters depth s history tt sched nt bm acc gnodes flag trace be,
  flag = false ->
  proj_mrun (iterateM hs jit_of 1 iters depth s history tt sched nt bm acc) =
  proj_run (iterate hs (fun d => jit_of d 0) None iters depth s history tt gnodes flag trace nt be bm acc).
Proof.
  intros hs jit_of iters. induction iters as [|k IH];
    intros depth s history tt sched nt bm acc gnodes flag trace be Hf; cbn [iterate iterateM].
  - reflexivity.
  - subst flag. rewrite andb_false_r. cbv zeta.
    cbn [seq map]. unfold worker_prog at 1. cbn [Nat.even worker_depth N.of_nat].
    pose proof (analyzeP_seq hs history (jit_of depth 0) (S (S (N.to_nat depth))) s (depth + 1) 0 0
                  (- mate_in_ply 0)%Z (mate_in_ply 0) bm (mkW tt 0 0 gnodes false trace) eq_refl) as Hag.
    unfold lst in Hag. cbn [w_jidx w_nodes w_tt] in Hag.
    destruct (run_workers_single pres sched
                (analyzeP hs history (jit_of depth 0) (S (S (N.to_nat depth))) s (depth + 1) 0 0
                          (- mate_in_ply 0)%Z (mate_in_ply 0) bm (mkL 0 0)) tt) as [rest Hrw].
    unfold worker_depth. cbn [Nat.even]. change (N.of_nat 0) with 0. rewrite Hrw. clear Hrw.
    destruct (analyze hs history (jit_of depth 0) None (S (S (N.to_nat depth))) s (depth + 1) 0 0
                      (- mate_in_ply 0)%Z (mate_in_ply 0) bm (mkW tt 0 0 gnodes false trace)) as [ev w|w|site|];
      cbn [agrees] in Hag.
    + destruct Hag as [Hq Hfw]. rewrite Hq. cbn [fst snd join_results lst l_nodes].
      rewrite N.add_0_l.
      destruct (iter_moves hs (S (S (N.to_nat depth))) (w_tt w) s 0 depth) as [|mv tl].
      * reflexivity.
      * destruct (POS_INF <=? ev)%Z; [reflexivity|].
        apply IH. exact Hfw.
    + destruct Hag.
    + destruct (run_seq _ tt) as [q tt1]. cbn [fst snd] in Hag |- *. subst q. cbn [join_results].
      destruct (100 + site) as [|p] eqn:E; [exfalso; exact (site_nonzero site E)|].
      reflexivity.
    + destruct (run_seq _ tt) as [q tt1]. cbn [fst snd] in Hag |- *. subst q. cbn [join_results].
      reflexivity.
Qed.

Theorem analyze_iterativeM_single : forall hs jit_of iters s history tt sched,
  let r := analyze_iterative hs (fun d => jit_of d 0) None iters s history tt in
  let m := analyze_iterativeM hs jit_of 1 iters s history tt sched in
  m_events m = r_events r /\ m_tt m = r_tt r /\ m_history m = r_history r /\ m_outcome m = r_outcome r.
Proof.
  intros hs jit_of iters s history tt sched. unfold analyze_iterative, analyze_iterativeM.
  pose proof (iterateM_single hs jit_of iters 0 s
                (if existsb (N.eqb (hash hs s)) history then history else hash hs s :: history)
                tt sched 0 None [] 0 false [] NEG_INF eq_refl) as H.
  unfold proj_mrun, proj_run in H. injection H as H1 H2 H3 H4. auto.
Qed.
