(* C06: a concrete region on which the heuristic caveat of C05 is discharged.

     SmallMen s  :=  LegalPos s /\ men s <= 10          (at most ten men on the board, kings included)

   - closed under generated legal moves: no move increases the number of men (men_step);
   - on it the heuristic score of a position with a legal move is never a terminal score
     (SmallMen_heur: at most 8 non-king men, so |material difference| <= 7200 <= 7483, EvalBound.heuristic_nonterminal).
   So Region SmallMen /\ HeurNTOn SmallMen holds outright, and the soundness theorems of MateSound.v instantiate
   to statements whose only residue is the no-collision assumption. *)
From WV Require Import Types Bits Attacks Board MoveEnc MoveGen Rules Abs Wf Encode GameValue Table Text Eval Search.
From WV Require Import BitsProofs BoardProofs MoveEncProofs PosEq BoardAlg ApplyProofs LegalPosProofs PlayProofs.
From WV Require Import GenPieces GenPawnsNoDup KingPrefilter GenLegal GenAttrs.
From WV Require Import EvalProofs EvalMirror EvalBound SearchMen MateSound.
From Coq Require Import Lia ZifyBool ZifyN ZifyNat.
Import ListNotations.
Import WV.Bits.
Open Scope N_scope.
Arguments N.add : simpl never.
Arguments N.sub : simpl never.
Arguments N.mul : simpl never.
Arguments N.div : simpl never.
Arguments N.modulo : simpl never.

(* ------------------------------------------------------------------ *)
(* no move increases the number of men                                  *)
(* ------------------------------------------------------------------ *)

Theorem men_step : forall s m ns, LegalPos s -> In (m, ns) (gen_legal s) -> (men ns <= men s)%nat.
Proof.
  intros s m ns HL Hin.
  destruct (gen_legal_props s m ns HL Hin) as (_ & _ & Heq & Hleg & Em).
  set (mv := absm m) in *.
  apply legal_moves_In in Hleg. destruct Hleg as (Hf & Ht & _ & Hl).
  destruct (legal_move_ok s mv HL Hl Ht) as [k Hok].
  pose proof Hok as (Hpat & _ & _ & Hne & Hown & _ & Hpawn & Hking).
  assert (Hafter : forall y, p_at (abs ns) y =
            if y =? mv_to mv then Some (st_turn s, placed_kind k (mv_promo mv))
            else if y =? mv_from mv then None
            else if ep_flag (abs s) k (mv_from mv) (mv_to mv) && (y =? sq_of (sfile (mv_to mv)) (srank (mv_from mv))) then None
            else if castle_flag k (mv_from mv) (mv_to mv) then
              if y =? rook_home (st_turn s) (sfile (mv_to mv) =? 6)%Z then None
              else if y =? sq_of (if (sfile (mv_to mv) =? 6)%Z then 5 else 3) (back_rank (st_turn s))
                   then Some (st_turn s, Rook) else p_at (abs s) y
            else p_at (abs s) y).
  { intros y. destruct Heq as (Ha & _). rewrite Ha.
    exact (apply_at_gen (abs s) mv (st_turn s) k y Hpat). }
  rewrite !men_length.
  assert (HfL : In (mv_from mv) (occ_list s)) by (apply occ_list_In; rewrite Hpat; discriminate).
  destruct (castle_flag k (mv_from mv) (mv_to mv)) eqn:Hca.
  - unfold castle_flag in Hca. apply andb_true_iff in Hca. destruct Hca as [Hk Hdf].
    assert (Ek : k = King) by (destruct k; try discriminate Hk; reflexivity). subst k.
    apply Z.eqb_eq in Hdf. destruct (Hking eq_refl Hdf) as (_ & _ & Hrook & _ & _).
    set (rh := rook_home (st_turn s) (sfile (mv_to mv) =? 6)%Z) in *.
    set (rd := sq_of (if (sfile (mv_to mv) =? 6)%Z then 5 else 3) (back_rank (st_turn s))) in *.
    assert (HrL : In rh (occ_list s)).
    { apply occ_list_In. unfold has in Hrook. destruct (p_at (abs s) rh); [discriminate|discriminate Hrook]. }
    assert (Hfr : mv_from mv <> rh).
    { intros E. unfold has in Hrook. rewrite <- E, Hpat in Hrook. destruct (st_turn s); discriminate Hrook. }
    assert (Hincl : incl (occ_list ns) (mv_to mv :: rd :: remove N.eq_dec (mv_from mv) (remove N.eq_dec rh (occ_list s)))).
    { intros y Hy. apply occ_list_In in Hy. rewrite Hafter in Hy.
      destruct (y =? mv_to mv) eqn:E1; [apply N.eqb_eq in E1; left; symmetry; exact E1|].
      destruct (y =? mv_from mv) eqn:E2; [contradiction|].
      destruct (ep_flag (abs s) King (mv_from mv) (mv_to mv) && (y =? sq_of (sfile (mv_to mv)) (srank (mv_from mv)))); [contradiction|].
      destruct (y =? rh) eqn:E3; [contradiction|].
      destruct (y =? rd) eqn:E4; [apply N.eqb_eq in E4; right; left; symmetry; exact E4|].
      apply N.eqb_neq in E2, E3. right. right.
      apply in_in_remove; [exact E2|]. apply in_in_remove; [exact E3|]. apply occ_list_In. exact Hy. }
    pose proof (NoDup_incl_length (occ_list_NoDup ns) Hincl) as H1. cbn [length] in H1.
    pose proof (remove_length_lt N.eq_dec _ _ HrL) as H2.
    assert (H3 : In (mv_from mv) (remove N.eq_dec rh (occ_list s))) by (apply in_in_remove; assumption).
    pose proof (remove_length_lt N.eq_dec _ _ H3) as H4. lia.
  - assert (Hincl : incl (occ_list ns) (mv_to mv :: remove N.eq_dec (mv_from mv) (occ_list s))).
    { intros y Hy. apply occ_list_In in Hy. rewrite Hafter in Hy.
      destruct (y =? mv_to mv) eqn:E1; [apply N.eqb_eq in E1; left; symmetry; exact E1|].
      destruct (y =? mv_from mv) eqn:E2; [contradiction|].
      destruct (ep_flag (abs s) k (mv_from mv) (mv_to mv) && (y =? sq_of (sfile (mv_to mv)) (srank (mv_from mv)))); [contradiction|].
      apply N.eqb_neq in E2. right. apply in_in_remove; [exact E2|]. apply occ_list_In. exact Hy. }
    pose proof (NoDup_incl_length (occ_list_NoDup ns) Hincl) as H1. cbn [length] in H1.
    pose proof (remove_length_lt N.eq_dec _ _ HfL) as H2. lia.
Qed.

(* ------------------------------------------------------------------ *)
(* the piece counts add up to at most the number of men                 *)
(* ------------------------------------------------------------------ *)

Lemma nodup_app : forall (A : Type) (l1 l2 : list A), NoDup l1 -> NoDup l2 ->
  (forall x, In x l1 -> ~ In x l2) -> NoDup (l1 ++ l2).
Proof.
  intros A l1 l2 H1 H2 Hd. induction H1 as [|x l Hx Hl IH]; cbn [app]; [exact H2|].
  constructor.
  - intros Hin. apply in_app_iff in Hin. destruct Hin as [Hin|Hin]; [exact (Hx Hin)|].
    exact (Hd x (or_introl eq_refl) Hin).
  - apply IH. intros y Hy. apply Hd. right. exact Hy.
Qed.

Lemma nodup_flat_map : forall (A B : Type) (f : A -> list B) (l : list A), NoDup l ->
  (forall x, In x l -> NoDup (f x)) ->
  (forall x y z, In x l -> In y l -> In z (f x) -> In z (f y) -> x = y) -> NoDup (flat_map f l).
Proof.
  intros A B f l Hl. induction Hl as [|a l Ha Hl IH]; intros Hn Hd; cbn [flat_map]; [constructor|].
  apply nodup_app.
  - apply Hn. left. reflexivity.
  - apply IH; [intros x Hx; apply Hn; right; exact Hx|].
    intros x y z Hx Hy. apply Hd; right; assumption.
  - intros z Hz Hin. apply in_flat_map in Hin. destruct Hin as [y [Hy Hzy]].
    assert (E : a = y) by (apply (Hd a y z); [left; reflexivity|right; exact Hy|exact Hz|exact Hzy]).
    subst y. exact (Ha Hy).
Qed.

Definition slots12 : list (color * piece) :=
  [(White, Pawn); (White, Knight); (White, Bishop); (White, Rook); (White, Queen); (White, King);
   (Black, Pawn); (Black, Knight); (Black, Bishop); (Black, Rook); (Black, Queen); (Black, King)].

Lemma slots12_NoDup : NoDup slots12.
Proof.
  unfold slots12. repeat constructor; cbn [In]; intros H;
    repeat match type of H with _ \/ _ => destruct H as [H|H] end; try discriminate H; exact H.
Qed.

Definition slot_squares (b : board) (cp : color * piece) : list N := iter_ones (pocc b (fst cp) (snd cp)).

Lemma slot_square_at : forall b cp y, WfBoard b -> In cp slots12 -> In y (slot_squares b cp) ->
  piece_at b y = Some cp.
Proof.
  intros b [c p] y Hwf Hcp Hy. unfold slot_squares in Hy. cbn [fst snd] in Hy. apply iter_ones_spec in Hy.
  apply (piece_at_spec b y c p Hwf). split; [|exact Hy].
  intros E. subst p. unfold slots12 in Hcp. cbn [In] in Hcp.
  repeat match type of Hcp with _ \/ _ => destruct Hcp as [Hcp|Hcp] end; try discriminate Hcp; exact Hcp.
Qed.

Lemma total_count : forall s, WfState s ->
  let b := st_board s in
  (count b White Pawn + count b White Knight + count b White Bishop + count b White Rook + count b White Queen + count b White King
   + count b Black Pawn + count b Black Knight + count b Black Bishop + count b Black Rook + count b Black Queen + count b Black King
   <= Z.of_nat (men s))%Z.
Proof.
  intros s Hwf b. pose proof (wf_state_board s Hwf) as Hb. fold b in Hb.
  assert (Hnd : NoDup (flat_map (slot_squares b) slots12)).
  { apply nodup_flat_map; [exact slots12_NoDup | intros cp _; apply iter_ones_NoDup |].
    intros x y z Hx Hy Hzx Hzy. pose proof (slot_square_at b x z Hb Hx Hzx) as E1.
    pose proof (slot_square_at b y z Hb Hy Hzy) as E2. rewrite E1 in E2. injection E2 as E2. exact E2. }
  assert (Hincl : incl (flat_map (slot_squares b) slots12) (occ_list s)).
  { intros z Hz. apply in_flat_map in Hz. destruct Hz as [cp [Hcp Hz]].
    apply occ_list_In. cbn [abs p_at]. fold b. rewrite (slot_square_at b cp z Hb Hcp Hz). discriminate. }
  pose proof (NoDup_incl_length Hnd Hincl) as Hlen. rewrite <- men_length in Hlen.
  unfold slots12 in Hlen. cbn [flat_map] in Hlen. rewrite !app_length in Hlen. unfold slot_squares in Hlen.
  cbn [fst snd length] in Hlen. rewrite <- !slot_len. lia.
Qed.

(* ------------------------------------------------------------------ *)
(* the region                                                           *)
(* ------------------------------------------------------------------ *)

Definition SmallMen (s : state) : Prop := LegalPos s /\ (men s <= 10)%nat.

Theorem SmallMen_region : Region SmallMen.
Proof.
  split; [intros s [H _]; exact H|]. intros s m ns [HL Hm] Hin. split.
  - destruct (apply_saturating s m ns HL Hin) as (_ & _ & HLn). exact HLn.
  - pose proof (men_step s m ns HL Hin). lia.
Qed.

Theorem SmallMen_heur : HeurNTOn SmallMen.
Proof.
  intros s p [HL Hm] _. pose proof (GenPawnsNoDup.legal_pos_wf s HL) as Hwf.
  pose proof (total_count s Hwf) as Ht. cbv zeta in Ht.
  pose proof (legal_one_king s White HL) as Kw. pose proof (legal_one_king s Black HL) as Kb.
  set (b := st_board s) in *.
  pose proof (count_nonneg b White Pawn). pose proof (count_nonneg b White Knight).
  pose proof (count_nonneg b White Bishop). pose proof (count_nonneg b White Rook).
  pose proof (count_nonneg b White Queen).
  pose proof (count_nonneg b Black Pawn). pose proof (count_nonneg b Black Knight).
  pose proof (count_nonneg b Black Bishop). pose proof (count_nonneg b Black Rook).
  pose proof (count_nonneg b Black Queen).
  apply heuristic_nonterminal.
  - exact (wf_state_board s Hwf).
  - intros c. rewrite color_count_eq. destruct c; lia.
  - intros c. destruct c; lia.
  - rewrite !term_worths_eq. destruct p; cbn [opp]; lia.
Qed.

(* the soundness theorems on this region: the only residue left is the absence of hash collisions among
   positions with at most ten men *)
Theorem small_men_sound : forall hs, HashRuleOn SmallMen hs ->
  forall jit_of cancel iters s history tt, LegalPos s -> (men s <= 10)%nat -> TOk SmallMen hs tt -> NoUpper tt ->
  let r := analyze_iterative hs jit_of cancel iters s history tt in
  (forall ev line, In (EvBest ev line) (r_events r) -> (POS_INF <= ev)%Z -> exists n, Win n (abs s)) /\
  TOk SmallMen hs (r_tt r) /\ NoUpper (r_tt r).
Proof.
  intros hs HR jit_of cancel iters s history tt HL Hm HT Hnu.
  destruct (sound_iterative hs SmallMen HR SmallMen_region SmallMen_heur jit_of cancel iters s history tt
              (conj HL Hm) HT Hnu) as (H1 & H2 & H3).
  split; [|exact (conj H2 H3)]. intros ev line Hin Hp. apply Won_iff_Win. exact (H1 ev line Hin Hp).
Qed.

Theorem small_men_sound_call : forall hs, HashRuleOn SmallMen hs ->
  forall history jit cancel fuel s maxd cur ext a b prio w,
  LegalPos s -> (men s <= 10)%nat -> (a < b)%Z -> TOk SmallMen hs (w_tt w) ->
  (forall pm, prio = Some pm -> In pm (MoveGen.legal_moves s)) ->
  match analyze hs history jit cancel fuel s maxd cur ext a b prio w with
  | SVal r w' => ((POS_INF <= r)%Z -> (a < r)%Z -> Won s) /\ ((r <= NEG_INF)%Z -> (r < b)%Z -> Lost s) /\
                 TOk SmallMen hs (w_tt w')
  | SInterrupt w' => TOk SmallMen hs (w_tt w')
  | _ => True
  end.
Proof.
  intros hs HR history jit cancel fuel s maxd cur ext a b prio w HL Hm Hab HT Hprio.
  exact (sound_call hs SmallMen HR SmallMen_region SmallMen_heur history jit cancel fuel s maxd cur ext a b prio w
           (conj HL Hm) Hab HT Hprio).
Qed.

(* the finest form: the region is the set of positions reachable from a root with at most ten men; the residue
   is then "no two positions reachable from the root collide" *)
Lemma Reach_small : forall s0 s, SmallMen s0 -> Reach s0 s -> SmallMen s.
Proof.
  intros s0 s H0 H. induction H as [|s m ns _ IH Hin]; [exact H0|].
  exact (proj2 SmallMen_region s m ns IH Hin).
Qed.

Theorem Reach_small_heur : forall s0, SmallMen s0 -> HeurNTOn (Reach s0).
Proof. intros s0 H0 s p Hr Hg. exact (SmallMen_heur s p (Reach_small s0 s H0 Hr) Hg). Qed.

Theorem small_root_sound : forall hs s, LegalPos s -> (men s <= 10)%nat -> HashRuleOn (Reach s) hs ->
  forall jit_of cancel iters history tt, TOk (Reach s) hs tt -> NoUpper tt ->
  let r := analyze_iterative hs jit_of cancel iters s history tt in
  (forall ev line, In (EvBest ev line) (r_events r) -> (POS_INF <= ev)%Z -> exists n, Win n (abs s)) /\
  TOk (Reach s) hs (r_tt r) /\ NoUpper (r_tt r).
Proof.
  intros hs s HL Hm HR. exact (sound_iterative_reach hs s HL HR (Reach_small_heur s (conj HL Hm))).
Qed.

(* ------------------------------------------------------------------ *)
(* the heuristic residue cannot be dropped: a violation of C06          *)
(* ------------------------------------------------------------------ *)

(* White: K h1, Q a8..h8, pawns on a4 b4 d4..h4, on all of ranks 5 6 7, on c3..h3, g2 h2 (39 pawns: every white man
   is frozen except the pawn c3); Black: K a2, R b2, pawns b3 f2.  White to move has exactly one legal move
   (c3-c4); after it Black can leave White without any legal move in many ways (..Rb1 is mate).  So White has no
   forced mate.  Yet the static score of the position after c3-c4 is -10920 for Black, a terminal value, and the
   depth-1 search reports "mate" (10920 >= POS_INF) for White.  The position satisfies LegalPos (which does not
   bound the number of pawns); with at most ten men this cannot happen (SmallMen_heur). *)
Definition wall : state :=
  mkState (mkBoard 72057593970606080 0 0 0 18374686479671623680 128 139264 0 0 512 0 256)
          White false false false false None 0 1.

Theorem wall_violation :
  let hx := hasher_of_stream (map N.of_nat (seq 1 1038)) in
  let r := analyze_iterative hx (fun _ _ => 0%Z) None 1 wall [] (empty_access 2 4) in
  LegalPos wall /\ r_events r = [EvProgress 1 2; EvBest 10920 [268462369]] /\ (POS_INF <= 10920)%Z /\ ~ Won wall.
Proof.
  assert (HL : LegalPos wall) by (vm_compute; reflexivity).
  split; [exact HL|]. split; [vm_compute; reflexivity|]. split; [vm_compute; discriminate|].
  apply (all_children_escape_sound wall HL). vm_compute. reflexivity.
Qed.
