(* C06, layer 1: the forced-mate predicates of spec/GameValue.v at the level of model states.
     - win / loss respect pos_eq_nc, are monotone in the ply budget, and agree with the inductive Win / Loss;
     - Won s / Lost s (some budget suffices) and the one-step lemmas through the generated successors:
         won_of_child_lost, lost_of_children_won, lost_of_checkmate;
     - Won / Lost depend on the rule key only (same_key_won, same_key_lost): this is what lets a table entry
       stored for one position speak about every legal position with the same hash, under the no-collision
       residue HashRule. *)
From Coq Require Import NArith ZArith List Bool Lia ZifyBool ZifyN ZifyNat Wf_nat.
From WV Require Import Types Bits Attacks Board MoveEnc MoveGen Text Table Eval Search.
From WV Require Import Rules Abs Wf Encode GameValue.
From WV Require Import PosEq ApplyProofs LegalPosProofs PlayProofs GenPawnsNoDup GenLegal HashProofs EvalShortcut EvalProofs.
Import ListNotations.
Import WV.Bits.
Open Scope N_scope.

(* ------------------------------------------------------------------ *)
(* 1. rules level                                                       *)
(* ------------------------------------------------------------------ *)

Lemma strong_nat_ind : forall (Q : nat -> Prop), (forall n, (forall m, (m < n)%nat -> Q m) -> Q n) -> forall n, Q n.
Proof. intros Q H n. apply (well_founded_ind lt_wf). exact H. Qed.

Lemma loss_unfold : forall n p,
  loss n p = match Rules.legal_moves p with
             | [] => king_attacked p (p_turn p)
             | ms => match n with
                     | S (S k) => forallb (fun m => win (S k) (Rules.apply p m)) ms
                     | _ => false
                     end
             end.
Proof. intros [|[|k]] p; reflexivity. Qed.

Lemma win_S : forall k p, win (S k) p = existsb (fun m => loss k (Rules.apply p m)) (Rules.legal_moves p).
Proof. reflexivity. Qed.

Lemma loss_ext_nc : forall n p q, pos_eq_nc p q -> loss n p = loss n q.
Proof.
  induction n as [n IH] using strong_nat_ind. intros p q Hpq.
  rewrite (loss_unfold n p), (loss_unfold n q).
  rewrite <- (legal_moves_ext_nc p q Hpq).
  assert (Ht : p_turn p = p_turn q) by (destruct Hpq as (_ & Ht & _); exact Ht).
  rewrite <- Ht, (king_attacked_ext_nc p q Hpq).
  destruct (Rules.legal_moves p) as [|m0 ms0]; [reflexivity|].
  destruct n as [|[|k]]; [reflexivity|reflexivity|].
  apply forallb_pointwise. intros m. rewrite !win_S.
  pose proof (apply_ext_nc p q Hpq m) as Ha.
  rewrite <- (legal_moves_ext_nc _ _ Ha).
  apply existsb_pointwise. intros m'. apply IH; [lia|].
  apply apply_ext_nc. exact Ha.
Qed.

Lemma win_ext_nc : forall n p q, pos_eq_nc p q -> win n p = win n q.
Proof.
  intros [|k] p q Hpq; [reflexivity|]. rewrite !win_S.
  rewrite <- (legal_moves_ext_nc p q Hpq). apply existsb_pointwise. intros m.
  apply loss_ext_nc. apply apply_ext_nc. exact Hpq.
Qed.

(* a larger budget never hurts *)
Lemma loss_mono2 : forall n p, (loss n p = true -> loss (S n) p = true) /\ (loss (S n) p = true -> loss (S (S n)) p = true).
Proof.
  induction n as [|n IH]; intros p.
  - rewrite (loss_unfold 0 p), (loss_unfold 1 p), (loss_unfold 2 p).
    destruct (Rules.legal_moves p); [tauto|]. split; discriminate.
  - split; [exact (proj2 (IH p))|].
    rewrite (loss_unfold (S (S n)) p), (loss_unfold (S (S (S n))) p).
    destruct (Rules.legal_moves p) as [|m0 ms0]; [tauto|].
    intros H. rewrite forallb_forall in H |- *. intros m Hm. specialize (H m Hm).
    rewrite win_S in H |- *. apply existsb_exists in H. destruct H as [m' [Hm' Hl]].
    apply existsb_exists. exists m'. split; [exact Hm'|]. exact (proj1 (IH _) Hl).
Qed.

Lemma loss_mono : forall n k p, loss n p = true -> loss (n + k) p = true.
Proof.
  intros n k p H. induction k as [|k IH]; [rewrite Nat.add_0_r; exact H|].
  rewrite Nat.add_succ_r. exact (proj1 (loss_mono2 _ p) IH).
Qed.

Lemma loss_mono_le : forall n n' p, (n <= n')%nat -> loss n p = true -> loss n' p = true.
Proof. intros n n' p Hle H. replace n' with (n + (n' - n))%nat by lia. apply loss_mono. exact H. Qed.

Lemma win_mono_le : forall n n' p, (n <= n')%nat -> win n p = true -> win n' p = true.
Proof.
  intros [|k] n' p Hle H; [discriminate H|]. destruct n' as [|k']; [lia|].
  rewrite win_S in H |- *. apply existsb_exists in H. destruct H as [m [Hm Hl]].
  apply existsb_exists. exists m. split; [exact Hm|]. apply (loss_mono_le k k'); [lia|exact Hl].
Qed.

(* the boolean fixpoints decide the inductive reading *)
Lemma loss_Loss : forall n p, (loss n p = true -> Loss n p) /\ (win n p = true -> Win n p).
Proof.
  induction n as [n IH] using strong_nat_ind. intros p. split.
  - rewrite loss_unfold. destruct (Rules.legal_moves p) as [|m0 ms0] eqn:El.
    + intros H. apply Loss_now; assumption.
    + destruct n as [|[|k]]; [discriminate|discriminate|]. intros H.
      apply Loss_step; [rewrite El; discriminate|]. intros m Hm. rewrite El in Hm.
      rewrite forallb_forall in H. specialize (H m Hm). rewrite win_S in H.
      apply existsb_exists in H. destruct H as [m' [Hm' Hl]].
      apply (Win_step k _ m' Hm'). apply (IH k); [lia|exact Hl].
  - destruct n as [|k]; [discriminate|]. rewrite win_S. intros H.
    apply existsb_exists in H. destruct H as [m [Hm Hl]].
    apply (Win_step k p m Hm). apply (IH k); [lia|exact Hl].
Qed.

Lemma Loss_loss : forall n p, (Loss n p -> loss n p = true) /\ (Win n p -> win n p = true).
Proof.
  induction n as [n IH] using strong_nat_ind. intros p. split.
  - intros H. inversion H as [n0 p0 Hnil Hk | n0 p0 Hne Hall]; subst.
    + rewrite loss_unfold, Hnil. exact Hk.
    + rewrite loss_unfold. destruct (Rules.legal_moves p) as [|m0 ms0] eqn:El; [contradiction Hne; reflexivity|].
      apply forallb_forall. intros m Hm. apply (IH (S n0)); [lia|]. apply Hall. exact Hm.
  - intros H. inversion H as [k p0 m Hm Hl]; subst. rewrite win_S. apply existsb_exists.
    exists m. split; [exact Hm|]. apply (IH k); [lia|exact Hl].
Qed.

Theorem loss_iff_Loss : forall n p, loss n p = true <-> Loss n p.
Proof. intros n p. split; [apply loss_Loss | apply Loss_loss]. Qed.
Theorem win_iff_Win : forall n p, win n p = true <-> Win n p.
Proof. intros n p. split; [apply loss_Loss | apply Loss_loss]. Qed.

(* win / loss only read: the set of legal moves, the check flag, and the successors up to pos_eq_nc *)
Lemma existsb_same_members : forall (A : Type) (f g : A -> bool) (l l' : list A),
  (forall x, In x l <-> In x l') -> (forall x, In x l -> f x = g x) -> existsb f l = existsb g l'.
Proof.
  intros A f g l l' Hm Hfg. destruct (existsb f l) eqn:E; symmetry.
  - apply existsb_exists in E. destruct E as [x [Hx Hf]]. apply existsb_exists. exists x.
    split; [apply Hm; exact Hx|]. rewrite <- (Hfg x Hx). exact Hf.
  - destruct (existsb g l') eqn:E'; [|reflexivity]. apply existsb_exists in E'. destruct E' as [x [Hx Hg]].
    apply Hm in Hx. assert (Ht : existsb f l = true) by (apply existsb_exists; exists x; split; [exact Hx|rewrite (Hfg x Hx); exact Hg]).
    rewrite Ht in E. discriminate E.
Qed.

Lemma forallb_same_members : forall (A : Type) (f g : A -> bool) (l l' : list A),
  (forall x, In x l <-> In x l') -> (forall x, In x l -> f x = g x) -> forallb f l = forallb g l'.
Proof.
  intros A f g l l' Hm Hfg. destruct (forallb f l) eqn:E; symmetry.
  - rewrite forallb_forall in E |- *. intros x Hx. apply Hm in Hx. rewrite <- (Hfg x Hx). exact (E x Hx).
  - destruct (forallb g l') eqn:E'; [|reflexivity]. rewrite forallb_forall in E'.
    assert (Ht : forallb f l = true).
    { apply forallb_forall. intros x Hx. rewrite (Hfg x Hx). apply E'. apply Hm. exact Hx. }
    rewrite Ht in E. discriminate E.
Qed.

Lemma value_same_moves : forall p q,
  (forall mv, In mv (Rules.legal_moves p) <-> In mv (Rules.legal_moves q)) ->
  king_attacked p (p_turn p) = king_attacked q (p_turn q) ->
  (forall mv, pos_eq_nc (Rules.apply p mv) (Rules.apply q mv)) ->
  forall n, loss n p = loss n q /\ win n p = win n q.
Proof.
  intros p q Hm Hk Ha n. split.
  - rewrite (loss_unfold n p), (loss_unfold n q).
    destruct (Rules.legal_moves p) as [|m0 ms0] eqn:Ep, (Rules.legal_moves q) as [|m1 ms1] eqn:Eq.
    + exact Hk.
    + exfalso. exact (proj2 (Hm m1) (or_introl eq_refl)).
    + exfalso. exact (proj1 (Hm m0) (or_introl eq_refl)).
    + destruct n as [|[|k]]; [reflexivity|reflexivity|].
      apply forallb_same_members; [exact Hm|]. intros mv _. apply win_ext_nc. apply Ha.
  - destruct n as [|k]; [reflexivity|]. rewrite !win_S.
    apply existsb_same_members; [exact Hm|]. intros mv _. apply loss_ext_nc. apply Ha.
Qed.

(* ------------------------------------------------------------------ *)
(* 2. state level                                                       *)
(* ------------------------------------------------------------------ *)

Definition Won (s : state) : Prop := exists n, win n (abs s) = true.      (* the side to move can force mate *)
Definition Lost (s : state) : Prop := exists n, loss n (abs s) = true.    (* the side to move is mated or cannot avoid it *)

Lemma succ_abs : forall s m ns, LegalPos s -> In (m, ns) (gen_legal s) ->
  LegalPos ns /\ In (absm m) (Rules.legal_moves (abs s)) /\ pos_eq_nc (abs ns) (Rules.apply (abs s) (absm m)).
Proof.
  intros s m ns HL Hin. destruct (gen_legal_props s m ns HL Hin) as (_ & HLn & He & Hm & _).
  split; [exact HLn|]. split; [exact Hm|].
  apply (pos_eq_nc_trans _ _ _ (pos_eq_nc_of _ _ He)). apply apply_sat_nc.
Qed.

Lemma rules_move_succ : forall s mv, LegalPos s -> In mv (Rules.legal_moves (abs s)) ->
  exists m ns, In (m, ns) (gen_legal s) /\ absm m = mv.
Proof.
  intros s mv HL Hin. pose proof Hin as Hin'. apply legal_moves_In in Hin'. destruct Hin' as (Hf & Ht & _ & Hl).
  destruct (legal_step s mv HL Hl Ht) as (ns & Ha & _ & _).
  exists (enc_move s mv), ns. split.
  - apply (gen_legal_spec s _ ns HL). exists mv. auto.
  - exact (absm_enc_move s mv (legal_move_ok s mv HL Hl Ht)).
Qed.

Theorem won_of_child_lost : forall s m ns, LegalPos s -> In (m, ns) (gen_legal s) -> Lost ns -> Won s.
Proof.
  intros s m ns HL Hin [n Hn]. destruct (succ_abs s m ns HL Hin) as (_ & Hm & Hnc).
  exists (S n). rewrite win_S. apply existsb_exists. exists (absm m). split; [exact Hm|].
  rewrite <- (loss_ext_nc n _ _ Hnc). exact Hn.
Qed.

Lemma uniform_budget : forall (A : Type) (f : nat -> A -> bool) (l : list A),
  (forall n n' x, (n <= n')%nat -> f n x = true -> f n' x = true) ->
  (forall x, In x l -> exists n, f n x = true) -> exists N, forall x, In x l -> f N x = true.
Proof.
  intros A f l Hmono. induction l as [|x tl IH]; intros H.
  - exists O. intros x [].
  - destruct (H x (or_introl eq_refl)) as [n Hn].
    destruct (IH (fun y Hy => H y (or_intror Hy))) as [N HN].
    exists (Nat.max n N). intros y [<-|Hy].
    + apply (Hmono n); [lia|exact Hn].
    + apply (Hmono N); [lia|exact (HN y Hy)].
Qed.

Theorem lost_of_children_won : forall s, LegalPos s -> gen_legal s <> [] ->
  (forall m ns, In (m, ns) (gen_legal s) -> Won ns) -> Lost s.
Proof.
  intros s HL Hne Hall.
  assert (Hex : forall mv, In mv (Rules.legal_moves (abs s)) -> exists n, win n (Rules.apply (abs s) mv) = true).
  { intros mv Hmv. destruct (rules_move_succ s mv HL Hmv) as (m & ns & Hin & <-).
    destruct (Hall m ns Hin) as [n Hn]. destruct (succ_abs s m ns HL Hin) as (_ & _ & Hnc).
    exists n. rewrite <- (win_ext_nc n _ _ Hnc). exact Hn. }
  destruct (uniform_budget move (fun n mv => win n (Rules.apply (abs s) mv)) (Rules.legal_moves (abs s))
              (fun n n' x Hle H => win_mono_le n n' _ Hle H) Hex) as [N HN].
  exists (S (S N)). rewrite loss_unfold.
  destruct (Rules.legal_moves (abs s)) as [|m0 ms0] eqn:El.
  - exfalso. apply Hne. apply (gen_legal_nil_iff s HL). exact El.
  - apply forallb_forall. intros mv Hmv. apply (win_mono_le N (S N)); [lia|]. exact (HN mv Hmv).
Qed.

Theorem lost_of_checkmate : forall s, LegalPos s -> gen_legal s = [] -> is_check s = true -> Lost s.
Proof.
  intros s HL Hg Hc. exists O. rewrite loss_unfold.
  rewrite (proj1 (gen_legal_nil_iff s HL) Hg).
  rewrite <- (is_check_rules s (proj1 (EvalShortcut.legal_pos_wf s HL))). exact Hc.
Qed.

(* ------------------------------------------------------------------ *)
(* 3. Won / Lost depend on the rule key only                            *)
(* ------------------------------------------------------------------ *)

Lemma apply_no_ep : forall a t r e e' h h' f f' mv,
  pos_eq_nc (Rules.apply (mkPos a t r e h f) mv) (Rules.apply (mkPos a t r e' h' f') mv).
Proof. intros. unfold pos_eq_nc. repeat split; reflexivity. Qed.

Lemma same_key_moves : forall s1 s2, LegalPos s1 -> LegalPos s2 -> rulekey s1 = rulekey s2 ->
  forall mv, In mv (Rules.legal_moves (abs s1)) -> In mv (Rules.legal_moves (abs s2)).
Proof.
  intros s1 s2 H1 H2 E mv Hin.
  pose proof Hin as Hin'. apply legal_moves_In in Hin'. destruct Hin' as (_ & Ht & _ & Hl).
  assert (Hm1 : In (enc_move s1 mv) (MoveGen.legal_moves s1)).
  { apply (legal_moves_spec s1 _ H1). exists mv. auto. }
  unfold MoveGen.legal_moves in Hm1.
  rewrite (same_key_same_moves s1 s2 (GenPawnsNoDup.legal_pos_wf s1 H1) (GenPawnsNoDup.legal_pos_wf s2 H2) E) in Hm1.
  destruct (legal_moves_canonical s2 _ H2 Hm1) as [Hc _].
  rewrite (absm_enc_move s1 mv (legal_move_ok s1 mv H1 Hl Ht)) in Hc. exact Hc.
Qed.

Lemma same_key_value : forall s1 s2, LegalPos s1 -> LegalPos s2 -> rulekey s1 = rulekey s2 ->
  forall n, loss n (abs s1) = loss n (abs s2) /\ win n (abs s1) = win n (abs s2).
Proof.
  intros s1 s2 H1 H2 E. apply value_same_moves.
  - intros mv. split; [apply same_key_moves; assumption | apply same_key_moves; [assumption|assumption|symmetry; exact E]].
  - rewrite <- !(is_check_rules _ (GenPawnsNoDup.legal_pos_wf _ H1)), <- !(is_check_rules _ (GenPawnsNoDup.legal_pos_wf _ H2)).
    unfold rulekey in E. injection E as Eb Et _ _ _ _ _. unfold is_check. rewrite Eb, Et. reflexivity.
  - intros mv. unfold rulekey in E. injection E as Eb Et Ewk Ewq Ebk Ebq _.
    unfold abs. rewrite Eb, Et.
    assert (Er : castle_right s1 = castle_right s2).
    { unfold castle_right. rewrite Ewk, Ewq, Ebk, Ebq. reflexivity. }
    rewrite Er. apply apply_no_ep.
Qed.

Theorem same_key_won : forall s1 s2, LegalPos s1 -> LegalPos s2 -> rulekey s1 = rulekey s2 -> Won s1 -> Won s2.
Proof. intros s1 s2 H1 H2 E [n Hn]. exists n. rewrite <- (proj2 (same_key_value s1 s2 H1 H2 E n)). exact Hn. Qed.

Theorem same_key_lost : forall s1 s2, LegalPos s1 -> LegalPos s2 -> rulekey s1 = rulekey s2 -> Lost s1 -> Lost s2.
Proof. intros s1 s2 H1 H2 E [n Hn]. exists n. rewrite <- (proj1 (same_key_value s1 s2 H1 H2 E n)). exact Hn. Qed.

(* ------------------------------------------------------------------ *)
(* 4. refuting Won / Lost (used for the counterexample of C06)          *)
(* ------------------------------------------------------------------ *)

(* a move after which the opponent has no legal move at all (mate or stalemate) means: not lost *)
Theorem not_lost_of_dead_end : forall s m ns, LegalPos s -> In (m, ns) (gen_legal s) -> gen_legal ns = [] -> ~ Lost s.
Proof.
  intros s m ns HL Hin Hnil [n Hn]. destruct (succ_abs s m ns HL Hin) as (HLn & Hm & Hnc).
  rewrite loss_unfold in Hn. destruct (Rules.legal_moves (abs s)) as [|m0 ms0] eqn:El; [destruct Hm|].
  destruct n as [|[|k]]; [discriminate Hn|discriminate Hn|].
  rewrite forallb_forall in Hn. specialize (Hn (absm m) Hm).
  rewrite <- (win_ext_nc (S k) _ _ Hnc), win_S in Hn.
  rewrite (proj1 (gen_legal_nil_iff ns HLn) Hnil) in Hn. discriminate Hn.
Qed.

Theorem not_won_of_children : forall s, LegalPos s -> (forall m ns, In (m, ns) (gen_legal s) -> ~ Lost ns) -> ~ Won s.
Proof.
  intros s HL Hall [n Hn]. destruct n as [|k]; [discriminate Hn|]. rewrite win_S in Hn.
  apply existsb_exists in Hn. destruct Hn as [mv [Hmv Hl]].
  destruct (rules_move_succ s mv HL Hmv) as (m & ns & Hin & <-).
  destruct (succ_abs s m ns HL Hin) as (_ & _ & Hnc).
  apply (Hall m ns Hin). exists k. rewrite (loss_ext_nc k _ _ Hnc). exact Hl.
Qed.

Definition dead_end_reply (c : state) : bool :=
  existsb (fun mc => match gen_legal (snd mc) with [] => true | _ => false end) (gen_legal c).
Definition all_children_escape (s : state) : bool :=
  forallb (fun mc => legal_posb (snd mc) && dead_end_reply (snd mc)) (gen_legal s).

Theorem all_children_escape_sound : forall s, LegalPos s -> all_children_escape s = true -> ~ Won s.
Proof.
  intros s HL H. apply (not_won_of_children s HL). intros m ns Hin.
  unfold all_children_escape in H. rewrite forallb_forall in H. specialize (H (m, ns) Hin). cbn [snd] in H.
  apply andb_true_iff in H. destruct H as [HLn H]. unfold dead_end_reply in H.
  apply existsb_exists in H. destruct H as [[m2 c2] [Hin2 Hd]]. cbn [snd] in Hd.
  destruct (gen_legal c2) eqn:E; [|discriminate Hd].
  exact (not_lost_of_dead_end ns m2 c2 HLn Hin2 E).
Qed.
