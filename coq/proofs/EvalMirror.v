(* C13, second half: mirroring (flip ranks, swap colours) leaves the heuristic score unchanged when it is
   read from the mirrored perspective.

   mirror_bb x        the bitboard with every set bit s moved to flip_rank s
   mirror_board b     every slot mirrored, the colours exchanged
   mirror_state s     mirror_board, the other side to move, castling rights exchanged, e.p. square flipped

   REUSABLE STATEMENTS
     mirror_bb_test mirror_bb_lt count_ones_mirror mirror_bb_land pocc_mirror
     mirror_heuristic  : WfBoard b -> (forall c, count b c King <= 1) ->
                         heuristic (mirror_board b) (opp p) = heuristic b p
     mirror_heuristic_legal : LegalPos s -> heuristic (mirror_board (st_board s)) (opp p) = heuristic (st_board s) p
     mirror_wf / mirror_wf_state : WfBoard b -> WfBoard (mirror_board b), WfState s -> WfState (mirror_state s) *)
From WV Require Import Types Bits Attacks Board MoveEnc MoveGen Rules Abs Wf Encode Eval.
From WV Require Import BitsProofs AttacksProofs BoardProofs BoardAlg ApplyProofs LegalPosProofs GenPieces GenPawns.
From WV Require Import EvalF32 EvalShortcut EvalProofs.
From Coq Require Import Lia ZifyBool ZifyN ZifyNat Permutation.
Import WV.Bits.
Ltac Zify.zify_post_hook ::= Z.div_mod_to_equations.
Open Scope N_scope.
Arguments N.add : simpl never.
Arguments N.sub : simpl never.
Arguments N.mul : simpl never.
Arguments N.div : simpl never.
Arguments N.modulo : simpl never.
Arguments N.land : simpl never.
Arguments N.lor : simpl never.
Arguments Z.add : simpl never.
Arguments Z.sub : simpl never.
Arguments Z.mul : simpl never.

Definition mirror_bb (x : N) : N := bb_of_list (map flip_rank (iter_ones x)).

Definition mirror_board (b : board) : board :=
  mkBoard (mirror_bb (bP b)) (mirror_bb (bN b)) (mirror_bb (bB b)) (mirror_bb (bR b)) (mirror_bb (bQ b)) (mirror_bb (bK b))
          (mirror_bb (wP b)) (mirror_bb (wN b)) (mirror_bb (wB b)) (mirror_bb (wR b)) (mirror_bb (wQ b)) (mirror_bb (wK b)).

Definition mirror_state (s : state) : state :=
  mkState (mirror_board (st_board s)) (opp (st_turn s)) (st_bk s) (st_bq s) (st_wk s) (st_wq s)
          (option_map flip_rank (st_ep s)) (st_half s) (st_full s).

(* ---------- flip_rank ---------- *)
Lemma flip_rank_lt : forall s, flip_rank s < 64.
Proof. intros s. unfold flip_rank, mk_square, rank_of, file_of. lia. Qed.

Lemma flip_rank_invol : forall s, s < 64 -> flip_rank (flip_rank s) = s.
Proof. intros s H. unfold flip_rank, mk_square, rank_of, file_of. lia. Qed.

Lemma flip_rank_coords : forall s, s < 64 ->
  rank_of (flip_rank s) = 7 - rank_of s /\ file_of (flip_rank s) = file_of s /\ rank_of s <= 7 /\ file_of s <= 7.
Proof. intros s H. unfold flip_rank, mk_square, rank_of, file_of. lia. Qed.

(* ---------- mirror_bb ---------- *)
Lemma mirror_bb_in : forall x t, test (mirror_bb x) t = true <-> In t (map flip_rank (iter_ones x)).
Proof. intros x t. unfold mirror_bb. apply bb_of_list_spec. Qed.

Lemma mirror_bb_test : forall x t, x < 2 ^ 64 ->
  (test (mirror_bb x) t = true <-> t < 64 /\ test x (flip_rank t) = true).
Proof.
  intros x t Hx. rewrite mirror_bb_in, in_map_iff. split.
  - intros [s [E Hs]]. apply iter_ones_spec in Hs. pose proof (test_lt64 x s Hx Hs) as Hs64.
    subst t. split; [apply flip_rank_lt|]. rewrite (flip_rank_invol s Hs64). exact Hs.
  - intros [Ht H]. exists (flip_rank t). split; [exact (flip_rank_invol t Ht)|]. apply iter_ones_spec. exact H.
Qed.

Lemma mirror_bb_lt : forall x, mirror_bb x < 2 ^ 64.
Proof.
  intros x. apply lt_pow2_of_bits. intros k Hk. destruct (N.testbit (mirror_bb x) k) eqn:E; [|reflexivity].
  exfalso. apply (mirror_bb_in x k) in E. apply in_map_iff in E. destruct E as [s [E _]].
  pose proof (flip_rank_lt s). lia.
Qed.

Lemma mirror_bb_0 : mirror_bb 0 = 0.
Proof. reflexivity. Qed.

Lemma mirror_perm : forall x, x < 2 ^ 64 -> Permutation (iter_ones (mirror_bb x)) (map flip_rank (iter_ones x)).
Proof.
  intros x Hx. apply NoDup_Permutation.
  - apply GenPieces.iter_ones_NoDup.
  - apply NoDup_map_inj_on; [|apply GenPieces.iter_ones_NoDup].
    intros a b Ha Hb E. apply iter_ones_spec in Ha, Hb.
    rewrite <- (flip_rank_invol a (test_lt64 x a Hx Ha)), <- (flip_rank_invol b (test_lt64 x b Hx Hb)), E.
    reflexivity.
  - intros t. rewrite iter_ones_spec. apply mirror_bb_in.
Qed.

Lemma count_ones_mirror : forall x, x < 2 ^ 64 -> count_ones (mirror_bb x) = count_ones x.
Proof.
  intros x Hx. unfold count_ones. rewrite (Permutation_length (mirror_perm x Hx)), map_length. reflexivity.
Qed.

Lemma bits_eq_lt : forall x y, x < 2 ^ 64 -> y < 2 ^ 64 ->
  (forall t, t < 64 -> N.testbit x t = N.testbit y t) -> x = y.
Proof.
  intros x y Hx Hy H. apply N.bits_inj. intros t. destruct (N.ltb_spec t 64) as [L|L]; [exact (H t L)|].
  rewrite (testbit_high x 64 t Hx L), (testbit_high y 64 t Hy L). reflexivity.
Qed.

Lemma mirror_bb_bit : forall x t, x < 2 ^ 64 -> t < 64 -> N.testbit (mirror_bb x) t = N.testbit x (flip_rank t).
Proof.
  intros x t Hx Ht. apply eq_iff_eq_true. fold (test (mirror_bb x) t). fold (test x (flip_rank t)).
  rewrite (mirror_bb_test x t Hx). tauto.
Qed.

(* masks that are unions of files are unchanged by the flip *)
Definition flip_inv (m : N) : Prop := forall t, t < 64 -> N.testbit m (flip_rank t) = N.testbit m t.

Lemma mirror_bb_land : forall x m, x < 2 ^ 64 -> flip_inv m ->
  N.land (mirror_bb x) m = mirror_bb (N.land x m).
Proof.
  intros x m Hx Hm. apply bits_eq_lt; [apply land_lt, mirror_bb_lt | apply mirror_bb_lt |].
  intros t Ht. rewrite N.land_spec, (mirror_bb_bit x t Hx Ht).
  rewrite (mirror_bb_bit _ t (land_lt _ _ Hx) Ht), N.land_spec, (Hm t Ht). reflexivity.
Qed.

Lemma flip_inv_0 : flip_inv 0.
Proof. intros t _. rewrite !N.bits_0. reflexivity. Qed.

Lemma flip_inv_lor : forall a b, flip_inv a -> flip_inv b -> flip_inv (N.lor a b).
Proof. intros a b Ha Hb t Ht. rewrite !N.lor_spec, (Ha t Ht), (Hb t Ht). reflexivity. Qed.

Lemma flip_inv_file_mask : forall f, flip_inv (file_mask f).
Proof.
  intros f. unfold file_mask, nthN.
  assert (Hall : forallb (fun m => forallb (fun t => Bool.eqb (N.testbit m (flip_rank t)) (N.testbit m t)) squares)
                         (0 :: file_masks) = true) by (vm_compute; reflexivity).
  rewrite forallb_forall in Hall.
  assert (Hin : In (nth (N.to_nat f) file_masks 0) (0 :: file_masks)).
  { destruct (nth_in_or_default (N.to_nat f) file_masks 0) as [H | ->]; [right; exact H | left; reflexivity]. }
  pose proof (Hall _ Hin) as Hm. intros t Ht. apply Bool.eqb_prop. exact (forallb_squares _ Hm t Ht).
Qed.

Lemma count_ones_0 : forall x, count_ones x = 0 <-> x = 0.
Proof.
  intros x. unfold count_ones. split.
  - intros H. destruct (iter_ones x) as [|k l] eqn:E; [|cbn [length] in H; lia].
    apply N.bits_inj. intros t. rewrite N.bits_0. destruct (N.testbit x t) eqn:Et; [|reflexivity].
    apply iter_ones_spec in Et. rewrite E in Et. destruct Et.
  - intros ->. reflexivity.
Qed.

Lemma mirror_bb_eq0 : forall x, x < 2 ^ 64 -> (mirror_bb x =? 0) = (x =? 0).
Proof.
  intros x Hx. pose proof (count_ones_mirror x Hx) as H.
  pose proof (count_ones_0 x) as H0. pose proof (count_ones_0 (mirror_bb x)) as H1.
  destruct (N.eqb_spec (mirror_bb x) 0) as [E|E]; destruct (N.eqb_spec x 0) as [E'|E']; try reflexivity; exfalso.
  - apply E'. apply H0. rewrite <- H. apply H1. exact E.
  - apply E. apply H1. rewrite H. apply H0. exact E'.
Qed.

(* ---------- the mirrored board ---------- *)
Lemma pocc_mirror : forall b c p, pocc (mirror_board b) c p = mirror_bb (pocc b (opp c) p).
Proof. intros b [|] []; reflexivity. Qed.

Lemma count_mirror : forall b c p, WfBoard b -> count (mirror_board b) c p = count b (opp c) p.
Proof.
  intros b c p Hwf. unfold count. rewrite pocc_mirror, (count_ones_mirror _ (pocc_lt b (opp c) p Hwf)). reflexivity.
Qed.

Lemma occupancy_mirror : forall b, WfBoard b -> occupancy (mirror_board b) = mirror_bb (occupancy b).
Proof.
  intros b Hwf.
  assert (Hlt : occupancy (mirror_board b) < 2 ^ 64).
  { apply lt_pow2_of_bits. intros k Hk. destruct (N.testbit (occupancy (mirror_board b)) k) eqn:E; [|reflexivity].
    exfalso. apply occupancy_test in E. destruct E as [c [p E]]. rewrite pocc_mirror in E.
    pose proof (test_lt64 _ _ (mirror_bb_lt _) E). lia. }
  apply bits_eq_lt; [exact Hlt | apply mirror_bb_lt |].
  intros t Ht. rewrite (mirror_bb_bit _ t (occupancy_lt b Hwf) Ht). apply eq_iff_eq_true.
  fold (test (occupancy (mirror_board b)) t). fold (test (occupancy b) (flip_rank t)).
  rewrite !occupancy_test. split.
  - intros [c [p E]]. rewrite pocc_mirror in E. apply (mirror_bb_test _ t (pocc_lt b (opp c) p Hwf)) in E.
    exists (opp c), p. apply E.
  - intros [c [p E]]. exists (opp c), p. rewrite pocc_mirror, opp_opp.
    apply (mirror_bb_test _ t (pocc_lt b c p Hwf)). split; [exact Ht | exact E].
Qed.

Open Scope Z_scope.

Lemma egw_mirror : forall b, WfBoard b -> end_game_weight (mirror_board b) = end_game_weight b.
Proof.
  intros b Hwf. unfold end_game_weight. cbv zeta.
  rewrite !(count_mirror b _ _ Hwf). cbn [opp].
  rewrite (occupancy_mirror b Hwf), (count_ones_mirror _ (occupancy_lt b Hwf)).
  rewrite (Z.add_comm (count b Black Pawn)), (Z.add_comm (count b Black Queen)). reflexivity.
Qed.

Lemma term_worths_mirror : forall b c, WfBoard b -> term_worths (mirror_board b) c = term_worths b (opp c).
Proof. intros b c Hwf. rewrite !term_worths_eq, !(count_mirror b _ _ Hwf). reflexivity. Qed.

Lemma color_count_mirror : forall b c, WfBoard b -> color_count (mirror_board b) c = color_count b (opp c).
Proof.
  intros b c Hwf. unfold color_count, all_pieces. cbn [fold_left]. rewrite !(count_mirror b _ _ Hwf). reflexivity.
Qed.

(* ---------- piece-square sums ---------- *)
Definition zsum {A} (g : A -> Z) (l : list A) : Z := fold_right (fun x r => g x + r) 0 l.

Lemma fold_add_zsum : forall (A : Type) (g : A -> Z) l a, fold_left (fun a x => a + g x) l a = a + zsum g l.
Proof.
  intros A g l. induction l as [|x tl IH]; intros a; cbn [fold_left zsum fold_right]; [lia|].
  rewrite IH. fold (zsum g tl). lia.
Qed.

Lemma zsum_perm : forall (A : Type) (g : A -> Z) l l', Permutation l l' -> zsum g l = zsum g l'.
Proof.
  intros A g l l' H. induction H; cbn [zsum fold_right] in *; try fold (zsum g l) in *; try fold (zsum g l') in *; lia.
Qed.

Lemma zsum_map : forall (A B : Type) (f : A -> B) (g : B -> Z) l, zsum g (map f l) = zsum (fun x => g (f x)) l.
Proof.
  intros A B f g l. induction l as [|x tl IH]; cbn [map zsum fold_right]; [reflexivity|].
  fold (zsum g (map f tl)). fold (zsum (fun x => g (f x)) tl). rewrite IH. reflexivity.
Qed.

Lemma zsum_ext_in : forall (A : Type) (g h : A -> Z) l, (forall x, In x l -> g x = h x) -> zsum g l = zsum h l.
Proof.
  intros A g h l H. induction l as [|x tl IH]; cbn [zsum fold_right]; [reflexivity|].
  fold (zsum g tl). fold (zsum h tl). rewrite (H x (or_introl eq_refl)), IH; [reflexivity|].
  intros y Hy. apply H. right. exact Hy.
Qed.

Lemma piece_square_flip : forall p sq c egw, (sq < 64)%N ->
  piece_square p (flip_rank sq) (opp c) egw = piece_square p sq c egw.
Proof.
  intros p sq c egw Hsq. unfold piece_square. cbv zeta.
  destruct c; cbn [opp is_white]; rewrite ?(flip_rank_invol sq Hsq); reflexivity.
Qed.

Lemma term_squares_eq : forall b c egw,
  term_squares b c egw =
  zsum (fun p => zsum (fun sq => piece_square p sq c egw) (iter_ones (pocc b c p))) all_pieces.
Proof.
  intros b c egw. unfold term_squares, all_pieces. cbn [fold_left zsum fold_right].
  rewrite !fold_add_zsum. lia.
Qed.

Lemma term_squares_mirror : forall b c egw, WfBoard b ->
  term_squares (mirror_board b) c egw = term_squares b (opp c) egw.
Proof.
  intros b c egw Hwf. rewrite !term_squares_eq. apply zsum_ext_in. intros p _.
  rewrite pocc_mirror. pose proof (pocc_lt b (opp c) p Hwf) as Hx.
  rewrite (zsum_perm _ _ _ _ (mirror_perm _ Hx)), zsum_map.
  apply zsum_ext_in. intros sq Hsq. apply iter_ones_spec in Hsq.
  rewrite <- (opp_opp c) at 1. apply piece_square_flip. exact (test_lt64 _ _ Hx Hsq).
Qed.

(* ---------- king to edge ---------- *)
Lemma single_bit_list : forall x, (count_ones x <= 1)%N -> iter_ones x = [] \/ exists k, iter_ones x = [k].
Proof.
  intros x H. unfold count_ones in H. destruct (iter_ones x) as [|k [|k' l]]; [left; reflexivity | right; exists k; reflexivity|].
  cbn [length] in H. lia.
Qed.

Lemma first_one_single : forall x k, iter_ones x = [k] -> first_one x = Some k.
Proof.
  intros x k E. assert (Hk : test x k = true) by (apply iter_ones_spec; rewrite E; left; reflexivity).
  destruct (first_one_exists x k Hk) as [j Hj]. rewrite Hj. f_equal.
  apply GenPawns.first_one_some in Hj. apply iter_ones_spec in Hj. rewrite E in Hj.
  destruct Hj as [<- | []]. reflexivity.
Qed.

Lemma first_one_mirror : forall x, (x < 2 ^ 64)%N -> (count_ones x <= 1)%N ->
  first_one (mirror_bb x) = option_map flip_rank (first_one x).
Proof.
  intros x Hx H1. destruct (single_bit_list x H1) as [E | [k E]].
  - assert (x = 0%N) by (apply count_ones_0; unfold count_ones; rewrite E; reflexivity). subst x. reflexivity.
  - rewrite (first_one_single x k E). cbn [option_map].
    pose proof (mirror_perm x Hx) as Hp. rewrite E in Hp. cbn [map] in Hp.
    apply Permutation_sym, Permutation_length_1_inv in Hp.
    exact (first_one_single _ _ Hp).
Qed.

Lemma king_edge_expr_flip : forall ours theirs, (ours < 64)%N -> (theirs < 64)%N ->
  let kd o t := zabs_dist (rank_of o) (rank_of t) + zabs_dist (file_of o) (file_of t) in
  let rd t := Z.min (zabs_dist (rank_of t) 0) (zabs_dist (rank_of t) 7) in
  let fd t := Z.min (zabs_dist (file_of t) 0) (zabs_dist (file_of t) 7) in
  kd (flip_rank ours) (flip_rank theirs) = kd ours theirs /\ rd (flip_rank theirs) = rd theirs /\
  fd (flip_rank theirs) = fd theirs.
Proof.
  intros ours theirs Ho Ht. cbv zeta.
  destruct (flip_rank_coords ours Ho) as (-> & -> & ? & ?).
  destruct (flip_rank_coords theirs Ht) as (-> & -> & ? & ?).
  unfold zabs_dist. lia.
Qed.

Lemma term_king_edge_mirror : forall b c egw, WfBoard b -> (forall c', count b c' King <= 1) ->
  term_king_edge (mirror_board b) c egw = term_king_edge b (opp c) egw.
Proof.
  intros b c egw Hwf Hk. unfold term_king_edge.
  destruct (f_ltb egw (f_of_dec king_edge_threshold)); [reflexivity|].
  rewrite !(color_count_mirror b _ Hwf), opp_opp.
  destruct (color_count b (opp c) <? color_count b c + 1); [reflexivity|].
  rewrite !pocc_mirror, opp_opp.
  assert (H1 : forall c', (count_ones (pocc b c' King) <= 1)%N) by (intros c'; specialize (Hk c'); unfold count in Hk; lia).
  rewrite (first_one_mirror _ (pocc_lt b (opp c) King Hwf) (H1 _)).
  rewrite (first_one_mirror _ (pocc_lt b c King Hwf) (H1 _)).
  destruct (first_one (pocc b (opp c) King)) as [ours|] eqn:Eo; cbn [option_map]; [|reflexivity].
  destruct (first_one (pocc b c King)) as [theirs|] eqn:Et; cbn [option_map]; [|reflexivity].
  pose proof (test_lt64 _ _ (pocc_lt b (opp c) King Hwf) (GenPawns.first_one_some _ _ Eo)) as Ho64.
  pose proof (test_lt64 _ _ (pocc_lt b c King Hwf) (GenPawns.first_one_some _ _ Et)) as Ht64.
  destruct (king_edge_expr_flip ours theirs Ho64 Ht64) as (E1 & E2 & E3). cbv zeta in E1, E2, E3 |- *.
  rewrite E1, E2, E3. reflexivity.
Qed.

(* ---------- bad pawns ---------- *)
Lemma fold_left_ext_in : forall (A B : Type) (F G : A -> B -> A) l a,
  (forall a x, In x l -> F a x = G a x) -> fold_left F l a = fold_left G l a.
Proof.
  intros A B F G l. induction l as [|x tl IH]; intros a H; cbn [fold_left]; [reflexivity|].
  rewrite (H a x (or_introl eq_refl)). apply IH. intros a' y Hy. apply H. right. exact Hy.
Qed.

Lemma term_bad_pawns_mirror : forall b c, WfBoard b ->
  term_bad_pawns (mirror_board b) c = term_bad_pawns b (opp c).
Proof.
  intros b c Hwf. unfold term_bad_pawns. cbv zeta. rewrite pocc_mirror.
  pose proof (pocc_lt b (opp c) Pawn Hwf) as Hx.
  apply fold_left_ext_in. intros a f _.
  rewrite (mirror_bb_land _ _ Hx (flip_inv_file_mask f)), (count_ones_mirror _ (land_lt _ _ Hx)).
  assert (Hnb : flip_inv (N.lor (if (f =? 0)%N then 0%N else file_mask (f - 1))
                                (if (f =? 7)%N then 0%N else file_mask (f + 1)))).
  { apply flip_inv_lor; [destruct (f =? 0)%N | destruct (f =? 7)%N]; first [apply flip_inv_0 | apply flip_inv_file_mask]. }
  rewrite (mirror_bb_land _ _ Hx Hnb), (mirror_bb_eq0 _ (land_lt _ _ Hx)). reflexivity.
Qed.

(* ====================================================================== *)
(* C13: mirror                                                            *)
(* ====================================================================== *)

Theorem heuristic_mirror_gen : forall b q, WfBoard b -> (forall c, count b c King <= 1) ->
  heuristic (mirror_board b) q = heuristic b (opp q).
Proof.
  intros b q Hwf Hk. unfold heuristic. cbv zeta.
  rewrite (egw_mirror b Hwf).
  rewrite !(term_worths_mirror b _ Hwf), !(term_squares_mirror b _ _ Hwf),
          !(term_king_edge_mirror b _ _ Hwf Hk), !(term_bad_pawns_mirror b _ Hwf).
  reflexivity.
Qed.

Theorem mirror_heuristic : forall b p, WfBoard b -> (forall c, count b c King <= 1) ->
  heuristic (mirror_board b) (opp p) = heuristic b p.
Proof. intros b p Hwf Hk. rewrite (heuristic_mirror_gen b (opp p) Hwf Hk), opp_opp. reflexivity. Qed.

(* in a legal position each side has exactly one king *)
Lemma legal_one_king : forall s c, LegalPos s -> count (st_board s) c King = 1.
Proof.
  intros s c HL. destruct (legal_pos_wf s HL) as [Hwf _]. pose proof (wf_state_board s Hwf) as Hb.
  destruct (king_square_c s c HL) as [k (Hfo & Hk64 & Hat & Hu)].
  unfold count, count_ones.
  assert (Hall : forall y, In y (iter_ones (pocc (st_board s) c King)) -> y = k).
  { intros y Hy. apply iter_ones_spec in Hy. apply Hu; [exact (test_lt64 _ _ (pocc_lt _ c King Hb) Hy)|].
    apply (piece_at_spec _ _ _ _ Hb). split; [discriminate | exact Hy]. }
  pose proof (GenPieces.iter_ones_NoDup (pocc (st_board s) c King)) as Hnd.
  assert (Hin : In k (iter_ones (pocc (st_board s) c King))).
  { apply iter_ones_spec. exact (GenPawns.first_one_some _ _ Hfo). }
  destruct (iter_ones (pocc (st_board s) c King)) as [|a [|a' l]]; [destruct Hin | reflexivity |].
  exfalso. pose proof (Hall a (or_introl eq_refl)) as Ea. pose proof (Hall a' (or_intror (or_introl eq_refl))) as Ea'.
  subst a a'. inversion Hnd as [|? ? Hn _]. apply Hn. left. reflexivity.
Qed.

Theorem mirror_heuristic_legal : forall s p, LegalPos s ->
  heuristic (st_board (mirror_state s)) (opp p) = heuristic (st_board s) p.
Proof.
  intros s p HL. destruct (legal_pos_wf s HL) as [Hwf _]. cbn [mirror_state st_board].
  apply mirror_heuristic; [exact (wf_state_board s Hwf)|].
  intros c. rewrite (legal_one_king s c HL). lia.
Qed.

(* the mirrored placement is again well formed *)
Lemma mirror_disjoint : forall x y, (x < 2 ^ 64)%N -> (y < 2 ^ 64)%N -> N.land x y = 0%N ->
  (N.land (mirror_bb x) (mirror_bb y) =? 0)%N = true.
Proof.
  intros x y Hx Hy H. apply N.eqb_eq.
  apply bits_eq_lt; [apply land_lt, mirror_bb_lt | reflexivity |].
  intros t Ht. rewrite N.land_spec, (mirror_bb_bit x t Hx Ht), (mirror_bb_bit y t Hy Ht), <- N.land_spec, H.
  reflexivity.
Qed.

Lemma slots_disjoint : forall b c k c' k', WfBoard b -> (c, k) <> (c', k') ->
  N.land (pocc b c k) (pocc b c' k') = 0%N.
Proof.
  intros b c k c' k' Hwf Hne. apply N.bits_inj. intros t. rewrite N.bits_0, N.land_spec.
  destruct (N.testbit (pocc b c k) t) eqn:E1; [|reflexivity].
  destruct (N.testbit (pocc b c' k') t) eqn:E2; [|reflexivity].
  exfalso. apply Hne. exact (wf_disjoint b Hwf c k c' k' t E1 E2).
Qed.

Lemma mirror_slots_disjoint : forall b c k c' k', WfBoard b -> (c, k) <> (c', k') ->
  (N.land (mirror_bb (pocc b c k)) (mirror_bb (pocc b c' k')) =? 0)%N = true.
Proof.
  intros b c k c' k' Hwf Hne.
  exact (mirror_disjoint _ _ (pocc_lt b c k Hwf) (pocc_lt b c' k' Hwf) (slots_disjoint b c k c' k' Hwf Hne)).
Qed.

Theorem mirror_wf : forall b, WfBoard b -> WfBoard (mirror_board b).
Proof.
  intros b Hwf. unfold WfBoard, wf_boardb.
  cbn [all_slots mirror_board wP wN wB wR wQ wK bP bN bB bR bQ bK forallb pairwise_disjoint].
  rewrite !andb_true_iff.
  repeat split;
    try (apply N.ltb_lt; rewrite two64_eq; apply mirror_bb_lt);
    match goal with
    | |- (N.land (mirror_bb ?X) (mirror_bb ?Y) =? 0)%N = true =>
        let cx := match X with
                  | wP b => constr:((White, Pawn)) | wN b => constr:((White, Knight)) | wB b => constr:((White, Bishop))
                  | wR b => constr:((White, Rook)) | wQ b => constr:((White, Queen)) | wK b => constr:((White, King))
                  | bP b => constr:((Black, Pawn)) | bN b => constr:((Black, Knight)) | bB b => constr:((Black, Bishop))
                  | bR b => constr:((Black, Rook)) | bQ b => constr:((Black, Queen)) | bK b => constr:((Black, King))
                  end in
        let cy := match Y with
                  | wP b => constr:((White, Pawn)) | wN b => constr:((White, Knight)) | wB b => constr:((White, Bishop))
                  | wR b => constr:((White, Rook)) | wQ b => constr:((White, Queen)) | wK b => constr:((White, King))
                  | bP b => constr:((Black, Pawn)) | bN b => constr:((Black, Knight)) | bB b => constr:((Black, Bishop))
                  | bR b => constr:((Black, Rook)) | bQ b => constr:((Black, Queen)) | bK b => constr:((Black, King))
                  end in
        exact (mirror_slots_disjoint b (fst cx) (snd cx) (fst cy) (snd cy) Hwf ltac:(cbn [fst snd]; discriminate))
    | |- True => exact I
    end.
Qed.

Theorem mirror_wf_state : forall s, WfState s -> WfState (mirror_state s).
Proof.
  intros s H. unfold WfState, wf_stateb in *. rewrite !andb_true_iff in H. destruct H as [[[H1 H2] H3] H4].
  cbn [mirror_state st_board st_ep st_half st_full]. rewrite (mirror_wf _ H1), H3, H4.
  assert (E : match option_map flip_rank (st_ep s) with Some t => (t <? 64)%N | None => true end = true).
  { destruct (st_ep s) as [t|]; cbn [option_map]; [apply N.ltb_lt, flip_rank_lt | reflexivity]. }
  rewrite E. reflexivity.
Qed.

Print Assumptions mirror_heuristic.
Print Assumptions mirror_heuristic_legal.
