(* C05, part 1: the king-move shortcut of Evaluator::evaluate is sound.
   If the side to move is not in check and some king-neighbour square is empty and outside the opponent's
   attack set, the king step onto it is a legal move of the rules; hence the generator's legal list is
   not empty and the shortcut "king_has_move => not terminal" never disagrees with the generator.

   REUSABLE STATEMENTS
     clear_path_vacate / attacks_from_vacate   converse monotonicity when one square (f) becomes empty:
                                               an attack after the change is an attack before it, on
                                               the same target or on the vacated square
     king_step_legal     rules level: a king step to an empty, unattacked square when not in check is legal
     king_square_c / king_square   LegalPos s -> first_one (pocc b c King) = Some ksq, ksq holds the only king of c
     shortcut_sound      LegalPos s -> is_check s = false -> any valid = true -> gen_legal s <> [] *)
From WV Require Import Types Bits Attacks Board MoveEnc MoveGen Rules Abs Wf Encode Eval.
From WV Require Import BitsProofs BoardProofs MoveEncProofs PosEq BoardAlg ApplyProofs LegalPosProofs.
From WV Require Import GenPieces GenPawns KingPrefilter GenLegal GenCount.
From Coq Require Import Lia ZifyBool ZifyN ZifyNat.
Import WV.Bits.
Ltac Zify.zify_post_hook ::= Z.div_mod_to_equations.
Open Scope N_scope.
Arguments N.add : simpl never.
Arguments N.sub : simpl never.
Arguments N.mul : simpl never.
Arguments N.div : simpl never.
Arguments N.modulo : simpl never.
Arguments N.land : simpl never.
Arguments N.lor : simpl never.
Arguments Z.add : simpl never.
Arguments Z.sub : simpl never.
Arguments Z.mul : simpl never.

(* ====================================================================== *)
(* converse monotonicity of paths                                         *)
(* ====================================================================== *)

Lemma clear_path_vacate : forall p p' f fuel x y sx sy x' y',
  (forall sq, empty_at p' sq = true -> sq = f \/ empty_at p sq = true) ->
  clear_path p' fuel x y sx sy x' y' = true ->
  clear_path p fuel x y sx sy x' y' = true \/
  exists m, (1 <= m)%Z /\ sfile f = (x + m * sx)%Z /\ srank f = (y + m * sy)%Z /\
            clear_path p fuel x y sx sy (sfile f) (srank f) = true.
Proof.
  intros p p' f fuel. induction fuel as [|k IH]; intros x y sx sy x' y' Hm H; cbn [clear_path] in *;
    [discriminate H|].
  destruct (((x + sx =? x') && (y + sy =? y'))%Z) eqn:E; [left; reflexivity|].
  rewrite !andb_true_iff in H. destruct H as [[Hb He] Hc].
  destruct (Hm _ He) as [Ef | Hep].
  - right. exists 1%Z. destruct (sq_of_on_board_inj _ _ _ Hb Ef) as [E1 E2].
    split; [lia|]. split; [lia|]. split; [lia|].
    rewrite <- E1, <- E2, !Z.eqb_refl. reflexivity.
  - destruct (IH _ _ _ _ _ _ Hm Hc) as [Hl | [m (Hm1 & Hf & Hr & Hl)]].
    + left. rewrite Hb, Hep, Hl. reflexivity.
    + right. exists (m + 1)%Z. split; [lia|]. split; [lia|]. split; [lia|].
      destruct (((x + sx =? sfile f) && (y + sy =? srank f))%Z); [reflexivity|].
      rewrite Hb, Hep, Hl. reflexivity.
Qed.

Lemma sgn_cases : forall d, (Z.sgn d = 0 /\ d = 0 \/ Z.sgn d = 1 /\ 0 < d \/ Z.sgn d = -1 /\ d < 0)%Z.
Proof. intros d. lia. Qed.

Lemma attacks_from_vacate : forall p p' c k a t f,
  (forall sq, empty_at p' sq = true -> sq = f \/ empty_at p sq = true) ->
  attacks_from p' c k a t = true ->
  attacks_from p c k a t = true \/ attacks_from p c k a f = true.
Proof.
  intros p p' c k a t f Hm H. unfold attacks_from in *. cbv zeta in *.
  set (df := (sfile t - sfile a)%Z) in *. set (dr := (srank t - srank a)%Z) in *.
  assert (Hline : forall cond,
            cond && clear_path p' 7 (sfile a) (srank a) (Z.sgn df) (Z.sgn dr) (sfile t) (srank t) = true ->
            cond && clear_path p 7 (sfile a) (srank a) (Z.sgn df) (Z.sgn dr) (sfile t) (srank t) = true \/
            (cond = true /\
             exists m, (1 <= m)%Z /\ (sfile f - sfile a = m * Z.sgn df)%Z /\
                       (srank f - srank a = m * Z.sgn dr)%Z /\
                       clear_path p 7 (sfile a) (srank a) (Z.sgn df) (Z.sgn dr) (sfile f) (srank f) = true)).
  { intros cond Hc. apply andb_true_iff in Hc. destruct Hc as [Hc Hp].
    destruct (clear_path_vacate p p' f _ _ _ _ _ _ _ Hm Hp) as [Hl | [m (H1 & H2 & H3 & H4)]].
    - left. rewrite Hc, Hl. reflexivity.
    - right. split; [exact Hc|]. exists m. repeat split; try assumption; lia. }
  destruct k; [left; exact H | left; exact H | left; exact H | | | | left; exact H].
  - (* Bishop *)
    destruct (Hline _ H) as [Hl | [Hc [m (H1 & H2 & H3 & H4)]]]; [left; exact Hl|]. right.
    rewrite H2, H3.
    destruct (sgn_cases df) as [[E ?]|[[E ?]|[E ?]]]; destruct (sgn_cases dr) as [[E' ?]|[[E' ?]|[E' ?]]];
      rewrite ?E, ?E' in *;
      try (exfalso; lia);
      rewrite !(sgn_mul_unit m) by lia; rewrite H4, andb_true_r; lia.
  - (* Rook *)
    destruct (Hline _ H) as [Hl | [Hc [m (H1 & H2 & H3 & H4)]]]; [left; exact Hl|]. right.
    rewrite H2, H3.
    destruct (sgn_cases df) as [[E ?]|[[E ?]|[E ?]]]; destruct (sgn_cases dr) as [[E' ?]|[[E' ?]|[E' ?]]];
      rewrite ?E, ?E' in *;
      try (exfalso; lia);
      rewrite !(sgn_mul_unit m) by lia; rewrite H4, andb_true_r; lia.
  - (* Queen *)
    destruct (Hline _ H) as [Hl | [Hc [m (H1 & H2 & H3 & H4)]]]; [left; exact Hl|]. right.
    rewrite H2, H3.
    destruct (sgn_cases df) as [[E ?]|[[E ?]|[E ?]]]; destruct (sgn_cases dr) as [[E' ?]|[[E' ?]|[E' ?]]];
      rewrite ?E, ?E' in *;
      try (exfalso; lia);
      rewrite !(sgn_mul_unit m) by lia; rewrite H4, andb_true_r; lia.
Qed.

(* ====================================================================== *)
(* the king step, rules level                                             *)
(* ====================================================================== *)

Theorem king_step_legal : forall p f t, f < 64 -> t < 64 ->
  p_at p f = Some (p_turn p, King) ->
  (forall y, y < 64 -> p_at p y = Some (p_turn p, King) -> y = f) ->
  attacks_from p (p_turn p) King f t = true ->
  empty_at p t = true ->
  attacked p (opp (p_turn p)) t = false ->
  attacked p (opp (p_turn p)) f = false ->
  Rules.legal p (mkMove f t None) = true.
Proof.
  intros p f t Hf64 Ht64 Hk Huniq Hstep Hempty Hnt Hnf.
  set (c := p_turn p) in *. set (mv := mkMove f t None).
  assert (Hft : f <> t).
  { intros ->. unfold empty_at in Hempty. rewrite Hk in Hempty. discriminate Hempty. }
  assert (Hpl : Rules.pseudo_legal p mv = true).
  { unfold Rules.pseudo_legal. cbv zeta. cbn [mv mv_from mv_to mv_promo]. fold c. rewrite Hk.
    rewrite color_eqb_refl. cbn [andb].
    assert (Hca : colour_at p t c = false).
    { unfold colour_at. unfold empty_at in Hempty. destruct (p_at p t); [discriminate Hempty | reflexivity]. }
    rewrite Hca. apply N.eqb_neq in Hft. rewrite Hft. cbn [negb andb]. rewrite Hstep. reflexivity. }
  unfold legal. rewrite Hpl. cbn [andb]. apply negb_true_iff.
  assert (Hep : ep_flag p King f t = false) by reflexivity.
  assert (Hca : castle_flag King f t = false).
  { unfold castle_flag. cbn [piece_eqb piece_to_N N.eqb Pos.eqb andb]. apply Z.eqb_neq.
    pose proof (king_attack_df _ _ _ _ Hstep). lia. }
  assert (Hafter : forall y, p_at (Rules.apply p mv) y =
             if y =? t then Some (c, King) else if y =? f then None else p_at p y).
  { intros y. rewrite (apply_at_gen p mv c King y Hk). cbn [mv mv_from mv_to mv_promo]. fold c.
    rewrite Hep, Hca. cbn [andb placed_kind]. reflexivity. }
  assert (Hm : forall sq, empty_at (Rules.apply p mv) sq = true -> sq = f \/ empty_at p sq = true).
  { intros sq He. unfold empty_at in *. rewrite Hafter in He.
    destruct (N.eqb_spec sq t) as [E|E]; [discriminate He|].
    destruct (N.eqb_spec sq f) as [E'|E']; [left; exact E' | right; exact He]. }
  destruct (king_attacked (Rules.apply p mv) c) eqn:Eka; [exfalso | exact Eka].
  unfold king_attacked in Eka. apply existsb_exists in Eka. destruct Eka as [x [Hx Eka]].
  apply all_squares_In in Hx. apply andb_true_iff in Eka. destruct Eka as [Hhas Hatt].
  apply has_iff in Hhas. rewrite Hafter in Hhas.
  destruct (N.eqb_spec x t) as [Ext|Ext].
  2:{ destruct (N.eqb_spec x f) as [Exf|Exf]; [discriminate Hhas|]. apply Exf. exact (Huniq x Hx Hhas). }
  subst x. unfold attacked in Hatt. apply existsb_exists in Hatt. destruct Hatt as [a [Ha Hatt]].
  apply all_squares_In in Ha. rewrite Hafter in Hatt.
  destruct (N.eqb_spec a t) as [Eat|Eat].
  { rewrite color_eqb_opp in Hatt. discriminate Hatt. }
  destruct (N.eqb_spec a f) as [Eaf|Eaf]; [discriminate Hatt|].
  destruct (p_at p a) as [[c' k]|] eqn:Epa; [|discriminate Hatt].
  apply andb_true_iff in Hatt. destruct Hatt as [Hc' Hattk]. apply color_eqb_true in Hc'. subst c'.
  destruct (attacks_from_vacate p _ _ k a t f Hm Hattk) as [H1 | H1].
  - rewrite (attacked_intro p _ k a t Ha Epa H1) in Hnt. discriminate Hnt.
  - rewrite (attacked_intro p _ k a f Ha Epa H1) in Hnf. discriminate Hnf.
Qed.

(* ====================================================================== *)
(* the king of the side to move                                           *)
(* ====================================================================== *)

Lemma legal_pos_wf : forall s, LegalPos s -> WfState s /\ legal_pos (abs s) = true.
Proof. intros s H. unfold LegalPos, legal_posb in H. apply andb_true_iff in H. exact H. Qed.

Lemma first_one_exists : forall b k, test b k = true -> exists j, first_one b = Some j.
Proof.
  intros [|q] k H; [unfold test in H; rewrite N.bits_0 in H; discriminate H|].
  exists (ctz_pos q). reflexivity.
Qed.

Theorem king_square_c : forall s c, LegalPos s ->
  exists ksq, first_one (pocc (st_board s) c King) = Some ksq /\ ksq < 64 /\
              piece_at (st_board s) ksq = Some (c, King) /\
              (forall y, y < 64 -> piece_at (st_board s) y = Some (c, King) -> y = ksq).
Proof.
  intros s c HL. destruct (legal_pos_wf s HL) as [Hwf Hlp].
  pose proof (wf_state_board s Hwf) as Hb.
  destruct (legal_pos_parts _ Hlp) as (HW & HB & _).
  assert (Hone : count_pieces (abs s) c King = 1%nat) by (destruct c; assumption).
  apply count_one in Hone. destruct Hone as [x (Hx & Hat & Hu)]. cbn [abs p_at] in Hat, Hu.
  pose proof Hat as Hat'. apply (piece_at_spec _ _ _ _ Hb) in Hat'. destruct Hat' as [_ Htest].
  destruct (first_one_exists _ _ Htest) as [j Hj]. exists j. split; [exact Hj|].
  pose proof (first_one_some _ _ Hj) as Htj.
  assert (Hj64 : j < 64) by exact (test_lt64 _ _ (wf_slots _ Hb _ _) Htj).
  assert (Hatj : piece_at (st_board s) j = Some (c, King)).
  { apply (piece_at_spec _ _ _ _ Hb). split; [discriminate | exact Htj]. }
  split; [exact Hj64|]. split; [exact Hatj|].
  intros y Hy Hyk. rewrite (Hu y Hy Hyk). symmetry. exact (Hu j Hj64 Hatj).
Qed.

Theorem king_square : forall s, LegalPos s ->
  exists ksq, first_one (pocc (st_board s) (st_turn s) King) = Some ksq /\ ksq < 64 /\
              piece_at (st_board s) ksq = Some (st_turn s, King) /\
              (forall y, y < 64 -> piece_at (st_board s) y = Some (st_turn s, King) -> y = ksq).
Proof. intros s HL. exact (king_square_c s (st_turn s) HL). Qed.

(* ====================================================================== *)
(* the shortcut                                                           *)
(* ====================================================================== *)

Definition king_valid (b : board) (c : color) (ksq : N) : N :=
  N.land (N.land (king_attacks ksq) (lnot64 (occupancy b))) (lnot64 (colored_attacks b (opp c))).

Lemma not_king_attacked_sq : forall p c x, x < 64 -> p_at p x = Some (c, King) ->
  king_attacked p c = false -> attacked p (opp c) x = false.
Proof.
  intros p c x Hx Hat H. destruct (attacked p (opp c) x) eqn:E; [|reflexivity].
  rewrite (king_attacked_intro p c x Hx Hat E) in H. discriminate H.
Qed.

Theorem shortcut_legal_move : forall s ksq t, LegalPos s ->
  first_one (pocc (st_board s) (st_turn s) King) = Some ksq ->
  is_check s = false ->
  test (king_valid (st_board s) (st_turn s) ksq) t = true ->
  In (mkMove ksq t None) (Rules.legal_moves (abs s)).
Proof.
  intros s ksq t HL Hfo Hchk Hv. destruct (legal_pos_wf s HL) as [Hwf Hlp].
  pose proof (wf_state_board s Hwf) as Hb.
  destruct (king_square s HL) as [j (Hj & Hk64 & Hkat & Hku)]. rewrite Hfo in Hj. injection Hj as <-.
  set (b := st_board s) in *. set (c := st_turn s) in *.
  unfold king_valid in Hv. rewrite !test_land, !andb_true_iff in Hv. destruct Hv as [[Hka Hocc] Hatt].
  unfold test in Hocc, Hatt. rewrite lnot64_spec in Hocc, Hatt.
  assert (Ht64 : t < 64).
  { destruct (N.ltb_spec t 64) as [L|L]; [exact L|]. exfalso.
    rewrite (testbit_high _ 64 t (occupancy_lt b Hb) L) in Hocc. discriminate Hocc. }
  assert (Ht64b : (t <? 64) = true) by (apply N.ltb_lt; exact Ht64).
  rewrite Ht64b in Hocc, Hatt.
  assert (Hocc' : test (occupancy b) t = false) by (unfold test; destruct (N.testbit (occupancy b) t); [discriminate Hocc | reflexivity]).
  assert (Hatt' : test (colored_attacks b (opp c)) t = false)
    by (unfold test; destruct (N.testbit (colored_attacks b (opp c)) t); [discriminate Hatt | reflexivity]).
  assert (Hempty : empty_at (pos_of_board b) t = true) by (apply empty_at_occ; exact Hocc').
  assert (Hstep : attacks_from (pos_of_board b) c King ksq t = true)
    by (apply (king_spec b c ksq t Hk64 Ht64); exact Hka).
  assert (Hnt : attacked (pos_of_board b) (opp c) t = false).
  { destruct (attacked (pos_of_board b) (opp c) t) eqn:E; [|reflexivity]. exfalso.
    apply attacked_spec in E.
    assert (Hx : test (colored_attacks b (opp c)) t = true).
    { apply (colored_attacks_spec b (opp c) t Hb Ht64). split; [exact E|].
      unfold colour_at. unfold empty_at in Hempty. destruct (p_at (pos_of_board b) t); [discriminate Hempty | reflexivity]. }
    rewrite Hx in Hatt'. discriminate Hatt'. }
  assert (Hnf : attacked (pos_of_board b) (opp c) ksq = false).
  { apply not_king_attacked_sq; [exact Hk64 | rewrite p_at_pos; exact Hkat |].
    rewrite <- (board_is_check_bool b c Hb). exact Hchk. }
  apply legal_moves_In. cbn [mv_from mv_to mv_promo].
  split; [exact Hk64|]. split; [exact Ht64|]. split; [left; reflexivity|].
  assert (G1 : attacks_from (abs s) (p_turn (abs s)) King ksq t = true)
    by (cbn [abs p_turn]; rewrite abs_attacks_from; exact Hstep).
  assert (G2 : empty_at (abs s) t = true) by (rewrite abs_empty_at; exact Hempty).
  assert (G3 : attacked (abs s) (opp (p_turn (abs s))) t = false)
    by (cbn [abs p_turn]; rewrite abs_attacked; exact Hnt).
  assert (G4 : attacked (abs s) (opp (p_turn (abs s))) ksq = false)
    by (cbn [abs p_turn]; rewrite abs_attacked; exact Hnf).
  exact (king_step_legal (abs s) ksq t Hk64 Ht64 Hkat Hku G1 G2 G3 G4).
Qed.

Lemma rules_move_gen : forall s mv, LegalPos s -> In mv (Rules.legal_moves (abs s)) -> gen_legal s <> [].
Proof.
  intros s mv HL Hin E.
  assert (H : In (enc_move s mv) (MoveGen.legal_moves s)).
  { apply (legal_moves_spec s _ HL). exists mv. split; [exact Hin | reflexivity]. }
  unfold MoveGen.legal_moves in H. rewrite E in H. exact H.
Qed.

Theorem shortcut_sound : forall s ksq, LegalPos s ->
  first_one (pocc (st_board s) (st_turn s) King) = Some ksq ->
  is_check s = false ->
  any (king_valid (st_board s) (st_turn s) ksq) = true ->
  gen_legal s <> [].
Proof.
  intros s ksq HL Hfo Hchk Hany. apply any_test in Hany. destruct Hany as [t Ht].
  exact (rules_move_gen s _ HL (shortcut_legal_move s ksq t HL Hfo Hchk Ht)).
Qed.

(* generator and rules agree on "no legal move" *)
Lemma gen_legal_nil_iff : forall s, LegalPos s -> (gen_legal s = [] <-> Rules.legal_moves (abs s) = []).
Proof.
  intros s HL. pose proof (same_count s HL) as Hc. unfold MoveGen.legal_moves in Hc. rewrite map_length in Hc.
  split; intros E.
  - rewrite E in Hc. cbn [length] in Hc. destruct (Rules.legal_moves (abs s)); [reflexivity | discriminate Hc].
  - rewrite E in Hc. cbn [length] in Hc. destruct (gen_legal s); [reflexivity | discriminate Hc].
Qed.

Print Assumptions shortcut_sound.
