(* C06, second half: completeness of mate finding of the search model (model/Search.v) against the rules-level
   forced mate of spec/GameValue.v.

     "From a fresh search memory, if the side to move can force mate within n plies, a search limited to depth
      d >= n reports a winning terminal evaluation."

   Layers: (1) rules level: a position is not both won and lost; one-step lemmas through the generated successors;
           (2) the invariant of a table entry (EC / TC) and of the entries stored under recorded hashes (RS);
           (3) the table probe (probe_complete), the move loop (loop_complete), one node (node_complete),
               analyze (analyze_complete);
           (4) the iterative driver (iterate_complete, complete_iterative).

   The claim proved of every call (cpost), with R = max_depth - cur_depth the remaining depth, window (a, b):
     - the node's position is won within n <= R plies           ==>  the value is >= POS_INF, or >= b (fail high);
     - the node's position is lost within k <= R plies          ==>  the value is <= NEG_INF, or <= a (fail low).
   Mate scores of different plies are mixed freely by the search (table entries keep the score of the ply they were
   computed at), but only their sign region matters: every mate score is >= POS_INF (C05_mate_scores).

   HISTORY.  A node below the root whose hash is a recorded hash is scored 0 without being searched, so a forced
   mate that runs through a recorded position is NOT found (MateCompleteEx.kr2_history_blocks).  The statements
   therefore carry the premise HistFree P hs history Hn (no recorded hash is the hash of a position of P that is won
   within Hn plies or lost within Hn plies) and speak of mates within Hn + 1 plies.  For the run from an empty
   history the only recorded hash is the root's own, and the premise is proved with Hn + 1 = the exact mate distance
   of the root (root_hist_free: a shortest mate never re-enters the root).

   THE ROOT ENTRY.  An iteration whose line (the table walk from the root) is empty ends the run without reporting
   anything, and table entries can be evicted, so the driver theorem also shows that every iteration ends with a
   root entry in the table: no entry under a recorded hash is usable at the root (RS: non-root nodes with a recorded
   hash never store, the root stores remaining depth = its iteration), hence the root window is the full window,
   and a root that is not lost raises alpha or cuts off (soundness half), and the store under the root hash is the
   last table write of the iteration.

   RESIDUES: HashRuleOn P hs (no collision inside the region P), Region P; the iterative theorem also needs the
   soundness half (hence HeurNTOn P) to show that every iteration leaves a root entry (a non-empty line). *)
From Coq Require Import NArith ZArith List Bool Lia ZifyBool ZifyN ZifyNat.
From WV Require Import Types Bits Attacks Board MoveEnc MoveGen Text Table Eval Search.
From WV Require Import Rules Abs Wf Encode GameValue.
From WV Require Import BoardProofs GenPawnsNoDup GenLegal TableProofs HashProofs EvalShortcut EvalProofs EvalBound.
From WV Require Import SearchBase SearchProofs SearchSafety SearchMen SearchTop.
From WV Require Import MateValue MateSound MateRegion.
Import ListNotations.
Import WV.Bits.
Open Scope Z_scope.

(* ------------------------------------------------------------------ *)
(* 1. rules level                                                       *)
(* ------------------------------------------------------------------ *)

(* no position is both won and lost *)
Lemma win_loss_excl_aux : forall t n k p, (n + k <= t)%nat -> win n p = true -> loss k p = true -> False.
Proof.
  induction t as [|t IH]; intros n k p Ht Hw Hl.
  - assert (n = O) by lia. subst n. discriminate Hw.
  - destruct n as [|n']; [discriminate Hw|]. rewrite win_S in Hw. apply existsb_exists in Hw.
    destruct Hw as [m [Hm Hlm]]. rewrite loss_unfold in Hl.
    destruct (Rules.legal_moves p) as [|m0 ms0] eqn:El; [destruct Hm|].
    destruct k as [|[|k']]; [discriminate Hl|discriminate Hl|].
    rewrite forallb_forall in Hl. specialize (Hl m Hm).
    apply (IH (S k') n' (Rules.apply p m)); [lia|exact Hl|exact Hlm].
Qed.

Lemma win_loss_excl : forall n k p, win n p = true -> loss k p = true -> False.
Proof. intros n k p. apply (win_loss_excl_aux (n + k) n k p). lia. Qed.

Theorem won_not_lost : forall s, Won s -> Lost s -> False.
Proof. intros s [n Hn] [k Hk]. exact (win_loss_excl n k _ Hn Hk). Qed.

(* the exact mate distance *)
Lemma min_win : forall n p, win n p = true -> exists n0, (n0 <= n)%nat /\ win n0 p = true /\ win (n0 - 1) p = false.
Proof.
  induction n as [|n IH]; intros p H; [discriminate H|].
  destruct (win n p) eqn:E.
  - destruct (IH p E) as (n0 & H1 & H2 & H3). exists n0. split; [lia|]. auto.
  - exists (S n). split; [lia|]. split; [exact H|]. replace (S n - 1)%nat with n by lia. exact E.
Qed.

Lemma won_step : forall s n, LegalPos s -> win (S n) (abs s) = true ->
  exists m ns, In (m, ns) (gen_legal s) /\ loss n (abs ns) = true.
Proof.
  intros s n HL H. rewrite win_S in H. apply existsb_exists in H. destruct H as [mv [Hmv Hl]].
  destruct (rules_move_succ s mv HL Hmv) as (m & ns & Hin & <-).
  destruct (succ_abs s m ns HL Hin) as (_ & _ & Hnc).
  exists m, ns. split; [exact Hin|]. rewrite (loss_ext_nc n _ _ Hnc). exact Hl.
Qed.

Lemma lost_step : forall s k, LegalPos s -> loss k (abs s) = true -> gen_legal s <> [] ->
  exists k', k = S (S k') /\ forall m ns, In (m, ns) (gen_legal s) -> win (S k') (abs ns) = true.
Proof.
  intros s k HL H Hne. rewrite loss_unfold in H.
  destruct (Rules.legal_moves (abs s)) as [|m0 ms0] eqn:El.
  - exfalso. apply Hne. apply (gen_legal_nil_iff s HL). exact El.
  - destruct k as [|[|k']]; [discriminate H|discriminate H|]. exists k'. split; [reflexivity|].
    intros m ns Hin. destruct (succ_abs s m ns HL Hin) as (_ & Hm & Hnc). rewrite El in Hm.
    rewrite forallb_forall in H. rewrite (win_ext_nc (S k') _ _ Hnc). exact (H _ Hm).
Qed.

Lemma lost_nil : forall s k, LegalPos s -> loss k (abs s) = true -> gen_legal s = [] -> is_check s = true.
Proof.
  intros s k HL H Hg. rewrite loss_unfold in H. rewrite (proj1 (gen_legal_nil_iff s HL) Hg) in H.
  rewrite (is_check_rules s (GenPawnsNoDup.legal_pos_wf s HL)). exact H.
Qed.

Lemma won_has_move : forall s n, LegalPos s -> win n (abs s) = true -> gen_legal s = [] -> False.
Proof.
  intros s n HL H Hg. destruct n as [|n]; [discriminate H|]. rewrite win_S in H.
  rewrite (proj1 (gen_legal_nil_iff s HL) Hg) in H. discriminate H.
Qed.

Lemma gen_legal_unique : forall s m ns ns', In (m, ns) (gen_legal s) -> apply_move s m = Some ns' -> ns = ns'.
Proof.
  intros s m ns ns' Hin Ha. destruct (gen_legal_not_hit s m ns Hin) as (_ & Ha' & _).
  rewrite Ha in Ha'. injection Ha' as <-. reflexivity.
Qed.

Lemma gen_legal_hit_false : forall s m ns ns', In (m, ns) (gen_legal s) -> apply_move s m = Some ns' ->
  king_hit s ns' = true -> False.
Proof.
  intros s m ns ns' Hin Ha Hk. destruct (gen_legal_not_hit s m ns Hin) as (_ & Ha' & Hk').
  rewrite Ha in Ha'. injection Ha' as <-. rewrite Hk in Hk'. discriminate Hk'.
Qed.

(* ------------------------------------------------------------------ *)
(* 2. the development, relative to a region, a history and a mate bound *)
(* ------------------------------------------------------------------ *)

(* no recorded hash is the hash of a position of P that is won or lost within n plies *)
Definition HistFree (P : state -> Prop) (hs : hasher) (history : list N) (n : nat) : Prop :=
  forall s, P s -> in_history history (hash hs s) = true -> win n (abs s) = false /\ loss n (abs s) = false.

Definition remd (md cd : N) : nat := N.to_nat (md - cd).

Section Complete.
Variable hs : hasher.
Variable P : state -> Prop.
Hypothesis HR : HashRuleOn P hs.
Hypothesis P_legal : forall s, P s -> LegalPos s.
Hypothesis P_step : forall s m ns, P s -> In (m, ns) (gen_legal s) -> P ns.
Variable history : list N.
Variable Hn : nat.
Hypothesis HF : HistFree P hs history Hn.
(* the recorded hashes whose entries are tracked (all of them for the iterative driver, none for a bare call) *)
Variable Hs : N -> Prop.
Hypothesis Hs_hist : forall h, Hs h -> in_history history h = true.
Variable X : N.

(* won within min(R, Hn + 1) plies / lost within min(R, Hn) plies *)
Definition WonAt (s : state) (R : nat) : Prop := win (Nat.min R (S Hn)) (abs s) = true.
Definition LostAt (s : state) (R : nat) : Prop := loss (Nat.min R Hn) (abs s) = true.

Lemma WonAt_mono : forall s R R', (R <= R')%nat -> WonAt s R -> WonAt s R'.
Proof. intros s R R' Hle H. unfold WonAt in *. apply (win_mono_le (Nat.min R (S Hn))); [lia|exact H]. Qed.

Lemma LostAt_mono : forall s R R', (R <= R')%nat -> LostAt s R -> LostAt s R'.
Proof. intros s R R' Hle H. unfold LostAt in *. apply (loss_mono_le (Nat.min R Hn)); [lia|exact H]. Qed.

Lemma WonAt_key : forall s s' R, P s -> P s' -> hash hs s = hash hs s' -> WonAt s R -> WonAt s' R.
Proof.
  intros s s' R H1 H2 E H. unfold WonAt in *.
  rewrite <- (proj2 (same_key_value s s' (P_legal s H1) (P_legal s' H2) (HR s s' H1 H2 E) _)). exact H.
Qed.

Lemma LostAt_key : forall s s' R, P s -> P s' -> hash hs s = hash hs s' -> LostAt s R -> LostAt s' R.
Proof.
  intros s s' R H1 H2 E H. unfold LostAt in *.
  rewrite <- (proj1 (same_key_value s s' (P_legal s H1) (P_legal s' H2) (HR s s' H1 H2 E) _)). exact H.
Qed.

Lemma hist_not_lost : forall s R, P s -> in_history history (hash hs s) = true -> LostAt s R -> False.
Proof.
  intros s R HP Hh H. destruct (HF s HP Hh) as [_ Hl]. unfold LostAt in H.
  rewrite (loss_mono_le (Nat.min R Hn) Hn _ ltac:(lia) H) in Hl. discriminate Hl.
Qed.

(* the children of a node lost within the bounds are won within the bounds, and are not recorded positions *)
Lemma lost_child : forall s R m ns, P s -> LostAt s R -> In (m, ns) (gen_legal s) ->
  WonAt ns (R - 1) /\ in_history history (hash hs ns) = false.
Proof.
  intros s R m ns HP H Hin. pose proof (P_legal s HP) as HL. unfold LostAt in H.
  assert (Hne : gen_legal s <> []) by (intros E; rewrite E in Hin; destruct Hin).
  destruct (lost_step s _ HL H Hne) as (k' & Ek & Hall). pose proof (Hall m ns Hin) as Hw.
  split.
  - unfold WonAt. apply (win_mono_le (S k')); [lia|exact Hw].
  - destruct (in_history history (hash hs ns)) eqn:Hh; [|reflexivity].
    destruct (HF ns (P_step s m ns HP Hin) Hh) as [Hf _].
    rewrite (win_mono_le (S k') Hn _ ltac:(lia) Hw) in Hf. discriminate Hf.
Qed.

Lemma won_child : forall s R, P s -> (1 <= R)%nat -> WonAt s R ->
  exists m ns, In (m, ns) (gen_legal s) /\ LostAt ns (R - 1).
Proof.
  intros s R HP HR1 H. unfold WonAt in H.
  replace (Nat.min R (S Hn)) with (S (Nat.min (R - 1) Hn)) in H by lia.
  destruct (won_step s _ (P_legal s HP) H) as (m & ns & Hin & Hl). exists m, ns. split; [exact Hin|exact Hl].
Qed.

(* ---- the table ---- *)

(* what an entry e found under the hash of s must satisfy (remaining depth of the entry = e_maxdepth - e_depth) *)
Definition EC (e : entry) (s : state) : Prop :=
  (WonAt s (remd (e_maxdepth e) (e_depth e)) -> e_kind e = Exact -> POS_INF <= e_eval e) /\
  (LostAt s (remd (e_maxdepth e) (e_depth e)) -> e_eval e <= NEG_INF).

Definition TC (tt : access) : Prop :=
  tt_ok tt /\ NoUpper tt /\
  forall h e, acc_find tt h = Some e -> forall s, P s -> hash hs s = h -> EC e s.

(* the entries stored under the tracked recorded hashes have remaining depth below X *)
Definition RS (tt : access) : Prop :=
  forall h e, Hs h -> acc_find tt h = Some e -> (e_maxdepth e - e_depth e < X)%N.

Lemma TC_insert : forall tt s e, TC tt -> P s -> e_kind e <> UpperBound -> EC e s ->
  TC (acc_insert tt (hash hs s) e).
Proof.
  intros tt s e (Hok & Hnu & Hen) HP Hk He. split; [apply tt_ok_insert; exact Hok|]. split.
  - intros h x Hfind. destruct (acc_find_insert_cases _ _ _ _ _ Hok Hfind) as [[_ ->]|[_ Hold]];
      [exact Hk|exact (Hnu h x Hold)].
  - intros h x Hfind s' HP' Hh.
    destruct (acc_find_insert_cases _ _ _ _ _ Hok Hfind) as [[Hkk ->]|[_ Hold]]; [|exact (Hen h x Hold s' HP' Hh)].
    assert (E : hash hs s' = hash hs s) by congruence.
    destruct He as [E1 E2]. split.
    + intros H1 H2. apply E1; [|exact H2]. exact (WonAt_key s' s _ HP' HP E H1).
    + intros H1. apply E2. exact (LostAt_key s' s _ HP' HP E H1).
Qed.

Lemma RS_insert : forall tt h e, tt_ok tt -> RS tt -> (Hs h -> (e_maxdepth e - e_depth e < X)%N) ->
  RS (acc_insert tt h e).
Proof.
  intros tt h e Hok HS He h2 x Hh2 Hfind.
  destruct (acc_find_insert_cases _ _ _ _ _ Hok Hfind) as [[-> ->]|[_ Hold]]; [exact (He Hh2)|exact (HS h2 x Hh2 Hold)].
Qed.

(* no entry under h can be used by a probe at remaining depth md - cd *)
Definition NoUsable (tt : access) (h md cd : N) : Prop :=
  forall e, acc_find tt h = Some e -> (e_maxdepth e - e_depth e < md - cd)%N.

Lemma probe_complete : forall tt s md cd a b, TC tt -> P s -> a < b ->
  match probe tt (hash hs s) md cd a b with
  | PEarly v => (WonAt s (remd md cd) -> POS_INF <= v \/ b <= v) /\
                (LostAt s (remd md cd) -> v <= NEG_INF \/ v <= a) /\
                (NoUsable tt (hash hs s) md cd -> False)
  | PWindow a1 b1 => b1 = b /\ a <= a1 /\ a1 < b /\ (LostAt s (remd md cd) -> a1 <= Z.max a NEG_INF) /\
                     (NoUsable tt (hash hs s) md cd -> a1 = a)
  | PPanic _ => True
  end.
Proof.
  intros tt s md cd a b (Hok & Hnu & Hen) HP Hab. unfold probe.
  assert (Hwin : b = b /\ a <= a /\ a < b /\ (LostAt s (remd md cd) -> a <= Z.max a NEG_INF) /\
                 (NoUsable tt (hash hs s) md cd -> a = a)).
  { split; [reflexivity|]. split; [lia|]. split; [exact Hab|]. split; [intros _; lia|reflexivity]. }
  destruct (acc_find tt (hash hs s)) as [e|] eqn:Ef; [|exact Hwin].
  destruct (md <? cd)%N eqn:H1; [exact Logic.I|]. destruct (e_maxdepth e <? e_depth e)%N eqn:H2; [exact Logic.I|].
  destruct (md - cd <=? e_maxdepth e - e_depth e)%N eqn:H3; [|exact Hwin].
  apply N.leb_le in H3.
  assert (Hno : NoUsable tt (hash hs s) md cd -> False) by (intros Hno; specialize (Hno e Ef); lia).
  destruct (Hen _ e Ef s HP eq_refl) as [E1 E2].
  assert (Hle : (remd md cd <= remd (e_maxdepth e) (e_depth e))%nat) by (unfold remd; lia).
  assert (F1 : WonAt s (remd md cd) -> e_kind e = Exact -> POS_INF <= e_eval e).
  { intros H. apply E1. exact (WonAt_mono s _ _ Hle H). }
  assert (F2 : LostAt s (remd md cd) -> e_eval e <= NEG_INF).
  { intros H. apply E2. exact (LostAt_mono s _ _ Hle H). }
  destruct (e_kind e) eqn:Ek.
  - split; [intros H; left; exact (F1 H eq_refl)|]. split; [intros H; left; exact (F2 H)|exact Hno].
  - exfalso. exact (Hnu _ e Ef Ek).
  - cbv zeta. destruct (b <=? Z.max a (e_eval e)) eqn:Hc.
    + split; [intros _; right; lia|]. split; [intros H; left; exact (F2 H)|exact Hno].
    + split; [reflexivity|]. split; [lia|]. split; [lia|]. split.
      * intros H. pose proof (F2 H). lia.
      * intros H. exfalso. exact (Hno H).
Qed.

(* ---- the claim of a call ---- *)

Definition cpost (s : state) (md cd : N) (a b : Z) (w : wstate) (r : sres Z) : Prop :=
  match r with
  | SVal v w' =>
      TC (w_tt w') /\ RS (w_tt w') /\ (w_nodes w < w_nodes w')%N /\
      (WonAt s (remd md cd) -> cd = 0%N \/ in_history history (hash hs s) = false -> POS_INF <= v \/ b <= v) /\
      (LostAt s (remd md cd) -> v <= NEG_INF \/ v <= a) /\
      ((cd < md)%N -> cd = 0%N \/ in_history history (hash hs s) = false -> NoUsable (w_tt w) (hash hs s) md cd ->
       (exists e, acc_find (w_tt w') (hash hs s) = Some e) \/ v <= a \/ gen_legal s = [])
  | SInterrupt w' => TC (w_tt w') /\ RS (w_tt w')
  | _ => True
  end.

Definition rec_ok (rec : rec_t) : Prop :=
  forall ns md cd ce a b w, P ns -> (0 < cd)%N -> a < b -> TC (w_tt w) -> RS (w_tt w) ->
  cpost ns md cd a b w (rec ns md cd ce a b None w).

Definition lpost (s : state) (md cd : N) (a b : Z) (prev : N) (alpha : Z) (best : option N) (r : sres Z) : Prop :=
  match r with
  | SVal v w' =>
      TC (w_tt w') /\ RS (w_tt w') /\ (prev <= w_nodes w')%N /\
      (WonAt s (remd md cd) -> POS_INF <= v \/ b <= v) /\
      (LostAt s (remd md cd) -> v <= NEG_INF \/ v <= a) /\
      ((exists e, acc_find (w_tt w') (hash hs s) = Some e) \/ (best = None /\ v <= alpha) \/ gen_legal s = [])
  | SInterrupt w' => TC (w_tt w') /\ RS (w_tt w')
  | _ => True
  end.

Lemma lpost_weaken : forall s md cd a b prev alpha best alpha' best' r,
  (best' = None -> best = None /\ alpha' <= alpha) ->
  lpost s md cd a b prev alpha' best' r -> lpost s md cd a b prev alpha best r.
Proof.
  intros s md cd a b prev alpha best alpha' best' r Hw H. destruct r as [v w'|w'|site|]; cbn [lpost] in *; try exact H.
  destruct H as (H1 & H2 & H3 & H4 & H5 & H6). repeat (split; [assumption|]).
  destruct H6 as [H6|[[H6 H7]|H6]]; [left; exact H6| |right; right; exact H6].
  right. left. destruct (Hw H6) as [-> Hle]. split; [reflexivity|lia].
Qed.

(* ---- the move loop.  a = the node's alpha (the reference of the fail-low claim), b = the node's beta (no
        UpperBound entry exists, so the probe never lowers it); alpha = the running lower bound ---- *)
Lemma loop_complete : forall (rec : rec_t), rec_ok rec ->
  forall s md cd ce ext a b prev, P s -> (cd < md)%N ->
  (Hs (hash hs s) -> (md - cd < X)%N) ->
  forall l, (forall m, In m l -> In m (MoveGen.pseudo_legal s)) ->
  forall alpha best kind w,
    TC (w_tt w) -> RS (w_tt w) -> (prev <= w_nodes w)%N -> alpha < b ->
    (WonAt s (remd md cd) -> (POS_INF <= alpha /\ (prev < w_nodes w)%N) \/
        exists m ns, In m l /\ In (m, ns) (gen_legal s) /\ LostAt ns (remd md cd - 1)) ->
    (LostAt s (remd md cd) -> alpha <= Z.max a NEG_INF /\ (forall bm, best = Some bm -> alpha <= NEG_INF)) ->
    ((prev < w_nodes w)%N \/ forall m ns, In (m, ns) (gen_legal s) -> In m l) ->
    (forall bm, best = Some bm -> kind = Exact) ->
    lpost s md cd a b prev alpha best (loop_body rec s (hash hs s) md cd ce ext b prev l alpha best kind w).
Proof.
  intros rec Hrec s md cd ce ext a b prev HP Hlt HX l. pose proof (P_legal s HP) as HL. infs.
  induction l as [|m tl IH]; intros Hl alpha best kind w HT HS Hpn Hab HW HLo Hcov Hbest; cbn [loop_body].
  - destruct (prev =? w_nodes w)%N eqn:Hpw.
    + apply N.eqb_eq in Hpw.
      assert (Hnil : gen_legal s = []).
      { destruct Hcov as [Hc|Hc]; [lia|]. destruct (gen_legal s) as [|[m0 ns0] tl0]; [reflexivity|].
        destruct (Hc m0 ns0 (or_introl eq_refl)). }
      unfold eval_or_panic. destruct (evaluate s (st_turn s) cd) as [v|] eqn:Ee; [|exact Logic.I].
      cbn [lpost]. split; [exact HT|]. split; [exact HS|]. split; [lia|]. split; [|split].
      * intros HWs. exfalso. exact (won_has_move s _ HL HWs Hnil).
      * intros HLs. left. pose proof (lost_nil s _ HL HLs Hnil) as Hc.
        rewrite (eval_mate s (st_turn s) cd HL Hnil Hc), BoardProofs.color_eqb_refl in Ee.
        injection Ee as <-. destruct (mate_scores cd) as (_ & M2 & _). exact M2.
      * right. right. exact Hnil.
    + apply N.eqb_neq in Hpw.
      assert (HWa : WonAt s (remd md cd) -> POS_INF <= alpha).
      { intros HWs. destruct (HW HWs) as [[H1 _]|(m & ns & [] & _)]. exact H1. }
      destruct best as [bm|].
      * rewrite (Hbest bm eq_refl). cbn [lpost w_tt w_nodes].
        split; [|split; [|split; [|split; [|split]]]].
        -- apply TC_insert; [exact HT|exact HP|cbn [e_kind]; discriminate|].
           split; cbn [e_kind e_eval e_maxdepth e_depth].
           ++ intros H1 _. exact (HWa H1).
           ++ intros H1. exact (proj2 (HLo H1) bm eq_refl).
        -- apply RS_insert; [exact (proj1 HT)|exact HS|cbn [e_maxdepth e_depth]; exact HX].
        -- exact Hpn.
        -- intros HWs. left. exact (HWa HWs).
        -- intros HLs. destruct (HLo HLs) as [H1 _]. lia.
        -- left. eexists. apply acc_find_insert_same. exact (proj1 HT).
      * cbn [lpost]. split; [exact HT|]. split; [exact HS|]. split; [exact Hpn|].
        split; [intros HWs; left; exact (HWa HWs)|]. split; [intros HLs; destruct (HLo HLs) as [H1 _]; lia|].
        right. left. split; [reflexivity|lia].
  - assert (Htl : forall m', In m' tl -> In m' (MoveGen.pseudo_legal s)) by (intros m' Hm'; apply Hl; right; exact Hm').
    destruct (apply_move s m) as [ns|] eqn:Ha; [|exact Logic.I].
    fold (king_hit s ns). destruct (king_hit s ns) eqn:Hk.
    + (* not a legal move: skipped *)
      apply IH; try assumption.
      * intros HWs. destruct (HW HWs) as [H1|(m' & ns' & [<-|Hin'] & Hg' & Hl')]; [left; exact H1| |].
        -- exfalso. exact (gen_legal_hit_false s m ns' ns Hg' Ha Hk).
        -- right. exists m', ns'. auto.
      * destruct Hcov as [Hc|Hc]; [left; exact Hc|]. right. intros m' ns' Hg'.
        destruct (Hc m' ns' Hg') as [<-|Hin']; [|exact Hin'].
        exfalso. exact (gen_legal_hit_false s m ns' ns Hg' Ha Hk).
    + destruct (searched_move s m ns HL (Hl m (or_introl eq_refl)) Ha Hk) as (Hg & _ & _).
      pose proof (P_step s m ns HP Hg) as HPn.
      assert (Hcd' : (0 < cd + 1 + ext)%N) by lia.
      assert (Hwin : - b < - alpha) by lia.
      pose proof (Hrec ns (md + ext)%N (cd + 1 + ext)%N (ce + ext)%N (- b) (- alpha) w HPn Hcd' Hwin HT HS) as Hc.
      destruct (rec ns (md + ext)%N (cd + 1 + ext)%N (ce + ext)%N (- b) (- alpha) None w) as [r w'|w'|site|];
        cbn [cpost] in Hc; cbn [lpost]; [|exact Hc|exact Logic.I|exact Logic.I].
      destruct Hc as (HT' & HS' & Hn' & HcW & HcL & _).
      assert (ER : remd (md + ext) (cd + 1 + ext) = (remd md cd - 1)%nat) by (unfold remd; lia).
      rewrite ER in HcW, HcL.
      (* the child of a lost node *)
      assert (F2 : LostAt s (remd md cd) -> POS_INF <= r \/ - alpha <= r).
      { intros HLs. destruct (lost_child s _ m ns HP HLs Hg) as [Hw Hh]. exact (HcW Hw (or_intror Hh)). }
      (* the good move of a won node *)
      assert (F1 : forall ns', In (m, ns') (gen_legal s) -> LostAt ns' (remd md cd - 1) -> r <= NEG_INF \/ r <= - b).
      { intros ns' Hg' Hl'. rewrite (gen_legal_unique s m ns' ns Hg' Ha) in Hl'. destruct (HcL Hl'); lia. }
      cbv zeta. destruct (b <=? - r) eqn:Hcut.
      * (* cutoff *)
        assert (HLb : LostAt s (remd md cd) -> b <= NEG_INF) by (intros HLs; destruct (F2 HLs); lia).
        cbn [lpost w_tt w_nodes].
        split; [|split; [|split; [|split; [|split]]]].
        -- apply TC_insert; [exact HT'|exact HP|cbn [e_kind]; discriminate|].
           split; cbn [e_kind e_eval e_maxdepth e_depth]; [intros _ E; discriminate E|exact HLb].
        -- apply RS_insert; [exact (proj1 HT')|exact HS'|cbn [e_maxdepth e_depth]; exact HX].
        -- lia.
        -- intros _. right. lia.
        -- intros HLs. left. exact (HLb HLs).
        -- left. eexists. apply acc_find_insert_same. exact (proj1 HT').
      * destruct (alpha <? - r) eqn:Hr.
        -- (* the running bound is raised *)
           apply (lpost_weaken s md cd a b prev alpha best (- r) (Some m)); [intros E; discriminate E|].
           apply IH; [exact Htl|exact HT'|exact HS'|lia|lia| | | |].
           ++ intros HWs. destruct (HW HWs) as [[H1 H2]|(m' & ns' & [<-|Hin'] & Hg' & Hl')].
              ** left. lia.
              ** left. destruct (F1 ns' Hg' Hl'); lia.
              ** right. exists m', ns'. auto.
           ++ intros HLs. destruct (HLo HLs) as [H1 H2]. destruct (F2 HLs); [|lia].
              split; [lia|]. intros bm _. lia.
           ++ left. lia.
           ++ intros bm _. reflexivity.
        -- apply IH; [exact Htl|exact HT'|exact HS'|lia|exact Hab| |exact HLo| |exact Hbest].
           ++ intros HWs. destruct (HW HWs) as [[H1 H2]|(m' & ns' & [<-|Hin'] & Hg' & Hl')].
              ** left. lia.
              ** left. destruct (F1 ns' Hg' Hl'); lia.
              ** right. exists m', ns'. auto.
           ++ left. lia.
Qed.

(* ---- one node ---- *)

Lemma enter_nodes : forall cancel w, w_nodes (fst (enter_node cancel w)) = (w_nodes w + 1)%N.
Proof. reflexivity. Qed.

Lemma node_complete : forall jit cancel (rec : rec_t), rec_ok rec ->
  forall s md cd ce a b prio w, P s -> a < b -> TC (w_tt w) -> RS (w_tt w) ->
  (cd = 0%N -> Hs (hash hs s) -> (md - cd < X)%N) ->
  (forall pm, prio = Some pm -> In pm (MoveGen.legal_moves s)) ->
  cpost s md cd a b w (node_body hs history jit cancel rec s md cd ce a b prio w).
Proof.
  intros jit cancel rec Hrec s md cd ce a b prio w HP Hab HT HS HX Hprio.
  pose proof (P_legal s HP) as HL. unfold node_body.
  destruct (snd (enter_node cancel w)); [cbn [cpost]; rewrite ?enter_node_tt; split; assumption|]. cbv zeta.
  destruct ((0 <? cd)%N && in_history history (hash hs s)) eqn:Hh.
  - apply andb_true_iff in Hh. destruct Hh as [Hh1 Hh2]. apply N.ltb_lt in Hh1.
    assert (Hex : cd = 0%N \/ in_history history (hash hs s) = false -> False).
    { intros [E|E]; [lia|]. rewrite E in Hh2. discriminate Hh2. }
    cbn [cpost with_trace w_tt w_nodes]. rewrite ?enter_node_tt, enter_nodes.
    split; [exact HT|]. split; [exact HS|]. split; [lia|]. split; [|split].
    + intros _ H. exfalso. exact (Hex H).
    + intros HLs. exfalso. exact (hist_not_lost s _ HP Hh2 HLs).
    + intros _ H. exfalso. exact (Hex H).
  - assert (HX' : Hs (hash hs s) -> (md - cd < X)%N).
    { intros Hq. pose proof (Hs_hist _ Hq) as Hin. rewrite Hin, andb_true_r in Hh. apply N.ltb_ge in Hh.
      apply HX; [lia|exact Hq]. }
    unfold node_continue. cbn [with_trace w_tt]. rewrite ?enter_node_tt.
    pose proof (probe_complete (w_tt w) s md cd a b HT HP Hab) as Hp.
    destruct (probe (w_tt w) (hash hs s) md cd a b) as [v|a1 b1|site]; [| |exact Logic.I].
    + cbn [cpost with_trace w_tt w_nodes]. rewrite ?enter_node_tt, enter_nodes. destruct Hp as (H1 & H2 & H3).
      split; [exact HT|]. split; [exact HS|]. split; [lia|]. split; [intros H _; exact (H1 H)|].
      split; [exact H2|]. intros _ _ H. exfalso. exact (H3 H).
    + destruct Hp as (-> & Hge & Hlt1 & HLa & Hnu).
      destruct (md <=? cd)%N eqn:Hmd.
      * apply N.leb_le in Hmd.
        assert (ER : remd md cd = O) by (unfold remd; lia).
        destruct (quiesce (S (men s)) s cd a1 b) as [v|site|] eqn:Eq; [|exact Logic.I|exact Logic.I].
        cbn [cpost with_trace w_tt w_nodes]. rewrite ?enter_node_tt, enter_nodes. rewrite ER.
        split; [exact HT|]. split; [exact HS|]. split; [lia|]. split; [|split].
        -- intros HWs. unfold WonAt in HWs. cbn [Nat.min] in HWs. discriminate HWs.
        -- intros HLs. left. unfold LostAt in HLs. cbn [Nat.min] in HLs.
           assert (Hnil : gen_legal s = []).
           { rewrite loss_unfold in HLs. apply (gen_legal_nil_iff s HL).
             destruct (Rules.legal_moves (abs s)); [reflexivity|discriminate HLs]. }
           pose proof (lost_nil s _ HL HLs Hnil) as Hc.
           rewrite quiesce_S, (gen_no_panic s HL), (eval_mate s (st_turn s) cd HL Hnil Hc),
                   BoardProofs.color_eqb_refl, Hnil in Eq.
           injection Eq as <-. destruct (mate_scores cd) as (_ & M2 & _). exact M2.
        -- intros Hc. lia.
      * apply N.leb_gt in Hmd.
        assert (HR1 : (1 <= remd md cd)%nat) by (unfold remd; lia).
        set (w1 := with_trace (fst (enter_node cancel w)) (hash hs s, cd, md, a, b)).
        pose proof (loop_complete rec Hrec s md cd ce (node_ext s ce) a b (w_nodes w1) HP Hmd HX'
                      (ordered_moves jit s (w_jidx w1) prio)) as Hlp.
        specialize (Hlp (fun m Hm => match ordered_moves_in jit s (w_jidx w1) prio m Hm with
                                     | or_introl H => H
                                     | or_intror H => legal_in_pseudo s m (Hprio m H)
                                     end)).
        specialize (Hlp a1 None UpperBound (with_jidx w1 (drawn_count s))).
        assert (Hcovall : forall m ns, In (m, ns) (gen_legal s) -> In m (ordered_moves jit s (w_jidx w1) prio)).
        { intros m ns Hin. apply ordered_moves_complete. exact (proj1 (gen_legal_not_hit s m ns Hin)). }
        assert (Hlp' : lpost s md cd a b (w_nodes w1) a1 None
                         (loop_body rec s (hash hs s) md cd ce (node_ext s ce) b (w_nodes w1)
                            (ordered_moves jit s (w_jidx w1) prio) a1 None UpperBound (with_jidx w1 (drawn_count s)))).
        { apply Hlp.
          - cbn [with_jidx w_tt]. unfold w1. cbn [with_trace w_tt]. rewrite enter_node_tt. exact HT.
          - cbn [with_jidx w_tt]. unfold w1. cbn [with_trace w_tt]. rewrite enter_node_tt. exact HS.
          - cbn [with_jidx w_nodes]. lia.
          - exact Hlt1.
          - intros HWs. right. destruct (won_child s _ HP HR1 HWs) as (m & ns & Hin & Hl).
            exists m, ns. split; [exact (Hcovall m ns Hin)|]. split; [exact Hin|exact Hl].
          - intros HLs. split; [exact (HLa HLs)|]. intros bm E. discriminate E.
          - right. exact Hcovall.
          - intros bm E. discriminate E. }
        clear Hlp.
        destruct (loop_body rec s (hash hs s) md cd ce (node_ext s ce) b (w_nodes w1)
                    (ordered_moves jit s (w_jidx w1) prio) a1 None UpperBound (with_jidx w1 (drawn_count s)))
          as [v w'|w'|site|]; cbn [lpost] in Hlp'; cbn [cpost]; [|exact Hlp'|exact Logic.I|exact Logic.I].
        destruct Hlp' as (L1 & L2 & L3 & L4 & L5 & L6).
        assert (En : w_nodes w1 = (w_nodes w + 1)%N) by reflexivity.
        split; [exact L1|]. split; [exact L2|]. split; [lia|]. split; [intros H _; exact (L4 H)|].
        split; [exact L5|]. intros _ _ Hno. rewrite (Hnu Hno) in L6.
        destruct L6 as [L6|[[_ L6]|L6]]; [left; exact L6|right; left; exact L6|right; right; exact L6].
Qed.

(* ---- analyze ---- *)

Theorem analyze_complete : forall jit cancel fuel s md cd ce a b prio w,
  P s -> a < b -> TC (w_tt w) -> RS (w_tt w) ->
  (cd = 0%N -> Hs (hash hs s) -> (md - cd < X)%N) ->
  (forall pm, prio = Some pm -> In pm (MoveGen.legal_moves s)) ->
  cpost s md cd a b w (analyze hs history jit cancel fuel s md cd ce a b prio w).
Proof.
  intros jit cancel. induction fuel as [|k IH]; intros s md cd ce a b prio w HP Hab HT HS HX Hprio; [exact Logic.I|].
  rewrite analyze_S. apply node_complete; try assumption.
  intros ns md' cd' ce' a' b' w' HPn Hcd Hab' HT' HS'. apply IH; try assumption.
  - intros E. lia.
  - intros pm E. discriminate E.
Qed.

End Complete.

(* ------------------------------------------------------------------ *)
(* 3. one call, final form                                              *)
(* ------------------------------------------------------------------ *)

(* the positions won within n plies are found by a call with remaining depth >= n (value >= POS_INF, or a fail
   high at b); the positions lost within k plies are seen as lost (value <= NEG_INF, or a fail low at a);
   the table invariant is preserved (also by an interrupted call) *)
Theorem complete_call : forall hs P, HashRuleOn P hs -> Region P ->
  forall history Hn, HistFree P hs history Hn ->
  forall jit cancel fuel s md cd ce a b prio w,
  P s -> a < b -> TC hs P Hn (w_tt w) -> (forall pm, prio = Some pm -> In pm (MoveGen.legal_moves s)) ->
  match analyze hs history jit cancel fuel s md cd ce a b prio w with
  | SVal v w' =>
      TC hs P Hn (w_tt w') /\
      (forall n, win n (abs s) = true -> (n <= remd md cd)%nat -> (n <= S Hn)%nat ->
         cd = 0%N \/ in_history history (hash hs s) = false -> POS_INF <= v \/ b <= v) /\
      (forall k, loss k (abs s) = true -> (k <= remd md cd)%nat -> (k <= Hn)%nat -> v <= NEG_INF \/ v <= a)
  | SInterrupt w' => TC hs P Hn (w_tt w')
  | _ => True
  end.
Proof.
  intros hs P HR [HPl HPs] history Hn HF jit cancel fuel s md cd ce a b prio w HP Hab HT Hprio.
  pose proof (analyze_complete hs P HR HPl HPs history Hn HF (fun _ => False) (fun h (F : False) => match F with end)
                0%N jit cancel fuel s md cd ce a b prio w HP Hab HT
                (fun h e (F : False) _ => match F with end) (fun _ (F : False) => match F with end) Hprio) as Hc.
  destruct (analyze hs history jit cancel fuel s md cd ce a b prio w) as [v w'|w'|site|]; cbn [cpost] in Hc;
    [|exact (proj1 Hc)|exact Logic.I|exact Logic.I].
  destruct Hc as (H1 & _ & _ & H4 & H5 & _). split; [exact H1|]. split.
  - intros n Hw Hn1 Hn2. apply H4. unfold WonAt. apply (win_mono_le n); [lia|exact Hw].
  - intros k Hl Hk1 Hk2. apply H5. unfold LostAt. apply (loss_mono_le k); [lia|exact Hl].
Qed.

Lemma TC_empty : forall hs P Hn nt nb, (0 < nt)%nat -> (0 < nb)%nat -> TC hs P Hn (empty_access nt nb).
Proof.
  intros hs P Hn nt nb Hnt Hnb. split; [apply tt_ok_empty; assumption|]. split; [apply NoUpper_empty; assumption|].
  intros h e H. pose proof (empty_refines nt nb Hnt Hnb h e H) as H1. discriminate H1.
Qed.

Lemma RS_empty : forall Hs X nt nb, (0 < nt)%nat -> (0 < nb)%nat -> RS Hs X (empty_access nt nb).
Proof. intros Hs X nt nb Hnt Hnb h e _ H. pose proof (empty_refines nt nb Hnt Hnb h e H) as H1. discriminate H1. Qed.

Lemma RS_mono : forall Hs X X' tt, (X <= X')%N -> RS Hs X tt -> RS Hs X' tt.
Proof. intros Hs X X' tt Hle H h e Hh Hf. pose proof (H h e Hh Hf). lia. Qed.

Lemma HistFree_mono : forall P hs history n n', (n' <= n)%nat -> HistFree P hs history n -> HistFree P hs history n'.
Proof.
  intros P hs history n n' Hle H s HP Hh. destruct (H s HP Hh) as [H1 H2]. split.
  - destruct (win n' (abs s)) eqn:E; [|reflexivity]. rewrite (win_mono_le n' n _ Hle E) in H1. discriminate H1.
  - destruct (loss n' (abs s)) eqn:E; [|reflexivity]. rewrite (loss_mono_le n' n _ Hle E) in H2. discriminate H2.
Qed.

(* ------------------------------------------------------------------ *)
(* 4. the iterative driver                                              *)
(* ------------------------------------------------------------------ *)

(* without cancellation a call is never interrupted *)
Lemma enter_flag_none : forall w, snd (enter_node None w) = false ->
  w_flag w = false -> w_flag (fst (enter_node None w)) = false.
Proof. intros w _ H. unfold enter_node. cbn [fst w_flag]. rewrite H. reflexivity. Qed.

Lemma no_interrupt : forall hs history jit fuel s md cd ce a b prio w, w_flag w = false ->
  match analyze hs history jit None fuel s md cd ce a b prio w with
  | SVal _ w' => w_flag w' = false
  | SInterrupt _ => False
  | _ => True
  end.
Proof.
  intros hs history jit fuel s md cd ce a b prio w Hf.
  pose proof (analyze_closure hs history jit None (fun _ => True) (fun _ _ => True) (fun _ _ => True)
                (fun _ _ _ _ _ _ _ => conj Logic.I Logic.I)
                (fun w w' => w_flag w = false -> w_flag w' = false)
                (fun w H => H) (fun w1 w2 w3 H12 H23 H => H23 (H12 H))
                enter_flag_none (fun w x H => H)) as Hc.
  specialize (Hc (fun w d H => H)).
  specialize (Hc (fun w s m k c md e _ _ _ H => H)).
  specialize (Hc fuel s md cd ce a b prio w Logic.I (fun _ _ => Logic.I)).
  destruct (analyze hs history jit None fuel s md cd ce a b prio w) as [v w'|w'| |];
    cbn [closure_post] in Hc; [exact (Hc Hf)| |exact Logic.I|exact Logic.I].
  destruct Hc as (w0 & H1 & Hi & _). unfold enter_node in Hi. cbn [snd] in Hi.
  rewrite (H1 Hf) in Hi. cbn [orb] in Hi. rewrite andb_false_r in Hi. discriminate Hi.
Qed.

Lemma iter_moves_nonempty : forall hs k tt s depth e n,
  acc_find tt (hash hs s) = Some e -> apply_move s (e_move e) = Some n ->
  iter_moves hs (S k) tt s 0%N depth <> [].
Proof.
  intros hs k tt s depth e n Ef Ha. cbn [iter_moves].
  rewrite (proj2 (N.ltb_ge depth 0) (N.le_0_l depth)), Ef, Ha. discriminate.
Qed.

(* the run ends normally and has reported a winning terminal evaluation *)
Definition Found (r : run_result) : Prop :=
  r_outcome r = 0%N /\ exists ev line, In (EvBest ev line) (r_events r) /\ POS_INF <= ev.

Definition HsOf (history : list N) (h : N) : Prop := in_history history h = true.

Section Driver.
Variable hs : hasher.
Variable P : state -> Prop.
Hypothesis HR : HashRuleOn P hs.
Hypothesis HReg : Region P.
Hypothesis HH : HeurNTOn P.

Lemma iterate_complete : forall jit_of s history n0,
  P s -> win n0 (abs s) = true -> in_history history (hash hs s) = true ->
  HistFree P hs history (n0 - 1) ->
  forall iters depth tt gnodes trace nt be bm acc,
  (N.to_nat depth < n0 <= N.to_nat depth + iters)%nat ->
  TOk P hs tt -> TC hs P (n0 - 1) tt -> RS (HsOf history) (depth + 1) tt -> TEntriesOk tt ->
  (forall m, bm = Some m -> In m (MoveGen.legal_moves s)) ->
  Found (iterate hs jit_of None iters depth s history tt gnodes false trace nt be bm acc).
Proof.
  intros jit_of s history n0 HP Hwin Hroot HF. destruct HReg as [HPl HPs].
  pose proof (HPl s HP) as HL.
  assert (HWon : Won s) by (exists n0; exact Hwin).
  intros iters. induction iters as [|k IH]; intros depth tt gnodes trace nt be bm acc Hrange HT HC HS HE Hbm; [lia|].
  cbn [iterate]. rewrite andb_false_r. cbv zeta.
  set (w0 := mkW tt 0 0 gnodes false trace).
  assert (HM : mate_in_ply 0 = 11000) by reflexivity.
  assert (Hwindow : - mate_in_ply 0 < mate_in_ply 0) by lia.
  assert (HS2 : RS (HsOf history) (depth + 2) tt) by (apply (RS_mono _ (depth + 1)%N); [lia|exact HS]).
  assert (HX2 : 0%N = 0%N -> HsOf history (hash hs s) -> (depth + 1 - 0 < depth + 2)%N) by (intros _ _; lia).
  assert (Hfuel : (N.to_nat (depth + 1 - 0) < S (S (N.to_nat depth)))%nat) by lia.
  pose proof (analyze_sound hs P HR HPl HPs HH history (jit_of depth) None (S (S (N.to_nat depth))) s (depth + 1)%N 0%N 0%N
                (- mate_in_ply 0) (mate_in_ply 0) bm w0 HP Hwindow HT Hbm) as Hsound.
  pose proof (analyze_complete hs P HR HPl HPs history (n0 - 1)%nat HF (HsOf history) (fun h H => H) (depth + 2)%N
                (jit_of depth) None (S (S (N.to_nat depth))) s (depth + 1)%N 0%N 0%N
                (- mate_in_ply 0) (mate_in_ply 0) bm w0 HP Hwindow HC
                HS2 HX2 Hbm) as Hcomp.
  pose proof (analyze_safe eval_no_panic hs history (jit_of depth) None (S (S (N.to_nat depth))) s (depth + 1)%N 0%N 0%N
                (- mate_in_ply 0) (mate_in_ply 0) bm w0 (proj1 HT) HE HL (N.le_0_l _) Hfuel Hbm) as Hsafe.
  pose proof (no_interrupt hs history (jit_of depth) (S (S (N.to_nat depth))) s (depth + 1)%N 0%N 0%N
                (- mate_in_ply 0) (mate_in_ply 0) bm w0 eq_refl) as Hni.
  destruct (analyze hs history (jit_of depth) None (S (S (N.to_nat depth))) s (depth + 1)%N 0%N 0%N
                    (- mate_in_ply 0) (mate_in_ply 0) bm w0) as [ev w|w|site|];
    [|destruct Hni|destruct Hsafe|destruct Hsafe].
  cbn [post] in Hsound. cbn [cpost] in Hcomp.
  destruct Hsound as (_ & HsL & HT'). destruct Hcomp as (HC' & HS' & _ & CW & _ & CS). destruct Hsafe as [_ HE'].
  infs.
  (* the root entry is in the table: the line is not empty *)
  assert (Hline : iter_moves hs (S (S (N.to_nat depth))) (w_tt w) s 0%N depth <> []).
  { assert (Hno : NoUsable (w_tt w0) (hash hs s) (depth + 1) 0).
    { intros e Ef. pose proof (HS _ e Hroot Ef). lia. }
    destruct (CS ltac:(lia) (or_introl eq_refl) Hno) as [(e & Ef)|[Hlow|Hnil]].
    - pose proof (proj2 (proj2 HT' _ e Ef s HP eq_refl)) as Hm.
      destruct (legal_move_succ s (e_move e) HL Hm) as (n & _ & Ha & _).
      exact (iter_moves_nonempty hs _ (w_tt w) s depth e n Ef Ha).
    - exfalso. apply (won_not_lost s HWon). apply HsL; lia.
    - exfalso. exact (won_has_move s n0 HL Hwin Hnil). }
  destruct (iter_moves hs (S (S (N.to_nat depth))) (w_tt w) s 0%N depth) as [|mv tl] eqn:El; [contradiction Hline; reflexivity|].
  destruct (POS_INF <=? ev) eqn:Hev.
  - split; [reflexivity|]. cbn [r_events]. exists ev, (mv :: tl). split; [|lia].
    apply -> in_rev. left. reflexivity.
  - assert (Hlt : (N.to_nat depth + 1 < n0)%nat).
    { destruct (le_lt_dec n0 (N.to_nat depth + 1)) as [Hge|Hlt]; [|exact Hlt]. exfalso.
      assert (HW : WonAt (n0 - 1) s (remd (depth + 1) 0)).
      { unfold WonAt. replace (Nat.min (remd (depth + 1) 0) (S (n0 - 1))) with n0 by (unfold remd; lia). exact Hwin. }
      destruct (CW HW (or_introl eq_refl)); lia. }
    rewrite Hni. apply IH.
    + lia.
    + exact HT'.
    + exact HC'.
    + replace (depth + 1 + 1)%N with (depth + 2)%N by lia. exact HS'.
    + exact HE'.
    + intros m E. injection E as <-. exact (iter_moves_head hs P _ _ _ _ _ _ _ HT' HP El).
Qed.

(* any history, any table satisfying the invariants (the soundness invariant TOk, the completeness invariant TC, no
   entry with a positive remaining depth under a recorded hash, entry depths in order).  The premise HistFree says
   that no recorded position (the root included) is won within n - 1 plies or lost within n - 1 plies; for the root
   itself this means that n is its exact mate distance *)
Theorem complete_iterative_table : forall jit_of d s n history tt,
  P s -> win n (abs s) = true -> (n <= d)%nat ->
  HistFree P hs (root_history hs s history) (n - 1) ->
  TOk P hs tt -> TC hs P (n - 1) tt -> RS (HsOf (root_history hs s history)) 1 tt -> TEntriesOk tt ->
  Found (analyze_iterative hs jit_of None d s history tt).
Proof.
  intros jit_of d s n history tt HP Hwin Hle HF HT HC HS HE.
  destruct (root_recorded hs jit_of None d s history tt) as (E & Hin & _ & _). rewrite E.
  assert (Hn1 : (1 <= n)%nat) by (destruct n; [discriminate Hwin|lia]).
  apply (iterate_complete jit_of s (root_history hs s history) n HP Hwin Hin HF); try assumption.
  - change (N.to_nat 0) with O. lia.
  - intros m E'. discriminate E'.
Qed.

Theorem complete_iterative_hist : forall jit_of d s n history nt nb,
  P s -> (0 < nt)%nat -> (0 < nb)%nat -> win n (abs s) = true -> (n <= d)%nat ->
  HistFree P hs (root_history hs s history) (n - 1) ->
  Found (analyze_iterative hs jit_of None d s history (empty_access nt nb)).
Proof.
  intros jit_of d s n history nt nb HP Hnt Hnb Hwin Hle HF.
  apply (complete_iterative_table jit_of d s n history _ HP Hwin Hle HF).
  - apply TOk_empty; assumption.
  - apply TC_empty; assumption.
  - apply RS_empty; assumption.
  - exact (proj2 (TSafe_empty nt nb Hnt Hnb)).
Qed.

(* the run from an empty history: only the root hash is recorded, and a shortest mate never returns to the root *)
Lemma root_hist_free : forall s n0, P s -> win n0 (abs s) = true -> win (n0 - 1) (abs s) = false ->
  HistFree P hs (root_history hs s []) (n0 - 1).
Proof.
  intros s n0 HP Hwin Hmin s' HP' Hh. destruct HReg as [HPl _].
  assert (E : hash hs s' = hash hs s).
  { unfold root_history, in_history in Hh. cbn [existsb] in Hh. rewrite orb_false_r in Hh. apply N.eqb_eq in Hh. exact Hh. }
  destruct (same_key_value s' s (HPl s' HP') (HPl s HP) (HR s' s HP' HP E) (n0 - 1)%nat) as [El Ew].
  rewrite El, Ew. split; [exact Hmin|].
  destruct (loss (n0 - 1) (abs s)) eqn:Ex; [|reflexivity]. exfalso. exact (win_loss_excl _ _ _ Hwin Ex).
Qed.

Theorem complete_iterative : forall jit_of d s n nt nb,
  P s -> (0 < nt)%nat -> (0 < nb)%nat -> win n (abs s) = true -> (n <= d)%nat ->
  Found (analyze_iterative hs jit_of None d s [] (empty_access nt nb)).
Proof.
  intros jit_of d s n nt nb HP Hnt Hnb Hwin Hle.
  destruct (min_win n _ Hwin) as (n0 & H1 & H2 & H3).
  apply (complete_iterative_hist jit_of d s n0 [] nt nb HP Hnt Hnb H2); [lia|].
  exact (root_hist_free s n0 HP H2 H3).
Qed.

End Driver.

(* ------------------------------------------------------------------ *)
(* 5. instances of the region                                           *)
(* ------------------------------------------------------------------ *)

(* at most ten men: the only residue is the absence of collisions among the positions reachable from the root *)
Theorem complete_small_root : forall hs s, LegalPos s -> (men s <= 10)%nat -> HashRuleOn (Reach s) hs ->
  forall jit_of d n nt nb, (0 < nt)%nat -> (0 < nb)%nat -> win n (abs s) = true -> (n <= d)%nat ->
  Found (analyze_iterative hs jit_of None d s [] (empty_access nt nb)).
Proof.
  intros hs s HL Hm HR jit_of d n nt nb Hnt Hnb Hwin Hle.
  exact (complete_iterative hs (Reach s) HR (Reach_region s HL) (Reach_small_heur s (conj HL Hm))
           jit_of d s n nt nb (Reach_root s) Hnt Hnb Hwin Hle).
Qed.

Theorem complete_small_men : forall hs, HashRuleOn SmallMen hs ->
  forall jit_of d s n nt nb, LegalPos s -> (men s <= 10)%nat -> (0 < nt)%nat -> (0 < nb)%nat ->
  win n (abs s) = true -> (n <= d)%nat ->
  Found (analyze_iterative hs jit_of None d s [] (empty_access nt nb)).
Proof.
  intros hs HR jit_of d s n nt nb HL Hm Hnt Hnb Hwin Hle.
  exact (complete_iterative hs SmallMen HR SmallMen_region SmallMen_heur jit_of d s n nt nb (conj HL Hm) Hnt Hnb Hwin Hle).
Qed.
