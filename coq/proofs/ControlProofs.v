(* The control protocol around one search (model/Control.v) is a finite transition system; its reachable
   states are enumerated by saturation INSIDE Coq and the enumeration is proved complete (closed under every
   transition), so the properties checked on it hold of every reachable state of every run, of any length. *)
From Coq Require Import List Bool Arith Lia.
From WV Require Import Control.
Import ListNotations.

Lemma sphase_eqb_eq : forall a b, sphase_eqb a b = true -> a = b.
Proof. intros [] []; cbn; intros H; try reflexivity; discriminate H. Qed.
Lemma cphase_eqb_eq : forall a b, cphase_eqb a b = true -> a = b.
Proof. intros [] []; cbn; intros H; try reflexivity; discriminate H. Qed.
Lemma uphase_eqb_eq : forall a b, uphase_eqb a b = true -> a = b.
Proof. intros [] []; cbn; intros H; try reflexivity; discriminate H. Qed.

Lemma cstate_eqb_eq : forall a b, cstate_eqb a b = true -> a = b.
Proof.
  intros [s1 f1 c1 p1 t1 w1 b1 u1 x1] [s2 f2 c2 p2 t2 w2 b2 u2 x2]. unfold cstate_eqb. cbn [c_s c_flag c_c c_pending c_timer c_wdone c_best c_u c_extra].
  intros H. repeat (apply andb_prop in H; destruct H as [H ?]).
  f_equal; try (apply eqb_prop; assumption); try (apply Nat.eqb_eq; assumption);
    [apply sphase_eqb_eq|apply cphase_eqb_eq|apply uphase_eqb_eq]; assumption.
Qed.

Lemma mem_In : forall st l, mem st l = true -> In st l.
Proof.
  intros st l H. unfold mem in H. apply existsb_exists in H. destruct H as (x & Hin & E).
  apply cstate_eqb_eq in E. subst x. exact Hin.
Qed.

Inductive Reachable (limited : bool) (extra : nat) : cstate -> Prop :=
| R_init : Reachable limited extra (init extra)
| R_step : forall st st', Reachable limited extra st -> In st' (step_all limited st) -> Reachable limited extra st'.

(* the saturation is closed under the transitions (checked by computation per instance) *)
Definition closed (limited : bool) (l : list cstate) : bool :=
  forallb (fun st => forallb (fun st' => mem st' l) (step_all limited st)) l.

Lemma reach_complete : forall limited extra l, mem (init extra) l = true -> closed limited l = true ->
  forall st, Reachable limited extra st -> In st l.
Proof.
  intros limited extra l Hi Hc st H. induction H as [|st st' _ IH Hin].
  - apply mem_In. exact Hi.
  - unfold closed in Hc. rewrite forallb_forall in Hc. specialize (Hc st IH). rewrite forallb_forall in Hc.
    apply mem_In. exact (Hc st' Hin).
Qed.

(* the properties, as boolean checks over a list of states *)
Definition chk_rank (limited : bool) (l : list cstate) : bool :=
  forallb (fun st => forallb (fun st' => Nat.ltb (rank st') (rank st)) (step_all limited st)) l.
Definition chk_quiet (limited : bool) (l : list cstate) : bool :=
  forallb (fun st => match step_sys limited st with [] => settled st | _ => true end) l.
Definition chk_final (limited : bool) (l : list cstate) : bool :=
  forallb (fun st => match step_all limited st with [] => settled st && uphase_eqb (c_u st) UDone | _ => true end) l.
Definition chk_once (l : list cstate) : bool :=
  forallb (fun st => Nat.leb (c_best st) 1 && (negb (Nat.eqb (c_best st) 1) || sphase_eqb (c_s st) SDone)) l.
Definition chk_collect (limited : bool) (l : list cstate) : bool :=
  forallb (fun st => negb (collecting st) || match step_all limited st with [] => false | _ => true end) l.

(* what each check says, for an arbitrary list of states *)
Lemma chk_rank_spec : forall lim l, chk_rank lim l = true ->
  forall st, In st l -> forall st', In st' (step_all lim st) -> rank st' < rank st.
Proof.
  intros lim l H st Hst st' Hin. unfold chk_rank in H. rewrite forallb_forall in H. specialize (H st Hst).
  rewrite forallb_forall in H. apply Nat.ltb_lt. exact (H st' Hin).
Qed.
Lemma chk_quiet_spec : forall lim l, chk_quiet lim l = true ->
  forall st, In st l -> step_sys lim st = [] -> settled st = true.
Proof.
  intros lim l H st Hst E. unfold chk_quiet in H. rewrite forallb_forall in H. specialize (H st Hst). rewrite E in H. exact H.
Qed.
Lemma chk_final_spec : forall lim l, chk_final lim l = true ->
  forall st, In st l -> step_all lim st = [] -> settled st = true /\ c_u st = UDone.
Proof.
  intros lim l H st Hst E. unfold chk_final in H. rewrite forallb_forall in H. specialize (H st Hst). rewrite E in H.
  apply andb_prop in H. destruct H as [H1 H2]. split; [exact H1|apply uphase_eqb_eq; exact H2].
Qed.
Lemma chk_once_spec : forall l, chk_once l = true ->
  forall st, In st l -> c_best st <= 1 /\ (c_best st = 1 -> c_s st = SDone).
Proof.
  intros l H st Hst. unfold chk_once in H. rewrite forallb_forall in H. specialize (H st Hst).
  apply andb_prop in H. destruct H as [H1 H2]. split; [apply Nat.leb_le; exact H1|].
  intros E. rewrite E in H2. cbn in H2. apply sphase_eqb_eq. exact H2.
Qed.
Lemma chk_collect_spec : forall lim l, chk_collect lim l = true ->
  forall st, In st l -> collecting st = true -> step_all lim st <> [].
Proof.
  intros lim l H st Hst Hc E. unfold chk_collect in H. rewrite forallb_forall in H. specialize (H st Hst).
  rewrite Hc, E in H. discriminate H.
Qed.

(* each check holds of the saturation for both kinds of search and up to three further Stops (by computation) *)
Definition instances (P : bool -> nat -> bool) : bool :=
  forallb (fun limited => forallb (fun extra => P limited extra) [0; 1; 2; 3]) [true; false].

Lemma inst : forall P, instances P = true -> forall limited extra, extra <= 3 -> P limited extra = true.
Proof.
  intros P A limited extra H. unfold instances in A. rewrite forallb_forall in A.
  assert (Hl : In limited [true; false]) by (destruct limited; cbn; auto).
  specialize (A limited Hl). rewrite forallb_forall in A. apply A.
  destruct extra as [|[|[|[|e]]]]; cbn; auto. lia.
Qed.

Lemma ok_init : instances (fun lim x => mem (init x) (reach lim x)) = true. Proof. vm_compute. reflexivity. Qed.
Lemma ok_closed : instances (fun lim x => closed lim (reach lim x)) = true. Proof. vm_compute. reflexivity. Qed.
Lemma ok_rank : instances (fun lim x => chk_rank lim (reach lim x)) = true. Proof. vm_compute. reflexivity. Qed.
Lemma ok_quiet : instances (fun lim x => chk_quiet lim (reach lim x)) = true. Proof. vm_compute. reflexivity. Qed.
Lemma ok_final : instances (fun lim x => chk_final lim (reach lim x)) = true. Proof. vm_compute. reflexivity. Qed.
Lemma ok_once : instances (fun lim x => chk_once (reach lim x)) = true. Proof. vm_compute. reflexivity. Qed.
Lemma ok_collect : instances (fun lim x => chk_collect lim (reach lim x)) = true. Proof. vm_compute. reflexivity. Qed.

Section Facts.
Variable limited : bool.
Variable extra : nat.
Hypothesis Hx : extra <= 3.

Lemma reachable_in : forall st, Reachable limited extra st -> In st (reach limited extra).
Proof.
  pose proof (inst (fun lim x => mem (init x) (reach lim x)) ok_init limited extra Hx) as H1.
  pose proof (inst (fun lim x => closed lim (reach lim x)) ok_closed limited extra Hx) as H2.
  cbv beta in H1, H2.
  exact (reach_complete limited extra (reach limited extra) H1 H2).
Qed.

(* every transition of every reachable state decreases the rank: every run is finite *)
Theorem step_decreases : forall st st', Reachable limited extra st -> In st' (step_all limited st) -> rank st' < rank st.
Proof.
  intros st st' HR Hin. pose proof (inst (fun lim x => chk_rank lim (reach lim x)) ok_rank limited extra Hx) as H. cbv beta in H.
  exact (chk_rank_spec limited _ H st (reachable_in st HR) st' Hin).
Qed.

(* a run: a sequence of transitions *)
Inductive Run : cstate -> list cstate -> Prop :=
| Run_nil : forall st, Run st []
| Run_cons : forall st st' tl, In st' (step_all limited st) -> Run st' tl -> Run st (st' :: tl).

Theorem runs_are_short : forall st tl, Reachable limited extra st -> Run st tl -> length tl <= rank st.
Proof.
  intros st tl HR H. induction H as [st|st st' tl Hin _ IH]; cbn [length]; [lia|].
  pose proof (step_decreases st st' HR Hin) as Hd.
  specialize (IH (R_step limited extra st st' HR Hin)). lia.
Qed.

(* when the engine threads have nothing left to do, the search thread, the control thread, the timer and the
   writer have all ended and exactly one bestmove has been printed - whatever the caller did or did not do *)
Theorem quiet_is_settled : forall st, Reachable limited extra st -> step_sys limited st = [] -> settled st = true.
Proof.
  intros st HR E. pose proof (inst (fun lim x => chk_quiet lim (reach lim x)) ok_quiet limited extra Hx) as H. cbv beta in H.
  exact (chk_quiet_spec limited _ H st (reachable_in st HR) E).
Qed.

(* a state without any transition: everything has ended, one bestmove, and the caller has the artifact *)
Theorem final_is_collected : forall st, Reachable limited extra st -> step_all limited st = [] ->
  settled st = true /\ c_u st = UDone.
Proof.
  intros st HR E. pose proof (inst (fun lim x => chk_final lim (reach lim x)) ok_final limited extra Hx) as H. cbv beta in H.
  exact (chk_final_spec limited _ H st (reachable_in st HR) E).
Qed.

(* never two bestmoves, and none before the search thread has ended *)
Theorem bestmove_at_most_once : forall st, Reachable limited extra st ->
  c_best st <= 1 /\ (c_best st = 1 -> c_s st = SDone).
Proof.
  intros st HR. pose proof (inst (fun lim x => chk_once (reach lim x)) ok_once limited extra Hx) as H. cbv beta in H.
  exact (chk_once_spec _ H st (reachable_in st HR)).
Qed.

(* a collection (wait_cancel) in progress is never stuck *)
Theorem collection_progresses : forall st, Reachable limited extra st -> collecting st = true -> step_all limited st <> [].
Proof.
  intros st HR Hc. pose proof (inst (fun lim x => chk_collect lim (reach lim x)) ok_collect limited extra Hx) as H. cbv beta in H.
  exact (chk_collect_spec limited _ H st (reachable_in st HR) Hc).
Qed.

End Facts.
