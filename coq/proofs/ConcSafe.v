(* C04 for several workers under every schedule: a worker started on a legal position with cur <= max depth
   and fuel > max - cur never reaches a panic site and never runs out of fuel, whatever the table answers -
   as long as every entry it is handed has depth <= max depth (analyzeP_safe); every entry it inserts has
   depth < max depth.  Hence by the rely/guarantee theorem (ConcRG.run_workers_sat) n workers interleaved
   in any order on a sane table all return values, and analyze_iterativeM ends with outcome 0 and hands back
   a table satisfying its hypotheses again (iterativeM_safe). *)
From Coq Require Import NArith ZArith List Bool Lia ZifyBool ZifyN ZifyNat.
From WV Require Import Types Bits Attacks Board MoveEnc MoveGen Text Table Eval Search Conc Wf.
From WV Require Import SearchBase SearchProofs SearchSafety SearchMen SearchTop EvalProofs.
From WV Require Import ConcSeq ConcRG ConcLegal.
Import ListNotations.
Open Scope N_scope.

(* rely: what a find may return (TEntriesOk, entry by entry) *)
Definition R_safe (h : N) (e : entry) : Prop := e_depth e <= e_maxdepth e.
(* guarantee: what is inserted is stored below its maximal depth *)
Definition G_safe (h : N) (e : entry) : Prop := e_depth e < e_maxdepth e.
(* postcondition: a value *)
Definition Q_safe (r : pres) : Prop :=
  match r with WVal _ _ => True | WPanic _ => False | WFuel => False end.

Lemma G_safe_R_safe : forall h e, G_safe h e -> R_safe h e.
Proof. intros h e H. unfold G_safe, R_safe in *. lia. Qed.

Lemma TabR_TSafe : forall tt, TabR R_safe tt <-> TSafe tt.
Proof.
  intros tt. unfold TabR, TSafe, TEntriesOk, R_safe. split; intros [H1 H2]; (split; [exact H1|]).
  - intros h e Hf. exact (H2 h e Hf).
  - intros h e Hf. exact (H2 h e Hf).
Qed.

(* the probe never panics on an entry satisfying the rely *)
Lemma probe_of_no_panic : forall h r maxd cur a b site,
  (forall e, r = Some e -> R_safe h e) -> cur <= maxd ->
  probe_of r maxd cur a b <> PPanic site.
Proof.
  intros h r maxd cur a b site Hr Hle. unfold probe_of.
  destruct r as [e|]; [|discriminate].
  pose proof (Hr e eq_refl) as Hd. unfold R_safe in Hd.
  assert (H1 : (maxd <? cur) = false) by (apply N.ltb_ge; exact Hle). rewrite H1.
  assert (H2 : (e_maxdepth e <? e_depth e) = false) by (apply N.ltb_ge; exact Hd). rewrite H2.
  destruct (maxd - cur <=? e_maxdepth e - e_depth e); [|discriminate].
  destruct (e_kind e).
  - discriminate.
  - cbv zeta. destruct (Z.min b (e_eval e) <=? a)%Z; discriminate.
  - cbv zeta. destruct (b <=? Z.max a (e_eval e))%Z; discriminate.
Qed.

Section Safe.
Variable hs : hasher.
Variable history : list N.
Variable jit : N -> Z.

Notation SAT := (sat R_safe G_safe Q_safe).

Lemma loopP_safe : forall k (recP : recP_t),
  (forall ns md cd ce a b st, LegalPos ns -> cd <= md -> (N.to_nat (md - cd) < k)%nat ->
     SAT (recP ns md cd ce a b None st)) ->
  forall s h md cd ce ext beta1 prev, LegalPos s -> cd < md -> (N.to_nat (md - cd) < S k)%nat ->
  forall l, (forall m, In m l -> In m (MoveGen.pseudo_legal s)) ->
  forall alpha best kind st,
  SAT (loop_bodyP recP s h md cd ce ext beta1 prev l alpha best kind st).
Proof.
  intros k recP Hrec s h md cd ce ext beta1 prev HL Hlt Hf l.
  induction l as [|m tl IH]; intros Hl alpha best kind st; cbn [loop_bodyP].
  - destruct (prev =? l_nodes st).
    + pose proof (eval_no_panic s (st_turn s) cd HL) as He.
      destruct (evaluate s (st_turn s) cd); [apply sat_ret; exact Logic.I|exfalso; exact (He eq_refl)].
    + destruct best as [bm|]; [|apply sat_ret; exact Logic.I].
      apply sat_ins; [|apply sat_ret; exact Logic.I].
      unfold G_safe. cbn [e_depth e_maxdepth]. exact Hlt.
  - assert (Htl : forall m', In m' tl -> In m' (MoveGen.pseudo_legal s)) by (intros m' Hm'; apply Hl; right; exact Hm').
    destruct (pseudo_apply_some s m HL (Hl m (or_introl eq_refl))) as [ns Ha]. rewrite Ha.
    fold (king_hit s ns). destruct (king_hit s ns) eqn:Hk.
    + apply IH; assumption.
    + destruct (searched_move s m ns HL (Hl m (or_introl eq_refl)) Ha Hk) as (_ & HLn & _).
      assert (Hle : cd + 1 + ext <= md + ext) by lia.
      assert (Hf' : (N.to_nat (md + ext - (cd + 1 + ext)) < k)%nat) by lia.
      apply (sat_bind _ _ _ _ Q_safe); [apply Hrec; assumption|].
      intros r Hr. destruct r as [v st'|site|]; [|destruct Hr|destruct Hr].
      cbv zeta. destruct (beta1 <=? - v)%Z.
      * apply sat_ins; [|apply sat_ret; exact Logic.I].
        unfold G_safe. cbn [e_depth e_maxdepth]. exact Hlt.
      * destruct (alpha <? - v)%Z; apply IH; exact Htl.
Qed.

Lemma nodeP_safe : forall k (recP : recP_t),
  (forall ns md cd ce a b st, LegalPos ns -> cd <= md -> (N.to_nat (md - cd) < k)%nat ->
     SAT (recP ns md cd ce a b None st)) ->
  forall s md cd ce a b prio st, LegalPos s -> cd <= md -> (N.to_nat (md - cd) < S k)%nat ->
  (forall pm, prio = Some pm -> In pm (MoveGen.legal_moves s)) ->
  SAT (node_bodyP hs history jit recP s md cd ce a b prio st).
Proof.
  intros k recP Hrec s md cd ce a b prio st HL Hle Hf Hprio. unfold node_bodyP. cbv zeta.
  destruct ((0 <? cd) && in_history history (hash hs s)); [apply sat_ret; exact Logic.I|].
  apply sat_find. intros r Hr.
  pose proof (fun site => probe_of_no_panic (hash hs s) r md cd a b site Hr Hle) as Hp.
  destruct (probe_of r md cd a b) as [v|a1 b1|site];
    [apply sat_ret; exact Logic.I| |exfalso; exact (Hp site eq_refl)].
  destruct (md <=? cd) eqn:Hmd.
  - pose proof (fun site => quiesce_no_panic eval_no_panic (S (men s)) s cd a1 b1 site HL) as Hq1.
    pose proof (quiesce_fuel_ok s cd a1 b1 HL) as Hq2.
    destruct (quiesce (S (men s)) s cd a1 b1) as [v|site|];
      [apply sat_ret; exact Logic.I|exfalso; exact (Hq1 site eq_refl)|exfalso; exact (Hq2 eq_refl)].
  - apply N.leb_gt in Hmd. apply (loopP_safe k recP Hrec s (hash hs s) md cd ce _ b1 _ HL Hmd Hf).
    intros m Hm.
    assert (Hin : In m (ordered_moves jit s (l_jidx st) prio)) by exact Hm.
    apply ordered_moves_in in Hin. destruct Hin as [Hi|Hi]; [exact Hi|].
    apply legal_in_pseudo. exact (Hprio m Hi).
Qed.

Theorem analyzeP_safe : forall fuel s md cd ce a b prio st,
  LegalPos s -> cd <= md -> (N.to_nat (md - cd) < fuel)%nat ->
  (forall pm, prio = Some pm -> In pm (MoveGen.legal_moves s)) ->
  SAT (analyzeP hs history jit fuel s md cd ce a b prio st).
Proof.
  induction fuel as [|k IH]; intros s md cd ce a b prio st HL Hle Hf Hprio; [lia|].
  cbn [analyzeP]. apply (nodeP_safe k); [|exact HL|exact Hle|exact Hf|exact Hprio].
  intros ns md' cd' ce' a' b' st' HLn Hle' Hf'. apply IH; [exact HLn|exact Hle'|exact Hf'|].
  intros pm E. discriminate E.
Qed.

End Safe.

(* ------------------------------------------------------------------ *)
(* two rely/guarantee judgements about the same program can be joined   *)
(* ------------------------------------------------------------------ *)

Lemma sat_conj : forall A (R1 G1 R2 G2 : N -> entry -> Prop) (Q1 Q2 : A -> Prop) (p : prog A),
  sat R1 G1 Q1 p -> sat R2 G2 Q2 p ->
  sat (fun h e => R1 h e /\ R2 h e) (fun h e => G1 h e /\ G2 h e) (fun a => Q1 a /\ Q2 a) p.
Proof.
  intros A R1 G1 R2 G2 Q1 Q2 p H1. induction H1 as [a Ha|h k _ IH|h e k Hg _ IH]; intros H2.
  - inversion H2 as [a' Ha'| |]; subst a'. apply sat_ret. split; assumption.
  - inversion H2 as [|h' k' Hk'|]; subst h' k'. apply sat_find. intros r Hr.
    apply IH.
    + intros e E. exact (proj1 (Hr e E)).
    + apply Hk'. intros e E. exact (proj2 (Hr e E)).
  - inversion H2 as [| |h' e' k' Hg' Hk']; subst h' e' k'. apply sat_ins; [split; assumption|].
    apply IH. exact Hk'.
Qed.

(* the two instances together: legality of stored moves (ConcLegal) and sanity of stored depths *)
Definition R_all (hs : hasher) (h : N) (e : entry) : Prop := R_leg hs h e /\ R_safe h e.
Definition G_all (hs : hasher) (h : N) (e : entry) : Prop := G_leg hs h e /\ G_safe h e.

Lemma G_all_R_all : forall hs, HashFaithful hs -> forall h e, G_all hs h e -> R_all hs h e.
Proof.
  intros hs HF h e [H1 H2]. split; [exact (G_leg_R_leg hs HF h e H1)|exact (G_safe_R_safe h e H2)].
Qed.

Lemma TabR_TAll : forall hs tt, TabR (R_all hs) tt <-> TAll hs tt.
Proof.
  intros hs tt. unfold TabR, TAll, TInv, TEntriesOk, R_all, R_leg, R_safe. split.
  - intros [H1 H2]. split; [exact H1|]. split.
    + intros h e Hf s HL Hh. exact (proj1 (H2 h e Hf) s HL Hh).
    + intros h e Hf. exact (proj2 (H2 h e Hf)).
  - intros (H1 & H2 & H3). split; [exact H1|]. intros h e Hf. split.
    + intros s HL Hh. exact (H2 h e Hf s HL Hh).
    + exact (H3 h e Hf).
Qed.

Lemma worker_depth_le : forall depth i, worker_depth depth i <= depth + 1.
Proof. intros depth i. unfold worker_depth. destruct (Nat.even i); lia. Qed.

Lemma worker_safe : forall hs jit_of depth s history bm i, LegalPos s ->
  (forall m, bm = Some m -> In m (MoveGen.legal_moves s)) ->
  sat (R_all hs) (G_all hs) Q_safe (worker_prog hs jit_of depth s history bm i).
Proof.
  intros hs jit_of depth s history bm i HL Hbm. unfold worker_prog.
  assert (Hprio : forall pm, match i with O => bm | S _ => None end = Some pm -> In pm (MoveGen.legal_moves s)).
  { destruct i as [|i']; [exact Hbm|intros pm E; discriminate E]. }
  pose proof (worker_depth_le depth i) as Hwd.
  apply (sat_mono _ (fun h e => Rtrue h e /\ R_safe h e) (R_all hs)
                    (fun h e => G_leg hs h e /\ G_safe h e) (G_all hs)
                    (fun a : pres => True /\ Q_safe a) Q_safe).
  - intros h e [H1 H2]. split; [exact Logic.I|exact H2].
  - intros h e H. exact H.
  - intros a [_ H]. exact H.
  - apply sat_conj.
    + apply analyzeP_emits; [exact HL|exact Hprio].
    + apply analyzeP_safe; [exact HL|apply N.le_0_l|lia|exact Hprio].
Qed.

Lemma workers_safe : forall hs jit_of depth s history bm (l : list nat), LegalPos s ->
  (forall m, bm = Some m -> In m (MoveGen.legal_moves s)) ->
  Forall (sat (R_all hs) (G_all hs) Q_safe) (map (worker_prog hs jit_of depth s history bm) l).
Proof.
  intros hs jit_of depth s history bm l HL Hbm. apply Forall_forall. intros p Hp.
  apply in_map_iff in Hp. destruct Hp as (i & <- & _). apply worker_safe; assumption.
Qed.

(* no failure among the results: the join reports outcome 0 *)
Lemma join_results_safe : forall rs best n, Forall Q_safe rs -> snd (join_results rs best n) = 0.
Proof.
  induction rs as [|r tl IH]; intros best n H; cbn [join_results]; [reflexivity|].
  inversion H as [|r' tl' Hr Htl]; subst r' tl'.
  destruct r as [v l|site|]; [|destruct Hr|destruct Hr]. apply IH. exact Htl.
Qed.

(* conversely outcome 0 is reported only when no result is a failure *)
Lemma join_results_zero : forall rs best n, snd (join_results rs best n) = 0 -> Forall Q_safe rs.
Proof.
  induction rs as [|r tl IH]; intros best n H; [constructor|].
  destruct r as [v l|site|]; cbn [join_results snd] in H.
  - constructor; [exact Logic.I|]. exact (IH _ _ H).
  - lia.
  - discriminate H.
Qed.

Lemma iterateM_safe : forall hs jit_of workers, HashFaithful hs ->
  forall iters depth s history tt sched nt bm acc,
  LegalPos s -> TAll hs tt -> (forall m, bm = Some m -> In m (MoveGen.legal_moves s)) ->
  let r := iterateM hs jit_of workers iters depth s history tt sched nt bm acc in
  m_outcome r = 0 /\ TAll hs (m_tt r).
Proof.
  intros hs jit_of workers HF iters. induction iters as [|k IH];
    intros depth s history tt sched nt bm acc HL HT Hbm; cbn [iterateM].
  - cbn [m_outcome m_tt]. split; [reflexivity|exact HT].
  - cbv zeta.
    pose proof (run_workers_sat (R_all hs) (G_all hs) Q_safe (G_all_R_all hs HF) sched
                  (map (worker_prog hs jit_of depth s history bm) (seq 0 workers)) tt
                  (workers_safe hs jit_of depth s history bm (seq 0 workers) HL Hbm)
                  (proj2 (TabR_TAll hs tt) HT)) as Hrw.
    destruct (run_workers sched (map (worker_prog hs jit_of depth s history bm) (seq 0 workers)) tt) as [[rs tt1] sched1].
    destruct Hrw as (Hrs & HT1 & _). apply TabR_TAll in HT1.
    pose proof (join_results_safe rs None 0 Hrs) as Hj.
    destruct (join_results rs None 0) as [[best n] oc]. cbn [snd] in Hj. subst oc.
    destruct best as [ev|]; [|cbn [m_outcome m_tt]; split; [reflexivity|exact HT1]].
    pose proof (lines_legal hs (S (S (N.to_nat depth))) tt1 s 0 depth (proj1 (proj2 HT1)) HL) as Hline.
    destruct (iter_moves hs (S (S (N.to_nat depth))) tt1 s 0 depth) as [|mv tl].
    + cbn [m_outcome m_tt]. split; [reflexivity|exact HT1].
    + destruct (POS_INF <=? ev)%Z; [cbn [m_outcome m_tt]; split; [reflexivity|exact HT1]|].
      apply IH; [exact HL|exact HT1|]. intros m E. injection E as <-. exact (proj1 Hline).
Qed.

(* C04, several workers: whatever the number of workers and whatever the schedule, the run finishes
   (never a panic site, never out of fuel) and the table handed back satisfies the hypotheses again *)
Theorem iterativeM_safe : forall hs jit_of workers iters s history tt sched,
  HashFaithful hs -> LegalPos s -> tt_ok tt -> TInv hs tt -> TEntriesOk tt ->
  let r := analyze_iterativeM hs jit_of workers iters s history tt sched in
  m_outcome r = 0 /\ tt_ok (m_tt r) /\ TInv hs (m_tt r) /\ TEntriesOk (m_tt r).
Proof.
  intros hs jit_of workers iters s history tt sched HF HL H1 H2 H3. unfold analyze_iterativeM.
  apply (iterateM_safe hs jit_of workers HF); [exact HL|exact (conj H1 (conj H2 H3))|].
  intros m E. discriminate E.
Qed.

(* one iteration on its own: every worker returns a value, under every schedule *)
Theorem run_workers_safe : forall hs jit_of workers depth s history bm tt sched,
  HashFaithful hs -> LegalPos s -> TAll hs tt -> (forall m, bm = Some m -> In m (MoveGen.legal_moves s)) ->
  let '(rs, tt', _) := run_workers sched (map (worker_prog hs jit_of depth s history bm) (seq 0 workers)) tt in
  Forall Q_safe rs /\ TAll hs tt' /\ length rs = workers.
Proof.
  intros hs jit_of workers depth s history bm tt sched HF HL HT Hbm.
  pose proof (run_workers_sat (R_all hs) (G_all hs) Q_safe (G_all_R_all hs HF) sched
                (map (worker_prog hs jit_of depth s history bm) (seq 0 workers)) tt
                (workers_safe hs jit_of depth s history bm (seq 0 workers) HL Hbm)
                (proj2 (TabR_TAll hs tt) HT)) as Hrw.
  destruct (run_workers sched (map (worker_prog hs jit_of depth s history bm) (seq 0 workers)) tt) as [[rs tt1] sched1].
  destruct Hrw as (Hrs & HT1 & Hlen). split; [exact Hrs|]. split; [apply TabR_TAll; exact HT1|].
  rewrite Hlen, map_length, seq_length. reflexivity.
Qed.

Print Assumptions analyzeP_safe.
Print Assumptions run_workers_safe.
Print Assumptions iterativeM_safe.
