(* R3, part 2: the side conditions follow from LegalPos; origin/destination bounds; NoDup (pawn_moves s). *)
From Coq Require Import Lia ZifyBool ZifyN ZifyNat.
From WV Require Import Types Bits Attacks Board MoveEnc MoveGen Rules Abs Wf Encode.
From WV Require Import BitsProofs BoardProofs MoveEncProofs GenPawns.
Import WV.Bits.
Ltac Zify.zify_post_hook ::= Z.div_mod_to_equations.
Open Scope N_scope.
Arguments N.add : simpl never.
Arguments N.sub : simpl never.
Arguments N.mul : simpl never.
Arguments N.land : simpl never.
Arguments N.lor : simpl never.
Arguments N.shiftl : simpl never.
Arguments N.shiftr : simpl never.
(* ------------------------------------------------------------------------- *)
(* the side conditions follow from LegalPos                                   *)

(* Qed-time conversion must unfold legal_pos before andb: otherwise the kernel weak-head reduces
   count_pieces over the 64 squares on both sides and compares the stuck terms (exponential) *)
Local Strategy expand [Rules.legal_pos].
Lemma legal_pos_parts : forall p, Rules.legal_pos p = true ->
  forallb (fun s => negb ((srank s =? 0)%Z || (srank s =? 7)%Z) || negb (has p s White Pawn || has p s Black Pawn)) all_squares = true /\
  match p_ep p with
     | None => true
     | Some t =>
         let c := p_turn p in
         (srank t =? (if is_white c then 5 else 2))%Z
         && empty_at p t
         && empty_at p (sq_of (sfile t) (srank t + fwd c))
         && has p (sq_of (sfile t) (srank t - fwd c)) (opp c) Pawn
     end = true.
Proof.
  intros p H. unfold Rules.legal_pos in H.
  apply andb_prop in H. destruct H as [H He].
  apply andb_prop in H. destruct H as [H _].
  apply andb_prop in H. destruct H as [_ Hp]. split; assumption.
Qed.

Lemma legal_pos_pawns : forall s, WfState s -> Rules.legal_pos (abs s) = true -> pawns_ok s.
Proof.
  intros s Hwf H. pose proof (wf_state_board s Hwf) as Hwb.
  apply legal_pos_parts in H. destruct H as [Hp _].
  intros c t Ht. pose proof (test_lt64 _ _ (wf_slots _ Hwb c Pawn) Ht) as Ht64.
    apply (forallb_squares _ Hp) in Ht64.
    apply (pawn_piece_at _ _ _ Hwb) in Ht. rewrite <- abs_p_at in Ht. apply has_iff in Ht.
    assert (Hh : has (abs s) t White Pawn || has (abs s) t Black Pawn = true)
      by (destruct c; rewrite Ht; [reflexivity | apply orb_true_r]).
    rewrite Hh in Ht64. cbn [negb] in Ht64. rewrite orb_false_r, negb_true_iff, orb_false_iff in Ht64.
    unfold srank, rank_of in *. lia.
Qed.

Lemma legal_pos_ep : forall s, WfState s -> Rules.legal_pos (abs s) = true -> ep_ok s.
Proof.
  intros s Hwf H. pose proof (wf_state_board s Hwf) as Hwb.
  apply legal_pos_parts in H. destruct H as [_ He].
  unfold ep_ok. cbn [abs p_ep p_turn] in He. 
    destruct (st_ep s) as [t|] eqn:E; [|exact I]. cbv zeta.
    apply andb_prop in He. destruct He as [He H4].
    apply andb_prop in He. destruct He as [He _].
    apply andb_prop in He. destruct He as [H1 H2]. cbv zeta in H1.
    split; [exact (wf_state_ep s t Hwf E)|].
    split; [apply Z.eqb_eq in H1; unfold srank, rank_of in H1 |- *; destruct (is_white (st_turn s)); lia|].
    split; [apply vacant_iff; exact H2|].
    apply has_iff in H4. rewrite abs_p_at in H4. exact H4.
Qed.

Lemma legal_pos_side : forall s, WfState s -> Rules.legal_pos (abs s) = true -> pawns_ok s /\ ep_ok s.
Proof. intros s Hwf H. split; [apply legal_pos_pawns | apply legal_pos_ep]; assumption. Qed.

Theorem legal_pos_pawns_ep : forall s, LegalPos s -> pawns_ok s /\ ep_ok s.
Proof.
  intros s H. unfold LegalPos, legal_posb in H. apply andb_true_iff in H. destruct H as [Hwf Hl].
  exact (legal_pos_side s Hwf Hl).
Qed.

(* ------------------------------------------------------------------------- *)
(* origin / destination bounds                                                *)

Lemma enc_pawn_fields : forall s f t pro, WfState s -> pawn_on s f -> t < 64 ->
  m_origin (enc_move s (mkMove f t pro)) = f /\ m_dest (enc_move s (mkMove f t pro)) = t.
Proof.
  intros s f t pro Hwf Hf Ht. pose proof (pawn_on_lt s f Hwf Hf) as Hf64.
  unfold enc_move. cbn [mv_from mv_to mv_promo]. rewrite (pawn_kind_on s f Hwf Hf).
  destruct (negb (file_of f =? file_of t) && _).
  - destruct (en_passant_fields (st_turn s) f t Hf64 Ht) as (_ & _ & Ho & Hd & _). auto.
  - fold (build (st_turn s) Pawn f t (kind_on (st_board s) t) pro).
    split; [apply build_origin; exact Hf64 | apply build_dest; exact Ht].
Qed.

Theorem pawn_moves_bounds : forall s m, WfState s -> pawns_ok s -> ep_ok s ->
  In m (pawn_moves s) -> m_origin m < 64 /\ m_dest m < 64.
Proof.
  intros s m Hwf _ Hep H. destruct (pawn_gen_sound s m Hwf Hep H) as [f [t [pro [Hf [Hr ->]]]]].
  pose proof (pawn_rule_dest_lt s f t pro Hwf Hf Hr) as Ht.
  destruct (enc_pawn_fields s f t pro Hwf Hf Ht) as [-> ->].
  split; [exact (pawn_on_lt s f Hwf Hf) | exact Ht].
Qed.

(* ------------------------------------------------------------------------- *)
(* NoDup                                                                      *)

Lemma NoDup_app_intro : forall (A : Type) (l1 l2 : list A),
  NoDup l1 -> NoDup l2 -> (forall x, In x l1 -> In x l2 -> False) -> NoDup (l1 ++ l2).
Proof.
  intros A l1 l2 H1 H2. induction H1 as [|x l Hx H1 IH]; intros Hd; cbn [app]; [exact H2|].
  constructor.
  - rewrite in_app_iff. intros [Hin | Hin]; [exact (Hx Hin) | exact (Hd x (or_introl eq_refl) Hin)].
  - apply IH. intros y Hy. apply Hd. right. exact Hy.
Qed.

Lemma NoDup_map_key : forall (A B : Type) (g : A -> B) (key : B -> A) (l : list A),
  NoDup l -> (forall x, In x l -> key (g x) = x) -> NoDup (map g l).
Proof.
  intros A B g key l H. induction H as [|x l Hx H IH]; intros Hk; cbn [map]; constructor.
  - intros Hin. apply in_map_iff in Hin. destruct Hin as [y [E Hy]].
    assert (E' : y = x).
    { rewrite <- (Hk y (or_intror Hy)), <- (Hk x (or_introl eq_refl)), E. reflexivity. }
    subst y. exact (Hx Hy).
  - apply IH. intros y Hy. apply Hk. right. exact Hy.
Qed.

Lemma NoDup_flat_map_key : forall (A B : Type) (f : A -> list B) (key : B -> A) (l : list A),
  NoDup l -> (forall x, In x l -> NoDup (f x)) -> (forall x y, In x l -> In y (f x) -> key y = x) ->
  NoDup (flat_map f l).
Proof.
  intros A B f key l H. induction H as [|x l Hx H IH]; intros Hn Hk; cbn [flat_map]; [constructor|].
  apply NoDup_app_intro.
  - apply Hn. left. reflexivity.
  - apply IH; [intros y Hy; apply Hn; right; exact Hy | intros y z Hy; apply Hk; right; exact Hy].
  - intros z Hz1 Hz2. apply in_flat_map in Hz2. destruct Hz2 as [y [Hy Hz2]].
    assert (E : y = x).
    { rewrite <- (Hk y z (or_intror Hy) Hz2). apply Hk; [left; reflexivity | exact Hz1]. }
    subst y. exact (Hx Hy).
Qed.

(* a signature that separates the nine branches *)
Definition sig (m : N) : Z * Z * bool * bool :=
  ((sfile (m_dest m) - sfile (m_origin m))%Z, (srank (m_dest m) - srank (m_origin m))%Z,
   match m_promotion m with Some _ => true | None => false end, m_is_ep m).

Definition all_sig (l : list N) (k : Z * Z * bool * bool) : Prop := forall m, In m l -> sig m = k.

Lemma NoDup_by_sig : forall (ls : list (list N)) (ks : list (Z * Z * bool * bool)),
  Forall2 all_sig ls ks -> NoDup ks -> Forall (@NoDup N) ls -> NoDup (concat ls).
Proof.
  intros ls ks H. induction H as [|l k ls ks Hl H IH]; intros Hk Hn; cbn [concat]; [constructor|].
  inversion Hk as [|? ? Hk1 Hk2]; subst. inversion Hn as [|? ? Hn1 Hn2]; subst.
  apply NoDup_app_intro; [exact Hn1 | exact (IH Hk2 Hn2) |].
  intros x Hx1 Hx2. apply in_concat in Hx2. destruct Hx2 as [l' [Hl' Hx2]].
  assert (Hex : exists k', In k' ks /\ all_sig l' k').
  { clear - H Hl'. induction H as [|a b la lb Hab H IH]; [destruct Hl'|].
    destruct Hl' as [<- | Hl']; [exists b; split; [left; reflexivity | exact Hab]|].
    destruct (IH Hl') as [k' [Hk' Hs]]. exists k'. split; [right; exact Hk' | exact Hs]. }
  destruct Hex as [k' [Hk' Hs]]. rewrite <- (Hl x Hx1), (Hs x Hx2) in Hk1. exact (Hk1 Hk').
Qed.

Lemma sig_build : forall c f t cap pro dx dy, f < 64 -> t < 64 ->
  (sfile t - sfile f = dx)%Z -> (srank t - srank f = dy)%Z ->
  sig (build c Pawn f t cap pro) =
  (dx, dy, match pro with Some PNone => false | Some _ => true | None => false end, false).
Proof.
  intros c f t cap pro dx dy Hf Ht Hx Hy. unfold sig.
  rewrite (build_origin c Pawn f t cap pro Hf), (build_dest c Pawn f t cap pro Ht), build_is_ep, Hx, Hy.
  unfold m_promotion. rewrite build_promotion_raw. destruct pro as [[]|]; reflexivity.
Qed.

Lemma sig_ep : forall c f t dx dy, f < 64 -> t < 64 ->
  (sfile t - sfile f = dx)%Z -> (srank t - srank f = dy)%Z ->
  sig (by_en_passant c Pawn f t) = (dx, dy, false, true).
Proof.
  intros c f t dx dy Hf Ht Hx Hy. unfold sig.
  destruct (en_passant_fields c f t Hf Ht) as (_ & _ & -> & -> & _ & -> & -> & _).
  rewrite Hx, Hy. reflexivity.
Qed.

Lemma promo_kind_flag : forall k, is_promo_kind k = true ->
  match Some k with Some PNone => false | Some _ => true | None => false end = true.
Proof. intros k H. destruct k; try reflexivity; discriminate H. Qed.

Lemma sig_pushes : forall s, WfState s -> all_sig (l_pushes s) (0%Z, fwd (st_turn s), false, false).
Proof.
  intros s Hwf m H. apply (in_pushes s m Hwf) in H. destruct H as [f [t [Hf [Ho [_ [_ ->]]]]]].
  pose proof (pawn_on_lt s f Hwf Hf) as Hf64. pose proof (offset_lt _ _ _ _ Hf64 Ho) as Ht64.
  apply (offset_delta f t _ _ Hf64 Ht64) in Ho. destruct Ho as [Hx Hy].
  exact (sig_build _ f t None None _ _ Hf64 Ht64 Hx Hy).
Qed.

Lemma sig_promos : forall s, WfState s -> all_sig (l_promos s) (0%Z, fwd (st_turn s), true, false).
Proof.
  intros s Hwf m H. apply (in_promos s m Hwf) in H. destruct H as [f [t [k [Hf [Ho [_ [_ [Hk ->]]]]]]]].
  pose proof (pawn_on_lt s f Hwf Hf) as Hf64. pose proof (offset_lt _ _ _ _ Hf64 Ho) as Ht64.
  apply (offset_delta f t _ _ Hf64 Ht64) in Ho. destruct Ho as [Hx Hy].
  rewrite (sig_build _ f t None (Some k) _ _ Hf64 Ht64 Hx Hy), (promo_kind_flag k Hk). reflexivity.
Qed.

Lemma sig_doubles : forall s, WfState s ->
  all_sig (l_doubles s) (0%Z, (2 * fwd (st_turn s))%Z, false, false).
Proof.
  intros s Hwf m H. apply (in_doubles s m Hwf) in H.
  destruct H as [f [mid [t [Hf [_ [Ho1 [_ [Ho2 [_ ->]]]]]]]]].
  pose proof (pawn_on_lt s f Hwf Hf) as Hf64. pose proof (offset_lt _ _ _ _ Hf64 Ho1) as Hm64.
  pose proof (offset_lt _ _ _ _ Hm64 Ho2) as Ht64.
  apply (offset_delta f mid _ _ Hf64 Hm64) in Ho1. apply (offset_delta mid t _ _ Hm64 Ht64) in Ho2.
  apply (sig_build _ f t None None _ _ Hf64 Ht64); lia.
Qed.

Lemma sig_cap_np : forall s fo, WfState s ->
  all_sig (l_cap_np s fo (- fo)) (fo, fwd (st_turn s), false, false).
Proof.
  intros s fo Hwf m H. apply (in_cap_np s fo m Hwf) in H. destruct H as [f [t [Hf [Ho [_ [_ ->]]]]]].
  pose proof (pawn_on_lt s f Hwf Hf) as Hf64. pose proof (offset_lt _ _ _ _ Hf64 Ho) as Ht64.
  apply (offset_delta f t _ _ Hf64 Ht64) in Ho. destruct Ho as [Hx Hy].
  exact (sig_build _ f t _ None _ _ Hf64 Ht64 Hx Hy).
Qed.

Lemma sig_cap_p : forall s fo, WfState s ->
  all_sig (l_cap_p s fo (- fo)) (fo, fwd (st_turn s), true, false).
Proof.
  intros s fo Hwf m H. apply (in_cap_p s fo m Hwf) in H.
  destruct H as [f [t [k [Hf [Ho [_ [_ [Hk ->]]]]]]]].
  pose proof (pawn_on_lt s f Hwf Hf) as Hf64. pose proof (offset_lt _ _ _ _ Hf64 Ho) as Ht64.
  apply (offset_delta f t _ _ Hf64 Ht64) in Ho. destruct Ho as [Hx Hy].
  rewrite (sig_build _ f t _ (Some k) _ _ Hf64 Ht64 Hx Hy), (promo_kind_flag k Hk). reflexivity.
Qed.

Lemma sig_l_ep : forall s fo, WfState s ->
  all_sig (l_ep s fo (- fo)) (fo, fwd (st_turn s), false, true).
Proof.
  intros s fo Hwf m H. apply (in_ep s fo m Hwf) in H. destruct H as [f [t [Hf [Ho [_ ->]]]]].
  pose proof (pawn_on_lt s f Hwf Hf) as Hf64. pose proof (offset_lt _ _ _ _ Hf64 Ho) as Ht64.
  apply (offset_delta f t _ _ Hf64 Ht64) in Ho. destruct Ho as [Hx Hy].
  exact (sig_ep _ f t _ _ Hf64 Ht64 Hx Hy).
Qed.

(* each branch is duplicate-free: the destination (and the promotion field) is a key *)
Lemma NoDup_map_dest : forall (g : N -> N) x, x < 2 ^ 64 ->
  (forall t, t < 64 -> m_dest (g t) = t) -> NoDup (map g (iter_ones x)).
Proof.
  intros g x Hx Hg. apply (NoDup_map_key _ _ g m_dest); [apply iter_ones_NoDup|].
  intros t Ht. apply iter_ones_spec in Ht. apply Hg. exact (test_lt64 _ _ Hx Ht).
Qed.

Lemma promotion_types_NoDup : NoDup promotion_types.
Proof.
  unfold promotion_types.
  repeat (constructor; [cbn [In]; intros H; repeat (destruct H as [H | H]; [discriminate H|]); exact H|]).
  constructor.
Qed.

Lemma NoDup_promo_list : forall c o t cap,
  NoDup (map (fun pr => build c Pawn o t cap (Some (promo_piece pr))) promotion_types).
Proof.
  intros c o t cap.
  apply (NoDup_map_key _ _ _ (fun m => load m promotion_offset promotion_mask)); [apply promotion_types_NoDup|].
  intros pr Hpr. rewrite build_promotion_raw. unfold promotion_types in Hpr. cbn [In] in Hpr.
  destruct Hpr as [<- | [<- | [<- | [<- | []]]]]; reflexivity.
Qed.

Lemma NoDup_flat_dest : forall c (o : N -> N) (cap : N -> option piece) x, x < 2 ^ 64 ->
  NoDup (flat_map (fun t => map (fun pr => build c Pawn (o t) t (cap t) (Some (promo_piece pr))) promotion_types)
                  (iter_ones x)).
Proof.
  intros c o cap x Hx. apply (NoDup_flat_map_key _ _ _ m_dest); [apply iter_ones_NoDup | |].
  - intros t _. apply NoDup_promo_list.
  - intros t y Ht Hy. apply iter_ones_spec in Ht. apply in_map_iff in Hy. destruct Hy as [pr [<- _]].
    apply build_dest. exact (test_lt64 _ _ Hx Ht).
Qed.

Lemma NoDup_flat_dest' : forall (G : N -> N -> N) c (o : N -> N) (cap : N -> option piece) x, x < 2 ^ 64 ->
  (forall t pr, G t pr = build c Pawn (o t) t (cap t) (Some (promo_piece pr))) ->
  NoDup (flat_map (fun t => map (G t) promotion_types) (iter_ones x)).
Proof.
  intros G c o cap x Hx HG.
  rewrite (flat_map_ext _ (fun t => map (fun pr => build c Pawn (o t) t (cap t) (Some (promo_piece pr))) promotion_types)).
  - apply NoDup_flat_dest. exact Hx.
  - intros t. apply map_ext. intros pr. apply HG.
Qed.

Lemma pawn_moves_concat : forall s,
  pawn_moves s = concat [l_pushes s; l_promos s; l_doubles s;
                         l_cap_np s 1 (- (1)); l_cap_p s 1 (- (1)); l_ep s 1 (- (1));
                         l_cap_np s (-1) (- (-1)); l_cap_p s (-1) (- (-1)); l_ep s (-1) (- (-1))].
Proof.
  intros s. rewrite pawn_moves_eq. unfold l_caps. cbn [concat]. rewrite <- !app_assoc, app_nil_r. reflexivity.
Qed.

Theorem pawn_moves_NoDup : forall s, WfState s -> pawns_ok s -> ep_ok s -> NoDup (pawn_moves s).
Proof.
  intros s Hwf _ _. rewrite pawn_moves_concat.
  pose proof (pw_lt s Hwf) as Hp.
  assert (Hstep : step s (pw s) < 2 ^ 64) by (apply step_lt; exact Hp).
  apply (NoDup_by_sig _
    [ (0%Z, fwd (st_turn s), false, false); (0%Z, fwd (st_turn s), true, false);
      (0%Z, (2 * fwd (st_turn s))%Z, false, false);
      (1%Z, fwd (st_turn s), false, false); (1%Z, fwd (st_turn s), true, false);
      (1%Z, fwd (st_turn s), false, true);
      ((-1)%Z, fwd (st_turn s), false, false); ((-1)%Z, fwd (st_turn s), true, false);
      ((-1)%Z, fwd (st_turn s), false, true) ]).
  - repeat constructor.
    + apply sig_pushes, Hwf.
    + apply sig_promos, Hwf.
    + apply sig_doubles, Hwf.
    + apply (sig_cap_np s 1 Hwf).
    + apply (sig_cap_p s 1 Hwf).
    + apply (sig_l_ep s 1 Hwf).
    + apply (sig_cap_np s (-1) Hwf).
    + apply (sig_cap_p s (-1) Hwf).
    + apply (sig_l_ep s (-1) Hwf).
  - destruct (st_turn s); cbn [fwd]; change (2 * 1)%Z with 2%Z; change (2 * -1)%Z with (-2)%Z;
      repeat (constructor; [cbn [In]; intros H; repeat (destruct H as [H | H]; [discriminate H|]); exact H|]);
      constructor.
  - repeat constructor.
    + unfold l_pushes. cbv zeta. apply NoDup_map_dest; [apply land_lt; exact Hstep|].
      intros t Ht. rewrite <- build_by_moving. apply build_dest, Ht.
    + unfold l_promos. cbv zeta.
      apply (NoDup_flat_dest' (fun t pr => by_promoting (st_turn s) Pawn (orig1 (st_turn s) t) t (promo_piece pr))
               (st_turn s) (orig1 (st_turn s)) (fun _ => None)); [apply land_lt; exact Hstep|].
      intros t pr. symmetry. apply build_by_promoting.
    + unfold l_doubles. cbv zeta. apply NoDup_map_dest.
      * apply step_lt, step_lt, land_lt, Hp.
      * intros t Ht. rewrite <- build_by_moving. apply build_dest, Ht.
    + unfold l_cap_np. cbv zeta. apply NoDup_map_dest; [apply land_lt, land_lt, att_lt, Hwf|].
      intros t Ht. rewrite <- build_by_capturing. apply build_dest, Ht.
    + unfold l_cap_p. cbv zeta.
      apply (NoDup_flat_dest' (fun t pr => by_capture_promoting (st_turn s) Pawn (origc (st_turn s) (- (1)) t) t
                                             (cap_kind (st_board s) t) (promo_piece pr))
               (st_turn s) (origc (st_turn s) (- (1))) (fun t => Some (cap_kind (st_board s) t)));
        [apply land_lt, land_lt, att_lt, Hwf|].
      intros t pr. symmetry. apply build_by_capture_promoting.
    + unfold l_ep. destruct (first_one _); [constructor; [intros []|constructor] | constructor].
    + unfold l_cap_np. cbv zeta. apply NoDup_map_dest; [apply land_lt, land_lt, att_lt, Hwf|].
      intros t Ht. rewrite <- build_by_capturing. apply build_dest, Ht.
    + unfold l_cap_p. cbv zeta.
      apply (NoDup_flat_dest' (fun t pr => by_capture_promoting (st_turn s) Pawn (origc (st_turn s) (- (-1)) t) t
                                             (cap_kind (st_board s) t) (promo_piece pr))
               (st_turn s) (origc (st_turn s) (- (-1))) (fun t => Some (cap_kind (st_board s) t)));
        [apply land_lt, land_lt, att_lt, Hwf|].
      intros t pr. symmetry. apply build_by_capture_promoting.
    + unfold l_ep. destruct (first_one _); [constructor; [intros []|constructor] | constructor].
Qed.

(* ------------------------------------------------------------------------- *)
(* the three results for "every legal chess position"                         *)

Lemma legal_pos_wf : forall s, LegalPos s -> WfState s.
Proof. intros s H. unfold LegalPos, legal_posb in H. apply andb_true_iff in H. apply H. Qed.

Theorem pawn_moves_spec_legal : forall s m, LegalPos s ->
  (In m (pawn_moves s) <->
   exists mv, kind_on (st_board s) (mv_from mv) = Some Pawn /\ mv_from mv < 64 /\ mv_to mv < 64 /\
              Rules.pseudo_legal (abs s) mv = true /\ m = enc_move s mv).
Proof.
  intros s m H. destruct (legal_pos_pawns_ep s H) as [Hp He].
  exact (pawn_moves_spec s m (legal_pos_wf s H) Hp He).
Qed.

Theorem pawn_moves_NoDup_legal : forall s, LegalPos s -> NoDup (pawn_moves s).
Proof.
  intros s H. destruct (legal_pos_pawns_ep s H) as [Hp He].
  exact (pawn_moves_NoDup s (legal_pos_wf s H) Hp He).
Qed.

Theorem pawn_moves_bounds_legal : forall s m, LegalPos s -> In m (pawn_moves s) ->
  m_origin m < 64 /\ m_dest m < 64.
Proof.
  intros s m H. destruct (legal_pos_pawns_ep s H) as [Hp He].
  exact (pawn_moves_bounds s m (legal_pos_wf s H) Hp He).
Qed.

Print Assumptions pawn_moves_spec_legal.
Print Assumptions pawn_moves_NoDup_legal.
Print Assumptions pawn_moves_bounds_legal.

(* ------------------------------------------------------------------------- *)
(* non-vacuity: White Ke1 Pa7 Pe2 Pd5 Ph4, Black Ke8 Nb8 Pc6 Pe5 Ph5, White to move, e.p. target e6.
   The generator gives 13 moves: e3, d6, a8=Q/R/B/N, e4 (double), axb8=Q/R/B/N, dxe6 e.p., dxc6; h4 is
   blocked.  They are exactly the encodings of the rules' pseudo-legal pawn moves (all 64*64*5 candidates
   are enumerated on the rules side). *)
Definition ex_state : state :=
  mkState (mkBoard (2^48 + 2^12 + 2^35 + 2^31) 0 0 0 0 (2^4) (2^36 + 2^42 + 2^39) (2^57) 0 0 0 (2^60))
          White false false false false (Some 44) 0 1.
Definition ex_spec_list (s : state) : list N :=
  flat_map (fun f => flat_map (fun t => flat_map (fun pr =>
     let mv := mkMove f t pr in
     if (match kind_on (st_board s) f with Some Pawn => true | _ => false end) && Rules.pseudo_legal (abs s) mv
     then [enc_move s mv] else []) promo_options) all_squares) all_squares.

Example pawn_moves_example :
  legal_posb ex_state = true /\
  map (fun m => (m_origin m, m_dest m, m_promotion m, m_is_ep m, m_capture m)) (pawn_moves ex_state) =
    [(12, 20, None, false, None); (35, 43, None, false, None);
     (48, 56, Some Queen, false, None); (48, 56, Some Rook, false, None);
     (48, 56, Some Bishop, false, None); (48, 56, Some Knight, false, None);
     (12, 28, None, false, None);
     (48, 57, Some Queen, false, Some Knight); (48, 57, Some Rook, false, Some Knight);
     (48, 57, Some Bishop, false, Some Knight); (48, 57, Some Knight, false, Some Knight);
     (35, 44, None, true, Some Pawn); (35, 42, None, false, Some Pawn)] /\
  length (ex_spec_list ex_state) = 13%nat /\
  forallb (fun m => existsb (N.eqb m) (ex_spec_list ex_state)) (pawn_moves ex_state) = true /\
  forallb (fun m => existsb (N.eqb m) (pawn_moves ex_state)) (ex_spec_list ex_state) = true.
Proof. vm_compute. repeat split; reflexivity. Qed.

(* the mirrored position with Black to move (Black Ke8 Pa2 Pe7 Pd4, White Ke1 Nb1 Pc3 Pe4, e.p. target e3) *)
Definition ex_state_black : state :=
  mkState (mkBoard (2^28 + 2^18) (2^1) 0 0 0 (2^4) (2^8 + 2^52 + 2^27) 0 0 0 0 (2^60))
          Black false false false false (Some 20) 0 1.

Example pawn_moves_example_black :
  legal_posb ex_state_black = true /\
  map (fun m => (m_origin m, m_dest m, m_promotion m, m_is_ep m, m_capture m)) (pawn_moves ex_state_black) =
    [(27, 19, None, false, None); (52, 44, None, false, None);
     (8, 0, Some Queen, false, None); (8, 0, Some Rook, false, None);
     (8, 0, Some Bishop, false, None); (8, 0, Some Knight, false, None);
     (52, 36, None, false, None);
     (8, 1, Some Queen, false, Some Knight); (8, 1, Some Rook, false, Some Knight);
     (8, 1, Some Bishop, false, Some Knight); (8, 1, Some Knight, false, Some Knight);
     (27, 20, None, true, Some Pawn); (27, 18, None, false, Some Pawn)] /\
  (forallb (fun m => existsb (N.eqb m) (ex_spec_list ex_state_black)) (pawn_moves ex_state_black) &&
   forallb (fun m => existsb (N.eqb m) (pawn_moves ex_state_black)) (ex_spec_list ex_state_black)) = true.
Proof. vm_compute. repeat split; reflexivity. Qed.
