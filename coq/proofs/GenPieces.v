(* R2: pseudo-legal generation of knights, bishops, rooks, queens and the king (plain steps and
   castling) refines Rules.pseudo_legal / Encode.gen_pseudo through abs and enc_move.

   Main statements: expand_moves_spec, knight_moves_spec, bishop_/rook_/queen_moves_spec,
   king_moves_spec (needs rights_ok), plus *_NoDup and *_bounds for every generator.

   NOTE on the statements: every right-hand side carries `mv_to mv < 64` in addition to
   `mv_from mv < 64`.  Without it the equivalences are false: Rules.pseudo_legal never bounds the
   destination (srank 64 = 8), e.g. with a white knight on b7 (49) the rules accept
   mkMove 49 64 None, whose enc_move is the packed b7-a1 (destination masked to 6 bits), which the
   generator does not produce. *)
From WV Require Import Types Bits Attacks Board MoveEnc MoveGen Rules Abs Wf Encode.
From WV Require Import BitsProofs AttacksProofs MoveEncProofs BoardProofs C20.
From Coq Require Import Lia ZifyBool ZifyN ZifyNat.
Ltac Zify.zify_post_hook ::= Z.div_mod_to_equations.
Open Scope N_scope.
Arguments N.add : simpl never.
Arguments N.sub : simpl never.
Arguments N.mul : simpl never.
Arguments N.land : simpl never.
Arguments N.lor : simpl never.
Arguments N.shiftl : simpl never.
Arguments N.shiftr : simpl never.

(* ---------- lists ---------- *)

Lemma NoDup_app_disj : forall (A : Type) (l1 l2 : list A),
  NoDup l1 -> NoDup l2 -> (forall x, In x l1 -> In x l2 -> False) -> NoDup (l1 ++ l2).
Proof.
  intros A l1 l2 H1 H2 Hd. induction H1 as [|x l Hx Hl IH]; cbn [app]; [exact H2|].
  constructor.
  - rewrite in_app_iff. intros [Hi | Hi]; [exact (Hx Hi)|]. exact (Hd x (or_introl eq_refl) Hi).
  - apply IH. intros y Hy1 Hy2. exact (Hd y (or_intror Hy1) Hy2).
Qed.

Lemma NoDup_flat_map_disj : forall (A B : Type) (f : A -> list B) (l : list A),
  NoDup l -> (forall x, In x l -> NoDup (f x)) ->
  (forall x y z, In x l -> In y l -> In z (f x) -> In z (f y) -> x = y) ->
  NoDup (flat_map f l).
Proof.
  intros A B f l Hl. induction Hl as [|a l Ha Hl IH]; intros Hf Hd; cbn [flat_map]; [constructor|].
  apply NoDup_app_disj.
  - apply Hf. left. reflexivity.
  - apply IH.
    + intros x Hx. apply Hf. right. exact Hx.
    + intros x y z Hx Hy. apply Hd; right; assumption.
  - intros z Hz1 Hz2. apply in_flat_map in Hz2. destruct Hz2 as [y [Hy Hz2]].
    assert (E : a = y) by (apply (Hd a y z); [left; reflexivity | right; exact Hy | exact Hz1 | exact Hz2]).
    subst y. exact (Ha Hy).
Qed.

Lemma NoDup_map_inj_on : forall (A B : Type) (f : A -> B) (l : list A),
  (forall x y, In x l -> In y l -> f x = f y -> x = y) -> NoDup l -> NoDup (map f l).
Proof.
  intros A B f l Hinj Hl. induction Hl as [|a l Ha Hl IH]; cbn [map]; constructor.
  - rewrite in_map_iff. intros [y [Hy Hin]].
    assert (E : y = a) by (apply Hinj; [right; exact Hin | left; reflexivity | exact Hy]).
    subst y. exact (Ha Hin).
  - apply IH. intros x y Hx Hy. apply Hinj; right; assumption.
Qed.

Lemma ones_pos_NoDup : forall p i, NoDup (ones_pos p i).
Proof.
  induction p as [q IH | q IH |]; intros i; cbn [ones_pos].
  - constructor; [|apply IH]. rewrite ones_pos_spec. intros [j [Hj _]]. lia.
  - apply IH.
  - constructor; [intros []|constructor].
Qed.

Lemma iter_ones_NoDup : forall b, NoDup (iter_ones b).
Proof. intros [|p]; cbn [iter_ones]; [constructor | apply ones_pos_NoDup]. Qed.

(* ---------- expand_moves ---------- *)

Definition step_enc (s : state) (p : piece) (o t : N) : N :=
  set_capture (by_moving (st_turn s) p o t) (kind_on (st_board s) t).

Lemma set_capture_None : forall m, set_capture m None = m.
Proof. intros m. unfold set_capture. cbn [opt_piece_to_N]. apply store_zero. Qed.

Lemma set_promotion_None : forall m, set_promotion m None = m.
Proof. intros m. unfold set_promotion. cbn [opt_piece_to_N]. apply store_zero. Qed.

Lemma expand_fn_eq : forall s o p t,
  match piece_at (st_board s) t with
  | Some (_, cap) => by_capturing (st_turn s) p o t cap
  | None => by_moving (st_turn s) p o t
  end = step_enc s p o t.
Proof.
  intros s o p t. unfold step_enc, kind_on. destruct (piece_at (st_board s) t) as [[c' k]|].
  - reflexivity.
  - symmetry. apply set_capture_None.
Qed.

Lemma expand_moves_map : forall s o dests p,
  expand_moves s o dests p = map (step_enc s p o) (iter_ones dests).
Proof.
  intros s o dests p. unfold expand_moves. apply map_ext. intros t. apply expand_fn_eq.
Qed.

Lemma expand_moves_spec : forall s origin dests p m, WfBoard (st_board s) -> dests < 2 ^ 64 ->
  (In m (expand_moves s origin dests p) <->
   exists t, t < 64 /\ test dests t = true /\
     m = set_capture (by_moving (st_turn s) p origin t) (kind_on (st_board s) t)).
Proof.
  intros s o dests p m _ Hd. rewrite expand_moves_map, in_map_iff. fold (step_enc s p o). split.
  - intros [t [Hm Hin]]. apply iter_ones_spec in Hin. exists t.
    split; [exact (test_lt64 _ _ Hd Hin)|]. split; [exact Hin | symmetry; exact Hm].
  - intros [t [_ [Ht Hm]]]. exists t. split; [symmetry; exact Hm | apply iter_ones_spec; exact Ht].
Qed.

Lemma step_enc_build : forall s p o t, step_enc s p o t = build (st_turn s) p o t (kind_on (st_board s) t) None.
Proof. intros. unfold build. rewrite set_promotion_None. reflexivity. Qed.

Lemma kind_on_not_PNone : forall b t, kind_on b t <> Some PNone.
Proof.
  intros b t. unfold kind_on. destruct (piece_at b t) as [[c k]|] eqn:E; [|discriminate].
  apply piece_at_some_imp in E. destruct E as [Hk _]. intros H. injection H as H. exact (Hk H).
Qed.

Lemma step_enc_inj : forall s p o t o' t', p <> PNone -> o < 64 -> t < 64 -> o' < 64 -> t' < 64 ->
  step_enc s p o t = step_enc s p o' t' -> o = o' /\ t = t'.
Proof.
  intros s p o t o' t' Hp Ho Ht Ho' Ht' H. rewrite !step_enc_build in H.
  apply C20_injective in H; try assumption; try apply kind_on_not_PNone; try discriminate.
  destruct H as [_ [_ [H1 [H2 _]]]]. split; assumption.
Qed.

Lemma step_enc_fields : forall s p o t, p <> PNone -> o < 64 -> t < 64 ->
  m_piece (step_enc s p o t) = p /\ m_color (step_enc s p o t) = st_turn s /\
  m_origin (step_enc s p o t) = o /\ m_dest (step_enc s p o t) = t /\
  m_capture (step_enc s p o t) = kind_on (st_board s) t /\ m_promotion (step_enc s p o t) = None /\
  m_is_ep (step_enc s p o t) = false /\ m_castle_side (step_enc s p o t) = None.
Proof.
  intros s p o t Hp Ho Ht. rewrite step_enc_build.
  pose proof (C20_roundtrip (st_turn s) p o t (kind_on (st_board s) t) None Hp Ho Ht
                (kind_on_not_PNone _ _) ltac:(discriminate)) as H.
  cbv zeta in H. decompose [and] H. repeat split; assumption.
Qed.

Lemma step_enc_not_castle : forall s p o t c k, p <> PNone -> o < 64 -> t < 64 ->
  step_enc s p o t <> by_castling c k.
Proof.
  intros s p o t c k Hp Ho Ht. rewrite step_enc_build.
  pose proof (C20_distinct_kinds (st_turn s) p o t (kind_on (st_board s) t) None White 0 0 Hp Ho Ht
                (kind_on_not_PNone _ _) ltac:(discriminate) ltac:(lia) ltac:(lia)) as [_ H].
  apply H.
Qed.

Lemma expand_moves_NoDup : forall s o dests p, p <> PNone -> o < 64 -> dests < 2 ^ 64 ->
  NoDup (expand_moves s o dests p).
Proof.
  intros s o dests p Hp Ho Hd. rewrite expand_moves_map. apply NoDup_map_inj_on; [|apply iter_ones_NoDup].
  intros x y Hx Hy H. apply iter_ones_spec in Hx, Hy.
  apply (step_enc_inj s p o x o y Hp Ho (test_lt64 _ _ Hd Hx) Ho (test_lt64 _ _ Hd Hy)) in H. apply H.
Qed.

(* ---------- one kind: all origins ---------- *)

Lemma WfState_board : forall s, WfState s -> WfBoard (st_board s).
Proof.
  intros s H. unfold WfState, wf_stateb in H. rewrite !andb_true_iff in H. apply H.
Qed.

Definition gen_kind (s : state) (k : piece) (dests : N -> N) : list N :=
  flat_map (fun o => expand_moves s o (dests o) k) (iter_ones (pocc (st_board s) (st_turn s) k)).

Lemma gen_kind_spec : forall s k dests m, WfBoard (st_board s) -> k <> PNone ->
  (forall o, o < 64 -> dests o < 2 ^ 64) ->
  (In m (gen_kind s k dests) <->
   exists o t, o < 64 /\ t < 64 /\ piece_at (st_board s) o = Some (st_turn s, k) /\
               test (dests o) t = true /\ m = step_enc s k o t).
Proof.
  intros s k dests m Hwf Hk Hd. unfold gen_kind. rewrite in_flat_map. split.
  - intros [o [Hin Hm]]. apply iter_ones_spec in Hin.
    assert (Ho : o < 64) by (exact (test_lt64 _ _ (wf_slots _ Hwf _ _) Hin)).
    apply (expand_moves_spec s o (dests o) k m Hwf (Hd o Ho)) in Hm.
    destruct Hm as [t [Ht [Htest Hm]]]. exists o, t.
    split; [exact Ho|]. split; [exact Ht|]. split.
    + apply piece_at_spec; [exact Hwf|]. split; assumption.
    + split; assumption.
  - intros [o [t [Ho [Ht [Hp [Htest Hm]]]]]]. exists o. split.
    + apply iter_ones_spec. apply (piece_at_spec _ _ _ _ Hwf) in Hp. apply Hp.
    + apply (expand_moves_spec s o (dests o) k m Hwf (Hd o Ho)). exists t. auto.
Qed.

Lemma gen_kind_NoDup : forall s k dests, WfBoard (st_board s) -> k <> PNone ->
  (forall o, o < 64 -> dests o < 2 ^ 64) -> NoDup (gen_kind s k dests).
Proof.
  intros s k dests Hwf Hk Hd. unfold gen_kind.
  assert (Hlt : forall o, In o (iter_ones (pocc (st_board s) (st_turn s) k)) -> o < 64).
  { intros o Hin. apply iter_ones_spec in Hin. exact (test_lt64 _ _ (wf_slots _ Hwf _ _) Hin). }
  apply NoDup_flat_map_disj.
  - apply iter_ones_NoDup.
  - intros o Hin. apply expand_moves_NoDup; [exact Hk | exact (Hlt o Hin) | exact (Hd o (Hlt o Hin))].
  - intros x y z Hx Hy Hz1 Hz2. apply Hlt in Hx, Hy.
    apply (expand_moves_spec s x (dests x) k z Hwf (Hd x Hx)) in Hz1.
    apply (expand_moves_spec s y (dests y) k z Hwf (Hd y Hy)) in Hz2.
    destruct Hz1 as [t [Ht [_ E1]]]. destruct Hz2 as [t' [Ht' [_ E2]]].
    fold (step_enc s k x t) in E1. fold (step_enc s k y t') in E2. rewrite E1 in E2.
    apply step_enc_inj in E2; try assumption. apply E2.
Qed.

Lemma gen_kind_bounds : forall s k dests m, WfBoard (st_board s) -> k <> PNone ->
  (forall o, o < 64 -> dests o < 2 ^ 64) -> In m (gen_kind s k dests) ->
  m_origin m < 64 /\ m_dest m < 64.
Proof.
  intros s k dests m Hwf Hk Hd Hin. apply (gen_kind_spec s k dests m Hwf Hk Hd) in Hin.
  destruct Hin as [o [t [Ho [Ht [_ [_ Hm]]]]]]. subst m.
  destruct (step_enc_fields s k o t Hk Ho Ht) as [_ [_ [H1 [H2 _]]]]. rewrite H1, H2. split; assumption.
Qed.

(* ---------- destination masks ---------- *)

Lemma lnot64_lt : forall x, x < 2 ^ 64 -> lnot64 x < 2 ^ 64.
Proof.
  intros x Hx. apply lt_pow2_of_bits. intros k Hk. rewrite lnot64_spec.
  rewrite (testbit_high _ 64 k Hx Hk). destruct (N.ltb_spec k 64); [lia | reflexivity].
Qed.

Lemma land_lt_r : forall a b, b < 2 ^ 64 -> N.land a b < 2 ^ 64.
Proof. intros a b Hb. rewrite N.land_comm. apply land_lt. exact Hb. Qed.

(* "opponent or vacant" = "not own" on a well-formed board *)
Lemma opp_or_vacant_test : forall b c t, WfBoard b -> t < 64 ->
  (N.testbit (N.lor (colored_occ b (opp c)) (vacancy b)) t = true <->
   colour_at (pos_of_board b) t c = false).
Proof.
  intros b c t Hwf Ht. rewrite (colour_at_occ b t c Hwf). unfold vacancy.
  rewrite N.lor_spec, lnot64_spec. destruct (N.ltb_spec t 64) as [_|Hc]; [|lia].
  assert (Hocc : N.testbit (occupancy b) t =
                 test (colored_occ b c) t || test (colored_occ b (opp c)) t).
  { unfold occupancy, test. rewrite N.lor_spec. destruct c; cbn [opp]; [reflexivity | apply orb_comm]. }
  rewrite Hocc. fold (test (colored_occ b (opp c)) t).
  destruct (test (colored_occ b c) t) eqn:E1; destruct (test (colored_occ b (opp c)) t) eqn:E2;
    cbn [orb xorb]; split; intros H; try reflexivity; try discriminate H.
  exfalso. apply colored_occ_test in E1, E2. destruct E1 as [k1 E1]. destruct E2 as [k2 E2].
  pose proof (wf_disjoint b Hwf _ _ _ _ t E1 E2) as Hq. destruct c; discriminate Hq.
Qed.

(* ---------- the rules side ---------- *)

Definition simple_kind (k : piece) : bool :=
  match k with Knight | Bishop | Rook | Queen => true | _ => false end.

Lemma attacks_from_irrefl : forall p c k f, attacks_from p c k f f = false.
Proof.
  intros p c k f. cbv beta iota zeta delta [attacks_from]. rewrite !Z.sub_diag.
  destruct k; try reflexivity; destruct c; reflexivity.
Qed.

Lemma kind_on_piece_at : forall b f k, kind_on b f = Some k <-> exists c, piece_at b f = Some (c, k).
Proof.
  intros b f k. unfold kind_on. destruct (piece_at b f) as [[c' k']|]; split.
  - intros H. injection H as ->. exists c'. reflexivity.
  - intros [c H]. injection H as _ ->. reflexivity.
  - intros H. discriminate H.
  - intros [c H]. discriminate H.
Qed.

Lemma pseudo_simple : forall s mv c' k,
  piece_at (st_board s) (mv_from mv) = Some (c', k) -> simple_kind k = true ->
  Rules.pseudo_legal (abs s) mv =
    color_eqb (st_turn s) c' && negb (colour_at (abs s) (mv_to mv) (st_turn s))
    && negb (mv_from mv =? mv_to mv)
    && match mv_promo mv with Some _ => false
       | None => attacks_from (abs s) (st_turn s) k (mv_from mv) (mv_to mv) end.
Proof.
  intros s mv c' k Hp Hk. unfold Rules.pseudo_legal. cbv zeta. rewrite abs_p_at, Hp.
  destruct k; try discriminate Hk; reflexivity.
Qed.

Lemma enc_simple : forall s mv k, kind_on (st_board s) (mv_from mv) = Some k -> simple_kind k = true ->
  enc_move s mv = step_enc s k (mv_from mv) (mv_to mv).
Proof.
  intros s mv k Hk Hs. unfold enc_move. cbv zeta. rewrite Hk.
  destruct k; try discriminate Hs; reflexivity.
Qed.

Theorem simple_gen_spec : forall s k dests m, WfState s -> simple_kind k = true ->
  (forall o, o < 64 -> dests o < 2 ^ 64) ->
  (forall o t, o < 64 -> t < 64 ->
     (test (dests o) t = true <->
      attacks_from (pos_of_board (st_board s)) (st_turn s) k o t = true /\
      colour_at (pos_of_board (st_board s)) t (st_turn s) = false)) ->
  (In m (gen_kind s k dests) <->
   exists mv, kind_on (st_board s) (mv_from mv) = Some k /\ mv_from mv < 64 /\ mv_to mv < 64 /\
              Rules.pseudo_legal (abs s) mv = true /\ m = enc_move s mv).
Proof.
  intros s k dests m Hwfs Hk Hd Hdests. pose proof (WfState_board s Hwfs) as Hwf.
  assert (Hk0 : k <> PNone) by (intros ->; discriminate Hk).
  rewrite (gen_kind_spec s k dests m Hwf Hk0 Hd). split.
  - intros [o [t [Ho [Ht [Hp [Htest Hm]]]]]]. exists (mkMove o t None). cbn [mv_from mv_to].
    assert (Hko : kind_on (st_board s) o = Some k) by (apply kind_on_piece_at; eauto).
    split; [exact Hko|]. split; [exact Ho|]. split; [exact Ht|].
    apply (Hdests o t Ho Ht) in Htest. destruct Htest as [Hatt Hcol]. split.
    + rewrite (pseudo_simple s (mkMove o t None) (st_turn s) k Hp Hk). cbn [mv_from mv_to mv_promo].
      rewrite color_eqb_refl, abs_colour_at, Hcol, abs_attacks_from, Hatt.
      destruct (N.eqb_spec o t) as [E|_]; [|reflexivity].
      subst t. rewrite attacks_from_irrefl in Hatt. discriminate Hatt.
    + rewrite (enc_simple s (mkMove o t None) k Hko Hk). exact Hm.
  - intros [mv [Hko [Hf [Ht [Hpl Hm]]]]]. pose proof Hko as Hko'.
    apply kind_on_piece_at in Hko'. destruct Hko' as [c' Hp].
    rewrite (pseudo_simple s mv c' k Hp Hk) in Hpl. rewrite !andb_true_iff in Hpl.
    destruct Hpl as [[[Hc Hcol] _] Hatt]. apply color_eqb_eq in Hc. subst c'.
    destruct (mv_promo mv); [discriminate Hatt|].
    rewrite abs_attacks_from in Hatt. rewrite abs_colour_at, negb_true_iff in Hcol.
    exists (mv_from mv), (mv_to mv). split; [exact Hf|]. split; [exact Ht|]. split; [exact Hp|]. split.
    + apply (Hdests _ _ Hf Ht). split; assumption.
    + rewrite Hm. apply (enc_simple s mv k Hko Hk).
Qed.

(* ---------- knights ---------- *)

Definition knight_dests (s : state) (o : N) : N :=
  N.land (knight_attacks o) (N.lor (colored_occ (st_board s) (opp (st_turn s))) (vacancy (st_board s))).

Lemma knight_moves_gen : forall s, knight_moves s = gen_kind s Knight (knight_dests s).
Proof. reflexivity. Qed.

Lemma knight_dests_lt : forall s o, o < 64 -> knight_dests s o < 2 ^ 64.
Proof. intros s o Ho. apply land_lt. apply (leapers_lt o Ho). Qed.

Lemma knight_dests_test : forall s o t, WfBoard (st_board s) -> o < 64 -> t < 64 ->
  (test (knight_dests s o) t = true <->
   attacks_from (pos_of_board (st_board s)) (st_turn s) Knight o t = true /\
   colour_at (pos_of_board (st_board s)) t (st_turn s) = false).
Proof.
  intros s o t Hwf Ho Ht. unfold knight_dests, test. rewrite N.land_spec, andb_true_iff.
  rewrite (opp_or_vacant_test _ _ _ Hwf Ht).
  fold (test (knight_attacks o) t). rewrite (knight_spec (st_board s) (st_turn s) o t Ho Ht). reflexivity.
Qed.

Theorem knight_moves_spec : forall s m, WfState s ->
  (In m (knight_moves s) <->
   exists mv, kind_on (st_board s) (mv_from mv) = Some Knight /\ mv_from mv < 64 /\ mv_to mv < 64 /\
              Rules.pseudo_legal (abs s) mv = true /\ m = enc_move s mv).
Proof.
  intros s m Hwfs. rewrite knight_moves_gen.
  apply simple_gen_spec; [exact Hwfs | reflexivity | apply knight_dests_lt |].
  intros o t Ho Ht. apply knight_dests_test; [apply WfState_board; exact Hwfs | exact Ho | exact Ht].
Qed.

Theorem knight_moves_NoDup : forall s, WfState s -> NoDup (knight_moves s).
Proof.
  intros s Hwfs. rewrite knight_moves_gen.
  apply gen_kind_NoDup; [apply WfState_board; exact Hwfs | discriminate | apply knight_dests_lt].
Qed.

Theorem knight_moves_bounds : forall s m, WfState s -> In m (knight_moves s) ->
  m_origin m < 64 /\ m_dest m < 64.
Proof.
  intros s m Hwfs. rewrite knight_moves_gen.
  apply gen_kind_bounds; [apply WfState_board; exact Hwfs | discriminate | apply knight_dests_lt].
Qed.

(* ---------- sliders ---------- *)

Definition slider_dests (s : state) (att : N -> N -> N) (o : N) : N :=
  N.land (att o (occupancy (st_board s))) (lnot64 (colored_occ (st_board s) (st_turn s))).

Lemma slider_moves_gen : forall s p att, slider_moves s p att = gen_kind s p (slider_dests s att).
Proof. reflexivity. Qed.

Lemma slider_dests_lt : forall s att o, WfBoard (st_board s) -> slider_dests s att o < 2 ^ 64.
Proof. intros s att o Hwf. apply land_lt_r, lnot64_lt, colored_occ_lt. exact Hwf. Qed.

Lemma slider_dests_test : forall s att k o t, WfBoard (st_board s) -> t < 64 ->
  (test (att o (occupancy (st_board s))) t = true <->
   attacks_from (pos_of_board (st_board s)) (st_turn s) k o t = true) ->
  (test (slider_dests s att o) t = true <->
   attacks_from (pos_of_board (st_board s)) (st_turn s) k o t = true /\
   colour_at (pos_of_board (st_board s)) t (st_turn s) = false).
Proof.
  intros s att k o t Hwf Ht Hatt. unfold slider_dests. unfold test at 1.
  rewrite N.land_spec, andb_true_iff, (not_own_test _ _ _ Hwf Ht).
  fold (test (att o (occupancy (st_board s))) t). rewrite Hatt. reflexivity.
Qed.

Section Sliders.
  Variable k : piece.
  Variable att : N -> N -> N.
  Hypothesis Hk : simple_kind k = true.
  Hypothesis Hatt : forall b c o t, o < 64 -> t < 64 ->
    (test (att o (occupancy b)) t = true <-> attacks_from (pos_of_board b) c k o t = true).

  Lemma slider_spec_gen : forall s m, WfState s ->
    (In m (slider_moves s k att) <->
     exists mv, kind_on (st_board s) (mv_from mv) = Some k /\ mv_from mv < 64 /\ mv_to mv < 64 /\
                Rules.pseudo_legal (abs s) mv = true /\ m = enc_move s mv).
  Proof.
    intros s m Hwfs. pose proof (WfState_board s Hwfs) as Hwf. rewrite slider_moves_gen.
    apply simple_gen_spec; [exact Hwfs | exact Hk | intros o _; apply slider_dests_lt; exact Hwf |].
    intros o t Ho Ht. apply slider_dests_test; [exact Hwf | exact Ht | apply Hatt; assumption].
  Qed.

End Sliders.

Lemma slider_NoDup_gen : forall k att, simple_kind k = true -> forall s, WfState s -> NoDup (slider_moves s k att).
  Proof.
    intros k att Hk s Hwfs. pose proof (WfState_board s Hwfs) as Hwf. rewrite slider_moves_gen.
    apply gen_kind_NoDup; [exact Hwf | intros ->; discriminate Hk | intros o _; apply slider_dests_lt; exact Hwf].
  Qed.

Lemma slider_bounds_gen : forall k att, simple_kind k = true -> forall s m, WfState s -> In m (slider_moves s k att) ->
    m_origin m < 64 /\ m_dest m < 64.
  Proof.
    intros k att Hk s m Hwfs. pose proof (WfState_board s Hwfs) as Hwf. rewrite slider_moves_gen.
    apply gen_kind_bounds; [exact Hwf | intros ->; discriminate Hk | intros o _; apply slider_dests_lt; exact Hwf].
  Qed.

Theorem bishop_moves_spec : forall s m, WfState s ->
  (In m (slider_moves s Bishop bishop_attacks) <->
   exists mv, kind_on (st_board s) (mv_from mv) = Some Bishop /\ mv_from mv < 64 /\ mv_to mv < 64 /\
              Rules.pseudo_legal (abs s) mv = true /\ m = enc_move s mv).
Proof. exact (slider_spec_gen Bishop bishop_attacks eq_refl bishop_spec). Qed.

Theorem rook_moves_spec : forall s m, WfState s ->
  (In m (slider_moves s Rook rook_attacks) <->
   exists mv, kind_on (st_board s) (mv_from mv) = Some Rook /\ mv_from mv < 64 /\ mv_to mv < 64 /\
              Rules.pseudo_legal (abs s) mv = true /\ m = enc_move s mv).
Proof. exact (slider_spec_gen Rook rook_attacks eq_refl rook_spec). Qed.

Theorem queen_moves_spec : forall s m, WfState s ->
  (In m (slider_moves s Queen queen_attacks) <->
   exists mv, kind_on (st_board s) (mv_from mv) = Some Queen /\ mv_from mv < 64 /\ mv_to mv < 64 /\
              Rules.pseudo_legal (abs s) mv = true /\ m = enc_move s mv).
Proof. exact (slider_spec_gen Queen queen_attacks eq_refl queen_spec). Qed.

Theorem bishop_moves_NoDup : forall s, WfState s -> NoDup (slider_moves s Bishop bishop_attacks).
Proof. exact (slider_NoDup_gen Bishop bishop_attacks eq_refl). Qed.
Theorem rook_moves_NoDup : forall s, WfState s -> NoDup (slider_moves s Rook rook_attacks).
Proof. exact (slider_NoDup_gen Rook rook_attacks eq_refl). Qed.
Theorem queen_moves_NoDup : forall s, WfState s -> NoDup (slider_moves s Queen queen_attacks).
Proof. exact (slider_NoDup_gen Queen queen_attacks eq_refl). Qed.

Theorem bishop_moves_bounds : forall s m, WfState s -> In m (slider_moves s Bishop bishop_attacks) ->
  m_origin m < 64 /\ m_dest m < 64.
Proof. exact (slider_bounds_gen Bishop bishop_attacks eq_refl). Qed.
Theorem rook_moves_bounds : forall s m, WfState s -> In m (slider_moves s Rook rook_attacks) ->
  m_origin m < 64 /\ m_dest m < 64.
Proof. exact (slider_bounds_gen Rook rook_attacks eq_refl). Qed.
Theorem queen_moves_bounds : forall s m, WfState s -> In m (slider_moves s Queen queen_attacks) ->
  m_origin m < 64 /\ m_dest m < 64.
Proof. exact (slider_bounds_gen Queen queen_attacks eq_refl). Qed.

(* ---------- the king: plain steps ---------- *)

Definition rights_ok (s : state) : Prop :=
  forall c side, castle_right s c side = true ->
    has (abs s) (king_home c) c King = true /\ has (abs s) (rook_home c side) c Rook = true.

Definition king_dests (s : state) (o : N) : N :=
  N.land (N.land (king_attacks o)
                 (N.lor (colored_occ (st_board s) (opp (st_turn s))) (vacancy (st_board s))))
         (lnot64 (colored_attacks (st_board s) (opp (st_turn s)))).

Definition castle_moves (s : state) : list N :=
  flat_map (fun kingside =>
    if castle_right s (st_turn s) kingside then
      if none (N.land (occupancy (st_board s)) (castle_mask castle_path_masks kingside (st_turn s))) &&
         none (N.land (colored_attacks (st_board s) (opp (st_turn s)))
                      (castle_mask castle_check_masks kingside (st_turn s)))
      then [by_castling (st_turn s) kingside] else []
    else []) [true; false].

Lemma king_moves_split : forall s, king_moves s = gen_kind s King (king_dests s) ++ castle_moves s.
Proof. reflexivity. Qed.

Lemma king_dests_lt : forall s o, o < 64 -> king_dests s o < 2 ^ 64.
Proof. intros s o Ho. apply land_lt, land_lt. apply (leapers_lt o Ho). Qed.

(* the opponent's attack set, as a boolean of the rules *)
Lemma attack_set_bool : forall b c t, WfBoard b -> t < 64 ->
  test (colored_attacks b c) t = attacked (pos_of_board b) c t && negb (colour_at (pos_of_board b) t c).
Proof.
  intros b c t Hwf Ht. apply eq_iff_eq_true.
  rewrite (colored_attacks_spec b c t Hwf Ht), andb_true_iff, negb_true_iff, attacked_spec. reflexivity.
Qed.

Lemma king_dests_test : forall s o t, WfBoard (st_board s) -> o < 64 -> t < 64 ->
  (test (king_dests s o) t = true <->
   attacks_from (pos_of_board (st_board s)) (st_turn s) King o t = true /\
   colour_at (pos_of_board (st_board s)) t (st_turn s) = false /\
   test (colored_attacks (st_board s) (opp (st_turn s))) t = false).
Proof.
  intros s o t Hwf Ho Ht. unfold king_dests. unfold test at 1.
  rewrite !N.land_spec, !andb_true_iff, (opp_or_vacant_test _ _ _ Hwf Ht), lnot64_spec.
  fold (test (king_attacks o) t). rewrite (king_spec (st_board s) (st_turn s) o t Ho Ht).
  fold (test (colored_attacks (st_board s) (opp (st_turn s))) t).
  destruct (N.ltb_spec t 64) as [_|Hc]; [|lia].
  destruct (test (colored_attacks (st_board s) (opp (st_turn s))) t); cbn [xorb]; intuition discriminate.
Qed.

Lemma pseudo_king : forall s mv c',
  piece_at (st_board s) (mv_from mv) = Some (c', King) ->
  Rules.pseudo_legal (abs s) mv =
    color_eqb (st_turn s) c' && negb (colour_at (abs s) (mv_to mv) (st_turn s))
    && negb (mv_from mv =? mv_to mv)
    && match mv_promo mv with Some _ => false
       | None => attacks_from (abs s) (st_turn s) King (mv_from mv) (mv_to mv)
                 || match is_castle_move (abs s) mv with
                    | Some side => castle_ok (abs s) (st_turn s) side
                    | None => false end
       end.
Proof.
  intros s mv c' Hp. unfold Rules.pseudo_legal. cbv zeta. rewrite abs_p_at, Hp. reflexivity.
Qed.

Lemma king_step_geometry : forall p c f t, attacks_from p c King f t = true ->
  (file_of f + 2 =? file_of t) = false /\ (file_of t + 2 =? file_of f) = false.
Proof.
  intros p c f t H. cbv beta iota zeta delta [attacks_from] in H. unfold file_of, sfile, srank in *. lia.
Qed.

Lemma enc_king_step : forall s mv, kind_on (st_board s) (mv_from mv) = Some King ->
  attacks_from (abs s) (st_turn s) King (mv_from mv) (mv_to mv) = true ->
  enc_move s mv = step_enc s King (mv_from mv) (mv_to mv).
Proof.
  intros s mv Hk Hatt. unfold enc_move. cbv zeta. rewrite Hk.
  destruct (king_step_geometry _ _ _ _ Hatt) as [E1 E2]. rewrite E1, E2. reflexivity.
Qed.

(* ---------- the king: castling ---------- *)

Definition path_squares (c : color) (side : bool) : list N :=
  if side then [sq_of 5 (back_rank c); sq_of 6 (back_rank c)]
  else [sq_of 1 (back_rank c); sq_of 2 (back_rank c); sq_of 3 (back_rank c)].
Definition check_squares (c : color) (side : bool) : list N :=
  if side then [sq_of 4 (back_rank c); sq_of 5 (back_rank c); sq_of 6 (back_rank c)]
  else [sq_of 4 (back_rank c); sq_of 3 (back_rank c); sq_of 2 (back_rank c)].

(* the generated masks are exactly {f,g} / {b,c,d} and {e,f,g} / {c,d,e} of the back rank *)
Lemma castle_path_mask_bits : forall c side,
  castle_mask castle_path_masks side c = bb_of_list (path_squares c side).
Proof. intros [|] [|]; vm_compute; reflexivity. Qed.

Lemma castle_check_mask_bits : forall c side,
  castle_mask castle_check_masks side c = bb_of_list (check_squares c side).
Proof. intros [|] [|]; vm_compute; reflexivity. Qed.

(* the same fact, bit by bit over the 64 squares *)
Lemma castle_masks_squares : forall c side,
  forallb (fun t => Bool.eqb (test (castle_mask castle_path_masks side c) t)
                             (existsb (N.eqb t) (path_squares c side))) squares = true /\
  forallb (fun t => Bool.eqb (test (castle_mask castle_check_masks side c) t)
                             (existsb (N.eqb t) (check_squares c side))) squares = true /\
  castle_mask castle_path_masks side c < 2 ^ 64 /\ castle_mask castle_check_masks side c < 2 ^ 64.
Proof. intros [|] [|]; vm_compute; repeat split; reflexivity. Qed.

Lemma castle_consts : forall c,
  king_origin c = king_home c /\
  castle_dest c true = sq_of 6 (back_rank c) /\ castle_dest c false = sq_of 2 (back_rank c) /\
  king_home c < 64 /\ castle_dest c true < 64 /\ castle_dest c false < 64.
Proof. intros [|]; vm_compute; repeat split; reflexivity. Qed.

Lemma check_squares_lt : forall c side t, In t (check_squares c side) -> t < 64.
Proof.
  intros [|] [|] t H; cbn [check_squares In] in H;
    destruct H as [<- | [<- | [<- | []]]]; reflexivity.
Qed.

Lemma check_sub_path : forall c side t, In t (check_squares c side) ->
  t = king_home c \/ In t (path_squares c side).
Proof.
  intros c [|] t H; cbn [check_squares path_squares In] in *; unfold king_home; intuition.
Qed.

Lemma none_land_bb : forall x l,
  none (N.land x (bb_of_list l)) = true <-> forall t, In t l -> test x t = false.
Proof.
  intros x l. unfold none. rewrite N.eqb_eq. split.
  - intros H t Hin. apply bb_of_list_spec in Hin. unfold test in *.
    assert (E : N.testbit (N.land x (bb_of_list l)) t = false) by (rewrite H; apply N.bits_0).
    rewrite N.land_spec, Hin, andb_true_r in E. exact E.
  - intros H. apply N.bits_inj_0. intros t. rewrite N.land_spec.
    destruct (N.testbit (bb_of_list l) t) eqn:E; [|apply andb_false_r].
    apply bb_of_list_spec in E. rewrite andb_true_r. apply H. exact E.
Qed.

Lemma castle_ok_lists : forall p c side,
  castle_ok p c side =
  p_right p c side && has p (king_home c) c King && has p (rook_home c side) c Rook
  && forallb (empty_at p) (path_squares c side)
  && forallb (fun t => negb (attacked p (opp c) t)) (check_squares c side).
Proof.
  intros p c [|]; unfold castle_ok; cbv zeta; cbn [path_squares check_squares forallb];
    rewrite ?andb_true_r, ?andb_assoc; reflexivity.
Qed.

Lemma castle_moves_spec : forall s m,
  In m (castle_moves s) <->
  exists side, castle_right s (st_turn s) side = true /\
    none (N.land (occupancy (st_board s)) (castle_mask castle_path_masks side (st_turn s))) = true /\
    none (N.land (colored_attacks (st_board s) (opp (st_turn s)))
                 (castle_mask castle_check_masks side (st_turn s))) = true /\
    m = by_castling (st_turn s) side.
Proof.
  intros s m. unfold castle_moves. rewrite in_flat_map. split.
  - intros [side [_ H]]. exists side.
    destruct (castle_right s (st_turn s) side); [|destruct H].
    destruct (none (N.land (occupancy (st_board s)) (castle_mask castle_path_masks side (st_turn s))));
      [|destruct H].
    destruct (none (N.land (colored_attacks (st_board s) (opp (st_turn s)))
                           (castle_mask castle_check_masks side (st_turn s)))); [|destruct H].
    cbn [andb In] in H. destruct H as [H | []]. auto.
  - intros [side [H1 [H2 [H3 Hm]]]]. exists side. split; [destruct side; cbn [In]; auto|].
    rewrite H1, H2, H3. left. symmetry. exact Hm.
Qed.

(* the generator's three tests = Rules.castle_ok, given that a held right means king and rook at home *)
Lemma castle_ok_gen : forall s side, WfBoard (st_board s) -> rights_ok s ->
  (castle_ok (abs s) (st_turn s) side = true <->
   castle_right s (st_turn s) side = true /\
   none (N.land (occupancy (st_board s)) (castle_mask castle_path_masks side (st_turn s))) = true /\
   none (N.land (colored_attacks (st_board s) (opp (st_turn s)))
                (castle_mask castle_check_masks side (st_turn s))) = true).
Proof.
  intros s side Hwf Hr. set (c := st_turn s).
  rewrite castle_ok_lists, castle_path_mask_bits, castle_check_mask_bits, !none_land_bb.
  rewrite !andb_true_iff, !forallb_forall. cbn [abs p_right].
  rewrite abs_empty_at, abs_attacked, !abs_has. split.
  - intros [[[[Hright _] _] Hemp] Hatt]. split; [exact Hright|]. split.
    + intros t Hin. apply empty_at_occ. apply Hemp. exact Hin.
    + intros t Hin. rewrite (attack_set_bool _ _ _ Hwf (check_squares_lt _ _ _ Hin)).
      apply Hatt in Hin. apply negb_true_iff in Hin. rewrite Hin. reflexivity.
  - intros [Hright [Hemp Hatt]]. destruct (Hr c side Hright) as [Hking Hrook].
    rewrite abs_has in Hking, Hrook. split; [split; [split; [split|]|]|]; try assumption.
    + intros t Hin. apply empty_at_occ. apply Hemp. exact Hin.
    + intros t Hin. pose proof (Hatt t Hin) as Ha.
      rewrite (attack_set_bool _ _ _ Hwf (check_squares_lt _ _ _ Hin)) in Ha.
      assert (Hcol : colour_at (pos_of_board (st_board s)) t (opp c) = false).
      { destruct (check_sub_path _ _ _ Hin) as [-> | Hp].
        - apply has_iff in Hking. unfold colour_at. rewrite Hking. apply color_eqb_opp.
        - apply Hemp in Hp. apply empty_at_occ in Hp. unfold empty_at in Hp. unfold colour_at.
          destruct (p_at (pos_of_board (st_board s)) t) as [[c1 k1]|]; [discriminate Hp | reflexivity]. }
      rewrite Hcol, andb_true_r in Ha. rewrite Ha. reflexivity.
Qed.

(* geometry of the castling move *)
Lemma is_castle_move_inv : forall s mv side, mv_to mv < 64 ->
  is_castle_move (abs s) mv = Some side ->
  mv_from mv = king_home (st_turn s) /\ mv_to mv = castle_dest (st_turn s) side.
Proof.
  intros s mv side Ht. unfold is_castle_move. cbv zeta. cbn [abs p_turn].
  destruct (has (abs s) (mv_from mv) (st_turn s) King); [|discriminate].
  destruct (N.eqb_spec (mv_from mv) (king_home (st_turn s))) as [Ef|]; [|discriminate].
  cbn [andb].
  destruct (Z.eqb_spec (srank (mv_to mv)) (back_rank (st_turn s))) as [Er|]; [|discriminate].
  destruct (Z.eqb_spec (sfile (mv_to mv)) 6) as [E6|_].
  - intros H. injection H as <-. split; [exact Ef|].
    destruct (castle_consts (st_turn s)) as [_ [-> _]].
    unfold sq_of, sfile, srank in *. lia.
  - destruct (Z.eqb_spec (sfile (mv_to mv)) 2) as [E2|_]; [|discriminate].
    intros H. injection H as <-. split; [exact Ef|].
    destruct (castle_consts (st_turn s)) as [_ [_ [-> _]]].
    unfold sq_of, sfile, srank in *. lia.
Qed.

Lemma is_castle_move_home : forall s side,
  has (abs s) (king_home (st_turn s)) (st_turn s) King = true ->
  is_castle_move (abs s) (mkMove (king_home (st_turn s)) (castle_dest (st_turn s) side) None) = Some side.
Proof.
  intros s side Hk. unfold is_castle_move. cbv zeta. cbn [abs p_turn mv_from mv_to].
  change (p_turn (abs s)) with (st_turn s). rewrite Hk, N.eqb_refl.
  destruct (st_turn s), side; reflexivity.
Qed.

Lemma castle_not_step : forall p c side,
  attacks_from p c King (king_home c) (castle_dest c side) = false.
Proof. intros p [|] [|]; reflexivity. Qed.

Lemma castle_dest_in_path : forall c side, In (castle_dest c side) (path_squares c side).
Proof. intros [|] [|]; vm_compute; auto. Qed.

Lemma castle_dest_neq_home : forall c side, (king_home c =? castle_dest c side) = false.
Proof. intros [|] [|]; reflexivity. Qed.

Lemma enc_castle : forall s side pr,
  kind_on (st_board s) (king_home (st_turn s)) = Some King ->
  enc_move s (mkMove (king_home (st_turn s)) (castle_dest (st_turn s) side) pr) =
  by_castling (st_turn s) side.
Proof.
  intros s side pr Hk. unfold enc_move. cbv zeta. cbn [mv_from mv_to]. rewrite Hk.
  destruct (st_turn s), side; reflexivity.
Qed.

Lemma gen_pseudo_unfold : forall p mv,
  gen_pseudo p mv = Rules.pseudo_legal p mv && negb (king_step_prefiltered p mv).
Proof. reflexivity. Qed.

Lemma prefiltered_unfold : forall s mv,
  king_step_prefiltered (abs s) mv =
  has (abs s) (mv_from mv) (st_turn s) King
  && attacks_from (abs s) (st_turn s) King (mv_from mv) (mv_to mv)
  && (attacked (pos_of_board (st_board s)) (opp (st_turn s)) (mv_to mv)
      && negb (colour_at (pos_of_board (st_board s)) (mv_to mv) (opp (st_turn s)))).
Proof.
  intros s mv. unfold king_step_prefiltered. cbv zeta. cbn [abs p_turn].
  rewrite abs_attacked, abs_colour_at, <- !andb_assoc. reflexivity.
Qed.

Theorem king_moves_spec : forall s m, WfState s -> rights_ok s ->
  (In m (king_moves s) <->
   exists mv, kind_on (st_board s) (mv_from mv) = Some King /\ mv_from mv < 64 /\ mv_to mv < 64 /\
              gen_pseudo (abs s) mv = true /\ m = enc_move s mv).
Proof.
  intros s m Hwfs Hr. pose proof (WfState_board s Hwfs) as Hwf.
  rewrite king_moves_split, in_app_iff.
  rewrite (gen_kind_spec s King (king_dests s) m Hwf ltac:(discriminate) (king_dests_lt s)).
  rewrite castle_moves_spec. split.
  - intros [[o [t [Ho [Ht [Hp [Htest Hm]]]]]] | [side [Hright [Hpath [Hchk Hm]]]]].
    + (* a plain step *)
      apply (king_dests_test s o t Hwf Ho Ht) in Htest. destruct Htest as [Hatt [Hcol Hna]].
      exists (mkMove o t None). cbn [mv_from mv_to].
      assert (Hko : kind_on (st_board s) o = Some King) by (apply kind_on_piece_at; eauto).
      split; [exact Hko|]. split; [exact Ho|]. split; [exact Ht|]. split.
      * rewrite gen_pseudo_unfold, andb_true_iff. split.
        -- rewrite (pseudo_king s (mkMove o t None) (st_turn s) Hp). cbn [mv_from mv_to mv_promo].
           rewrite color_eqb_refl, abs_colour_at, Hcol, abs_attacks_from, Hatt.
           destruct (N.eqb_spec o t) as [E|_]; [|reflexivity].
           subst t. rewrite attacks_from_irrefl in Hatt. discriminate Hatt.
        -- rewrite prefiltered_unfold. cbn [mv_from mv_to].
           rewrite <- (attack_set_bool _ _ _ Hwf Ht), Hna, andb_false_r. reflexivity.
      * rewrite (enc_king_step s (mkMove o t None) Hko); [exact Hm|].
        cbn [mv_from mv_to]. rewrite abs_attacks_from. exact Hatt.
    + (* castling *)
      destruct (Hr _ _ Hright) as [Hking Hrook].
      assert (Hok : castle_ok (abs s) (st_turn s) side = true)
        by (apply (castle_ok_gen s side Hwf Hr); auto).
      pose proof Hking as Hp. apply has_iff in Hp. rewrite abs_p_at in Hp.
      assert (Hko : kind_on (st_board s) (king_home (st_turn s)) = Some King)
        by (apply kind_on_piece_at; eauto).
      destruct (castle_consts (st_turn s)) as [_ [_ [_ [Hh [Hd1 Hd2]]]]].
      assert (Hd : castle_dest (st_turn s) side < 64) by (destruct side; assumption).
      exists (mkMove (king_home (st_turn s)) (castle_dest (st_turn s) side) None). cbn [mv_from mv_to].
      split; [exact Hko|]. split; [exact Hh|]. split; [exact Hd|]. split.
      * rewrite gen_pseudo_unfold, andb_true_iff. split.
        -- rewrite (pseudo_king s (mkMove (king_home (st_turn s)) (castle_dest (st_turn s) side) None)
                      (st_turn s) Hp). cbn [mv_from mv_to mv_promo].
           rewrite (is_castle_move_home s side Hking), Hok, castle_not_step, castle_dest_neq_home.
           rewrite color_eqb_refl, abs_colour_at.
           assert (Hemp : colour_at (pos_of_board (st_board s)) (castle_dest (st_turn s) side) (st_turn s) = false).
           { rewrite castle_path_mask_bits, none_land_bb in Hpath.
             pose proof (Hpath _ (castle_dest_in_path (st_turn s) side)) as He.
             apply empty_at_occ in He. unfold empty_at in He. unfold colour_at.
             destruct (p_at (pos_of_board (st_board s)) (castle_dest (st_turn s) side)) as [[c1 k1]|];
               [discriminate He | reflexivity]. }
           rewrite Hemp. reflexivity.
        -- rewrite prefiltered_unfold. cbn [mv_from mv_to].
           rewrite castle_not_step, andb_false_r. reflexivity.
      * rewrite (enc_castle s side None Hko). exact Hm.
  - intros [mv [Hko [Hf [Ht [Hgp Hm]]]]]. pose proof Hko as Hko'.
    apply kind_on_piece_at in Hko'. destruct Hko' as [c' Hp].
    rewrite gen_pseudo_unfold, andb_true_iff in Hgp. destruct Hgp as [Hpl Hpre].
    rewrite (pseudo_king s mv c' Hp), !andb_true_iff in Hpl.
    destruct Hpl as [[[Hc Hcol] _] Hrest]. apply color_eqb_eq in Hc. subst c'.
    destruct (mv_promo mv) eqn:Hpromo; [discriminate Hrest|].
    rewrite abs_colour_at, negb_true_iff in Hcol.
    destruct (attacks_from (abs s) (st_turn s) King (mv_from mv) (mv_to mv)) eqn:Hatt.
    + (* a plain step *)
      left. exists (mv_from mv), (mv_to mv). split; [exact Hf|]. split; [exact Ht|]. split; [exact Hp|].
      split.
      * apply (king_dests_test s _ _ Hwf Hf Ht). rewrite abs_attacks_from in Hatt.
        split; [exact Hatt|]. split; [exact Hcol|].
        rewrite negb_true_iff, prefiltered_unfold in Hpre. rewrite abs_attacks_from, Hatt in Hpre.
        assert (Hh : has (abs s) (mv_from mv) (st_turn s) King = true)
          by (apply has_iff; rewrite abs_p_at; exact Hp).
        rewrite Hh in Hpre. cbn [andb] in Hpre.
        rewrite (attack_set_bool _ _ _ Hwf Ht). exact Hpre.
      * rewrite Hm. apply (enc_king_step s mv Hko Hatt).
    + (* castling *)
      right. cbn [orb] in Hrest.
      destruct (is_castle_move (abs s) mv) as [side|] eqn:Hic; [|discriminate Hrest].
      destruct (is_castle_move_inv s mv side Ht Hic) as [Ef Et].
      apply (castle_ok_gen s side Hwf Hr) in Hrest. destruct Hrest as [H1 [H2 H3]].
      exists side. split; [exact H1|]. split; [exact H2|]. split; [exact H3|].
      rewrite Hm. destruct mv as [f t pr]. cbn [mv_from mv_to mv_promo] in *. subst f t.
      apply enc_castle. exact Hko.
Qed.

(* ---------- NoDup and bounds for the king ---------- *)

Lemma castle_moves_NoDup : forall s, NoDup (castle_moves s).
Proof.
  intros s. unfold castle_moves. apply NoDup_flat_map_disj.
  - constructor; [cbn [In]; intros [H | []]; discriminate H|]. constructor; [intros []|constructor].
  - intros k _. destruct (castle_right s (st_turn s) k); [|constructor].
    match goal with |- NoDup (if ?x then _ else _) => destruct x end; [|constructor].
    constructor; [intros []|constructor].
  - intros x y z _ _ Hx Hy.
    assert (Ex : z = by_castling (st_turn s) x).
    { destruct (castle_right s (st_turn s) x); [|destruct Hx].
      match type of Hx with In _ (if ?c then _ else _) => destruct c end; [|destruct Hx].
      destruct Hx as [Hx | []]. symmetry. exact Hx. }
    assert (Ey : z = by_castling (st_turn s) y).
    { destruct (castle_right s (st_turn s) y); [|destruct Hy].
      match type of Hy with In _ (if ?c then _ else _) => destruct c end; [|destruct Hy].
      destruct Hy as [Hy | []]. symmetry. exact Hy. }
    rewrite Ex in Ey. apply (f_equal m_castle_side) in Ey.
    destruct (C20_castle (st_turn s) x) as [_ [_ [_ [_ [_ [_ [_ [Hsx _]]]]]]]].
    destruct (C20_castle (st_turn s) y) as [_ [_ [_ [_ [_ [_ [_ [Hsy _]]]]]]]].
    cbv zeta in Hsx, Hsy. rewrite Hsx, Hsy in Ey. injection Ey as Ey. exact Ey.
Qed.

Theorem king_moves_NoDup : forall s, WfState s -> NoDup (king_moves s).
Proof.
  intros s Hwfs. pose proof (WfState_board s Hwfs) as Hwf. rewrite king_moves_split.
  apply NoDup_app_disj.
  - apply gen_kind_NoDup; [exact Hwf | discriminate | apply king_dests_lt].
  - apply castle_moves_NoDup.
  - intros m H1 H2.
    apply (gen_kind_spec s King (king_dests s) m Hwf ltac:(discriminate) (king_dests_lt s)) in H1.
    destruct H1 as [o [t [Ho [Ht [_ [_ Hm]]]]]].
    apply castle_moves_spec in H2. destruct H2 as [side [_ [_ [_ Hm2]]]].
    rewrite Hm in Hm2. revert Hm2. apply step_enc_not_castle; [discriminate | exact Ho | exact Ht].
Qed.

Theorem king_moves_bounds : forall s m, WfState s -> In m (king_moves s) ->
  m_origin m < 64 /\ m_dest m < 64.
Proof.
  intros s m Hwfs Hin. pose proof (WfState_board s Hwfs) as Hwf.
  rewrite king_moves_split, in_app_iff in Hin. destruct Hin as [Hin | Hin].
  - revert Hin. apply gen_kind_bounds; [exact Hwf | discriminate | apply king_dests_lt].
  - apply castle_moves_spec in Hin. destruct Hin as [side [_ [_ [_ Hm]]]]. subst m.
    destruct (C20_castle (st_turn s) side) as [_ [_ [Ho [Hd _]]]]. cbv zeta in Ho, Hd.
    rewrite Ho, Hd. destruct (castle_consts (st_turn s)) as [-> [_ [_ [Hh [Hd1 Hd2]]]]].
    split; [exact Hh | destruct side; assumption].
Qed.

(* ---------- assumptions and non-vacuity ---------- *)

Print Assumptions expand_moves_spec.
Print Assumptions knight_moves_spec.
Print Assumptions bishop_moves_spec.
Print Assumptions rook_moves_spec.
Print Assumptions queen_moves_spec.
Print Assumptions king_moves_spec.
Print Assumptions king_moves_NoDup.
Print Assumptions king_moves_bounds.

(* White Ke1 Ra1 Rh1 Nc3 Bc4 Pa2; Black Ke8 Ra8 Rh8 Ba6 Ng4 Pe7; all four rights held.
   White may castle on both sides (402659398 = O-O, 335546438 = O-O-O); Black only O-O-O
   (67169222): g8 is attacked by the bishop c4.  One vm_compute (rebuilds the magic tables once). *)
Example king_moves_example :
  let bd := mkBoard 256 262144 67108864 129 0 16
                    4503599627370496 1073741824 1099511627776 9295429630892703744 0 1152921504606846976 in
  let sw := mkState bd White true true true true None 0 1 in
  let sb := mkState bd Black true true true true None 0 1 in
  wf_stateb sw = true /\ wf_stateb sb = true /\
  (forall c side, castle_right sw c side = true ->
     has (abs sw) (king_home c) c King = true /\ has (abs sw) (rook_home c side) c Rook = true) /\
  king_moves sw = [268438598; 268440646; 268446790; 268447814; 402659398; 335546438] /\
  king_moves sb = [53190; 61382; 63430; 67169222] /\
  by_castling White true = 402659398 /\ by_castling White false = 335546438 /\
  by_castling Black false = 67169222 /\
  enc_move sw (mkMove 4 6 None) = 402659398 /\ gen_pseudo (abs sw) (mkMove 4 6 None) = true /\
  gen_pseudo (abs sb) (mkMove 60 62 None) = false /\ gen_pseudo (abs sb) (mkMove 60 58 None) = true.
Proof.
  intros bd sw sb. split; [vm_compute; reflexivity|]. split; [vm_compute; reflexivity|].
  split; [intros [|] [|] _; vm_compute; split; reflexivity|].
  vm_compute. repeat split; reflexivity.
Qed.
