(* Structural facts about model/Attacks.v used by property C09: reference walk, blocker-subset
   enumeration, the generic magic-table lifting lemma, leaper patterns, ray geometry.
   The two heavy finite sweeps are in AttacksRookCore.v / AttacksBishopCore.v. *)
From WV Require Import Bits Attacks BitsProofs.
From Coq Require Import Lia ZifyBool ZifyN ZifyNat FSets.FMapPositive.
Ltac Zify.zify_post_hook ::= Z.div_mod_to_equations.
Open Scope N_scope.
Arguments N.add : simpl never.
Arguments N.sub : simpl never.
Arguments N.mul : simpl never.
Arguments N.land : simpl never.
Arguments N.lor : simpl never.
Arguments N.shiftl : simpl never.
Arguments N.shiftr : simpl never.

(* ---------- bb_of_list / pattern ---------- *)

Lemma fold_setb_spec : forall l acc t,
  N.testbit (fold_left (fun acc s => setb acc s true) l acc) t = true <->
  N.testbit acc t = true \/ In t l.
Proof.
  induction l as [|a tl IH]; intros acc t; cbn [fold_left In].
  - tauto.
  - rewrite IH, setb_true_spec, orb_true_iff, N.eqb_eq. tauto.
Qed.

Lemma bb_of_list_spec : forall l t, test (bb_of_list l) t = true <-> In t l.
Proof.
  intros l t. unfold test, bb_of_list. rewrite fold_setb_spec, N.bits_0.
  split; [intros [H | H]; [discriminate H | exact H] | intros H; right; exact H].
Qed.

Lemma bb_of_list_ext : forall l1 l2, (forall t, In t l1 <-> In t l2) -> bb_of_list l1 = bb_of_list l2.
Proof.
  intros l1 l2 H. apply N.bits_inj. intros t. apply eq_iff_eq_true.
  fold (test (bb_of_list l1) t). fold (test (bb_of_list l2) t).
  rewrite !bb_of_list_spec. apply H.
Qed.

Lemma fold_pattern_spec : forall s offs acc t,
  N.testbit (fold_left (fun acc d => match offset s (fst d) (snd d) with
                                     | Some u => setb acc u true
                                     | None => acc end) offs acc) t = true <->
  N.testbit acc t = true \/ exists d, In d offs /\ offset s (fst d) (snd d) = Some t.
Proof.
  intros s. induction offs as [|a tl IH]; intros acc t; cbn [fold_left In].
  - split; [intros H; left; exact H | intros [H | [d [[] _]]]; exact H].
  - rewrite IH. split.
    + intros [H | [d [Hin Hd]]].
      * destruct (offset s (fst a) (snd a)) as [u|] eqn:E; [|left; exact H].
        rewrite setb_true_spec, orb_true_iff, N.eqb_eq in H. destruct H as [H | H].
        -- left; exact H.
        -- right. exists a. split; [left; reflexivity|]. rewrite E, H. reflexivity.
      * right. exists d. split; [right; exact Hin | exact Hd].
    + intros [H | [d [[Hin | Hin] Hd]]].
      * left. destruct (offset s (fst a) (snd a)); [|exact H].
        rewrite setb_true_spec, H. reflexivity.
      * subst d. left. rewrite Hd. rewrite setb_true_spec, N.eqb_refl. apply orb_true_r.
      * right. exists d. split; assumption.
Qed.

Lemma pattern_spec : forall s offs t,
  test (pattern s offs) t = true <-> exists d, In d offs /\ offset s (fst d) (snd d) = Some t.
Proof.
  intros s offs t. unfold test, pattern. rewrite fold_pattern_spec, N.bits_0.
  split; [intros [H | H]; [discriminate H | exact H] | intros H; right; exact H].
Qed.

Lemma nthN_map_squares : forall (f : N -> N) s, s < 64 -> nthN (map f squares) s 0 = f s.
Proof. intros f s Hs. unfold nthN. apply map_squares_nth. exact Hs. Qed.

Lemma knight_attacks_eq : forall s, s < 64 -> knight_attacks s = pattern s knight_offsets.
Proof. intros s Hs. unfold knight_attacks, knight_table. apply nthN_map_squares. exact Hs. Qed.
Lemma king_attacks_eq : forall s, s < 64 -> king_attacks s = pattern s king_offsets.
Proof. intros s Hs. unfold king_attacks, king_table. apply nthN_map_squares. exact Hs. Qed.
Lemma white_pawn_attacks_eq : forall s, s < 64 -> pawn_attacks true s = pattern s white_pawn_offsets.
Proof. intros s Hs. unfold pawn_attacks, white_pawn_table. apply nthN_map_squares. exact Hs. Qed.
Lemma black_pawn_attacks_eq : forall s, s < 64 -> pawn_attacks false s = pattern s black_pawn_offsets.
Proof. intros s Hs. unfold pawn_attacks, black_pawn_table. apply nthN_map_squares. exact Hs. Qed.

Theorem leapers_spec : forall s t, s < 64 -> t < 64 ->
  (test (knight_attacks s) t = true <-> exists d, In d knight_offsets /\ offset s (fst d) (snd d) = Some t) /\
  (test (king_attacks s) t = true <-> exists d, In d king_offsets /\ offset s (fst d) (snd d) = Some t) /\
  (test (pawn_attacks true s) t = true <-> exists d, In d white_pawn_offsets /\ offset s (fst d) (snd d) = Some t) /\
  (test (pawn_attacks false s) t = true <-> exists d, In d black_pawn_offsets /\ offset s (fst d) (snd d) = Some t).
Proof.
  intros s t Hs _.
  rewrite knight_attacks_eq, king_attacks_eq, white_pawn_attacks_eq, black_pawn_attacks_eq by exact Hs.
  repeat split; apply pattern_spec.
Qed.

(* no bit outside the board in any leaper table *)
Theorem leapers_on_board : forall s t, s < 64 ->
  test (knight_attacks s) t = true \/ test (king_attacks s) t = true \/
  test (pawn_attacks true s) t = true \/ test (pawn_attacks false s) t = true -> t < 64.
Proof.
  intros s t Hs H.
  rewrite knight_attacks_eq, king_attacks_eq, white_pawn_attacks_eq, black_pawn_attacks_eq in H by exact Hs.
  rewrite !pattern_spec in H.
  destruct H as [H | [H | [H | H]]]; destruct H as [d [_ Hd]]; apply (offset_lt _ _ _ _ Hs Hd).
Qed.

Lemma pattern_lt : forall s offs, s < 64 -> pattern s offs < 2 ^ 64.
Proof.
  intros s offs Hs. apply lt_pow2_of_bits. intros k Hk.
  destruct (N.testbit (pattern s offs) k) eqn:E; [|reflexivity].
  apply pattern_spec in E. destruct E as [d [_ Hd]].
  pose proof (offset_lt _ _ _ _ Hs Hd). lia.
Qed.

Theorem leapers_lt : forall s, s < 64 ->
  knight_attacks s < 2 ^ 64 /\ king_attacks s < 2 ^ 64 /\
  pawn_attacks true s < 2 ^ 64 /\ pawn_attacks false s < 2 ^ 64.
Proof.
  intros s Hs.
  rewrite knight_attacks_eq, king_attacks_eq, white_pawn_attacks_eq, black_pawn_attacks_eq by exact Hs.
  repeat split; apply pattern_lt; exact Hs.
Qed.

(* ---------- the reference walk ---------- *)

Lemma walk_ext : forall ray occ occ',
  (forall sq, In sq (removelast ray) -> test occ sq = test occ' sq) -> walk occ ray = walk occ' ray.
Proof.
  induction ray as [|a tl IH]; intros occ occ' H; [reflexivity|].
  destruct tl as [|b tl'].
  - cbn [walk]. destruct (test occ a); destruct (test occ' a); reflexivity.
  - change (walk occ (a :: b :: tl')) with (if test occ a then [a] else a :: walk occ (b :: tl')).
    change (walk occ' (a :: b :: tl')) with (if test occ' a then [a] else a :: walk occ' (b :: tl')).
    change (removelast (a :: b :: tl')) with (a :: removelast (b :: tl')) in H.
    rewrite (H a) by (left; reflexivity).
    rewrite (IH occ occ') by (intros sq Hsq; apply H; right; exact Hsq).
    reflexivity.
Qed.

Lemma walk_dirs_land : forall dirs s m,
  (forall d sq, In d dirs -> In sq (removelast (ray_squares s d)) -> N.testbit m sq = true) ->
  forall occ, walk_dirs occ s dirs = walk_dirs (N.land occ m) s dirs.
Proof.
  intros dirs s m H occ. unfold walk_dirs. f_equal.
  induction dirs as [|d tl IH]; [reflexivity|].
  cbn [flat_map]. f_equal.
  - apply walk_ext. intros sq Hsq. unfold test. rewrite N.land_spec.
    rewrite (H d sq) by (try (left; reflexivity); exact Hsq). rewrite andb_true_r. reflexivity.
  - apply IH. intros d' sq Hd' Hsq. apply (H d' sq); [right; exact Hd' | exact Hsq].
Qed.

Definition cover_check (maskf : N -> N) (dirs : list (Z * Z)) : bool :=
  forallb (fun s => forallb (fun d => forallb (fun sq => N.testbit (maskf s) sq)
                                              (removelast (ray_squares s d))) dirs) squares.

Lemma cover_check_sound : forall maskf dirs, cover_check maskf dirs = true ->
  forall s occ, s < 64 -> walk_dirs occ s dirs = walk_dirs (N.land occ (maskf s)) s dirs.
Proof.
  intros maskf dirs H s occ Hs. apply walk_dirs_land. intros d sq Hd Hsq.
  unfold cover_check in H. apply forallb_squares with (s := s) in H; [|exact Hs].
  rewrite forallb_forall in H. specialize (H d Hd).
  rewrite forallb_forall in H. apply (H sq Hsq).
Qed.

(* walk characterised by positions *)
Lemma walk_In : forall occ l t,
  In t (walk occ l) <->
  exists i, nth_error l i = Some t /\
            forall j u, (j < i)%nat -> nth_error l j = Some u -> test occ u = false.
Proof.
  intros occ. induction l as [|a tl IH]; intros t.
  - cbn [walk In]. split; [intros [] | intros [i [H _]]; destruct i; discriminate H].
  - cbn [walk]. destruct (test occ a) eqn:Ea.
    + cbn [In]. split.
      * intros [H | []]. subst t. exists 0%nat. split; [reflexivity|]. intros j u Hj. lia.
      * intros [i [Hi Hall]]. destruct i as [|i'].
        -- cbn [nth_error] in Hi. injection Hi as Hi. left; exact Hi.
        -- assert (Hf : test occ a = false) by (apply (Hall 0%nat a); [lia | reflexivity]).
           congruence.
    + cbn [In]. rewrite IH. split.
      * intros [H | [i [Hi Hall]]].
        -- subst t. exists 0%nat. split; [reflexivity|]. intros j u Hj. lia.
        -- exists (S i). split; [exact Hi|]. intros j u Hj Hu. destruct j as [|j'].
           ++ cbn [nth_error] in Hu. injection Hu as Hu. subst u. exact Ea.
           ++ apply (Hall j' u); [lia | exact Hu].
      * intros [i [Hi Hall]]. destruct i as [|i'].
        -- cbn [nth_error] in Hi. injection Hi as Hi. left; exact Hi.
        -- right. exists i'. split; [exact Hi|]. intros j u Hj Hu.
           apply (Hall (S j) u); [lia | exact Hu].
Qed.

(* the k-th square of a ray is k steps away *)
Lemma ray_nth_error : forall fuel s df dr i t, s < 64 ->
  (nth_error (ray_squares_fuel fuel s df dr) i = Some t <->
   (i < fuel)%nat /\ offset s (Z.of_nat (S i) * df) (Z.of_nat (S i) * dr) = Some t).
Proof.
  induction fuel as [|k IH]; intros s df dr i t Hs.
  - cbn [ray_squares_fuel]. split; [destruct i; discriminate | intros [H _]; lia].
  - cbn [ray_squares_fuel]. destruct (offset s df dr) as [n|] eqn:E.
    + pose proof (offset_lt _ _ _ _ Hs E) as Hn. destruct i as [|i'].
      * cbn [nth_error]. replace (Z.of_nat 1 * df)%Z with df by lia.
        replace (Z.of_nat 1 * dr)%Z with dr by lia. rewrite E.
        split; [intros H; split; [lia | exact H] | intros [_ H]; exact H].
      * cbn [nth_error]. rewrite (IH n df dr i' t Hn).
        rewrite (offset_comp s df dr n _ _ Hs E).
        replace (df + Z.of_nat (S i') * df)%Z with (Z.of_nat (S (S i')) * df)%Z by lia.
        replace (dr + Z.of_nat (S i') * dr)%Z with (Z.of_nat (S (S i')) * dr)%Z by lia.
        split; intros [H1 H2]; (split; [lia | exact H2]).
    + split; [destruct i; discriminate|]. intros [_ H].
      destruct (offset_between s df dr (Z.of_nat (S i)) 1 t Hs) as [u Hu]; [lia | exact H|].
      replace (1 * df)%Z with df in Hu by lia. replace (1 * dr)%Z with dr in Hu by lia.
      congruence.
Qed.

Theorem walk_geometry_any : forall occ s t d, s < 64 ->
  (In t (walk occ (ray_squares s d)) <->
   exists n, (1 <= n <= 7)%Z /\ offset s (n * fst d) (n * snd d) = Some t /\
     forall k, (1 <= k < n)%Z -> forall u, offset s (k * fst d) (k * snd d) = Some u -> test occ u = false).
Proof.
  intros occ s t d Hs. rewrite walk_In. unfold ray_squares. split.
  - intros [i [Hi Hall]]. apply ray_nth_error in Hi; [|exact Hs]. destruct Hi as [Hi7 Hi].
    exists (Z.of_nat (S i)). split; [lia|]. split; [exact Hi|].
    intros k Hk u Hu. apply (Hall (Z.to_nat k - 1)%nat u); [lia|].
    apply ray_nth_error; [exact Hs|]. split; [lia|].
    replace (Z.of_nat (S (Z.to_nat k - 1))) with k by lia. exact Hu.
  - intros [n [Hn [Ho Hall]]]. exists (Z.to_nat n - 1)%nat. split.
    + apply ray_nth_error; [exact Hs|]. split; [lia|].
      replace (Z.of_nat (S (Z.to_nat n - 1))) with n by lia. exact Ho.
    + intros j u Hj Hu. apply ray_nth_error in Hu; [|exact Hs]. destruct Hu as [_ Hu].
      apply (Hall (Z.of_nat (S j))); [lia | exact Hu].
Qed.

Theorem walk_geometry : forall occ s t d, s < 64 -> t < 64 -> In d (rook_dirs ++ bishop_dirs) ->
  (In t (walk occ (ray_squares s d)) <->
   exists n, (1 <= n <= 7)%Z /\ offset s (n * fst d) (n * snd d) = Some t /\
     forall k, (1 <= k < n)%Z -> forall u, offset s (k * fst d) (k * snd d) = Some u -> test occ u = false).
Proof. intros occ s t d Hs _ _. apply walk_geometry_any. exact Hs. Qed.

Theorem walk_dirs_test : forall occ s dirs t,
  test (walk_dirs occ s dirs) t = true <-> exists d, In d dirs /\ In t (walk occ (ray_squares s d)).
Proof. intros. unfold walk_dirs. rewrite bb_of_list_spec, in_flat_map. reflexivity. Qed.

(* ---------- every submask of a mask is enumerated by blockers_from_index ---------- *)

Fixpoint idx_of (sub : N) (bits : list N) (i : N) : N :=
  match bits with
  | [] => 0
  | b :: tl => N.lor (if N.testbit sub b then just i else 0) (idx_of sub tl (N.succ i))
  end.

Lemma idx_of_spec : forall bits sub i m,
  N.testbit (idx_of sub bits i) m = true <->
  exists j, (j < length bits)%nat /\ m = i + N.of_nat j /\ N.testbit sub (nth j bits 0) = true.
Proof.
  induction bits as [|b tl IH]; intros sub i m.
  - cbn [idx_of length]. rewrite N.bits_0. split; [discriminate | intros [j [H _]]; lia].
  - cbn [idx_of length]. rewrite N.lor_spec, orb_true_iff, IH. split.
    + intros [H | [j [Hj [Hm Ht]]]].
      * exists 0%nat. cbn [nth]. destruct (N.testbit sub b); [|rewrite N.bits_0 in H; discriminate H].
        rewrite just_spec, N.eqb_eq in H. split; [lia|]. split; [lia | reflexivity].
      * exists (S j). cbn [nth]. split; [lia|]. split; [lia | exact Ht].
    + intros [j [Hj [Hm Ht]]]. destruct j as [|j'].
      * left. cbn [nth] in Ht. rewrite Ht, just_spec, N.eqb_eq. lia.
      * right. exists j'. cbn [nth] in Ht. split; [lia|]. split; [lia | exact Ht].
Qed.

Lemma blockers_aux_spec : forall bits idx i acc k,
  N.testbit (blockers_aux idx bits i acc) k = true <->
  N.testbit acc k = true \/
  exists j, (j < length bits)%nat /\ nth j bits 0 = k /\ N.testbit idx (i + N.of_nat j) = true.
Proof.
  induction bits as [|b tl IH]; intros idx i acc k.
  - cbn [blockers_aux length]. split; [intros H; left; exact H | intros [H | [j [Hj _]]]; [exact H | lia]].
  - cbn [blockers_aux length]. rewrite IH. split.
    + intros [H | [j [Hj [Hn Ht]]]].
      * destruct (N.testbit idx i) eqn:Ei; [|left; exact H].
        rewrite setb_true_spec, orb_true_iff, N.eqb_eq in H. destruct H as [H | H]; [left; exact H|].
        right. exists 0%nat. cbn [nth]. split; [lia|]. split; [exact H|].
        replace (i + N.of_nat 0) with i by lia. exact Ei.
      * right. exists (S j). cbn [nth]. split; [lia|]. split; [exact Hn|].
        replace (i + N.of_nat (S j)) with (N.succ i + N.of_nat j) by lia. exact Ht.
    + intros [H | [j [Hj [Hn Ht]]]].
      * left. destruct (N.testbit idx i); [|exact H]. rewrite setb_true_spec, H. reflexivity.
      * destruct j as [|j'].
        -- left. cbn [nth] in Hn. replace (i + N.of_nat 0) with i in Ht by lia.
           rewrite Ht, setb_true_spec, Hn, N.eqb_refl. apply orb_true_r.
        -- right. exists j'. cbn [nth] in Hn. split; [lia|]. split; [exact Hn|].
           replace (N.succ i + N.of_nat j') with (i + N.of_nat (S j')) by lia. exact Ht.
Qed.

Lemma submask_enumerated : forall occ mask,
  exists i, i < 2 ^ count_ones mask /\ blockers_from_index i mask = N.land occ mask.
Proof.
  intros occ mask. exists (idx_of occ (iter_ones mask) 0). split.
  - unfold count_ones. apply lt_pow2_of_bits. intros k Hk.
    destruct (N.testbit (idx_of occ (iter_ones mask) 0) k) eqn:E; [|reflexivity].
    apply idx_of_spec in E. destruct E as [j [Hj [Hm _]]]. lia.
  - apply N.bits_inj. intros k. apply eq_iff_eq_true.
    unfold blockers_from_index. rewrite blockers_aux_spec, N.land_spec, andb_true_iff, N.bits_0.
    rewrite <- (iter_ones_spec mask k). split.
    + intros [H | [j [Hj [Hn Ht]]]]; [discriminate H|].
      apply idx_of_spec in Ht. destruct Ht as [j' [Hj' [Hm Ht]]].
      assert (j' = j) by lia. subst j'. rewrite Hn in Ht.
      split; [exact Ht|]. rewrite <- Hn. apply nth_In. exact Hj.
    + intros [Ht Hin]. right. destruct (In_nth _ _ 0 Hin) as [j [Hj Hn]].
      exists j. split; [exact Hj|]. split; [exact Hn|].
      apply idx_of_spec. exists j. split; [exact Hj|]. split; [reflexivity|]. rewrite Hn. exact Ht.
Qed.

(* ---------- magic lookup: generic lifting of the finite core ---------- *)

Lemma magic_index_land : forall occ m mg bt, magic_index occ m mg bt = magic_index (N.land occ m) m mg bt.
Proof.
  intros. unfold magic_index. rewrite <- N.land_assoc, N.land_diag. reflexivity.
Qed.

Fixpoint forall_below (n : nat) (i : N) (f : N -> bool) : bool :=
  match n with O => true | S k => f i && forall_below k (N.succ i) f end.

Lemma forall_below_sound : forall n i f, forall_below n i f = true ->
  forall j, i <= j < i + N.of_nat n -> f j = true.
Proof.
  induction n as [|k IH]; intros i f H j Hj; [lia|].
  cbn [forall_below] in H. apply andb_true_iff in H. destruct H as [H1 H2].
  destruct (N.eq_dec i j) as [<- | Hne]; [exact H1|].
  apply (IH (N.succ i) f H2). lia.
Qed.

Definition slider_core (T : PositiveMap.t N) (maskf : N -> N) (magics bitsl : list N)
           (dirs : list (Z * Z)) : bool :=
  forallb (fun s =>
    let m := maskf s in let mg := nthN magics s 0 in let bt := nthN bitsl s 0 in
    forall_below (N.to_nat (N.shiftl 1 bt)) 0 (fun i =>
      let bl := blockers_from_index i m in
      N.eqb (table_get T s (magic_index bl m mg bt)) (walk_dirs bl s dirs))) squares.

Definition bits_check (maskf : N -> N) (bitsl : list N) : bool :=
  forallb (fun s => N.eqb (count_ones (maskf s)) (nthN bitsl s 0)) squares.

Theorem slider_lift : forall T maskf magics bitsl dirs,
  slider_core T maskf magics bitsl dirs = true ->
  bits_check maskf bitsl = true ->
  cover_check maskf dirs = true ->
  forall s occ, s < 64 ->
    table_get T s (magic_index occ (maskf s) (nthN magics s 0) (nthN bitsl s 0)) = walk_dirs occ s dirs.
Proof.
  intros T maskf magics bitsl dirs Hcore Hbits Hcover s occ Hs.
  rewrite magic_index_land.
  rewrite (cover_check_sound maskf dirs Hcover s occ Hs).
  destruct (submask_enumerated occ (maskf s)) as [i [Hi Hbl]].
  unfold bits_check in Hbits. apply forallb_squares with (s := s) in Hbits; [|exact Hs].
  apply N.eqb_eq in Hbits. rewrite Hbits in Hi.
  unfold slider_core in Hcore. apply forallb_squares with (s := s) in Hcore; [|exact Hs].
  cbv zeta in Hcore.
  apply forall_below_sound with (j := i) in Hcore.
  - apply N.eqb_eq in Hcore. rewrite Hbl in Hcore. exact Hcore.
  - rewrite N2Nat.id, N.shiftl_1_l. lia.
Qed.

Lemma rook_mask_nth : forall s, s < 64 -> nthN rook_slide_masks s 0 = rook_slide_mask s.
Proof. intros s Hs. unfold rook_slide_masks. apply nthN_map_squares. exact Hs. Qed.

Lemma bishop_mask_nth : forall s, s < 64 -> nthN bishop_slide_masks s 0 = bishop_slide_mask s.
Proof. intros s Hs. unfold bishop_slide_masks. apply nthN_map_squares. exact Hs. Qed.

Lemma rook_bits_check : bits_check rook_slide_mask rook_bits = true.
Proof. vm_compute. reflexivity. Qed.
Lemma bishop_bits_check : bits_check bishop_slide_mask bishop_bits = true.
Proof. vm_compute. reflexivity. Qed.
Lemma rook_cover_check : cover_check rook_slide_mask rook_dirs = true.
Proof. vm_compute. reflexivity. Qed.
Lemma bishop_cover_check : cover_check bishop_slide_mask bishop_dirs = true.
Proof. vm_compute. reflexivity. Qed.
