(* C03 for several workers under every schedule: every entry a worker inserts stores a legal move of a
   legal position under that position's hash, whatever the table answers (analyzeP_emits); hence by the
   rely/guarantee theorem the shared table keeps "stored moves are legal moves" under every interleaving,
   and every line analyze_iterativeM reports is a non-empty legal line (eventsM_legal). *)
From Coq Require Import NArith ZArith List Bool Lia.
From WV Require Import Types Bits Attacks Board MoveEnc MoveGen Text Table Eval Search Conc Wf.
From WV Require Import SearchBase SearchProofs ConcSeq ConcRG.
Import ListNotations.
Open Scope N_scope.

Definition Rtrue : N -> entry -> Prop := fun _ _ => True.

(* guarantee: what is stored is a legal move of a legal position with that hash, below its maximal depth *)
Definition G_leg (hs : hasher) (h : N) (e : entry) : Prop :=
  exists s, LegalPos s /\ h = hash hs s /\ In (e_move e) (MoveGen.legal_moves s) /\ e_depth e < e_maxdepth e.

(* rely: what is found under the hash of a legal position is a legal move of it (= TInv, entry by entry) *)
Definition R_leg (hs : hasher) (h : N) (e : entry) : Prop :=
  forall s, LegalPos s -> hash hs s = h -> In (e_move e) (MoveGen.legal_moves s).

Lemma G_leg_R_leg : forall hs, HashFaithful hs -> forall h e, G_leg hs h e -> R_leg hs h e.
Proof.
  intros hs HF h e (s & HL & -> & Hm & _) s' HL' Hh.
  rewrite (HF s' s HL' HL Hh). exact Hm.
Qed.

Lemma TabR_TGood : forall hs tt, TabR (R_leg hs) tt <-> TGood hs tt.
Proof.
  intros hs tt. unfold TabR, TGood, TInv, R_leg. split; intros [H1 H2]; (split; [exact H1|]).
  - intros h e Hf s HL Hh. exact (H2 h e Hf s HL Hh).
  - intros h e Hf s HL Hh. exact (H2 h e Hf s HL Hh).
Qed.

Section Emits.
Variable hs : hasher.
Variable history : list N.
Variable jit : N -> Z.

Notation SAT := (sat Rtrue (G_leg hs) (fun _ : pres => True)).

Lemma loopP_emits : forall (recP : recP_t),
  (forall ns md cd ce a b st, LegalPos ns -> SAT (recP ns md cd ce a b None st)) ->
  forall s md cd ce ext beta1 prev, LegalPos s -> cd < md ->
  forall l, (forall m, In m l -> In m (MoveGen.pseudo_legal s)) ->
  forall alpha best kind st, (forall bm, best = Some bm -> In bm (MoveGen.legal_moves s)) ->
  SAT (loop_bodyP recP s (hash hs s) md cd ce ext beta1 prev l alpha best kind st).
Proof.
  intros recP Hrec s md cd ce ext beta1 prev HL Hlt l.
  induction l as [|m tl IH]; intros Hl alpha best kind st Hbest; cbn [loop_bodyP].
  - destruct (prev =? l_nodes st).
    + destruct (evaluate s (st_turn s) cd); apply sat_ret; exact Logic.I.
    + destruct best as [bm|]; [|apply sat_ret; exact Logic.I].
      apply sat_ins; [|apply sat_ret; exact Logic.I].
      exists s. cbn [e_move e_depth e_maxdepth]. split; [exact HL|]. split; [reflexivity|]. split; [exact (Hbest bm eq_refl)|exact Hlt].
  - assert (Htl : forall m', In m' tl -> In m' (MoveGen.pseudo_legal s)) by (intros m' Hm'; apply Hl; right; exact Hm').
    destruct (apply_move s m) as [ns|] eqn:Ha; [|apply sat_ret; exact Logic.I].
    fold (king_hit s ns). destruct (king_hit s ns) eqn:Hk.
    + apply IH; assumption.
    + destruct (searched_move s m ns HL (Hl m (or_introl eq_refl)) Ha Hk) as (_ & HLn & Hml).
      apply (sat_bind _ _ _ _ (fun _ : pres => True)); [apply Hrec; exact HLn|].
      intros r _. destruct r as [v st'|site|]; [|apply sat_ret; exact Logic.I|apply sat_ret; exact Logic.I].
      cbv zeta. destruct (beta1 <=? - v)%Z.
      * apply sat_ins; [|apply sat_ret; exact Logic.I].
        exists s. cbn [e_move e_depth e_maxdepth]. split; [exact HL|]. split; [reflexivity|]. split; [exact Hml|exact Hlt].
      * destruct (alpha <? - v)%Z.
        -- apply IH; [exact Htl|]. intros bm E. injection E as <-. exact Hml.
        -- apply IH; assumption.
Qed.

Lemma nodeP_emits : forall (recP : recP_t),
  (forall ns md cd ce a b st, LegalPos ns -> SAT (recP ns md cd ce a b None st)) ->
  forall s md cd ce a b prio st, LegalPos s -> (forall pm, prio = Some pm -> In pm (MoveGen.legal_moves s)) ->
  SAT (node_bodyP hs history jit recP s md cd ce a b prio st).
Proof.
  intros recP Hrec s md cd ce a b prio st HL Hprio. unfold node_bodyP. cbv zeta.
  destruct ((0 <? cd) && in_history history (hash hs s)); [apply sat_ret; exact Logic.I|].
  apply sat_find. intros r _.
  destruct (probe_of r md cd a b) as [v|a1 b1|site]; [apply sat_ret; exact Logic.I| |apply sat_ret; exact Logic.I].
  destruct (md <=? cd) eqn:Hmd.
  - destruct (quiesce (S (men s)) s cd a1 b1); apply sat_ret; exact Logic.I.
  - apply N.leb_gt in Hmd. apply (loopP_emits recP Hrec s md cd ce _ b1 _ HL Hmd).
    + intros m Hm.
      assert (Hin : In m (ordered_moves jit s (l_jidx st) prio)) by exact Hm.
      apply ordered_moves_in in Hin. destruct Hin as [Hp|Hp]; [exact Hp|].
      apply legal_in_pseudo. exact (Hprio m Hp).
    + intros bm E. discriminate E.
Qed.

Theorem analyzeP_emits : forall fuel s md cd ce a b prio st,
  LegalPos s -> (forall pm, prio = Some pm -> In pm (MoveGen.legal_moves s)) ->
  SAT (analyzeP hs history jit fuel s md cd ce a b prio st).
Proof.
  induction fuel as [|k IH]; intros s md cd ce a b prio st HL Hprio; cbn [analyzeP].
  - apply sat_ret. exact Logic.I.
  - apply nodeP_emits; [|exact HL|exact Hprio].
    intros ns md' cd' ce' a' b' st' HLn. apply IH; [exact HLn|]. intros pm E. discriminate E.
Qed.

End Emits.

(* ------------------------------------------------------------------ *)
(* analyze_iterativeM: every reported line is legal, for every schedule *)
(* ------------------------------------------------------------------ *)

Lemma workers_sat : forall hs jit_of depth s history bm (l : list nat), HashFaithful hs -> LegalPos s ->
  (forall m, bm = Some m -> In m (MoveGen.legal_moves s)) ->
  Forall (sat (R_leg hs) (G_leg hs) (fun _ : pres => True)) (map (worker_prog hs jit_of depth s history bm) l).
Proof.
  intros hs jit_of depth s history bm l HF HL Hbm. apply Forall_forall. intros p Hp.
  apply in_map_iff in Hp. destruct Hp as (i & <- & _). unfold worker_prog.
  apply (sat_mono _ Rtrue (R_leg hs) (G_leg hs) (G_leg hs) (fun _ => True) (fun _ => True));
    [intros; exact Logic.I|intros h e H; exact H|intros a H; exact H|].
  apply analyzeP_emits; [exact HL|]. destruct i as [|i']; [exact Hbm|intros pm E; discriminate E].
Qed.

Lemma iterateM_events : forall hs jit_of workers, HashFaithful hs ->
  forall iters depth s history tt sched nt bm acc,
  LegalPos s -> TGood hs tt -> (forall m, bm = Some m -> In m (MoveGen.legal_moves s)) -> EvOk s acc ->
  let r := iterateM hs jit_of workers iters depth s history tt sched nt bm acc in
  EvOk s (m_events r) /\ TGood hs (m_tt r).
Proof.
  intros hs jit_of workers HF iters. induction iters as [|k IH];
    intros depth s history tt sched nt bm acc HL HG Hbm Hacc; cbn [iterateM].
  - cbn [m_events m_tt]. split; [apply EvOk_rev; exact Hacc|exact HG].
  - cbv zeta.
    pose proof (run_workers_sat (R_leg hs) (G_leg hs) (fun _ : pres => True) (G_leg_R_leg hs HF) sched
                  (map (worker_prog hs jit_of depth s history bm) (seq 0 workers)) tt
                  (workers_sat hs jit_of depth s history bm (seq 0 workers) HF HL Hbm)
                  (proj2 (TabR_TGood hs tt) HG)) as Hrw.
    destruct (run_workers sched (map (worker_prog hs jit_of depth s history bm) (seq 0 workers)) tt) as [[rs tt1] sched1].
    destruct Hrw as (_ & HT1 & _). apply TabR_TGood in HT1.
    destruct (join_results rs None 0) as [[best n] oc].
    destruct oc as [|poc]; [|destruct best; cbn [m_events m_tt]; (split; [apply EvOk_rev; exact Hacc|exact HG])].
    destruct best as [ev|]; [|cbn [m_events m_tt]; split; [apply EvOk_rev; exact Hacc|exact HT1]].
    pose proof (lines_legal hs (S (S (N.to_nat depth))) tt1 s 0 depth (proj2 HT1) HL) as Hline.
    destruct (iter_moves hs (S (S (N.to_nat depth))) tt1 s 0 depth) as [|mv tl] eqn:El.
    + cbn [m_events m_tt]. split; [|exact HT1]. apply EvOk_rev. apply EvOk_cons_progress. exact Hacc.
    + assert (Hacc2 : EvOk s (EvBest ev (mv :: tl) :: EvProgress (depth + 1) (nt + n) :: acc)).
      { apply EvOk_cons_best; [discriminate|exact Hline|]. apply EvOk_cons_progress. exact Hacc. }
      destruct (POS_INF <=? ev)%Z.
      { cbn [m_events m_tt]. split; [apply EvOk_rev; exact Hacc2|exact HT1]. }
      apply IH; [exact HL|exact HT1| |exact Hacc2].
      intros m E. injection E as <-. exact (proj1 Hline).
Qed.

(* C03, several workers: whatever the number of workers and whatever the schedule *)
Theorem eventsM_legal : forall hs jit_of workers iters s history tt sched,
  HashFaithful hs -> LegalPos s -> tt_ok tt -> TInv hs tt ->
  let r := analyze_iterativeM hs jit_of workers iters s history tt sched in
  (forall ev line, In (EvBest ev line) (m_events r) -> line <> [] /\ legal_line s line) /\
  tt_ok (m_tt r) /\ TInv hs (m_tt r).
Proof.
  intros hs jit_of workers iters s history tt sched HF HL Hok Hinv. unfold analyze_iterativeM.
  apply (iterateM_events hs jit_of workers HF); [exact HL|exact (conj Hok Hinv)| |].
  - intros m E. discriminate E.
  - intros ev line [].
Qed.
