(* n-worker completeness with the "ends normally" premise discharged by proofs/ConcSafe.v. *)
From Coq Require Import NArith ZArith List Bool Lia.
From WV Require Import Types Bits Attacks Board MoveEnc MoveGen Text Table Eval Search Conc Wf.
From WV Require Import Rules Abs GameValue.
From WV Require Import SearchBase SearchProofs SearchSafety SearchTop MateValue MateSound MateRegion MateComplete.
From WV Require Import ConcSeq ConcRG ConcLegal ConcSafe ConcSound ConcComplete.
Import ListNotations.
Open Scope Z_scope.

Theorem completeM_fresh : forall hs P, HashFaithful hs -> HashRuleOn P hs -> Region P -> HeurNTOn P ->
  forall jit_of workers d s n nt nb sched,
  P s -> (0 < workers)%nat -> (0 < nt)%nat -> (0 < nb)%nat -> win n (abs s) = true -> (n <= d)%nat ->
  let r := analyze_iterativeM hs jit_of workers d s [] (empty_access nt nb) sched in
  m_outcome r = 0%N /\ (FoundM r \/ NoLineM r).
Proof.
  intros hs P HF HR HReg HH jit_of workers d s n nt nb sched HP Hw Hnt Hnb Hwin Hle.
  destruct HReg as [HPl HPs].
  destruct (TGood_empty hs nt nb Hnt Hnb) as [Hok Hinv].
  destruct (iterativeM_safe hs jit_of workers d s [] (empty_access nt nb) sched HF (HPl s HP) Hok Hinv
              (proj2 (TSafe_empty nt nb Hnt Hnb))) as [H0 _].
  split; [exact H0|].
  exact (completeM_iterative hs P HR (conj HPl HPs) HH jit_of workers d s n nt nb sched HP Hw Hnt Hnb Hwin Hle H0).
Qed.

Theorem completeM_fresh_small_men : forall hs, HashFaithful hs -> HashRuleOn SmallMen hs ->
  forall jit_of workers d s n nt nb sched,
  LegalPos s -> (men s <= 10)%nat -> (0 < workers)%nat -> (0 < nt)%nat -> (0 < nb)%nat ->
  win n (abs s) = true -> (n <= d)%nat ->
  let r := analyze_iterativeM hs jit_of workers d s [] (empty_access nt nb) sched in
  m_outcome r = 0%N /\ (FoundM r \/ NoLineM r).
Proof.
  intros hs HF HR jit_of workers d s n nt nb sched HL Hm.
  exact (completeM_fresh hs SmallMen HF HR SmallMen_region SmallMen_heur jit_of workers d s n nt nb sched (conj HL Hm)).
Qed.
