(* C05, part 3: an explicit bound on the positional part of the heuristic.
   Rational magnitude bounds  fle x n d  ==  |value of x| <= n / d  through the binary32 operations
   (each rounding multiplies the bound by at most R1 / R0 = 1 + 2^-21), zero/non-negativity facts, and then:

     heuristic_bound : WfBoard b -> (forall c, color_count b c <= 16) -> (forall c, count b c King <= 1) ->
        |heuristic b p| <= |term_worths b p - term_worths b (opp p)| + 2516
     heuristic_nonterminal : ... -> |term_worths b p - term_worths b (opp p)| <= 7483 ->
        is_terminal (heuristic b p) = false

   The material hypothesis cannot be dropped: see the counterexample in props/C05.v. *)
From WV Require Import Types Bits Attacks Board MoveEnc MoveGen Rules Abs Wf Encode Eval.
From WV Require Import BitsProofs BoardProofs BoardAlg ApplyProofs LegalPosProofs GenPieces GenPawns.
From WV Require Import EvalF32 EvalShortcut EvalProofs EvalMirror.
From Coq Require Import Lia ZifyBool ZifyN ZifyNat.
Import WV.Bits.
Ltac Zify.zify_post_hook ::= Z.div_mod_to_equations.
Open Scope Z_scope.
Arguments N.add : simpl never.
Arguments N.sub : simpl never.
Arguments N.mul : simpl never.
Arguments N.land : simpl never.
Arguments N.lor : simpl never.
Arguments Z.add : simpl never.
Arguments Z.sub : simpl never.
Arguments Z.mul : simpl never.
Arguments Z.pow : simpl never.

(* ====================================================================== *)
(* rational magnitude bounds                                              *)
(* ====================================================================== *)

Definition R0 : Z := 2 ^ 21.
Definition R1 : Z := 2 ^ 21 + 1.
Definition fle (x : f32) (n d : Z) : Prop := Z.abs (fm x) * P2 (fe x) * d <= n * Q2 (fe x).
Definition fnn (x : f32) : Prop := 0 <= fm x.
Definition fge (y : f32) (j : Z) : Prop := j * Q2 (fe y) <= Z.abs (fm y) * P2 (fe y).

Lemma R0_pos : 0 < R0. Proof. reflexivity. Qed.
Lemma R1_pos : 0 < R1. Proof. reflexivity. Qed.

Ltac zc := vm_compute; first [reflexivity | discriminate].

Lemma fle_mono : forall x n d n' d', fle x n d -> 0 < d -> 0 < d' -> n * d' <= n' * d -> fle x n' d'.
Proof.
  intros x n d n' d' H Hd Hd' Hn. unfold fle in *. pose proof (Q2_pos (fe x)) as HQ. pose proof (P2_pos (fe x)) as HP.
  set (A := Z.abs (fm x) * P2 (fe x)) in *. set (Q := Q2 (fe x)) in *.
  assert (HA : 0 <= A) by (unfold A; nia).
  apply (Zmult_le_reg_r _ _ d); [lia|].
  assert (H1 : A * d' * d <= n * Q * d') by nia.
  assert (H2 : n * Q * d' <= n' * Q * d) by nia.
  lia.
Qed.

Lemma fle_zero : fle (mkF 0 0) 0 1.
Proof. unfold fle. cbn [fm fe]. change (Z.abs 0) with 0. lia. Qed.

Theorem rnd_fle : forall a b n d, 0 < b -> 0 < d -> 0 <= n -> Z.abs a * d <= n * b ->
  fle (rnd a b) (n * R1) (d * R0).
Proof.
  intros a b n d Hb Hd Hn Ha. unfold rnd, fle. destruct (Z.eqb_spec a 0) as [E|E].
  - cbn [fm fe]. change (Z.abs 0) with 0. pose proof (Q2_pos 0) as HQ0. pose proof R1_pos as HR1.
    assert (H01 : 0 <= n * R1) by nia. rewrite !Z.mul_0_l. nia.
  - destruct (rnd_mag (Z.abs a) b) as [m e] eqn:Em. cbn [fm fe].
    destruct (rnd_mag_tight (Z.abs a) b m e ltac:(lia) Hb Em) as [Hm Ht].
    assert (Habs : Z.abs (Z.sgn a * m) = m).
    { assert (Hs : Z.sgn a = 1 \/ Z.sgn a = -1) by lia. destruct Hs as [-> | ->]; lia. }
    rewrite Habs. pose proof (P2_pos e) as HP. pose proof (Q2_pos e) as HQ.
    change (2 ^ 21 + 1) with R1 in Ht. change (2 ^ 21) with R0 in Ht. pose proof R0_pos as HR0. pose proof R1_pos as HR1.
    set (X := m * P2 e) in *. set (Y := Q2 e) in *.
    assert (HX : 0 <= X) by (unfold X; nia).
    assert (H1 : X * b * R0 * d <= R1 * Z.abs a * Y * d) by (apply Z.mul_le_mono_nonneg_r; [lia | exact Ht]).
    assert (H2 : R1 * Z.abs a * Y * d <= R1 * Y * (n * b)).
    { replace (R1 * Z.abs a * Y * d) with (R1 * Y * (Z.abs a * d)) by ring.
      apply Z.mul_le_mono_nonneg_l; [nia | exact Ha]. }
    apply (Zmult_le_reg_r _ _ b); [lia|]. nia.
Qed.

Lemma f_of_Z_fle : forall z n, 0 <= n -> Z.abs z <= n -> fle (f_of_Z z) (n * R1) (1 * R0).
Proof. intros z n Hn Hz. unfold f_of_Z. apply rnd_fle; lia. Qed.

Lemma f_neg_fle : forall x n d, fle x n d -> fle (f_neg x) n d.
Proof. intros x n d H. unfold fle, f_neg in *. cbn [fm fe]. rewrite Z.abs_opp. exact H. Qed.

Lemma f_mul_fle : forall x y n1 d1 n2 d2, fle x n1 d1 -> fle y n2 d2 -> 0 < d1 -> 0 < d2 -> 0 <= n1 -> 0 <= n2 ->
  fle (f_mul x y) (n1 * n2 * R1) (d1 * d2 * R0).
Proof.
  intros x y n1 d1 n2 d2 Hx Hy Hd1 Hd2 Hn1 Hn2. unfold f_mul. rewrite frac_eq. unfold fle in Hx, Hy.
  pose proof (PQ_add (fe x) (fe y)) as HI.
  pose proof (P2_pos (fe x)) as Hp1. pose proof (P2_pos (fe y)) as Hp2.
  pose proof (Q2_pos (fe x)) as Hq1. pose proof (Q2_pos (fe y)) as Hq2.
  pose proof (P2_pos (fe x + fe y)) as Hps. pose proof (Q2_pos (fe x + fe y)) as Hqs.
  apply rnd_fle; [assumption | nia | nia |].
  rewrite !Z.abs_mul. rewrite (Z.abs_eq (P2 _)) by lia.
  set (A := Z.abs (fm x)) in *. set (B := Z.abs (fm y)) in *.
  set (P1 := P2 (fe x)) in *. set (P' := P2 (fe y)) in *. set (Q1 := Q2 (fe x)) in *. set (Q' := Q2 (fe y)) in *.
  set (PS := P2 (fe x + fe y)) in *. set (QS := Q2 (fe x + fe y)) in *.
  assert (HA : 0 <= A) by (unfold A; lia). assert (HB : 0 <= B) by (unfold B; lia).
  assert (Hprod : (A * P1 * d1) * (B * P' * d2) <= (n1 * Q1) * (n2 * Q')).
  { apply Z.mul_le_mono_nonneg; nia. }
  assert (E : A * B * PS * (d1 * d2) * (Q1 * Q') = (A * P1 * d1) * (B * P' * d2) * QS).
  { replace (A * B * PS * (d1 * d2) * (Q1 * Q')) with (A * B * (d1 * d2) * (PS * (Q1 * Q'))) by ring.
    rewrite HI. ring. }
  assert (H7 : A * B * PS * (d1 * d2) * (Q1 * Q') <= n1 * n2 * QS * (Q1 * Q')).
  { rewrite E. replace (n1 * n2 * QS * (Q1 * Q')) with ((n1 * Q1) * (n2 * Q') * QS) by ring.
    apply Z.mul_le_mono_nonneg_r; lia. }
  assert (Hqq : 0 < Q1 * Q') by nia.
  apply (Zmult_le_reg_r _ _ (Q1 * Q')); [lia | exact H7].
Qed.

Lemma f_add_fle : forall x y n1 d1 n2 d2, fle x n1 d1 -> fle y n2 d2 -> 0 < d1 -> 0 < d2 -> 0 <= n1 -> 0 <= n2 ->
  fle (f_add x y) ((n1 * d2 + n2 * d1) * R1) (d1 * d2 * R0).
Proof.
  intros x y n1 d1 n2 d2 Hx Hy Hd1 Hd2 Hn1 Hn2. unfold f_add. rewrite !frac_eq. unfold fle in Hx, Hy.
  pose proof (P2_pos (fe x)) as Hp1. pose proof (P2_pos (fe y)) as Hp2.
  pose proof (Q2_pos (fe x)) as Hq1. pose proof (Q2_pos (fe y)) as Hq2.
  apply rnd_fle; [nia | nia | nia |].
  set (P1 := P2 (fe x)) in *. set (P' := P2 (fe y)) in *. set (Q1 := Q2 (fe x)) in *. set (Q' := Q2 (fe y)) in *.
  assert (Ea1 : Z.abs (fm x * P1 * Q') = Z.abs (fm x) * P1 * Q') by (rewrite !Z.abs_mul, (Z.abs_eq P1), (Z.abs_eq Q') by lia; reflexivity).
  assert (Ea2 : Z.abs (fm y * P' * Q1) = Z.abs (fm y) * P' * Q1) by (rewrite !Z.abs_mul, (Z.abs_eq P'), (Z.abs_eq Q1) by lia; reflexivity).
  pose proof (Z.abs_triangle (fm x * P1 * Q') (fm y * P' * Q1)) as Ht. rewrite Ea1, Ea2 in Ht.
  set (A := Z.abs (fm x)) in *. set (B := Z.abs (fm y)) in *.
  assert (H1 : A * P1 * Q' * (d1 * d2) <= n1 * d2 * (Q1 * Q')).
  { replace (A * P1 * Q' * (d1 * d2)) with ((A * P1 * d1) * (Q' * d2)) by ring.
    replace (n1 * d2 * (Q1 * Q')) with ((n1 * Q1) * (Q' * d2)) by ring.
    apply Z.mul_le_mono_nonneg_r; nia. }
  assert (H2 : B * P' * Q1 * (d1 * d2) <= n2 * d1 * (Q1 * Q')).
  { replace (B * P' * Q1 * (d1 * d2)) with ((B * P' * d2) * (Q1 * d1)) by ring.
    replace (n2 * d1 * (Q1 * Q')) with ((n2 * Q') * (Q1 * d1)) by ring.
    apply Z.mul_le_mono_nonneg_r; nia. }
  assert (Hdd : 0 < d1 * d2) by nia.
  nia.
Qed.

Lemma f_sub_fle : forall x y n1 d1 n2 d2, fle x n1 d1 -> fle y n2 d2 -> 0 < d1 -> 0 < d2 -> 0 <= n1 -> 0 <= n2 ->
  fle (f_sub x y) ((n1 * d2 + n2 * d1) * R1) (d1 * d2 * R0).
Proof. intros. unfold f_sub. apply f_add_fle; try assumption. apply f_neg_fle. assumption. Qed.

Lemma f_div_fle : forall x y n d j, fle x n d -> fge y j -> 0 < d -> 0 <= n -> 0 < j ->
  fle (f_div x y) (n * R1) (d * j * R0).
Proof.
  intros x y n d j Hx Hy Hd Hn Hj. unfold f_div. rewrite !frac_eq. unfold fle in Hx. unfold fge in Hy.
  pose proof (P2_pos (fe x)) as Hp1. pose proof (P2_pos (fe y)) as Hp2.
  pose proof (Q2_pos (fe x)) as Hq1. pose proof (Q2_pos (fe y)) as Hq2.
  set (P1 := P2 (fe x)) in *. set (P' := P2 (fe y)) in *. set (Q1 := Q2 (fe x)) in *. set (Q' := Q2 (fe y)) in *.
  assert (Hy0 : fm y <> 0) by nia.
  assert (Habs : Z.abs (fm y * P') = Z.abs (fm y) * P') by (rewrite Z.abs_mul, (Z.abs_eq P') by lia; reflexivity).
  assert (Hden : 0 < Q1 * Z.abs (fm y * P')) by nia.
  destruct (Z.eqb_spec (Q1 * Z.abs (fm y * P')) 0) as [E|E]; [lia|].
  apply rnd_fle; [exact Hden | nia | exact Hn |].
  set (a2 := fm y * P') in *.
  assert (Ha2 : a2 <> 0) by (unfold a2; nia).
  assert (Hs : Z.abs (Z.sgn a2) = 1) by lia.
  rewrite !Z.abs_mul, Hs, (Z.abs_eq P1), (Z.abs_eq Q') by lia. rewrite Habs.
  set (A := Z.abs (fm x)) in *. set (B := Z.abs (fm y)) in *.
  replace (A * P1 * Q' * 1 * (d * j)) with ((A * P1 * d) * (j * Q')) by ring.
  replace (n * (Q1 * (B * P'))) with ((n * Q1) * (B * P')) by ring.
  apply Z.mul_le_mono_nonneg; unfold A; nia.
Qed.

Lemma f_to_i32_fle : forall x n d, fle x n d -> 0 < d -> Z.abs (f_to_i32 x) * d <= n.
Proof.
  intros x n d H Hd. unfold f_to_i32. rewrite frac_eq. unfold fle in H.
  pose proof (P2_pos (fe x)) as HP. pose proof (Q2_pos (fe x)) as HQ.
  set (a := fm x * P2 (fe x)) in *. set (b := Q2 (fe x)) in *.
  assert (Ha : Z.abs a * d <= n * b) by (unfold a; rewrite Z.abs_mul, (Z.abs_eq (P2 _)) by lia; exact H).
  assert (Hq : Z.abs (Z.quot a b) * b <= Z.abs a).
  { rewrite <- (Z.quot_abs a b) by lia. rewrite (Z.abs_eq b) by lia.
    pose proof (Z.mul_quot_le (Z.abs a) b ltac:(lia) ltac:(lia)) as Hm. lia. }
  set (t := Z.quot a b) in *.
  assert (Ht : Z.abs t * d <= n).
  { apply (Zmult_le_reg_r _ _ b); [lia|]. nia. }
  assert (Hc : Z.abs (Z.max (-2147483648) (Z.min 2147483647 t)) <= Z.abs t) by lia.
  nia.
Qed.

(* (e as f32 * w) as i32, bounded by an integer B *)
Lemma emul_f_fle : forall e w K n d B, 0 <= K -> Z.abs e <= K -> fle w n d -> 0 < d -> 0 <= n ->
  K * R1 * n * R1 < (B + 1) * (1 * R0 * d * R0) -> Z.abs (emul_f e w) <= B.
Proof.
  intros e w K n d B HK He Hw Hd Hn HB. unfold emul_f.
  pose proof (f_of_Z_fle e K HK He) as H1. pose proof R0_pos as HR0. pose proof R1_pos as HR1.
  pose proof (f_mul_fle _ _ _ _ _ _ H1 Hw ltac:(lia) Hd ltac:(nia) Hn) as H2.
  pose proof (f_to_i32_fle _ _ _ H2 ltac:(nia)) as H3.
  set (r := f_to_i32 _) in *.
  assert (HD : 0 < 1 * R0 * d * R0) by nia.
  destruct (Z_le_gt_dec (Z.abs r) B) as [L|G]; [exact L|]. exfalso.
  assert (Z.abs r * (1 * R0 * d * R0) >= (B + 1) * (1 * R0 * d * R0)) by nia. lia.
Qed.

(* exact zeros *)
Lemma f_sub_self : forall x, f_sub x x = mkF 0 0.
Proof.
  intros x. unfold f_sub, f_add, f_neg. cbn [fm fe]. rewrite !frac_eq.
  replace (fm x * P2 (fe x) * Q2 (fe x) + - fm x * P2 (fe x) * Q2 (fe x)) with 0 by ring.
  reflexivity.
Qed.

Lemma f_mul_zero_l : forall y, f_mul (mkF 0 0) y = mkF 0 0.
Proof. intros y. unfold f_mul. cbn [fm fe]. rewrite frac_eq. rewrite !Z.mul_0_l. reflexivity. Qed.

(* non-negativity *)
Lemma rnd_fnn : forall a b, 0 <= a -> 0 < b -> fnn (rnd a b).
Proof.
  intros a b Ha Hb. unfold rnd, fnn. destruct (Z.eqb_spec a 0) as [E|E]; [cbn [fm]; lia|].
  destruct (rnd_mag (Z.abs a) b) as [m e] eqn:Em. cbn [fm].
  destruct (rnd_mag_tight (Z.abs a) b m e ltac:(lia) Hb Em) as [Hm _].
  rewrite Z.sgn_pos by lia. lia.
Qed.

Lemma f_of_Z_fnn : forall z, 0 <= z -> fnn (f_of_Z z).
Proof. intros z Hz. unfold f_of_Z. apply rnd_fnn; lia. Qed.

Lemma f_mul_fnn : forall x y, fnn x -> fnn y -> fnn (f_mul x y).
Proof.
  intros x y Hx Hy. unfold f_mul. rewrite frac_eq. unfold fnn in *.
  pose proof (P2_pos (fe x + fe y)). pose proof (Q2_pos (fe x + fe y)). apply rnd_fnn; nia.
Qed.

Lemma f_add_fnn : forall x y, fnn x -> fnn y -> fnn (f_add x y).
Proof.
  intros x y Hx Hy. unfold f_add. rewrite !frac_eq. unfold fnn in *.
  pose proof (P2_pos (fe x)). pose proof (P2_pos (fe y)). pose proof (Q2_pos (fe x)). pose proof (Q2_pos (fe y)).
  apply rnd_fnn; nia.
Qed.

Lemma f_div_fnn : forall x y, fnn x -> 0 < fm y -> fnn (f_div x y).
Proof.
  intros x y Hx Hy. unfold f_div. rewrite !frac_eq. unfold fnn in *.
  pose proof (P2_pos (fe x)). pose proof (P2_pos (fe y)). pose proof (Q2_pos (fe x)). pose proof (Q2_pos (fe y)).
  assert (Hs : Z.sgn (fm y * P2 (fe y)) = 1) by (apply Z.sgn_pos; nia).
  rewrite Hs. rewrite (Z.abs_eq (fm y * P2 (fe y))) by nia.
  destruct (Z.eqb_spec (Q2 (fe x) * (fm y * P2 (fe y))) 0) as [E|E]; [cbn [fm]; lia|].
  apply rnd_fnn; nia.
Qed.

(* 1 - X for 0 <= X <= n/d, n/d >= 2 *)
Lemma f_one_sub_fle : forall o X n d, fm o * P2 (fe o) = Q2 (fe o) -> fle X n d -> fnn X -> 0 < d -> 2 * d <= n ->
  fle (f_sub o X) ((n - d) * R1) (d * R0).
Proof.
  intros o X n d Ho HX Hnn Hd Hn. unfold f_sub, f_add, f_neg. cbn [fm fe]. rewrite !frac_eq. unfold fle in HX. unfold fnn in Hnn.
  pose proof (P2_pos (fe X)) as Hp. pose proof (Q2_pos (fe X)) as Hq. pose proof (Q2_pos (fe o)) as Hqo.
  rewrite Ho. set (u := Q2 (fe o)) in *. set (P := P2 (fe X)) in *. set (Q := Q2 (fe X)) in *.
  rewrite (Z.abs_eq (fm X)) in HX by exact Hnn.
  apply rnd_fle; [nia | exact Hd | lia |].
  replace (u * Q + - fm X * P * u) with (u * (Q - fm X * P)) by ring.
  rewrite Z.abs_mul, (Z.abs_eq u) by lia.
  assert (Hcase : Z.abs (Q - fm X * P) * d <= (n - d) * Q).
  { destruct (Z_le_gt_dec (fm X * P) Q) as [L|G].
    - rewrite Z.abs_eq by lia. assert (0 <= fm X * P) by nia. nia.
    - rewrite Z.abs_neq by lia. nia. }
  replace (u * Z.abs (Q - fm X * P) * d) with (u * (Z.abs (Q - fm X * P) * d)) by ring.
  replace ((n - d) * (u * Q)) with (u * ((n - d) * Q)) by ring.
  apply Z.mul_le_mono_nonneg_l; lia.
Qed.

(* ====================================================================== *)
(* the end-game weight with at most 16 men per side                       *)
(* ====================================================================== *)

Lemma color_count_eq : forall b c,
  color_count b c = count b c Pawn + count b c Knight + count b c Bishop + count b c Rook + count b c Queen + count b c King.
Proof. intros b c. unfold color_count, all_pieces. cbn [fold_left]. ring. Qed.

Lemma count_nonneg : forall b c p, 0 <= count b c p.
Proof. intros b c p. unfold count. lia. Qed.

Lemma count_le_men : forall b c p, color_count b c <= 16 -> 0 <= count b c p <= 16.
Proof.
  intros b c p H. rewrite color_count_eq in H.
  pose proof (count_nonneg b c Pawn). pose proof (count_nonneg b c Knight). pose proof (count_nonneg b c Bishop).
  pose proof (count_nonneg b c Rook). pose proof (count_nonneg b c Queen). pose proof (count_nonneg b c King).
  destruct p; try lia. unfold count. cbn [pocc]. destruct c; cbn; lia.
Qed.

Ltac fconstq := unfold fle, fge, fnn; first [apply Z.leb_le | apply Z.ltb_lt]; vm_compute; reflexivity.

Lemma egw_bound16 : forall b, WfBoard b -> (forall c, color_count b c <= 16) -> fle (end_game_weight b) 39 10.
Proof.
  intros b Hwf Hmen. unfold end_game_weight. cbv zeta.
  assert (Hboth : forall p, fle (f_of_Z (count b White p + count b Black p)) (32 * R1) (1 * R0) /\
                            fnn (f_of_Z (count b White p + count b Black p))).
  { intros p. pose proof (count_le_men b White p (Hmen White)). pose proof (count_le_men b Black p (Hmen Black)).
    split; [apply f_of_Z_fle; lia | apply f_of_Z_fnn; lia]. }
  assert (Hocc : fle (f_of_Z (Z.of_N (count_ones (occupancy b)))) (64 * R1) (1 * R0) /\
                 fnn (f_of_Z (Z.of_N (count_ones (occupancy b))))).
  { pose proof (count_ones_le64 _ (occupancy_lt b Hwf)). split; [apply f_of_Z_fle; lia | apply f_of_Z_fnn; lia]. }
  set (k0 := f_of_dec (nthZ egw_consts 0%nat (0, 1))). set (k1 := f_of_dec (nthZ egw_consts 1%nat (0, 1))).
  set (k2 := f_of_dec (nthZ egw_consts 2%nat (0, 1))). set (k3 := f_of_dec (nthZ egw_consts 3%nat (0, 1))).
  set (k4 := f_of_dec (nthZ egw_consts 4%nat (0, 1))). set (k5 := f_of_dec (nthZ egw_consts 5%nat (0, 1))).
  assert (Hw1 : fle k0 3 1) by fconstq. assert (Hw2 : fle k2 1 1) by fconstq. assert (Hw3 : fle k4 1 1) by fconstq.
  assert (Nw1 : fnn k0) by fconstq. assert (Nw2 : fnn k2) by fconstq. assert (Nw3 : fnn k4) by fconstq.
  assert (Hd1 : fge k1 16) by fconstq. assert (Hd2 : fge k3 2) by fconstq. assert (Hd3 : fge k5 32) by fconstq.
  assert (Pd1 : 0 < fm k1) by fconstq. assert (Pd2 : 0 < fm k3) by fconstq. assert (Pd3 : 0 < fm k5) by fconstq.
  assert (Hden : fge (f_add (f_add k0 k2) k4) 5) by fconstq.
  assert (Pden : 0 < fm (f_add (f_add k0 k2) k4)) by fconstq.
  assert (Hone : fm (f_of_Z 1) * P2 (fe (f_of_Z 1)) = Q2 (fe (f_of_Z 1))) by (vm_compute; reflexivity).
  destruct (Hboth Pawn) as [BP NP]. destruct (Hboth Queen) as [BQ NQ]. destruct Hocc as [BO NO].
  set (xP := f_of_Z (count b White Pawn + count b Black Pawn)) in *.
  set (xQ := f_of_Z (count b White Queen + count b Black Queen)) in *.
  set (xO := f_of_Z (Z.of_N (count_ones (occupancy b)))) in *.
  (* v1 <= 2.0001, v2 <= 16.0001, v3 <= 2.0001 *)
  pose proof (fle_mono _ _ _ 20001 10000 (f_div_fle xP k1 _ _ 16 BP Hd1 ltac:(zc) ltac:(zc) ltac:(zc)) ltac:(zc) ltac:(zc) ltac:(zc)) as V1.
  pose proof (fle_mono _ _ _ 160001 10000 (f_div_fle xQ k3 _ _ 2 BQ Hd2 ltac:(zc) ltac:(zc) ltac:(zc)) ltac:(zc) ltac:(zc) ltac:(zc)) as V2.
  pose proof (fle_mono _ _ _ 20001 10000 (f_div_fle xO k5 _ _ 32 BO Hd3 ltac:(zc) ltac:(zc) ltac:(zc)) ltac:(zc) ltac:(zc) ltac:(zc)) as V3.
  pose proof (f_div_fnn xP k1 NP Pd1) as NV1. pose proof (f_div_fnn xQ k3 NQ Pd2) as NV2. pose proof (f_div_fnn xO k5 NO Pd3) as NV3.
  pose proof (fle_mono _ _ _ 60004 10000 (f_mul_fle _ _ _ _ _ _ Hw1 V1 ltac:(zc) ltac:(zc) ltac:(zc) ltac:(zc)) ltac:(zc) ltac:(zc) ltac:(zc)) as M1.
  pose proof (fle_mono _ _ _ 160002 10000 (f_mul_fle _ _ _ _ _ _ Hw2 V2 ltac:(zc) ltac:(zc) ltac:(zc) ltac:(zc)) ltac:(zc) ltac:(zc) ltac:(zc)) as M2.
  pose proof (fle_mono _ _ _ 20002 10000 (f_mul_fle _ _ _ _ _ _ Hw3 V3 ltac:(zc) ltac:(zc) ltac:(zc) ltac:(zc)) ltac:(zc) ltac:(zc) ltac:(zc)) as M3.
  pose proof (f_mul_fnn _ _ Nw1 NV1) as NM1. pose proof (f_mul_fnn _ _ Nw2 NV2) as NM2. pose proof (f_mul_fnn _ _ Nw3 NV3) as NM3.
  pose proof (fle_mono _ _ _ 220008 10000 (f_add_fle _ _ _ _ _ _ M1 M2 ltac:(zc) ltac:(zc) ltac:(zc) ltac:(zc)) ltac:(zc) ltac:(zc) ltac:(zc)) as A1.
  pose proof (f_add_fnn _ _ NM1 NM2) as NA1.
  pose proof (fle_mono _ _ _ 240012 10000 (f_add_fle _ _ _ _ _ _ A1 M3 ltac:(zc) ltac:(zc) ltac:(zc) ltac:(zc)) ltac:(zc) ltac:(zc) ltac:(zc)) as A2.
  pose proof (f_add_fnn _ _ NA1 NM3) as NA2.
  pose proof (fle_mono _ _ _ 48004 10000 (f_div_fle _ _ _ _ 5 A2 Hden ltac:(zc) ltac:(zc) ltac:(zc)) ltac:(zc) ltac:(zc) ltac:(zc)) as Q.
  pose proof (f_div_fnn _ _ NA2 Pden) as NQ'.
  pose proof (f_one_sub_fle (f_of_Z 1) _ 48004 10000 Hone Q NQ' ltac:(zc) ltac:(zc)) as S.
  exact (fle_mono _ _ _ 39 10 S ltac:(zc) ltac:(zc) ltac:(zc)).
Qed.

(* ====================================================================== *)
(* piece-square values                                                    *)
(* ====================================================================== *)

Lemma psq_maps_same : forall p, p <> King ->
  fst (nthZ piece_square_map (N.to_nat (piece_to_N p)) (zero_map, zero_map)) =
  snd (nthZ piece_square_map (N.to_nat (piece_to_N p)) (zero_map, zero_map)).
Proof. intros p Hp. destruct p; try reflexivity. contradiction Hp. reflexivity. Qed.

Lemma piece_square_nonking : forall p sq c egw, p <> King -> Z.abs (piece_square p sq c egw) <= 50.
Proof.
  intros p sq c egw Hp. unfold piece_square. cbv zeta. rewrite <- (psq_maps_same p Hp).
  set (idx := N.to_nat (flip_rank (if is_white c then sq else flip_rank sq))).
  destruct (psq_entry_bound p idx) as [H1 _].
  set (e1 := nthZ (fst (nthZ piece_square_map (N.to_nat (piece_to_N p)) (zero_map, zero_map))) idx 0) in *.
  rewrite f_sub_self, f_mul_zero_l.
  pose proof (f_of_Z_fle e1 50 ltac:(lia) H1) as F1.
  pose proof (f_add_fle _ _ _ _ _ _ fle_zero F1 ltac:(lia) ltac:(zc) ltac:(lia) ltac:(zc)) as Fa.
  pose proof (f_to_i32_fle _ _ _ Fa ltac:(zc)) as Hr.
  set (r := f_to_i32 _) in *. unfold R0, R1 in Hr. lia.
Qed.

Lemma piece_square_king : forall sq c egw, fle egw 39 10 -> Z.abs (piece_square King sq c egw) <= 440.
Proof.
  intros sq c egw Hegw. unfold piece_square. cbv zeta.
  set (idx := N.to_nat (flip_rank (if is_white c then sq else flip_rank sq))).
  destruct (psq_entry_bound King idx) as [H1 H2].
  set (e1 := nthZ (fst (nthZ piece_square_map (N.to_nat (piece_to_N King)) (zero_map, zero_map))) idx 0) in *.
  set (e2 := nthZ (snd (nthZ piece_square_map (N.to_nat (piece_to_N King)) (zero_map, zero_map))) idx 0) in *.
  pose proof (f_of_Z_fle e1 50 ltac:(lia) H1) as F1. pose proof (f_of_Z_fle e2 50 ltac:(lia) H2) as F2.
  pose proof (fle_mono _ _ _ 1000001 10000 (f_sub_fle _ _ _ _ _ _ F2 F1 ltac:(zc) ltac:(zc) ltac:(zc) ltac:(zc)) ltac:(zc) ltac:(zc) ltac:(zc)) as Fs.
  pose proof (fle_mono _ _ _ 3900010 10000 (f_mul_fle _ _ _ _ _ _ Fs Hegw ltac:(zc) ltac:(zc) ltac:(zc) ltac:(zc)) ltac:(zc) ltac:(zc) ltac:(zc)) as Fm.
  pose proof (fle_mono _ _ _ 4400020 10000 (f_add_fle _ _ _ _ _ _ Fm F1 ltac:(zc) ltac:(zc) ltac:(zc) ltac:(zc)) ltac:(zc) ltac:(zc) ltac:(zc)) as Fa.
  pose proof (f_to_i32_fle _ _ _ Fa ltac:(zc)) as Hr.
  set (r := f_to_i32 _) in *. lia.
Qed.

Lemma zsum_bound : forall (A : Type) (g : A -> Z) (K : Z) l, 0 <= K -> (forall x, In x l -> Z.abs (g x) <= K) ->
  Z.abs (zsum g l) <= Z.of_nat (length l) * K.
Proof.
  intros A g K l HK H. induction l as [|x tl IH]; cbn [zsum fold_right length]; [cbn; lia|].
  fold (zsum g tl). pose proof (H x (or_introl eq_refl)) as H1.
  pose proof (IH (fun y Hy => H y (or_intror Hy))) as H2. rewrite Nat2Z.inj_succ. lia.
Qed.

Lemma slot_len : forall b c p, Z.of_nat (length (iter_ones (pocc b c p))) = count b c p.
Proof. intros b c p. unfold count, count_ones. lia. Qed.

Lemma term_squares_bound16 : forall b c egw, fle egw 39 10 ->
  Z.abs (term_squares b c egw) <= 50 * (color_count b c - count b c King) + 440 * count b c King.
Proof.
  intros b c egw Hegw. rewrite term_squares_eq, color_count_eq. unfold all_pieces. cbn [zsum fold_right].
  assert (Hnk : forall p, p <> King ->
            Z.abs (zsum (fun sq => piece_square p sq c egw) (iter_ones (pocc b c p))) <= count b c p * 50).
  { intros p Hp. rewrite <- slot_len. apply zsum_bound; [lia|]. intros x _. exact (piece_square_nonking p x c egw Hp). }
  assert (Hk : Z.abs (zsum (fun sq => piece_square King sq c egw) (iter_ones (pocc b c King))) <= count b c King * 440).
  { rewrite <- slot_len. apply zsum_bound; [lia|]. intros x _. exact (piece_square_king x c egw Hegw). }
  pose proof (Hnk Pawn ltac:(discriminate)) as HP. pose proof (Hnk Knight ltac:(discriminate)) as HN.
  pose proof (Hnk Bishop ltac:(discriminate)) as HB. pose proof (Hnk Rook ltac:(discriminate)) as HR.
  pose proof (Hnk Queen ltac:(discriminate)) as HQ.
  lia.
Qed.

(* ====================================================================== *)
(* king to edge                                                           *)
(* ====================================================================== *)

Lemma term_king_edge_bound16 : forall b c egw, WfBoard b -> fle egw 39 10 ->
  Z.abs (term_king_edge b c egw) <= 234.
Proof.
  intros b c egw Hwf Hegw. unfold term_king_edge.
  destruct (f_ltb egw (f_of_dec king_edge_threshold)); [cbn; lia|].
  destruct (color_count b c <? color_count b (opp c) + 1); [cbn; lia|].
  destruct (first_one (pocc b c King)) as [ours|] eqn:Eo; [|cbn; lia].
  destruct (first_one (pocc b (opp c) King)) as [theirs|] eqn:Et; [|cbn; lia].
  cbv zeta.
  destruct (square_coords _ _ (pocc_lt b c King Hwf) Eo) as [Ho1 Ho2].
  destruct (square_coords _ _ (pocc_lt b (opp c) King Hwf) Et) as [Ht1 Ht2].
  change (nthZ king_edge_consts 0%nat 0) with 6. change (nthZ king_edge_consts 1%nat 0) with 10.
  unfold zabs_dist. change (Z.of_N 0) with 0. change (Z.of_N 7) with 7.
  set (e := 10 * _ - _).
  assert (He : Z.abs e <= 60) by (unfold e; lia).
  apply (emul_f_fle e egw 60 39 10 234 ltac:(lia) He Hegw ltac:(lia) ltac:(lia)). zc.
Qed.

(* ====================================================================== *)
(* the bound                                                              *)
(* ====================================================================== *)

Lemma weight_values : fle (weight 0) 1 1 /\ fle (weight 1) 13421773 16777216 /\ fle (weight 2) 1 1 /\
                      fle (weight 3) 13421773 67108864.
Proof. repeat split; fconstq. Qed.

Definition B_pos : Z := 2516.

Theorem heuristic_bound : forall b p, WfBoard b -> (forall c, color_count b c <= 16) -> (forall c, count b c King <= 1) ->
  Z.abs (heuristic b p) <= Z.abs (term_worths b p - term_worths b (opp p)) + B_pos.
Proof.
  intros b p Hwf Hmen Hk. unfold heuristic, B_pos. cbv zeta.
  pose proof (egw_bound16 b Hwf Hmen) as Hegw.
  destruct weight_values as (W0 & W1 & W2 & W3).
  (* t0 *)
  pose proof (term_worths_eq b p) as E0. pose proof (term_worths_eq b (opp p)) as E0'.
  assert (Ht0 : Z.abs (term_worths b p - term_worths b (opp p)) <= 160000).
  { pose proof (Hmen p) as M1. pose proof (Hmen (opp p)) as M2. rewrite color_count_eq in M1, M2.
    pose proof (count_nonneg b p Pawn). pose proof (count_nonneg b p Knight). pose proof (count_nonneg b p Bishop).
    pose proof (count_nonneg b p Rook). pose proof (count_nonneg b p Queen). pose proof (count_nonneg b p King).
    pose proof (count_nonneg b (opp p) Pawn). pose proof (count_nonneg b (opp p) Knight).
    pose proof (count_nonneg b (opp p) Bishop). pose proof (count_nonneg b (opp p) Rook).
    pose proof (count_nonneg b (opp p) Queen). pose proof (count_nonneg b (opp p) King). lia. }
  set (t0 := term_worths b p - term_worths b (opp p)) in *.
  assert (H0 : Z.abs (emul_f t0 (weight 0)) <= Z.abs t0).
  { apply (emul_f_fle t0 (weight 0) (Z.abs t0) 1 1 (Z.abs t0) ltac:(lia) ltac:(lia) W0 ltac:(lia) ltac:(lia)).
    unfold R0, R1. lia. }
  (* t1 *)
  pose proof (term_squares_bound16 b p _ Hegw) as S1. pose proof (term_squares_bound16 b (opp p) _ Hegw) as S1'.
  assert (Ht1 : Z.abs (term_squares b p (end_game_weight b) - term_squares b (opp p) (end_game_weight b)) <= 2380).
  { pose proof (Hmen p). pose proof (Hmen (opp p)). pose proof (Hk p). pose proof (Hk (opp p)).
    pose proof (count_nonneg b p King). pose proof (count_nonneg b (opp p) King). lia. }
  pose proof (emul_f_fle _ (weight 1) 2380 _ _ 1904 ltac:(lia) Ht1 W1 ltac:(zc) ltac:(zc) ltac:(zc)) as H1.
  (* t2 *)
  pose proof (term_king_edge_bound16 b p _ Hwf Hegw) as K2. pose proof (term_king_edge_bound16 b (opp p) _ Hwf Hegw) as K2'.
  assert (Ht2 : Z.abs (term_king_edge b p (end_game_weight b) - term_king_edge b (opp p) (end_game_weight b)) <= 468) by lia.
  pose proof (emul_f_fle _ (weight 2) 468 _ _ 468 ltac:(lia) Ht2 W2 ltac:(zc) ltac:(zc) ltac:(zc)) as H2.
  (* t3 *)
  pose proof (term_bad_pawns_bound b p) as P3. pose proof (term_bad_pawns_bound b (opp p)) as P3'.
  assert (Ht3 : Z.abs (term_bad_pawns b p - term_bad_pawns b (opp p)) <= 720) by lia.
  pose proof (emul_f_fle _ (weight 3) 720 _ _ 144 ltac:(lia) Ht3 W3 ltac:(zc) ltac:(zc) ltac:(zc)) as H3.
  clear - H0 H1 H2 H3. lia.
Qed.

Theorem heuristic_nonterminal : forall b p, WfBoard b -> (forall c, color_count b c <= 16) ->
  (forall c, count b c King <= 1) ->
  Z.abs (term_worths b p - term_worths b (opp p)) <= 7483 ->
  is_terminal (heuristic b p) = false.
Proof.
  intros b p Hwf Hmen Hk Hm. pose proof (heuristic_bound b p Hwf Hmen Hk) as H. unfold B_pos in H.
  unfold is_terminal. change NEG_INF with (-10000). change POS_INF with 10000. lia.
Qed.

(* with one king each the material term is the usual material balance *)
Lemma material_balance : forall b p, count b p King = count b (opp p) King ->
  term_worths b p - term_worths b (opp p) =
  100 * (count b p Pawn - count b (opp p) Pawn) + 300 * (count b p Knight - count b (opp p) Knight)
  + 350 * (count b p Bishop - count b (opp p) Bishop) + 500 * (count b p Rook - count b (opp p) Rook)
  + 900 * (count b p Queen - count b (opp p) Queen).
Proof. intros b p H. rewrite !term_worths_eq, H. ring. Qed.

Theorem eval_nonterminal : forall s p d, LegalPos s -> gen_legal s <> [] ->
  (forall c, color_count (st_board s) c <= 16) ->
  Z.abs (term_worths (st_board s) p - term_worths (st_board s) (opp p)) <= 7483 ->
  exists v, evaluate s p d = EVal v /\ is_terminal v = false.
Proof.
  intros s p d HL Hg Hmen Hm. destruct (legal_pos_wf s HL) as [Hwf _].
  exists (heuristic (st_board s) p). split; [exact (eval_has_move s p d HL Hg)|].
  apply heuristic_nonterminal; [exact (wf_state_board s Hwf) | exact Hmen | | exact Hm].
  intros c. rewrite (legal_one_king s c HL). lia.
Qed.


(* the material hypothesis cannot be dropped: K+9Q+2R+2B+2N against a lone king
   ("k7/8/8/8/8/1BBNN3/1QQQQR1R/1QQQKQQ1 w - - 0 60") is a legal position with 56 legal moves and static
   score 10388 >= POS_INF *)
Theorem nonterminal_counterexample :
  ~ (forall s p d, LegalPos s -> gen_legal s <> [] ->
       exists v, evaluate s p d = EVal v /\ is_terminal v = false).
Proof.
  intros H.
  pose (big := mkState (mkBoard 0 1572864 393216 40960 7790 16 0 0 0 0 0 72057594037927936)
                       White false false false false None 0 60).
  assert (E : legal_posb big = true /\ length (gen_legal big) = 56%nat /\ evaluate big White 0 = EVal 10388)
    by (vm_compute; repeat split).
  destruct E as (E1 & E2 & E3).
  destruct (H big White 0%N E1) as [v [Hv Ht]].
  - intros En. rewrite En in E2. discriminate E2.
  - rewrite E3 in Hv. injection Hv as <-. vm_compute in Ht. discriminate Ht.
Qed.

Print Assumptions heuristic_bound.
Print Assumptions eval_nonterminal.
Print Assumptions nonterminal_counterexample.
