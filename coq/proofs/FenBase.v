(* FEN reader/writer, part 1: totality of the reader (C14, FEN part), decimal counters,
   character classes and field splitting. *)
From WV Require Import Text Wf FenSpec BitsProofs.
From Coq Require Import Lia ZifyBool ZifyN ZifyNat DecimalN DecimalPos.
Ltac Zify.zify_post_hook ::= Z.div_mod_to_equations.
Open Scope N_scope.
Arguments N.add : simpl never.
Arguments N.sub : simpl never.
Arguments N.mul : simpl never.
Arguments N.land : simpl never.
Arguments N.lor : simpl never.
Arguments N.shiftl : simpl never.
Arguments N.shiftr : simpl never.

(* ------------------------------------------------------------------ C14: no panic *)

Lemma flip_le63 : forall loc, loc <= 63 -> mk_square (7 - rank_of loc) (file_of loc) <= 63.
Proof. intros loc H. unfold mk_square, rank_of, file_of. lia. Qed.

Lemma flip_mk : forall r f, r <= 7 -> f <= 7 ->
  mk_square (7 - rank_of (8 * (7 - r) + f)) (file_of (8 * (7 - r) + f)) = mk_square r f.
Proof. intros r f Hr Hf. unfold mk_square, rank_of, file_of. lia. Qed.

Lemma placement_total : forall l loc b k, parse_placement l loc b <> Panic k.
Proof.
  induction l as [|c tl IH]; intros loc b k; cbn [parse_placement].
  - discriminate.
  - destruct ((ch_1 <=? c) && (c <=? ch_8)).
    + destruct (255 <? loc + (c - ch_0)); [discriminate | apply IH].
    + destruct (c =? ch_space); [discriminate|].
      destruct (c =? ch_slash); [apply IH|].
      destruct (fen_piece_of_char c) as [[col p]|]; [|discriminate].
      destruct (63 <? loc) eqn:Hloc; [discriminate|].
      apply N.ltb_ge in Hloc.
      pose proof (flip_le63 loc Hloc) as Hsq.
      destruct (63 <? mk_square (7 - rank_of loc) (file_of loc)) eqn:Hs.
      * apply N.ltb_lt in Hs. lia.
      * destruct (255 <? loc + 1) eqn:Hc.
        -- apply N.ltb_lt in Hc. lia.
        -- apply IH.
Qed.

Lemma placement_total_u8 : forall l loc b k, loc <= 255 -> parse_placement l loc b <> Panic k.
Proof. intros l loc b k _. apply placement_total. Qed.

(* the reader, in terms of per-field functions *)
Definition read_turn (f2 : text) : option color :=
  match f2 with
  | [c] => if c =? ch_w then Some White else if c =? ch_b then Some Black else None
  | _ => None end.
Definition read_ep (f4 : text) : option (option N) :=
  match f4 with [45] => Some None
           | _ => match parse_square f4 with Some t => Some (Some t) | None => None end end.
Definition nonempty (f : text) : bool := match f with [] => false | _ => true end.

Definition read_fields (f1 f2 f3 f4 f5 f6 : text) : result state :=
  if gate_placement f1 && gate_turn f2 && gate_castle f3 && gate_ep f4 && nonempty f5 && nonempty f6
  then
    match parse_placement f1 0 empty_board with
    | Err => Err
    | Panic k => Panic k
    | Ok b =>
      match read_turn f2 with
      | None => Err
      | Some turn =>
        match parse_castle f3 with
        | None => Err
        | Some (wk, wq, bk, bq) =>
          match read_ep f4 with
          | None => Err
          | Some ep =>
            match parse_usize f5, parse_usize f6 with
            | Some h, Some fl => Ok (mkState b turn wk wq bk bq ep h fl)
            | _, _ => Err
            end
          end
        end
      end
    end
  else Err.

Lemma fen_read_fields : forall str f1 f2 f3 f4 f5 f6,
  split_on is_ws str [] = [f1; f2; f3; f4; f5; f6] -> fen_read str = read_fields f1 f2 f3 f4 f5 f6.
Proof. intros str f1 f2 f3 f4 f5 f6 H. unfold fen_read. rewrite H. reflexivity. Qed.

Lemma fen_read_not_fields : forall str,
  (forall f1 f2 f3 f4 f5 f6, split_on is_ws str [] <> [f1; f2; f3; f4; f5; f6]) -> fen_read str = Err.
Proof.
  intros str H. unfold fen_read.
  destruct (split_on is_ws str []) as [|f1 [|f2 [|f3 [|f4 [|f5 [|f6 [|f7 r]]]]]]]; try reflexivity.
  exfalso. eapply H. reflexivity.
Qed.

Lemma fen_read_cases : forall str,
  fen_read str = Err \/ exists f1 f2 f3 f4 f5 f6,
    split_on is_ws str [] = [f1; f2; f3; f4; f5; f6] /\ fen_read str = read_fields f1 f2 f3 f4 f5 f6.
Proof.
  intros str.
  destruct (split_on is_ws str []) as [|f1 [|f2 [|f3 [|f4 [|f5 [|f6 [|f7 r]]]]]]] eqn:E;
    try (left; unfold fen_read; rewrite E; reflexivity).
  right. exists f1, f2, f3, f4, f5, f6. split; [reflexivity|]. apply fen_read_fields. exact E.
Qed.

Lemma read_fields_total : forall f1 f2 f3 f4 f5 f6 k, read_fields f1 f2 f3 f4 f5 f6 <> Panic k.
Proof.
  intros f1 f2 f3 f4 f5 f6 k. unfold read_fields.
  destruct (gate_placement f1 && gate_turn f2 && gate_castle f3 && gate_ep f4 && nonempty f5 && nonempty f6);
    [|discriminate].
  destruct (parse_placement f1 0 empty_board) as [b| |k'] eqn:E.
  - destruct (read_turn f2); [|discriminate].
    destruct (parse_castle f3) as [[[[wk wq] bk] bq]|]; [|discriminate].
    destruct (read_ep f4); [|discriminate].
    destruct (parse_usize f5); [|discriminate].
    destruct (parse_usize f6); discriminate.
  - discriminate.
  - exfalso. exact (placement_total _ _ _ _ E).
Qed.

Theorem fen_total : forall str k, fen_read str <> Panic k.
Proof.
  intros str k. destruct (fen_read_cases str) as [E | (f1 & f2 & f3 & f4 & f5 & f6 & _ & E)]; rewrite E.
  - discriminate.
  - apply read_fields_total.
Qed.

(* ------------------------------------------------------------------ decimal counters *)

Fixpoint uval (u : Decimal.uint) (acc : N) : N :=
  match u with
  | Decimal.Nil => acc
  | Decimal.D0 r => uval r (acc * 10 + 0) | Decimal.D1 r => uval r (acc * 10 + 1)
  | Decimal.D2 r => uval r (acc * 10 + 2) | Decimal.D3 r => uval r (acc * 10 + 3)
  | Decimal.D4 r => uval r (acc * 10 + 4) | Decimal.D5 r => uval r (acc * 10 + 5)
  | Decimal.D6 r => uval r (acc * 10 + 6) | Decimal.D7 r => uval r (acc * 10 + 7)
  | Decimal.D8 r => uval r (acc * 10 + 8) | Decimal.D9 r => uval r (acc * 10 + 9)
  end.

Lemma uval_mono : forall u acc, acc <= uval u acc.
Proof.
  induction u as [|r IH|r IH|r IH|r IH|r IH|r IH|r IH|r IH|r IH|r IH]; intros acc; cbn [uval];
    try lia; (eapply N.le_trans; [|apply IH]); lia.
Qed.

Lemma parse_dec_uval : forall u acc, uval u acc <= mask64 ->
  parse_dec_aux (uint_digits u) acc = Some (uval u acc).
Proof.
  induction u as [|r IH|r IH|r IH|r IH|r IH|r IH|r IH|r IH|r IH|r IH]; intros acc H;
    cbn [uval uint_digits parse_dec_aux] in *; try reflexivity;
    match goal with
    | |- context [is_ascii_digit ?c] => change (is_ascii_digit c) with true; cbv iota;
        change (c - ch_0) with (c - 48)
    end;
    match goal with
    | H : uval r ?a <= mask64 |- context [mask64 <? ?a'] =>
        replace a' with a by lia;
        pose proof (uval_mono r a) as Hm;
        destruct (mask64 <? a) eqn:Hlt; [apply N.ltb_lt in Hlt; lia | apply IH; exact H]
    end.
Qed.

Lemma uval_pos_acc : forall u p, uval u (Npos p) = Npos (Pos.of_uint_acc u p).
Proof.
  induction u as [|r IH|r IH|r IH|r IH|r IH|r IH|r IH|r IH|r IH|r IH]; intros p;
    cbn [uval Pos.of_uint_acc]; try reflexivity;
    match goal with
    | |- uval r ?a = _ => let q := fresh "q" in let Hq := fresh "Hq" in
        match goal with |- _ = Npos (Pos.of_uint_acc r ?q0) =>
          replace a with (Npos q0) by lia; apply IH end
    end.
Qed.

Lemma uval_of_uint : forall u, uval u 0 = Pos.of_uint u.
Proof.
  induction u as [|r IH|r IH|r IH|r IH|r IH|r IH|r IH|r IH|r IH|r IH];
    cbn [uval Pos.of_uint]; try reflexivity;
    try (change (0 * 10 + 0) with 0; exact IH);
    match goal with |- uval r ?a = Npos (Pos.of_uint_acc r ?q) =>
      change a with (Npos q); apply uval_pos_acc end.
Qed.

Lemma uval_to_uint : forall n, uval (N.to_uint n) 0 = n.
Proof.
  intros n. rewrite uval_of_uint. change (Pos.of_uint (N.to_uint n)) with (N.of_uint (N.to_uint n)).
  apply DecimalN.Unsigned.of_to.
Qed.

Lemma parse_dec_of_N : forall n, n < two64 -> parse_dec_aux (dec_of_N n) 0 = Some n.
Proof.
  intros n H. unfold dec_of_N. rewrite parse_dec_uval; rewrite uval_to_uint; [reflexivity|].
  unfold two64, mask64 in *. lia.
Qed.

Lemma to_uint_nonnil : forall n, N.to_uint n <> Decimal.Nil.
Proof.
  intros [|p]; cbn [N.to_uint]; [discriminate|]. apply DecimalPos.Unsigned.to_uint_nonnil.
Qed.

Lemma uint_digits_nil : forall u, uint_digits u = [] -> u = Decimal.Nil.
Proof. destruct u; cbn [uint_digits]; intros H; try reflexivity; discriminate. Qed.

Lemma dec_of_N_nonempty : forall n, dec_of_N n <> [].
Proof. intros n H. apply uint_digits_nil in H. exact (to_uint_nonnil n H). Qed.

Lemma parse_usize_dec : forall n, n < two64 -> parse_usize (dec_of_N n) = Some n.
Proof.
  intros n H. unfold parse_usize. destruct (dec_of_N n) eqn:E.
  - exfalso. exact (dec_of_N_nonempty n E).
  - rewrite <- E. apply parse_dec_of_N. exact H.
Qed.

Lemma uint_digits_digit : forall u, forallb is_ascii_digit (uint_digits u) = true.
Proof. induction u; cbn [uint_digits forallb]; try reflexivity; rewrite IHu; reflexivity. Qed.

Lemma dec_of_N_digits : forall n, forallb is_ascii_digit (dec_of_N n) = true.
Proof. intros n. apply uint_digits_digit. Qed.

Lemma digits_of_uint_eq : forall u, FenSpec.digits_of_uint u = uint_digits u.
Proof. induction u; cbn [digits_of_uint uint_digits]; try reflexivity; rewrite IHu; reflexivity. Qed.

Lemma decimal_eq : forall n, FenSpec.decimal n = dec_of_N n.
Proof. intros n. apply digits_of_uint_eq. Qed.

Lemma dec_of_N_small : forall e, 1 <= e -> e <= 8 -> dec_of_N e = [48 + e].
Proof.
  intros e H1 H8.
  assert (Hc : e = 1 \/ e = 2 \/ e = 3 \/ e = 4 \/ e = 5 \/ e = 6 \/ e = 7 \/ e = 8) by lia.
  destruct Hc as [->|[->|[->|[->|[->|[->|[->| ->]]]]]]]; reflexivity.
Qed.

(* the reader's counters are below 2^64 *)
Lemma parse_dec_bound : forall l acc v, acc <= mask64 -> parse_dec_aux l acc = Some v -> v <= mask64.
Proof.
  induction l as [|c tl IH]; intros acc v Ha H; cbn [parse_dec_aux] in H.
  - injection H as <-. exact Ha.
  - destruct (is_ascii_digit c); [|discriminate].
    destruct (mask64 <? acc * 10 + (c - ch_0)) eqn:Hlt; [discriminate|].
    apply N.ltb_ge in Hlt. eapply IH; [|exact H]. exact Hlt.
Qed.

Lemma parse_usize_bound : forall l v, parse_usize l = Some v -> v < two64.
Proof.
  intros l v H. unfold parse_usize in H. destruct l; [discriminate|].
  apply parse_dec_bound in H; unfold mask64, two64 in *; lia.
Qed.

(* ------------------------------------------------------------------ character classes *)

Definition not_ws (c : N) : bool := negb (is_ws c).

Lemma digit_not_ws : forall c, is_ascii_digit c = true -> not_ws c = true.
Proof. intros c. unfold is_ascii_digit, not_ws, is_ws, ch_0, ch_9. lia. Qed.

Lemma forallb_impl : forall (A : Type) (p q : A -> bool) l,
  (forall x, p x = true -> q x = true) -> forallb p l = true -> forallb q l = true.
Proof.
  intros A p q l Hpq. induction l as [|x tl IH]; cbn [forallb]; [reflexivity|].
  intros H. apply andb_true_iff in H as [Hx Ht]. rewrite (Hpq _ Hx), (IH Ht). reflexivity.
Qed.

Lemma dec_not_ws : forall n, forallb not_ws (dec_of_N n) = true.
Proof. intros n. eapply forallb_impl; [apply digit_not_ws | apply dec_of_N_digits]. Qed.

Lemma placement_char_range : forall c, is_placement_char c = true -> 49 <= c <= 114.
Proof.
  intros c. unfold is_placement_char, fen_piece_of_char.
  unfold ch_P, ch_N, ch_B, ch_R, ch_Q, ch_K, ch_p, ch_n, ch_b, ch_r, ch_q, ch_k, ch_1, ch_8.
  repeat match goal with
  | |- context [if c =? ?k then _ else _] => let E := fresh "E" in destruct (c =? k) eqn:E;
      [apply N.eqb_eq in E; intros _; lia|]
  end.
  cbn [orb]. lia.
Qed.

Lemma placement_char_not_ws : forall c, is_placement_char c = true -> not_ws c = true.
Proof.
  intros c H. apply placement_char_range in H. unfold not_ws, is_ws. lia.
Qed.

Lemma placement_char_not_slash : forall c, is_placement_char c = true -> negb (c =? ch_slash) = true.
Proof.
  intros c H. destruct (c =? ch_slash) eqn:E; [|reflexivity].
  apply N.eqb_eq in E. subst c. vm_compute in H. discriminate.
Qed.

(* ------------------------------------------------------------------ splitting *)

Lemma split_on_last : forall p a cur, forallb (fun x => negb (p x)) a = true ->
  split_on p a cur = [rev cur ++ a].
Proof.
  intros p. induction a as [|x tl IH]; intros cur H; cbn [split_on].
  - rewrite List.app_nil_r. reflexivity.
  - cbn [forallb] in H. apply andb_true_iff in H as [Hx Ht]. apply negb_true_iff in Hx. rewrite Hx.
    rewrite IH by exact Ht. cbn [rev]. rewrite <- List.app_assoc. reflexivity.
Qed.

Lemma split_on_sep : forall p a c b cur, forallb (fun x => negb (p x)) a = true -> p c = true ->
  split_on p (a ++ c :: b) cur = (rev cur ++ a) :: split_on p b [].
Proof.
  intros p. induction a as [|x tl IH]; intros c b cur H Hc; cbn [split_on app].
  - rewrite Hc, List.app_nil_r. reflexivity.
  - cbn [forallb] in H. apply andb_true_iff in H as [Hx Ht]. apply negb_true_iff in Hx. rewrite Hx.
    rewrite IH by assumption. cbn [rev]. rewrite <- List.app_assoc. reflexivity.
Qed.

Lemma split6 : forall p s f1 f2 f3 f4 f5 f6, p s = true ->
  forallb (fun x => negb (p x)) f1 = true -> forallb (fun x => negb (p x)) f2 = true ->
  forallb (fun x => negb (p x)) f3 = true -> forallb (fun x => negb (p x)) f4 = true ->
  forallb (fun x => negb (p x)) f5 = true -> forallb (fun x => negb (p x)) f6 = true ->
  split_on p (f1 ++ [s] ++ f2 ++ [s] ++ f3 ++ [s] ++ f4 ++ [s] ++ f5 ++ [s] ++ f6) []
  = [f1; f2; f3; f4; f5; f6].
Proof.
  intros p s f1 f2 f3 f4 f5 f6 Hs H1 H2 H3 H4 H5 H6. cbn [app].
  rewrite !split_on_sep by assumption. rewrite split_on_last by assumption. reflexivity.
Qed.

Lemma split8 : forall p s f1 f2 f3 f4 f5 f6 f7 f8, p s = true ->
  forallb (fun x => negb (p x)) f1 = true -> forallb (fun x => negb (p x)) f2 = true ->
  forallb (fun x => negb (p x)) f3 = true -> forallb (fun x => negb (p x)) f4 = true ->
  forallb (fun x => negb (p x)) f5 = true -> forallb (fun x => negb (p x)) f6 = true ->
  forallb (fun x => negb (p x)) f7 = true -> forallb (fun x => negb (p x)) f8 = true ->
  split_on p (f1 ++ [s] ++ f2 ++ [s] ++ f3 ++ [s] ++ f4 ++ [s] ++ f5 ++ [s] ++ f6 ++ [s] ++ f7 ++ [s] ++ f8) []
  = [f1; f2; f3; f4; f5; f6; f7; f8].
Proof.
  intros p s f1 f2 f3 f4 f5 f6 f7 f8 Hs H1 H2 H3 H4 H5 H6 H7 H8. cbn [app].
  rewrite !split_on_sep by assumption. rewrite split_on_last by assumption. reflexivity.
Qed.
