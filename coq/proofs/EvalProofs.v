(* C05 / C13, part 2: the static evaluator.
   C05: terminal branch of Evaluator::evaluate (mate score / zero / heuristic), no unwrap panic, mate scores.
   C13: the heuristic is odd in the perspective (every term is a f32 product of an antisymmetric integer;
        rounding is odd by construction and the final `as i32` cast is odd away from its saturation
        bounds, which the magnitude bounds below exclude for every WfBoard).

   REUSABLE STATEMENTS
     eval_mate eval_stalemate eval_no_panic eval_has_move      (C05, model level)
     eval_checkmate_rules eval_stalemate_rules eval_has_move_rules  (C05, rules level)
     mate_scores
     count_bounds term_worths_bound egw_bound piece_square_bound term_squares_bound
     term_king_edge_bound term_bad_pawns_bound                 (magnitudes under WfBoard)
     heuristic_odd evaluate_opp eval_negation                  (C13) *)
From WV Require Import Types Bits Attacks Board MoveEnc MoveGen Rules Abs Wf Encode Eval.
From WV Require Import BitsProofs BoardProofs MoveEncProofs PosEq BoardAlg ApplyProofs LegalPosProofs.
From WV Require Import GenPieces KingPrefilter GenLegal GenCount.
From WV Require Import EvalF32 EvalShortcut.
From Coq Require Import Lia ZifyBool ZifyN ZifyNat.
Import WV.Bits.
Ltac Zify.zify_post_hook ::= Z.div_mod_to_equations.
Open Scope Z_scope.
Arguments N.add : simpl never.
Arguments N.sub : simpl never.
Arguments N.mul : simpl never.
Arguments N.div : simpl never.
Arguments N.modulo : simpl never.
Arguments N.land : simpl never.
Arguments N.lor : simpl never.
Arguments Z.add : simpl never.
Arguments Z.sub : simpl never.
Arguments Z.mul : simpl never.
Arguments Z.pow : simpl never.

(* ====================================================================== *)
(* C05: the terminal branch                                               *)
(* ====================================================================== *)

Theorem eval_mate : forall s p d, LegalPos s -> gen_legal s = [] -> is_check s = true ->
  evaluate s p d = EVal (if color_eqb (st_turn s) p then - mate_in_ply d else mate_in_ply d).
Proof.
  intros s p d HL Hg Hc. destruct (king_square s HL) as [k (Hk & _)].
  unfold evaluate. cbv zeta. rewrite Hk, Hc, Hg. cbn [negb andb]. reflexivity.
Qed.

Theorem eval_stalemate : forall s p d, LegalPos s -> gen_legal s = [] -> is_check s = false ->
  evaluate s p d = EVal EVEN.
Proof.
  intros s p d HL Hg Hc. destruct (king_square s HL) as [k (Hk & _)].
  pose proof (shortcut_sound s k HL Hk Hc) as Hs. unfold king_valid in Hs.
  unfold evaluate. cbv zeta. rewrite Hk, Hc. cbn [negb andb].
  destruct (any _) eqn:Ea.
  - exfalso. exact (Hs eq_refl Hg).
  - rewrite Hg. reflexivity.
Qed.

Theorem eval_no_panic : forall s p d, LegalPos s -> evaluate s p d <> EPanic.
Proof.
  intros s p d HL. destruct (king_square s HL) as [k (Hk & _)].
  unfold evaluate. cbv zeta. rewrite Hk.
  destruct (negb (is_check s) && any _); [discriminate|].
  destruct (gen_legal s); [destruct (is_check s)|]; discriminate.
Qed.

Theorem eval_has_move : forall s p d, LegalPos s -> gen_legal s <> [] ->
  evaluate s p d = EVal (heuristic (st_board s) p).
Proof.
  intros s p d HL Hg. destruct (king_square s HL) as [k (Hk & _)].
  unfold evaluate. cbv zeta. rewrite Hk.
  destruct (negb (is_check s) && any _); [reflexivity|].
  destruct (gen_legal s); [contradiction Hg; reflexivity | reflexivity].
Qed.

(* the check flag is the rules' king_attacked *)
Lemma is_check_rules : forall s, WfState s -> is_check s = king_attacked (abs s) (p_turn (abs s)).
Proof.
  intros s Hwf. unfold is_check. rewrite (board_is_check_bool _ _ (wf_state_board s Hwf)).
  rewrite abs_king_attacked. reflexivity.
Qed.

Theorem eval_checkmate_rules : forall s p d, LegalPos s -> Rules.checkmate (abs s) = true ->
  evaluate s p d = EVal (if color_eqb (st_turn s) p then - mate_in_ply d else mate_in_ply d).
Proof.
  intros s p d HL H. destruct (legal_pos_wf s HL) as [Hwf _]. unfold checkmate in H.
  destruct (Rules.legal_moves (abs s)) eqn:E; [|discriminate H].
  apply eval_mate; [exact HL | apply (gen_legal_nil_iff s HL); exact E |].
  rewrite (is_check_rules s Hwf). exact H.
Qed.

Theorem eval_stalemate_rules : forall s p d, LegalPos s -> Rules.stalemate (abs s) = true ->
  evaluate s p d = EVal EVEN.
Proof.
  intros s p d HL H. destruct (legal_pos_wf s HL) as [Hwf _]. unfold stalemate in H.
  destruct (Rules.legal_moves (abs s)) eqn:E; [|discriminate H].
  apply eval_stalemate; [exact HL | apply (gen_legal_nil_iff s HL); exact E |].
  rewrite (is_check_rules s Hwf). apply negb_true_iff. exact H.
Qed.

Theorem eval_has_move_rules : forall s p d, LegalPos s -> Rules.legal_moves (abs s) <> [] ->
  evaluate s p d = EVal (heuristic (st_board s) p).
Proof.
  intros s p d HL H. apply eval_has_move; [exact HL|]. intros E. apply H.
  apply (gen_legal_nil_iff s HL). exact E.
Qed.

(* every legal position falls in exactly one of the three cases *)
Theorem eval_cases : forall s, LegalPos s ->
  (Rules.checkmate (abs s) = true /\ Rules.stalemate (abs s) = false /\ Rules.legal_moves (abs s) = []) \/
  (Rules.checkmate (abs s) = false /\ Rules.stalemate (abs s) = true /\ Rules.legal_moves (abs s) = []) \/
  (Rules.checkmate (abs s) = false /\ Rules.stalemate (abs s) = false /\ Rules.legal_moves (abs s) <> []).
Proof.
  intros s _. unfold checkmate, stalemate. destruct (Rules.legal_moves (abs s)) as [|m l].
  - destruct (king_attacked (abs s) (p_turn (abs s))); cbn [negb]; auto.
  - right. right. repeat split; discriminate.
Qed.

(* ====================================================================== *)
(* C05: mate scores                                                       *)
(* ====================================================================== *)

Theorem mate_scores : forall d,
  POS_INF <= mate_in_ply d /\ - mate_in_ply d <= NEG_INF /\
  is_terminal (mate_in_ply d) = true /\ is_terminal (- mate_in_ply d) = true /\
  (forall d', (d <= d')%N -> (d' < 2147483648)%N -> mate_in_ply d' <= mate_in_ply d) /\
  ((d < 2147483648)%N -> mate_in_ply d = POS_INF + one_pawn * Z.max (mate_bonus_plies - Z.of_N d) 0).
Proof.
  intros d.
  assert (HP : POS_INF = 10000) by reflexivity. assert (HN : NEG_INF = -10000) by reflexivity.
  assert (H1 : one_pawn = 100) by reflexivity. assert (H2 : mate_bonus_plies = 10) by reflexivity.
  assert (Hlow : POS_INF <= mate_in_ply d).
  { unfold mate_in_ply. rewrite H1. lia. }
  split; [exact Hlow|]. split; [lia|].
  split; [unfold is_terminal; rewrite HP, HN in *; lia|].
  split; [unfold is_terminal; rewrite HP, HN in *; lia|].
  assert (Has : forall n, (n < 2147483648)%N -> as_i32 n = Z.of_N n).
  { intros n Hn. unfold as_i32. cbv zeta. rewrite Z.mod_small by lia.
    destruct (Z.ltb_spec (Z.of_N n) 2147483648); lia. }
  split.
  - intros d' Hle Hd'. unfold mate_in_ply. rewrite (Has d') by lia. rewrite (Has d) by lia. rewrite H1, H2. lia.
  - intros Hd. unfold mate_in_ply. rewrite (Has d Hd). reflexivity.
Qed.

(* ====================================================================== *)
(* magnitude bounds under WfBoard                                         *)
(* ====================================================================== *)

Lemma count_ones_le64 : forall x, (x < 2 ^ 64)%N -> (count_ones x <= 64)%N.
Proof.
  intros x Hx. unfold count_ones.
  assert (Hl : (length (iter_ones x) <= length squares)%nat).
  { apply NoDup_incl_length; [apply GenPieces.iter_ones_NoDup|].
    intros k Hk. apply squares_In. apply iter_ones_spec in Hk. exact (test_lt64 x k Hx Hk). }
  rewrite squares_length in Hl. lia.
Qed.

Lemma pocc_lt : forall b c p, WfBoard b -> (pocc b c p < 2 ^ 64)%N.
Proof. intros b c p Hwf. exact (wf_slots b Hwf c p). Qed.

Lemma count_bounds : forall b c p, WfBoard b -> 0 <= count b c p <= 64.
Proof.
  intros b c p Hwf. unfold count. pose proof (count_ones_le64 _ (pocc_lt b c p Hwf)). lia.
Qed.

Lemma iter_ones_len : forall b c p, WfBoard b -> (length (iter_ones (pocc b c p)) <= 64)%nat.
Proof.
  intros b c p Hwf. pose proof (count_ones_le64 _ (pocc_lt b c p Hwf)) as H. unfold count_ones in H. lia.
Qed.

(* a fold whose steps move the accumulator by at most K *)
Lemma fold_step_bound : forall (A : Type) (F : Z -> A -> Z) (K : Z) (l : list A) (a : Z),
  0 <= K -> (forall a x, In x l -> Z.abs (F a x - a) <= K) ->
  Z.abs (fold_left F l a - a) <= Z.of_nat (length l) * K.
Proof.
  intros A F K l. induction l as [|x tl IH]; intros a HK HF; cbn [fold_left length].
  - rewrite Z.sub_diag. cbn. lia.
  - pose proof (HF a x (or_introl eq_refl)) as H1.
    pose proof (IH (F a x) HK (fun a' y Hy => HF a' y (or_intror Hy))) as H2.
    rewrite Nat2Z.inj_succ. lia.
Qed.

(* --- piece worths --- *)
Lemma worth_values :
  emul_f one_pawn (worth Pawn) = 100 /\ emul_f one_pawn (worth Knight) = 300 /\
  emul_f one_pawn (worth Bishop) = 350 /\ emul_f one_pawn (worth Rook) = 500 /\
  emul_f one_pawn (worth Queen) = 900 /\ emul_f one_pawn (worth King) = 10000.
Proof. vm_compute. repeat split. Qed.

Lemma term_worths_eq : forall b c,
  term_worths b c = 100 * count b c Pawn + 300 * count b c Knight + 350 * count b c Bishop
                    + 500 * count b c Rook + 900 * count b c Queen + 10000 * count b c King.
Proof.
  intros b c. unfold term_worths, all_pieces. cbn [fold_left].
  destruct worth_values as (-> & -> & -> & -> & -> & ->). ring.
Qed.

Lemma term_worths_bound : forall b c, WfBoard b -> 0 <= term_worths b c <= 777600.
Proof.
  intros b c Hwf. rewrite term_worths_eq.
  pose proof (count_bounds b c Pawn Hwf). pose proof (count_bounds b c Knight Hwf).
  pose proof (count_bounds b c Bishop Hwf). pose proof (count_bounds b c Rook Hwf).
  pose proof (count_bounds b c Queen Hwf). pose proof (count_bounds b c King Hwf). lia.
Qed.

(* --- end-game weight --- *)
Ltac fconst := unfold fabs_le, fabs_ge1; apply Z.leb_le; vm_compute; reflexivity.

Lemma pow21 : 2 ^ 21 = 2097152.
Proof. reflexivity. Qed.

Definition K_egw : Z := 594.

Lemma egw_bound : forall b, WfBoard b -> fabs_le (end_game_weight b) K_egw.
Proof.
  intros b Hwf. unfold end_game_weight. cbv zeta.
  pose proof pow21 as P21.
  assert (Hboth : forall p, fabs_le (f_of_Z (count b White p + count b Black p)) 129).
  { intros p. pose proof (count_bounds b White p Hwf). pose proof (count_bounds b Black p Hwf).
    apply (f_of_Z_le _ 128); lia. }
  assert (Hocc : fabs_le (f_of_Z (Z.of_N (count_ones (occupancy b)))) 65).
  { pose proof (count_ones_le64 _ (occupancy_lt b Hwf)). apply (f_of_Z_le _ 64); lia. }
  assert (Hw1 : fabs_le (f_of_dec (nthZ egw_consts 0%nat (0, 1))) 3) by fconst.
  assert (Hw2 : fabs_le (f_of_dec (nthZ egw_consts 2%nat (0, 1))) 1) by fconst.
  assert (Hw3 : fabs_le (f_of_dec (nthZ egw_consts 4%nat (0, 1))) 1) by fconst.
  assert (Hd1 : fabs_ge1 (f_of_dec (nthZ egw_consts 1%nat (0, 1)))) by fconst.
  assert (Hd2 : fabs_ge1 (f_of_dec (nthZ egw_consts 3%nat (0, 1)))) by fconst.
  assert (Hd3 : fabs_ge1 (f_of_dec (nthZ egw_consts 5%nat (0, 1)))) by fconst.
  assert (Hden : fabs_ge1 (f_add (f_add (f_of_dec (nthZ egw_consts 0%nat (0, 1)))
                                        (f_of_dec (nthZ egw_consts 2%nat (0, 1))))
                                 (f_of_dec (nthZ egw_consts 4%nat (0, 1))))) by fconst.
  assert (Hone : fabs_le (f_of_Z 1) 1) by fconst.
  pose proof (f_div_le _ _ 129 (Hboth Pawn) Hd1 ltac:(lia)) as Hv1.
  pose proof (f_div_le _ _ 129 (Hboth Queen) Hd2 ltac:(lia)) as Hv2.
  pose proof (f_div_le _ _ 65 Hocc Hd3 ltac:(lia)) as Hv3.
  pose proof (f_mul_le _ _ 3 (129 + 1) Hw1 Hv1 ltac:(lia)) as Hm1.
  pose proof (f_mul_le _ _ 1 (129 + 1) Hw2 Hv2 ltac:(lia)) as Hm2.
  pose proof (f_mul_le _ _ 1 (65 + 1) Hw3 Hv3 ltac:(lia)) as Hm3.
  pose proof (f_add_le _ _ _ _ Hm1 Hm2 ltac:(lia)) as Ha1.
  pose proof (f_add_le _ _ _ _ Ha1 Hm3 ltac:(lia)) as Ha2.
  pose proof (f_div_le _ _ _ Ha2 Hden ltac:(lia)) as Hq.
  pose proof (f_sub_le _ _ _ _ Hone Hq ltac:(lia)) as Hs.
  apply (fabs_le_mono _ _ K_egw Hs). unfold K_egw. lia.
Qed.

(* --- piece-square tables --- *)
Lemma nth_forallb : forall (f : Z -> bool) l i d, forallb f l = true -> f d = true -> f (nth i l d) = true.
Proof.
  intros f l i d Hl Hd. destruct (nth_in_or_default i l d) as [Hin | ->]; [|exact Hd].
  rewrite forallb_forall in Hl. exact (Hl _ Hin).
Qed.

Lemma psq_entry_bound : forall p i,
  Z.abs (nthZ (fst (nthZ piece_square_map (N.to_nat (piece_to_N p)) (zero_map, zero_map))) i 0) <= 50 /\
  Z.abs (nthZ (snd (nthZ piece_square_map (N.to_nat (piece_to_N p)) (zero_map, zero_map))) i 0) <= 50.
Proof.
  intros p i. unfold nthZ.
  split; apply Z.leb_le; apply (nth_forallb (fun z => Z.abs z <=? 50)); destruct p; vm_compute; reflexivity.
Qed.

Definition K_psq : Z := 61235.

Lemma piece_square_bound : forall p sq c egw, fabs_le egw K_egw -> Z.abs (piece_square p sq c egw) <= K_psq.
Proof.
  intros p sq c egw Hegw. unfold piece_square. cbv zeta. pose proof pow21 as P21. unfold K_egw in Hegw.
  set (idx := N.to_nat (flip_rank (if is_white c then sq else flip_rank sq))).
  destruct (psq_entry_bound p idx) as [H1 H2].
  set (e1 := nthZ (fst (nthZ piece_square_map (N.to_nat (piece_to_N p)) (zero_map, zero_map))) idx 0) in *.
  set (e2 := nthZ (snd (nthZ piece_square_map (N.to_nat (piece_to_N p)) (zero_map, zero_map))) idx 0) in *.
  pose proof (f_of_Z_le e1 50 ltac:(lia) H1) as F1. pose proof (f_of_Z_le e2 50 ltac:(lia) H2) as F2.
  pose proof (f_sub_le _ _ _ _ F2 F1 ltac:(lia)) as Fs.
  pose proof (f_mul_le _ _ _ _ Fs Hegw ltac:(lia)) as Fm.
  pose proof (f_add_le _ _ _ _ Fm F1 ltac:(lia)) as Fa.
  pose proof (f_to_i32_le _ _ Fa) as Hr. unfold K_psq. lia.
Qed.

Definition K_squares : Z := 6 * 64 * K_psq.

Lemma term_squares_bound : forall b c egw, WfBoard b -> fabs_le egw K_egw ->
  Z.abs (term_squares b c egw) <= K_squares.
Proof.
  intros b c egw Hwf Hegw. unfold term_squares.
  assert (Hin : forall p a, Z.abs (fold_left (fun a sq => a + piece_square p sq c egw) (iter_ones (pocc b c p)) a - a)
                            <= 64 * K_psq).
  { intros p a.
    pose proof (fold_step_bound N (fun a sq => a + piece_square p sq c egw) K_psq (iter_ones (pocc b c p)) a
                  ltac:(unfold K_psq; lia)) as H.
    assert (Hs : forall a x, In x (iter_ones (pocc b c p)) -> Z.abs (a + piece_square p x c egw - a) <= K_psq).
    { intros a0 x _. replace (a0 + piece_square p x c egw - a0) with (piece_square p x c egw) by ring.
      exact (piece_square_bound p x c egw Hegw). }
    specialize (H Hs). pose proof (iter_ones_len b c p Hwf) as Hl. unfold K_psq in *. nia. }
  pose proof (fold_step_bound piece
                (fun a p => fold_left (fun a sq => a + piece_square p sq c egw) (iter_ones (pocc b c p)) a)
                (64 * K_psq) all_pieces 0 ltac:(unfold K_psq; lia) (fun a p _ => Hin p a)) as H.
  rewrite Z.sub_0_r in H. unfold K_squares. cbn [all_pieces length] in H. lia.
Qed.

(* --- king to edge --- *)
Definition K_edge : Z := 36235.

Lemma square_coords : forall x k, (x < 2 ^ 64)%N -> first_one x = Some k ->
  0 <= Z.of_N (rank_of k) <= 7 /\ 0 <= Z.of_N (file_of k) <= 7.
Proof.
  intros x k Hx Hk. pose proof (test_lt64 x k Hx (GenPawns.first_one_some x k Hk)) as H.
  unfold rank_of, file_of. lia.
Qed.

Lemma term_king_edge_bound : forall b c egw, WfBoard b -> fabs_le egw K_egw ->
  Z.abs (term_king_edge b c egw) <= K_edge.
Proof.
  intros b c egw Hwf Hegw. unfold term_king_edge. unfold K_edge.
  destruct (f_ltb egw (f_of_dec king_edge_threshold)); [cbn; lia|].
  destruct (color_count b c <? color_count b (opp c) + 1); [cbn; lia|].
  destruct (first_one (pocc b c King)) as [ours|] eqn:Eo; [|cbn; lia].
  destruct (first_one (pocc b (opp c) King)) as [theirs|] eqn:Et; [|cbn; lia].
  cbv zeta.
  destruct (square_coords _ _ (pocc_lt b c King Hwf) Eo) as [Ho1 Ho2].
  destruct (square_coords _ _ (pocc_lt b (opp c) King Hwf) Et) as [Ht1 Ht2].
  change (nthZ king_edge_consts 0%nat 0) with 6. change (nthZ king_edge_consts 1%nat 0) with 10.
  unfold zabs_dist. change (Z.of_N 0) with 0. change (Z.of_N 7) with 7.
  pose proof pow21 as P21. unfold K_egw in Hegw.
  set (e := 10 * _ - _).
  assert (He : Z.abs e <= 60) by (unfold e; lia).
  pose proof (emul_f_le e egw 60 594 ltac:(lia) He Hegw ltac:(lia) ltac:(lia)). lia.
Qed.

(* --- bad pawns --- *)
Lemma bad_pawn_values :
  emul_f one_pawn (f_of_dec (nthZ bad_pawn_consts 0%nat (0, 1))) = 40 /\
  emul_f one_pawn (f_of_dec (nthZ bad_pawn_consts 1%nat (0, 1))) = 50.
Proof. vm_compute. split; reflexivity. Qed.

Lemma term_bad_pawns_bound : forall b c, -720 <= term_bad_pawns b c <= 0.
Proof.
  intros b c. unfold term_bad_pawns. cbv zeta. destruct bad_pawn_values as [-> ->].
  match goal with |- _ <= fold_left ?F ?l 0 <= _ =>
    pose proof (fold_step_bound N F 90 l 0 ltac:(lia)) as H;
    assert (Hmono : forall l' a, fold_left F l' a <= a) end.
  { intros l'. induction l' as [|x tl IH]; intros a; cbn [fold_left]; [lia|].
    etransitivity; [apply IH|]. destruct (1 <? _)%N; destruct (_ =? 0)%N; lia. }
  assert (Hs : forall a x, In x [0; 1; 2; 3; 4; 5; 6; 7]%N ->
     Z.abs ((a - (if (1 <? count_ones (N.land (pocc b c Pawn) (file_mask x)))%N then 40 else 0)
               - (if (N.land (pocc b c Pawn)
                        (N.lor (if (x =? 0)%N then 0%N else file_mask (x - 1))
                               (if (x =? 7)%N then 0%N else file_mask (x + 1))) =? 0)%N then 50 else 0)) - a) <= 90).
  { intros a x _. destruct (1 <? _)%N; destruct (_ =? 0)%N; lia. }
  specialize (H Hs). specialize (Hmono [0; 1; 2; 3; 4; 5; 6; 7]%N 0). cbn [length] in H. lia.
Qed.

(* ====================================================================== *)
(* C13: oddness                                                           *)
(* ====================================================================== *)

Lemma weight_le1 : forall i, fabs_le (weight i) 1.
Proof.
  intros i. unfold weight, nthZ.
  assert (H : (fun q => let x := f_of_dec q in Z.abs (fm x) * P2 (fe x) <=? 1 * Q2 (fe x)) (nth i term_weights (0, 1)) = true).
  { destruct (nth_in_or_default i term_weights (0, 1)) as [Hin | ->]; [|vm_compute; reflexivity].
    revert Hin. generalize (nth i term_weights (0, 1)). intros q Hin.
    assert (Hall : forallb (fun q => let x := f_of_dec q in Z.abs (fm x) * P2 (fe x) <=? 1 * Q2 (fe x)) term_weights = true)
      by (vm_compute; reflexivity).
    rewrite forallb_forall in Hall. exact (Hall q Hin). }
  cbv beta zeta in H. unfold fabs_le. apply Z.leb_le. exact H.
Qed.

Lemma emul_weight_opp : forall e i K, 0 <= K -> Z.abs e <= K -> 4 * K < 2147483647 ->
  emul_f (- e) (weight i) = - emul_f e (weight i).
Proof.
  intros e i K HK He Hb. apply (emul_f_opp e (weight i) K 1 HK He (weight_le1 i)). lia.
Qed.

Lemma emul_weight_swap : forall x y i K, 0 <= K -> Z.abs (x - y) <= K -> 4 * K < 2147483647 ->
  emul_f (y - x) (weight i) = - emul_f (x - y) (weight i).
Proof.
  intros x y i K HK He Hb. replace (y - x) with (- (x - y)) by ring. exact (emul_weight_opp _ i K HK He Hb).
Qed.

Lemma sum4_opp : forall a b c d a' b' c' d', a' = - a -> b' = - b -> c' = - c -> d' = - d ->
  a' + b' + c' + d' = - (a + b + c + d).
Proof. intros. lia. Qed.

Theorem heuristic_odd : forall b p, WfBoard b -> heuristic b (opp p) = - heuristic b p.
Proof.
  intros b p Hwf. unfold heuristic. cbv zeta. rewrite opp_opp.
  pose proof (egw_bound b Hwf) as Hegw.
  pose proof (term_worths_bound b p Hwf) as A0. pose proof (term_worths_bound b (opp p) Hwf) as B0.
  pose proof (term_squares_bound b p _ Hwf Hegw) as A1. pose proof (term_squares_bound b (opp p) _ Hwf Hegw) as B1.
  pose proof (term_king_edge_bound b p _ Hwf Hegw) as A2. pose proof (term_king_edge_bound b (opp p) _ Hwf Hegw) as B2.
  pose proof (term_bad_pawns_bound b p) as A3. pose proof (term_bad_pawns_bound b (opp p)) as B3.
  unfold K_squares, K_psq, K_edge in *.
  apply sum4_opp.
  - apply (emul_weight_swap _ _ 0%nat 1555200); lia.
  - apply (emul_weight_swap _ _ 1%nat (2 * (6 * 64 * 61235))); lia.
  - apply (emul_weight_swap _ _ 2%nat (2 * 36235)); lia.
  - apply (emul_weight_swap _ _ 3%nat 720); lia.
Qed.

Theorem evaluate_opp : forall s p d, WfBoard (st_board s) ->
  match evaluate s p d with
  | EVal v => evaluate s (opp p) d = EVal (- v)
  | EPanic => evaluate s (opp p) d = EPanic
  end.
Proof.
  intros s p d Hwf. unfold evaluate. cbv zeta.
  destruct (first_one (pocc (st_board s) (st_turn s) King)) as [k|]; [|reflexivity].
  destruct (negb (is_check s) && any _).
  { rewrite (heuristic_odd _ p Hwf). reflexivity. }
  destruct (gen_legal s).
  - destruct (is_check s).
    + destruct (st_turn s), p; cbn [color_eqb opp]; f_equal; ring.
    + reflexivity.
  - rewrite (heuristic_odd _ p Hwf). reflexivity.
Qed.

Theorem eval_negation : forall s d v, WfState s ->
  (evaluate s White d = EVal v <-> evaluate s Black d = EVal (- v)) /\
  (evaluate s White d = EPanic <-> evaluate s Black d = EPanic).
Proof.
  intros s d v Hwf. pose proof (wf_state_board s Hwf) as Hb.
  pose proof (evaluate_opp s White d Hb) as HW. pose proof (evaluate_opp s Black d Hb) as HB.
  cbn [opp] in HW, HB.
  destruct (evaluate s White d) as [w|] eqn:EW; destruct (evaluate s Black d) as [x|] eqn:EB;
    try discriminate HW; try discriminate HB.
  - injection HW as HW. injection HB as HB. split; split; intros H; try discriminate H.
    + injection H as <-. f_equal. exact HW.
    + injection H as H. f_equal. lia.
  - split; split; intros H; try discriminate H; reflexivity.
Qed.

Print Assumptions eval_mate.
Print Assumptions eval_stalemate.
Print Assumptions eval_no_panic.
Print Assumptions eval_has_move.
Print Assumptions mate_scores.
Print Assumptions heuristic_odd.
Print Assumptions eval_negation.
