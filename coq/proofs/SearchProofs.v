(* Theorems about model/Search.v, part 1: the history rule (C17), the table invariant and the legality of
   the reported lines (C03).  Built on proofs/SearchBase.v (closure principle for analyze). *)
From Coq Require Import NArith ZArith List Bool Lia ZifyBool ZifyN ZifyNat.
From WV Require Import Types Bits Attacks Board MoveEnc MoveGen Text Table Eval Search.
From WV Require Import Rules Abs Wf Encode.
From WV Require Import GenPawnsNoDup GenLegal TableProofs HashProofs SearchBase.
Import ListNotations.
Import WV.Bits.
Open Scope N_scope.

(* ================================================================== *)
(* C17: the history rule                                                *)
(* ================================================================== *)

Theorem history_draw : forall hs history jit cancel fuel s maxd cur ext a b prio w,
  (0 < cur)%N -> in_history history (hash hs s) = true -> snd (enter_node cancel w) = false ->
  analyze hs history jit cancel (S fuel) s maxd cur ext a b prio w =
  SVal EVEN (mkW (w_tt w) (w_jidx w) (w_nodes w + 1) (w_gnodes w + 1)
                 (w_flag w || match cancel with Some c => (c <=? w_gnodes w + 1)%N | None => false end)
                 ((hash hs s, cur, maxd, a, b) :: w_trace w)).
Proof.
  intros hs history jit cancel fuel s maxd cur ext a b prio w Hc Hh Hi.
  rewrite analyze_S. unfold node_body. rewrite Hi. cbv zeta. rewrite Hh.
  apply N.ltb_lt in Hc. rewrite Hc. reflexivity.
Qed.

Lemma iterate_history : forall hs jit_of cancel iters depth s history tt gnodes flag trace nt be bm acc,
  r_history (iterate hs jit_of cancel iters depth s history tt gnodes flag trace nt be bm acc) = history.
Proof.
  intros hs jit_of cancel iters. induction iters as [|k IH]; intros; cbn [iterate]; [reflexivity|].
  destruct ((0 <? depth) && flag); [reflexivity|].
  destruct (analyze _ _ _ _ _ _ _ _ _ _ _ _ _) as [ev w|w|site|]; try reflexivity.
  destruct (iter_moves _ _ _ _ _ _) as [|mv tl]; [reflexivity|].
  destruct (POS_INF <=? ev)%Z; [reflexivity|]. apply IH.
Qed.

Definition root_history (hs : hasher) (s : state) (history : list N) : list N :=
  if existsb (N.eqb (hash hs s)) history then history else hash hs s :: history.

Theorem root_recorded : forall hs jit_of cancel iters s history tt,
  analyze_iterative hs jit_of cancel iters s history tt =
    iterate hs jit_of cancel iters 0 s (root_history hs s history) tt 0
            (match cancel with Some 0%N => true | _ => false end) [] 0 NEG_INF None [] /\
  in_history (root_history hs s history) (hash hs s) = true /\
  (forall h, in_history history h = true -> in_history (root_history hs s history) h = true) /\
  r_history (analyze_iterative hs jit_of cancel iters s history tt) = root_history hs s history.
Proof.
  intros hs jit_of cancel iters s history tt. split; [reflexivity|]. split; [|split].
  - unfold root_history, in_history. destruct (existsb (N.eqb (hash hs s)) history) eqn:E; [exact E|].
    cbn [existsb]. rewrite N.eqb_refl. reflexivity.
  - intros h Hh. unfold root_history, in_history in *.
    destruct (existsb (N.eqb (hash hs s)) history); [exact Hh|].
    cbn [existsb]. rewrite Hh. apply orb_true_r.
  - unfold analyze_iterative. rewrite iterate_history. reflexivity.
Qed.

(* at the root (cur = 0) the history test is skipped: the node goes on to the table probe *)
Theorem root_not_drawn : forall hs history jit cancel fuel s maxd ext a b prio w,
  snd (enter_node cancel w) = false ->
  analyze hs history jit cancel (S fuel) s maxd 0 ext a b prio w =
  node_continue hs jit (analyze hs history jit cancel fuel) s maxd 0 ext a b prio
    (with_trace (fst (enter_node cancel w)) (hash hs s, 0, maxd, a, b)).
Proof.
  intros hs history jit cancel fuel s maxd ext a b prio w Hi.
  rewrite analyze_S. unfold node_body. rewrite Hi. reflexivity.
Qed.

(* ================================================================== *)
(* the access structure: well-formedness and find-after-insert          *)
(* ================================================================== *)

Definition tt_ok (a : access) : Prop :=
  exists nt nb, (0 < nt)%nat /\ (0 < nb)%nat /\ acc_ok nt nb a.

Lemma tt_ok_empty : forall nt nb, (0 < nt)%nat -> (0 < nb)%nat -> tt_ok (empty_access nt nb).
Proof. intros nt nb Hnt Hnb. exists nt, nb. split; [exact Hnt|]. split; [exact Hnb|]. apply empty_ok. Qed.

Lemma tt_ok_insert : forall a k e, tt_ok a -> tt_ok (acc_insert a k e).
Proof.
  intros a k e (nt & nb & Hnt & Hnb & Hok). exists nt, nb. split; [exact Hnt|]. split; [exact Hnb|].
  apply acc_insert_ok; assumption.
Qed.

Lemma acc_find_insert_cases : forall a k e k2 x, tt_ok a ->
  acc_find (acc_insert a k e) k2 = Some x -> (k2 = k /\ x = e) \/ (k2 <> k /\ acc_find a k2 = Some x).
Proof.
  intros a k e k2 x (nt & nb & Hnt & Hnb & Hok) H.
  destruct (N.eq_dec k2 k) as [->|Hne].
  - left. rewrite (find_insert_same nt nb a k e Hnt Hnb Hok) in H. injection H as <-. auto.
  - right. split; [exact Hne|]. destruct (victim_key a k e) as [v|] eqn:Ev.
    + destruct (N.eq_dec v k2) as [->|Hv].
      * rewrite (find_insert_evicted nt nb a k e k2 Hnt Hnb Hok Hne Ev) in H. discriminate H.
      * rewrite (find_insert_other nt nb a k e k2 Hnt Hnb Hok Hne) in H; [exact H|].
        rewrite Ev. intros E. injection E as E. exact (Hv E).
    + rewrite (find_insert_other nt nb a k e k2 Hnt Hnb Hok Hne) in H; [exact H|].
      rewrite Ev. discriminate.
Qed.

Lemma acc_find_insert_same : forall a k e, tt_ok a -> acc_find (acc_insert a k e) k = Some e.
Proof. intros a k e (nt & nb & Hnt & Hnb & Hok). exact (find_insert_same nt nb a k e Hnt Hnb Hok). Qed.

(* ================================================================== *)
(* the invariant principle for the table                                *)
(* ================================================================== *)

Lemma enter_node_tt : forall cancel w, w_tt (fst (enter_node cancel w)) = w_tt w.
Proof. reflexivity. Qed.

Section Invariant.
Variable hs : hasher.
Variable I : access -> Prop.
Hypothesis I_insert : forall tt s m k c md e, I tt -> LegalPos s -> In m (MoveGen.legal_moves s) -> (c < md)%N ->
  I (acc_insert tt (hash hs s) (mkEntry k m c md e)).

Theorem analyze_invariant : forall history jit cancel fuel s maxd cur ext a b prio w,
  I (w_tt w) -> LegalPos s -> (forall pm, prio = Some pm -> In pm (MoveGen.legal_moves s)) ->
  match analyze hs history jit cancel fuel s maxd cur ext a b prio w with
  | SVal _ w' => I (w_tt w')
  | SInterrupt w' => I (w_tt w')
  | _ => True
  end.
Proof.
  intros history jit cancel fuel s maxd cur ext a b prio w HI HL Hprio.
  pose proof (analyze_closure hs history jit cancel LegalPos
                (fun s m => In m (MoveGen.legal_moves s)) (fun s m => In m (MoveGen.legal_moves s))) as Hc.
  specialize (Hc (fun s m ns HLs Hm Ha Hk =>
    match Hm with
    | or_introl Hp => let '(conj _ (conj H1 H2)) := searched_move s m ns HLs Hp Ha Hk in conj H1 H2
    | or_intror Hq => let '(conj _ (conj H1 H2)) := searched_move s m ns HLs (legal_in_pseudo s m Hq) Ha Hk in conj H1 H2
    end)).
  specialize (Hc (fun w w' => I (w_tt w) -> I (w_tt w'))).
  specialize (Hc (fun w H => H) (fun w1 w2 w3 H12 H23 H => H23 (H12 H))
                 (fun w _ H => H) (fun w x H => H) (fun w d H => H)).
  specialize (Hc (fun w s m k c md e HLs HG Hlt H => I_insert (w_tt w) s m k c md e H HLs HG Hlt)).
  specialize (Hc fuel s maxd cur ext a b prio w HL Hprio).
  destruct (analyze hs history jit cancel fuel s maxd cur ext a b prio w) as [v w'|w'| |];
    cbn [closure_post] in Hc; [exact (Hc HI) | | exact Logic.I | exact Logic.I].
  destruct Hc as (w0 & H1 & _ & ->). rewrite enter_node_tt. exact (H1 HI).
Qed.
End Invariant.

(* ================================================================== *)
(* C03: stored moves are legal moves, reported lines are legal lines    *)
(* ================================================================== *)

Definition TInv (hs : hasher) (tt : access) : Prop :=
  forall h e, acc_find tt h = Some e ->
  forall s, LegalPos s -> hash hs s = h -> In (e_move e) (MoveGen.legal_moves s).

Definition HashFaithful (hs : hasher) : Prop :=
  forall s1 s2, LegalPos s1 -> LegalPos s2 -> hash hs s1 = hash hs s2 ->
  MoveGen.legal_moves s1 = MoveGen.legal_moves s2.

(* the residue follows from injectivity of the hash on rule keys *)
Lemma hash_injective_faithful : forall hs,
  (forall s1 s2, LegalPos s1 -> LegalPos s2 -> hash hs s1 = hash hs s2 -> rulekey s1 = rulekey s2) ->
  HashFaithful hs.
Proof.
  intros hs Hinj s1 s2 H1 H2 E. unfold MoveGen.legal_moves.
  apply same_key_same_moves; [exact (legal_pos_wf s1 H1) | exact (legal_pos_wf s2 H2) |].
  exact (Hinj s1 s2 H1 H2 E).
Qed.

Definition TGood (hs : hasher) (tt : access) : Prop := tt_ok tt /\ TInv hs tt.

Lemma TGood_insert : forall hs, HashFaithful hs ->
  forall tt s m k c md e, TGood hs tt -> LegalPos s -> In m (MoveGen.legal_moves s) -> (c < md)%N ->
  TGood hs (acc_insert tt (hash hs s) (mkEntry k m c md e)).
Proof.
  intros hs HF tt s m k c md e [Hok Hinv] HL Hm _. split; [apply tt_ok_insert; exact Hok|].
  intros h x Hfind s' HL' Hh.
  destruct (acc_find_insert_cases _ _ _ _ _ Hok Hfind) as [[Hk ->]|[_ Hold]].
  - cbn [e_move]. rewrite (HF s' s HL' HL); [exact Hm|]. rewrite Hh. exact Hk.
  - exact (Hinv h x Hold s' HL' Hh).
Qed.

Lemma TGood_empty : forall hs nt nb, (0 < nt)%nat -> (0 < nb)%nat -> TGood hs (empty_access nt nb).
Proof.
  intros hs nt nb Hnt Hnb. split; [apply tt_ok_empty; assumption|].
  intros h e H. pose proof (empty_refines nt nb Hnt Hnb h e H) as H1. discriminate H1.
Qed.

Theorem table_inv : forall hs history jit cancel fuel s maxd cur ext a b prio w,
  HashFaithful hs -> tt_ok (w_tt w) -> TInv hs (w_tt w) -> LegalPos s ->
  (forall pm, prio = Some pm -> In pm (MoveGen.legal_moves s)) ->
  match analyze hs history jit cancel fuel s maxd cur ext a b prio w with
  | SVal _ w' => tt_ok (w_tt w') /\ TInv hs (w_tt w')
  | SInterrupt w' => tt_ok (w_tt w') /\ TInv hs (w_tt w')
  | _ => True
  end.
Proof.
  intros hs history jit cancel fuel s maxd cur ext a b prio w HF Hok Hinv HL Hprio.
  exact (analyze_invariant hs (TGood hs) (TGood_insert hs HF) history jit cancel fuel s maxd cur ext a b prio w
           (conj Hok Hinv) HL Hprio).
Qed.

Fixpoint legal_line (s : state) (l : list N) : Prop :=
  match l with
  | [] => True
  | m :: tl => In m (MoveGen.legal_moves s) /\ exists n, apply_move s m = Some n /\ LegalPos n /\ legal_line n tl
  end.

Theorem lines_legal : forall hs fuel tt s idx maxd,
  TInv hs tt -> LegalPos s -> legal_line s (iter_moves hs fuel tt s idx maxd).
Proof.
  intros hs fuel tt. induction fuel as [|k IH]; intros s idx maxd Hinv HL; cbn [iter_moves]; [exact Logic.I|].
  destruct (maxd <? idx); [exact Logic.I|].
  destruct (acc_find tt (hash hs s)) as [e|] eqn:Ef; [|exact Logic.I].
  pose proof (Hinv _ e Ef s HL eq_refl) as Hm.
  destruct (legal_move_succ s (e_move e) HL Hm) as (n & _ & Ha & HLn).
  rewrite Ha. cbn [legal_line]. split; [exact Hm|]. exists n. split; [exact Ha|]. split; [exact HLn|].
  apply IH; assumption.
Qed.

Definition EvOk (s : state) (l : list event) : Prop :=
  forall ev line, In (EvBest ev line) l -> line <> [] /\ legal_line s line.

Lemma EvOk_cons_progress : forall s d n l, EvOk s l -> EvOk s (EvProgress d n :: l).
Proof. intros s d n l H ev line [E|Hin]; [discriminate E|exact (H ev line Hin)]. Qed.

Lemma EvOk_cons_best : forall s ev line l, line <> [] -> legal_line s line -> EvOk s l -> EvOk s (EvBest ev line :: l).
Proof.
  intros s ev line l H1 H2 H ev' line' [E|Hin]; [|exact (H ev' line' Hin)].
  injection E as <- <-. auto.
Qed.

Lemma EvOk_rev : forall s l, EvOk s l -> EvOk s (rev l).
Proof. intros s l H ev line Hin. apply in_rev in Hin. exact (H ev line Hin). Qed.

Lemma iterate_events : forall hs jit_of cancel, HashFaithful hs ->
  forall iters depth s history tt gnodes flag trace nt be bm acc,
  LegalPos s -> TGood hs tt -> (forall m, bm = Some m -> In m (MoveGen.legal_moves s)) -> EvOk s acc ->
  let r := iterate hs jit_of cancel iters depth s history tt gnodes flag trace nt be bm acc in
  EvOk s (r_events r) /\ TGood hs (r_tt r).
Proof.
  intros hs jit_of cancel HF iters. induction iters as [|k IH];
    intros depth s history tt gnodes flag trace nt be bm acc HL HG Hbm Hacc; cbn [iterate].
  - cbn [r_events r_tt]. split; [apply EvOk_rev; exact Hacc|exact HG].
  - destruct ((0 <? depth) && flag); [cbn [r_events r_tt]; split; [apply EvOk_rev; exact Hacc|exact HG]|].
    cbv zeta.
    pose proof (analyze_invariant hs (TGood hs) (TGood_insert hs HF) history (jit_of depth) cancel
                  (S (S (N.to_nat depth))) s (depth + 1) 0 0 (- mate_in_ply 0)%Z (mate_in_ply 0) bm
                  (mkW tt 0 0 gnodes flag trace) HG HL Hbm) as Hinv.
    destruct (analyze hs history (jit_of depth) cancel (S (S (N.to_nat depth))) s (depth + 1) 0 0
                      (- mate_in_ply 0)%Z (mate_in_ply 0) bm (mkW tt 0 0 gnodes flag trace)) as [ev w|w|site|].
    + pose proof (lines_legal hs (S (S (N.to_nat depth))) (w_tt w) s 0 depth (proj2 Hinv) HL) as Hline.
      destruct (iter_moves hs (S (S (N.to_nat depth))) (w_tt w) s 0 depth) as [|mv tl] eqn:El.
      * cbn [r_events r_tt]. split; [|exact Hinv]. apply EvOk_rev. apply EvOk_cons_progress. exact Hacc.
      * assert (Hacc2 : EvOk s (EvBest ev (mv :: tl) :: EvProgress (depth + 1) (nt + w_nodes w) :: acc)).
        { apply EvOk_cons_best; [discriminate|exact Hline|]. apply EvOk_cons_progress. exact Hacc. }
        destruct (POS_INF <=? ev)%Z.
        { cbn [r_events r_tt]. split; [apply EvOk_rev; exact Hacc2|exact Hinv]. }
        apply IH; [exact HL|exact Hinv| |exact Hacc2].
        intros m E. injection E as <-. exact (proj1 Hline).
    + cbn [r_events r_tt]. split; [|exact Hinv]. apply EvOk_rev.
      destruct (acc_find (w_tt w) (hash hs s)) as [x|]; [|exact Hacc].
      pose proof (lines_legal hs (S (S (N.to_nat depth))) (w_tt w) s 0 depth (proj2 Hinv) HL) as Hline.
      destruct (iter_moves hs (S (S (N.to_nat depth))) (w_tt w) s 0 depth) as [|mv tl].
      * rewrite andb_false_r. exact Hacc.
      * destruct ((be <? e_eval x)%Z && true); [|exact Hacc].
        apply EvOk_cons_best; [discriminate|exact Hline|exact Hacc].
    + cbn [r_events r_tt]. split; [apply EvOk_rev; exact Hacc|exact HG].
    + cbn [r_events r_tt]. split; [apply EvOk_rev; exact Hacc|exact HG].
Qed.

Theorem events_legal : forall hs jit_of cancel iters s history tt,
  HashFaithful hs -> LegalPos s -> tt_ok tt -> TInv hs tt ->
  let r := analyze_iterative hs jit_of cancel iters s history tt in
  (forall ev line, In (EvBest ev line) (r_events r) -> line <> [] /\ legal_line s line) /\
  tt_ok (r_tt r) /\ TInv hs (r_tt r).
Proof.
  intros hs jit_of cancel iters s history tt HF HL Hok Hinv. unfold analyze_iterative.
  apply (iterate_events hs jit_of cancel HF); [exact HL|exact (conj Hok Hinv)| |].
  - intros m E. discriminate E.
  - intros ev line [].
Qed.

(* a boolean test for legal_line (used to exhibit, on a colliding hasher, a reported line that is NOT legal:
   the residue HashFaithful cannot be dropped) *)
Fixpoint legal_lineb (s : state) (l : list N) : bool :=
  match l with
  | [] => true
  | m :: tl => existsb (N.eqb m) (MoveGen.legal_moves s) &&
               match apply_move s m with Some n => legal_lineb n tl | None => false end
  end.

Lemma legal_lineb_complete : forall l s, legal_line s l -> legal_lineb s l = true.
Proof.
  induction l as [|m tl IH]; intros s H; cbn [legal_lineb]; [reflexivity|].
  cbn [legal_line] in H. destruct H as (Hin & n & Ha & _ & Hl).
  apply andb_true_iff. split.
  - apply existsb_exists. exists m. split; [exact Hin|apply N.eqb_refl].
  - rewrite Ha. apply IH. exact Hl.
Qed.

Lemma legal_lineb_false : forall l s, legal_lineb s l = false -> ~ legal_line s l.
Proof. intros l s H Hl. rewrite (legal_lineb_complete l s Hl) in H. discriminate H. Qed.
