(* Theorems about model/Search.v, part 4: the whole iterative run never ends in a panic or out of fuel
   (outcome 0 or 1), and the stop bound for a cancellation that happens in the middle of a run. *)
From Coq Require Import NArith ZArith List Bool Lia ZifyBool ZifyN ZifyNat.
From WV Require Import Types Bits Attacks Board MoveEnc MoveGen Text Table Eval Search.
From WV Require Import Rules Abs Wf Encode.
From WV Require Import GenLegal TableProofs SearchBase SearchProofs SearchSafety SearchMen.
Import ListNotations.
Import WV.Bits.
Open Scope N_scope.
Ltac Zify.zify_post_hook ::= Z.div_mod_to_equations.

Theorem quiesce_fuel_ok : QuiesceFuelOk.
Proof. exact (quiesce_no_fuel capture_men). Qed.

(* ================================================================== *)
(* the iterative run                                                    *)
(* ================================================================== *)

Definition TAll (hs : hasher) (tt : access) : Prop := tt_ok tt /\ TInv hs tt /\ TEntriesOk tt.

Lemma TAll_insert : forall hs, HashFaithful hs ->
  forall tt s m k c md e, TAll hs tt -> LegalPos s -> In m (MoveGen.legal_moves s) -> (c < md)%N ->
  TAll hs (acc_insert tt (hash hs s) (mkEntry k m c md e)).
Proof.
  intros hs HF tt s m k c md e (H1 & H2 & H3) HL Hm Hlt.
  destruct (TGood_insert hs HF tt s m k c md e (conj H1 H2) HL Hm Hlt) as [G1 G2].
  destruct (TSafe_insert hs tt s m k c md e (conj H1 H3) HL Hm Hlt) as [_ G3].
  exact (conj G1 (conj G2 G3)).
Qed.

Lemma TAll_empty : forall hs nt nb, (0 < nt)%nat -> (0 < nb)%nat -> TAll hs (empty_access nt nb).
Proof.
  intros hs nt nb Hnt Hnb. destruct (TGood_empty hs nt nb Hnt Hnb) as [H1 H2].
  destruct (TSafe_empty nt nb Hnt Hnb) as [_ H3]. exact (conj H1 (conj H2 H3)).
Qed.

Lemma iterate_safe : EvalTotal -> forall hs jit_of cancel, HashFaithful hs ->
  forall iters depth s history tt gnodes flag trace nt be bm acc,
  LegalPos s -> TAll hs tt -> (forall m, bm = Some m -> In m (MoveGen.legal_moves s)) ->
  let r := iterate hs jit_of cancel iters depth s history tt gnodes flag trace nt be bm acc in
  (r_outcome r = 0 \/ r_outcome r = 1) /\ TAll hs (r_tt r).
Proof.
  intros ET hs jit_of cancel HF iters. induction iters as [|k IH];
    intros depth s history tt gnodes flag trace nt be bm acc HL HT Hbm; cbn [iterate].
  - cbn [r_outcome r_tt]. auto.
  - destruct ((0 <? depth) && flag); [cbn [r_outcome r_tt]; auto|]. cbv zeta.
    set (w0 := mkW tt 0 0 gnodes flag trace).
    pose proof (analyze_invariant hs (TAll hs) (TAll_insert hs HF) history (jit_of depth) cancel
                  (S (S (N.to_nat depth))) s (depth + 1) 0 0 (- mate_in_ply 0)%Z (mate_in_ply 0) bm w0 HT HL Hbm) as Hinv.
    destruct HT as (H1 & H2 & H3).
    pose proof (fun site => analyze_no_panic hs history (jit_of depth) cancel ET (S (S (N.to_nat depth))) s (depth + 1) 0 0
                  (- mate_in_ply 0)%Z (mate_in_ply 0) bm w0 site H1 H3 HL (N.le_0_l _) Hbm) as Hnp.
    assert (Hfu : (N.to_nat (depth + 1 - 0) < S (S (N.to_nat depth)))%nat) by lia.
    pose proof (analyze_no_fuel hs history (jit_of depth) cancel quiesce_fuel_ok (S (S (N.to_nat depth))) s (depth + 1) 0 0
                  (- mate_in_ply 0)%Z (mate_in_ply 0) bm w0 HL Hbm Hfu) as Hnf.
    destruct (analyze hs history (jit_of depth) cancel (S (S (N.to_nat depth))) s (depth + 1) 0 0
                      (- mate_in_ply 0)%Z (mate_in_ply 0) bm w0) as [ev w|w|site|].
    + pose proof (lines_legal hs (S (S (N.to_nat depth))) (w_tt w) s 0 depth (proj1 (proj2 Hinv)) HL) as Hline.
      destruct (iter_moves hs (S (S (N.to_nat depth))) (w_tt w) s 0 depth) as [|mv tl].
      * cbn [r_outcome r_tt]. auto.
      * destruct (POS_INF <=? ev)%Z; [cbn [r_outcome r_tt]; auto|].
        apply IH; [exact HL|exact Hinv|]. intros m E. injection E as <-. exact (proj1 Hline).
    + cbn [r_outcome r_tt]. auto.
    + exfalso. exact (Hnp site eq_refl).
    + exfalso. exact (Hnf eq_refl).
Qed.

Theorem iterative_safe : EvalTotal -> forall hs jit_of cancel iters s history tt,
  HashFaithful hs -> LegalPos s -> tt_ok tt -> TInv hs tt -> TEntriesOk tt ->
  let r := analyze_iterative hs jit_of cancel iters s history tt in
  (r_outcome r = 0 \/ r_outcome r = 1) /\ tt_ok (r_tt r) /\ TInv hs (r_tt r) /\ TEntriesOk (r_tt r).
Proof.
  intros ET hs jit_of cancel iters s history tt HF HL H1 H2 H3. unfold analyze_iterative.
  apply (iterate_safe ET hs jit_of cancel HF); [exact HL|exact (conj H1 (conj H2 H3))|].
  intros m E. discriminate E.
Qed.

(* ================================================================== *)
(* the stop bound for a cancellation in the middle of a run             *)
(* ================================================================== *)

Definition ceil_poll (n : N) : N := ((n + (poll_period - 1)) / poll_period) * poll_period.

Section Cancel.
Variable c : N.     (* cancel_at = Some c: the flag is set by the c-th node entry of the run *)

(* the flag is set as soon as c entries have been counted *)
Definition cinv (w : wstate) : Prop := c <= w_gnodes w -> w_flag w = true.
(* the per-iteration node number at which the interrupt must have happened *)
Definition stop_target (w : wstate) : N := ceil_poll (w_nodes w + N.max 1 (c - w_gnodes w)).

Definition crel (w w' : wstate) : Prop :=
  cinv w -> cinv w' /\ w_nodes w <= w_nodes w' /\ w_gnodes w' + w_nodes w = w_gnodes w + w_nodes w' /\
            w_nodes w' < stop_target w.

Lemma crel_refl : forall w, crel w w.
Proof.
  intros w Hc. split; [exact Hc|]. split; [lia|]. split; [lia|].
  unfold stop_target, ceil_poll, poll_period. lia.
Qed.

Lemma stop_target_same : forall w w', w_nodes w <= w_nodes w' ->
  w_gnodes w' + w_nodes w = w_gnodes w + w_nodes w' -> w_nodes w' < stop_target w ->
  stop_target w' = stop_target w.
Proof.
  intros w w' H1 H2 H3. unfold stop_target, ceil_poll, poll_period in *.
  assert (E : (w_nodes w' + N.max 1 (c - w_gnodes w') + (10000 - 1)) / 10000 =
              (w_nodes w + N.max 1 (c - w_gnodes w) + (10000 - 1)) / 10000) by lia.
  rewrite E. reflexivity.
Qed.

Lemma crel_trans : forall w1 w2 w3, crel w1 w2 -> crel w2 w3 -> crel w1 w3.
Proof.
  intros w1 w2 w3 H12 H23 Hc. destruct (H12 Hc) as (A1 & A2 & A3 & A4).
  destruct (H23 A1) as (B1 & B2 & B3 & B4). split; [exact B1|]. split; [lia|]. split; [lia|].
  rewrite (stop_target_same w1 w2 A2 A3 A4) in B4. exact B4.
Qed.

Lemma crel_enter : forall w, snd (enter_node (Some c) w) = false -> crel w (fst (enter_node (Some c) w)).
Proof.
  intros w Hi Hc. unfold cinv, stop_target, ceil_poll, enter_node in *.
  cbn [fst snd w_flag w_nodes w_gnodes] in *.
  split.
  - intros Hle. apply N.leb_le in Hle. rewrite Hle. apply orb_true_r.
  - split; [clear; lia|]. split; [clear; lia|].
    destruct (w_flag w) eqn:Hf; cbn [orb] in Hi.
    + rewrite andb_true_r in Hi. apply N.eqb_neq in Hi. unfold poll_period in *. lia.
    + destruct (c <=? w_gnodes w + 1) eqn:Hle.
      * rewrite andb_true_r in Hi. apply N.eqb_neq in Hi. apply N.leb_le in Hle. unfold poll_period in *. lia.
      * apply N.leb_gt in Hle. clear Hi. unfold poll_period in *. lia.
Qed.

Theorem stop_bound_cancel : forall hs history jit fuel s maxd cur ext a b prio w,
  cinv w ->
  match analyze hs history jit (Some c) fuel s maxd cur ext a b prio w with
  | SVal _ w' => cinv w' /\ w_nodes w <= w_nodes w' /\ w_nodes w' < stop_target w /\
                 w_gnodes w' + w_nodes w = w_gnodes w + w_nodes w'
  | SInterrupt w' => w_flag w' = true /\ w_nodes w < w_nodes w' /\ w_nodes w' <= stop_target w /\
                     w_gnodes w' + w_nodes w = w_gnodes w + w_nodes w'
  | _ => True
  end.
Proof.
  intros hs history jit fuel s maxd cur ext a b prio w Hc.
  pose proof (analyze_closure hs history jit (Some c) (fun _ => True) (fun _ _ => True) (fun _ _ => True)
                (fun _ _ _ _ _ _ _ => conj Logic.I Logic.I) crel crel_refl crel_trans
                crel_enter (fun w x => crel_refl w)) as H.
  specialize (H (fun w d => crel_refl w)).
  specialize (H (fun w s m k c0 md e _ _ _ => crel_refl w)).
  specialize (H fuel s maxd cur ext a b prio w Logic.I (fun _ _ => Logic.I)).
  destruct (analyze hs history jit (Some c) fuel s maxd cur ext a b prio w) as [v w'|w'| |];
    cbn [closure_post] in H; [| |exact Logic.I|exact Logic.I].
  - destruct (H Hc) as (A1 & A2 & A3 & A4). auto.
  - destruct H as (w0 & H0 & Hi & ->). destruct (H0 Hc) as (A1 & A2 & A3 & A4).
    unfold enter_node in *. cbn [fst snd w_flag w_nodes w_gnodes] in *.
    apply andb_true_iff in Hi. destruct Hi as [_ Hi]. split; [exact Hi|]. lia.
Qed.

(* the target is less than poll_period nodes after the entry that sets the flag *)
Lemma stop_target_bound : forall w, stop_target w < w_nodes w + N.max 1 (c - w_gnodes w) + poll_period.
Proof. intros w. unfold stop_target, ceil_poll, poll_period. lia. Qed.

(* in terms of the run counter: fewer than poll_period node entries after the c-th one *)
Corollary stop_bound_cancel_gnodes : forall hs history jit fuel s maxd cur ext a b prio w,
  cinv w -> w_gnodes w < c ->
  match analyze hs history jit (Some c) fuel s maxd cur ext a b prio w with
  | SVal _ w' => w_gnodes w' < c + poll_period
  | SInterrupt w' => w_gnodes w' < c + poll_period
  | _ => True
  end.
Proof.
  intros hs history jit fuel s maxd cur ext a b prio w Hc Hlt.
  pose proof (stop_bound_cancel hs history jit fuel s maxd cur ext a b prio w Hc) as H.
  pose proof (stop_target_bound w) as Hb.
  destruct (analyze hs history jit (Some c) fuel s maxd cur ext a b prio w) as [v w'|w'| |];
    [| |exact Logic.I|exact Logic.I]; unfold poll_period in *; lia.
Qed.
End Cancel.

(* quiescence with its own fuel always returns a value *)
Theorem quiesce_total : EvalTotal -> forall s depth alpha beta, LegalPos s ->
  exists v, quiesce (S (men s)) s depth alpha beta = QVal v.
Proof.
  intros ET s depth alpha beta HL.
  pose proof (fun site => quiesce_no_panic ET (S (men s)) s depth alpha beta site HL) as H1.
  pose proof (quiesce_fuel_ok s depth alpha beta HL) as H2.
  destruct (quiesce (S (men s)) s depth alpha beta) as [v|site|];
    [exists v; reflexivity | exfalso; exact (H1 site eq_refl) | exfalso; exact (H2 eq_refl)].
Qed.

(* one call of analyze_recursive from a legal position with a sane table, with the fuel the callers give it:
   a value or an interrupt, never a panic site, never out of fuel *)
Theorem analyze_safe : EvalTotal -> forall hs history jit cancel fuel s maxd cur ext a b prio w,
  tt_ok (w_tt w) -> TEntriesOk (w_tt w) -> LegalPos s -> (cur <= maxd)%N ->
  (N.to_nat (maxd - cur) < fuel)%nat ->
  (forall pm, prio = Some pm -> In pm (MoveGen.legal_moves s)) ->
  match analyze hs history jit cancel fuel s maxd cur ext a b prio w with
  | SVal _ w' => tt_ok (w_tt w') /\ TEntriesOk (w_tt w')
  | SInterrupt w' => tt_ok (w_tt w') /\ TEntriesOk (w_tt w')
  | _ => False
  end.
Proof.
  intros ET hs history jit cancel fuel s maxd cur ext a b prio w H1 H2 HL Hle Hf Hprio.
  pose proof (analyze_invariant hs TSafe (TSafe_insert hs) history jit cancel fuel s maxd cur ext a b prio w
                (conj H1 H2) HL Hprio) as Hinv.
  pose proof (fun site => analyze_no_panic hs history jit cancel ET fuel s maxd cur ext a b prio w site H1 H2 HL Hle Hprio) as Hnp.
  pose proof (analyze_no_fuel hs history jit cancel quiesce_fuel_ok fuel s maxd cur ext a b prio w HL Hprio Hf) as Hnf.
  destruct (analyze hs history jit cancel fuel s maxd cur ext a b prio w) as [v w'|w'|site|];
    [exact Hinv | exact Hinv | exact (Hnp site eq_refl) | exact (Hnf eq_refl)].
Qed.
