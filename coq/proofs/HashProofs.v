(* Proofs for property C08: the Zobrist hash (model/Text.v: hasher, hash_pieces, ep_capturable, hash).

   Structure:
     1. xor folds over lists (xfold), permutation invariance, symmetric difference
     2. iter_ones has no duplicates
     3. the rule key; the hash depends on the rule key only
     4. feature form of the hash; membership characterisation of the feature list
     5. features are duplicate free and, as a set, equivalent to the rule key
     6. separation: a collision between different rule keys is an xor relation among table keys
     7. the moves offered depend on the rule key only *)
From Coq Require Import NArith ZArith List Bool Lia ZifyBool ZifyN ZifyNat Permutation.
From WV Require Import Text Wf BitsProofs.
From WV Require C09.
Import ListNotations.
Open Scope N_scope.
Ltac Zify.zify_post_hook ::= Z.div_mod_to_equations.
#[local] Arguments N.add : simpl never.
#[local] Arguments N.sub : simpl never.
#[local] Arguments N.mul : simpl never.
#[local] Arguments N.land : simpl never.
#[local] Arguments N.lor : simpl never.
#[local] Arguments N.lxor : simpl never.
#[local] Arguments N.shiftl : simpl never.
#[local] Arguments N.shiftr : simpl never.
#[local] Arguments N.modulo : simpl never.
#[local] Arguments N.div : simpl never.

(* ------------------------------------------------------------------ *)
(* 1. xor folds                                                        *)
(* ------------------------------------------------------------------ *)

Definition xfold (l : list N) : N := fold_right N.lxor 0 l.

Lemma xfold_app : forall l1 l2, xfold (l1 ++ l2) = N.lxor (xfold l1) (xfold l2).
Proof.
  induction l1 as [|x l1 IH]; intros l2; cbn [app xfold fold_right].
  - rewrite N.lxor_0_l. reflexivity.
  - fold (xfold (l1 ++ l2)). fold (xfold l1). rewrite IH, N.lxor_assoc. reflexivity.
Qed.

Lemma xfold_cons : forall x l, xfold (x :: l) = N.lxor x (xfold l).
Proof. reflexivity. Qed.

Lemma xfold_perm : forall l l', Permutation l l' -> xfold l = xfold l'.
Proof.
  intros l l' HP. induction HP as [| x l l' HP IH | x y l | l l' l'' HP1 IH1 HP2 IH2].
  - reflexivity.
  - rewrite !xfold_cons, IH. reflexivity.
  - rewrite !xfold_cons, <- !N.lxor_assoc, (N.lxor_comm y x). reflexivity.
  - rewrite IH1. exact IH2.
Qed.

Lemma fold_left_xor : forall (A : Type) (g : A -> N) (l : list A) (a : N),
  fold_left (fun acc x => N.lxor acc (g x)) l a = N.lxor a (xfold (map g l)).
Proof.
  intros A g. induction l as [|x l IH]; intros a; cbn [fold_left map].
  - cbn [xfold fold_right]. rewrite N.lxor_0_r. reflexivity.
  - rewrite IH, xfold_cons, N.lxor_assoc. reflexivity.
Qed.

Lemma xfold_filter_split : forall (A : Type) (g : A -> N) (f : A -> bool) (l : list A),
  xfold (map g l) = N.lxor (xfold (map g (filter f l))) (xfold (map g (filter (fun x => negb (f x)) l))).
Proof.
  intros A g f. induction l as [|x l IH]; cbn [filter map].
  - reflexivity.
  - rewrite xfold_cons, IH. destruct (f x); cbn [negb map]; rewrite xfold_cons.
    + rewrite N.lxor_assoc. reflexivity.
    + rewrite <- N.lxor_assoc, (N.lxor_comm (g x)), N.lxor_assoc. reflexivity.
Qed.

(* --- lists without duplicates --- *)

Lemma NoDup_app_intro : forall (A : Type) (l1 l2 : list A),
  NoDup l1 -> NoDup l2 -> (forall x, In x l1 -> In x l2 -> False) -> NoDup (l1 ++ l2).
Proof.
  intros A l1 l2 H1. induction H1 as [|x l1 Hx H1 IH]; intros H2 Hd; cbn [app].
  - exact H2.
  - constructor.
    + rewrite in_app_iff. intros [Hi | Hi]; [exact (Hx Hi)|]. apply (Hd x); [left; reflexivity | exact Hi].
    + apply IH; [exact H2|]. intros y Hy1 Hy2. apply (Hd y); [right; exact Hy1 | exact Hy2].
Qed.

Lemma NoDup_flat_map_intro : forall (A B : Type) (f : A -> list B) (l : list A),
  NoDup l -> (forall x, In x l -> NoDup (f x)) ->
  (forall x y z, In x l -> In y l -> In z (f x) -> In z (f y) -> x = y) ->
  NoDup (flat_map f l).
Proof.
  intros A B f l HN. induction HN as [|x l Hx HN IH]; intros Hf Hd; cbn [flat_map].
  - constructor.
  - apply NoDup_app_intro.
    + apply Hf. left; reflexivity.
    + apply IH.
      * intros y Hy. apply Hf. right; exact Hy.
      * intros y1 y2 z Hy1 Hy2. apply Hd; right; assumption.
    + intros z Hz1 Hz2. apply in_flat_map in Hz2. destruct Hz2 as [y [Hy Hzy]].
      assert (E : x = y) by (apply (Hd x y z); [left; reflexivity | right; exact Hy | exact Hz1 | exact Hzy]).
      subst y. exact (Hx Hy).
Qed.

Lemma NoDup_map_inj : forall (A B : Type) (f : A -> B) (l : list A),
  (forall x y, f x = f y -> x = y) -> NoDup l -> NoDup (map f l).
Proof.
  intros A B f l Hinj HN. induction HN as [|x l Hx HN IH]; cbn [map]; constructor.
  - intros Hi. apply in_map_iff in Hi. destruct Hi as [y [E Hy]]. apply Hinj in E. subst y. exact (Hx Hy).
  - exact IH.
Qed.

Lemma NoDup_filter_keep : forall (A : Type) (f : A -> bool) (l : list A), NoDup l -> NoDup (filter f l).
Proof.
  intros A f l HN. induction HN as [|x l Hx HN IH]; cbn [filter]; [constructor|].
  destruct (f x); [|exact IH]. constructor; [|exact IH].
  intros Hi. apply filter_In in Hi. exact (Hx (proj1 Hi)).
Qed.

Lemma filter_length_le : forall (A : Type) (f : A -> bool) (l : list A), (length (filter f l) <= length l)%nat.
Proof.
  intros A f. induction l as [|x l IH]; cbn [filter length]; [lia|]. destruct (f x); cbn [length]; lia.
Qed.

(* --- symmetric difference of two lists over a type with decidable equality --- *)
Section SymDiff.
  Variable A : Type.
  Variable eq_dec : forall x y : A, {x = y} + {x <> y}.

  Definition inb (x : A) (l : list A) : bool := if in_dec eq_dec x l then true else false.

  Lemma inb_true : forall x l, inb x l = true <-> In x l.
  Proof. intros x l. unfold inb. destruct (in_dec eq_dec x l) as [H|H]; split; intros H'; try assumption; try reflexivity; try discriminate. contradiction. Qed.

  Lemma inb_false : forall x l, inb x l = false <-> ~ In x l.
  Proof. intros x l. unfold inb. destruct (in_dec eq_dec x l) as [H|H]; split; intros H'; try assumption; try reflexivity; try discriminate. contradiction. Qed.

  Definition symdiff (l1 l2 : list A) : list A :=
    filter (fun x => negb (inb x l2)) l1 ++ filter (fun x => negb (inb x l1)) l2.

  Lemma symdiff_In : forall l1 l2 x, In x (symdiff l1 l2) <-> (In x l1 /\ ~ In x l2) \/ (In x l2 /\ ~ In x l1).
  Proof.
    intros l1 l2 x. unfold symdiff. rewrite in_app_iff, !filter_In, !negb_true_iff, !inb_false. reflexivity.
  Qed.

  Lemma symdiff_NoDup : forall l1 l2, NoDup l1 -> NoDup l2 -> NoDup (symdiff l1 l2).
  Proof.
    intros l1 l2 H1 H2. unfold symdiff. apply NoDup_app_intro.
    - apply NoDup_filter_keep. exact H1.
    - apply NoDup_filter_keep. exact H2.
    - intros x Hx1 Hx2. apply filter_In in Hx1. apply filter_In in Hx2.
      destruct Hx1 as [Hi1 Hn1]. destruct Hx2 as [Hi2 Hn2].
      apply negb_true_iff, inb_false in Hn1. exact (Hn1 Hi2).
  Qed.

  Lemma symdiff_length : forall l1 l2, (length (symdiff l1 l2) <= length l1 + length l2)%nat.
  Proof.
    intros l1 l2. unfold symdiff. rewrite app_length.
    pose proof (filter_length_le A (fun x => negb (inb x l2)) l1).
    pose proof (filter_length_le A (fun x => negb (inb x l1)) l2). lia.
  Qed.

  Lemma symdiff_nil : forall l1 l2, symdiff l1 l2 = [] -> forall x, In x l1 <-> In x l2.
  Proof.
    intros l1 l2 E x.
    assert (Hn : ~ In x (symdiff l1 l2)) by (rewrite E; intros []).
    rewrite symdiff_In in Hn.
    split; intros Hi.
    - destruct (in_dec eq_dec x l2) as [H|H]; [exact H|]. exfalso. apply Hn. left. split; assumption.
    - destruct (in_dec eq_dec x l1) as [H|H]; [exact H|]. exfalso. apply Hn. right. split; assumption.
  Qed.

  Lemma xfold_symdiff : forall (g : A -> N) l1 l2, NoDup l1 -> NoDup l2 ->
    N.lxor (xfold (map g l1)) (xfold (map g l2)) = xfold (map g (symdiff l1 l2)).
  Proof.
    intros g l1 l2 H1 H2.
    rewrite (xfold_filter_split A g (fun x => inb x l2) l1).
    rewrite (xfold_filter_split A g (fun x => inb x l1) l2).
    unfold symdiff. rewrite map_app, xfold_app.
    assert (EP : xfold (map g (filter (fun x => inb x l2) l1)) = xfold (map g (filter (fun x => inb x l1) l2))).
    { apply xfold_perm, Permutation_map, NoDup_Permutation.
      - apply NoDup_filter_keep. exact H1.
      - apply NoDup_filter_keep. exact H2.
      - intros x. rewrite !filter_In, !inb_true. tauto. }
    rewrite EP.
    set (c := xfold (map g (filter (fun x => inb x l1) l2))).
    set (a := xfold (map g (filter (fun x => negb (inb x l2)) l1))).
    set (b := xfold (map g (filter (fun x => negb (inb x l1)) l2))).
    rewrite (N.lxor_comm c a), N.lxor_assoc, <- (N.lxor_assoc c c b), N.lxor_nilpotent, N.lxor_0_l.
    reflexivity.
  Qed.
End SymDiff.

(* ------------------------------------------------------------------ *)
(* 2. iter_ones has no duplicates                                      *)
(* ------------------------------------------------------------------ *)

Lemma ones_pos_NoDup : forall p i, NoDup (ones_pos p i).
Proof.
  induction p as [q IH | q IH |]; intros i; cbn [ones_pos].
  - constructor; [|apply IH]. intros Hi. apply ones_pos_spec in Hi. destruct Hi as [j [E _]]. lia.
  - apply IH.
  - constructor; [intros [] | constructor].
Qed.

Lemma iter_ones_NoDup : forall b, NoDup (iter_ones b).
Proof. intros [|p]; cbn [iter_ones]; [constructor | apply ones_pos_NoDup]. Qed.

(* ------------------------------------------------------------------ *)
(* 3. the rule key                                                     *)
(* ------------------------------------------------------------------ *)

(* the rule-relevant key of a state: placement, side, four rights, capturable en-passant target *)
Definition rulekey (s : state) : board * color * (bool * bool * bool * bool) * option N :=
  (st_board s, st_turn s, (st_wk s, st_wq s, st_bk s, st_bq s), ep_capturable s).

(* the hash as a function of the components of the rule key *)
Definition hash_core (h : hasher) (b : board) (t : color) (wk wq bk bq : bool) (epc : option N) : N :=
  let x0 := hash_pieces h b in
  let x1 := N.lxor x0 (nthN (k_turn h) (if is_white t then 0 else 1) 0) in
  let x2 := fold_left (fun acc ck =>
              if castle_right (mkState b t wk wq bk bq None 0 0) (fst ck) (snd ck)
              then N.lxor acc (nthN (k_castle h) ((if is_white (fst ck) then 0 else 2) + (if snd ck then 0 else 1)) 0)
              else acc)
              [(White, true); (White, false); (Black, true); (Black, false)] x1 in
  match epc with
  | Some t => N.lxor x2 (nthN (k_ep h) (file_of t) 0)
  | None => x2
  end.

Lemma hash_as_core : forall h s,
  hash h s = hash_core h (st_board s) (st_turn s) (st_wk s) (st_wq s) (st_bk s) (st_bq s) (ep_capturable s).
Proof. intros h s. reflexivity. Qed.

Theorem same_key_same_hash : forall h s1 s2, rulekey s1 = rulekey s2 -> hash h s1 = hash h s2.
Proof.
  intros h s1 s2 E. unfold rulekey in E. injection E as Eb Et Ewk Ewq Ebk Ebq Eep.
  rewrite !hash_as_core, Eb, Et, Ewk, Ewq, Ebk, Ebq, Eep. reflexivity.
Qed.

Theorem counters_and_path_irrelevant : forall h b t wk wq bk bq ep h1 f1 h2 f2,
  hash h (mkState b t wk wq bk bq ep h1 f1) = hash h (mkState b t wk wq bk bq ep h2 f2).
Proof. intros. apply same_key_same_hash. reflexivity. Qed.

Theorem uncapturable_ep_irrelevant : forall h s ep',
  ep_capturable s = None ->
  ep_capturable (mkState (st_board s) (st_turn s) (st_wk s) (st_wq s) (st_bk s) (st_bq s) ep' (st_half s) (st_full s)) = None ->
  hash h (mkState (st_board s) (st_turn s) (st_wk s) (st_wq s) (st_bk s) (st_bq s) ep' (st_half s) (st_full s)) = hash h s.
Proof.
  intros h s ep' H1 H2. apply same_key_same_hash. unfold rulekey. rewrite H1, H2. reflexivity.
Qed.

(* ------------------------------------------------------------------ *)
(* 4. feature form                                                     *)
(* ------------------------------------------------------------------ *)

Inductive feature :=
| FPiece (sq : N) (c : color) (p : piece)
| FTurn (c : color)
| FCastle (c : color) (kingside : bool)
| FEp (file : N).

Definition key_of (h : hasher) (f : feature) : N :=
  match f with
  | FPiece sq c p => nthN (k_piece h) (sq * 16 + piece_index c p) 0
  | FTurn c => nthN (k_turn h) (if is_white c then 0 else 1) 0
  | FCastle c ks => nthN (k_castle h) ((if is_white c then 0 else 2) + (if ks then 0 else 1)) 0
  | FEp f => nthN (k_ep h) f 0
  end.

Definition slot_features (b : board) (c : color) (p : piece) : list feature :=
  map (fun sq => FPiece sq c p) (iter_ones (pocc b c p)).
Definition color_features (b : board) (c : color) : list feature :=
  flat_map (slot_features b c) (PNone :: all_pieces).
Definition piece_features (b : board) : list feature :=
  flat_map (color_features b) all_colors.

Definition castle_pairs : list (color * bool) := [(White, true); (White, false); (Black, true); (Black, false)].
Definition castle_features (s : state) : list feature :=
  flat_map (fun ck => if castle_right s (fst ck) (snd ck) then [FCastle (fst ck) (snd ck)] else []) castle_pairs.
Definition ep_features (s : state) : list feature :=
  match ep_capturable s with Some t => [FEp (file_of t)] | None => [] end.

Definition features (s : state) : list feature :=
  piece_features (st_board s) ++ FTurn (st_turn s) :: castle_features s ++ ep_features s.

Lemma hash_slot_fold : forall h c p l a,
  fold_left (fun acc sq => N.lxor acc (nthN (k_piece h) (sq * 16 + piece_index c p) 0)) l a
  = N.lxor a (xfold (map (key_of h) (map (fun sq => FPiece sq c p) l))).
Proof.
  intros h c p l a. rewrite map_map. cbn [key_of].
  apply (fold_left_xor N (fun sq => nthN (k_piece h) (sq * 16 + piece_index c p) 0)).
Qed.

Lemma hash_color_fold : forall h b c ps a,
  fold_left (fun acc p =>
      fold_left (fun acc sq => N.lxor acc (nthN (k_piece h) (sq * 16 + piece_index c p) 0))
                (iter_ones (pocc b c p)) acc) ps a
  = N.lxor a (xfold (map (key_of h) (flat_map (slot_features b c) ps))).
Proof.
  intros h b c. induction ps as [|p ps IH]; intros a; cbn [fold_left flat_map].
  - cbn [map xfold fold_right]. rewrite N.lxor_0_r. reflexivity.
  - rewrite IH, hash_slot_fold, map_app, xfold_app, N.lxor_assoc. reflexivity.
Qed.

Lemma hash_pieces_fold : forall h b ps cs a,
  fold_left (fun acc c =>
    fold_left (fun acc p =>
      fold_left (fun acc sq => N.lxor acc (nthN (k_piece h) (sq * 16 + piece_index c p) 0))
                (iter_ones (pocc b c p)) acc)
      ps acc) cs a
  = N.lxor a (xfold (map (key_of h) (flat_map (fun c => flat_map (slot_features b c) ps) cs))).
Proof.
  intros h b ps. induction cs as [|c cs IH]; intros a; cbn [fold_left flat_map].
  - cbn [map xfold fold_right]. rewrite N.lxor_0_r. reflexivity.
  - rewrite IH, hash_color_fold, map_app, xfold_app, N.lxor_assoc. reflexivity.
Qed.

Lemma hash_pieces_features : forall h b, hash_pieces h b = xfold (map (key_of h) (piece_features b)).
Proof.
  intros h b. unfold hash_pieces, piece_features, color_features. rewrite hash_pieces_fold, N.lxor_0_l. reflexivity.
Qed.

Lemma hash_castle_fold : forall h s l a,
  fold_left (fun acc ck =>
     if castle_right s (fst ck) (snd ck)
     then N.lxor acc (nthN (k_castle h) ((if is_white (fst ck) then 0 else 2) + (if snd ck then 0 else 1)) 0)
     else acc) l a
  = N.lxor a (xfold (map (key_of h)
       (flat_map (fun ck => if castle_right s (fst ck) (snd ck) then [FCastle (fst ck) (snd ck)] else []) l))).
Proof.
  intros h s. induction l as [|ck l IH]; intros a; cbn [fold_left flat_map].
  - cbn [map xfold fold_right]. rewrite N.lxor_0_r. reflexivity.
  - rewrite IH, map_app, xfold_app. destruct (castle_right s (fst ck) (snd ck)).
    + cbn [map key_of]. rewrite xfold_cons. cbn [xfold fold_right]. rewrite N.lxor_0_r, N.lxor_assoc. reflexivity.
    + cbn [map xfold fold_right]. rewrite N.lxor_0_l. reflexivity.
Qed.

Theorem feature_form : forall h s, hash h s = fold_right N.lxor 0 (map (key_of h) (features s)).
Proof.
  intros h s. change (hash h s = xfold (map (key_of h) (features s))).
  unfold features, hash. cbv zeta.
  rewrite map_app, xfold_app. cbn [map]. rewrite xfold_cons, map_app, xfold_app.
  change [(White, true); (White, false); (Black, true); (Black, false)] with castle_pairs.
  rewrite hash_castle_fold. fold (castle_features s).
  rewrite hash_pieces_features. unfold ep_features.
  cbn [key_of].
  destruct (ep_capturable s) as [t|].
  - cbn [map key_of]. rewrite xfold_cons. cbn [xfold fold_right].
    rewrite N.lxor_0_r, !N.lxor_assoc. reflexivity.
  - cbn [map xfold fold_right]. rewrite N.lxor_0_r, !N.lxor_assoc. reflexivity.
Qed.

(* --- membership --- *)

Lemma In_slot_features : forall b c p f,
  In f (slot_features b c p) <-> exists sq, f = FPiece sq c p /\ N.testbit (pocc b c p) sq = true.
Proof.
  intros b c p f. unfold slot_features. rewrite in_map_iff. split.
  - intros [sq [E Hi]]. exists sq. split; [symmetry; exact E | apply iter_ones_spec; exact Hi].
  - intros [sq [E Hi]]. exists sq. split; [symmetry; exact E | apply iter_ones_spec; exact Hi].
Qed.

Lemma In_piece_features : forall b f,
  In f (piece_features b) <-> exists sq c p, f = FPiece sq c p /\ N.testbit (pocc b c p) sq = true.
Proof.
  intros b f. unfold piece_features, color_features. rewrite in_flat_map. split.
  - intros [c [_ Hi]]. apply in_flat_map in Hi. destruct Hi as [p [_ Hi]].
    apply In_slot_features in Hi. destruct Hi as [sq [E Ht]]. exists sq, c, p. split; assumption.
  - intros [sq [c [p [E Ht]]]]. exists c. split.
    + destruct c; cbn; tauto.
    + apply in_flat_map. exists p. split.
      * destruct p; cbn; tauto.
      * apply In_slot_features. exists sq. split; assumption.
Qed.

Lemma In_castle_features : forall s f,
  In f (castle_features s) <-> exists c ks, f = FCastle c ks /\ castle_right s c ks = true.
Proof.
  intros s f. unfold castle_features. rewrite in_flat_map. split.
  - intros [[c ks] [_ Hi]]. cbn [fst snd] in Hi. destruct (castle_right s c ks) eqn:E; [|destruct Hi].
    destruct Hi as [Hi | []]. exists c, ks. split; [symmetry; exact Hi | exact E].
  - intros [c [ks [E Hr]]]. exists (c, ks). split.
    + destruct c, ks; cbn; tauto.
    + cbn [fst snd]. rewrite Hr. left. symmetry. exact E.
Qed.

Lemma In_ep_features : forall s f,
  In f (ep_features s) <-> exists t, f = FEp (file_of t) /\ ep_capturable s = Some t.
Proof.
  intros s f. unfold ep_features. destruct (ep_capturable s) as [t|]; split.
  - intros [Hi | []]. exists t. split; [symmetry; exact Hi | reflexivity].
  - intros [t' [E Ht]]. injection Ht as Ht. subst t'. left. symmetry. exact E.
  - intros [].
  - intros [t' [_ Ht]]. discriminate Ht.
Qed.

Lemma In_features_piece : forall s sq c p,
  In (FPiece sq c p) (features s) <-> N.testbit (pocc (st_board s) c p) sq = true.
Proof.
  intros s sq c p. unfold features. rewrite in_app_iff. cbn [In]. rewrite in_app_iff.
  rewrite In_piece_features, In_castle_features, In_ep_features. split.
  - intros [[sq' [c' [p' [E Ht]]]] | [E | [[c' [ks [E _]]] | [t [E _]]]]]; try discriminate E.
    injection E as E1 E2 E3. subst sq' c' p'. exact Ht.
  - intros Ht. left. exists sq, c, p. split; [reflexivity | exact Ht].
Qed.

Lemma In_features_turn : forall s c, In (FTurn c) (features s) <-> c = st_turn s.
Proof.
  intros s c. unfold features. rewrite in_app_iff. cbn [In]. rewrite in_app_iff.
  rewrite In_piece_features, In_castle_features, In_ep_features. split.
  - intros [[sq' [c' [p' [E Ht]]]] | [E | [[c' [ks [E _]]] | [t [E _]]]]]; try discriminate E.
    injection E as E. symmetry. exact E.
  - intros E. right. left. rewrite E. reflexivity.
Qed.

Lemma In_features_castle : forall s c ks, In (FCastle c ks) (features s) <-> castle_right s c ks = true.
Proof.
  intros s c ks. unfold features. rewrite in_app_iff. cbn [In]. rewrite in_app_iff.
  rewrite In_piece_features, In_castle_features, In_ep_features. split.
  - intros [[sq' [c' [p' [E Ht]]]] | [E | [[c' [ks' [E Hr]]] | [t [E _]]]]]; try discriminate E.
    injection E as E1 E2. subst c' ks'. exact Hr.
  - intros Hr. right. right. left. exists c, ks. split; [reflexivity | exact Hr].
Qed.

Lemma In_features_ep : forall s f, In (FEp f) (features s) <-> exists t, f = file_of t /\ ep_capturable s = Some t.
Proof.
  intros s f. unfold features. rewrite in_app_iff. cbn [In]. rewrite in_app_iff.
  rewrite In_piece_features, In_castle_features, In_ep_features. split.
  - intros [[sq' [c' [p' [E Ht]]]] | [E | [[c' [ks' [E Hr]]] | [t [E Ht]]]]]; try discriminate E.
    injection E as E. exists t. split; assumption.
  - intros [t [E Ht]]. right. right. right. exists t. split; [rewrite E; reflexivity | exact Ht].
Qed.

(* ------------------------------------------------------------------ *)
(* 5. no duplicates; the feature set is equivalent to the rule key     *)
(* ------------------------------------------------------------------ *)

Lemma slot_features_NoDup : forall b c p, NoDup (slot_features b c p).
Proof.
  intros b c p. unfold slot_features. apply NoDup_map_inj; [|apply iter_ones_NoDup].
  intros x y E. injection E as E. exact E.
Qed.

Lemma all_colors_NoDup : NoDup all_colors.
Proof. unfold all_colors. repeat constructor; cbn [In]; intuition discriminate. Qed.

Lemma all_kinds_NoDup : NoDup (PNone :: all_pieces).
Proof. unfold all_pieces. repeat constructor; cbn [In]; intuition discriminate. Qed.

Lemma color_features_NoDup : forall b c, NoDup (color_features b c).
Proof.
  intros b c. unfold color_features. apply NoDup_flat_map_intro.
  - exact all_kinds_NoDup.
  - intros p _. apply slot_features_NoDup.
  - intros p1 p2 z _ _ H1 H2. apply In_slot_features in H1. apply In_slot_features in H2.
    destruct H1 as [sq1 [E1 _]]. destruct H2 as [sq2 [E2 _]]. rewrite E1 in E2. injection E2 as _ E2. exact E2.
Qed.

Lemma In_color_features_color : forall b c z, In z (color_features b c) -> exists sq p, z = FPiece sq c p.
Proof.
  intros b c z H. unfold color_features in H. apply in_flat_map in H. destruct H as [p [_ H]].
  apply In_slot_features in H. destruct H as [sq [E _]]. exists sq, p. exact E.
Qed.

Lemma piece_features_NoDup : forall b, NoDup (piece_features b).
Proof.
  intros b. unfold piece_features. apply NoDup_flat_map_intro.
  - exact all_colors_NoDup.
  - intros c _. apply color_features_NoDup.
  - intros c1 c2 z _ _ H1 H2. apply In_color_features_color in H1. apply In_color_features_color in H2.
    destruct H1 as [sq1 [p1 E1]]. destruct H2 as [sq2 [p2 E2]]. rewrite E1 in E2. injection E2 as _ E2 _. exact E2.
Qed.

Lemma castle_features_NoDup : forall s, NoDup (castle_features s).
Proof.
  intros s. unfold castle_features, castle_pairs. cbn [flat_map fst snd].
  destruct (castle_right s White true), (castle_right s White false),
           (castle_right s Black true), (castle_right s Black false); cbn [app];
    repeat constructor; cbn [In]; intuition discriminate.
Qed.

Lemma ep_features_NoDup : forall s, NoDup (ep_features s).
Proof.
  intros s. unfold ep_features. destruct (ep_capturable s); repeat constructor. intros [].
Qed.

Theorem features_NoDup : forall s, NoDup (features s).
Proof.
  intros s. unfold features. apply NoDup_app_intro.
  - apply piece_features_NoDup.
  - constructor.
    + rewrite in_app_iff, In_castle_features, In_ep_features.
      intros [[c [ks [E _]]] | [t [E _]]]; discriminate E.
    + apply NoDup_app_intro.
      * apply castle_features_NoDup.
      * apply ep_features_NoDup.
      * intros x H1 H2. apply In_castle_features in H1. apply In_ep_features in H2.
        destruct H1 as [c [ks [E1 _]]]. destruct H2 as [t [E2 _]]. rewrite E1 in E2. discriminate E2.
  - intros x H1 H2. apply In_piece_features in H1. destruct H1 as [sq [c [p [E1 _]]]].
    destruct H2 as [H2 | H2].
    + rewrite E1 in H2. discriminate H2.
    + rewrite in_app_iff, In_castle_features, In_ep_features in H2.
      destruct H2 as [[c' [ks [E _]]] | [t [E _]]]; rewrite E1 in E; discriminate E.
Qed.

(* an en-passant target, when present, lies on the rank behind a pawn that has just made a double step:
   rank 6 (index 5) when White is to move, rank 3 (index 2) when Black is to move.  True of every state
   produced by apply_move from a legal position; NOT implied by WfState. *)
Definition ep_rank_ok (s : state) : bool :=
  match st_ep s with
  | Some t => rank_of t =? (if is_white (st_turn s) then 5 else 2)
  | None => true
  end.

Lemma ep_capturable_Some : forall s t, ep_capturable s = Some t -> st_ep s = Some t.
Proof.
  intros s t H. unfold ep_capturable in H. destruct (st_ep s) as [u|]; [|discriminate H].
  destruct (any _); [|discriminate H]. exact H.
Qed.

Lemma ep_capturable_rank : forall s t, ep_rank_ok s = true -> ep_capturable s = Some t ->
  rank_of t = (if is_white (st_turn s) then 5 else 2).
Proof.
  intros s t Hok H. apply ep_capturable_Some in H. unfold ep_rank_ok in Hok. rewrite H in Hok.
  apply N.eqb_eq. exact Hok.
Qed.

Lemma square_of_rank_file : forall t u, rank_of t = rank_of u -> file_of t = file_of u -> t = u.
Proof. intros t u. unfold rank_of, file_of. lia. Qed.

Lemma board_ext : forall b1 b2,
  (forall c p sq, N.testbit (pocc b1 c p) sq = N.testbit (pocc b2 c p) sq) -> b1 = b2.
Proof.
  intros [a1 a2 a3 a4 a5 a6 a7 a8 a9 a10 a11 a12] [c1 c2 c3 c4 c5 c6 c7 c8 c9 c10 c11 c12] H.
  f_equal; apply N.bits_inj; intros sq.
  - exact (H White Pawn sq).
  - exact (H White Knight sq).
  - exact (H White Bishop sq).
  - exact (H White Rook sq).
  - exact (H White Queen sq).
  - exact (H White King sq).
  - exact (H Black Pawn sq).
  - exact (H Black Knight sq).
  - exact (H Black Bishop sq).
  - exact (H Black Rook sq).
  - exact (H Black Queen sq).
  - exact (H Black King sq).
Qed.

Lemma bool_iff_eq : forall a b : bool, (a = true <-> b = true) -> a = b.
Proof. intros [|] [|] [H1 H2]; try reflexivity; [symmetry; apply H1 | apply H2]; reflexivity. Qed.

Lemma features_of_rulekey : forall s1 s2, rulekey s1 = rulekey s2 -> features s1 = features s2.
Proof.
  intros s1 s2 E. unfold rulekey in E. injection E as Eb Et Ewk Ewq Ebk Ebq Eep.
  unfold features, castle_features, castle_pairs, ep_features. cbn [flat_map fst snd castle_right].
  rewrite Eb, Et, Ewk, Ewq, Ebk, Ebq, Eep. reflexivity.
Qed.

Theorem features_iff_rulekey_gen : forall s1 s2, ep_rank_ok s1 = true -> ep_rank_ok s2 = true ->
  ((forall f, In f (features s1) <-> In f (features s2)) <-> rulekey s1 = rulekey s2).
Proof.
  intros s1 s2 Hr1 Hr2. split.
  - intros H.
    assert (Eb : st_board s1 = st_board s2).
    { apply board_ext. intros c p sq. apply bool_iff_eq. rewrite <- !In_features_piece. apply H. }
    assert (Et : st_turn s1 = st_turn s2).
    { apply (In_features_turn s2). apply H. apply In_features_turn. reflexivity. }
    assert (Ec : forall c ks, castle_right s1 c ks = castle_right s2 c ks).
    { intros c ks. apply bool_iff_eq. rewrite <- !In_features_castle. apply H. }
    assert (Eep : ep_capturable s1 = ep_capturable s2).
    { destruct (ep_capturable s1) as [t1|] eqn:E1; destruct (ep_capturable s2) as [t2|] eqn:E2.
      - f_equal.
        assert (Hin : In (FEp (file_of t1)) (features s2)).
        { apply H. apply In_features_ep. exists t1. split; [reflexivity | exact E1]. }
        apply In_features_ep in Hin. destruct Hin as [t [Ef Et2]]. rewrite E2 in Et2. injection Et2 as Et2. subst t.
        apply square_of_rank_file; [|exact Ef].
        rewrite (ep_capturable_rank s1 t1 Hr1 E1), (ep_capturable_rank s2 t2 Hr2 E2), Et. reflexivity.
      - exfalso.
        assert (Hin : In (FEp (file_of t1)) (features s2)).
        { apply H. apply In_features_ep. exists t1. split; [reflexivity | exact E1]. }
        apply In_features_ep in Hin. destruct Hin as [t [_ Et2]]. rewrite E2 in Et2. discriminate Et2.
      - exfalso.
        assert (Hin : In (FEp (file_of t2)) (features s1)).
        { apply H. apply In_features_ep. exists t2. split; [reflexivity | exact E2]. }
        apply In_features_ep in Hin. destruct Hin as [t [_ Et1]]. rewrite E1 in Et1. discriminate Et1.
      - reflexivity. }
    unfold rulekey. rewrite Eb, Et, Eep.
    pose proof (Ec White true) as E1. pose proof (Ec White false) as E2.
    pose proof (Ec Black true) as E3. pose proof (Ec Black false) as E4.
    cbn [castle_right] in E1, E2, E3, E4. rewrite E1, E2, E3, E4. reflexivity.
  - intros E f. rewrite (features_of_rulekey s1 s2 E). reflexivity.
Qed.

(* ------------------------------------------------------------------ *)
(* 6. separation                                                       *)
(* ------------------------------------------------------------------ *)

Lemma feature_eq_dec : forall x y : feature, {x = y} + {x <> y}.
Proof.
  assert (Hc : forall a b : color, {a = b} + {a <> b}) by decide equality.
  assert (Hp : forall a b : piece, {a = b} + {a <> b}) by decide equality.
  decide equality; try apply N.eq_dec; try apply Bool.bool_dec.
Defined.

(* in-range features: the ones whose key is an entry of the tables of a hasher built by hasher_of_stream
   (out-of-range lookups return the default 0) *)
Definition valid_featureb (f : feature) : bool :=
  match f with
  | FPiece sq _ _ => sq <? 64
  | FEp fl => fl <? 8
  | _ => true
  end.
Definition valid_feature (f : feature) : Prop := valid_featureb f = true.

Lemma two64_is_pow : two64 = 2 ^ 64.
Proof. reflexivity. Qed.

Lemma wf_slot_lt : forall b c p, WfBoard b -> pocc b c p < 2 ^ 64.
Proof.
  intros b c p H. unfold WfBoard, wf_boardb in H. apply andb_true_iff in H. destruct H as [H _].
  rewrite forallb_forall in H. rewrite <- two64_is_pow.
  destruct p; [cbn [pocc]; destruct c; reflexivity| | | | | |];
    apply N.ltb_lt, H; unfold all_slots; destruct c; cbn [pocc In]; tauto.
Qed.

Lemma features_valid : forall s, WfState s -> Forall valid_feature (features s).
Proof.
  intros s H. unfold WfState, wf_stateb in H. rewrite !andb_true_iff in H. destruct H as [[[Hb _] _] _].
  apply Forall_forall. intros f Hf. unfold valid_feature. destruct f as [sq c p | c | c ks | fl]; cbn [valid_featureb]; try reflexivity.
  - apply In_features_piece in Hf. apply N.ltb_lt. apply (test_lt64 (pocc (st_board s) c p)); [apply wf_slot_lt; exact Hb | exact Hf].
  - apply In_features_ep in Hf. destruct Hf as [t [E _]]. apply N.ltb_lt. rewrite E. unfold file_of. lia.
Qed.

(* "up to 64-bit chance", made exact.  A hasher is xor-independent up to n when no non-empty duplicate-free
   list of at most n in-range features has keys that xor to 0.  (Without a bound on the length the
   predicate is unsatisfiable for 64-bit keys: there are 64*14+2+4+8 = 910 in-range features, and any 65
   vectors of GF(2)^64 are linearly dependent.  Without the restriction to in-range features it is
   unsatisfiable for every hasher: see unrestricted_independence_unsatisfiable below.) *)
Definition XorIndependent (n : nat) (h : hasher) : Prop :=
  forall l : list feature, NoDup l -> l <> [] -> Forall valid_feature l -> (length l <= n)%nat ->
    fold_right N.lxor 0 (map (key_of h) l) <> 0.

Lemma unrestricted_independence_unsatisfiable : forall h,
  ~ (forall l : list feature, NoDup l -> l <> [] -> fold_right N.lxor 0 (map (key_of h) l) <> 0).
Proof.
  intros h H.
  apply (H [FPiece (N.of_nat (length (k_piece h))) White PNone]).
  - constructor; [intros [] | constructor].
  - discriminate.
  - cbn [map fold_right key_of]. rewrite N.lxor_0_r. unfold nthN. apply nth_overflow.
    unfold piece_index. cbn [is_white piece_to_N]. lia.
Qed.

(* the witness of a collision: the features that occur in exactly one of the two states *)
Definition feature_diff (s1 s2 : state) : list feature := symdiff feature feature_eq_dec (features s1) (features s2).

Lemma feature_diff_In : forall s1 s2 f,
  In f (feature_diff s1 s2) <->
  (In f (features s1) /\ ~ In f (features s2)) \/ (In f (features s2) /\ ~ In f (features s1)).
Proof. intros s1 s2 f. apply symdiff_In. Qed.

Lemma feature_diff_NoDup : forall s1 s2, NoDup (feature_diff s1 s2).
Proof. intros s1 s2. apply symdiff_NoDup; apply features_NoDup. Qed.

Lemma feature_diff_length : forall s1 s2,
  (length (feature_diff s1 s2) <= length (features s1) + length (features s2))%nat.
Proof. intros s1 s2. apply symdiff_length. Qed.

Lemma feature_diff_valid : forall s1 s2, WfState s1 -> WfState s2 -> Forall valid_feature (feature_diff s1 s2).
Proof.
  intros s1 s2 H1 H2. apply Forall_forall. intros f Hf. apply feature_diff_In in Hf.
  pose proof (features_valid s1 H1) as V1. pose proof (features_valid s2 H2) as V2.
  rewrite Forall_forall in V1, V2. destruct Hf as [[Hf _] | [Hf _]]; [apply V1 | apply V2]; exact Hf.
Qed.

Lemma feature_diff_nonempty : forall s1 s2, ep_rank_ok s1 = true -> ep_rank_ok s2 = true ->
  rulekey s1 <> rulekey s2 -> feature_diff s1 s2 <> [].
Proof.
  intros s1 s2 Hr1 Hr2 Hk E. apply Hk. apply (features_iff_rulekey_gen s1 s2 Hr1 Hr2).
  apply (symdiff_nil feature feature_eq_dec). exact E.
Qed.

Lemma hash_xor_diff : forall h s1 s2,
  N.lxor (hash h s1) (hash h s2) = fold_right N.lxor 0 (map (key_of h) (feature_diff s1 s2)).
Proof.
  intros h s1 s2. rewrite !feature_form. unfold feature_diff.
  apply (xfold_symdiff feature feature_eq_dec (key_of h)); apply features_NoDup.
Qed.

(* a collision between two different rule keys is an xor relation among the keys of the features on
   which the two states differ *)
Theorem collision_is_xor_relation : forall h s1 s2, WfState s1 -> WfState s2 ->
  ep_rank_ok s1 = true -> ep_rank_ok s2 = true ->
  rulekey s1 <> rulekey s2 -> hash h s1 = hash h s2 ->
  exists l, NoDup l /\ l <> [] /\ Forall valid_feature l /\
            (forall f, In f l <-> (In f (features s1) /\ ~ In f (features s2)) \/ (In f (features s2) /\ ~ In f (features s1))) /\
            (length l <= length (features s1) + length (features s2))%nat /\
            fold_right N.lxor 0 (map (key_of h) l) = 0.
Proof.
  intros h s1 s2 W1 W2 Hr1 Hr2 Hk Hh. exists (feature_diff s1 s2). repeat split.
  - apply feature_diff_NoDup.
  - apply feature_diff_nonempty; assumption.
  - apply feature_diff_valid; assumption.
  - apply feature_diff_In.
  - apply feature_diff_In.
  - apply feature_diff_length.
  - rewrite <- hash_xor_diff, Hh. apply N.lxor_nilpotent.
Qed.

Theorem separates : forall n h s1 s2, XorIndependent n h -> WfState s1 -> WfState s2 ->
  ep_rank_ok s1 = true -> ep_rank_ok s2 = true ->
  (length (feature_diff s1 s2) <= n)%nat ->
  rulekey s1 <> rulekey s2 -> hash h s1 <> hash h s2.
Proof.
  intros n h s1 s2 HX W1 W2 Hr1 Hr2 Hlen Hk Hh.
  apply (HX (feature_diff s1 s2)).
  - apply feature_diff_NoDup.
  - apply feature_diff_nonempty; assumption.
  - apply feature_diff_valid; assumption.
  - exact Hlen.
  - rewrite <- hash_xor_diff, Hh. apply N.lxor_nilpotent.
Qed.

(* the same with the bound taken from the two feature lists (each has at most 32+1+4+1 entries in a
   legal position) *)
Theorem separates_total : forall h s1 s2,
  XorIndependent (length (features s1) + length (features s2)) h -> WfState s1 -> WfState s2 ->
  ep_rank_ok s1 = true -> ep_rank_ok s2 = true ->
  rulekey s1 <> rulekey s2 -> hash h s1 <> hash h s2.
Proof.
  intros h s1 s2 HX W1 W2 Hr1 Hr2. apply (separates _ h s1 s2 HX W1 W2 Hr1 Hr2). apply feature_diff_length.
Qed.

(* ------------------------------------------------------------------ *)
(* 7. the moves offered depend on the rule key only                    *)
(* ------------------------------------------------------------------ *)

(* --- the en-passant flag of the packed moves --- *)

Lemma bit_is_testbit : forall d b, bit d b = N.testbit d b.
Proof.
  intros d b. unfold bit. change (N.shiftl 1 b) with (just b). destruct (N.testbit d b) eqn:E.
  - apply negb_true_iff, N.eqb_neq. intros Z.
    assert (H : N.testbit (N.land d (just b)) b = true)
      by (rewrite N.land_spec, just_spec, E, N.eqb_refl; reflexivity).
    rewrite Z, N.bits_0 in H. discriminate H.
  - apply negb_false_iff, N.eqb_eq. apply N.bits_inj. intros k.
    rewrite N.land_spec, just_spec, N.bits_0.
    destruct (N.eqb_spec b k) as [Ek | Ek]; [subst k; rewrite E; reflexivity | apply andb_false_r].
Qed.

Lemma ep_store : forall d off mask v,
  N.testbit mask en_passant_offset = false -> m_is_ep (store d off mask v) = m_is_ep d.
Proof.
  intros d off mask v H. unfold m_is_ep. rewrite !bit_is_testbit. unfold store.
  rewrite N.lor_spec, !N.land_spec, H, andb_false_r, orb_false_r. reflexivity.
Qed.

Lemma ep_set_bit : forall d b v, b <> en_passant_offset -> m_is_ep (set_bit d b v) = m_is_ep d.
Proof.
  intros d b v H. unfold m_is_ep. rewrite !bit_is_testbit. unfold set_bit.
  assert (Hb : N.testbit (N.shiftl 1 b) en_passant_offset = false).
  { change (N.shiftl 1 b) with (just b). rewrite just_spec. apply N.eqb_neq. exact H. }
  destruct v.
  - rewrite N.lor_spec, Hb, orb_false_r. reflexivity.
  - rewrite N.ldiff_spec, Hb, andb_true_r. reflexivity.
Qed.

Lemma ep_zero : m_is_ep 0 = false.
Proof. reflexivity. Qed.

Ltac ep_frame :=
  repeat first [ rewrite ep_set_bit by (vm_compute; discriminate)
               | rewrite ep_store by (vm_compute; reflexivity) ].

Lemma ep_by_moving : forall c p o d, m_is_ep (by_moving c p o d) = false.
Proof.
  intros c p o d. unfold by_moving. cbv zeta.
  destruct (piece_eqb p Pawn && (1 <? abs_dist (rank_of o) (rank_of d))); ep_frame; exact ep_zero.
Qed.

Lemma ep_by_capturing : forall c p o d k, m_is_ep (by_capturing c p o d k) = false.
Proof. intros. unfold by_capturing, set_capture. ep_frame. apply ep_by_moving. Qed.

Lemma ep_by_promoting : forall c p o d k, m_is_ep (by_promoting c p o d k) = false.
Proof. intros. unfold by_promoting, set_promotion. ep_frame. apply ep_by_moving. Qed.

Lemma ep_by_capture_promoting : forall c p o d k q, m_is_ep (by_capture_promoting c p o d k q) = false.
Proof. intros. unfold by_capture_promoting, set_promotion, set_capture. ep_frame. apply ep_by_moving. Qed.

Lemma ep_by_castling : forall c ks, m_is_ep (by_castling c ks) = false.
Proof. intros. unfold by_castling. cbv zeta. ep_frame. apply ep_by_moving. Qed.

(* --- an en-passant target that no pawn of the side to move attacks is invisible to MoveGen.pawn_moves --- *)

Lemma any_false : forall b, any b = false -> b = 0.
Proof. intros b H. unfold any in H. apply negb_false_iff, N.eqb_eq in H. exact H. Qed.

Lemma offset_inverse : forall s df dr t, s < 64 -> offset s df dr = Some t -> offset t (- df) (- dr) = Some s.
Proof.
  intros s df dr t Hs H. pose proof (offset_lt _ _ _ _ Hs H) as Ht.
  apply offset_spec in H; [|exact Hs]. apply offset_spec; [exact Ht|]. lia.
Qed.

Lemma ep_attack_zero : forall pawns c t fo, pawns < 2 ^ 64 -> (fo = 1 \/ fo = -1)%Z ->
  any (N.land (pawn_attacks (is_white (opp c)) t) pawns) = false ->
  N.land (Bits.shift (Bits.shift pawns 0 (forward_dr c)) fo 0) (just t) = 0.
Proof.
  intros pawns c t fo Hp Hfo Hany. apply any_false in Hany.
  apply N.bits_inj. intros k. rewrite N.land_spec, just_spec, N.bits_0.
  destruct (N.eqb_spec t k) as [Ek | Ek]; [subst k | apply andb_false_r].
  rewrite andb_true_r.
  destruct (N.testbit (Bits.shift (Bits.shift pawns 0 (forward_dr c)) fo 0) t) eqn:E; [exfalso | reflexivity].
  assert (Hfwd : (-2 <= forward_dr c <= 2)%Z) by (destruct c; cbn [forward_dr]; lia).
  pose proof (C09.C09_shift_lt pawns 0 (forward_dr c) Hp) as HA.
  pose proof (C09.C09_shift_lt _ fo 0 HA) as HB.
  assert (Ht : t < 64) by (apply (test_lt64 _ t HB); exact E).
  apply (C09.C09_shift _ fo 0 t HA) in E; [| lia | lia | exact Ht].
  destruct E as [s1 [Hs1 [T1 O1]]].
  apply (C09.C09_shift pawns 0 (forward_dr c) s1 Hp) in T1; [| lia | exact Hfwd | exact Hs1].
  destruct T1 as [s0 [Hs0 [T0 O0]]].
  pose proof (offset_join s0 fo (forward_dr c) s1 t Hs0 O0 O1) as OJ.
  apply offset_inverse in OJ; [|exact Hs0].
  assert (HT : test (pawn_attacks (is_white (opp c)) t) s0 = true).
  { destruct (C09.C09_leapers t s0 Ht Hs0) as [_ [_ [HW HBk]]].
    destruct c; cbn [opp is_white forward_dr] in *.
    - apply HBk. exists (- fo, -1)%Z. split; [|exact OJ].
      unfold black_pawn_offsets. destruct Hfo as [-> | ->]; cbn; tauto.
    - apply HW. exists (- fo, 1)%Z. split; [|exact OJ].
      unfold white_pawn_offsets. destruct Hfo as [-> | ->]; cbn; tauto. }
  assert (HL : N.testbit (N.land (pawn_attacks (is_white (opp c)) t) pawns) s0 = true).
  { rewrite N.land_spec. unfold test in HT, T0. rewrite HT, T0. reflexivity. }
  rewrite Hany, N.bits_0 in HL. discriminate HL.
Qed.

(* --- MoveGen.pawn_moves reads the en-passant target only through the two intersections --- *)

Definition ep_mask (ep : option N) : N := match ep with Some t => just t | None => 0 end.

Lemma pawn_moves_ep : forall b t wk wq bk bq ep ep' h f h' f',
  (forall fo, (fo = 1 \/ fo = -1)%Z ->
     N.land (Bits.shift (Bits.shift (pocc b t Pawn) 0 (forward_dr t)) fo 0) (ep_mask ep)
     = N.land (Bits.shift (Bits.shift (pocc b t Pawn) 0 (forward_dr t)) fo 0) (ep_mask ep')) ->
  MoveGen.pawn_moves (mkState b t wk wq bk bq ep h f) = MoveGen.pawn_moves (mkState b t wk wq bk bq ep' h' f').
Proof.
  intros b t wk wq bk bq ep ep' h f h' f' H.
  unfold MoveGen.pawn_moves. cbn [st_board st_turn st_ep]. fold (ep_mask ep). fold (ep_mask ep').
  rewrite (H 1%Z) by (left; reflexivity). rewrite (H (-1)%Z) by (right; reflexivity). reflexivity.
Qed.

(* --- without an en-passant target no generated move carries the en-passant flag --- *)

Lemma expand_moves_no_ep : forall s o dests p m, In m (MoveGen.expand_moves s o dests p) -> m_is_ep m = false.
Proof.
  intros s o dests p m H. unfold MoveGen.expand_moves in H. apply in_map_iff in H. destruct H as [t [E _]]. subst m.
  destruct (piece_at (st_board s) t) as [[c k]|]; [apply ep_by_capturing | apply ep_by_moving].
Qed.

Lemma pawn_moves_no_ep : forall s m, st_ep s = None -> In m (MoveGen.pawn_moves s) -> m_is_ep m = false.
Proof.
  intros s m Hep H. unfold MoveGen.pawn_moves in H. rewrite Hep in H. rewrite !N.land_0_r in H.
  cbn [first_one] in H. rewrite !app_nil_r in H.
  repeat (rewrite in_app_iff in H).
  repeat match type of H with
  | _ \/ _ => destruct H as [H | H]
  end;
  repeat match type of H with
  | In _ (map _ _) => apply in_map_iff in H; destruct H as [? [H _]]; subst m
  | In _ (flat_map _ _) => apply in_flat_map in H; destruct H as [? [_ H]]
  end;
  first [apply ep_by_moving | apply ep_by_promoting | apply ep_by_capturing | apply ep_by_capture_promoting].
Qed.

Lemma pseudo_legal_no_ep : forall s m, st_ep s = None -> In m (MoveGen.pseudo_legal s) -> m_is_ep m = false.
Proof.
  intros s m Hep H. unfold MoveGen.pseudo_legal in H. rewrite !in_app_iff in H.
  destruct H as [H | [H | [H | [H | [H | H]]]]].
  - apply (pawn_moves_no_ep s m Hep H).
  - unfold MoveGen.knight_moves in H. apply in_flat_map in H. destruct H as [o [_ H]]. apply (expand_moves_no_ep _ _ _ _ _ H).
  - unfold MoveGen.king_moves in H. apply in_app_iff in H. destruct H as [H | H].
    + apply in_flat_map in H. destruct H as [o [_ H]]. apply (expand_moves_no_ep _ _ _ _ _ H).
    + apply in_flat_map in H. destruct H as [ks [_ H]].
      destruct (castle_right s (st_turn s) ks); [|destruct H].
      destruct (_ && _); [|destruct H]. destruct H as [H | []]. subst m. apply ep_by_castling.
  - unfold MoveGen.slider_moves in H. apply in_flat_map in H. destruct H as [o [_ H]]. apply (expand_moves_no_ep _ _ _ _ _ H).
  - unfold MoveGen.slider_moves in H. apply in_flat_map in H. destruct H as [o [_ H]]. apply (expand_moves_no_ep _ _ _ _ _ H).
  - unfold MoveGen.slider_moves in H. apply in_flat_map in H. destruct H as [o [_ H]]. apply (expand_moves_no_ep _ _ _ _ _ H).
Qed.

(* --- making a move: the successor's placement and side depend on the en-passant target only for
       moves that carry the en-passant flag, and never on the counters --- *)

Lemma try_as_legal_core : forall b t wk wq bk bq ep ep' h f h' f' m,
  m_is_ep m = false \/ ep = ep' ->
  option_map fst (MoveGen.try_as_legal (mkState b t wk wq bk bq ep h f) m)
  = option_map fst (MoveGen.try_as_legal (mkState b t wk wq bk bq ep' h' f') m).
Proof.
  intros b t wk wq bk bq ep ep' h f h' f' m H.
  unfold MoveGen.try_as_legal, MoveGen.apply_move.
  cbn [st_board st_turn st_ep st_wk st_wq st_bk st_bq st_half st_full].
  destruct H as [H | H].
  - rewrite H. destruct (m_capture m) as [cap|];
      cbn [st_board st_turn]; match goal with |- context [none ?x] => destruct (none x) end; reflexivity.
  - subst ep'. destruct (m_is_ep m).
    + destruct ep as [u|]; [|reflexivity].
      destruct (offset u 0 (backward_dr t)) as [cs|]; [|reflexivity].
      cbn [st_board st_turn]; match goal with |- context [none ?x] => destruct (none x) end; reflexivity.
    + destruct (m_capture m) as [cap|];
      cbn [st_board st_turn]; match goal with |- context [none ?x] => destruct (none x) end; reflexivity.
Qed.

Lemma filter_map_fst_ext : forall (A B C : Type) (f g : A -> option (B * C)) (l : list A),
  (forall x, In x l -> option_map fst (f x) = option_map fst (g x)) ->
  map fst (MoveGen.filter_map f l) = map fst (MoveGen.filter_map g l).
Proof.
  intros A B C f g. induction l as [|x l IH]; intros H; cbn [MoveGen.filter_map]; [reflexivity|].
  pose proof (H x (or_introl eq_refl)) as Hx.
  assert (IH' : map fst (MoveGen.filter_map f l) = map fst (MoveGen.filter_map g l)) by (apply IH; intros y Hy; apply H; right; exact Hy).
  destruct (f x) as [[b1 c1]|], (g x) as [[b2 c2]|]; cbn [option_map fst] in Hx; try discriminate Hx.
  - injection Hx as Hx. cbn [map fst]. rewrite Hx, IH'. reflexivity.
  - exact IH'.
Qed.

(* the state with the rule-irrelevant parts erased: uncapturable target dropped, counters zeroed *)
Definition norm_state (s : state) : state :=
  mkState (st_board s) (st_turn s) (st_wk s) (st_wq s) (st_bk s) (st_bq s) (ep_capturable s) 0 0.

Lemma norm_state_of_rulekey : forall s1 s2, rulekey s1 = rulekey s2 -> norm_state s1 = norm_state s2.
Proof.
  intros s1 s2 E. unfold rulekey in E. injection E as Eb Et Ewk Ewq Ebk Ebq Eep.
  unfold norm_state. rewrite Eb, Et, Ewk, Ewq, Ebk, Ebq, Eep. reflexivity.
Qed.

Lemma ep_capturable_cases : forall s, ep_capturable s = st_ep s \/
  (ep_capturable s = None /\ exists u, st_ep s = Some u /\
     any (N.land (pawn_attacks (is_white (opp (st_turn s))) u) (pocc (st_board s) (st_turn s) Pawn)) = false).
Proof.
  intros s. unfold ep_capturable. destruct (st_ep s) as [u|]; [|left; reflexivity].
  destruct (any _) eqn:E; [left; reflexivity | right]. split; [reflexivity|]. exists u. split; [reflexivity | exact E].
Qed.

Lemma pseudo_legal_norm : forall s, pocc (st_board s) (st_turn s) Pawn < 2 ^ 64 ->
  MoveGen.pseudo_legal s = MoveGen.pseudo_legal (norm_state s).
Proof.
  intros s Hp.
  assert (HP : MoveGen.pawn_moves s = MoveGen.pawn_moves (norm_state s)).
  { destruct s as [b t wk wq bk bq ep h f]. unfold norm_state.
    cbn [st_board st_turn st_wk st_wq st_bk st_bq] in *. apply pawn_moves_ep. intros fo Hfo.
    destruct (ep_capturable_cases (mkState b t wk wq bk bq ep h f)) as [E | [E [u [Eu Ha]]]].
    - rewrite E. reflexivity.
    - rewrite E. cbn [st_ep st_board st_turn] in Eu, Ha. rewrite Eu. cbn [ep_mask].
      rewrite N.land_0_r. apply ep_attack_zero; assumption. }
  unfold MoveGen.pseudo_legal. rewrite HP. reflexivity.
Qed.

Lemma legal_moves_norm : forall s, pocc (st_board s) (st_turn s) Pawn < 2 ^ 64 ->
  map fst (MoveGen.gen_legal s) = map fst (MoveGen.gen_legal (norm_state s)).
Proof.
  intros s Hp. unfold MoveGen.gen_legal. rewrite <- (pseudo_legal_norm s Hp).
  apply filter_map_fst_ext. intros m Hm.
  destruct s as [b t wk wq bk bq ep h f]. unfold norm_state.
  cbn [st_board st_turn st_wk st_wq st_bk st_bq]. apply try_as_legal_core.
  destruct (ep_capturable_cases (mkState b t wk wq bk bq ep h f)) as [E | [E _]].
  - right. symmetry. exact E.
  - left. rewrite (pseudo_legal_norm _ Hp) in Hm. apply (pseudo_legal_no_ep _ m) in Hm; [exact Hm|].
    unfold norm_state. cbn [st_ep]. exact E.
Qed.

(* WfState (in fact only: the pawn slot of the side to move is below 2^64) is needed.  Counterexample without
   it: Black to move, bP = 2^65 (a bit outside the board), no other piece; shr64 does not truncate, so
   shift moves the bit to 57 and then to 58, and with st_ep = Some 58 pawn_moves offers an en-passant
   capture although ep_capturable = None; with st_ep = None it does not.  Same rule key, different
   pawn_moves ([33612801; 50456577] against [33612801], by vm_compute). *)
Theorem same_key_same_moves : forall s1 s2, WfState s1 -> WfState s2 ->
  rulekey s1 = rulekey s2 -> map fst (MoveGen.gen_legal s1) = map fst (MoveGen.gen_legal s2).
Proof.
  intros s1 s2 W1 W2 E.
  assert (B : forall s, WfState s -> pocc (st_board s) (st_turn s) Pawn < 2 ^ 64).
  { intros s W. unfold WfState, wf_stateb in W. rewrite !andb_true_iff in W. destruct W as [[[Wb _] _] _].
    apply wf_slot_lt. exact Wb. }
  rewrite (legal_moves_norm s1 (B s1 W1)), (legal_moves_norm s2 (B s2 W2)), (norm_state_of_rulekey s1 s2 E).
  reflexivity.
Qed.
