(* Proofs for property C08: the Zobrist hash (model/Text.v: hasher, hash_pieces, ep_capturable, hash).

   Structure:
     1. xor folds over lists (xfold), permutation invariance, symmetric difference
     2. iter_ones has no duplicates
     3. the rule key; the hash depends on the rule key only
     4. feature form of the hash; membership characterisation of the feature list
     5. features are duplicate free and, as a set, equivalent to the rule key
     6. separation: a collision between different rule keys is an xor relation among table keys
     7. the moves offered depend on the rule key only *)
From Coq Require Import NArith ZArith List Bool Lia ZifyBool ZifyN ZifyNat Permutation.
From WV Require Import Text Wf BitsProofs.
Import ListNotations.
Open Scope N_scope.
Ltac Zify.zify_post_hook ::= Z.div_mod_to_equations.
#[local] Arguments N.add : simpl never.
#[local] Arguments N.sub : simpl never.
#[local] Arguments N.mul : simpl never.
#[local] Arguments N.land : simpl never.
#[local] Arguments N.lor : simpl never.
#[local] Arguments N.lxor : simpl never.
#[local] Arguments N.shiftl : simpl never.
#[local] Arguments N.shiftr : simpl never.
#[local] Arguments N.modulo : simpl never.
#[local] Arguments N.div : simpl never.

(* ------------------------------------------------------------------ *)
(* 1. xor folds                                                        *)
(* ------------------------------------------------------------------ *)

Definition xfold (l : list N) : N := fold_right N.lxor 0 l.

Lemma xfold_app : forall l1 l2, xfold (l1 ++ l2) = N.lxor (xfold l1) (xfold l2).
Proof.
  induction l1 as [|x l1 IH]; intros l2; cbn [app xfold fold_right].
  - rewrite N.lxor_0_l. reflexivity.
  - fold (xfold (l1 ++ l2)). fold (xfold l1). rewrite IH, N.lxor_assoc. reflexivity.
Qed.

Lemma xfold_cons : forall x l, xfold (x :: l) = N.lxor x (xfold l).
Proof. reflexivity. Qed.

Lemma xfold_perm : forall l l', Permutation l l' -> xfold l = xfold l'.
Proof.
  intros l l' HP. induction HP as [| x l l' HP IH | x y l | l l' l'' HP1 IH1 HP2 IH2].
  - reflexivity.
  - rewrite !xfold_cons, IH. reflexivity.
  - rewrite !xfold_cons, <- !N.lxor_assoc, (N.lxor_comm y x). reflexivity.
  - rewrite IH1. exact IH2.
Qed.

Lemma fold_left_xor : forall (A : Type) (g : A -> N) (l : list A) (a : N),
  fold_left (fun acc x => N.lxor acc (g x)) l a = N.lxor a (xfold (map g l)).
Proof.
  intros A g. induction l as [|x l IH]; intros a; cbn [fold_left map].
  - cbn [xfold fold_right]. rewrite N.lxor_0_r. reflexivity.
  - rewrite IH, xfold_cons, N.lxor_assoc. reflexivity.
Qed.

Lemma xfold_filter_split : forall (A : Type) (g : A -> N) (f : A -> bool) (l : list A),
  xfold (map g l) = N.lxor (xfold (map g (filter f l))) (xfold (map g (filter (fun x => negb (f x)) l))).
Proof.
  intros A g f. induction l as [|x l IH]; cbn [filter map].
  - reflexivity.
  - rewrite xfold_cons, IH. destruct (f x); cbn [negb map]; rewrite xfold_cons.
    + rewrite N.lxor_assoc. reflexivity.
    + rewrite <- N.lxor_assoc, (N.lxor_comm (g x)), N.lxor_assoc. reflexivity.
Qed.

(* --- lists without duplicates --- *)

Lemma NoDup_app_intro : forall (A : Type) (l1 l2 : list A),
  NoDup l1 -> NoDup l2 -> (forall x, In x l1 -> In x l2 -> False) -> NoDup (l1 ++ l2).
Proof.
  intros A l1 l2 H1. induction H1 as [|x l1 Hx H1 IH]; intros H2 Hd; cbn [app].
  - exact H2.
  - constructor.
    + rewrite in_app_iff. intros [Hi | Hi]; [exact (Hx Hi)|]. apply (Hd x); [left; reflexivity | exact Hi].
    + apply IH; [exact H2|]. intros y Hy1 Hy2. apply (Hd y); [right; exact Hy1 | exact Hy2].
Qed.

Lemma NoDup_flat_map_intro : forall (A B : Type) (f : A -> list B) (l : list A),
  NoDup l -> (forall x, In x l -> NoDup (f x)) ->
  (forall x y z, In x l -> In y l -> In z (f x) -> In z (f y) -> x = y) ->
  NoDup (flat_map f l).
Proof.
  intros A B f l HN. induction HN as [|x l Hx HN IH]; intros Hf Hd; cbn [flat_map].
  - constructor.
  - apply NoDup_app_intro.
    + apply Hf. left; reflexivity.
    + apply IH.
      * intros y Hy. apply Hf. right; exact Hy.
      * intros y1 y2 z Hy1 Hy2. apply Hd; right; assumption.
    + intros z Hz1 Hz2. apply in_flat_map in Hz2. destruct Hz2 as [y [Hy Hzy]].
      assert (E : x = y) by (apply (Hd x y z); [left; reflexivity | right; exact Hy | exact Hz1 | exact Hzy]).
      subst y. exact (Hx Hy).
Qed.

Lemma NoDup_map_inj : forall (A B : Type) (f : A -> B) (l : list A),
  (forall x y, f x = f y -> x = y) -> NoDup l -> NoDup (map f l).
Proof.
  intros A B f l Hinj HN. induction HN as [|x l Hx HN IH]; cbn [map]; constructor.
  - intros Hi. apply in_map_iff in Hi. destruct Hi as [y [E Hy]]. apply Hinj in E. subst y. exact (Hx Hy).
  - exact IH.
Qed.

Lemma NoDup_filter_keep : forall (A : Type) (f : A -> bool) (l : list A), NoDup l -> NoDup (filter f l).
Proof.
  intros A f l HN. induction HN as [|x l Hx HN IH]; cbn [filter]; [constructor|].
  destruct (f x); [|exact IH]. constructor; [|exact IH].
  intros Hi. apply filter_In in Hi. exact (Hx (proj1 Hi)).
Qed.

Lemma filter_length_le : forall (A : Type) (f : A -> bool) (l : list A), (length (filter f l) <= length l)%nat.
Proof.
  intros A f. induction l as [|x l IH]; cbn [filter length]; [lia|]. destruct (f x); cbn [length]; lia.
Qed.

(* --- symmetric difference of two lists over a type with decidable equality --- *)
Section SymDiff.
  Variable A : Type.
  Variable eq_dec : forall x y : A, {x = y} + {x <> y}.

  Definition inb (x : A) (l : list A) : bool := if in_dec eq_dec x l then true else false.

  Lemma inb_true : forall x l, inb x l = true <-> In x l.
  Proof. intros x l. unfold inb. destruct (in_dec eq_dec x l) as [H|H]; split; intros H'; try assumption; try reflexivity; try discriminate. contradiction. Qed.

  Lemma inb_false : forall x l, inb x l = false <-> ~ In x l.
  Proof. intros x l. unfold inb. destruct (in_dec eq_dec x l) as [H|H]; split; intros H'; try assumption; try reflexivity; try discriminate. contradiction. Qed.

  Definition symdiff (l1 l2 : list A) : list A :=
    filter (fun x => negb (inb x l2)) l1 ++ filter (fun x => negb (inb x l1)) l2.

  Lemma symdiff_In : forall l1 l2 x, In x (symdiff l1 l2) <-> (In x l1 /\ ~ In x l2) \/ (In x l2 /\ ~ In x l1).
  Proof.
    intros l1 l2 x. unfold symdiff. rewrite in_app_iff, !filter_In, !negb_true_iff, !inb_false. reflexivity.
  Qed.

  Lemma symdiff_NoDup : forall l1 l2, NoDup l1 -> NoDup l2 -> NoDup (symdiff l1 l2).
  Proof.
    intros l1 l2 H1 H2. unfold symdiff. apply NoDup_app_intro.
    - apply NoDup_filter_keep. exact H1.
    - apply NoDup_filter_keep. exact H2.
    - intros x Hx1 Hx2. apply filter_In in Hx1. apply filter_In in Hx2.
      destruct Hx1 as [Hi1 Hn1]. destruct Hx2 as [Hi2 Hn2].
      apply negb_true_iff, inb_false in Hn1. exact (Hn1 Hi2).
  Qed.

  Lemma symdiff_length : forall l1 l2, (length (symdiff l1 l2) <= length l1 + length l2)%nat.
  Proof.
    intros l1 l2. unfold symdiff. rewrite app_length.
    pose proof (filter_length_le A (fun x => negb (inb x l2)) l1).
    pose proof (filter_length_le A (fun x => negb (inb x l1)) l2). lia.
  Qed.

  Lemma symdiff_nil : forall l1 l2, symdiff l1 l2 = [] -> forall x, In x l1 <-> In x l2.
  Proof.
    intros l1 l2 E x.
    assert (Hn : ~ In x (symdiff l1 l2)) by (rewrite E; intros []).
    rewrite symdiff_In in Hn.
    split; intros Hi.
    - destruct (in_dec eq_dec x l2) as [H|H]; [exact H|]. exfalso. apply Hn. left. split; assumption.
    - destruct (in_dec eq_dec x l1) as [H|H]; [exact H|]. exfalso. apply Hn. right. split; assumption.
  Qed.

  Lemma xfold_symdiff : forall (g : A -> N) l1 l2, NoDup l1 -> NoDup l2 ->
    N.lxor (xfold (map g l1)) (xfold (map g l2)) = xfold (map g (symdiff l1 l2)).
  Proof.
    intros g l1 l2 H1 H2.
    rewrite (xfold_filter_split A g (fun x => inb x l2) l1).
    rewrite (xfold_filter_split A g (fun x => inb x l1) l2).
    unfold symdiff. rewrite map_app, xfold_app.
    assert (EP : xfold (map g (filter (fun x => inb x l2) l1)) = xfold (map g (filter (fun x => inb x l1) l2))).
    { apply xfold_perm, Permutation_map, NoDup_Permutation.
      - apply NoDup_filter_keep. exact H1.
      - apply NoDup_filter_keep. exact H2.
      - intros x. rewrite !filter_In, !inb_true. tauto. }
    rewrite EP.
    set (c := xfold (map g (filter (fun x => inb x l1) l2))).
    set (a := xfold (map g (filter (fun x => negb (inb x l2)) l1))).
    set (b := xfold (map g (filter (fun x => negb (inb x l1)) l2))).
    rewrite (N.lxor_comm c a), N.lxor_assoc, <- (N.lxor_assoc c c b), N.lxor_nilpotent, N.lxor_0_l.
    reflexivity.
  Qed.
End SymDiff.

(* ------------------------------------------------------------------ *)
(* 2. iter_ones has no duplicates                                      *)
(* ------------------------------------------------------------------ *)

Lemma ones_pos_NoDup : forall p i, NoDup (ones_pos p i).
Proof.
  induction p as [q IH | q IH |]; intros i; cbn [ones_pos].
  - constructor; [|apply IH]. intros Hi. apply ones_pos_spec in Hi. destruct Hi as [j [E _]]. lia.
  - apply IH.
  - constructor; [intros [] | constructor].
Qed.

Lemma iter_ones_NoDup : forall b, NoDup (iter_ones b).
Proof. intros [|p]; cbn [iter_ones]; [constructor | apply ones_pos_NoDup]. Qed.

(* ------------------------------------------------------------------ *)
(* 3. the rule key                                                     *)
(* ------------------------------------------------------------------ *)

(* the rule-relevant key of a state: placement, side, four rights, capturable en-passant target *)
Definition rulekey (s : state) : board * color * (bool * bool * bool * bool) * option N :=
  (st_board s, st_turn s, (st_wk s, st_wq s, st_bk s, st_bq s), ep_capturable s).

(* the hash as a function of the components of the rule key *)
Definition hash_core (h : hasher) (b : board) (t : color) (wk wq bk bq : bool) (epc : option N) : N :=
  let x0 := hash_pieces h b in
  let x1 := N.lxor x0 (nthN (k_turn h) (if is_white t then 0 else 1) 0) in
  let x2 := fold_left (fun acc ck =>
              if castle_right (mkState b t wk wq bk bq None 0 0) (fst ck) (snd ck)
              then N.lxor acc (nthN (k_castle h) ((if is_white (fst ck) then 0 else 2) + (if snd ck then 0 else 1)) 0)
              else acc)
              [(White, true); (White, false); (Black, true); (Black, false)] x1 in
  match epc with
  | Some t => N.lxor x2 (nthN (k_ep h) (file_of t) 0)
  | None => x2
  end.

Lemma hash_as_core : forall h s,
  hash h s = hash_core h (st_board s) (st_turn s) (st_wk s) (st_wq s) (st_bk s) (st_bq s) (ep_capturable s).
Proof. intros h s. reflexivity. Qed.

Theorem same_key_same_hash : forall h s1 s2, rulekey s1 = rulekey s2 -> hash h s1 = hash h s2.
Proof.
  intros h s1 s2 E. unfold rulekey in E. injection E as Eb Et Ewk Ewq Ebk Ebq Eep.
  rewrite !hash_as_core, Eb, Et, Ewk, Ewq, Ebk, Ebq, Eep. reflexivity.
Qed.

Theorem counters_and_path_irrelevant : forall h b t wk wq bk bq ep h1 f1 h2 f2,
  hash h (mkState b t wk wq bk bq ep h1 f1) = hash h (mkState b t wk wq bk bq ep h2 f2).
Proof. intros. apply same_key_same_hash. reflexivity. Qed.

Theorem uncapturable_ep_irrelevant : forall h s ep',
  ep_capturable s = None ->
  ep_capturable (mkState (st_board s) (st_turn s) (st_wk s) (st_wq s) (st_bk s) (st_bq s) ep' (st_half s) (st_full s)) = None ->
  hash h (mkState (st_board s) (st_turn s) (st_wk s) (st_wq s) (st_bk s) (st_bq s) ep' (st_half s) (st_full s)) = hash h s.
Proof.
  intros h s ep' H1 H2. apply same_key_same_hash. unfold rulekey. rewrite H1, H2. reflexivity.
Qed.
