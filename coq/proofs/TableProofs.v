(* Proofs for property C15: the transposition table (model/Table.v).

   Structure:
     1. list helpers (set_nth, sumN)
     2. one bucket: shape of an insert_or_replace step, and what it preserves
     3. tables and the access layer: the invariant acc_ok, preserved by every operation
     4. runs: refinement of the last-writer-wins map, retention, counting
     5. interleavings of per-thread operation lists *)
From Coq Require Import NArith ZArith List Bool Lia ZifyBool ZifyN ZifyNat Permutation.
From WV Require Import Table.
Import ListNotations.
Open Scope N_scope.
Ltac Zify.zify_post_hook ::= Z.div_mod_to_equations.
#[local] Arguments N.add : simpl never.
#[local] Arguments N.sub : simpl never.
#[local] Arguments N.mul : simpl never.
#[local] Arguments N.modulo : simpl never.
#[local] Arguments N.of_nat : simpl never.
#[local] Arguments N.to_nat : simpl never.

(* ------------------------------------------------------------------ *)
(* 1. list helpers                                                      *)
(* ------------------------------------------------------------------ *)

Lemma set_nth_length {A} (l : list A) i v : length (set_nth l i v) = length l.
Proof. revert i; induction l as [|x l IH]; intros [|i]; cbn; auto. Qed.

Lemma nth_set_nth_eq {A} (l : list A) i v d : (i < length l)%nat -> nth i (set_nth l i v) d = v.
Proof.
  revert i; induction l as [|x l IH]; intros [|i] H; cbn in *; try lia; auto.
  apply IH; lia.
Qed.

Lemma nth_set_nth_neq {A} (l : list A) i j v d : i <> j -> nth j (set_nth l i v) d = nth j l d.
Proof.
  revert i j; induction l as [|x l IH]; intros [|i] [|j] H; cbn; auto; try congruence.
Qed.

Lemma set_nth_split {A} (l : list A) i v : (i < length l)%nat ->
  exists pre s post, l = pre ++ s :: post /\ set_nth l i v = pre ++ v :: post /\ length pre = i.
Proof.
  revert i; induction l as [|x l IH]; intros [|i] H; cbn in *; try lia.
  - exists [], x, l; auto.
  - destruct (IH i) as (pre & s & post & E1 & E2 & E3); [lia|].
    exists (x :: pre), s, post. cbn. rewrite E2, E3. rewrite E1 at 1. auto.
Qed.

Lemma nth_repeat_lt {A} (x d : A) n j : (j < n)%nat -> nth j (repeat x n) d = x.
Proof. revert j; induction n as [|n IH]; intros [|j] H; cbn; try lia; auto. apply IH; lia. Qed.

Fixpoint sumN {A} (f : A -> N) (l : list A) : N :=
  match l with [] => 0 | x :: tl => f x + sumN f tl end.

Lemma sumN_app {A} (f : A -> N) l1 l2 : sumN f (l1 ++ l2) = sumN f l1 + sumN f l2.
Proof. induction l1 as [|x l1 IH]; cbn [sumN app]; lia. Qed.

Lemma fold_left_sumN {A} (f : A -> N) l s0 : fold_left (fun s t => s + f t) l s0 = s0 + sumN f l.
Proof. revert s0; induction l as [|x l IH]; intro s0; cbn [fold_left sumN]; [lia|]. rewrite IH. lia. Qed.

Lemma sumN_ext_in {A} (f g : A -> N) l : (forall x, In x l -> f x = g x) -> sumN f l = sumN g l.
Proof.
  induction l as [|x l IH]; intro H; cbn [sumN]; [reflexivity|].
  rewrite (H x), IH; [reflexivity| |left; reflexivity]. intros y Hy; apply H; right; exact Hy.
Qed.

Lemma sumN_le_in {A} (f g : A -> N) l : (forall x, In x l -> f x <= g x) -> sumN f l <= sumN g l.
Proof.
  induction l as [|x l IH]; intro H; cbn [sumN]; [lia|].
  assert (f x <= g x) by (apply H; left; reflexivity).
  assert (sumN f l <= sumN g l) by (apply IH; intros y Hy; apply H; right; exact Hy). lia.
Qed.

Lemma sumN_const {A} (c : N) (l : list A) : sumN (fun _ => c) l = N.of_nat (length l) * c.
Proof. induction l as [|x l IH]; cbn [sumN length]; [lia|]. rewrite IH. lia. Qed.

Lemma sumN_set_nth {A} (f : A -> N) l j v d : (j < length l)%nat ->
  sumN f (set_nth l j v) + f (nth j l d) = sumN f l + f v.
Proof.
  intro H. destruct (set_nth_split l j v H) as (pre & s & post & E1 & E2 & E3).
  rewrite E2, E1. rewrite <- E3, nth_middle, !sumN_app. cbn [sumN]. lia.
Qed.

Lemma in_nth_lt {A} (l : list A) x d : In x l -> exists i, (i < length l)%nat /\ nth i l d = x.
Proof. apply In_nth. Qed.

(* ------------------------------------------------------------------ *)
(* 2. one bucket                                                        *)
(* ------------------------------------------------------------------ *)

Lemma bucket_size_pos : (0 < N.to_nat bucket_size)%nat.
Proof. vm_compute. lia. Qed.

Definition slot_key (s : slot) : option N :=
  match s with Some (h, _) => Some h | None => None end.

(* the keys stored in a bucket, in slot order *)
Fixpoint keys (b : bucket) : list N :=
  match b with
  | [] => []
  | Some (h, _) :: tl => h :: keys tl
  | None :: tl => keys tl
  end.

Definition occ_slot (s : slot) : N := match s with Some _ => 1 | None => 0 end.
(* number of occupied slots of a bucket *)
Definition occ (b : bucket) : N := sumN occ_slot b.

(* the occupied slots form a prefix: after the first empty slot everything is empty *)
Fixpoint prefix_occ (b : bucket) : Prop :=
  match b with
  | [] => True
  | None :: tl => Forall (fun s => s = None) tl
  | Some _ :: tl => prefix_occ tl
  end.

Definition other_slot (k : N) (s : slot) : Prop := exists h x, s = Some (h, x) /\ h <> k.
(* every slot is occupied, by a key different from k *)
Definition full_of_others (k : N) (b : bucket) : Prop := Forall (other_slot k) b.

Lemma keys_app b1 b2 : keys (b1 ++ b2) = keys b1 ++ keys b2.
Proof. induction b1 as [|[[h x]|] b1 IH]; cbn [keys app]; congruence. Qed.

Lemma find_app b1 b2 k :
  bucket_find (b1 ++ b2) k =
  match bucket_find b1 k with Some e => Some e | None => bucket_find b2 k end.
Proof.
  induction b1 as [|[[h x]|] b1 IH]; cbn [bucket_find app]; auto.
  destruct (h =? k); auto.
Qed.

Lemma find_none_iff b k : bucket_find b k = None <-> ~ In k (keys b).
Proof.
  induction b as [|[[h x]|] b IH]; cbn [bucket_find keys In].
  - tauto.
  - destruct (N.eqb_spec h k) as [E|E].
    + split; [discriminate|]. intro H; exfalso; apply H; left; exact E.
    + tauto.
  - exact IH.
Qed.

Lemma find_some_in b k e : bucket_find b k = Some e -> In k (keys b).
Proof.
  intro H. destruct (in_dec N.eq_dec k (keys b)) as [Hi|Hi]; [exact Hi|].
  apply find_none_iff in Hi. congruence.
Qed.

Lemma allnone_prefix b : Forall (fun s => s = None) b -> prefix_occ b.
Proof. induction 1 as [|s b Hs Hb IH]; [exact I|]. subst s. exact Hb. Qed.

Lemma allnone_keys b : Forall (fun s => s = None) b -> keys b = [].
Proof. induction 1 as [|s b Hs Hb IH]; [reflexivity|]. subst s. exact IH. Qed.

Lemma prefix_app_some pre l :
  Forall (fun s => s <> None) pre -> (prefix_occ (pre ++ l) <-> prefix_occ l).
Proof.
  induction 1 as [|s pre Hs Hp IH]; cbn [app]; [tauto|].
  destruct s as [p|]; [exact IH | congruence].
Qed.

Lemma prefix_replace_some pre x y post :
  prefix_occ (pre ++ Some x :: post) -> prefix_occ (pre ++ Some y :: post).
Proof.
  induction pre as [|[p|] pre IH]; cbn [app prefix_occ]; auto.
  intro H. exfalso. apply Forall_app in H. destruct H as [_ H]. inversion H; discriminate.
Qed.

Lemma full_notin k b : full_of_others k b -> ~ In k (keys b).
Proof.
  induction 1 as [|s b (h & x & -> & Hn) Hb IH]; cbn [keys In]; [tauto|].
  intros [E|E]; auto.
Qed.

Lemma full_some k b : full_of_others k b -> Forall (fun s => s <> None) b.
Proof. intro H. eapply Forall_impl; [|exact H]. intros s (h & x & -> & _). discriminate. Qed.

Lemma full_occ k b : full_of_others k b -> occ b = N.of_nat (length b).
Proof.
  unfold occ. induction 1 as [|s b (h & x & -> & Hn) Hb IH]; cbn [sumN length occ_slot]; [reflexivity|].
  rewrite IH. lia.
Qed.

Lemma scan_some b k e b' r : bucket_scan b k e = Some (b', r) ->
  exists pre s post, b = pre ++ s :: post /\ b' = pre ++ Some (k, e) :: post /\
    full_of_others k pre /\
    ((s = None /\ r = Inserted) \/ ((exists x, s = Some (k, x)) /\ r = Swapped)).
Proof.
  revert b' r; induction b as [|[[h x]|] b IH]; intros b' r H; cbn [bucket_scan] in H.
  - discriminate.
  - destruct (N.eqb_spec h k) as [->|Hn].
    + inversion H; subst. exists [], (Some (k, x)), b.
      split; [reflexivity|]. split; [reflexivity|]. split; [constructor|]. right. eauto.
    + destruct (bucket_scan b k e) as [[tl' r']|] eqn:Hs; [|discriminate]. inversion H; subst.
      destruct (IH _ _ eq_refl) as (pre & s & post & E1 & E2 & Hf & Hc).
      exists (Some (h, x) :: pre), s, post. subst.
      split; [reflexivity|]. split; [reflexivity|]. split; [|exact Hc].
      constructor; [|exact Hf]. exists h, x; auto.
  - inversion H; subst. exists [], None, b.
    split; [reflexivity|]. split; [reflexivity|]. split; [constructor|]. left; auto.
Qed.

Lemma scan_none b k e : bucket_scan b k e = None -> full_of_others k b.
Proof.
  induction b as [|[[h x]|] b IH]; intro H; cbn [bucket_scan] in H.
  - constructor.
  - destruct (N.eqb_spec h k) as [->|Hn]; [discriminate|].
    destruct (bucket_scan b k e) as [[tl' r']|] eqn:Hs; [discriminate|].
    constructor; [exists h, x; auto | apply IH; reflexivity].
  - discriminate.
Qed.

(* the slot index overwritten when the scan falls through *)
Definition victim_idx (b : bucket) (k : N) (e : entry) : nat :=
  N.to_nat ((N.lxor k (e_move e)) mod N.of_nat (length b)).

(* the key (if any) that inserting (k,e) into b throws out: None unless the insert is a Replaced write *)
Definition bucket_victim (b : bucket) (k : N) (e : entry) : option N :=
  match bucket_scan b k e with
  | Some _ => None
  | None => slot_key (nth (victim_idx b k e) b None)
  end.

Definition ins_shape (b : bucket) (k : N) (e : entry) (b' : bucket) (r : ires)
           (pre : bucket) (s : slot) (post : bucket) : Prop :=
  b = pre ++ s :: post /\ b' = pre ++ Some (k, e) :: post /\
  ~ In k (keys pre) /\ Forall (fun s => s <> None) pre /\
  match r with
  | Inserted => s = None /\ bucket_victim b k e = None
  | Swapped => (exists x, s = Some (k, x)) /\ bucket_victim b k e = None
  | Replaced => (exists h x, s = Some (h, x) /\ h <> k) /\ ~ In k (keys post) /\
                bucket_victim b k e = slot_key s /\ full_of_others k b
  end.

Lemma victim_idx_lt b k e : (0 < length b)%nat -> (victim_idx b k e < length b)%nat.
Proof. unfold victim_idx. intro H. lia. Qed.

Lemma bucket_insert_shape b k e : (0 < length b)%nat ->
  exists pre s post,
    ins_shape b k e (fst (bucket_insert b k e)) (snd (bucket_insert b k e)) pre s post.
Proof.
  intro Hl. unfold ins_shape, bucket_insert, bucket_victim.
  destruct (bucket_scan b k e) as [[b' r]|] eqn:Hs.
  - apply scan_some in Hs. destruct Hs as (pre & s & post & E1 & E2 & Hf & Hc).
    exists pre, s, post. cbn [fst snd].
    split; [exact E1|]. split; [exact E2|]. split; [apply full_notin; exact Hf|].
    split; [eapply full_some; exact Hf|].
    destruct Hc as [[-> ->]|[Hx ->]]; auto.
  - apply scan_none in Hs. cbn [fst snd]. fold (victim_idx b k e).
    pose proof (victim_idx_lt b k e Hl) as Hi.
    destruct (set_nth_split b _ (Some (k, e)) Hi) as (pre & s & post & E1 & E2 & E3).
    assert (Hn : nth (victim_idx b k e) b None = s) by (rewrite <- E3, E1; apply nth_middle).
    exists pre, s, post. rewrite Hn.
    pose proof Hs as Hs'. unfold full_of_others in Hs'. rewrite E1 in Hs'.
    apply Forall_app in Hs'. destruct Hs' as [Hpre Hsp]. inversion Hsp as [|s0 l0 Hs0 Hpost]; subst s0 l0.
    split; [exact E1|]. split; [exact E2|]. split; [apply full_notin; exact Hpre|].
    split; [eapply full_some; exact Hpre|].
    split; [exact Hs0|]. split; [apply full_notin; exact Hpost|]. split; [reflexivity|exact Hs].
Qed.

Lemma shape_length b k e b' r pre s post : ins_shape b k e b' r pre s post -> length b' = length b.
Proof. intros (E1 & E2 & _). rewrite E1, E2, !app_length. reflexivity. Qed.

Lemma shape_find_same b k e b' r pre s post :
  ins_shape b k e b' r pre s post -> bucket_find b' k = Some e.
Proof.
  intros (E1 & E2 & Hn & _). rewrite E2, find_app.
  apply find_none_iff in Hn. rewrite Hn. cbn [bucket_find]. rewrite N.eqb_refl. reflexivity.
Qed.

Lemma shape_find_other b k e b' r pre s post k2 :
  ins_shape b k e b' r pre s post -> k2 <> k -> bucket_victim b k e <> Some k2 ->
  bucket_find b' k2 = bucket_find b k2.
Proof.
  intros (E1 & E2 & Hn & Hp & Hr) Hk Hv. rewrite E2, E1, !find_app.
  destruct (bucket_find pre k2); [reflexivity|]. cbn [bucket_find].
  destruct (N.eqb_spec k k2) as [E|_]; [congruence|].
  destruct r.
  - destruct Hr as [-> _]. reflexivity.
  - destruct Hr as ((h & x & -> & Hh) & _ & Hs & _). cbn [slot_key] in Hs.
    destruct (N.eqb_spec h k2) as [E|_]; [congruence|reflexivity].
  - destruct Hr as [[x ->] _]. destruct (N.eqb_spec k k2) as [E|_]; [congruence|reflexivity].
Qed.

Lemma shape_find_evicted b k e b' r pre s post k2 :
  ins_shape b k e b' r pre s post -> k2 <> k -> bucket_victim b k e = Some k2 ->
  NoDup (keys b) -> bucket_find b' k2 = None.
Proof.
  intros (E1 & E2 & Hn & Hp & Hr) Hk Hv Hnd.
  destruct r; try (destruct Hr as [_ Hr]; congruence).
  destruct Hr as ((h & x & -> & Hh) & _ & Hs & _). cbn [slot_key] in Hs.
  assert (h = k2) by congruence. subst h.
  rewrite E1, keys_app in Hnd. cbn [keys] in Hnd. apply NoDup_remove_2 in Hnd.
  apply find_none_iff. rewrite E2, keys_app. cbn [keys]. rewrite in_app_iff in *. cbn [In].
  intros [H|[H|H]]; auto.
Qed.

Lemma shape_prefix b k e b' r pre s post :
  ins_shape b k e b' r pre s post -> prefix_occ b -> prefix_occ b'.
Proof.
  intros (E1 & E2 & Hn & Hp & Hr) H. subst b b'. destruct r.
  - destruct Hr as [-> _]. apply prefix_app_some in H; [|exact Hp].
    apply prefix_app_some; [exact Hp|]. cbn [prefix_occ] in *. apply allnone_prefix; exact H.
  - destruct Hr as ((h & x & -> & _) & _). eapply prefix_replace_some; exact H.
  - destruct Hr as [[x ->] _]. eapply prefix_replace_some; exact H.
Qed.

Lemma shape_keys_in b k e b' r pre s post x :
  ins_shape b k e b' r pre s post -> In x (keys b') -> x = k \/ In x (keys b).
Proof.
  intros (E1 & E2 & _) H. subst b b'. rewrite keys_app in *. cbn [keys] in H.
  rewrite in_app_iff in *. cbn [In] in H. destruct H as [H|[H|H]]; auto.
  right; right. destruct s as [[h y]|]; cbn [keys In]; auto.
Qed.

Lemma shape_nodup b k e b' r pre s post :
  ins_shape b k e b' r pre s post -> prefix_occ b -> NoDup (keys b) -> NoDup (keys b').
Proof.
  intros (E1 & E2 & Hn & Hp & Hr) Hpre Hnd. subst b b'.
  rewrite keys_app in *. cbn [keys] in *. destruct r.
  - destruct Hr as [-> _]. cbn [keys] in Hnd.
    apply prefix_app_some in Hpre; [|exact Hp]. cbn [prefix_occ] in Hpre.
    apply allnone_keys in Hpre. rewrite Hpre in *.
    apply (NoDup_Add (Add_app k (keys pre) [])). split; [exact Hnd|].
    rewrite app_nil_r. exact Hn.
  - destruct Hr as ((h & x & -> & Hh) & Hpost & _). cbn [keys] in Hnd.
    apply (NoDup_Add (Add_app k (keys pre) (keys post))). split.
    + eapply NoDup_remove_1; exact Hnd.
    + rewrite in_app_iff. tauto.
  - destruct Hr as [[x ->] _]. exact Hnd.
Qed.

Lemma shape_occ b k e b' r pre s post :
  ins_shape b k e b' r pre s post ->
  occ b' = occ b + match r with Inserted => 1 | _ => 0 end.
Proof.
  intros (E1 & E2 & _ & _ & Hr). subst b b'. unfold occ. rewrite !sumN_app. cbn [sumN occ_slot].
  destruct r.
  - destruct Hr as [-> _]. cbn [occ_slot]. lia.
  - destruct Hr as ((h & x & -> & _) & _). cbn [occ_slot]. lia.
  - destruct Hr as [[x ->] _]. cbn [occ_slot]. lia.
Qed.

Lemma occ_le_length b : occ b <= N.of_nat (length b).
Proof.
  unfold occ. induction b as [|s b IH]; cbn [sumN length]; [lia|].
  destruct s; cbn [occ_slot]; lia.
Qed.

Lemma slot_key_nth_in b i k : slot_key (nth i b None) = Some k -> In k (keys b).
Proof.
  revert i; induction b as [|s b IH]; intros [|i] H; cbn [nth] in H; try discriminate.
  - destruct s as [[h x]|]; [|discriminate]. cbn [slot_key] in H. cbn [keys]. left; congruence.
  - apply IH in H. destruct s as [[h x]|]; cbn [keys In]; auto.
Qed.

Lemma bucket_victim_in b k e k2 : bucket_victim b k e = Some k2 -> In k2 (keys b).
Proof.
  unfold bucket_victim. destruct (bucket_scan b k e); [discriminate|]. apply slot_key_nth_in.
Qed.

Lemma bucket_victim_full b k e k2 :
  bucket_victim b k e = Some k2 -> bucket_scan b k e = None /\ full_of_others k b.
Proof.
  unfold bucket_victim. destruct (bucket_scan b k e) eqn:Hs; [discriminate|].
  intros _. split; [reflexivity|]. eapply scan_none; exact Hs.
Qed.

(* the per-bucket invariant; P is the routing predicate of the bucket *)
Definition bucket_ok (P : N -> Prop) (b : bucket) : Prop :=
  length b = N.to_nat bucket_size /\ prefix_occ b /\ NoDup (keys b) /\
  (forall k, In k (keys b) -> P k).

Lemma bucket_insert_ok P b k e :
  bucket_ok P b -> P k -> bucket_ok P (fst (bucket_insert b k e)).
Proof.
  intros (Hl & Hp & Hnd & Hk) HP.
  destruct (bucket_insert_shape b k e) as (pre & s & post & Hs);
    [rewrite Hl; apply bucket_size_pos|].
  split; [rewrite (shape_length _ _ _ _ _ _ _ _ Hs); exact Hl|].
  split; [eapply shape_prefix; eauto|].
  split; [eapply shape_nodup; eauto|].
  intros x Hx. destruct (shape_keys_in _ _ _ _ _ _ _ _ _ Hs Hx) as [->|H]; auto.
Qed.

Lemma empty_bucket_allnone : Forall (fun s : slot => s = None) empty_bucket.
Proof. apply Forall_forall. intros x Hx. apply repeat_spec in Hx. exact Hx. Qed.

Lemma empty_bucket_ok P : bucket_ok P empty_bucket.
Proof.
  pose proof empty_bucket_allnone as H.
  split; [apply repeat_length|]. split; [apply allnone_prefix; exact H|].
  rewrite (allnone_keys _ H). split; [constructor|intros k []].
Qed.

(* ------------------------------------------------------------------ *)
(* 3. tables and the access layer                                       *)
(* ------------------------------------------------------------------ *)

(* routing index: `key mod n` as a list position *)
Definition bidx (n : nat) (k : N) : nat := N.to_nat (k mod N.of_nat n).

Lemma bidx_lt n k : (0 < n)%nat -> (bidx n k < n)%nat.
Proof. unfold bidx. intro H. lia. Qed.

(* sub-table number i of an access structure with nt sub-tables of nb buckets *)
Definition table_ok (nt nb i : nat) (t : table) : Prop :=
  length (t_buckets t) = nb /\
  (forall j, (j < nb)%nat ->
     bucket_ok (fun k => bidx nt k = i /\ bidx nb k = j) (nth j (t_buckets t) [])) /\
  t_used t = sumN occ (t_buckets t).

Definition acc_ok (nt nb : nat) (a : access) : Prop :=
  length a = nt /\ forall i, (i < nt)%nat -> table_ok nt nb i (nth i a (mkTable [] 0)).

Lemma table_insert_buckets t k e :
  t_buckets (table_insert t k e) =
  set_nth (t_buckets t) (bidx (length (t_buckets t)) k)
          (fst (bucket_insert (nth (bidx (length (t_buckets t)) k) (t_buckets t) []) k e)).
Proof. unfold table_insert, bidx. destruct (bucket_insert _ k e) as [b' r]. reflexivity. Qed.

Lemma table_insert_used t k e :
  t_used (table_insert t k e) =
  t_used t +
  match snd (bucket_insert (nth (bidx (length (t_buckets t)) k) (t_buckets t) []) k e) with
  | Inserted => 1 | _ => 0 end.
Proof.
  unfold table_insert, bidx. destruct (bucket_insert _ k e) as [b' r]. cbn [t_used snd].
  destruct r; lia.
Qed.

Lemma table_insert_ok nt nb i t k e :
  (0 < nb)%nat -> table_ok nt nb i t -> bidx nt k = i -> table_ok nt nb i (table_insert t k e).
Proof.
  intros Hnb (Hl & Hb & Hu) Hi. unfold table_ok.
  rewrite table_insert_buckets, table_insert_used, Hl.
  pose proof (bidx_lt nb k Hnb) as Hj. set (j := bidx nb k) in *.
  set (b := nth j (t_buckets t) []).
  split; [rewrite set_nth_length; exact Hl|]. split.
  - intros j' Hj'. destruct (Nat.eq_dec j j') as [<-|Hne].
    + rewrite nth_set_nth_eq by lia. apply bucket_insert_ok; [apply Hb; exact Hj|].
      split; [exact Hi|reflexivity].
    + rewrite nth_set_nth_neq by exact Hne. apply Hb; exact Hj'.
  - pose proof (sumN_set_nth occ (t_buckets t) j (fst (bucket_insert b k e)) []) as Hs.
    fold b in Hs.
    destruct (bucket_insert_shape b k e) as (pre & s & post & Hsh).
    { destruct (Hb j Hj) as (Hlb & _). fold b in Hlb. rewrite Hlb. apply bucket_size_pos. }
    rewrite (shape_occ _ _ _ _ _ _ _ _ Hsh) in Hs. rewrite Hu. lia.
Qed.

Lemma acc_insert_unfold a k e :
  acc_insert a k e =
  set_nth a (bidx (length a) k) (table_insert (nth (bidx (length a) k) a (mkTable [] 0)) k e).
Proof. reflexivity. Qed.

Lemma acc_insert_ok nt nb a k e :
  (0 < nt)%nat -> (0 < nb)%nat -> acc_ok nt nb a -> acc_ok nt nb (acc_insert a k e).
Proof.
  intros Hnt Hnb (Hl & Ht). rewrite acc_insert_unfold, Hl.
  pose proof (bidx_lt nt k Hnt) as Hi. set (i := bidx nt k) in *.
  split; [rewrite set_nth_length; exact Hl|].
  intros i' Hi'. destruct (Nat.eq_dec i i') as [<-|Hne].
  - rewrite nth_set_nth_eq by lia. apply table_insert_ok; auto.
  - rewrite nth_set_nth_neq by exact Hne. apply Ht; exact Hi'.
Qed.

(* the bucket a key is routed to *)
Definition acc_bucket (a : access) (k : N) : bucket :=
  let t := nth (bidx (length a) k) a (mkTable [] 0) in
  nth (bidx (length (t_buckets t)) k) (t_buckets t) [].

Lemma acc_find_bucket a k : acc_find a k = bucket_find (acc_bucket a k) k.
Proof. reflexivity. Qed.

Lemma acc_bucket_norm nt nb a k :
  (0 < nt)%nat -> acc_ok nt nb a ->
  acc_bucket a k = nth (bidx nb k) (t_buckets (nth (bidx nt k) a (mkTable [] 0))) [].
Proof.
  intros Hnt (Hl & Ht). unfold acc_bucket. cbv zeta. rewrite Hl.
  destruct (Ht (bidx nt k) (bidx_lt nt k Hnt)) as (Hlb & _). rewrite Hlb. reflexivity.
Qed.

Lemma acc_bucket_ok nt nb a k :
  (0 < nt)%nat -> (0 < nb)%nat -> acc_ok nt nb a ->
  bucket_ok (fun x => bidx nt x = bidx nt k /\ bidx nb x = bidx nb k) (acc_bucket a k).
Proof.
  intros Hnt Hnb Hok. rewrite (acc_bucket_norm nt nb a k Hnt Hok). destruct Hok as (Hl & Ht).
  destruct (Ht (bidx nt k) (bidx_lt nt k Hnt)) as (_ & Hb & _). apply Hb. apply bidx_lt; exact Hnb.
Qed.

Lemma acc_bucket_nonempty nt nb a k :
  (0 < nt)%nat -> (0 < nb)%nat -> acc_ok nt nb a -> (0 < length (acc_bucket a k))%nat.
Proof.
  intros Hnt Hnb Hok. destruct (acc_bucket_ok nt nb a k Hnt Hnb Hok) as (Hl & _).
  rewrite Hl. apply bucket_size_pos.
Qed.

Definition same_route (nt nb : nat) (k k2 : N) : Prop :=
  bidx nt k2 = bidx nt k /\ bidx nb k2 = bidx nb k.

Lemma same_route_dec nt nb k k2 : {same_route nt nb k k2} + {~ same_route nt nb k k2}.
Proof.
  unfold same_route.
  destruct (Nat.eq_dec (bidx nt k2) (bidx nt k)); destruct (Nat.eq_dec (bidx nb k2) (bidx nb k)); tauto.
Qed.

Lemma acc_bucket_same_route nt nb a k k2 :
  (0 < nt)%nat -> acc_ok nt nb a -> same_route nt nb k k2 -> acc_bucket a k2 = acc_bucket a k.
Proof.
  intros Hnt Hok (E1 & E2).
  rewrite (acc_bucket_norm nt nb a k Hnt Hok), (acc_bucket_norm nt nb a k2 Hnt Hok), E1, E2.
  reflexivity.
Qed.

Lemma acc_bucket_insert_same nt nb a k e k2 :
  (0 < nt)%nat -> (0 < nb)%nat -> acc_ok nt nb a -> same_route nt nb k k2 ->
  acc_bucket (acc_insert a k e) k2 = fst (bucket_insert (acc_bucket a k) k e).
Proof.
  intros Hnt Hnb Hok (E1 & E2).
  rewrite (acc_bucket_norm nt nb _ k2 Hnt (acc_insert_ok nt nb a k e Hnt Hnb Hok)).
  rewrite (acc_bucket_norm nt nb a k Hnt Hok). destruct Hok as (Hl & Ht).
  rewrite acc_insert_unfold, Hl, E1, E2.
  pose proof (bidx_lt nt k Hnt) as Hi. pose proof (bidx_lt nb k Hnb) as Hj.
  destruct (Ht _ Hi) as (Hlb & _).
  rewrite nth_set_nth_eq by lia. rewrite table_insert_buckets, Hlb.
  rewrite nth_set_nth_eq by lia. reflexivity.
Qed.

Lemma acc_bucket_insert_other nt nb a k e k2 :
  (0 < nt)%nat -> (0 < nb)%nat -> acc_ok nt nb a -> ~ same_route nt nb k k2 ->
  acc_bucket (acc_insert a k e) k2 = acc_bucket a k2.
Proof.
  intros Hnt Hnb Hok Hr.
  rewrite (acc_bucket_norm nt nb _ k2 Hnt (acc_insert_ok nt nb a k e Hnt Hnb Hok)).
  rewrite (acc_bucket_norm nt nb a k2 Hnt Hok). destruct Hok as (Hl & Ht).
  rewrite acc_insert_unfold, Hl.
  pose proof (bidx_lt nt k Hnt) as Hi. pose proof (bidx_lt nb k Hnb) as Hj.
  destruct (Ht _ Hi) as (Hlb & _).
  destruct (Nat.eq_dec (bidx nt k) (bidx nt k2)) as [E1|E1].
  - rewrite <- E1. rewrite nth_set_nth_eq by lia. rewrite table_insert_buckets, Hlb.
    rewrite nth_set_nth_neq; [reflexivity|]. intro E2. apply Hr. split; congruence.
  - rewrite nth_set_nth_neq by exact E1. reflexivity.
Qed.

(* the key (if any) thrown out of the table by inserting (k,e): the insert is a Replaced write
   into the full bucket of k and overwrites the slot that held this key *)
Definition victim_key (a : access) (k : N) (e : entry) : option N :=
  bucket_victim (acc_bucket a k) k e.

Lemma find_insert_same nt nb a k e :
  (0 < nt)%nat -> (0 < nb)%nat -> acc_ok nt nb a -> acc_find (acc_insert a k e) k = Some e.
Proof.
  intros Hnt Hnb Hok. rewrite acc_find_bucket.
  rewrite (acc_bucket_insert_same nt nb a k e k Hnt Hnb Hok) by (split; reflexivity).
  destruct (bucket_insert_shape (acc_bucket a k) k e) as (pre & s & post & Hs);
    [apply (acc_bucket_nonempty nt nb); assumption|].
  eapply shape_find_same; exact Hs.
Qed.

Lemma find_insert_other nt nb a k e k2 :
  (0 < nt)%nat -> (0 < nb)%nat -> acc_ok nt nb a ->
  k2 <> k -> victim_key a k e <> Some k2 ->
  acc_find (acc_insert a k e) k2 = acc_find a k2.
Proof.
  intros Hnt Hnb Hok Hk Hv. rewrite !acc_find_bucket.
  destruct (same_route_dec nt nb k k2) as [Hr|Hr].
  - rewrite (acc_bucket_insert_same nt nb a k e k2 Hnt Hnb Hok Hr).
    rewrite (acc_bucket_same_route nt nb a k k2 Hnt Hok Hr).
    destruct (bucket_insert_shape (acc_bucket a k) k e) as (pre & s & post & Hs);
      [apply (acc_bucket_nonempty nt nb); assumption|].
    eapply shape_find_other; eauto.
  - rewrite (acc_bucket_insert_other nt nb a k e k2 Hnt Hnb Hok Hr). reflexivity.
Qed.

Lemma victim_key_route nt nb a k e k2 :
  (0 < nt)%nat -> (0 < nb)%nat -> acc_ok nt nb a ->
  victim_key a k e = Some k2 -> same_route nt nb k k2.
Proof.
  intros Hnt Hnb Hok Hv. apply bucket_victim_in in Hv.
  destruct (acc_bucket_ok nt nb a k Hnt Hnb Hok) as (_ & _ & _ & HP). exact (HP _ Hv).
Qed.

Lemma find_insert_evicted nt nb a k e k2 :
  (0 < nt)%nat -> (0 < nb)%nat -> acc_ok nt nb a ->
  k2 <> k -> victim_key a k e = Some k2 ->
  acc_find (acc_insert a k e) k2 = None.
Proof.
  intros Hnt Hnb Hok Hk Hv. rewrite acc_find_bucket.
  pose proof (victim_key_route nt nb a k e k2 Hnt Hnb Hok Hv) as Hr.
  rewrite (acc_bucket_insert_same nt nb a k e k2 Hnt Hnb Hok Hr).
  destruct (bucket_insert_shape (acc_bucket a k) k e) as (pre & s & post & Hs);
    [apply (acc_bucket_nonempty nt nb); assumption|].
  destruct (acc_bucket_ok nt nb a k Hnt Hnb Hok) as (_ & _ & Hnd & _).
  eapply shape_find_evicted; eauto.
Qed.

(* the table refines the last-writer-wins map: whatever it answers is the latest write *)
Definition refines (a : access) (m : mapspec) : Prop :=
  forall k e, acc_find a k = Some e -> spec_find m k = Some e.

Lemma step_ok nt nb a o :
  (0 < nt)%nat -> (0 < nb)%nat -> acc_ok nt nb a -> acc_ok nt nb (fst (acc_step a o)).
Proof.
  intros Hnt Hnb Hok. destruct o as [k|k e]; cbn [acc_step fst]; [exact Hok|].
  apply acc_insert_ok; assumption.
Qed.

Lemma step_refines nt nb a m o :
  (0 < nt)%nat -> (0 < nb)%nat -> acc_ok nt nb a -> refines a m ->
  refines (fst (acc_step a o)) (spec_step m o).
Proof.
  intros Hnt Hnb Hok Hr. destruct o as [k|k e]; cbn [acc_step fst spec_step]; [exact Hr|].
  intros k2 e2 H. cbn [spec_find]. destruct (N.eqb_spec k k2) as [<-|Hne].
  - rewrite (find_insert_same nt nb) in H by assumption. exact H.
  - apply Hr.
    assert (Hd : {victim_key a k e = Some k2} + {victim_key a k e <> Some k2})
      by (decide equality; apply N.eq_dec).
    destruct Hd as [Hv|Hv].
    + rewrite (find_insert_evicted nt nb) in H by auto. discriminate.
    + rewrite (find_insert_other nt nb) in H by auto. exact H.
Qed.

(* ------------------------------------------------------------------ *)
(* 4. runs                                                              *)
(* ------------------------------------------------------------------ *)

Definition reach (nt nb : nat) (ops : list top) : access :=
  fst (acc_run (empty_access nt nb) ops).

Lemma acc_run_cons a o ops :
  acc_run a (o :: ops) =
  (fst (acc_run (fst (acc_step a o)) ops),
   snd (acc_step a o) :: snd (acc_run (fst (acc_step a o)) ops)).
Proof.
  cbn [acc_run]. destruct (acc_step a o) as [a1 r]. cbn [fst snd].
  destruct (acc_run a1 ops); reflexivity.
Qed.

Lemma acc_run_app a l1 l2 :
  acc_run a (l1 ++ l2) =
  (fst (acc_run (fst (acc_run a l1)) l2),
   snd (acc_run a l1) ++ snd (acc_run (fst (acc_run a l1)) l2)).
Proof.
  revert a; induction l1 as [|o l1 IH]; intro a; cbn [app].
  - cbn [acc_run fst snd app]. destruct (acc_run a l2); reflexivity.
  - rewrite !acc_run_cons, IH. cbn [fst snd app]. reflexivity.
Qed.

Lemma acc_run_length a l : length (snd (acc_run a l)) = length l.
Proof.
  revert a; induction l as [|o l IH]; intro a; [reflexivity|].
  rewrite acc_run_cons. cbn [snd length]. rewrite IH. reflexivity.
Qed.

Lemma reach_app nt nb l1 l2 : reach nt nb (l1 ++ l2) = fst (acc_run (reach nt nb l1) l2).
Proof. unfold reach. rewrite acc_run_app. reflexivity. Qed.

Lemma reach_snoc nt nb l o : reach nt nb (l ++ [o]) = fst (acc_step (reach nt nb l) o).
Proof. rewrite reach_app, acc_run_cons. reflexivity. Qed.

Lemma run_ok nt nb a ops :
  (0 < nt)%nat -> (0 < nb)%nat -> acc_ok nt nb a -> acc_ok nt nb (fst (acc_run a ops)).
Proof.
  intros Hnt Hnb. revert a; induction ops as [|o ops IH]; intros a Hok; [exact Hok|].
  rewrite acc_run_cons. cbn [fst]. apply IH. apply step_ok; assumption.
Qed.

Lemma run_refines nt nb a m ops :
  (0 < nt)%nat -> (0 < nb)%nat -> acc_ok nt nb a -> refines a m ->
  refines (fst (acc_run a ops)) (fold_left spec_step ops m).
Proof.
  intros Hnt Hnb. revert a m; induction ops as [|o ops IH]; intros a m Hok Hr; [exact Hr|].
  rewrite acc_run_cons. cbn [fst fold_left]. apply IH.
  - apply step_ok; assumption.
  - apply (step_refines nt nb); assumption.
Qed.

Lemma empty_table_ok nt nb i : table_ok nt nb i (empty_table nb).
Proof.
  unfold empty_table, table_ok. cbn [t_buckets t_used]. split; [apply repeat_length|]. split.
  - intros j Hj. rewrite nth_repeat_lt by exact Hj. apply empty_bucket_ok.
  - induction nb as [|n IH]; cbn [repeat sumN]; [reflexivity|]. rewrite <- IH.
    unfold occ. rewrite (sumN_ext_in occ_slot (fun _ => 0)), sumN_const; [lia|].
    intros x Hx. apply repeat_spec in Hx. subst x. reflexivity.
Qed.

Lemma empty_ok nt nb : acc_ok nt nb (empty_access nt nb).
Proof.
  split; [apply repeat_length|]. intros i Hi. unfold empty_access.
  rewrite nth_repeat_lt by exact Hi. apply empty_table_ok.
Qed.

Lemma empty_refines nt nb : (0 < nt)%nat -> (0 < nb)%nat -> refines (empty_access nt nb) [].
Proof.
  intros Hnt Hnb k e H. exfalso. rewrite acc_find_bucket in H. apply find_some_in in H.
  rewrite (acc_bucket_norm nt nb _ k Hnt (empty_ok nt nb)) in H. unfold empty_access in H.
  rewrite nth_repeat_lt in H by (apply bidx_lt; exact Hnt). cbn [empty_table t_buckets] in H.
  rewrite nth_repeat_lt in H by (apply bidx_lt; exact Hnb).
  rewrite (allnone_keys _ empty_bucket_allnone) in H. exact H.
Qed.

Lemma reach_ok nt nb ops : (0 < nt)%nat -> (0 < nb)%nat -> acc_ok nt nb (reach nt nb ops).
Proof. intros Hnt Hnb. apply run_ok; auto. apply empty_ok. Qed.

Lemma reach_refines nt nb ops :
  (0 < nt)%nat -> (0 < nb)%nat -> refines (reach nt nb ops) (fold_left spec_step ops []).
Proof. intros Hnt Hnb. apply (run_refines nt nb); auto. apply empty_ok. apply empty_refines; auto. Qed.

(* --- the invariant, spelled out without auxiliary definitions --- *)

Lemma allnone_repeat (b : bucket) : Forall (fun s => s = None) b -> b = repeat None (length b).
Proof. induction 1 as [|s b Hs Hb IH]; [reflexivity|]. subst s. cbn [length repeat]. f_equal. exact IH. Qed.

Lemma prefix_occ_shape b : prefix_occ b -> exists es n, b = map Some es ++ repeat None n.
Proof.
  induction b as [|[p|] b IH]; cbn [prefix_occ]; intro H.
  - exists [], O. reflexivity.
  - destruct (IH H) as (es & n & E). exists (p :: es), n. cbn [map app]. f_equal. exact E.
  - exists [], (S (length b)). cbn [map app repeat]. rewrite <- (allnone_repeat b H). reflexivity.
Qed.

Lemma keys_shape (es : list (N * entry)) n : keys (map Some es ++ repeat None n) = map fst es.
Proof.
  induction es as [|[h x] es IH]; cbn [map app keys fst].
  - induction n as [|n IH]; cbn [repeat keys]; auto.
  - rewrite IH. reflexivity.
Qed.

Lemma bucket_inv_reach nt nb ops :
  (0 < nt)%nat -> (0 < nb)%nat ->
  length (reach nt nb ops) = nt /\
  forall i, (i < nt)%nat ->
    let t := nth i (reach nt nb ops) (mkTable [] 0) in
    length (t_buckets t) = nb /\
    forall j, (j < nb)%nat ->
      let b := nth j (t_buckets t) [] in
      length b = N.to_nat bucket_size /\
      exists (es : list (N * entry)) (n : nat),
        b = map Some es ++ repeat None n /\
        NoDup (map fst es) /\
        forall k x, In (k, x) es ->
          N.to_nat (k mod N.of_nat nt) = i /\ N.to_nat (k mod N.of_nat nb) = j.
Proof.
  intros Hnt Hnb. destruct (reach_ok nt nb ops Hnt Hnb) as (Hl & Ht).
  split; [exact Hl|]. intros i Hi t. destruct (Ht i Hi) as (Hlb & Hb & _).
  split; [exact Hlb|]. intros j Hj b. destruct (Hb j Hj) as (Hlen & Hp & Hnd & HP).
  fold t in Hlen, Hp, Hnd, HP. fold b in Hlen, Hp, Hnd, HP.
  split; [exact Hlen|]. destruct (prefix_occ_shape b Hp) as (es & n & E).
  exists es, n. split; [exact E|]. rewrite E, keys_shape in Hnd, HP. split; [exact Hnd|].
  intros k x Hin. apply (HP k). change k with (fst (k, x)). apply in_map. exact Hin.
Qed.

(* --- lookups --- *)

Lemma find_sound_reach nt nb ops k e :
  (0 < nt)%nat -> (0 < nb)%nat ->
  acc_find (reach nt nb ops) k = Some e -> spec_find (fold_left spec_step ops []) k = Some e.
Proof. intros Hnt Hnb. apply reach_refines; assumption. Qed.

Lemma run_refines_reach nt nb ops :
  (0 < nt)%nat -> (0 < nb)%nat ->
  length (snd (acc_run (empty_access nt nb) ops)) = length ops /\
  forall ops1 k rest, ops = ops1 ++ TFind k :: rest ->
    exists r, nth (length ops1) (snd (acc_run (empty_access nt nb) ops)) OInsert = OFind r /\
              r = acc_find (reach nt nb ops1) k /\
              (r = None \/
               exists e, r = Some e /\ spec_find (fold_left spec_step ops1 []) k = Some e).
Proof.
  intros Hnt Hnb. split; [apply acc_run_length|]. intros ops1 k rest ->.
  exists (acc_find (reach nt nb ops1) k). split; [|split; [reflexivity|]].
  - rewrite acc_run_app. cbn [snd]. rewrite acc_run_cons. cbn [snd acc_step].
    rewrite <- (acc_run_length (empty_access nt nb) ops1) at 1. rewrite nth_middle. reflexivity.
  - destruct (acc_find (reach nt nb ops1) k) as [e|] eqn:Hf; [right|left; reflexivity].
    exists e. split; [reflexivity|]. apply (find_sound_reach nt nb); assumption.
Qed.

(* --- retention --- *)

Lemma retained_run nt nb a k e ops2 :
  (0 < nt)%nat -> (0 < nb)%nat -> acc_ok nt nb a -> acc_find a k = Some e ->
  (forall e', ~ In (TInsert k e') ops2) ->
  (forall p k' e' s, ops2 = p ++ TInsert k' e' :: s ->
                     victim_key (fst (acc_run a p)) k' e' <> Some k) ->
  acc_find (fst (acc_run a ops2)) k = Some e.
Proof.
  intros Hnt Hnb. revert a; induction ops2 as [|o tl IH]; intros a Hok Hf Hno Hv; [exact Hf|].
  rewrite acc_run_cons. cbn [fst]. apply IH.
  - apply step_ok; assumption.
  - destruct o as [k'|k' e']; cbn [acc_step fst]; [exact Hf|].
    rewrite (find_insert_other nt nb); auto.
    + intro E. subst k'. apply (Hno e'). left; reflexivity.
    + apply (Hv [] k' e' tl eq_refl).
  - intros e' Hin. apply (Hno e'). right; exact Hin.
  - intros p k' e' s E. specialize (Hv (o :: p) k' e' s).
    rewrite acc_run_cons in Hv. cbn [fst] in Hv. apply Hv. rewrite E. reflexivity.
Qed.

Lemma retained_reach nt nb ops k e ops2 :
  (0 < nt)%nat -> (0 < nb)%nat ->
  acc_find (reach nt nb (ops ++ [TInsert k e])) k = Some e /\
  ((forall e', ~ In (TInsert k e') ops2) ->
   (forall p k' e' s, ops2 = p ++ TInsert k' e' :: s ->
        victim_key (reach nt nb (ops ++ TInsert k e :: p)) k' e' <> Some k) ->
   acc_find (reach nt nb (ops ++ TInsert k e :: ops2)) k = Some e).
Proof.
  intros Hnt Hnb.
  assert (H0 : acc_find (reach nt nb (ops ++ [TInsert k e])) k = Some e).
  { rewrite reach_snoc. cbn [acc_step fst]. apply (find_insert_same nt nb); auto.
    apply reach_ok; assumption. }
  split; [exact H0|]. intros Hno Hv.
  change (TInsert k e :: ops2) with ([TInsert k e] ++ ops2). rewrite app_assoc, reach_app.
  apply (retained_run nt nb); auto.
  - apply reach_ok; assumption.
  - intros p k' e' s E. rewrite <- reach_app, <- app_assoc. apply (Hv p k' e' s E).
Qed.

(* what `victim_key a k' e' = Some k` means, and that it is the only way to lose k *)
Lemma displacement_reach nt nb ops k k' e' :
  (0 < nt)%nat -> (0 < nb)%nat ->
  let a := reach nt nb ops in
  (victim_key a k' e' = Some k ->
     k' <> k /\
     N.to_nat (k mod N.of_nat nt) = N.to_nat (k' mod N.of_nat nt) /\
     N.to_nat (k mod N.of_nat nb) = N.to_nat (k' mod N.of_nat nb) /\
     acc_bucket a k = acc_bucket a k' /\
     bucket_scan (acc_bucket a k') k' e' = None /\
     Forall (fun s => exists h x, s = Some (h, x) /\ h <> k') (acc_bucket a k') /\
     acc_find (acc_insert a k' e') k = None) /\
  (k' <> k -> victim_key a k' e' <> Some k ->
     acc_find (acc_insert a k' e') k = acc_find a k).
Proof.
  intros Hnt Hnb a. pose proof (reach_ok nt nb ops Hnt Hnb) as Hok. fold a in Hok. split.
  - intro Hv. pose proof (victim_key_route nt nb a k' e' k Hnt Hnb Hok Hv) as Hr.
    destruct (bucket_victim_full _ _ _ _ Hv) as (Hs & Hfull).
    assert (Hne : k' <> k).
    { intro E. subst k'. apply bucket_victim_in in Hv. apply full_notin in Hfull. tauto. }
    split; [exact Hne|]. destruct Hr as (E1 & E2). split; [exact E1|]. split; [exact E2|].
    split; [apply (acc_bucket_same_route nt nb); auto; split; assumption|].
    split; [exact Hs|]. split; [exact Hfull|].
    apply (find_insert_evicted nt nb); auto.
  - intros Hne Hv. apply (find_insert_other nt nb); auto.
Qed.

(* --- counting --- *)

(* number of occupied slots over all buckets of all sub-tables *)
Definition occupied (a : access) : N := sumN (fun t => sumN occ (t_buckets t)) a.

Lemma count_ok nt nb a :
  acc_ok nt nb a ->
  acc_entries a = occupied a /\
  acc_entries a <= acc_max_entries a /\
  acc_max_entries a = N.of_nat nt * N.of_nat nb * bucket_size.
Proof.
  intros (Hl & Ht). unfold acc_entries, acc_max_entries, occupied.
  rewrite !fold_left_sumN, !N.add_0_l.
  assert (Hin : forall t, In t a -> exists i, table_ok nt nb i t).
  { intros t Hin. destruct (in_nth_lt a t (mkTable [] 0) Hin) as (i & Hi & E).
    exists i. rewrite <- E. apply Ht. lia. }
  assert (Hmax : sumN table_max_entries a = N.of_nat nt * N.of_nat nb * bucket_size).
  { rewrite (sumN_ext_in _ (fun _ => N.of_nat nb * bucket_size)).
    - rewrite sumN_const, Hl. apply N.mul_assoc.
    - intros t Hi. destruct (Hin t Hi) as (i & Hlb & _). unfold table_max_entries.
      rewrite Hlb. reflexivity. }
  split; [|split; [|exact Hmax]].
  - apply sumN_ext_in. intros t Hi. destruct (Hin t Hi) as (i & _ & _ & Hu). exact Hu.
  - apply sumN_le_in. intros t Hi. destruct (Hin t Hi) as (i & Hlb & Hb & Hu).
    unfold table_entries, table_max_entries. rewrite Hu, <- sumN_const.
    apply sumN_le_in. intros b Hbin.
    destruct (in_nth_lt (t_buckets t) b [] Hbin) as (j & Hj & E).
    destruct (Hb j ltac:(lia)) as (Hlen & _). rewrite E in Hlen.
    pose proof (occ_le_length b) as Hle. rewrite Hlen, N2Nat.id in Hle. exact Hle.
Qed.

Lemma count_reach nt nb ops :
  (0 < nt)%nat -> (0 < nb)%nat ->
  acc_entries (reach nt nb ops) = occupied (reach nt nb ops) /\
  acc_entries (reach nt nb ops) <= acc_max_entries (reach nt nb ops) /\
  acc_max_entries (reach nt nb ops) = N.of_nat nt * N.of_nat nb * bucket_size.
Proof. intros Hnt Hnb. apply (count_ok nt nb). apply reach_ok; assumption. Qed.

(* The access layer's entries() takes the sub-table locks one after the other, so under concurrent
   insertion it sums per-sub-table counts read at different times.  Each summand is exact for its
   sub-table at the time it is read, and the sum still never exceeds the capacity. *)
Lemma table_count nt nb i t :
  table_ok nt nb i t ->
  table_entries t = sumN occ (t_buckets t) /\
  table_entries t <= table_max_entries t /\
  table_max_entries t = N.of_nat nb * bucket_size.
Proof.
  intros (Hlb & Hb & Hu). unfold table_entries, table_max_entries. rewrite Hlb.
  split; [exact Hu|]. split; [|reflexivity].
  rewrite Hu, <- Hlb, <- sumN_const. apply sumN_le_in. intros b Hbin.
  destruct (in_nth_lt (t_buckets t) b [] Hbin) as (j & Hj & E).
  destruct (Hb j ltac:(lia)) as (Hlen & _). rewrite E in Hlen.
  pose proof (occ_le_length b) as Hle. rewrite Hlen, N2Nat.id in Hle. exact Hle.
Qed.

Lemma count_table_reach nt nb ops i :
  (0 < nt)%nat -> (0 < nb)%nat -> (i < nt)%nat ->
  let t := nth i (reach nt nb ops) (mkTable [] 0) in
  table_entries t = sumN occ (t_buckets t) /\
  table_entries t <= table_max_entries t /\
  table_max_entries t = N.of_nat nb * bucket_size.
Proof.
  intros Hnt Hnb Hi t. destruct (reach_ok nt nb ops Hnt Hnb) as (_ & Ht).
  apply (table_count nt nb i). apply Ht. exact Hi.
Qed.

Lemma count_snapshots_reach nt nb (snaps : list (list top)) :
  (0 < nt)%nat -> (0 < nb)%nat -> length snaps = nt ->
  sumN (fun p => table_entries (nth (fst p) (reach nt nb (snd p)) (mkTable [] 0)))
       (combine (seq 0 nt) snaps)
  <= N.of_nat nt * N.of_nat nb * bucket_size.
Proof.
  intros Hnt Hnb Hl.
  eapply N.le_trans; [apply (sumN_le_in _ (fun _ => N.of_nat nb * bucket_size))|].
  - intros [i ops] Hin. cbn [fst snd]. apply in_combine_l in Hin. apply in_seq in Hin.
    destruct (count_table_reach nt nb ops i Hnt Hnb ltac:(lia)) as (_ & Hle & Hmax).
    rewrite <- Hmax. exact Hle.
  - rewrite sumN_const, combine_length, seq_length, Hl, Nat.min_id, N.mul_assoc. apply N.le_refl.
Qed.

(* ------------------------------------------------------------------ *)
(* 5. interleavings                                                     *)
(* ------------------------------------------------------------------ *)

(* Every insert/find holds the lock of its sub-table for its whole duration, so a concurrent
   execution of several threads is an interleaving of their operation lists: repeatedly some
   thread executes the operation at the head of its list. *)
Inductive Interleave : list (list top) -> list top -> Prop :=
| Interleave_done : forall ts, Forall (fun t => t = []) ts -> Interleave ts []
| Interleave_step : forall pre o t post ops,
    Interleave (pre ++ t :: post) ops -> Interleave (pre ++ (o :: t) :: post) (o :: ops).

Lemma concat_allnil {A} (ts : list (list A)) : Forall (fun t => t = []) ts -> concat ts = [].
Proof. induction 1 as [|t ts Ht Hts IH]; [reflexivity|]. subst t. exact IH. Qed.

(* an interleaving executes exactly the operations of the threads *)
Lemma Interleave_perm ts ops : Interleave ts ops -> Permutation ops (concat ts).
Proof.
  induction 1 as [ts H|pre o t post ops H IH].
  - rewrite concat_allnil by exact H. constructor.
  - rewrite concat_app in *. cbn [concat app] in *. apply Permutation_cons_app. exact IH.
Qed.

Lemma Interleave_cons_nil ts ops : Interleave ts ops -> Interleave ([] :: ts) ops.
Proof.
  induction 1 as [ts H|pre o t post ops H IH].
  - constructor. constructor; [reflexivity|exact H].
  - apply (Interleave_step ([] :: pre)). exact IH.
Qed.

(* running the threads one after the other is one of the interleavings *)
Lemma Interleave_concat ts : Interleave ts (concat ts).
Proof.
  induction ts as [|t ts IH]; [constructor; constructor|].
  induction t as [|o t IHt]; cbn [concat app] in *.
  - apply Interleave_cons_nil. exact IH.
  - apply (Interleave_step [] o t ts). exact IHt.
Qed.

(* an interleaving is just an operation list: whatever holds of all lists holds of it *)
Lemma Interleave_any (P : list top -> Prop) :
  (forall ops, P ops) -> forall ts ops, Interleave ts ops -> P ops.
Proof. intros H ts ops _. apply H. Qed.

Lemma interleavings_reach nt nb threads ops :
  (0 < nt)%nat -> (0 < nb)%nat -> Interleave threads ops ->
  (* every lookup along the execution answers nothing or the latest write to exactly that key *)
  (forall ops1 k rest, ops = ops1 ++ TFind k :: rest ->
     exists r, nth (length ops1) (snd (acc_run (empty_access nt nb) ops)) OInsert = OFind r /\
               (r = None \/
                exists e, r = Some e /\ spec_find (fold_left spec_step ops1 []) k = Some e)) /\
  (* so does a lookup after the execution *)
  (forall k e, acc_find (reach nt nb ops) k = Some e ->
               spec_find (fold_left spec_step ops []) k = Some e) /\
  (* an entry stays retrievable until displaced *)
  (forall ops1 k e ops2, ops = ops1 ++ TInsert k e :: ops2 ->
     (forall e', ~ In (TInsert k e') ops2) ->
     (forall p k' e' s, ops2 = p ++ TInsert k' e' :: s ->
        victim_key (reach nt nb (ops1 ++ TInsert k e :: p)) k' e' <> Some k) ->
     acc_find (reach nt nb ops) k = Some e) /\
  (* the count *)
  acc_entries (reach nt nb ops) = occupied (reach nt nb ops) /\
  acc_entries (reach nt nb ops) <= acc_max_entries (reach nt nb ops) /\
  acc_max_entries (reach nt nb ops) = N.of_nat nt * N.of_nat nb * bucket_size.
Proof.
  intros Hnt Hnb _.
  split; [|split; [|split]].
  - intros ops1 k rest E.
    destruct (run_refines_reach nt nb ops Hnt Hnb) as (_ & H).
    destruct (H ops1 k rest E) as (r & H1 & _ & H2). exists r. split; assumption.
  - intros k e. apply find_sound_reach; assumption.
  - intros ops1 k e ops2 -> Hno Hv.
    destruct (retained_reach nt nb ops1 k e ops2 Hnt Hnb) as (_ & H). apply H; assumption.
  - apply count_reach; assumption.
Qed.

Lemma interleave_sane threads :
  Interleave threads (concat threads) /\
  forall ops, Interleave threads ops -> Permutation ops (concat threads).
Proof. split; [exact (Interleave_concat threads) | exact (Interleave_perm threads)]. Qed.

(* data for the non-vacuity examples of props/C15.v *)
Definition ex_entry (m : N) : entry := mkEntry Exact m 1 1 0%Z.

Lemma ex_interleave :
  Interleave [[TInsert 7 (ex_entry 1); TInsert 7 (ex_entry 2)]; [TFind 7; TFind 7; TFind 8]]
             [TFind 7; TInsert 7 (ex_entry 1); TFind 7; TInsert 7 (ex_entry 2); TFind 8].
Proof.
  apply (Interleave_step [[TInsert 7 (ex_entry 1); TInsert 7 (ex_entry 2)]] (TFind 7) _ []).
  apply (Interleave_step [] (TInsert 7 (ex_entry 1)) _ [[TFind 7; TFind 8]]).
  apply (Interleave_step [[TInsert 7 (ex_entry 2)]] (TFind 7) _ []).
  apply (Interleave_step [] (TInsert 7 (ex_entry 2)) _ [[TFind 8]]).
  apply (Interleave_step [[]] (TFind 8) _ []).
  apply Interleave_done. repeat constructor.
Qed.
