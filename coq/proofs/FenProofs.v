(* FEN reader/writer, part 3: the round-trip theorems (C11) assembled from FenBase / FenBoard. *)
From WV Require Import Text Wf FenSpec BitsProofs FenBase FenBoard.
From Coq Require Import Lia ZifyBool ZifyN ZifyNat.
Ltac Zify.zify_post_hook ::= Z.div_mod_to_equations.
Open Scope N_scope.
Arguments N.add : simpl never.
Arguments N.sub : simpl never.
Arguments N.mul : simpl never.
Arguments N.land : simpl never.
Arguments N.lor : simpl never.
Arguments N.shiftl : simpl never.
Arguments N.shiftr : simpl never.

(* ------------------------------------------------------------------ WfState, unpacked *)

Lemma WfState_inv : forall s, WfState s ->
  WfBoard (st_board s) /\ (forall t, st_ep s = Some t -> t < 64) /\ st_half s < two64 /\ st_full s < two64.
Proof.
  intros s H. unfold WfState, wf_stateb in H.
  apply andb_true_iff in H as [H Hf]. apply andb_true_iff in H as [H Hh]. apply andb_true_iff in H as [Hb He].
  repeat split; [exact Hb | | apply N.ltb_lt; exact Hh | apply N.ltb_lt; exact Hf].
  intros t Et. rewrite Et in He. apply N.ltb_lt. exact He.
Qed.

Lemma WfState_intro : forall b turn wk wq bk bq ep h f,
  WfBoard b -> (forall t, ep = Some t -> t < 64) -> h < two64 -> f < two64 ->
  WfState (mkState b turn wk wq bk bq ep h f).
Proof.
  intros b turn wk wq bk bq ep h f Hb He Hh Hf. unfold WfState, wf_stateb.
  cbn [st_board st_ep st_half st_full]. unfold WfBoard in Hb. rewrite Hb.
  apply N.ltb_lt in Hh, Hf. rewrite Hh, Hf.
  destruct ep as [t|]; [|reflexivity]. rewrite (proj2 (N.ltb_lt t 64) (He t eq_refl)). reflexivity.
Qed.

(* ------------------------------------------------------------------ the written fields *)

Definition turn_txt (c : color) : text := [match c with White => ch_w | Black => ch_b end].
Definition castle_txt (wk wq bk bq : bool) : text :=
  if negb (wk || wq) && negb (bk || bq) then [ch_dash]
  else (if wk then [ch_K] else []) ++ (if wq then [ch_Q] else [])
       ++ (if bk then [ch_k] else []) ++ (if bq then [ch_q] else []).
Definition ep_txt (ep : option N) : text := match ep with None => [ch_dash] | Some t => square_text t end.

Lemma fen_write_eq : forall b turn wk wq bk bq ep h f,
  fen_write (mkState b turn wk wq bk bq ep h f) =
  fen_board b ++ [ch_space] ++ turn_txt turn ++ [ch_space] ++ castle_txt wk wq bk bq ++ [ch_space]
  ++ ep_txt ep ++ [ch_space] ++ dec_of_N h ++ [ch_space] ++ dec_of_N f.
Proof. reflexivity. Qed.

Lemma turn_ok : forall c,
  gate_turn (turn_txt c) = true /\ read_turn (turn_txt c) = Some c /\
  forallb (fun x => negb (is_ws x)) (turn_txt c) = true.
Proof. intros [|]; vm_compute; repeat split. Qed.

Lemma castle_ok : forall wk wq bk bq,
  gate_castle (castle_txt wk wq bk bq) = true /\
  parse_castle (castle_txt wk wq bk bq) = Some (wk, wq, bk, bq) /\
  forallb (fun x => negb (is_ws x)) (castle_txt wk wq bk bq) = true.
Proof. intros [|] [|] [|] [|]; vm_compute; repeat split. Qed.

Definition ep_check (t : N) : bool :=
  gate_ep (square_text t)
  && match read_ep (square_text t) with Some (Some t') => t' =? t | _ => false end
  && forallb (fun x => negb (is_ws x)) (square_text t).

Lemma ep_check_all : forallb ep_check squares = true.
Proof. vm_compute. reflexivity. Qed.

Lemma ep_ok : forall ep, (forall t, ep = Some t -> t < 64) ->
  gate_ep (ep_txt ep) = true /\ read_ep (ep_txt ep) = Some ep /\
  forallb (fun x => negb (is_ws x)) (ep_txt ep) = true.
Proof.
  intros [t|] H.
  - pose proof (forallb_squares _ ep_check_all t (H t eq_refl)) as E. unfold ep_check in E.
    apply andb_true_iff in E as [E E3]. apply andb_true_iff in E as [E1 E2]. cbn [ep_txt].
    repeat split; try assumption.
    destruct (read_ep (square_text t)) as [[t'|]|]; try discriminate.
    apply N.eqb_eq in E2. subst t'. reflexivity.
  - vm_compute. repeat split.
Qed.

Lemma nonempty_dec : forall n, nonempty (dec_of_N n) = true.
Proof. intros n. pose proof (dec_of_N_nonempty n) as H. destruct (dec_of_N n); [congruence|reflexivity]. Qed.

(* ------------------------------------------------------------------ C11_read_write *)

Theorem read_write : forall s, WfState s -> fen_read (fen_write s) = Ok s.
Proof.
  intros s Hwf. destruct (WfState_inv s Hwf) as (Hb & He & Hh & Hf).
  destruct s as [b turn wk wq bk bq ep h f]. cbn [st_board st_ep st_half st_full] in *.
  rewrite fen_write_eq.
  destruct (turn_ok turn) as (T1 & T2 & T3). destruct (castle_ok wk wq bk bq) as (K1 & K2 & K3).
  destruct (ep_ok ep He) as (P1 & P2 & P3).
  rewrite (fen_read_fields _ (fen_board b) (turn_txt turn) (castle_txt wk wq bk bq) (ep_txt ep) (dec_of_N h) (dec_of_N f)).
  - unfold read_fields.
    rewrite gate_placement_board, T1, K1, P1, !nonempty_dec. cbn [andb].
    rewrite placement_roundtrip by (apply WfBoard_iff; exact Hb).
    rewrite T2, K2, P2, !parse_usize_dec by assumption. reflexivity.
  - apply split6; try assumption; try reflexivity.
    + apply fen_board_not_ws.
    + exact (dec_not_ws h).
    + exact (dec_not_ws f).
Qed.

(* ------------------------------------------------------------------ C11_reader_wf *)

Lemma parse_square_lt : forall l t, parse_square l = Some t -> t < 64.
Proof.
  intros l t. unfold parse_square. destruct (byte_len l =? 2); [|discriminate].
  destruct l as [|a [|b [|c tl]]]; try discriminate.
  set (u := to_upper a).
  destruct ((ch_A <=? u) && (u <=? 72) && (ch_1 <=? b) && (b <=? ch_8)) eqn:E; [|discriminate].
  intros H. injection H as <-. unfold mk_square, ch_A, ch_1, ch_8 in *. lia.
Qed.

Lemma read_ep_cases : forall f4,
  read_ep f4 = Some None \/
  read_ep f4 = match parse_square f4 with Some t => Some (Some t) | None => None end.
Proof.
  intros f4. destruct f4 as [|c tl]; [right; reflexivity|].
  destruct c as [|p]; [destruct tl; right; reflexivity|].
  do 6 (try destruct p as [p|p|]); destruct tl; try (right; reflexivity); left; reflexivity.
Qed.

Lemma read_ep_lt : forall f4 t, read_ep f4 = Some (Some t) -> t < 64.
Proof.
  intros f4 t H. destruct (read_ep_cases f4) as [E|E]; rewrite E in H; [discriminate|].
  destruct (parse_square f4) as [t'|] eqn:Ep; [|discriminate]. injection H as <-.
  exact (parse_square_lt _ _ Ep).
Qed.

Lemma read_fields_wf : forall f1 f2 f3 f4 f5 f6 s, read_fields f1 f2 f3 f4 f5 f6 = Ok s -> WfState s.
Proof.
  intros f1 f2 f3 f4 f5 f6 s. unfold read_fields.
  destruct (gate_placement f1 && gate_turn f2 && gate_castle f3 && gate_ep f4 && nonempty f5 && nonempty f6);
    [|discriminate].
  destruct (parse_placement f1 0 empty_board) as [b| |k'] eqn:Eb; try discriminate.
  destruct (read_turn f2) as [turn|]; [|discriminate].
  destruct (parse_castle f3) as [[[[wk wq] bk] bq]|]; [|discriminate].
  destruct (read_ep f4) as [ep|] eqn:Eep; [|discriminate].
  destruct (parse_usize f5) as [h|] eqn:Eh; [|discriminate].
  destruct (parse_usize f6) as [f|] eqn:Ef; [|discriminate].
  intros H. injection H as <-. apply WfState_intro.
  - exact (reader_board_wf _ _ Eb).
  - intros t ->. exact (read_ep_lt _ _ Eep).
  - exact (parse_usize_bound _ _ Eh).
  - exact (parse_usize_bound _ _ Ef).
Qed.

Theorem reader_wf : forall str s, fen_read str = Ok s -> WfState s.
Proof.
  intros str s H. destruct (fen_read_cases str) as [E | (f1 & f2 & f3 & f4 & f5 & f6 & _ & E)]; rewrite E in H.
  - discriminate.
  - exact (read_fields_wf _ _ _ _ _ _ _ H).
Qed.

(* ------------------------------------------------------------------ C11_spec_writer_agrees *)

Lemma run_prefix_eq : forall (run : N) (X : text),
  (if run =? 0 then [] else X) = (if 0 <? run then X else []).
Proof. intros [|p] X; reflexivity. Qed.

Lemma rank_text_eq : forall b r files run,
  rank_text (map (fun f => piece_at b (mk_square r f)) files) run = fen_rank_aux b r files run.
Proof.
  intros b r. induction files as [|x tl IH]; intros run; cbn [map rank_text fen_rank_aux].
  - rewrite decimal_eq. apply run_prefix_eq.
  - destruct (piece_at b (mk_square r x)) as [[c p]|] eqn:E.
    + apply piece_at_Some in E as [Hp _].
      rewrite IH, decimal_eq, run_prefix_eq, (piece_char_letter c p Hp). reflexivity.
    + apply IH.
Qed.

Lemma rank_cells_eq : forall s,
  rank_cells (abs s) 7 = map (fun f => piece_at (st_board s) (mk_square 7 f)) files8 /\
  rank_cells (abs s) 6 = map (fun f => piece_at (st_board s) (mk_square 6 f)) files8 /\
  rank_cells (abs s) 5 = map (fun f => piece_at (st_board s) (mk_square 5 f)) files8 /\
  rank_cells (abs s) 4 = map (fun f => piece_at (st_board s) (mk_square 4 f)) files8 /\
  rank_cells (abs s) 3 = map (fun f => piece_at (st_board s) (mk_square 3 f)) files8 /\
  rank_cells (abs s) 2 = map (fun f => piece_at (st_board s) (mk_square 2 f)) files8 /\
  rank_cells (abs s) 1 = map (fun f => piece_at (st_board s) (mk_square 1 f)) files8 /\
  rank_cells (abs s) 0 = map (fun f => piece_at (st_board s) (mk_square 0 f)) files8.
Proof. intros s. repeat split; reflexivity. Qed.

Lemma placement_eq : forall s, FenSpec.placement (abs s) = fen_board (st_board s).
Proof.
  intros s. unfold placement. rewrite fen_board_eq. unfold rank_txt.
  destruct (rank_cells_eq s) as (E7 & E6 & E5 & E4 & E3 & E2 & E1 & E0).
  rewrite E7, E6, E5, E4, E3, E2, E1, E0, !rank_text_eq. reflexivity.
Qed.

Lemma rights_eq : forall b turn wk wq bk bq ep h f,
  rights_text (abs (mkState b turn wk wq bk bq ep h f)) = castle_txt wk wq bk bq.
Proof. intros b turn [|] [|] [|] [|] ep h f; reflexivity. Qed.

Lemma square_name_eq : forall t, t < 64 -> square_name t = square_text t.
Proof.
  intros t Ht. unfold square_name, square_text, file_char, rank_char, file_of, rank_of.
  replace (t mod 8 <=? 7) with true by lia. replace (t / 8 <=? 7) with true by lia. reflexivity.
Qed.

Theorem spec_writer_agrees : forall s, WfState s -> FenSpec.write (abs s) = fen_write s.
Proof.
  intros s Hwf. destruct (WfState_inv s Hwf) as (_ & He & _ & _).
  unfold write. rewrite placement_eq, !decimal_eq.
  destruct s as [b turn wk wq bk bq ep h f]. rewrite rights_eq, fen_write_eq.
  cbn [abs p_turn p_ep p_half p_full st_board st_turn st_ep st_half st_full] in *.
  replace (match ep with Some t => square_name t | None => [45] end) with (ep_txt ep).
  - destruct turn; reflexivity.
  - destruct ep as [t|]; [|reflexivity]. cbn [ep_txt]. symmetry. apply square_name_eq. apply He. reflexivity.
Qed.

(* ------------------------------------------------------------------ the remaining C11 statements *)

Theorem write_read : forall str s, (exists s0, WfState s0 /\ str = FenSpec.write (abs s0)) ->
  fen_read str = Ok s -> fen_write s = str.
Proof.
  intros str s (s0 & Hwf & ->) H. rewrite (spec_writer_agrees s0 Hwf) in *.
  rewrite (read_write s0 Hwf) in H. injection H as <-. reflexivity.
Qed.

Theorem same_position : forall s, WfState s -> exists s', fen_read (fen_write s) = Ok s' /\ s' = s.
Proof. intros s Hwf. exists s. split; [apply read_write; exact Hwf | reflexivity]. Qed.

Corollary same_position_observables : forall s, WfState s ->
  exists s', fen_read (fen_write s) = Ok s' /\
             (forall h, hash h s' = hash h s) /\ gen_legal s' = gen_legal s.
Proof.
  intros s Hwf. exists s. split; [apply read_write; exact Hwf|]. split; reflexivity.
Qed.

Theorem idempotent : forall str s, fen_read str = Ok s -> fen_read (fen_write s) = Ok s.
Proof. intros str s H. apply read_write. exact (reader_wf _ _ H). Qed.
