(* C06, second clause: "... AND THE REPORTED FIRST MOVE KEEPS IT", for the one-worker model (model/Search.v).

   MateSound.v proves that a reported winning terminal evaluation means a forced mate for the side to move
   (iterative_sound).  This file proves that the first move of the reported line leads to a position that is
   lost for the opponent:

     first_move_keeps : ... In (EvBest ev (mv :: tl)) (r_events r) -> POS_INF <= ev ->
                            exists ns, In (mv, ns) (gen_legal s) /\ Lost ns

   Method: the entry invariant of MateSound.v is strengthened by "an entry that carries a winning terminal
   evaluation (kind <> UpperBound) carries a move whose successor is lost" (KeepsOk), the chain TOk_insert ..
   analyze_sound is re-proved for the stronger invariant (names ..2), and for the ROOT call two more facts are
   proved: (a) no descendant writes under the root's key (the root hash is in the history, so a descendant with
   the root's hash returns before the probe: analyze_keeps_key), hence whatever is found under the root key after
   descendants ran was there before; (b) whenever the root call returns ev >= POS_INF, every entry found under the
   root key afterwards has evaluation >= POS_INF (root_wins).  The line reported by iter_moves starts with the move
   of exactly that entry.

   Residues: the same as in MateSound.v (region P with HashRuleOn / Region / HeurNTOn). *)
From Coq Require Import NArith ZArith List Bool Lia ZifyBool ZifyN ZifyNat.
From WV Require Import Types Bits Attacks Board MoveEnc MoveGen Text Table Eval Search.
From WV Require Import Rules Abs Wf Encode GameValue.
From WV Require Import BoardProofs GenLegal TableProofs HashProofs EvalProofs EvalBound SearchBase SearchProofs SearchSafety.
From WV Require Import PosEq ApplyProofs LegalPosProofs PlayProofs GenPawnsNoDup.
From WV Require Import MateSound MateRegion.
Import ListNotations.
Import WV.Bits.
Open Scope Z_scope.

(* ------------------------------------------------------------------ *)
(* 0. "the move m of s leads to a lost position" depends on the rule key only *)
(* ------------------------------------------------------------------ *)

Definition Keeps (s : state) (m : N) : Prop := exists ns, In (m, ns) (gen_legal s) /\ Lost ns.

Lemma same_key_apply_nc : forall s1 s2, rulekey s1 = rulekey s2 ->
  forall mv, pos_eq_nc (Rules.apply (abs s1) mv) (Rules.apply (abs s2) mv).
Proof.
  intros s1 s2 E mv. unfold rulekey in E. injection E as Eb Et Ewk Ewq Ebk Ebq _.
  unfold abs. rewrite Eb, Et.
  assert (Er : castle_right s1 = castle_right s2).
  { unfold castle_right. rewrite Ewk, Ewq, Ebk, Ebq. reflexivity. }
  rewrite Er. apply apply_no_ep.
Qed.

Theorem same_key_keeps : forall s1 s2 m, LegalPos s1 -> LegalPos s2 -> rulekey s1 = rulekey s2 ->
  Keeps s1 m -> Keeps s2 m.
Proof.
  intros s1 s2 m H1 H2 E (ns & Hin & [n Hn]).
  assert (Hm : In m (map fst (gen_legal s2))).
  { rewrite <- (same_key_same_moves s1 s2 (GenPawnsNoDup.legal_pos_wf s1 H1) (GenPawnsNoDup.legal_pos_wf s2 H2) E).
    apply in_map_iff. exists (m, ns). split; [reflexivity|exact Hin]. }
  apply in_map_iff in Hm. destruct Hm as [[m0 ns2] [Em Hin2]]. cbn [fst] in Em. subst m0.
  exists ns2. split; [exact Hin2|]. exists n.
  destruct (succ_abs s1 m ns H1 Hin) as (_ & _ & Hnc1).
  destruct (succ_abs s2 m ns2 H2 Hin2) as (_ & _ & Hnc2).
  rewrite (loss_ext_nc n _ _ Hnc2).
  rewrite <- (loss_ext_nc n _ _ (same_key_apply_nc s1 s2 E (absm m))).
  rewrite <- (loss_ext_nc n _ _ Hnc1). exact Hn.
Qed.

(* ------------------------------------------------------------------ *)
(* 1. the stronger entry invariant                                      *)
(* ------------------------------------------------------------------ *)

Definition KeepsOk (e : entry) (s : state) : Prop :=
  POS_INF <= e_eval e -> e_kind e <> UpperBound -> exists ns, In (e_move e, ns) (gen_legal s) /\ Lost ns.
Definition EntryOk2 (e : entry) (s : state) : Prop := EntryOk e s /\ KeepsOk e s.
Definition TOk2 (P : state -> Prop) (hs : hasher) (tt : access) : Prop :=
  tt_ok tt /\ forall h e, acc_find tt h = Some e -> forall s, P s -> hash hs s = h -> EntryOk2 e s.

Lemma TOk_of_TOk2 : forall P hs tt, TOk2 P hs tt -> TOk P hs tt.
Proof. intros P hs tt [Hok He]. split; [exact Hok|]. intros h e Hf s HP Hh. exact (proj1 (He h e Hf s HP Hh)). Qed.

Lemma TOk2_empty : forall P hs nt nb, (0 < nt)%nat -> (0 < nb)%nat -> TOk2 P hs (empty_access nt nb).
Proof.
  intros P hs nt nb Hnt Hnb. split; [apply tt_ok_empty; assumption|].
  intros h e H. pose proof (empty_refines nt nb Hnt Hnb h e H) as H1. discriminate H1.
Qed.

(* ------------------------------------------------------------------ *)
(* 2. the chain of MateSound.v for the stronger invariant               *)
(* ------------------------------------------------------------------ *)

Section First.
Variable hs : hasher.
Variable P : state -> Prop.
Hypothesis HR : HashRuleOn P hs.
Hypothesis P_legal : forall s, P s -> LegalPos s.
Hypothesis P_step : forall s m ns, P s -> In (m, ns) (gen_legal s) -> P ns.
Hypothesis P_heur : HeurNTOn P.

Lemma TOk2_insert : forall tt s e, TOk2 P hs tt -> P s -> EntryOk2 e s -> TOk2 P hs (acc_insert tt (hash hs s) e).
Proof.
  intros tt s e HT HP [Hs Hkp].
  pose proof (TOk_insert hs P HR P_legal tt s e (TOk_of_TOk2 P hs tt HT) HP Hs) as [Hok' Hen'].
  destruct HT as [Hok Hen]. split; [exact Hok'|].
  intros h x Hfind s' HP' Hh. split; [exact (Hen' h x Hfind s' HP' Hh)|].
  destruct (acc_find_insert_cases _ _ _ _ _ Hok Hfind) as [[Hkk ->]|[_ Hold]]; [|exact (proj2 (Hen h x Hold s' HP' Hh))].
  assert (Ekey : rulekey s = rulekey s') by (apply HR; [exact HP|exact HP'|congruence]).
  intros H1 H2. exact (same_key_keeps s s' (e_move e) (P_legal s HP) (P_legal s' HP') Ekey (Hkp H1 H2)).
Qed.

Definition post2 (s : state) (a b : Z) (r : sres Z) : Prop :=
  match r with
  | SVal v w' => (POS_INF <= v -> a < v -> Won s) /\ (v <= NEG_INF -> v < b -> Lost s) /\ TOk2 P hs (w_tt w')
  | SInterrupt w' => TOk2 P hs (w_tt w')
  | _ => True
  end.

Definition rec_ok2 (rec : rec_t) : Prop :=
  forall ns md cd ce a b w, P ns -> a < b -> TOk2 P hs (w_tt w) -> post2 ns a b (rec ns md cd ce a b None w).

Lemma loop_sound2 : forall (rec : rec_t), rec_ok2 rec ->
  forall s md cd ce ext a b b1 prev, P s -> b1 <= b -> (b1 <= NEG_INF -> b1 < b -> Lost s) ->
  forall l, (forall m, In m l -> In m (MoveGen.pseudo_legal s)) ->
  forall alpha best kind w,
    TOk2 P hs (w_tt w) -> a <= alpha -> alpha < b1 ->
    (POS_INF <= alpha -> a < alpha -> Won s) ->
    (forall bm, best = Some bm -> kind = Exact /\ a < alpha /\ In bm (MoveGen.legal_moves s) /\
                                  (POS_INF <= alpha -> Keeps s bm)) ->
    (prev = w_nodes w \/ gen_legal s <> []) ->
    (forall m ns, In (m, ns) (gen_legal s) -> In m l \/ (alpha <= NEG_INF -> Won ns)) ->
    post2 s a b (loop_body rec s (hash hs s) md cd ce ext b1 prev l alpha best kind w).
Proof.
  intros rec Hrec s md cd ce ext a b b1 prev HP Hb1 HK l. pose proof (P_legal s HP) as HL. infs.
  induction l as [|m tl IH]; intros Hl alpha best kind w HT Hge Hab HJ Hbest Hprev Hcov; cbn [loop_body].
  - destruct (prev =? w_nodes w)%N eqn:Hpn.
    + unfold eval_or_panic. destruct (evaluate s (st_turn s) cd) as [v|] eqn:Ee; [|exact Logic.I].
      cbn [post2]. destruct (eval_sound P P_legal P_step P_heur s cd v HP Ee) as (Hlt & Hlost & _).
      split; [intros Hp _; lia|]. split; [intros Hn _; exact (Hlost Hn)|exact HT].
    + assert (Hne : gen_legal s <> []).
      { destruct Hprev as [E|E]; [|exact E]. apply N.eqb_neq in Hpn. contradiction. }
      assert (HLs : alpha <= NEG_INF -> Lost s).
      { intros Hn. apply (lost_of_children_won s HL Hne). intros m ns Hin.
        destruct (Hcov m ns Hin) as [[]|Hw]. exact (Hw Hn). }
      destruct best as [bm|].
      * destruct (Hbest bm eq_refl) as (-> & Haa & Hbm & Hkeep). cbn [post2 w_tt].
        split; [exact HJ|]. split; [intros Hn _; exact (HLs Hn)|].
        apply TOk2_insert; [exact HT|exact HP|]. split; [split; [|exact Hbm]|].
        -- split; cbn [e_eval e_kind]; [intros H1 _; exact (HJ H1 Haa) | intros H1 _; exact (HLs H1)].
        -- intros H1 _. cbn [e_eval e_move] in H1 |- *. exact (Hkeep H1).
      * cbn [post2]. split; [exact HJ|]. split; [intros Hn _; exact (HLs Hn)|exact HT].
  - assert (Htl : forall m', In m' tl -> In m' (MoveGen.pseudo_legal s)) by (intros m' Hm'; apply Hl; right; exact Hm').
    destruct (apply_move s m) as [ns|] eqn:Ha; [|exact Logic.I].
    fold (king_hit s ns). destruct (king_hit s ns) eqn:Hk.
    + apply IH; try assumption.
      intros m' ns' Hin. destruct (Hcov m' ns' Hin) as [[<-|Hm']|Hw]; [|left; exact Hm'|right; exact Hw].
      exfalso. destruct (gen_legal_not_hit s m ns' Hin) as (_ & Ha' & Hk'). rewrite Ha in Ha'. injection Ha' as <-.
      rewrite Hk in Hk'. discriminate Hk'.
    + destruct (searched_move s m ns HL (Hl m (or_introl eq_refl)) Ha Hk) as (Hg & _ & Hml).
      pose proof (P_step s m ns HP Hg) as HPn.
      assert (Hwin : - b1 < - alpha) by lia.
      pose proof (Hrec ns (md + ext)%N (cd + 1 + ext)%N (ce + ext)%N (- b1) (- alpha) w HPn Hwin HT) as Hc.
      destruct (rec ns (md + ext)%N (cd + 1 + ext)%N (ce + ext)%N (- b1) (- alpha) None w) as [r w'|w'|site|];
        cbn [post2] in Hc |- *; [|exact Hc|exact Logic.I|exact Logic.I].
      destruct Hc as (HcW & HcL & HT').
      assert (Hne : gen_legal s <> []) by (intros E; rewrite E in Hg; destruct Hg).
      assert (Hsame : forall ns', In (m, ns') (gen_legal s) -> ns' = ns).
      { intros ns' Hin. destruct (gen_legal_not_hit s m ns' Hin) as (_ & Ha' & _). rewrite Ha in Ha'.
        injection Ha' as <-. reflexivity. }
      cbv zeta. destruct (b1 <=? - r) eqn:Hcut.
      * assert (HKp : POS_INF <= b1 -> Keeps s m).
        { intros Hp. exists ns. split; [exact Hg|]. apply HcL; lia. }
        assert (HW : POS_INF <= b1 -> Won s).
        { intros Hp. apply (won_of_child_lost s m ns HL Hg). apply HcL; lia. }
        cbn [post2 w_tt]. split; [intros H1 _; exact (HW H1)|]. split; [exact HK|].
        apply TOk2_insert; [exact HT'|exact HP|]. split; [split; [|exact Hml]|].
        -- split; cbn [e_eval e_kind]; [intros H1 _; exact (HW H1) | intros _ [H2|H2]; discriminate H2].
        -- intros H1 _. cbn [e_eval e_move] in H1 |- *. exact (HKp H1).
      * destruct (alpha <? - r) eqn:Hr.
        -- apply IH; [exact Htl|exact HT'|lia|lia| | | |].
           ++ intros Hp _. apply (won_of_child_lost s m ns HL Hg). apply HcL; lia.
           ++ intros bm E. injection E as <-. split; [reflexivity|]. split; [lia|]. split; [exact Hml|].
              intros Hp. exists ns. split; [exact Hg|]. apply HcL; lia.
           ++ right. exact Hne.
           ++ intros m' ns' Hin. destruct (Hcov m' ns' Hin) as [[<-|Hm']|Hw]; [|left; exact Hm'|].
              ** right. intros Hn. rewrite (Hsame ns' Hin). apply HcW; lia.
              ** right. intros Hn. apply Hw. lia.
        -- apply IH; [exact Htl|exact HT'|exact Hge|exact Hab|exact HJ|exact Hbest| |].
           ++ right. exact Hne.
           ++ intros m' ns' Hin. destruct (Hcov m' ns' Hin) as [[<-|Hm']|Hw]; [|left; exact Hm'|right; exact Hw].
              right. intros Hn. rewrite (Hsame ns' Hin). apply HcW; lia.
Qed.

Lemma node_sound2 : forall history jit cancel (rec : rec_t), rec_ok2 rec ->
  forall s md cd ce a b prio w, P s -> a < b -> TOk2 P hs (w_tt w) ->
  (forall pm, prio = Some pm -> In pm (MoveGen.legal_moves s)) ->
  post2 s a b (node_body hs history jit cancel rec s md cd ce a b prio w).
Proof.
  intros history jit cancel rec Hrec s md cd ce a b prio w HP Hab HT Hprio.
  pose proof (P_legal s HP) as HL. infs. unfold node_body.
  destruct (snd (enter_node cancel w)); [cbn [post2]; rewrite ?enter_node_tt; exact HT|]. cbv zeta.
  destruct ((0 <? cd)%N && in_history history (hash hs s)).
  - cbn [post2 with_trace w_tt]. rewrite ?enter_node_tt. unfold EVEN.
    split; [intros; lia|]. split; [intros; lia|exact HT].
  - unfold node_continue. cbn [with_trace w_tt]. rewrite ?enter_node_tt.
    pose proof (probe_sound hs P P_legal P_step (w_tt w) s md cd a b (TOk_of_TOk2 P hs _ HT) HP Hab) as Hp.
    destruct (probe (w_tt w) (hash hs s) md cd a b) as [v|a1 b1|site]; [| |exact Logic.I].
    + cbn [post2 w_tt]. rewrite ?enter_node_tt. destruct Hp as [H1 H2].
      split; [exact H1|]. split; [exact H2|exact HT].
    + destruct Hp as (Hge & Hlt & Hle & HJ & HK).
      destruct (md <=? cd)%N.
      * destruct (quiesce (S (men s)) s cd a1 b1) as [v|site|] eqn:Eq; [|exact Logic.I|exact Logic.I].
        cbn [post2 w_tt]. rewrite ?enter_node_tt.
        destruct (quiesce_sound P P_legal P_step P_heur _ _ _ _ _ _ HP Hlt Eq) as [Q1 Q2].
        split; [|split; [|exact HT]].
        -- intros Hp Hav. destruct (Z_lt_le_dec a1 v) as [Hc|Hc]; [exact (Q1 Hp Hc)|]. apply HJ; lia.
        -- intros Hn Hvb. destruct (Z_lt_le_dec v b1) as [Hc|Hc]; [exact (Q2 Hn Hc)|]. apply HK; lia.
      * apply (loop_sound2 rec Hrec s md cd ce _ a b b1 _ HP Hle HK).
        -- intros m Hm. apply ordered_moves_in in Hm. destruct Hm as [Hm|Hm]; [exact Hm|].
           apply legal_in_pseudo. exact (Hprio m Hm).
        -- cbn [with_jidx with_trace w_tt]. rewrite ?enter_node_tt. exact HT.
        -- exact Hge.
        -- exact Hlt.
        -- exact HJ.
        -- intros bm E. discriminate E.
        -- left. reflexivity.
        -- intros m ns Hin. left. apply ordered_moves_complete.
           exact (proj1 (gen_legal_not_hit s m ns Hin)).
Qed.

Theorem analyze_sound2 : forall history jit cancel fuel s maxd cur ext a b prio w,
  P s -> a < b -> TOk2 P hs (w_tt w) -> (forall pm, prio = Some pm -> In pm (MoveGen.legal_moves s)) ->
  post2 s a b (analyze hs history jit cancel fuel s maxd cur ext a b prio w).
Proof.
  intros history jit cancel. induction fuel as [|k IH]; intros s maxd cur ext a b prio w HP Hab HT Hprio; [exact Logic.I|].
  rewrite analyze_S. apply node_sound2; try assumption.
  intros ns md cd ce a' b' w' HPn Hab' HT'. apply IH; try assumption. intros pm E. discriminate E.
Qed.

End First.

(* ------------------------------------------------------------------ *)
(* 3. a key of the history is never written by a node below the root    *)
(* ------------------------------------------------------------------ *)

(* whatever is found under the key rh in tt was already there in tt0 *)
Definition Sub (rh : N) (tt0 tt : access) : Prop := forall x, acc_find tt rh = Some x -> acc_find tt0 rh = Some x.

Lemma Sub_refl : forall rh tt, Sub rh tt tt.
Proof. intros rh tt x H. exact H. Qed.

Lemma Sub_trans : forall rh t1 t2 t3, Sub rh t1 t2 -> Sub rh t2 t3 -> Sub rh t1 t3.
Proof. intros rh t1 t2 t3 H12 H23 x H. exact (H12 x (H23 x H)). Qed.

Lemma Sub_insert_other : forall rh tt h e, tt_ok tt -> h <> rh -> Sub rh tt (acc_insert tt h e).
Proof.
  intros rh tt h e Hok Hne x H. destruct (acc_find_insert_cases _ _ _ _ _ Hok H) as [[E _]|[_ Hold]]; [|exact Hold].
  exfalso. apply Hne. symmetry. exact E.
Qed.

Definition sub_post (rh : N) (w : wstate) (r : sres Z) : Prop :=
  match r with
  | SVal _ w' => tt_ok (w_tt w') /\ Sub rh (w_tt w) (w_tt w')
  | SInterrupt w' => tt_ok (w_tt w') /\ Sub rh (w_tt w) (w_tt w')
  | _ => True
  end.

Definition rec_sub (rh : N) (rec : rec_t) : Prop :=
  forall ns md cd ce a b w, (0 < cd)%N -> tt_ok (w_tt w) -> sub_post rh w (rec ns md cd ce a b None w).

Lemma loop_keeps_key : forall rh (rec : rec_t), rec_sub rh rec ->
  forall s h md cd ce ext b1 prev, h <> rh ->
  forall l alpha best kind w0 w, tt_ok (w_tt w) -> Sub rh (w_tt w0) (w_tt w) ->
  sub_post rh w0 (loop_body rec s h md cd ce ext b1 prev l alpha best kind w).
Proof.
  intros rh rec Hrec s h md cd ce ext b1 prev Hne l.
  induction l as [|m tl IH]; intros alpha best kind w0 w Hok Hsub; cbn [loop_body].
  - destruct (prev =? w_nodes w)%N.
    + unfold eval_or_panic. destruct (evaluate s (st_turn s) cd); [exact (conj Hok Hsub)|exact Logic.I].
    + destruct best as [bm|]; [|exact (conj Hok Hsub)]. cbn [sub_post w_tt].
      split; [apply tt_ok_insert; exact Hok|].
      exact (Sub_trans rh _ _ _ Hsub (Sub_insert_other rh (w_tt w) h _ Hok Hne)).
  - destruct (apply_move s m) as [ns|]; [|exact Logic.I].
    destruct (any _); [apply IH; assumption|].
    assert (Hcd : (0 < cd + 1 + ext)%N) by lia.
    pose proof (Hrec ns (md + ext)%N (cd + 1 + ext)%N (ce + ext)%N (- b1) (- alpha) w Hcd Hok) as Hc.
    destruct (rec ns (md + ext)%N (cd + 1 + ext)%N (ce + ext)%N (- b1) (- alpha) None w) as [r w'|w'|site|];
      cbn [sub_post] in Hc |- *; [| |exact Logic.I|exact Logic.I].
    + destruct Hc as [Hok' Hsub'].
      assert (Hs2 : Sub rh (w_tt w0) (w_tt w')) by exact (Sub_trans rh _ _ _ Hsub Hsub').
      cbv zeta. destruct (b1 <=? - r).
      * cbn [sub_post w_tt]. split; [apply tt_ok_insert; exact Hok'|].
        exact (Sub_trans rh _ _ _ Hs2 (Sub_insert_other rh (w_tt w') h _ Hok' Hne)).
      * destruct (alpha <? - r); apply IH; assumption.
    + destruct Hc as [Hok' Hsub']. split; [exact Hok'|]. exact (Sub_trans rh _ _ _ Hsub Hsub').
Qed.

Theorem analyze_keeps_key : forall hs history rh, in_history history rh = true ->
  forall jit cancel fuel s maxd cur ext a b prio w, (0 < cur)%N -> tt_ok (w_tt w) ->
  sub_post rh w (analyze hs history jit cancel fuel s maxd cur ext a b prio w).
Proof.
  intros hs history rh Hin jit cancel. induction fuel as [|k IH]; intros s maxd cur ext a b prio w Hcur Hok; [exact Logic.I|].
  rewrite analyze_S. unfold node_body.
  assert (Hsame : tt_ok (w_tt w) /\ Sub rh (w_tt w) (w_tt w)) by (split; [exact Hok|apply Sub_refl]).
  destruct (snd (enter_node cancel w)); [cbn [sub_post]; rewrite ?enter_node_tt; exact Hsame|]. cbv zeta.
  destruct ((0 <? cur)%N && in_history history (hash hs s)) eqn:Hh;
    [cbn [sub_post with_trace w_tt]; rewrite ?enter_node_tt; exact Hsame|].
  assert (Hne : hash hs s <> rh).
  { intros E. rewrite E, Hin in Hh. apply andb_false_iff in Hh. destruct Hh as [Hh|Hh]; [|discriminate Hh].
    apply N.ltb_ge in Hh. lia. }
  unfold node_continue. cbn [with_trace w_tt]. rewrite ?enter_node_tt.
  destruct (probe _ _ _ _ _ _) as [v|a1 b1|site]; [cbn [sub_post w_tt]; rewrite ?enter_node_tt; exact Hsame| |exact Logic.I].
  destruct (maxd <=? cur)%N.
  - destruct (quiesce _ _ _ _ _); [cbn [sub_post w_tt]; rewrite ?enter_node_tt; exact Hsame|exact Logic.I|exact Logic.I].
  - apply loop_keeps_key; [|exact Hne| |].
    + intros ns md cd ce a' b' w' Hcd Hok'. apply IH; assumption.
    + cbn [with_jidx with_trace w_tt]. rewrite ?enter_node_tt. exact Hok.
    + cbn [with_jidx with_trace w_tt]. rewrite ?enter_node_tt. apply Sub_refl.
Qed.

(* the probe, seen from the root: a window or an early value >= POS_INF (with alpha below) comes from an entry
   whose evaluation is >= POS_INF *)
Definition WinsAt (tt : access) (h : N) (v : Z) : Prop :=
  POS_INF <= v -> forall x, acc_find tt h = Some x -> POS_INF <= e_eval x.

Lemma probe_root : forall tt h md cd a b, a < POS_INF ->
  match probe tt h md cd a b with
  | PEarly v => WinsAt tt h v
  | PWindow a1 b1 => WinsAt tt h a1
  | PPanic _ => True
  end.
Proof.
  intros tt h md cd a b Ha. unfold probe, WinsAt.
  destruct (acc_find tt h) as [e|]; [|intros Hp; lia].
  destruct (md <? cd)%N; [exact Logic.I|]. destruct (e_maxdepth e <? e_depth e)%N; [exact Logic.I|].
  destruct (md - cd <=? e_maxdepth e - e_depth e)%N; [|intros Hp; lia].
  destruct (e_kind e); cbv zeta.
  - intros Hp x E. injection E as <-. exact Hp.
  - destruct (Z.min b (e_eval e) <=? a); intros Hp x E; injection E as <-; lia.
  - destruct (b <=? Z.max a (e_eval e)); intros Hp x E; injection E as <-; lia.
Qed.

(* ------------------------------------------------------------------ *)
(* 4. the root call, the iterative driver                               *)
(* ------------------------------------------------------------------ *)

Section Root.
Variable hs : hasher.
Variable P : state -> Prop.
Hypothesis HR : HashRuleOn P hs.
Hypothesis P_legal : forall s, P s -> LegalPos s.
Hypothesis P_step : forall s m ns, P s -> In (m, ns) (gen_legal s) -> P ns.
Hypothesis P_heur : HeurNTOn P.

(* the loop of the root node: if it returns a value >= POS_INF, every entry found afterwards under the root key
   has an evaluation >= POS_INF.  tt0 / alpha0: the table and the window's alpha at the start of the loop. *)
Lemma loop_root : forall (rec : rec_t) s, rec_sub (hash hs s) rec -> P s ->
  forall md cd ce ext b1 prev alpha0 tt0, WinsAt tt0 (hash hs s) alpha0 ->
  forall l alpha best kind w, tt_ok (w_tt w) ->
    (best = None -> alpha = alpha0 /\ Sub (hash hs s) tt0 (w_tt w)) ->
    match loop_body rec s (hash hs s) md cd ce ext b1 prev l alpha best kind w with
    | SVal v w' => WinsAt (w_tt w') (hash hs s) v
    | _ => True
    end.
Proof.
  intros rec s Hrec HP md cd ce ext b1 prev alpha0 tt0 H0 l.
  induction l as [|m tl IH]; intros alpha best kind w Hok Hbest; cbn [loop_body].
  - destruct (prev =? w_nodes w)%N.
    + unfold eval_or_panic. destruct (evaluate s (st_turn s) cd) as [v|] eqn:Ee; [|exact Logic.I].
      destruct (eval_sound P P_legal P_step P_heur s cd v HP Ee) as (Hlt & _ & _).
      intros Hp. lia.
    + destruct best as [bm|].
      * cbn [w_tt]. intros Hp x E. rewrite (acc_find_insert_same _ _ _ Hok) in E. injection E as <-.
        cbn [e_eval]. exact Hp.
      * destruct (Hbest eq_refl) as [-> Hsub]. intros Hp x E. exact (H0 Hp x (Hsub x E)).
  - destruct (apply_move s m) as [ns|]; [|exact Logic.I].
    destruct (any _); [apply IH; assumption|].
    assert (Hcd : (0 < cd + 1 + ext)%N) by lia.
    pose proof (Hrec ns (md + ext)%N (cd + 1 + ext)%N (ce + ext)%N (- b1) (- alpha) w Hcd Hok) as Hc.
    destruct (rec ns (md + ext)%N (cd + 1 + ext)%N (ce + ext)%N (- b1) (- alpha) None w) as [r w'|w'|site|];
      cbn [sub_post] in Hc; [|exact Logic.I|exact Logic.I|exact Logic.I].
    destruct Hc as [Hok' Hsub']. cbv zeta. destruct (b1 <=? - r).
    + cbn [w_tt]. intros Hp x E. rewrite (acc_find_insert_same _ _ _ Hok') in E. injection E as <-.
      cbn [e_eval]. exact Hp.
    + destruct (alpha <? - r).
      * apply IH; [exact Hok'|]. intros E. discriminate E.
      * apply IH; [exact Hok'|]. intros E. destruct (Hbest E) as [Ea Hsub]. split; [exact Ea|].
        exact (Sub_trans _ _ _ _ Hsub Hsub').
Qed.

Lemma node_root : forall history jit cancel (rec : rec_t) s, rec_sub (hash hs s) rec -> P s ->
  forall md ce a b prio w, (0 < md)%N -> a < POS_INF -> tt_ok (w_tt w) ->
  match node_body hs history jit cancel rec s md 0 ce a b prio w with
  | SVal v w' => WinsAt (w_tt w') (hash hs s) v
  | _ => True
  end.
Proof.
  intros history jit cancel rec s Hrec HP md ce a b prio w Hmd Ha Hok. unfold node_body.
  destruct (snd (enter_node cancel w)); [exact Logic.I|]. cbv zeta.
  change ((0 <? 0)%N) with false. cbn [andb].
  unfold node_continue. cbn [with_trace w_tt]. rewrite ?enter_node_tt.
  pose proof (probe_root (w_tt w) (hash hs s) md 0 a b Ha) as Hp.
  destruct (probe (w_tt w) (hash hs s) md 0 a b) as [v|a1 b1|site]; [| |exact Logic.I].
  - cbn [w_tt]. rewrite ?enter_node_tt. exact Hp.
  - destruct (md <=? 0)%N eqn:Hq; [apply N.leb_le in Hq; lia|].
    apply (loop_root rec s Hrec HP md 0%N ce _ b1 _ a1 (w_tt w) Hp).
    + cbn [with_jidx with_trace w_tt]. rewrite ?enter_node_tt. exact Hok.
    + intros _. split; [reflexivity|]. cbn [with_jidx with_trace w_tt]. rewrite ?enter_node_tt. apply Sub_refl.
Qed.

(* the root call of an iteration *)
Theorem analyze_root : forall history jit cancel fuel s maxd ext a b prio w,
  P s -> in_history history (hash hs s) = true -> (0 < maxd)%N -> a < POS_INF -> tt_ok (w_tt w) ->
  match analyze hs history jit cancel fuel s maxd 0 ext a b prio w with
  | SVal v w' => WinsAt (w_tt w') (hash hs s) v
  | _ => True
  end.
Proof.
  intros history jit cancel [|k] s maxd ext a b prio w HP Hin Hmd Ha Hok; [exact Logic.I|].
  rewrite analyze_S. apply node_root; try assumption.
  intros ns md cd ce a' b' w' Hcd Hok'. apply analyze_keeps_key; assumption.
Qed.

(* ---- the iterative driver ---- *)

Definition EvKeeps (s : state) (l : list event) : Prop :=
  forall ev mv tl, In (EvBest ev (mv :: tl)) l -> POS_INF <= ev -> exists ns, In (mv, ns) (gen_legal s) /\ Lost ns.

Definition TOk2N (tt : access) : Prop := TOk2 P hs tt /\ NoUpper tt.

(* the line read out of the table starts with the move of the root entry *)
Lemma iter_moves_root : forall fuel tt s idx maxd mv tl,
  iter_moves hs fuel tt s idx maxd = mv :: tl -> exists e, acc_find tt (hash hs s) = Some e /\ e_move e = mv.
Proof.
  intros [|k] tt s idx maxd mv tl E; cbn [iter_moves] in E; [discriminate E|].
  destruct (maxd <? idx)%N; [discriminate E|].
  destruct (acc_find tt (hash hs s)) as [e|] eqn:Ef; [|discriminate E].
  destruct (apply_move s (e_move e)); [|discriminate E]. injection E as <- _.
  exists e. split; reflexivity.
Qed.

Lemma root_entry_keeps : forall tt s e, TOk2N tt -> P s -> acc_find tt (hash hs s) = Some e ->
  POS_INF <= e_eval e -> exists ns, In (e_move e, ns) (gen_legal s) /\ Lost ns.
Proof.
  intros tt s e [[_ Hen] Hnu] HP Ef Hp. destruct (Hen _ e Ef s HP eq_refl) as [_ Hk].
  exact (Hk Hp (Hnu _ e Ef)).
Qed.

Lemma iterate_keeps : forall jit_of cancel iters depth s history tt gnodes flag trace nt be bm acc,
  P s -> in_history history (hash hs s) = true -> TOk2N tt ->
  (forall m, bm = Some m -> In m (MoveGen.legal_moves s)) -> EvKeeps s acc ->
  let r := iterate hs jit_of cancel iters depth s history tt gnodes flag trace nt be bm acc in
  EvKeeps s (r_events r) /\ TOk2N (r_tt r).
Proof.
  intros jit_of cancel iters. induction iters as [|k IH];
    intros depth s history tt gnodes flag trace nt be bm acc HP Hhist HT Hbm Hacc; cbn [iterate].
  - cbn [r_events r_tt]. split; [|exact HT]. intros ev mv tl Hin. apply in_rev in Hin. exact (Hacc ev mv tl Hin).
  - assert (Hrev : forall l, EvKeeps s l -> EvKeeps s (rev l)).
    { intros l H ev mv tl Hin. apply in_rev in Hin. exact (H ev mv tl Hin). }
    destruct ((0 <? depth)%N && flag); [cbn [r_events r_tt]; auto|]. cbv zeta.
    pose proof (P_legal s HP) as HL. infs.
    set (w0 := mkW tt 0 0 gnodes flag trace).
    assert (EM : mate_in_ply 0 = 11000) by reflexivity.
    assert (Hroot : - mate_in_ply 0 < mate_in_ply 0) by lia.
    pose proof (analyze_sound2 hs P HR P_legal P_step P_heur history (jit_of depth) cancel (S (S (N.to_nat depth))) s
                  (depth + 1)%N 0%N 0%N (- mate_in_ply 0) (mate_in_ply 0) bm w0 HP Hroot (proj1 HT) Hbm) as Hs.
    pose proof (analyze_no_upper hs history (jit_of depth) cancel (S (S (N.to_nat depth))) s (depth + 1)%N 0%N 0%N
                  (- mate_in_ply 0) (mate_in_ply 0) bm w0 (conj (proj1 (proj1 HT)) (proj2 HT))) as Hn.
    assert (Hmd : (0 < depth + 1)%N) by lia.
    assert (Hal : - mate_in_ply 0 < POS_INF) by lia.
    pose proof (analyze_root history (jit_of depth) cancel (S (S (N.to_nat depth))) s (depth + 1)%N 0%N
                  (- mate_in_ply 0) (mate_in_ply 0) bm w0 HP Hhist Hmd Hal (proj1 (proj1 HT))) as Hw.
    destruct (analyze hs history (jit_of depth) cancel (S (S (N.to_nat depth))) s (depth + 1)%N 0%N 0%N
                      (- mate_in_ply 0) (mate_in_ply 0) bm w0) as [ev w|w|site|]; cbn [post2] in Hs; cbn [nu_post] in Hn.
    + destruct Hs as (_ & _ & HT'). destruct Hn as [_ Hnu'].
      destruct (iter_moves hs (S (S (N.to_nat depth))) (w_tt w) s 0%N depth) as [|mv tl] eqn:El.
      * cbn [r_events r_tt]. split; [|exact (conj HT' Hnu')]. apply Hrev.
        intros ev' mv' tl' [E|Hin]; [discriminate E|exact (Hacc ev' mv' tl' Hin)].
      * assert (Hacc2 : EvKeeps s (EvBest ev (mv :: tl) :: EvProgress (depth + 1)%N (nt + w_nodes w)%N :: acc)).
        { intros ev' mv' tl' [E|[E|Hin]]; [|discriminate E|exact (Hacc ev' mv' tl' Hin)].
          injection E as <- <- _. intros Hp.
          destruct (iter_moves_root _ _ _ _ _ _ _ El) as (e & Ef & <-).
          exact (root_entry_keeps (w_tt w) s e (conj HT' Hnu') HP Ef (Hw Hp e Ef)). }
        destruct (POS_INF <=? ev); [cbn [r_events r_tt]; split; [apply Hrev; exact Hacc2|exact (conj HT' Hnu')]|].
        apply IH; [exact HP|exact Hhist|exact (conj HT' Hnu')| |exact Hacc2].
        intros m E. injection E as <-.
        exact (iter_moves_head hs P _ _ _ _ _ _ _ (TOk_of_TOk2 P hs _ HT') HP El).
    + destruct Hn as [_ Hnu']. cbn [r_events r_tt]. split; [|exact (conj Hs Hnu')]. apply Hrev.
      destruct (acc_find (w_tt w) (hash hs s)) as [x|] eqn:Ef; [|exact Hacc].
      destruct (iter_moves hs (S (S (N.to_nat depth))) (w_tt w) s 0%N depth) as [|mv0 tl0] eqn:El.
      * destruct ((be <? e_eval x) && false); [|exact Hacc].
        intros ev' mv' tl' [E|Hin]; [discriminate E|exact (Hacc ev' mv' tl' Hin)].
      * destruct ((be <? e_eval x) && true); [|exact Hacc].
        intros ev' mv' tl' [E|Hin]; [|exact (Hacc ev' mv' tl' Hin)]. injection E as <- <- _. intros Hp.
        destruct (iter_moves_root _ _ _ _ _ _ _ El) as (e & Ef' & <-).
        rewrite Ef in Ef'. injection Ef' as <-.
        exact (root_entry_keeps (w_tt w) s x (conj Hs Hnu') HP Ef Hp).
    + cbn [r_events r_tt]. auto.
    + cbn [r_events r_tt]. auto.
Qed.

Lemma history_has_root : forall root history,
  in_history (if existsb (N.eqb root) history then history else root :: history) root = true.
Proof.
  intros root history. unfold in_history. destruct (existsb (N.eqb root) history) eqn:E; [exact E|].
  cbn [existsb]. rewrite N.eqb_refl. reflexivity.
Qed.

Theorem first_move_keeps : forall jit_of cancel iters s history tt,
  P s -> TOk2 P hs tt -> NoUpper tt ->
  let r := analyze_iterative hs jit_of cancel iters s history tt in
  (forall ev mv tl, In (EvBest ev (mv :: tl)) (r_events r) -> POS_INF <= ev ->
     exists ns, In (mv, ns) (gen_legal s) /\ Lost ns) /\
  TOk2 P hs (r_tt r) /\ NoUpper (r_tt r).
Proof.
  intros jit_of cancel iters s history tt HP HT Hnu. unfold analyze_iterative.
  apply iterate_keeps; [exact HP|apply history_has_root|exact (conj HT Hnu)|intros m E; discriminate E|intros ev mv tl []].
Qed.

End Root.

(* ------------------------------------------------------------------ *)
(* 5. final forms                                                       *)
(* ------------------------------------------------------------------ *)

(* one call of analyze_recursive: the stronger table invariant is preserved (region form) *)
Theorem keeps_call : forall hs P, HashRuleOn P hs -> Region P -> HeurNTOn P ->
  forall history jit cancel fuel s maxd cur ext a b prio w,
  P s -> a < b -> TOk2 P hs (w_tt w) -> (forall pm, prio = Some pm -> In pm (MoveGen.legal_moves s)) ->
  match analyze hs history jit cancel fuel s maxd cur ext a b prio w with
  | SVal r w' => (POS_INF <= r -> a < r -> Won s) /\ (r <= NEG_INF -> r < b -> Lost s) /\ TOk2 P hs (w_tt w')
  | SInterrupt w' => TOk2 P hs (w_tt w')
  | _ => True
  end.
Proof.
  intros hs P HR [HPl HPs] HPh history jit cancel fuel s maxd cur ext a b prio w HP Hab HT Hprio.
  exact (analyze_sound2 hs P HR HPl HPs HPh history jit cancel fuel s maxd cur ext a b prio w HP Hab HT Hprio).
Qed.

(* region form *)
Theorem keeps_iterative : forall hs P, HashRuleOn P hs -> Region P -> HeurNTOn P ->
  forall jit_of cancel iters s history tt, P s -> TOk2 P hs tt -> NoUpper tt ->
  let r := analyze_iterative hs jit_of cancel iters s history tt in
  (forall ev mv tl, In (EvBest ev (mv :: tl)) (r_events r) -> POS_INF <= ev ->
     exists ns, In (mv, ns) (gen_legal s) /\ Lost ns) /\
  TOk2 P hs (r_tt r) /\ NoUpper (r_tt r).
Proof.
  intros hs P HR [HPl HPs] HPh jit_of cancel iters s history tt HP HT Hnu.
  exact (first_move_keeps hs P HR HPl HPs HPh jit_of cancel iters s history tt HP HT Hnu).
Qed.

(* both clauses of C06 together, with the rules-level reading: the searched position is won, the reported first
   move is a generated legal move, and the position after it is lost for the opponent *)
Theorem sound_and_keeps_iterative : forall hs P, HashRuleOn P hs -> Region P -> HeurNTOn P ->
  forall jit_of cancel iters s history tt, P s -> TOk2 P hs tt -> NoUpper tt ->
  let r := analyze_iterative hs jit_of cancel iters s history tt in
  (forall ev mv tl, In (EvBest ev (mv :: tl)) (r_events r) -> POS_INF <= ev ->
     (exists n, Win n (abs s)) /\
     exists ns, In (mv, ns) (gen_legal s) /\ In mv (MoveGen.legal_moves s) /\ exists n, Loss n (abs ns)) /\
  TOk2 P hs (r_tt r) /\ NoUpper (r_tt r).
Proof.
  intros hs P HR HReg HPh jit_of cancel iters s history tt HP HT Hnu.
  destruct (keeps_iterative hs P HR HReg HPh jit_of cancel iters s history tt HP HT Hnu) as (H1 & H2 & H3).
  split; [|exact (conj H2 H3)]. intros ev mv tl Hin Hp.
  destruct (H1 ev mv tl Hin Hp) as (ns & Hg & HLost). split.
  - apply Won_iff_Win. exact (won_of_child_lost s mv ns (proj1 HReg s HP) Hg HLost).
  - exists ns. split; [exact Hg|]. split.
    + unfold MoveGen.legal_moves. apply in_map_iff. exists (mv, ns). split; [reflexivity|exact Hg].
    + apply Lost_iff_Loss. exact HLost.
Qed.

(* instance: the positions reachable from the root *)
Theorem keeps_iterative_reach : forall hs s, LegalPos s -> HashRuleOn (Reach s) hs -> HeurNTOn (Reach s) ->
  forall jit_of cancel iters history tt, TOk2 (Reach s) hs tt -> NoUpper tt ->
  let r := analyze_iterative hs jit_of cancel iters s history tt in
  (forall ev mv tl, In (EvBest ev (mv :: tl)) (r_events r) -> POS_INF <= ev ->
     exists ns, In (mv, ns) (gen_legal s) /\ exists n, Loss n (abs ns)) /\
  TOk2 (Reach s) hs (r_tt r) /\ NoUpper (r_tt r).
Proof.
  intros hs s HL HR HH jit_of cancel iters history tt HT Hnu.
  destruct (keeps_iterative hs (Reach s) HR (Reach_region s HL) HH jit_of cancel iters s history tt
              (Reach_root s) HT Hnu) as (H1 & H2 & H3).
  split; [|exact (conj H2 H3)]. intros ev mv tl Hin Hp.
  destruct (H1 ev mv tl Hin Hp) as (ns & Hg & HLost). exists ns. split; [exact Hg|].
  apply Lost_iff_Loss. exact HLost.
Qed.

(* instances on "at most ten men" (MateRegion.v): the only residue left is the absence of hash collisions *)
Theorem small_men_keeps : forall hs, HashRuleOn SmallMen hs ->
  forall jit_of cancel iters s history tt, LegalPos s -> (men s <= 10)%nat -> TOk2 SmallMen hs tt -> NoUpper tt ->
  let r := analyze_iterative hs jit_of cancel iters s history tt in
  (forall ev mv tl, In (EvBest ev (mv :: tl)) (r_events r) -> POS_INF <= ev ->
     exists ns, In (mv, ns) (gen_legal s) /\ exists n, Loss n (abs ns)) /\
  TOk2 SmallMen hs (r_tt r) /\ NoUpper (r_tt r).
Proof.
  intros hs HR jit_of cancel iters s history tt HL Hm HT Hnu.
  destruct (keeps_iterative hs SmallMen HR SmallMen_region SmallMen_heur jit_of cancel iters s history tt
              (conj HL Hm) HT Hnu) as (H1 & H2 & H3).
  split; [|exact (conj H2 H3)]. intros ev mv tl Hin Hp.
  destruct (H1 ev mv tl Hin Hp) as (ns & Hg & HLost). exists ns. split; [exact Hg|].
  apply Lost_iff_Loss. exact HLost.
Qed.

Theorem small_root_keeps : forall hs s, LegalPos s -> (men s <= 10)%nat -> HashRuleOn (Reach s) hs ->
  forall jit_of cancel iters history tt, TOk2 (Reach s) hs tt -> NoUpper tt ->
  let r := analyze_iterative hs jit_of cancel iters s history tt in
  (forall ev mv tl, In (EvBest ev (mv :: tl)) (r_events r) -> POS_INF <= ev ->
     exists ns, In (mv, ns) (gen_legal s) /\ exists n, Loss n (abs ns)) /\
  TOk2 (Reach s) hs (r_tt r) /\ NoUpper (r_tt r).
Proof.
  intros hs s HL Hm HR. exact (keeps_iterative_reach hs s HL HR (Reach_small_heur s (conj HL Hm))).
Qed.

(* from the empty table (no premise on the table) *)
Theorem small_root_keeps_fresh : forall hs s, LegalPos s -> (men s <= 10)%nat -> HashRuleOn (Reach s) hs ->
  forall jit_of cancel iters history nt nb, (0 < nt)%nat -> (0 < nb)%nat ->
  let r := analyze_iterative hs jit_of cancel iters s history (empty_access nt nb) in
  forall ev mv tl, In (EvBest ev (mv :: tl)) (r_events r) -> POS_INF <= ev ->
    (exists n, Win n (abs s)) /\ exists ns, In (mv, ns) (gen_legal s) /\ exists n, Loss n (abs ns).
Proof.
  intros hs s HL Hm HR jit_of cancel iters history nt nb Hnt Hnb r ev mv tl Hin Hp.
  destruct (small_root_keeps hs s HL Hm HR jit_of cancel iters history (empty_access nt nb)
              (TOk2_empty _ hs nt nb Hnt Hnb) (NoUpper_empty nt nb Hnt Hnb)) as (H1 & _ & _).
  destruct (H1 ev mv tl Hin Hp) as (ns & Hg & n & Hn). split.
  - apply Won_iff_Win. apply (won_of_child_lost s mv ns HL Hg). apply Lost_iff_Loss. exists n. exact Hn.
  - exists ns. split; [exact Hg|]. exists n. exact Hn.
Qed.

(* non-vacuity: White Kf6 Ra1, Black Kh8, White to move ("7k/8/5K2/8/8/8/8/R7 w - - 0 1", the position kr2 of
   MateCompleteEx.v).  The depth-3 run from the empty table reports 10700 >= POS_INF with the line [Kf6-g6]; the
   reported move is a generated legal move and the position after it is lost for Black within two plies. *)
Definition fm_hx : hasher := hasher_of_stream (map N.of_nat (seq 1 1038)).
Definition fm_kr2 : state :=
  mkState (mkBoard 0 0 0 1 0 (N.shiftl 1 45) 0 0 0 0 0 (N.shiftl 1 63))%N White false false false false None 0%N 1%N.

Example fm_kr2_first_move :
  let r := analyze_iterative fm_hx (fun _ _ => 0) None 3 fm_kr2 [] (empty_access 2 4) in
  In (EvBest 10700 [268490454%N]) (r_events r) /\ (POS_INF <=? 10700) = true /\
  legal_posb fm_kr2 = true /\ men fm_kr2 = 3%nat /\
  (match apply_move fm_kr2 268490454%N with
  | Some ns => existsb (fun x => N.eqb (fst x) 268490454%N) (gen_legal fm_kr2) && loss 2 (abs ns)
  | None => false
  end) = true.
Proof.
  split; [vm_compute; do 5 right; left; reflexivity|]. split; [reflexivity|].
  split; [lazy; reflexivity|]. split; [vm_compute; reflexivity|lazy; reflexivity].
Qed.

Print Assumptions first_move_keeps.
Print Assumptions keeps_iterative.
Print Assumptions sound_and_keeps_iterative.
Print Assumptions keeps_iterative_reach.
Print Assumptions small_men_keeps.
Print Assumptions small_root_keeps.
Print Assumptions small_root_keeps_fresh.
