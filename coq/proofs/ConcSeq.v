(* One worker of the concurrent layer (model/Conc.v) IS the one-worker model (model/Search.v):
   running the program analyzeP alone against a table gives the value, the worker's counters and the
   table that `analyze` gives with the cancellation flag clear.  Consequently every theorem about
   `analyze` / `analyze_iterative` (and the exact correspondence of that model with the code) speaks
   about the one-worker runs of the concurrent layer as well. *)
From Coq Require Import NArith ZArith List Bool Lia.
From WV Require Import Types Bits Attacks Board MoveEnc MoveGen Text Table Eval Search Conc.
From WV Require Import SearchBase.
Import ListNotations.
Open Scope N_scope.

Lemma run_seq_bind : forall A B (p : prog A) (f : A -> prog B) tt,
  run_seq (bind p f) tt = let '(a, tt1) := run_seq p tt in run_seq (f a) tt1.
Proof.
  intros A B p f. induction p as [a|h k IH|h e k IH]; intros tt; cbn [bind run_seq].
  - reflexivity.
  - apply IH.
  - apply IH.
Qed.

Definition lst (w : wstate) : lstate := mkL (w_jidx w) (w_nodes w).

Definition agrees (r : sres Z) (q : pres * access) : Prop :=
  match r with
  | SVal v w => q = (WVal v (lst w), w_tt w) /\ w_flag w = false
  | SInterrupt _ => False
  | SPanic site => fst q = WPanic site
  | SFuel => fst q = WFuel
  end.

Definition rec_agree (rec : rec_t) (recP : recP_t) : Prop :=
  forall ns md cd ce a b prio w, w_flag w = false ->
    agrees (rec ns md cd ce a b prio w) (run_seq (recP ns md cd ce a b prio (lst w)) (w_tt w)).

Lemma loop_agree : forall (rec : rec_t) (recP : recP_t), rec_agree rec recP ->
  forall s h md cd ce ext beta1 prev l alpha best kind w, w_flag w = false ->
  agrees (loop_body rec s h md cd ce ext beta1 prev l alpha best kind w)
         (run_seq (loop_bodyP recP s h md cd ce ext beta1 prev l alpha best kind (lst w)) (w_tt w)).
Proof.
  intros rec recP Hrec s h md cd ce ext beta1 prev l.
  induction l as [|m tl IH]; intros alpha best kind w Hf; cbn [loop_body loop_bodyP].
  - cbn [lst l_nodes]. destruct (prev =? w_nodes w).
    + unfold eval_or_panic. destruct (evaluate s (st_turn s) cd) as [v|]; cbn [run_seq agrees fst].
      * split; [reflexivity|exact Hf].
      * reflexivity.
    + destruct best as [bm|]; cbn [run_seq agrees].
      * split; [reflexivity|exact Hf].
      * split; [reflexivity|exact Hf].
  - destruct (apply_move s m) as [ns|]; [|cbn [run_seq agrees fst]; reflexivity].
    destruct (any (N.land (pocc (st_board ns) (st_turn s) King) (colored_attacks (st_board ns) (st_turn ns)))).
    + apply IH. exact Hf.
    + rewrite run_seq_bind.
      pose proof (Hrec ns (md + ext) (cd + 1 + ext) (ce + ext) (- beta1)%Z (- alpha)%Z None w Hf) as Hc.
      destruct (rec ns (md + ext) (cd + 1 + ext) (ce + ext) (- beta1)%Z (- alpha)%Z None w) as [r w'|w'|site|];
        destruct (run_seq (recP ns (md + ext) (cd + 1 + ext) (ce + ext) (- beta1)%Z (- alpha)%Z None (lst w)) (w_tt w))
          as [q tt1]; cbn [agrees fst] in Hc.
      * destruct Hc as [Hq Hf']. injection Hq as -> ->. cbv zeta.
        destruct (beta1 <=? - r)%Z.
        { cbn [run_seq agrees]. split; [reflexivity|exact Hf']. }
        destruct (alpha <? - r)%Z; apply IH; exact Hf'.
      * destruct Hc.
      * subst q. cbn [run_seq agrees fst]. reflexivity.
      * subst q. cbn [run_seq agrees fst]. reflexivity.
Qed.

Lemma probe_probe_of : forall tt h md cd a b, probe tt h md cd a b = probe_of (acc_find tt h) md cd a b.
Proof. reflexivity. Qed.

Lemma node_agree : forall hs history jit (rec : rec_t) (recP : recP_t), rec_agree rec recP ->
  rec_agree (node_body hs history jit None rec) (node_bodyP hs history jit recP).
Proof.
  intros hs history jit rec recP Hrec. unfold rec_agree. intros s md cd ce a b prio w Hf.
  unfold node_body, node_bodyP.
  assert (Hs : snd (enter_node None w) = false).
  { unfold enter_node. cbn [snd]. rewrite Hf. cbn [orb]. apply andb_false_r. }
  rewrite Hs. cbv zeta.
  assert (Hw1 : fst (enter_node None w) = mkW (w_tt w) (w_jidx w) (w_nodes w + 1) (w_gnodes w + 1) false (w_trace w)).
  { unfold enter_node. cbn [fst]. rewrite Hf. reflexivity. }
  rewrite Hw1. unfold with_trace. cbn [lst l_jidx l_nodes w_tt w_jidx w_nodes w_gnodes w_flag w_trace].
  destruct ((0 <? cd) && in_history history (hash hs s)).
  - cbn [run_seq agrees lst w_jidx w_nodes w_tt w_flag]. split; reflexivity.
  - unfold node_continue. cbn [run_seq w_tt w_jidx w_nodes]. rewrite probe_probe_of.
    destruct (probe_of (acc_find (w_tt w) (hash hs s)) md cd a b) as [v|a1 b1|site].
    + cbn [run_seq agrees lst w_jidx w_nodes w_tt w_flag]. split; reflexivity.
    + destruct (md <=? cd).
      * destruct (quiesce (S (men s)) s cd a1 b1) as [v|site|]; cbn [run_seq agrees fst lst w_jidx w_nodes w_tt w_flag].
        -- split; reflexivity.
        -- reflexivity.
        -- reflexivity.
      * match goal with
        | |- agrees (loop_body _ _ _ _ _ _ _ _ _ _ _ _ _ ?W) _ =>
            exact (loop_agree rec recP Hrec s (hash hs s) md cd ce _ b1 _ _ a1 None UpperBound W eq_refl)
        end.
    + cbn [run_seq agrees fst]. reflexivity.
Qed.

Theorem analyzeP_seq : forall hs history jit fuel,
  rec_agree (analyze hs history jit None fuel) (analyzeP hs history jit fuel).
Proof.
  intros hs history jit. induction fuel as [|k IH].
  - unfold rec_agree. intros s md cd ce a b prio w Hf. cbn [analyze analyzeP run_seq agrees fst]. reflexivity.
  - unfold rec_agree. intros s md cd ce a b prio w Hf. rewrite analyze_S. cbn [analyzeP].
    apply (node_agree hs history jit _ _ IH); exact Hf.
Qed.
