(* Theorems about model/Search.v, part 2 (C04): the structural fuel suffices, no panic site is reachable
   from a legal position with a sane table, the terminal root, the stop bound. *)
From Coq Require Import NArith ZArith List Bool Lia ZifyBool ZifyN ZifyNat.
From WV Require Import Types Bits Attacks Board MoveEnc MoveGen Text Table Eval Search.
From WV Require Import Rules Abs Wf Encode.
From WV Require Import GenLegal TableProofs SearchBase SearchProofs.
Import ListNotations.
Import WV.Bits.
Open Scope N_scope.
Ltac Zify.zify_post_hook ::= Z.div_mod_to_equations.

(* ================================================================== *)
(* quiescence                                                           *)
(* ================================================================== *)

Definition q_loop (rec : state -> N -> Z -> Z -> qres) (depth : N) (beta : Z) : list (N * state) -> Z -> qres :=
  fix loop (l : list (N * state)) (alpha : Z) : qres :=
    match l with
    | [] => QVal alpha
    | (m, ns) :: tl =>
        if negb (m_is_capture m) then loop tl alpha
        else match rec ns (depth + 1)%N (- beta)%Z (- alpha)%Z with
             | QVal r => let e := (- r)%Z in
                         if (beta <=? e)%Z then QVal beta
                         else loop tl (if (alpha <? e)%Z then e else alpha)
             | other => other
             end
    end.

Definition q_sorted (s : state) : list (N * state) :=
  map snd (stable_sort (map (fun ms => (capture_key (fst ms), ms)) (gen_legal s))).

Lemma quiesce_S : forall k s depth alpha beta,
  quiesce (S k) s depth alpha beta =
  if gen_panics s then QPanic site_apply_unwrap else
  match evaluate s (st_turn s) depth with
  | EPanic => QPanic site_eval_king
  | EVal normal =>
      match gen_legal s with
      | [] => QVal normal
      | _ =>
          if forallb (fun ms => negb (m_is_capture (fst ms))) (gen_legal s) then QVal normal
          else if (beta <=? normal)%Z then QVal beta
          else q_loop (quiesce k) depth beta (q_sorted s) (if (alpha <? normal)%Z then normal else alpha)
      end
  end.
Proof. intros. reflexivity. Qed.

Lemma q_sorted_in : forall s ms, In ms (q_sorted s) -> In ms (gen_legal s).
Proof.
  intros s ms H. unfold q_sorted in H. apply in_map_iff in H. destruct H as [[k x] [E Hin]].
  cbn [snd] in E. subst x. apply (proj1 (stable_sort_in _ _ _)) in Hin.
  apply in_map_iff in Hin. destruct Hin as [ms' [E Hin]]. injection E as _ <-. exact Hin.
Qed.

(* the two residues the quiescence lemmas are stated under *)
Definition EvalTotal : Prop := forall s p d, LegalPos s -> evaluate s p d <> EPanic.
Definition CaptureMen : Prop := forall s m ns, LegalPos s -> In (m, ns) (gen_legal s) ->
  m_is_capture m = true -> (men ns < men s)%nat.

Definition q_post (fuel : nat) (s : state) (q : qres) : Prop :=
  match q with
  | QVal _ => True
  | QPanic _ => ~ EvalTotal
  | QFuel => CaptureMen -> (fuel <= men s)%nat
  end.

Lemma q_loop_post : forall k (rec : state -> N -> Z -> Z -> qres) s depth beta,
  (forall ns d a b, LegalPos ns -> q_post k ns (rec ns d a b)) -> LegalPos s ->
  forall l, (forall ms, In ms l -> In ms (gen_legal s)) ->
  forall alpha, q_post (S k) s (q_loop rec depth beta l alpha).
Proof.
  intros k rec s depth beta Hrec HL l. induction l as [|[m ns] tl IH]; intros Hl alpha; cbn [q_loop].
  - exact Logic.I.
  - assert (Htl : forall ms, In ms tl -> In ms (gen_legal s)) by (intros ms Hm; apply Hl; right; exact Hm).
    destruct (m_is_capture m) eqn:Hcap; cbn [negb]; [|exact (IH Htl alpha)].
    pose proof (Hl (m, ns) (or_introl eq_refl)) as Hin.
    destruct (apply_saturating s m ns HL Hin) as (_ & _ & HLn).
    pose proof (Hrec ns (depth + 1) (- beta)%Z (- alpha)%Z HLn) as Hq.
    destruct (rec ns (depth + 1) (- beta)%Z (- alpha)%Z) as [r|site|]; cbn [q_post] in Hq |- *.
    + cbv zeta. destruct (beta <=? - r)%Z; [exact Logic.I|]. apply IH; exact Htl.
    + exact Hq.
    + intros HC. pose proof (Hq HC) as H1. pose proof (HC s m ns HL Hin Hcap) as H2. lia.
Qed.

Theorem quiesce_post : forall fuel s depth alpha beta, LegalPos s ->
  q_post fuel s (quiesce fuel s depth alpha beta).
Proof.
  induction fuel as [|k IH]; intros s depth alpha beta HL.
  - cbn [quiesce q_post]. intros _. lia.
  - rewrite quiesce_S. rewrite (gen_no_panic s HL).
    destruct (evaluate s (st_turn s) depth) as [normal|] eqn:Ee.
    + destruct (gen_legal s) as [|ms0 tl0] eqn:Eg; [exact Logic.I|]. rewrite <- Eg.
      destruct (forallb _ (gen_legal s)); [exact Logic.I|].
      destruct (beta <=? normal)%Z; [exact Logic.I|].
      apply q_loop_post; [intros ns d a b HLn; apply IH; exact HLn | exact HL | apply q_sorted_in].
    + cbn [q_post]. intros ET. exact (ET s (st_turn s) depth HL Ee).
Qed.

Theorem quiesce_no_panic : EvalTotal -> forall fuel s depth alpha beta site, LegalPos s ->
  quiesce fuel s depth alpha beta <> QPanic site.
Proof.
  intros ET fuel s depth alpha beta site HL E. pose proof (quiesce_post fuel s depth alpha beta HL) as H.
  rewrite E in H. exact (H ET).
Qed.

Theorem quiesce_no_fuel : CaptureMen -> forall s depth alpha beta, LegalPos s ->
  quiesce (S (men s)) s depth alpha beta <> QFuel.
Proof.
  intros HC s depth alpha beta HL E. pose proof (quiesce_post (S (men s)) s depth alpha beta HL) as H.
  rewrite E in H. pose proof (H HC). lia.
Qed.

(* ================================================================== *)
(* the structural fuel of analyze                                       *)
(* ================================================================== *)

Definition QuiesceFuelOk : Prop :=
  forall s depth alpha beta, LegalPos s -> quiesce (S (men s)) s depth alpha beta <> QFuel.

Section NoFuel.
Variable hs : hasher.
Variable history : list N.
Variable jit : N -> Z.
Variable cancel_at : option N.
Hypothesis QF : QuiesceFuelOk.

Lemma loop_no_fuel : forall k (rec : rec_t),
  (forall ns md cd ce a b w, LegalPos ns -> (N.to_nat (md - cd) < k)%nat -> rec ns md cd ce a b None w <> SFuel) ->
  forall s h md cd ce ext beta1 prev, LegalPos s -> (cd < md)%N -> (N.to_nat (md - cd) < S k)%nat ->
  forall l, (forall m, In m l -> In m (MoveGen.pseudo_legal s)) ->
  forall alpha best kind w, loop_body rec s h md cd ce ext beta1 prev l alpha best kind w <> SFuel.
Proof.
  intros k rec Hrec s h md cd ce ext beta1 prev HL Hlt Hf l.
  induction l as [|m tl IH]; intros Hl alpha best kind w; cbn [loop_body].
  - destruct (prev =? w_nodes w).
    + unfold eval_or_panic. destruct (evaluate s (st_turn s) cd); discriminate.
    + destruct best; discriminate.
  - assert (Htl : forall m', In m' tl -> In m' (MoveGen.pseudo_legal s)) by (intros m' Hm'; apply Hl; right; exact Hm').
    destruct (apply_move s m) as [ns|] eqn:Ha; [|discriminate].
    fold (king_hit s ns). destruct (king_hit s ns) eqn:Hk; [exact (IH Htl alpha best kind w)|].
    destruct (searched_move s m ns HL (Hl m (or_introl eq_refl)) Ha Hk) as (_ & HLn & _).
    assert (Hf' : (N.to_nat (md + ext - (cd + 1 + ext)) < k)%nat) by lia.
    pose proof (Hrec ns (md + ext) (cd + 1 + ext) (ce + ext) (- beta1)%Z (- alpha)%Z w HLn Hf') as Hc.
    destruct (rec ns (md + ext) (cd + 1 + ext) (ce + ext) (- beta1)%Z (- alpha)%Z None w) as [r w'|w'|site|];
      [|discriminate|discriminate|exact Hc].
    cbv zeta. destruct (beta1 <=? - r)%Z; [discriminate|].
    destruct (alpha <? - r)%Z; apply IH; exact Htl.
Qed.

Theorem analyze_no_fuel : forall fuel s maxd cur ext a b prio w,
  LegalPos s -> (forall pm, prio = Some pm -> In pm (MoveGen.legal_moves s)) ->
  (N.to_nat (maxd - cur) < fuel)%nat ->
  analyze hs history jit cancel_at fuel s maxd cur ext a b prio w <> SFuel.
Proof.
  induction fuel as [|k IH]; intros s maxd cur ext a b prio w HL Hprio Hf; [lia|].
  rewrite analyze_S. unfold node_body.
  destruct (snd (enter_node cancel_at w)); [discriminate|]. cbv zeta.
  destruct ((0 <? cur) && in_history history (hash hs s)); [discriminate|].
  unfold node_continue.
  destruct (probe _ _ _ _ _ _) as [v|a1 b1|site]; [discriminate| |discriminate].
  destruct (maxd <=? cur) eqn:Hmd.
  - pose proof (QF s cur a1 b1 HL) as Hq.
    destruct (quiesce (S (men s)) s cur a1 b1); [discriminate|discriminate|exact (fun _ => Hq eq_refl)].
  - apply N.leb_gt in Hmd. apply (loop_no_fuel k); [|exact HL|exact Hmd|exact Hf|].
    + intros ns md cd ce a' b' w' HLn Hf'. apply IH; [exact HLn| |exact Hf']. intros pm E. discriminate E.
    + intros m Hm. apply ordered_moves_in in Hm. destruct Hm as [Hm|Hm]; [exact Hm|].
      apply legal_in_pseudo. exact (Hprio m Hm).
Qed.
End NoFuel.

(* ================================================================== *)
(* no panic                                                             *)
(* ================================================================== *)

Definition TEntriesOk (tt : access) : Prop :=
  forall h e, acc_find tt h = Some e -> (e_depth e <= e_maxdepth e)%N.
Definition TSafe (tt : access) : Prop := tt_ok tt /\ TEntriesOk tt.

Lemma TSafe_insert : forall hs tt (s : state) m k c md e, TSafe tt -> LegalPos s -> In m (MoveGen.legal_moves s) ->
  (c < md)%N -> TSafe (acc_insert tt (hash hs s) (mkEntry k m c md e)).
Proof.
  intros hs tt s m k c md e [Hok He] _ _ Hlt. split; [apply tt_ok_insert; exact Hok|].
  intros h x Hfind. destruct (acc_find_insert_cases _ _ _ _ _ Hok Hfind) as [[_ ->]|[_ Hold]].
  - cbn [e_depth e_maxdepth]. lia.
  - exact (He h x Hold).
Qed.

Lemma TSafe_empty : forall nt nb, (0 < nt)%nat -> (0 < nb)%nat -> TSafe (empty_access nt nb).
Proof.
  intros nt nb Hnt Hnb. split; [apply tt_ok_empty; assumption|].
  intros h e H. pose proof (empty_refines nt nb Hnt Hnb h e H) as H1. discriminate H1.
Qed.

Lemma probe_no_panic : forall tt h maxd cur a b site, TEntriesOk tt -> (cur <= maxd)%N ->
  probe tt h maxd cur a b <> PPanic site.
Proof.
  intros tt h maxd cur a b site He Hle. unfold probe.
  destruct (acc_find tt h) as [e|] eqn:Ef; [|discriminate].
  pose proof (He h e Ef) as Hd.
  assert (H1 : (maxd <? cur) = false) by (apply N.ltb_ge; exact Hle). rewrite H1.
  assert (H2 : (e_maxdepth e <? e_depth e) = false) by (apply N.ltb_ge; exact Hd). rewrite H2.
  destruct (maxd - cur <=? e_maxdepth e - e_depth e); [|discriminate].
  destruct (e_kind e).
  - discriminate.
  - cbv zeta. destruct (Z.min b (e_eval e) <=? a)%Z; discriminate.
  - cbv zeta. destruct (b <=? Z.max a (e_eval e))%Z; discriminate.
Qed.

Section NoPanic.
Variable hs : hasher.
Variable history : list N.
Variable jit : N -> Z.
Variable cancel_at : option N.
Hypothesis ET : EvalTotal.

Definition inv_post (r : sres Z) : Prop :=
  match r with SVal _ w' => TSafe (w_tt w') | SInterrupt w' => TSafe (w_tt w') | _ => True end.

Lemma loop_no_panic : forall (rec : rec_t),
  (forall ns md cd ce a b w, TSafe (w_tt w) -> LegalPos ns -> inv_post (rec ns md cd ce a b None w)) ->
  (forall ns md cd ce a b w site, TSafe (w_tt w) -> LegalPos ns -> (cd <= md)%N ->
     rec ns md cd ce a b None w <> SPanic site) ->
  forall s h md cd ce ext beta1 prev site, LegalPos s -> (cd < md)%N ->
  forall l, (forall m, In m l -> In m (MoveGen.pseudo_legal s)) ->
  forall alpha best kind w, TSafe (w_tt w) ->
  loop_body rec s h md cd ce ext beta1 prev l alpha best kind w <> SPanic site.
Proof.
  intros rec Hinv Hnp s h md cd ce ext beta1 prev site HL Hlt l.
  induction l as [|m tl IH]; intros Hl alpha best kind w Hw; cbn [loop_body].
  - destruct (prev =? w_nodes w).
    + unfold eval_or_panic. pose proof (ET s (st_turn s) cd HL) as He.
      destruct (evaluate s (st_turn s) cd); [discriminate|exfalso; exact (He eq_refl)].
    + destruct best; discriminate.
  - assert (Htl : forall m', In m' tl -> In m' (MoveGen.pseudo_legal s)) by (intros m' Hm'; apply Hl; right; exact Hm').
    destruct (pseudo_apply_some s m HL (Hl m (or_introl eq_refl))) as [ns Ha]. rewrite Ha.
    fold (king_hit s ns). destruct (king_hit s ns) eqn:Hk; [exact (IH Htl alpha best kind w Hw)|].
    destruct (searched_move s m ns HL (Hl m (or_introl eq_refl)) Ha Hk) as (_ & HLn & _).
    assert (Hle : (cd + 1 + ext <= md + ext)%N) by lia.
    pose proof (Hnp ns (md + ext) (cd + 1 + ext) (ce + ext) (- beta1)%Z (- alpha)%Z w site Hw HLn Hle) as Hc.
    pose proof (Hinv ns (md + ext) (cd + 1 + ext) (ce + ext) (- beta1)%Z (- alpha)%Z w Hw HLn) as Hi.
    destruct (rec ns (md + ext) (cd + 1 + ext) (ce + ext) (- beta1)%Z (- alpha)%Z None w) as [r w'|w'|site'|];
      [|discriminate|exact Hc|discriminate].
    cbn [inv_post] in Hi. cbv zeta. destruct (beta1 <=? - r)%Z; [discriminate|].
    destruct (alpha <? - r)%Z; apply IH; assumption.
Qed.

Theorem analyze_no_panic : forall fuel s maxd cur ext a b prio w site,
  tt_ok (w_tt w) -> TEntriesOk (w_tt w) -> LegalPos s -> (cur <= maxd)%N ->
  (forall pm, prio = Some pm -> In pm (MoveGen.legal_moves s)) ->
  analyze hs history jit cancel_at fuel s maxd cur ext a b prio w <> SPanic site.
Proof.
  induction fuel as [|k IH]; intros s maxd cur ext a b prio w site Hok He HL Hle Hprio; [discriminate|].
  rewrite analyze_S. unfold node_body.
  destruct (snd (enter_node cancel_at w)); [discriminate|]. cbv zeta.
  destruct ((0 <? cur) && in_history history (hash hs s)); [discriminate|].
  unfold node_continue. cbn [with_trace w_tt]. rewrite enter_node_tt.
  pose proof (fun site0 => probe_no_panic (w_tt w) (hash hs s) maxd cur a b site0 He Hle) as Hp.
  destruct (probe (w_tt w) (hash hs s) maxd cur a b) as [v|a1 b1|site']; [discriminate| |exfalso; exact (Hp site' eq_refl)].
  destruct (maxd <=? cur) eqn:Hmd.
  - pose proof (fun site0 => quiesce_no_panic ET (S (men s)) s cur a1 b1 site0 HL) as Hq.
    destruct (quiesce (S (men s)) s cur a1 b1) as [v|site'|]; [discriminate|exfalso; exact (Hq site' eq_refl)|discriminate].
  - apply N.leb_gt in Hmd. apply loop_no_panic; [| |exact HL|exact Hmd| |exact (conj Hok He)].
    + intros ns md cd ce a' b' w' Hw' HLn.
      pose proof (analyze_invariant hs TSafe (TSafe_insert hs) history jit cancel_at k ns md cd ce a' b' None w'
                    Hw' HLn (fun pm E => match E with eq_refl => Logic.I end)) as H.
      destruct (analyze hs history jit cancel_at k ns md cd ce a' b' None w'); exact H.
    + intros ns md cd ce a' b' w' site' [Hok' He'] HLn Hle'. apply IH; try assumption.
      intros pm E. discriminate E.
    + intros m Hm. apply ordered_moves_in in Hm. destruct Hm as [Hm|Hm]; [exact Hm|].
      apply legal_in_pseudo. exact (Hprio m Hm).
Qed.
End NoPanic.

(* ================================================================== *)
(* the terminal root                                                    *)
(* ================================================================== *)

Lemma loop_all_hit : forall (rec : rec_t) s h md cd ce ext beta1 prev l alpha best kind w,
  (forall m, In m l -> exists ns, apply_move s m = Some ns /\ king_hit s ns = true) ->
  loop_body rec s h md cd ce ext beta1 prev l alpha best kind w =
  loop_body rec s h md cd ce ext beta1 prev [] alpha best kind w.
Proof.
  intros rec s h md cd ce ext beta1 prev l alpha best kind w. induction l as [|m tl IH]; intros H; [reflexivity|].
  destruct (H m (or_introl eq_refl)) as (ns & Ha & Hk).
  transitivity (loop_body rec s h md cd ce ext beta1 prev tl alpha best kind w).
  - cbn [loop_body]. rewrite Ha. fold (king_hit s ns). rewrite Hk. reflexivity.
  - apply IH. intros m' Hm'. apply H. right. exact Hm'.
Qed.

Lemma terminal_node : EvalTotal -> forall hs history jit cancel k s md ce a b w,
  LegalPos s -> gen_legal s = [] -> acc_find (w_tt w) (hash hs s) = None ->
  snd (enter_node cancel w) = false -> (0 < md)%N ->
  exists v, analyze hs history jit cancel (S k) s md 0 ce a b None w =
            SVal v (with_jidx (with_trace (fst (enter_node cancel w)) (hash hs s, 0, md, a, b)) (drawn_count s)).
Proof.
  intros ET hs history jit cancel k s md ce a b w HL Hg Hfind Hi Hmd.
  rewrite root_not_drawn by exact Hi. unfold node_continue. cbn [with_trace w_tt]. rewrite enter_node_tt.
  unfold probe. rewrite Hfind.
  assert (Hle : (md <=? 0) = false) by (apply N.leb_gt; exact Hmd). rewrite Hle.
  rewrite loop_all_hit.
  - cbn [loop_body with_jidx w_nodes]. rewrite N.eqb_refl. unfold eval_or_panic.
    pose proof (ET s (st_turn s) 0 HL) as He.
    destruct (evaluate s (st_turn s) 0) as [v|]; [|exfalso; exact (He eq_refl)].
    exists v. reflexivity.
  - intros m Hm. apply ordered_moves_in in Hm. destruct Hm as [Hm|Hm]; [|discriminate Hm].
    destruct (pseudo_apply_some s m HL Hm) as [ns Ha]. exists ns. split; [exact Ha|].
    exact (no_legal_all_hit s m ns Hg Hm Ha).
Qed.

Theorem terminal_root : EvalTotal -> forall hs jit_of cancel iters s history tt,
  LegalPos s -> gen_legal s = [] -> acc_find tt (hash hs s) = None ->
  let r := analyze_iterative hs jit_of cancel (S iters) s history tt in
  r_outcome r = 0 /\ r_events r = [EvProgress 1 1] /\ r_tt r = tt /\ r_gnodes r = 1.
Proof.
  intros ET hs jit_of cancel iters s history tt HL Hg Hfind. unfold analyze_iterative. cbv zeta.
  set (hist := if existsb (N.eqb (hash hs s)) history then history else hash hs s :: history).
  set (flag0 := match cancel with Some 0 => true | _ => false end).
  cbn [iterate]. rewrite N.ltb_irrefl. cbn [andb]. cbv zeta.
  assert (Hi : snd (enter_node cancel (mkW tt 0 0 0 flag0 [])) = false) by reflexivity.
  destruct (terminal_node ET hs hist (jit_of 0) cancel (S (N.to_nat 0)) s (0 + 1) 0
              (- mate_in_ply 0)%Z (mate_in_ply 0) (mkW tt 0 0 0 flag0 []) HL Hg Hfind Hi) as [v Hv]; [lia|].
  rewrite Hv. cbn [w_tt with_jidx with_trace]. rewrite enter_node_tt. cbn [w_tt iter_moves].
  rewrite N.ltb_irrefl, Hfind. cbn [r_outcome r_events r_tt r_gnodes rev app].
  repeat split.
Qed.

(* ================================================================== *)
(* stopping                                                             *)
(* ================================================================== *)

Theorem iteration_stop : forall hs jit_of cancel k depth s history tt gnodes trace nt be bm acc,
  (0 < depth)%N ->
  iterate hs jit_of cancel (S k) depth s history tt gnodes true trace nt be bm acc =
  mkRun (rev acc) tt history gnodes trace 1.
Proof.
  intros. cbn [iterate]. assert (E : (0 <? depth) = true) by (apply N.ltb_lt; assumption).
  rewrite E. reflexivity.
Qed.

Theorem enter_node_interrupts : forall cancel w,
  (w_flag w = true \/ exists c, cancel = Some c /\ (c <= w_gnodes w + 1)%N) ->
  ((w_nodes w + 1) mod poll_period = 0)%N ->
  snd (enter_node cancel w) = true /\ w_flag (fst (enter_node cancel w)) = true.
Proof.
  intros cancel w Hf Hm. unfold enter_node. cbn [snd fst w_flag]. rewrite Hm.
  assert (E : w_flag w || match cancel with Some c => c <=? w_gnodes w + 1 | None => false end = true).
  { destruct Hf as [Hf|(c & -> & Hc)]; [rewrite Hf; reflexivity|].
    apply N.leb_le in Hc. rewrite Hc. apply orb_true_r. }
  rewrite E. split; reflexivity.
Qed.

Lemma enter_node_flag_mono : forall cancel w, w_flag w = true -> w_flag (fst (enter_node cancel w)) = true.
Proof. intros cancel w H. unfold enter_node. cbn [fst w_flag]. rewrite H. reflexivity. Qed.

Definition next_poll (n : N) : N := (n / poll_period + 1) * poll_period.

Lemma next_poll_same : forall a b, a <= b -> b < next_poll a -> next_poll b = next_poll a.
Proof.
  intros a b H1 H2. unfold next_poll, poll_period in *.
  assert (E : b / 10000 = a / 10000) by lia. rewrite E. reflexivity.
Qed.

Definition stop_rel (w w' : wstate) : Prop :=
  (w_flag w = true -> w_flag w' = true) /\ w_nodes w <= w_nodes w' /\
  (w_flag w = true -> w_nodes w' < next_poll (w_nodes w)).

Lemma next_poll_gt : forall n, n < next_poll n.
Proof. intros n. unfold next_poll, poll_period. lia. Qed.

Lemma stop_rel_refl : forall w, stop_rel w w.
Proof. intros w. split; [auto|]. split; [lia|]. intros _. apply next_poll_gt. Qed.

Lemma stop_rel_trans : forall w1 w2 w3, stop_rel w1 w2 -> stop_rel w2 w3 -> stop_rel w1 w3.
Proof.
  intros w1 w2 w3 (A1 & A2 & A3) (B1 & B2 & B3). split; [auto|]. split; [lia|].
  intros Hf. pose proof (A3 Hf) as H3. pose proof (B3 (A1 Hf)) as H4.
  rewrite (next_poll_same _ _ A2 H3) in H4. exact H4.
Qed.

Lemma stop_rel_enter : forall cancel w, snd (enter_node cancel w) = false -> stop_rel w (fst (enter_node cancel w)).
Proof.
  intros cancel w Hi. unfold stop_rel, enter_node in *. cbn [fst snd w_flag w_nodes] in *.
  split; [intros ->; reflexivity|]. split; [clear; lia|].
  intros Hf. rewrite Hf in Hi. cbn [orb] in Hi. rewrite andb_true_r in Hi.
  apply N.eqb_neq in Hi. unfold next_poll, poll_period in *.
  lia.
Qed.

Theorem stop_bound : forall hs history jit cancel fuel s maxd cur ext a b prio w,
  w_flag w = true ->
  match analyze hs history jit cancel fuel s maxd cur ext a b prio w with
  | SVal _ w' => w_flag w' = true /\ w_nodes w <= w_nodes w' /\ w_nodes w' < next_poll (w_nodes w)
  | SInterrupt w' => w_flag w' = true /\ w_nodes w' = next_poll (w_nodes w)
  | _ => True
  end.
Proof.
  intros hs history jit cancel fuel s maxd cur ext a b prio w Hf.
  pose proof (analyze_closure hs history jit cancel (fun _ => True) (fun _ _ => True) (fun _ _ => True)
                (fun _ _ _ _ _ _ _ => conj Logic.I Logic.I) stop_rel stop_rel_refl stop_rel_trans
                (stop_rel_enter cancel) (fun w x => stop_rel_refl w) ) as Hc.
  specialize (Hc (fun w d => stop_rel_refl w)).
  specialize (Hc (fun w s m k c md e _ _ _ => stop_rel_refl w)).
  specialize (Hc fuel s maxd cur ext a b prio w Logic.I (fun _ _ => Logic.I)).
  destruct (analyze hs history jit cancel fuel s maxd cur ext a b prio w) as [v w'|w'| |];
    cbn [closure_post] in Hc; [| |exact Logic.I|exact Logic.I].
  - destruct Hc as (H1 & H2 & H3). auto.
  - destruct Hc as (w0 & (H1 & H2 & H3) & Hi & ->).
    split; [apply enter_node_flag_mono; exact (H1 Hf)|].
    pose proof (H3 Hf) as H4. unfold enter_node in *. cbn [fst snd w_nodes] in *.
    apply andb_true_iff in Hi. destruct Hi as [Hi _]. apply N.eqb_eq in Hi.
    unfold next_poll, poll_period in *.
    lia.
Qed.

(* SInterrupt is never converted into a value: the state carried by an interrupt outcome is exactly the
   state produced by the polling node entry that raised it (no table write, no counter change after it) *)
Theorem analyze_interrupt_propagates : forall hs history jit cancel fuel s maxd cur ext a b prio w w',
  analyze hs history jit cancel fuel s maxd cur ext a b prio w = SInterrupt w' ->
  exists w0, enter_node cancel w0 = (w', true) /\ w_nodes w <= w_nodes w0 /\ w_flag w' = true.
Proof.
  intros hs history jit cancel fuel s maxd cur ext a b prio w w' E.
  pose proof (analyze_closure hs history jit cancel (fun _ => True) (fun _ _ => True) (fun _ _ => True)
                (fun _ _ _ _ _ _ _ => conj Logic.I Logic.I) stop_rel stop_rel_refl stop_rel_trans
                (stop_rel_enter cancel) (fun w x => stop_rel_refl w) ) as Hc.
  specialize (Hc (fun w d => stop_rel_refl w)).
  specialize (Hc (fun w s m k c md e _ _ _ => stop_rel_refl w)).
  specialize (Hc fuel s maxd cur ext a b prio w Logic.I (fun _ _ => Logic.I)).
  rewrite E in Hc. cbn [closure_post] in Hc. destruct Hc as (w0 & (H1 & H2 & H3) & Hi & ->).
  exists w0. split; [|split; [exact H2|]].
  - rewrite <- Hi. destruct (enter_node cancel w0); reflexivity.
  - unfold enter_node in *. cbn [fst snd w_flag] in *. apply andb_true_iff in Hi. apply Hi.
Qed.

(* the step inside the loop: an interrupted child interrupts the parent, unchanged *)
Theorem loop_interrupt_propagates : forall (rec : rec_t) s h md cd ce ext beta1 prev m tl alpha best kind w ns w',
  apply_move s m = Some ns -> king_hit s ns = false ->
  rec ns (md + ext) (cd + 1 + ext) (ce + ext) (- beta1)%Z (- alpha)%Z None w = SInterrupt w' ->
  loop_body rec s h md cd ce ext beta1 prev (m :: tl) alpha best kind w = SInterrupt w'.
Proof.
  intros rec s h md cd ce ext beta1 prev m tl alpha best kind w ns w' Ha Hk Hr.
  cbn [loop_body]. rewrite Ha. fold (king_hit s ns). rewrite Hk, Hr. reflexivity.
Qed.
