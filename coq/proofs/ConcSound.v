(* C06 (soundness of mate scores) for SEVERAL workers on one shared table, under EVERY schedule.

   The one-worker proof (proofs/MateSound.v, Section Sound) carried the table invariant TOk P hs through the
   worker's own state.  Here the table is not in the worker's hands: the proof is the instance of the
   rely/guarantee predicate `sat` of proofs/ConcRG.v with

     R_snd P hs h e   what a find may return under key h : every position of the region with that hash is
                      described correctly by e (= TEntries, entry by entry);
     G_snd P hs h e   what a worker inserts under key h  : h is the hash of a position of the region that e
                      describes correctly;
     Q_snd s a b r    the worker's result: a winning (losing) terminal value inside the window is a real forced
                      mate (a real loss).

   G_snd implies R_snd through HashRuleOn (G_snd_R_snd: the argument of TOk_insert), TabR R_snd is TOk
   (TabR_TOk), every analyzeP satisfies sat R_snd G_snd Q_snd (analyzeP_sound: loop_sound / node_sound /
   analyze_sound of MateSound.v, step by step), hence by run_workers_sat every worker's result is sound and
   the table stays TOk under every interleaving, and the evaluation analyze_iterativeM reports (the max over
   the workers) is sound (iterativeM_sound; region forms soundM_iterative, soundM_iterative_reach).

   Residues: the same as in MateSound.v (a region P with HashRuleOn P hs and HeurNTOn P).  No NoUpper premise:
   this layer has no cancellation, so no root entry of unknown kind is ever reported. *)
From Coq Require Import NArith ZArith List Bool Lia ZifyBool ZifyN ZifyNat.
From WV Require Import Types Bits Attacks Board MoveEnc MoveGen Text Table Eval Search Conc.
From WV Require Import Rules Abs Wf Encode GameValue.
From WV Require Import BoardProofs GenLegal TableProofs HashProofs EvalProofs EvalBound SearchBase SearchProofs SearchSafety.
From WV Require Import MateSound ConcSeq ConcRG.
Import ListNotations.
Import WV.Bits.
Open Scope Z_scope.

(* ------------------------------------------------------------------ *)
(* the instance                                                         *)
(* ------------------------------------------------------------------ *)

Definition R_snd (P : state -> Prop) (hs : hasher) (h : N) (e : entry) : Prop :=
  forall s, P s -> hash hs s = h -> EntryOk e s.

Definition G_snd (P : state -> Prop) (hs : hasher) (h : N) (e : entry) : Prop :=
  exists s, P s /\ h = hash hs s /\ EntryOk e s.

Definition Q_snd (s : state) (a b : Z) (r : pres) : Prop :=
  match r with
  | WVal v _ => (POS_INF <= v -> a < v -> Won s) /\ (v <= NEG_INF -> v < b -> Lost s)
  | _ => True
  end.

(* the reported evaluation is one of the workers' evaluations (the max) *)
Lemma join_results_sound : forall s a b rs best nodes ev n,
  Forall (Q_snd s a b) rs ->
  (forall b0, best = Some b0 -> POS_INF <= b0 -> a < b0 -> Won s) ->
  join_results rs best nodes = (Some ev, n, 0%N) ->
  POS_INF <= ev -> a < ev -> Won s.
Proof.
  intros s a b rs. induction rs as [|r tl IH]; intros best nodes ev n Hall Hbest E; cbn [join_results] in E.
  - injection E as E1 _. exact (Hbest ev E1).
  - inversion Hall as [|r' tl' Hr Htl]; subst r' tl'.
    destruct r as [v l|site|].
    + refine (IH _ _ ev n Htl _ E). cbn [Q_snd] in Hr. destruct Hr as [HrW _].
      intros b0 E0. destruct best as [bb|].
      * injection E0 as <-. intros H1 H2. destruct (Z.max_spec bb v) as [[_ Em]|[_ Em]]; rewrite Em in H1, H2.
        -- exact (HrW H1 H2).
        -- exact (Hbest bb eq_refl H1 H2).
      * injection E0 as <-. exact HrW.
    + exfalso. injection E as _ _ E3. lia.
    + discriminate E.
Qed.

Lemma join_results_sound0 : forall s a b rs ev n,
  join_results rs None 0%N = (Some ev, n, 0%N) -> Forall (Q_snd s a b) rs ->
  POS_INF <= ev -> a < ev -> Won s.
Proof.
  intros s a b rs ev n E Hall. apply (join_results_sound s a b rs None 0%N ev n Hall); [|exact E].
  intros b0 E0. discriminate E0.
Qed.

Section SoundM.
Variable hs : hasher.
Variable P : state -> Prop.
Hypothesis HR : HashRuleOn P hs.
Hypothesis P_legal : forall s, P s -> LegalPos s.
Hypothesis P_step : forall s m ns, P s -> In (m, ns) (gen_legal s) -> P ns.
Hypothesis P_heur : HeurNTOn P.

(* ---- (1) the guarantee implies the rely; (2) TabR is TOk ---- *)

Lemma G_snd_R_snd : forall h e, G_snd P hs h e -> R_snd P hs h e.
Proof.
  intros h e (s & HP & -> & Hs) s' HP' Hh.
  pose proof (P_legal s HP) as HL. pose proof (P_legal s' HP') as HL'.
  assert (Ekey : rulekey s = rulekey s') by (apply HR; [exact HP|exact HP'|congruence]).
  destruct Hs as [[Hw Hl] Hm]. split; [split|].
  - intros H1 H2. exact (same_key_won s s' HL HL' Ekey (Hw H1 H2)).
  - intros H1 H2. exact (same_key_lost s s' HL HL' Ekey (Hl H1 H2)).
  - unfold MoveGen.legal_moves in Hm |- *.
    rewrite <- (same_key_same_moves s s' (GenPawnsNoDup.legal_pos_wf s HL) (GenPawnsNoDup.legal_pos_wf s' HL') Ekey).
    exact Hm.
Qed.

Lemma TabR_TOk : forall tt, TabR (R_snd P hs) tt <-> TOk P hs tt.
Proof.
  intros tt. unfold TabR, TOk, TEntries, R_snd. split; intros [H1 H2]; (split; [exact H1|]).
  - intros h e Hf s HP Hh. exact (H2 h e Hf s HP Hh).
  - intros h e Hf s HP Hh. exact (H2 h e Hf s HP Hh).
Qed.

(* ---- (3) the probe, as a function of what find answered ---- *)

Lemma probe_of_sound : forall r s md cd a b,
  (forall e, r = Some e -> R_snd P hs (hash hs s) e) -> P s -> a < b ->
  match probe_of r md cd a b with
  | PEarly v => (POS_INF <= v -> a < v -> Won s) /\ (v <= NEG_INF -> v < b -> Lost s)
  | PWindow a1 b1 => a <= a1 /\ a1 < b1 /\ b1 <= b /\ (POS_INF <= a1 -> a < a1 -> Won s) /\
                     (b1 <= NEG_INF -> b1 < b -> Lost s)
  | PPanic _ => True
  end.
Proof.
  intros r s md cd a b Hr HP Hab. unfold probe_of.
  assert (Hwin : a = a -> a <= a /\ a < b /\ b <= b /\ (POS_INF <= a -> a < a -> Won s) /\ (b <= NEG_INF -> b < b -> Lost s)).
  { intros _. split; [lia|]. split; [exact Hab|]. split; [lia|]. split; intros _ Hc; lia. }
  destruct r as [e|]; [|exact (Hwin eq_refl)].
  destruct (md <? cd)%N; [exact Logic.I|]. destruct (e_maxdepth e <? e_depth e)%N; [exact Logic.I|].
  destruct (md - cd <=? e_maxdepth e - e_depth e)%N; [|exact (Hwin eq_refl)].
  destruct (Hr e eq_refl s HP eq_refl) as [[Hw Hl] _].
  destruct (e_kind e) eqn:Ek.
  - split; [intros H _; apply Hw; [exact H|left; reflexivity] | intros H _; apply Hl; [exact H|left; reflexivity]].
  - cbv zeta. destruct (Z.min b (e_eval e) <=? a) eqn:Hc.
    + split; [intros H1 H2; lia | intros H _; apply Hl; [exact H|right; reflexivity]].
    + split; [lia|]. split; [lia|]. split; [lia|]. split; [intros _ H2; lia|].
      intros H1 H2. apply Hl; [lia|right; reflexivity].
  - cbv zeta. destruct (b <=? Z.max a (e_eval e)) eqn:Hc.
    + split; [intros H _; apply Hw; [exact H|right; reflexivity] | intros H1 H2; lia].
    + split; [lia|]. split; [lia|]. split; [lia|]. split; [|intros _ H2; lia].
      intros H1 H2. apply Hw; [lia|right; reflexivity].
Qed.

(* ---- (4) the move loop, a node, analyzeP ---- *)

Notation SAT := (sat (R_snd P hs) (G_snd P hs)).

Definition recP_ok (recP : recP_t) : Prop :=
  forall ns md cd ce a b st, P ns -> a < b -> SAT (Q_snd ns a b) (recP ns md cd ce a b None st).

(* a = the node's alpha, b = the node's beta; alpha / b1 = the running window *)
Lemma loopP_sound : forall (recP : recP_t), recP_ok recP ->
  forall s md cd ce ext a b b1 prev, P s -> b1 <= b -> (b1 <= NEG_INF -> b1 < b -> Lost s) ->
  forall l, (forall m, In m l -> In m (MoveGen.pseudo_legal s)) ->
  forall alpha best kind st,
    a <= alpha -> alpha < b1 ->
    (POS_INF <= alpha -> a < alpha -> Won s) ->
    (forall bm, best = Some bm -> kind = Exact /\ a < alpha /\ In bm (MoveGen.legal_moves s)) ->
    (prev = l_nodes st \/ gen_legal s <> []) ->
    (forall m ns, In (m, ns) (gen_legal s) -> In m l \/ (alpha <= NEG_INF -> Won ns)) ->
    SAT (Q_snd s a b) (loop_bodyP recP s (hash hs s) md cd ce ext b1 prev l alpha best kind st).
Proof.
  intros recP Hrec s md cd ce ext a b b1 prev HP Hb1 HK l. pose proof (P_legal s HP) as HL. infs.
  induction l as [|m tl IH]; intros Hl alpha best kind st Hge Hab HJ Hbest Hprev Hcov; cbn [loop_bodyP].
  - destruct (prev =? l_nodes st)%N eqn:Hpn.
    + destruct (evaluate s (st_turn s) cd) as [v|] eqn:Ee; [|apply sat_ret; exact Logic.I].
      apply sat_ret. cbn [Q_snd]. destruct (eval_sound P P_legal P_step P_heur s cd v HP Ee) as (Hlt & Hlost & _).
      split; [intros Hp _; lia|intros Hn _; exact (Hlost Hn)].
    + assert (Hne : gen_legal s <> []).
      { destruct Hprev as [E|E]; [|exact E]. apply N.eqb_neq in Hpn. contradiction. }
      assert (HLs : alpha <= NEG_INF -> Lost s).
      { intros Hn. apply (lost_of_children_won s HL Hne). intros m ns Hin.
        destruct (Hcov m ns Hin) as [[]|Hw]. exact (Hw Hn). }
      destruct best as [bm|].
      * destruct (Hbest bm eq_refl) as (-> & Haa & Hbm).
        apply sat_ins.
        -- exists s. split; [exact HP|]. split; [reflexivity|]. split; [|exact Hbm].
           split; cbn [e_eval e_kind]; [intros H1 _; exact (HJ H1 Haa) | intros H1 _; exact (HLs H1)].
        -- apply sat_ret. cbn [Q_snd]. split; [exact HJ|intros Hn _; exact (HLs Hn)].
      * apply sat_ret. cbn [Q_snd]. split; [exact HJ|intros Hn _; exact (HLs Hn)].
  - assert (Htl : forall m', In m' tl -> In m' (MoveGen.pseudo_legal s)) by (intros m' Hm'; apply Hl; right; exact Hm').
    destruct (apply_move s m) as [ns|] eqn:Ha; [|apply sat_ret; exact Logic.I].
    fold (king_hit s ns). destruct (king_hit s ns) eqn:Hk.
    + apply IH; try assumption.
      intros m' ns' Hin. destruct (Hcov m' ns' Hin) as [[<-|Hm']|Hw]; [|left; exact Hm'|right; exact Hw].
      exfalso. destruct (gen_legal_not_hit s m ns' Hin) as (_ & Ha' & Hk'). rewrite Ha in Ha'. injection Ha' as <-.
      rewrite Hk in Hk'. discriminate Hk'.
    + destruct (searched_move s m ns HL (Hl m (or_introl eq_refl)) Ha Hk) as (Hg & _ & Hml).
      pose proof (P_step s m ns HP Hg) as HPn.
      assert (Hwin : - b1 < - alpha) by lia.
      apply (sat_bind _ _ _ _ (Q_snd ns (- b1) (- alpha)));
        [exact (Hrec ns (md + ext)%N (cd + 1 + ext)%N (ce + ext)%N (- b1) (- alpha) st HPn Hwin)|].
      intros r Hc. destruct r as [r st'|site|]; [|apply sat_ret; exact Logic.I|apply sat_ret; exact Logic.I].
      cbn [Q_snd] in Hc. destruct Hc as (HcW & HcL).
      assert (Hne : gen_legal s <> []) by (intros E; rewrite E in Hg; destruct Hg).
      assert (Hsame : forall ns', In (m, ns') (gen_legal s) -> ns' = ns).
      { intros ns' Hin. destruct (gen_legal_not_hit s m ns' Hin) as (_ & Ha' & _). rewrite Ha in Ha'.
        injection Ha' as <-. reflexivity. }
      cbv zeta. destruct (b1 <=? - r) eqn:Hcut.
      * assert (HW : POS_INF <= b1 -> Won s).
        { intros Hp. apply (won_of_child_lost s m ns HL Hg). apply HcL; lia. }
        apply sat_ins.
        -- exists s. split; [exact HP|]. split; [reflexivity|]. split; [|exact Hml].
           split; cbn [e_eval e_kind]; [intros H1 _; exact (HW H1) | intros _ [H2|H2]; discriminate H2].
        -- apply sat_ret. cbn [Q_snd]. split; [intros H1 _; exact (HW H1)|exact HK].
      * destruct (alpha <? - r) eqn:Hr.
        -- apply IH; [exact Htl|lia|lia| | | |].
           ++ intros Hp _. apply (won_of_child_lost s m ns HL Hg). apply HcL; lia.
           ++ intros bm E. injection E as <-. split; [reflexivity|]. split; [lia|exact Hml].
           ++ right. exact Hne.
           ++ intros m' ns' Hin. destruct (Hcov m' ns' Hin) as [[<-|Hm']|Hw]; [|left; exact Hm'|].
              ** right. intros Hn. rewrite (Hsame ns' Hin). apply HcW; lia.
              ** right. intros Hn. apply Hw. lia.
        -- apply IH; [exact Htl|exact Hge|exact Hab|exact HJ|exact Hbest| |].
           ++ right. exact Hne.
           ++ intros m' ns' Hin. destruct (Hcov m' ns' Hin) as [[<-|Hm']|Hw]; [|left; exact Hm'|right; exact Hw].
              right. intros Hn. rewrite (Hsame ns' Hin). apply HcW; lia.
Qed.

Lemma nodeP_sound : forall history jit (recP : recP_t), recP_ok recP ->
  forall s md cd ce a b prio st, P s -> a < b ->
  (forall pm, prio = Some pm -> In pm (MoveGen.legal_moves s)) ->
  SAT (Q_snd s a b) (node_bodyP hs history jit recP s md cd ce a b prio st).
Proof.
  intros history jit recP Hrec s md cd ce a b prio st HP Hab Hprio.
  pose proof (P_legal s HP) as HL. infs. unfold node_bodyP. cbv zeta.
  destruct ((0 <? cd)%N && in_history history (hash hs s)).
  - apply sat_ret. cbn [Q_snd]. unfold EVEN. split; intros; lia.
  - apply sat_find. intros r Hr.
    pose proof (probe_of_sound r s md cd a b Hr HP Hab) as Hp.
    destruct (probe_of r md cd a b) as [v|a1 b1|site]; [| |apply sat_ret; exact Logic.I].
    + apply sat_ret. cbn [Q_snd]. exact Hp.
    + destruct Hp as (Hge & Hlt & Hle & HJ & HK).
      destruct (md <=? cd)%N.
      * destruct (quiesce (S (men s)) s cd a1 b1) as [v|site|] eqn:Eq; [|apply sat_ret; exact Logic.I|apply sat_ret; exact Logic.I].
        apply sat_ret. cbn [Q_snd].
        destruct (quiesce_sound P P_legal P_step P_heur _ _ _ _ _ _ HP Hlt Eq) as [Q1 Q2].
        split.
        -- intros Hp Hav. destruct (Z_lt_le_dec a1 v) as [Hc|Hc]; [exact (Q1 Hp Hc)|]. apply HJ; lia.
        -- intros Hn Hvb. destruct (Z_lt_le_dec v b1) as [Hc|Hc]; [exact (Q2 Hn Hc)|]. apply HK; lia.
      * apply (loopP_sound recP Hrec s md cd ce _ a b b1 _ HP Hle HK).
        -- intros m Hm.
           assert (Hin : In m (ordered_moves jit s (l_jidx st) prio)) by exact Hm.
           apply ordered_moves_in in Hin. destruct Hin as [Hin|Hin]; [exact Hin|].
           apply legal_in_pseudo. exact (Hprio m Hin).
        -- exact Hge.
        -- exact Hlt.
        -- exact HJ.
        -- intros bm E. discriminate E.
        -- left. reflexivity.
        -- intros m ns Hin. left.
           change (In m (ordered_moves jit s (l_jidx st) prio)). apply ordered_moves_complete.
           exact (proj1 (gen_legal_not_hit s m ns Hin)).
Qed.

Theorem analyzeP_sound : forall history jit fuel s md cd ce a b prio st,
  P s -> a < b -> (forall pm, prio = Some pm -> In pm (MoveGen.legal_moves s)) ->
  sat (R_snd P hs) (G_snd P hs) (Q_snd s a b) (analyzeP hs history jit fuel s md cd ce a b prio st).
Proof.
  intros history jit. induction fuel as [|k IH]; intros s md cd ce a b prio st HP Hab Hprio; cbn [analyzeP].
  - apply sat_ret. exact Logic.I.
  - apply nodeP_sound; try assumption.
    intros ns md' cd' ce' a' b' st' HPn Hab'. apply IH; try assumption. intros pm E. discriminate E.
Qed.

(* ---- (5) the iterative driver with n workers ---- *)

Lemma root_window : - mate_in_ply 0 < mate_in_ply 0.
Proof. infs. destruct (mate_scores 0%N) as (H1 & _). lia. Qed.

Lemma workers_sound : forall jit_of depth s history bm (l : list nat), P s ->
  (forall m, bm = Some m -> In m (MoveGen.legal_moves s)) ->
  Forall (sat (R_snd P hs) (G_snd P hs) (Q_snd s (- mate_in_ply 0) (mate_in_ply 0)))
         (map (worker_prog hs jit_of depth s history bm) l).
Proof.
  intros jit_of depth s history bm l HP Hbm. apply Forall_forall. intros p Hp.
  apply in_map_iff in Hp. destruct Hp as (i & <- & _). unfold worker_prog.
  apply analyzeP_sound; [exact HP|exact root_window|].
  destruct i as [|i']; [exact Hbm|intros pm E; discriminate E].
Qed.

Lemma iterateM_sound : forall jit_of workers iters depth s history tt sched nt bm acc,
  P s -> TOk P hs tt -> (forall m, bm = Some m -> In m (MoveGen.legal_moves s)) -> EvSound s acc ->
  let r := iterateM hs jit_of workers iters depth s history tt sched nt bm acc in
  EvSound s (m_events r) /\ TOk P hs (m_tt r).
Proof.
  intros jit_of workers iters. induction iters as [|k IH];
    intros depth s history tt sched nt bm acc HP HT Hbm Hacc; cbn [iterateM].
  - cbn [m_events m_tt]. split; [|exact HT]. intros ev line Hin. apply in_rev in Hin. exact (Hacc ev line Hin).
  - assert (Hrev : forall l, EvSound s l -> EvSound s (rev l)).
    { intros l H ev line Hin. apply in_rev in Hin. exact (H ev line Hin). }
    cbv zeta. infs.
    pose proof (run_workers_sat (R_snd P hs) (G_snd P hs) (Q_snd s (- mate_in_ply 0) (mate_in_ply 0)) G_snd_R_snd sched
                  (map (worker_prog hs jit_of depth s history bm) (seq 0 workers)) tt
                  (workers_sound jit_of depth s history bm (seq 0 workers) HP Hbm)
                  (proj2 (TabR_TOk tt) HT)) as Hrw.
    destruct (run_workers sched (map (worker_prog hs jit_of depth s history bm) (seq 0 workers)) tt) as [[rs tt1] sched1].
    destruct Hrw as (Hrs & HT1 & _). apply TabR_TOk in HT1.
    destruct (join_results rs None 0) as [[best n] oc] eqn:Ej.
    destruct oc as [|poc]; [|destruct best; cbn [m_events m_tt]; (split; [apply Hrev; exact Hacc|exact HT])].
    destruct best as [ev|]; [|cbn [m_events m_tt]; split; [apply Hrev; exact Hacc|exact HT1]].
    assert (Hev : POS_INF <= ev -> Won s).
    { intros Hp. apply (join_results_sound0 s (- mate_in_ply 0) (mate_in_ply 0) rs ev n Ej Hrs Hp).
      assert (E : mate_in_ply 0 = 11000) by reflexivity. lia. }
    destruct (iter_moves hs (S (S (N.to_nat depth))) tt1 s 0 depth) as [|mv tl] eqn:El.
    + cbn [m_events m_tt]. split; [|exact HT1]. apply Hrev.
      intros ev' line [E|Hin]; [discriminate E|exact (Hacc ev' line Hin)].
    + assert (Hacc2 : EvSound s (EvBest ev (mv :: tl) :: EvProgress (depth + 1)%N (nt + n)%N :: acc)).
      { intros ev' line [E|[E|Hin]]; [|discriminate E|exact (Hacc ev' line Hin)].
        injection E as <- _. exact Hev. }
      destruct (POS_INF <=? ev); [cbn [m_events m_tt]; split; [apply Hrev; exact Hacc2|exact HT1]|].
      apply IH; [exact HP|exact HT1| |exact Hacc2].
      intros m E. injection E as <-. exact (iter_moves_head hs P _ _ _ _ _ _ _ HT1 HP El).
Qed.

Theorem iterativeM_sound : forall jit_of workers iters s history tt sched,
  P s -> TOk P hs tt ->
  let r := analyze_iterativeM hs jit_of workers iters s history tt sched in
  (forall ev line, In (EvBest ev line) (m_events r) -> POS_INF <= ev -> Won s) /\ TOk P hs (m_tt r).
Proof.
  intros jit_of workers iters s history tt sched HP HT. unfold analyze_iterativeM.
  apply iterateM_sound; [exact HP|exact HT|intros m E; discriminate E|intros ev line []].
Qed.

End SoundM.

(* ------------------------------------------------------------------ *)
(* final forms                                                          *)
(* ------------------------------------------------------------------ *)

(* one worker program, region form: whatever the table answers within the rely, what it inserts is within the
   guarantee and what it returns is sound.  (HashRuleOn is not used by this one: a single program never needs
   "no collision", only the step from the guarantee to the rely, G_snd_R_snd, does; the premise is kept for the
   uniform shape of the region forms.) *)
Theorem soundM_call : forall hs P, HashRuleOn P hs -> Region P -> HeurNTOn P ->
  forall history jit fuel s md cd ce a b prio st,
  P s -> a < b -> (forall pm, prio = Some pm -> In pm (MoveGen.legal_moves s)) ->
  sat (R_snd P hs) (G_snd P hs) (Q_snd s a b) (analyzeP hs history jit fuel s md cd ce a b prio st).
Proof.
  intros hs P HR [HPl HPs] HPh history jit fuel s md cd ce a b prio st HP Hab Hprio.
  exact (analyzeP_sound hs P HPl HPs HPh history jit fuel s md cd ce a b prio st HP Hab Hprio).
Qed.

(* any number of such workers on one table, any schedule *)
Theorem soundM_workers : forall hs P, HashRuleOn P hs -> Region P -> HeurNTOn P ->
  forall jit_of depth s history bm workers sched tt,
  P s -> TOk P hs tt -> (forall m, bm = Some m -> In m (MoveGen.legal_moves s)) ->
  let '(rs, tt', _) := run_workers sched (map (worker_prog hs jit_of depth s history bm) (seq 0 workers)) tt in
  Forall (Q_snd s (- mate_in_ply 0) (mate_in_ply 0)) rs /\ TOk P hs tt' /\ length rs = workers.
Proof.
  intros hs P HR [HPl HPs] HPh jit_of depth s history bm workers sched tt HP HT Hbm.
  pose proof (run_workers_sat (R_snd P hs) (G_snd P hs) (Q_snd s (- mate_in_ply 0) (mate_in_ply 0))
                (G_snd_R_snd hs P HR HPl) sched
                (map (worker_prog hs jit_of depth s history bm) (seq 0 workers)) tt
                (workers_sound hs P HPl HPs HPh jit_of depth s history bm (seq 0 workers) HP Hbm)
                (proj2 (TabR_TOk hs P tt) HT)) as Hrw.
  destruct (run_workers sched (map (worker_prog hs jit_of depth s history bm) (seq 0 workers)) tt) as [[rs tt1] sched1].
  destruct Hrw as (H1 & H2 & H3). split; [exact H1|]. split; [apply TabR_TOk; exact H2|].
  rewrite H3, map_length, seq_length. reflexivity.
Qed.

Theorem soundM_iterative : forall hs P, HashRuleOn P hs -> Region P -> HeurNTOn P ->
  forall jit_of workers iters s history tt sched, P s -> TOk P hs tt ->
  let r := analyze_iterativeM hs jit_of workers iters s history tt sched in
  (forall ev line, In (EvBest ev line) (m_events r) -> POS_INF <= ev -> Won s) /\ TOk P hs (m_tt r).
Proof.
  intros hs P HR [HPl HPs] HPh jit_of workers iters s history tt sched HP HT.
  exact (iterativeM_sound hs P HR HPl HPs HPh jit_of workers iters s history tt sched HP HT).
Qed.

(* instance: the positions reachable from the root *)
Theorem soundM_iterative_reach : forall hs s, LegalPos s -> HashRuleOn (Reach s) hs -> HeurNTOn (Reach s) ->
  forall jit_of workers iters history tt sched, TOk (Reach s) hs tt ->
  let r := analyze_iterativeM hs jit_of workers iters s history tt sched in
  (forall ev line, In (EvBest ev line) (m_events r) -> POS_INF <= ev -> exists n, Win n (abs s)) /\
  TOk (Reach s) hs (m_tt r).
Proof.
  intros hs s HL HR HH jit_of workers iters history tt sched HT.
  destruct (soundM_iterative hs (Reach s) HR (Reach_region s HL) HH jit_of workers iters s history tt sched
              (Reach_root s) HT) as (H1 & H2).
  split; [|exact H2]. intros ev line Hin Hp. apply Won_iff_Win. exact (H1 ev line Hin Hp).
Qed.

Print Assumptions soundM_call.
Print Assumptions soundM_workers.
Print Assumptions soundM_iterative_reach.
Print Assumptions soundM_iterative.
