(* The finite core of C09 for rooks: all 64 squares x all 2^bits blocker subsets (102 400 cases). *)
From WV Require Import Bits Attacks AttacksProofs.
Open Scope N_scope.

Lemma rook_core : slider_core rook_table rook_slide_mask rook_magics rook_bits rook_dirs = true.
Proof. vm_cast_no_check (eq_refl true). Qed.
