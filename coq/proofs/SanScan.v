(* C12, part 1: the SAN scanner inverts the writer (pure text processing, no chess).

   REUSABLE STATEMENTS
     san_text k uf ur cap t pr ck   the text  [piece letter] [file hint] [rank hint] [x] dest [=]P check
     san_query k uf ur cap t pr     the query with exactly these fields
     san_scan        san_parse (san_text ...) = Some (san_query ...)   (all 6*9*9*2*64*9*3 field records,
                     by exhaustive evaluation of the scanner, lifted with forallb_forall)
     san_castle_k / san_castle_q    "O-O" / "O-O-O" followed by anything
     lan_text_parse  uci_move_query on the coordinate text of two squares and a promotion letter *)
From WV Require Import Types Bits Attacks Board MoveEnc MoveGen Text Notation Rules SanSpec.
From Coq Require Import Lia ZifyBool ZifyN ZifyNat.
Import WV.Bits.
Ltac Zify.zify_post_hook ::= Z.div_mod_to_equations.
Open Scope N_scope.
Arguments N.add : simpl never.
Arguments N.sub : simpl never.
Arguments N.mul : simpl never.
Arguments N.div : simpl never.
Arguments N.modulo : simpl never.

(* ------------------------------------------------------------------ the field record and its text *)

Definition hint_file_text (uf : option N) : text := match uf with Some f => [97 + f] | None => [] end.
Definition hint_rank_text (ur : option N) : text := match ur with Some r => [49 + r] | None => [] end.
Definition cap_text (cap : bool) : text := if cap then [120] else [].
(* promotion: kind and whether '=' is written *)
Definition promo_text (pr : option (piece * bool)) : text :=
  match pr with Some (p, eq) => (if eq then [61] else []) ++ [promo_letter p] | None => [] end.

Definition san_text (k : piece) (uf ur : option N) (cap : bool) (t : N) (pr : option (piece * bool))
           (ck : text) : text :=
  kind_letter k ++ hint_file_text uf ++ hint_rank_text ur ++ cap_text cap ++ sq_text t ++ promo_text pr ++ ck.

Definition san_query (k : piece) (uf ur : option N) (cap : bool) (t : N) (pr : option (piece * bool)) : mquery :=
  mkQuery (Some k) ur uf (Some (t / 8)) (Some (t mod 8)) (option_map fst pr) None
          (if cap then Some true else None).

(* ------------------------------------------------------------------ boolean equality of queries *)

Definition optN_eqb (a b : option N) : bool :=
  match a, b with Some x, Some y => x =? y | None, None => true | _, _ => false end.
Definition optP_eqb (a b : option piece) : bool :=
  match a, b with Some x, Some y => piece_eqb x y | None, None => true | _, _ => false end.
Definition optB_eqb (a b : option bool) : bool :=
  match a, b with Some x, Some y => Bool.eqb x y | None, None => true | _, _ => false end.

Definition mquery_eqb (a b : mquery) : bool :=
  optP_eqb (q_piece a) (q_piece b) && optN_eqb (q_orank a) (q_orank b) && optN_eqb (q_ofile a) (q_ofile b)
  && optN_eqb (q_drank a) (q_drank b) && optN_eqb (q_dfile a) (q_dfile b)
  && optP_eqb (q_promotion a) (q_promotion b) && optB_eqb (q_castle a) (q_castle b)
  && optB_eqb (q_capture a) (q_capture b).

Lemma piece_eqb_true : forall a b, piece_eqb a b = true -> a = b.
Proof. intros [| | | | | |] [| | | | | |] H; try reflexivity; discriminate H. Qed.

Lemma optN_eqb_eq : forall a b, optN_eqb a b = true -> a = b.
Proof. intros [x|] [y|] H; cbn in H; try discriminate H; [apply N.eqb_eq in H; subst; reflexivity | reflexivity]. Qed.
Lemma optP_eqb_eq : forall a b, optP_eqb a b = true -> a = b.
Proof.
  intros [x|] [y|] H; cbn [optP_eqb] in H; try discriminate H; [|reflexivity].
  apply piece_eqb_true in H. subst. reflexivity.
Qed.
Lemma optB_eqb_eq : forall a b, optB_eqb a b = true -> a = b.
Proof. intros [[|]|] [[|]|] H; cbn in H; try discriminate H; reflexivity. Qed.

Lemma mquery_eqb_eq : forall a b, mquery_eqb a b = true -> a = b.
Proof.
  intros [a1 a2 a3 a4 a5 a6 a7 a8] [b1 b2 b3 b4 b5 b6 b7 b8] H. unfold mquery_eqb in H.
  cbn [q_piece q_orank q_ofile q_drank q_dfile q_promotion q_castle q_capture] in H.
  rewrite !andb_true_iff in H. destruct H as [[[[[[[H1 H2] H3] H4] H5] H6] H7] H8].
  apply optP_eqb_eq in H1, H6. apply optN_eqb_eq in H2, H3, H4, H5. apply optB_eqb_eq in H7, H8.
  subst. reflexivity.
Qed.

(* ------------------------------------------------------------------ the finite domains *)

Definition dom_kind : list piece := [Pawn; Knight; Bishop; Rook; Queen; King].
Definition dom_idx8 : list N := [0; 1; 2; 3; 4; 5; 6; 7].
Definition dom_opt8 : list (option N) := None :: map Some dom_idx8.
Definition dom_sq : list N := map N.of_nat (seq 0 64).
Definition dom_promo : list (option (piece * bool)) :=
  None :: flat_map (fun p => [Some (p, true); Some (p, false)]) [Queen; Rook; Bishop; Knight].
Definition dom_check : list text := [[]; [43]; [35]].

Definition scan_ok (k : piece) (uf ur : option N) (cap : bool) (t : N) (pr : option (piece * bool))
           (ck : text) : bool :=
  match san_parse (san_text k uf ur cap t pr ck) with
  | Some q => mquery_eqb q (san_query k uf ur cap t pr)
  | None => false
  end.

Lemma scan_all_true :
  forallb (fun k => forallb (fun uf => forallb (fun ur => forallb (fun cap => forallb (fun t =>
  forallb (fun pr => forallb (fun ck => scan_ok k uf ur cap t pr ck) dom_check) dom_promo) dom_sq)
  [true; false]) dom_opt8) dom_opt8) dom_kind = true.
Proof. vm_compute. reflexivity. Qed.

Lemma forallb_In : forall (A : Type) (f : A -> bool) (l : list A) (x : A),
  forallb f l = true -> In x l -> f x = true.
Proof. intros A f l x H. exact (proj1 (forallb_forall f l) H x). Qed.

Lemma dom_kind_In : forall k, k <> PNone -> In k dom_kind.
Proof. intros [| | | | | |] H; cbn; try tauto. Qed.

Lemma dom_idx8_In : forall x, x < 8 -> In x dom_idx8.
Proof.
  intros x H. unfold dom_idx8. cbn [In].
  assert (x = 0 \/ x = 1 \/ x = 2 \/ x = 3 \/ x = 4 \/ x = 5 \/ x = 6 \/ x = 7) as H' by lia.
  intuition.
Qed.

Definition opt_lt8 (o : option N) : Prop := match o with Some x => x < 8 | None => True end.

Lemma dom_opt8_In : forall o, opt_lt8 o -> In o dom_opt8.
Proof.
  intros [x|] H; [|left; reflexivity]. right. apply in_map. apply dom_idx8_In. exact H.
Qed.

Lemma dom_sq_In : forall t, t < 64 -> In t dom_sq.
Proof.
  intros t H. unfold dom_sq. apply in_map_iff. exists (N.to_nat t). split; [lia|].
  apply in_seq. lia.
Qed.

Definition promo_field_ok (pr : option (piece * bool)) : Prop :=
  match pr with Some (p, _) => is_promo_kind p = true | None => True end.

Lemma dom_promo_In : forall pr, promo_field_ok pr -> In pr dom_promo.
Proof.
  intros [[p e]|] H; [|left; reflexivity]. cbn [promo_field_ok] in H.
  destruct p; try discriminate H; destruct e; cbn; tauto.
Qed.

Lemma dom_bool_In : forall b : bool, In b [true; false].
Proof. intros [|]; cbn; tauto. Qed.

(* THE SCANNER LEMMA *)
Theorem san_scan : forall k uf ur cap t pr ck,
  k <> PNone -> opt_lt8 uf -> opt_lt8 ur -> t < 64 -> promo_field_ok pr -> In ck dom_check ->
  san_parse (san_text k uf ur cap t pr ck) = Some (san_query k uf ur cap t pr).
Proof.
  intros k uf ur cap t pr ck Hk Hf Hr Ht Hp Hc.
  pose proof (forallb_In _ _ _ k scan_all_true (dom_kind_In k Hk)) as H1. cbv beta in H1.
  pose proof (forallb_In _ _ _ uf H1 (dom_opt8_In uf Hf)) as H2. cbv beta in H2.
  pose proof (forallb_In _ _ _ ur H2 (dom_opt8_In ur Hr)) as H3. cbv beta in H3.
  pose proof (forallb_In _ _ _ cap H3 (dom_bool_In cap)) as H4. cbv beta in H4.
  pose proof (forallb_In _ _ _ t H4 (dom_sq_In t Ht)) as H5. cbv beta in H5.
  pose proof (forallb_In _ _ _ pr H5 (dom_promo_In pr Hp)) as H6. cbv beta in H6.
  pose proof (forallb_In _ _ _ ck H6 Hc) as H. cbv beta in H.
  unfold scan_ok in H. destruct (san_parse (san_text k uf ur cap t pr ck)) as [q|]; [|discriminate H].
  apply mquery_eqb_eq in H. rewrite H. reflexivity.
Qed.

(* castling: recognised by prefix before anything else *)
Theorem san_castle_q : forall c, san_parse ([79; 45; 79; 45; 79] ++ c) = Some (q_castling false).
Proof. intros c. reflexivity. Qed.

Theorem san_castle_k : forall c, starts_with [45; 79] c = false ->
  san_parse ([79; 45; 79] ++ c) = Some (q_castling true).
Proof.
  intros c H. unfold san_parse.
  change (starts_with [ch_O; ch_dash; ch_O; ch_dash; ch_O] ([79; 45; 79] ++ c)) with (starts_with [45; 79] c).
  rewrite H. reflexivity.
Qed.

Lemma check_no_dash : forall ck, In ck dom_check -> starts_with [45; 79] ck = false.
Proof. intros ck [<-|[<-|[<-|[]]]]; reflexivity. Qed.

(* examples, pure text *)
Example san_ex1 : san_parse [78; 98; 120; 100; 55; 43] (* Nbxd7+ *) =
  Some (mkQuery (Some Knight) None (Some 1) (Some 6) (Some 3) None None (Some true)).
Proof. vm_compute. reflexivity. Qed.
Example san_ex2 : san_parse [101; 120; 100; 56; 61; 81; 35] (* exd8=Q# *) =
  Some (mkQuery (Some Pawn) None (Some 4) (Some 7) (Some 3) (Some Queen) None (Some true)).
Proof. vm_compute. reflexivity. Qed.
Example san_ex3 : san_parse [101; 56; 81] (* e8Q *) =
  Some (mkQuery (Some Pawn) None None (Some 7) (Some 4) (Some Queen) None None).
Proof. vm_compute. reflexivity. Qed.
Example san_ex4 : san_parse [79; 45; 79; 45; 79; 43] (* O-O-O+ *) = Some (q_castling false).
Proof. vm_compute. reflexivity. Qed.
Example san_ex5 : san_parse [82; 49; 97; 51] (* R1a3 *) =
  Some (mkQuery (Some Rook) (Some 0) None (Some 2) (Some 0) None None None).
Proof. vm_compute. reflexivity. Qed.
Example san_ex6 : san_parse [79; 45; 79; 35] (* O-O# *) = Some (q_castling true).
Proof. vm_compute. reflexivity. Qed.

(* ------------------------------------------------------------------ coordinate text (LAN / UCI token) *)

Definition lower_promo_text (pr : option piece) : text :=
  match pr with
  | Some Queen => [113] | Some Rook => [114] | Some Bishop => [98] | Some Knight => [110]
  | _ => []
  end.

Definition opt_promo_ok (pr : option piece) : Prop :=
  match pr with Some p => is_promo_kind p = true | None => True end.

Definition coord_q (o d : N) (pr : option piece) : mquery :=
  mkQuery None (Some (rank_of o)) (Some (file_of o)) (Some (rank_of d)) (Some (file_of d)) pr None None.

Definition lan_ok (o d : N) (pr : option piece) : bool :=
  match uci_move_query (sq_text o ++ sq_text d ++ lower_promo_text pr) with
  | Ok q => mquery_eqb q (coord_q o d pr)
  | _ => false
  end.

Definition dom_opromo : list (option piece) := [None; Some Queen; Some Rook; Some Bishop; Some Knight].

Lemma lan_all_true :
  forallb (fun o => forallb (fun d => forallb (fun pr => lan_ok o d pr) dom_opromo) dom_sq) dom_sq = true.
Proof. vm_compute. reflexivity. Qed.

Lemma dom_opromo_In : forall pr, opt_promo_ok pr -> In pr dom_opromo.
Proof. intros [p|] H; [|left; reflexivity]. cbn in H. destruct p; try discriminate H; cbn; tauto. Qed.

Theorem lan_text_parse : forall o d pr, o < 64 -> d < 64 -> opt_promo_ok pr ->
  uci_move_query (sq_text o ++ sq_text d ++ lower_promo_text pr) = Ok (coord_q o d pr).
Proof.
  intros o d pr Ho Hd Hp.
  pose proof (forallb_In _ _ _ o lan_all_true (dom_sq_In o Ho)) as H1. cbv beta in H1.
  pose proof (forallb_In _ _ _ d H1 (dom_sq_In d Hd)) as H2. cbv beta in H2.
  pose proof (forallb_In _ _ _ pr H2 (dom_opromo_In pr Hp)) as H. cbv beta in H.
  unfold lan_ok in H.
  destruct (uci_move_query (sq_text o ++ sq_text d ++ lower_promo_text pr)) as [q| |]; try discriminate H.
  apply mquery_eqb_eq in H. rewrite H. reflexivity.
Qed.

(* the model's square writer is the spec's on board squares *)
Lemma square_text_sq_text : forall x, x < 64 -> square_text x = sq_text x.
Proof.
  intros x H. unfold square_text, sq_text, file_char, rank_char, file_ch, rank_ch, file_of, rank_of, ch_a, ch_1.
  assert (H1 : (x mod 8 <=? 7) = true) by lia. assert (H2 : (x / 8 <=? 7) = true) by lia.
  rewrite H1, H2. reflexivity.
Qed.

Lemma lower_promo_letter : forall pr, opt_promo_ok pr ->
  match pr with Some p => [to_lower (piece_letter p)] | None => [] end = lower_promo_text pr.
Proof. intros [p|] H; [|reflexivity]. cbn in H. destruct p; try discriminate H; reflexivity. Qed.

Print Assumptions san_scan.
Print Assumptions lan_text_parse.
