(* C17, last clause ("... and does not choose the repeating move") for SEVERAL workers on one shared table, under
   EVERY schedule: what can be claimed, and what cannot.

   The one-worker proof (proofs/HistoryChoice.v) shows
     (a) the table invariant RInv: every entry (m, v) found under the root hash with POS_INF <= v has a move m that
         does not lead into a recorded position (Q / Qs), and
     (b) for the ROOT call: whenever it returns ev >= POS_INF, the entry found afterwards under the root hash is
         the one that carries this result (rpost: nobody but the root call writes under the root hash, and the
         value returned is the value of the root call's last write, or of the old entry it used),
   hence "EvBest ev (mv :: _) reported with POS_INF <= ev -> mv does not lead into a recorded position".

   This file ports (a) to the n-worker layer (model/Conc.v) as the instance of the rely/guarantee predicate `sat`
   of proofs/ConcRG.v with

     R_hist h e := h = hash hs s0 -> POS_INF <= e_eval e -> Qs (e_move e)      (what a find may return under h)
     G_hist h e := the same                                                     (what a worker inserts under h)

   (both speak about the KEY only, so two different positions with the root's hash need no special care).
     * a node below the root whose hash is recorded returns EVEN at once, without any table operation
       (history_drawP); the root hash is recorded, so a node below the root that stores at all stores under a key
       different from the root hash: its inserts satisfy G_hist vacuously (analyzeP_hist_below);
     * the root node's two inserts store (m, v) where POS_INF <= v implies that the child after m returned a value
       <= -POS_INF, which is not EVEN = 0: the child's hash is not recorded (rootP_loop, analyzeP_hist);
     * TabR R_hist is "tt_ok and RInv" (TabR_RInv), so by run_workers_sat the invariant holds at every moment of
       every interleaving of any number of workers (workers_hist) and through the whole run of
       analyze_iterativeM (iterativeM_hist).
   The rely is not even used: the guarantee only concerns what a worker computes itself.  No LegalPos premise.

   WHY (b) DOES NOT PORT, i.e. why the unconditional one-worker statement ("ev >= POS_INF reported -> the first
   move does not lead into a recorded position") is not claimed here.  analyze_iterativeM reports EvBest ev line
   where
     * ev   is the MAX over the workers' evaluations (join_results), and
     * line is read from the SHARED table AFTER the join (iter_moves on the table the workers left behind); its
       first move is the move of the entry found under the root hash (iter_moves_root1).
   All workers of an iteration search the same root and all of them write under the root hash; the entry found
   there after the join is the LAST write among them, and whose it is depends on the schedule.  Worker i searches
   to depth - (i mod 2) + 1, so worker 0 may return ev >= POS_INF (this is what is reported) while the surviving
   root entry is the last write of a worker that searched one ply less and returned a value below POS_INF: the
   move of that entry is only that worker's best guess, and nothing prevents it from leading into a recorded
   position (its child then simply scored EVEN = 0, which may well be the best of a non-winning search).  The
   scenario "evaluation of worker 0, line of worker 1" is exhibited in the model by Example
   fm_kr2_line_of_other_worker of proofs/ConcFirstMove.v (reported EvBest 10700 [268484612] while the root entry
   is (Exact, 268484612, 0/2, 600)).  The one-worker lemma rpost ("after a result >= POS_INF the entry under the
   root hash carries it") is FALSE in this layer.

   What remains true under every schedule is exactly the condition of item 3 (workers_hist, iterativeM_hist_last):
   IF the root entry found in the table the line is read from carries an evaluation >= POS_INF, THEN the first move
   of the line does not lead into a recorded position.  *)
From Coq Require Import NArith ZArith List Bool Lia ZifyBool ZifyN ZifyNat.
From WV Require Import Types Bits Attacks Board MoveEnc MoveGen Text Table Eval Search Conc.
From WV Require Import Rules Abs Wf Encode GameValue.
From WV Require Import BoardProofs GenLegal TableProofs HashProofs EvalProofs EvalBound SearchBase SearchProofs SearchSafety.
From WV Require Import ConcSeq ConcRG HistoryChoice.
Import ListNotations.
Import WV.Bits.
Open Scope Z_scope.

(* ------------------------------------------------------------------ *)
(* 1. a recorded position below the root: EVEN, no table operation      *)
(* ------------------------------------------------------------------ *)

Theorem history_drawP : forall hs history jit fuel s md cd ce a b prio st,
  (0 < cd)%N -> in_history history (hash hs s) = true ->
  analyzeP hs history jit (S fuel) s md cd ce a b prio st = Ret (WVal EVEN (mkL (l_jidx st) (l_nodes st + 1))).
Proof.
  intros hs history jit fuel s md cd ce a b prio st Hcd Hh. cbn [analyzeP]. unfold node_bodyP. cbv zeta.
  apply N.ltb_lt in Hcd. rewrite Hcd, Hh. reflexivity.
Qed.

(* ------------------------------------------------------------------ *)
(* 2. the instance                                                      *)
(* ------------------------------------------------------------------ *)

(* Qs hs history s0 m : the root move m does not lead into a recorded position       (HistoryChoice.v)
   Q  hs history s0 e : POS_INF <= e_eval e -> Qs hs history s0 (e_move e)           (HistoryChoice.v) *)
Definition R_hist (hs : hasher) (history : list N) (s0 : state) (h : N) (e : entry) : Prop :=
  h = hash hs s0 -> POS_INF <= e_eval e -> Qs hs history s0 (e_move e).

Definition G_hist := R_hist.

Lemma G_hist_R_hist : forall hs history s0 h e, G_hist hs history s0 h e -> R_hist hs history s0 h e.
Proof. intros hs history s0 h e H. exact H. Qed.

(* TabR R_hist is the one-worker invariant: a well-formed table with RInv *)
Lemma TabR_RInv : forall hs history s0 tt,
  TabR (R_hist hs history s0) tt <-> tt_ok tt /\ RInv hs history s0 tt.
Proof.
  intros hs history s0 tt. unfold TabR, RInv, R_hist, Q. split; intros [H1 H2]; (split; [exact H1|]).
  - intros e Hf. exact (H2 _ e Hf eq_refl).
  - intros h e Hf ->. exact (H2 e Hf).
Qed.

Lemma TabR_hist_empty : forall hs history s0 nt nb, (0 < nt)%nat -> (0 < nb)%nat ->
  TabR (R_hist hs history s0) (empty_access nt nb).
Proof.
  intros hs history s0 nt nb Hnt Hnb. split; [exact (tt_ok_empty nt nb Hnt Hnb)|].
  intros h e H. pose proof (empty_refines nt nb Hnt Hnb _ e H) as H1. discriminate H1.
Qed.

(* the line read out of the table starts with the move of the entry under the root hash *)
Lemma iter_moves_root1 : forall hs fuel tt s idx maxd mv tl,
  iter_moves hs fuel tt s idx maxd = mv :: tl -> exists e, acc_find tt (hash hs s) = Some e /\ e_move e = mv.
Proof.
  intros hs [|k] tt s idx maxd mv tl E; cbn [iter_moves] in E; [discriminate E|].
  destruct (maxd <? idx)%N; [discriminate E|].
  destruct (acc_find tt (hash hs s)) as [e|] eqn:Ef; [|discriminate E].
  destruct (apply_move s (e_move e)); [|discriminate E]. injection E as <- _.
  exists e. split; reflexivity.
Qed.

Section HistM.
Variable hs : hasher.
Variable history : list N.          (* the history the iterations run with: it contains the root hash *)
Variable s0 : state.                (* the root *)
Hypothesis root_in : in_history history (hash hs s0) = true.

Notation SATH := (sat (R_hist hs history s0) (G_hist hs history s0)).

(* a call below the root: a recorded position returns EVEN *)
Definition Qk (s : state) (r : pres) : Prop :=
  match r with
  | WVal v _ => in_history history (hash hs s) = true -> v = EVEN
  | _ => True
  end.

Definition recP_hist (recP : recP_t) : Prop :=
  forall ns md cd ce a b st, (0 < cd)%N -> SATH (Qk ns) (recP ns md cd ce a b None st).

(* a key different from the root hash: the guarantee is vacuous *)
Lemma G_hist_other : forall h e, h <> hash hs s0 -> G_hist hs history s0 h e.
Proof. intros h e Hne E. exfalso. exact (Hne E). Qed.

(* ---- the move loop of a node that stores under another key ---- *)
Lemma loopP_keep : forall (recP : recP_t), recP_hist recP ->
  forall s h md cd ce ext beta1 prev, h <> hash hs s0 ->
  forall l alpha best kind st,
  SATH (fun _ => True) (loop_bodyP recP s h md cd ce ext beta1 prev l alpha best kind st).
Proof.
  intros recP Hrec s h md cd ce ext beta1 prev Hne l.
  induction l as [|m tl IH]; intros alpha best kind st; cbn [loop_bodyP].
  - destruct (prev =? l_nodes st)%N.
    + destruct (evaluate s (st_turn s) cd); apply sat_ret; exact Logic.I.
    + destruct best as [bm|]; [|apply sat_ret; exact Logic.I].
      apply sat_ins; [apply G_hist_other; exact Hne|apply sat_ret; exact Logic.I].
  - destruct (apply_move s m) as [ns|]; [|apply sat_ret; exact Logic.I].
    destruct (any _); [apply IH|].
    apply (sat_bind _ _ _ _ (Qk ns));
      [exact (Hrec ns (md + ext)%N (cd + 1 + ext)%N (ce + ext)%N (- beta1) (- alpha) st ltac:(lia))|].
    intros r _. destruct r as [r st'|site|]; [|apply sat_ret; exact Logic.I|apply sat_ret; exact Logic.I].
    cbv zeta. destruct (beta1 <=? - r).
    + apply sat_ins; [apply G_hist_other; exact Hne|apply sat_ret; exact Logic.I].
    + destruct (alpha <? - r); apply IH.
Qed.

(* ---- a node below the root ---- *)
Lemma nodeP_keep : forall jit (recP : recP_t), recP_hist recP ->
  forall s md cd ce a b prio st, (0 < cd)%N ->
  SATH (Qk s) (node_bodyP hs history jit recP s md cd ce a b prio st).
Proof.
  intros jit recP Hrec s md cd ce a b prio st Hcd. unfold node_bodyP. cbv zeta.
  apply N.ltb_lt in Hcd. rewrite Hcd. cbn [andb].
  destruct (in_history history (hash hs s)) eqn:Hh.
  - apply sat_ret. cbn [Qk]. intros _. reflexivity.
  - pose proof (not_recorded_ne hs history s0 root_in _ Hh) as Hne.
    assert (Hany : forall r, Qk s r).
    { intros [v l|site|]; cbn [Qk]; [|exact Logic.I|exact Logic.I]. intros E. rewrite Hh in E. discriminate E. }
    apply sat_find. intros r _.
    destruct (probe_of r md cd a b) as [v|a1 b1|site]; [apply sat_ret; apply Hany| |apply sat_ret; apply Hany].
    destruct (md <=? cd)%N.
    + destruct (quiesce (S (men s)) s cd a1 b1); apply sat_ret; apply Hany.
    + apply (sat_mono _ (R_hist hs history s0) _ (G_hist hs history s0) _ (fun _ => True));
        [intros h e H; exact H|intros h e H; exact H|intros r0 _; apply Hany|].
      apply (loopP_keep recP Hrec s (hash hs s) md cd ce _ b1 _ Hne).
Qed.

Theorem analyzeP_hist_below : forall jit fuel s md cd ce a b prio st, (0 < cd)%N ->
  SATH (Qk s) (analyzeP hs history jit fuel s md cd ce a b prio st).
Proof.
  intros jit. induction fuel as [|k IH]; intros s md cd ce a b prio st Hcd; cbn [analyzeP].
  - apply sat_ret. exact Logic.I.
  - apply nodeP_keep; [|exact Hcd]. intros ns md' cd' ce' a' b' st' Hcd'. apply IH. exact Hcd'.
Qed.

(* ---- the root's move loop: what it stores under the root hash ---- *)
Lemma rootP_loop : forall (recP : recP_t), recP_hist recP ->
  forall md cd ce ext beta1 prev l alpha best kind st,
  (forall bm, best = Some bm -> POS_INF <= alpha -> Qs hs history s0 bm) ->
  SATH (fun _ => True) (loop_bodyP recP s0 (hash hs s0) md cd ce ext beta1 prev l alpha best kind st).
Proof.
  intros recP Hrec md cd ce ext beta1 prev l.
  assert (HP : POS_INF = 10000) by reflexivity.
  induction l as [|m tl IH]; intros alpha best kind st Hbest; cbn [loop_bodyP].
  - destruct (prev =? l_nodes st)%N.
    + destruct (evaluate s0 (st_turn s0) cd); apply sat_ret; exact Logic.I.
    + destruct best as [bm|]; [|apply sat_ret; exact Logic.I].
      apply sat_ins; [|apply sat_ret; exact Logic.I].
      intros _. cbn [e_eval e_move]. exact (Hbest bm eq_refl).
  - destruct (apply_move s0 m) as [ns|] eqn:Ha; [|apply sat_ret; exact Logic.I].
    destruct (any _); [apply IH; exact Hbest|].
    apply (sat_bind _ _ _ _ (Qk ns));
      [exact (Hrec ns (md + ext)%N (cd + 1 + ext)%N (ce + ext)%N (- beta1) (- alpha) st ltac:(lia))|].
    intros r Hc. destruct r as [r st'|site|]; [|apply sat_ret; exact Logic.I|apply sat_ret; exact Logic.I].
    cbn [Qk] in Hc.
    (* a value e = -r that is a winning terminal value: m does not lead into a recorded position *)
    assert (Hm : POS_INF <= - r -> Qs hs history s0 m).
    { intros Hr ns' Ha'. rewrite Ha in Ha'. injection Ha' as <-.
      destruct (in_history history (hash hs ns)) eqn:Hh; [|reflexivity].
      pose proof (Hc eq_refl) as E. unfold EVEN in E. lia. }
    cbv zeta. destruct (beta1 <=? - r) eqn:Hcut.
    + apply Z.leb_le in Hcut. apply sat_ins; [|apply sat_ret; exact Logic.I].
      intros _. cbn [e_eval e_move]. intros Hb. apply Hm. lia.
    + destruct (alpha <? - r).
      * apply IH. intros bm E. injection E as <-. exact Hm.
      * apply IH. exact Hbest.
Qed.

(* ---- the root node ---- *)
Lemma rootP_node : forall jit (recP : recP_t), recP_hist recP ->
  forall md ce a b prio st,
  SATH (fun _ => True) (node_bodyP hs history jit recP s0 md 0 ce a b prio st).
Proof.
  intros jit recP Hrec md ce a b prio st. unfold node_bodyP. cbv zeta.
  rewrite N.ltb_irrefl. cbn [andb].
  apply sat_find. intros r _.
  destruct (probe_of r md 0 a b) as [v|a1 b1|site]; [apply sat_ret; exact Logic.I| |apply sat_ret; exact Logic.I].
  destruct (md <=? 0)%N.
  - destruct (quiesce (S (men s0)) s0 0 a1 b1); apply sat_ret; exact Logic.I.
  - apply (rootP_loop recP Hrec). intros bm E. discriminate E.
Qed.

(* the ROOT call (cur_depth = 0 on the root position) *)
Theorem analyzeP_hist : forall jit fuel md ce a b prio st,
  SATH (fun _ => True) (analyzeP hs history jit fuel s0 md 0%N ce a b prio st).
Proof.
  intros jit fuel md ce a b prio st. destruct fuel as [|k]; cbn [analyzeP]; [apply sat_ret; exact Logic.I|].
  apply rootP_node. intros ns md' cd' ce' a' b' st' Hcd'. apply analyzeP_hist_below. exact Hcd'.
Qed.

(* any call below the root, postcondition dropped *)
Corollary analyzeP_hist_below_true : forall jit fuel s md cd ce a b prio st, (0 < cd)%N ->
  SATH (fun _ => True) (analyzeP hs history jit fuel s md cd ce a b prio st).
Proof.
  intros jit fuel s md cd ce a b prio st Hcd.
  apply (sat_mono _ (R_hist hs history s0) _ (G_hist hs history s0) _ (Qk s));
    [intros h e H; exact H|intros h e H; exact H|intros r _; exact Logic.I|].
  apply analyzeP_hist_below. exact Hcd.
Qed.

(* ------------------------------------------------------------------ *)
(* 3. the workers of one iteration, every schedule                      *)
(* ------------------------------------------------------------------ *)

Lemma workers_sat_hist : forall jit_of depth bm (l : list nat),
  Forall (SATH (fun _ => True)) (map (worker_prog hs jit_of depth s0 history bm) l).
Proof.
  intros jit_of depth bm l. apply Forall_forall. intros p Hp.
  apply in_map_iff in Hp. destruct Hp as (i & <- & _). unfold worker_prog. apply analyzeP_hist.
Qed.

(* the line read out of a table with the invariant: its first move is the move of the root entry, and if that
   entry carries a winning terminal evaluation the move does not lead into a recorded position *)
Lemma line_head_hist : forall tt, TabR (R_hist hs history s0) tt ->
  forall fuel idx maxd mv tl e, iter_moves hs fuel tt s0 idx maxd = mv :: tl ->
  acc_find tt (hash hs s0) = Some e -> POS_INF <= e_eval e -> Qs hs history s0 mv.
Proof.
  intros tt [_ Hen] fuel idx maxd mv tl e El Ef Hp.
  destruct (iter_moves_root1 hs fuel tt s0 idx maxd mv tl El) as (e' & Ef' & <-).
  rewrite Ef in Ef'. injection Ef' as <-.
  exact (Hen _ e Ef eq_refl Hp).
Qed.

Theorem workers_hist : forall jit_of depth bm workers sched tt,
  TabR (R_hist hs history s0) tt ->
  let '(rs, tt', _) := run_workers sched (map (worker_prog hs jit_of depth s0 history bm) (seq 0 workers)) tt in
  TabR (R_hist hs history s0) tt' /\
  (forall fuel mv tl e, iter_moves hs fuel tt' s0 0 depth = mv :: tl ->
     acc_find tt' (hash hs s0) = Some e -> POS_INF <= e_eval e -> Qs hs history s0 mv).
Proof.
  intros jit_of depth bm workers sched tt HT.
  pose proof (run_workers_sat (R_hist hs history s0) (G_hist hs history s0) (fun _ : pres => True)
                (G_hist_R_hist hs history s0) sched
                (map (worker_prog hs jit_of depth s0 history bm) (seq 0 workers)) tt
                (workers_sat_hist jit_of depth bm (seq 0 workers)) HT) as Hrw.
  destruct (run_workers sched (map (worker_prog hs jit_of depth s0 history bm) (seq 0 workers)) tt) as [[rs tt1] sched1].
  destruct Hrw as (_ & HT1 & _). split; [exact HT1|].
  intros fuel mv tl e El Ef Hp. exact (line_head_hist tt1 HT1 fuel 0%N depth mv tl e El Ef Hp).
Qed.

(* ------------------------------------------------------------------ *)
(* 4. the iterative driver with n workers                               *)
(* ------------------------------------------------------------------ *)

(* every reported line was read from a table with the invariant and starts with the move of the entry found there
   under the root hash *)
Definition EvHist (l : list event) : Prop :=
  forall ev mv tl, In (EvBest ev (mv :: tl)) l ->
    exists depth tt1 e, TabR (R_hist hs history s0) tt1 /\
      iter_moves hs (S (S (N.to_nat depth))) tt1 s0 0 depth = mv :: tl /\
      acc_find tt1 (hash hs s0) = Some e /\ e_move e = mv /\
      (POS_INF <= e_eval e -> Qs hs history s0 mv).

(* the newest event, if it is a report, was read from the table tt *)
Definition LastOk (acc : list event) (tt : access) : Prop :=
  match acc with
  | EvBest _ (mv :: _) :: _ => exists e, acc_find tt (hash hs s0) = Some e /\ e_move e = mv
  | _ => True
  end.

Lemma run_workers_nil : forall A sched tt, exists rest, @run_workers A sched [] tt = ([], tt, rest).
Proof.
  intros A sched tt. unfold run_workers. destruct sched as [|c rest]; cbn [run_sched unfinished filter length finish_all].
  - exists []. reflexivity.
  - exists (c :: rest). reflexivity.
Qed.

Lemma iterateM_hist : forall jit_of workers iters depth tt sched nt bm acc,
  TabR (R_hist hs history s0) tt -> EvHist acc -> LastOk acc tt ->
  let r := iterateM hs jit_of workers iters depth s0 history tt sched nt bm acc in
  TabR (R_hist hs history s0) (m_tt r) /\ EvHist (m_events r) /\
  exists acc', m_events r = rev acc' /\ LastOk acc' (m_tt r).
Proof.
  intros jit_of workers iters. induction iters as [|k IH];
    intros depth tt sched nt bm acc HT Hhd Hlast; cbn [iterateM].
  - cbn [m_events m_tt]. split; [exact HT|]. split.
    + intros ev mv tl Hin. apply in_rev in Hin. exact (Hhd ev mv tl Hin).
    + exists acc. split; [reflexivity|exact Hlast].
  - assert (Hrevh : forall l, EvHist l -> EvHist (rev l)).
    { intros l H ev mv tl Hin. apply in_rev in Hin. exact (H ev mv tl Hin). }
    cbv zeta.
    pose proof (workers_hist jit_of depth bm workers sched tt HT) as Hrw.
    assert (Hnil : workers = O ->
              fst (fst (run_workers sched (map (worker_prog hs jit_of depth s0 history bm) (seq 0 workers)) tt)) = [] /\
              snd (fst (run_workers sched (map (worker_prog hs jit_of depth s0 history bm) (seq 0 workers)) tt)) = tt).
    { intros ->. cbn [seq map]. destruct (run_workers_nil pres sched tt) as (rest & ->). split; reflexivity. }
    assert (Hlen : length (fst (fst (run_workers sched (map (worker_prog hs jit_of depth s0 history bm) (seq 0 workers)) tt)))
                   = workers).
    { pose proof (run_workers_sat (R_hist hs history s0) (G_hist hs history s0) (fun _ : pres => True)
                    (G_hist_R_hist hs history s0) sched
                    (map (worker_prog hs jit_of depth s0 history bm) (seq 0 workers)) tt
                    (workers_sat_hist jit_of depth bm (seq 0 workers)) HT) as H.
      destruct (run_workers sched (map (worker_prog hs jit_of depth s0 history bm) (seq 0 workers)) tt) as [[rs0 tt0] sc0].
      destruct H as (_ & _ & H). cbn [fst]. rewrite H, map_length, seq_length. reflexivity. }
    destruct (run_workers sched (map (worker_prog hs jit_of depth s0 history bm) (seq 0 workers)) tt) as [[rs tt1] sched1].
    cbn [fst snd] in Hnil, Hlen.
    destruct Hrw as (HT1 & Hline).
    destruct (join_results rs None 0) as [[best n] oc] eqn:Ej.
    destruct oc as [|poc];
      [|destruct best; cbn [m_events m_tt];
        (split; [exact HT|split; [apply Hrevh; exact Hhd|exists acc; split; [reflexivity|exact Hlast]]])].
    destruct best as [ev|].
    2:{ (* no result and no failure: there was no worker, the table is unchanged *)
        cbn [m_events m_tt]. split; [exact HT1|]. split; [apply Hrevh; exact Hhd|].
        exists acc. split; [reflexivity|].
        destruct rs as [|r0 rs'].
        - destruct workers as [|w]; [|discriminate Hlen]. destruct (Hnil eq_refl) as [_ ->]. exact Hlast.
        - exfalso. clear - Ej. destruct r0 as [v l|site|]; cbn [join_results] in Ej.
          + assert (H : forall rs b nn, fst (fst (join_results rs (Some b) nn)) <> None).
            { clear. induction rs as [|[v l|site|] tl IHr]; intros b nn; cbn [join_results fst]; try discriminate.
              apply IHr. }
            apply (H rs' v (0 + l_nodes l)%N). rewrite Ej. reflexivity.
          + injection Ej as _ E. lia.
          + injection Ej as _ E. discriminate E. }
    destruct (iter_moves hs (S (S (N.to_nat depth))) tt1 s0 0 depth) as [|mv tl] eqn:El.
    + cbn [m_events m_tt]. split; [exact HT1|]. split.
      * apply Hrevh. intros ev' mv' tl' [E|Hin]; [discriminate E|exact (Hhd ev' mv' tl' Hin)].
      * exists (EvProgress (depth + 1)%N (nt + n)%N :: acc). split; [reflexivity|exact Logic.I].
    + destruct (iter_moves_root1 hs _ _ _ _ _ _ _ El) as (e & Ef & Em).
      assert (Hhd2 : EvHist (EvBest ev (mv :: tl) :: EvProgress (depth + 1)%N (nt + n)%N :: acc)).
      { intros ev' mv' tl' [E|[E|Hin]]; [|discriminate E|exact (Hhd ev' mv' tl' Hin)].
        injection E as _ <- <-.
        exists depth, tt1, e. split; [exact HT1|]. split; [exact El|]. split; [exact Ef|]. split; [exact Em|].
        intros Hp. exact (Hline _ mv tl e El Ef Hp). }
      assert (Hlast2 : LastOk (EvBest ev (mv :: tl) :: EvProgress (depth + 1)%N (nt + n)%N :: acc) tt1).
      { cbn [LastOk]. exists e. split; [exact Ef|exact Em]. }
      destruct (POS_INF <=? ev).
      * cbn [m_events m_tt]. split; [exact HT1|]. split; [apply Hrevh; exact Hhd2|].
        exists (EvBest ev (mv :: tl) :: EvProgress (depth + 1)%N (nt + n)%N :: acc). split; [reflexivity|exact Hlast2].
      * apply IH; [exact HT1|exact Hhd2|exact Hlast2].
Qed.

End HistM.

Lemma root_history_in : forall hs s history, in_history (root_history hs s history) (hash hs s) = true.
Proof.
  intros hs s history. unfold root_history, in_history.
  destruct (existsb (N.eqb (hash hs s)) history) eqn:E; [exact E|].
  cbn [existsb]. rewrite N.eqb_refl. reflexivity.
Qed.

(* ------------------------------------------------------------------ *)
(* final forms                                                          *)
(* ------------------------------------------------------------------ *)

(* item 2: one call - the root call, or any call below the root - with the recorded root hash *)
Theorem histM_call_root : forall hs history s0, in_history history (hash hs s0) = true ->
  forall jit fuel md ce a b prio st,
  sat (R_hist hs history s0) (G_hist hs history s0) (fun _ => True)
      (analyzeP hs history jit fuel s0 md 0%N ce a b prio st).
Proof. intros hs history s0 Hin. exact (analyzeP_hist hs history s0 Hin). Qed.

Theorem histM_call_below : forall hs history s0, in_history history (hash hs s0) = true ->
  forall jit fuel s md cd ce a b prio st, (0 < cd)%N ->
  sat (R_hist hs history s0) (G_hist hs history s0) (fun _ => True)
      (analyzeP hs history jit fuel s md cd ce a b prio st).
Proof. intros hs history s0 Hin. exact (analyzeP_hist_below_true hs history s0 Hin). Qed.

(* item 3: any number of workers on one table, any schedule; the condition under which the first move of the line
   read afterwards does not lead into a recorded position *)
Theorem histM_workers : forall hs history s0, in_history history (hash hs s0) = true ->
  forall jit_of depth bm workers sched tt,
  TabR (R_hist hs history s0) tt ->
  let '(rs, tt', _) := run_workers sched (map (worker_prog hs jit_of depth s0 history bm) (seq 0 workers)) tt in
  TabR (R_hist hs history s0) tt' /\
  (forall fuel mv tl e, iter_moves hs fuel tt' s0 0 depth = mv :: tl ->
     acc_find tt' (hash hs s0) = Some e -> POS_INF <= e_eval e -> Qs hs history s0 mv).
Proof. intros hs history s0 Hin. exact (workers_hist hs history s0 Hin). Qed.

(* item 4: the invariant survives the whole run; every reported line was read from a table with the invariant and
   starts with the move of the entry found there under the root hash *)
Theorem iterativeM_hist : forall hs jit_of workers iters s history tt sched,
  TabR (R_hist hs (root_history hs s history) s) tt ->
  let r := analyze_iterativeM hs jit_of workers iters s history tt sched in
  TabR (R_hist hs (root_history hs s history) s) (m_tt r) /\
  (forall ev mv tl, In (EvBest ev (mv :: tl)) (m_events r) ->
     exists depth tt1 e, TabR (R_hist hs (root_history hs s history) s) tt1 /\
       iter_moves hs (S (S (N.to_nat depth))) tt1 s 0 depth = mv :: tl /\
       acc_find tt1 (hash hs s) = Some e /\ e_move e = mv /\
       (POS_INF <= e_eval e -> Qs hs (root_history hs s history) s mv)).
Proof.
  intros hs jit_of workers iters s history tt sched HT. cbv zeta.
  change (analyze_iterativeM hs jit_of workers iters s history tt sched)
    with (iterateM hs jit_of workers iters 0%N s (root_history hs s history) tt sched 0%N None []).
  destruct (iterateM_hist hs (root_history hs s history) s (root_history_in hs s history)
              jit_of workers iters 0%N tt sched 0%N None [] HT) as (H1 & H2 & _).
  - intros ev mv tl [].
  - exact Logic.I.
  - split; [exact H1|exact H2].
Qed.

(* the LAST report (the line the caller plays from) was read from the table the run hands back: its first move is
   the move of the entry found there under the root hash, and if that entry carries a winning terminal evaluation
   the move does not lead into a recorded position *)
Theorem iterativeM_hist_last : forall hs jit_of workers iters s history tt sched,
  TabR (R_hist hs (root_history hs s history) s) tt ->
  let r := analyze_iterativeM hs jit_of workers iters s history tt sched in
  forall evs ev mv tl, m_events r = evs ++ [EvBest ev (mv :: tl)] ->
    exists e, acc_find (m_tt r) (hash hs s) = Some e /\ e_move e = mv /\
      (POS_INF <= e_eval e ->
       forall ns, apply_move s mv = Some ns -> in_history (root_history hs s history) (hash hs ns) = false).
Proof.
  intros hs jit_of workers iters s history tt sched HT. cbv zeta.
  change (analyze_iterativeM hs jit_of workers iters s history tt sched)
    with (iterateM hs jit_of workers iters 0%N s (root_history hs s history) tt sched 0%N None []).
  destruct (iterateM_hist hs (root_history hs s history) s (root_history_in hs s history)
              jit_of workers iters 0%N tt sched 0%N None [] HT) as (H1 & _ & (acc' & E1 & E2)).
  - intros ev mv tl [].
  - exact Logic.I.
  - intros evs ev mv tl E. rewrite E in E1.
    assert (Ea : acc' = EvBest ev (mv :: tl) :: rev evs).
    { rewrite <- (rev_involutive acc'), <- E1, rev_app_distr. reflexivity. }
    rewrite Ea in E2. cbn [LastOk] in E2. destruct E2 as (e & Ef & Em).
    exists e. split; [exact Ef|]. split; [exact Em|].
    intros Hp. rewrite <- Em. exact (proj2 H1 _ e Ef eq_refl Hp).
Qed.

(* from the empty table *)
Theorem iterativeM_hist_fresh : forall hs jit_of workers iters s history nt nb sched, (0 < nt)%nat -> (0 < nb)%nat ->
  let r := analyze_iterativeM hs jit_of workers iters s history (empty_access nt nb) sched in
  TabR (R_hist hs (root_history hs s history) s) (m_tt r) /\
  (forall evs ev mv tl, m_events r = evs ++ [EvBest ev (mv :: tl)] ->
     exists e, acc_find (m_tt r) (hash hs s) = Some e /\ e_move e = mv /\
       (POS_INF <= e_eval e ->
        forall ns, apply_move s mv = Some ns -> in_history (root_history hs s history) (hash hs ns) = false)).
Proof.
  intros hs jit_of workers iters s history nt nb sched Hnt Hnb. cbv zeta.
  pose proof (TabR_hist_empty hs (root_history hs s history) s nt nb Hnt Hnb) as HT.
  split.
  - exact (proj1 (iterativeM_hist hs jit_of workers iters s history _ sched HT)).
  - exact (iterativeM_hist_last hs jit_of workers iters s history _ sched HT).
Qed.

(* ------------------------------------------------------------------ *)
(* a concrete run (non-vacuity)                                         *)
(* ------------------------------------------------------------------ *)

(* The position of HistoryChoice.repeating_move_example (White Kf6 Ra1, Black Kh8, White to move; the position after
   1.Kf7 - move 268490454, hash 1885 - is recorded), TWO workers, three iterations, worker 1 served first for 40
   table operations, then worker 0 for 100, then the default order.  The last report is EvBest 10700 [268483286]
   (1.Kg6); the entry found under the root hash in the final table is (Exact, 268483286, 0/3, 10700), so the
   condition of iterativeM_hist_last holds (POS_INF <= 10700), and indeed the successor of 268483286 (hash 1773)
   is not recorded, while the successor of the other mating move 268490454 is. *)
Example histM_example :
  let hx := hasher_of_stream (map N.of_nat (seq 1 1038)) in
  let kr := mkState (mkBoard 0 0 0 1 0 (N.shiftl 1 45) 0 0 0 0 0 (N.shiftl 1 63))%N
                    White false false false false None 0%N 1%N in
  let succ_hash m := match apply_move kr m with Some n => Some (hash hx n) | None => None end in
  let r := analyze_iterativeM hx (fun _ _ _ => 0) 2 3 kr [1885%N] (empty_access 2 4)
             (repeat 1%N 40 ++ repeat 0%N 100) in
  (m_events r, acc_find (m_tt r) (hash hx kr), m_outcome r, m_sched r,
   succ_hash 268483286%N, succ_hash 268490454%N, in_history (root_history hx kr [1885%N]) 1773%N,
   POS_INF <=? 10700) =
  ([EvProgress 1 23; EvBest 620 [268473046%N]; EvProgress 2 68; EvBest 620 [268473046%N; 56310%N];
    EvProgress 3 432; EvBest 10700 [268483286%N]],
   Some (mkEntry Exact 268483286%N 0%N 3%N 10700), 0%N, [],
   Some 1773%N, Some 1885%N, false, true).
Proof.
  intros hx kr succ_hash r. match goal with |- _ = ?rhs => vm_cast_no_check (@eq_refl _ rhs) end.
Qed.

Print Assumptions history_drawP.
Print Assumptions histM_call_root.
Print Assumptions histM_call_below.
Print Assumptions histM_workers.
Print Assumptions iterativeM_hist.
Print Assumptions iterativeM_hist_last.
Print Assumptions iterativeM_hist_fresh.
