(* R1, part 4b: histories.  Playing Rules-legal moves through apply_move / enc_move keeps LegalPos and
   tracks fold_left Rules.apply on the abstraction.

   REUSABLE STATEMENTS
     apply_sat_nc / apply_sat_ext / fold_sat_ext / fold_sat_eq
     pseudo_step           make-move on a pseudo-legal move of a LegalPos state (WfState s', pos_eq_nc)
     legal_pos_preserved   LegalPos s -> legal (abs s) mv -> mv_to mv < 64 ->
                           apply_move s (enc_move s mv) = Some s' -> LegalPos s'
     legal_step            the same with existence of s' and the refinement statement
     plays (Inductive), plays_sat, plays_refines, legal_seq, plays_total, run / run_plays *)
From WV Require Import Types Bits Attacks Board MoveEnc MoveGen Rules Abs Wf Encode.
From WV Require Import BitsProofs BoardProofs MoveEncProofs PosEq BoardAlg ApplyProofs LegalPosProofs.
From Coq Require Import Lia ZifyBool ZifyN ZifyNat.
Open Scope N_scope.
Arguments N.add : simpl never.
Arguments N.sub : simpl never.
Arguments N.mul : simpl never.

(* ---------- apply_sat against Rules.apply ---------- *)

Lemma apply_sat_nc : forall p m, pos_eq_nc (apply_sat p m) (Rules.apply p m).
Proof. intros p m. unfold pos_eq_nc, apply_sat. cbn [p_at p_turn p_right p_ep]. repeat split. Qed.

Lemma resets_clock_ext : forall p q m, pos_eq_nc p q -> resets_clock p m = resets_clock q m.
Proof.
  intros p q m H. unfold resets_clock. rewrite (empty_at_ext_nc p q H).
  destruct H as (Ha & _). rewrite Ha. reflexivity.
Qed.

Lemma apply_sat_ext : forall p q m, pos_eq p q -> pos_eq (apply_sat p m) (apply_sat q m).
Proof.
  intros p q m H. pose proof (apply_ext p q H m) as (Ha & Ht & Hr & He & _ & _).
  pose proof H as (_ & Hturn & _ & _ & Hhalf & Hfull).
  unfold pos_eq, apply_sat. cbn [p_at p_turn p_right p_ep p_half p_full].
  repeat split; try assumption.
  - rewrite (resets_clock_ext p q m (pos_eq_nc_of p q H)), Hhalf. reflexivity.
  - rewrite Hturn, Hfull. reflexivity.
Qed.

Lemma fold_sat_ext : forall ms p q, pos_eq p q ->
  pos_eq (fold_left apply_sat ms p) (fold_left apply_sat ms q).
Proof.
  induction ms as [|m tl IH]; intros p q H; cbn [fold_left]; [exact H|].
  apply IH. apply apply_sat_ext. exact H.
Qed.

Lemma apply_counters_le : forall p m,
  p_half (Rules.apply p m) <= p_half p + 1 /\ p_full (Rules.apply p m) <= p_full p + 1.
Proof.
  intros p m. unfold Rules.apply. cbn [p_half p_full]. split.
  - match goal with |- (if ?b then _ else _) <= _ => destruct b end; lia.
  - destruct (p_turn p); lia.
Qed.

(* as long as the counters do not reach usize::MAX the saturating run is the rules run *)
Lemma fold_sat_eq : forall ms p,
  p_half p + N.of_nat (length ms) <= mask64 -> p_full p + N.of_nat (length ms) <= mask64 ->
  pos_eq (fold_left apply_sat ms p) (fold_left Rules.apply ms p).
Proof.
  induction ms as [|m tl IH]; intros p Hh Hf; cbn [fold_left]; [apply pos_eq_refl|].
  cbn [length] in Hh, Hf.
  assert (E : pos_eq (apply_sat p m) (Rules.apply p m)) by (apply apply_sat_eq; lia).
  apply (pos_eq_trans _ _ _ (fold_sat_ext tl _ _ E)).
  destruct (apply_counters_le p m) as [L1 L2]. apply IH; lia.
Qed.

(* ---------- one step ---------- *)

(* make-move on a pseudo-legal move (what the legality filter runs) *)
Theorem pseudo_step : forall s mv, LegalPos s -> Rules.pseudo_legal (abs s) mv = true -> mv_to mv < 64 ->
  exists s', apply_move s (enc_move s mv) = Some s' /\ WfState s' /\
             pos_eq (abs s') (apply_sat (abs s) mv) /\
             pos_eq_nc (abs s') (Rules.apply (abs s) mv).
Proof.
  intros s mv HL Hpl Ht.
  pose proof (pseudo_move_ok s mv HL Hpl Ht) as Hok.
  pose proof (legal_pos_rights_ok s HL) as Hro.
  pose proof HL as HL'. unfold LegalPos, legal_posb in HL'. apply andb_true_iff in HL'.
  destruct HL' as [Hwf _].
  destruct (apply_refines_sat s mv Hwf Hro Hok) as (s' & Ha & Hw' & He).
  exists s'. split; [exact Ha|]. split; [exact Hw'|]. split; [exact He|].
  apply (pos_eq_nc_trans _ _ _ (pos_eq_nc_of _ _ He)). apply apply_sat_nc.
Qed.

Theorem legal_step : forall s mv, LegalPos s -> Rules.legal (abs s) mv = true -> mv_to mv < 64 ->
  exists s', apply_move s (enc_move s mv) = Some s' /\ LegalPos s' /\
             pos_eq (abs s') (apply_sat (abs s) mv).
Proof.
  intros s mv HL Hl Ht.
  pose proof (legal_move_ok s mv HL Hl Ht) as Hok.
  pose proof (legal_pos_rights_ok s HL) as Hro.
  pose proof HL as HL'. unfold LegalPos, legal_posb in HL'. apply andb_true_iff in HL'.
  destruct HL' as [Hwf Hlp].
  destruct (apply_refines_sat s mv Hwf Hro Hok) as (s' & Ha & Hw' & He).
  exists s'. split; [exact Ha|]. split; [|exact He].
  unfold LegalPos, legal_posb. apply andb_true_iff. split; [exact Hw'|].
  rewrite (legal_pos_ext _ _ He). rewrite (legal_pos_ext_nc _ _ (apply_sat_nc (abs s) mv)).
  destruct Hok as [k (Hf & Hf64 & _)].
  apply legal_pos_apply; assumption.
Qed.

Theorem legal_pos_preserved : forall s mv s', LegalPos s -> Rules.legal (abs s) mv = true ->
  mv_to mv < 64 -> apply_move s (enc_move s mv) = Some s' -> LegalPos s'.
Proof.
  intros s mv s' HL Hl Ht Ha. destruct (legal_step s mv HL Hl Ht) as (s'' & Ha' & HL' & _).
  rewrite Ha in Ha'. injection Ha' as <-. exact HL'.
Qed.

Corollary legal_step_clock : forall s mv, LegalPos s -> clock_ok s ->
  Rules.legal (abs s) mv = true -> mv_to mv < 64 ->
  exists s', apply_move s (enc_move s mv) = Some s' /\ LegalPos s' /\
             pos_eq (abs s') (Rules.apply (abs s) mv).
Proof.
  intros s mv HL [Hh Hf] Hl Ht. destruct (legal_step s mv HL Hl Ht) as (s' & Ha & HL' & He).
  exists s'. split; [exact Ha|]. split; [exact HL'|].
  apply (pos_eq_trans _ _ _ He). apply apply_sat_eq; assumption.
Qed.

(* ---------- histories ---------- *)

Inductive plays : state -> list move -> state -> Prop :=
| plays_nil : forall s, plays s [] s
| plays_cons : forall s mv s1 mvs s2,
    Rules.legal (abs s) mv = true -> mv_to mv < 64 ->
    apply_move s (enc_move s mv) = Some s1 -> plays s1 mvs s2 -> plays s (mv :: mvs) s2.

Theorem plays_sat : forall s mvs s', LegalPos s -> plays s mvs s' ->
  LegalPos s' /\ pos_eq (abs s') (fold_left apply_sat mvs (abs s)).
Proof.
  intros s mvs s' HL Hp. induction Hp as [s | s mv s1 mvs s2 Hl Ht Ha Hp IH].
  - split; [exact HL | apply pos_eq_refl].
  - destruct (legal_step s mv HL Hl Ht) as (s1' & Ha' & HL1 & He).
    rewrite Ha in Ha'. injection Ha' as <-.
    destruct (IH HL1) as [HL2 He2]. split; [exact HL2|].
    cbn [fold_left]. apply (pos_eq_trans _ _ _ He2). apply fold_sat_ext. exact He.
Qed.

Theorem plays_refines : forall s mvs s', LegalPos s -> plays s mvs s' ->
  st_half s + N.of_nat (length mvs) <= mask64 -> st_full s + N.of_nat (length mvs) <= mask64 ->
  LegalPos s' /\ pos_eq (abs s') (fold_left Rules.apply mvs (abs s)).
Proof.
  intros s mvs s' HL Hp Hh Hf. destruct (plays_sat s mvs s' HL Hp) as [HL' He].
  split; [exact HL'|]. apply (pos_eq_trans _ _ _ He). apply fold_sat_eq; assumption.
Qed.

(* the moves of a rules-level legal line can always be played *)
Fixpoint legal_seq (p : pos) (mvs : list move) : Prop :=
  match mvs with
  | [] => True
  | m :: tl => legal p m = true /\ mv_to m < 64 /\ legal_seq (Rules.apply p m) tl
  end.

Lemma legal_seq_ext : forall mvs p q, pos_eq_nc p q -> legal_seq p mvs -> legal_seq q mvs.
Proof.
  induction mvs as [|m tl IH]; intros p q H Hs; cbn [legal_seq] in *; [exact I|].
  destruct Hs as (Hl & Ht & Hs). split; [rewrite <- (legal_ext_nc p q H); exact Hl|].
  split; [exact Ht|]. apply (IH _ _ (apply_ext_nc p q H m)). exact Hs.
Qed.

Theorem plays_total : forall mvs s, LegalPos s -> legal_seq (abs s) mvs -> exists s', plays s mvs s'.
Proof.
  induction mvs as [|m tl IH]; intros s HL Hs.
  - exists s. constructor.
  - cbn [legal_seq] in Hs. destruct Hs as (Hl & Ht & Hs).
    destruct (legal_step s m HL Hl Ht) as (s1 & Ha & HL1 & He).
    assert (Hnc : pos_eq_nc (Rules.apply (abs s) m) (abs s1)).
    { apply pos_eq_nc_sym. apply (pos_eq_nc_trans _ _ _ (pos_eq_nc_of _ _ He)). apply apply_sat_nc. }
    destruct (IH s1 HL1 (legal_seq_ext tl _ _ Hnc Hs)) as [s2 Hp].
    exists s2. exact (plays_cons s m s1 tl s2 Hl Ht Ha Hp).
Qed.

(* executable form *)
Fixpoint run (s : state) (mvs : list move) : option state :=
  match mvs with
  | [] => Some s
  | m :: tl => match apply_move s (enc_move s m) with Some s1 => run s1 tl | None => None end
  end.

Lemma plays_run : forall s mvs s', plays s mvs s' -> run s mvs = Some s'.
Proof.
  intros s mvs s' Hp. induction Hp as [s | s mv s1 mvs s2 Hl Ht Ha Hp IH]; cbn [run]; [reflexivity|].
  rewrite Ha. exact IH.
Qed.

Corollary run_refines : forall s mvs, LegalPos s -> legal_seq (abs s) mvs ->
  exists s', run s mvs = Some s' /\ LegalPos s' /\ pos_eq (abs s') (fold_left apply_sat mvs (abs s)).
Proof.
  intros s mvs HL Hs. destruct (plays_total mvs s HL Hs) as [s' Hp].
  exists s'. split; [exact (plays_run _ _ _ Hp)|]. exact (plays_sat s mvs s' HL Hp).
Qed.

(* ---------- non-vacuity ---------- *)

Definition start_state : state :=
  mkState (mkBoard 65280 66 36 129 8 16
                   71776119061217280 4755801206503243776 2594073385365405696
                   9295429630892703744 576460752303423488 1152921504606846976)
          White true true true true None 0 1.

(* 1.e4 a6 2.e5 d5 3.exd6 (en passant) Nc6 4.Nf3 Bg4 5.Bc4 Qd7 6.O-O O-O-O 7.dxc7 Nf6 8.cxd8=Q+ :
   double steps, an en-passant capture, both castlings, a capture-promotion *)
Definition demo_line : list move :=
  [ mkMove 12 28 None; mkMove 48 40 None; mkMove 28 36 None; mkMove 51 35 None;
    mkMove 36 43 None;                       (* e5xd6 e.p. *)
    mkMove 57 42 None; mkMove 6 21 None; mkMove 58 30 None; mkMove 5 26 None; mkMove 59 51 None;
    mkMove 4 6 None;                         (* O-O *)
    mkMove 60 58 None;                       (* O-O-O *)
    mkMove 43 50 None;                       (* dxc7 *)
    mkMove 62 45 None;                       (* Nf6 *)
    mkMove 50 59 (Some Queen) ].             (* cxd8=Q+ *)

Fixpoint legal_seqb (p : pos) (mvs : list move) : bool :=
  match mvs with
  | [] => true
  | m :: tl => legal p m && (mv_to m <? 64) && legal_seqb (Rules.apply p m) tl
  end.

Lemma legal_seqb_ok : forall mvs p, legal_seqb p mvs = true -> legal_seq p mvs.
Proof.
  induction mvs as [|m tl IH]; intros p H; cbn [legal_seq legal_seqb] in *; [exact I|].
  rewrite !andb_true_iff in H. destruct H as [[H1 H2] H3].
  split; [exact H1|]. split; [apply N.ltb_lt; exact H2 | apply IH; exact H3].
Qed.

Example demo_start_legal : LegalPos start_state.
Proof. vm_compute. reflexivity. Qed.

Example demo_line_legal : legal_seq (abs start_state) demo_line.
Proof. apply legal_seqb_ok. vm_compute. reflexivity. Qed.

Definition demo_end : state :=
  mkState (mkBoard 61184 2097154 67108868 33 576460752303423496 64
                   68118043875606528 39582418599936 2305843010287435776
                   9223372036854775808 2251799813685248 288230376151711744)
          Black false false false false None 0 8.

Example demo_run : run start_state demo_line = Some demo_end.
Proof. vm_compute. reflexivity. Qed.

Example demo_refines :
  plays start_state demo_line demo_end /\ LegalPos demo_end /\
  pos_eq (abs demo_end) (fold_left Rules.apply demo_line (abs start_state)).
Proof.
  destruct (plays_total demo_line start_state demo_start_legal demo_line_legal) as [s' Hp].
  pose proof (plays_run _ _ _ Hp) as Hr. rewrite demo_run in Hr. injection Hr as <-.
  split; [exact Hp|].
  apply (plays_refines start_state demo_line demo_end demo_start_legal Hp); vm_compute; discriminate.
Qed.
