(* R4, part 5: coordinate queries.  The query built from the coordinates (and promotion) of a legal
   move resolves to exactly the successor of that move: no legal move is Unknown or Ambiguous for
   State::by_performing_moves.

   REUSABLE STATEMENTS
     query_of mv, query_of_coord, qtest_self, qtest_inv, resolve_move *)
From WV Require Import Types Bits Attacks Board MoveEnc MoveGen Rules Abs Wf Encode.
From WV Require Import BitsProofs BoardProofs MoveEncProofs PosEq BoardAlg ApplyProofs LegalPosProofs PlayProofs.
From WV Require Import GenPawnsNoDup KingPrefilter GenLegal GenCount GenAttrs.
From Coq Require Import Lia ZifyBool ZifyN ZifyNat.
Import WV.Bits.
Ltac Zify.zify_post_hook ::= Z.div_mod_to_equations.
Open Scope N_scope.
Arguments N.add : simpl never.
Arguments N.sub : simpl never.
Arguments N.mul : simpl never.
Arguments N.div : simpl never.
Arguments N.modulo : simpl never.

Definition query_of (mv : move) : mquery :=
  mkQuery None (Some (rank_of (mv_from mv))) (Some (file_of (mv_from mv)))
          (Some (rank_of (mv_to mv))) (Some (file_of (mv_to mv))) (mv_promo mv) None None.

Lemma query_of_coord : forall mv, coord_query (query_of mv).
Proof. intros mv. unfold coord_query, query_of. cbn. repeat split; discriminate. Qed.

Lemma qtest_query_of : forall mv m, qtest (query_of mv) m =
  (rank_of (mv_from mv) =? rank_of (m_origin m)) && (file_of (mv_from mv) =? file_of (m_origin m)) &&
  (rank_of (mv_to mv) =? rank_of (m_dest m)) && (file_of (mv_to mv) =? file_of (m_dest m)) &&
  opt_test (mv_promo mv)
    (fun p => piece_eqb p (match m_promotion m with Some x => x | None => m_piece m end)).
Proof.
  intros mv m. unfold qtest, query_of.
  cbn [q_piece q_orank q_ofile q_drank q_dfile q_promotion q_castle q_capture opt_test andb].
  rewrite !andb_true_r. reflexivity.
Qed.

Lemma sq_eq_rf : forall a b, rank_of a = rank_of b -> file_of a = file_of b -> a = b.
Proof. intros a b. unfold rank_of, file_of. lia. Qed.

Lemma qtest_self : forall s mv, LegalPos s -> In mv (Rules.legal_moves (abs s)) ->
  qtest (query_of mv) (enc_move s mv) = true.
Proof.
  intros s mv HL Hin. apply legal_moves_In in Hin. destruct Hin as (_ & Ht & _ & Hl).
  destruct (legal_move_ok s mv HL Hl Ht) as [k Hok].
  pose proof (enc_attributes s mv k (legal_pos_wf s HL) Hok) as H. cbv zeta in H.
  destruct H as (H1 & H2 & H3 & _).
  rewrite qtest_query_of, H1, H2, H3, !N.eqb_refl. cbn [andb].
  destruct (mv_promo mv) as [pr|]; cbn [opt_test]; [|reflexivity]. apply piece_eqb_eq. reflexivity.
Qed.

Lemma qtest_inv : forall s mv m, LegalPos s -> In mv (Rules.legal_moves (abs s)) ->
  In m (MoveGen.legal_moves s) -> qtest (query_of mv) m = true -> m = enc_move s mv.
Proof.
  intros s mv m HL Hin Hm Hq.
  destruct (legal_moves_canonical s m HL Hm) as [Hleg' Em].
  apply legal_moves_In in Hin. destruct Hin as (_ & Ht & _ & Hl).
  apply legal_moves_In in Hleg'. destruct Hleg' as (_ & Ht' & _ & Hl').
  destruct (legal_move_ok s mv HL Hl Ht) as [k Hok].
  destruct (legal_move_ok s (absm m) HL Hl' Ht') as [k' Hok'].
  rewrite qtest_query_of, !andb_true_iff, !N.eqb_eq in Hq. destruct Hq as [[[[R1 F1] R2] F2] Hp].
  pose proof (sq_eq_rf _ _ R1 F1) as Ef. pose proof (sq_eq_rf _ _ R2 F2) as Et.
  assert (Epr : m_promotion m = mv_promo mv).
  { pose proof Hok as (Hpat & _). pose proof Hok' as (Hpat' & _).
    change (mv_from (absm m)) with (m_origin m) in Hpat'. rewrite <- Ef, Hpat in Hpat'.
    injection Hpat' as Ek. subst k'.
    destruct (piece_eqb k Pawn) eqn:Ekp.
    - apply piece_eqb_eq in Ekp. subst k.
      pose proof (pseudo_legal_pawn _ _ (legal_pseudo _ _ Hl) (proj1 Hok)) as [_ Hx]. cbv zeta in Hx.
      pose proof (pseudo_legal_pawn _ _ (legal_pseudo _ _ Hl') (proj1 Hok')) as [_ Hy]. cbv zeta in Hy.
      change (mv_to (absm m)) with (m_dest m) in Hy. change (mv_promo (absm m)) with (m_promotion m) in Hy.
      rewrite <- Et in Hy.
      destruct (mv_promo mv) as [pr|], (m_promotion m) as [x|]; cbn [opt_test] in Hp.
      + apply piece_eqb_eq in Hp. congruence.
      + exfalso. apply Hy. apply Hx.
      + exfalso. apply Hx. apply Hy.
      + reflexivity.
    - assert (Hne : k <> Pawn).
      { intros ->. discriminate Ekp. }
      rewrite (move_ok_promo_king s mv k Hok Hne).
      exact (move_ok_promo_king s (absm m) k Hok' Hne). }
  rewrite Em. f_equal. unfold absm. rewrite <- Ef, <- Et, Epr. destruct mv; reflexivity.
Qed.

(* the coordinate query of a legal move resolves to its successor *)
Theorem resolve_move : forall s mv, LegalPos s -> In mv (Rules.legal_moves (abs s)) ->
  exists s', apply_move s (enc_move s mv) = Some s' /\ resolve s [query_of mv] = ROk s' /\
             LegalPos s' /\ pos_eq (abs s') (apply_sat (abs s) mv).
Proof.
  intros s mv HL Hin.
  assert (Hm : In (enc_move s mv) (MoveGen.legal_moves s)).
  { apply (legal_moves_spec s _ HL). exists mv. auto. }
  pose proof (qtest_self s mv HL Hin) as Hq.
  pose proof (resolve_one s (query_of mv) HL) as H.
  destruct (resolve s [query_of mv]) as [s'| | |].
  - destruct H as [m (Hg & Hqm & Hu)]. pose proof (Hu _ Hm Hq) as E. subst m.
    destruct (gen_legal_props s _ s' HL Hg) as (Ha & HL' & He & Hl & _).
    exists s'. split; [exact Ha|]. split; [reflexivity|]. split; [exact HL'|].
    pose proof Hin as Hin'. apply legal_moves_In in Hin'. destruct Hin' as (_ & Ht & _ & Hleg).
    rewrite (absm_enc_move s mv (legal_move_ok s mv HL Hleg Ht)) in He. exact He.
  - exfalso. destruct H as [m1 [m2 (Hne & H1 & H2 & Q1 & Q2)]]. apply Hne.
    rewrite (qtest_inv s mv m1 HL Hin H1 Q1), (qtest_inv s mv m2 HL Hin H2 Q2). reflexivity.
  - exfalso. rewrite (H _ Hm) in Hq. discriminate Hq.
  - destruct H.
Qed.

Print Assumptions resolve_move.
