(* R1, part 2: board algebra.  The twelve-slot record is only opened here.

   REUSABLE STATEMENTS
     pocc_pset            get/set on the slots (k <> PNone)
     pset_none / pset_bit_none          PNone slot: identity
     pset_bit_comm        updates of two different slots commute
     test_pset_bit        bit-level reading of a slot after pset_bit
     wf_iff               WfBoard b <-> slots below 2^64 /\ pointwise disjoint
     piece_at_lt64        an occupied square of a WfBoard is < 64
     wf_clear / piece_at_clear          clearing the occupant of a square
     wf_set   / piece_at_set            putting a piece on an empty square
     Repr b f  :=  WfBoard b /\ forall x, piece_at b x = f x       ("b represents the square map f")
     upd f s v :=  fun x => if x =? s then v else f x
     repr_clear : Repr b f -> f s = Some (c,k) -> Repr (pset_bit b c k s false) (upd f s None)
     repr_set   : Repr b f -> f s = None -> s < 64 -> k <> PNone ->
                  Repr (pset_bit b c k s true) (upd f s (Some (c,k)))
     test_rook_repr : Repr b f -> (test (pocc b c k) s = true <-> f s = Some (c,k))   (k <> PNone) *)
From WV Require Import Types Bits Attacks Board Rules Abs Wf Encode BitsProofs BoardProofs.
From Coq Require Import Lia ZifyBool ZifyN ZifyNat.
Ltac Zify.zify_post_hook ::= Z.div_mod_to_equations.
Open Scope N_scope.
Arguments N.add : simpl never.
Arguments N.sub : simpl never.
Arguments N.mul : simpl never.
Arguments N.land : simpl never.
Arguments N.lor : simpl never.
Arguments N.shiftl : simpl never.
Arguments N.shiftr : simpl never.
Arguments N.ldiff : simpl never.

(* ---------- bits ---------- *)

Lemma setb_false_spec : forall b s t, N.testbit (setb b s false) t = N.testbit b t && negb (s =? t).
Proof. intros. unfold setb. rewrite N.ldiff_spec, just_spec. reflexivity. Qed.

Lemma setb_false_lt : forall b s, b < 2 ^ 64 -> setb b s false < 2 ^ 64.
Proof.
  intros b s Hb. apply lt_pow2_of_bits. intros k Hk. rewrite setb_false_spec.
  rewrite (testbit_high b 64 k Hb Hk). reflexivity.
Qed.

Lemma setb_test : forall b s v x,
  test (setb b s v) x = if s =? x then v else test b x.
Proof.
  intros b s v x. unfold test. destruct v.
  - rewrite setb_true_spec. destruct (s =? x); [apply orb_true_r | apply orb_false_r].
  - rewrite setb_false_spec. destruct (s =? x); [apply andb_false_r | apply andb_true_r].
Qed.

(* ---------- slots ---------- *)

Definition slot_eqb (c : color) (k : piece) (c' : color) (k' : piece) : bool :=
  color_eqb c c' && piece_eqb k k'.

Lemma slot_eqb_eq : forall c k c' k', slot_eqb c k c' k' = true <-> (c, k) = (c', k').
Proof.
  intros c k c' k'. unfold slot_eqb. rewrite andb_true_iff, color_eqb_eq, piece_eqb_eq. split.
  - intros [-> ->]. reflexivity.
  - intros H. injection H as -> ->. split; reflexivity.
Qed.

Lemma slot_eqb_refl : forall c k, slot_eqb c k c k = true.
Proof. intros. apply slot_eqb_eq. reflexivity. Qed.

Lemma slot_eqb_neq : forall c k c' k', slot_eqb c k c' k' = false <-> (c, k) <> (c', k').
Proof.
  intros c k c' k'. rewrite <- slot_eqb_eq. destruct (slot_eqb c k c' k'); split; intros H;
    try reflexivity; try discriminate H; try (intros H'; discriminate H'). exfalso. apply H. reflexivity.
Qed.

Lemma pocc_pset : forall b c k v c' k', k <> PNone ->
  pocc (pset b c k v) c' k' = if slot_eqb c k c' k' then v else pocc b c' k'.
Proof.
  intros b c k v c' k' Hk.
  destruct c, k; try (exfalso; apply Hk; reflexivity); destruct c', k'; reflexivity.
Qed.

Lemma pset_none : forall b c v, pset b c PNone v = b.
Proof. intros b [|] v; reflexivity. Qed.

Lemma pset_bit_none : forall b c s v, pset_bit b c PNone s v = b.
Proof. intros. unfold pset_bit. apply pset_none. Qed.

Lemma pset_comm : forall b c k v c' k' v', (c, k) <> (c', k') ->
  pset (pset b c k v) c' k' v' = pset (pset b c' k' v') c k v.
Proof.
  intros b c k v c' k' v' Hne.
  destruct c, k, c', k'; try reflexivity; exfalso; apply Hne; reflexivity.
Qed.

Lemma pocc_pset_other : forall b c k v c' k', (c, k) <> (c', k') ->
  pocc (pset b c k v) c' k' = pocc b c' k'.
Proof.
  intros b c k v c' k' Hne.
  destruct c, k, c', k'; try reflexivity; exfalso; apply Hne; reflexivity.
Qed.

Lemma pset_bit_comm : forall b c k s v c' k' s' v', (c, k) <> (c', k') ->
  pset_bit (pset_bit b c k s v) c' k' s' v' = pset_bit (pset_bit b c' k' s' v') c k s v.
Proof.
  intros b c k s v c' k' s' v' Hne. unfold pset_bit.
  rewrite (pocc_pset_other b c k _ c' k' Hne).
  rewrite (pocc_pset_other b c' k' _ c k) by (intros E; apply Hne; symmetry; exact E).
  apply pset_comm. exact Hne.
Qed.

Lemma test_pset_bit : forall b c k s v c' k' x, k <> PNone ->
  test (pocc (pset_bit b c k s v) c' k') x =
  if slot_eqb c k c' k' then (if s =? x then v else test (pocc b c k) x) else test (pocc b c' k') x.
Proof.
  intros b c k s v c' k' x Hk. unfold pset_bit. rewrite pocc_pset by exact Hk.
  destruct (slot_eqb c k c' k'); [apply setb_test | reflexivity].
Qed.

(* ---------- WfBoard as a pointwise statement ---------- *)

Definition slots_lt (b : board) : Prop := forall c k, pocc b c k < 2 ^ 64.
Definition slots_disj (b : board) : Prop := forall c k c' k' s,
  test (pocc b c k) s = true -> test (pocc b c' k') s = true -> (c, k) = (c', k').

Lemma disj_intro : forall x y, (forall s, test x s = true -> test y s = true -> False) ->
  (N.land x y =? 0) = true.
Proof.
  intros x y H. apply N.eqb_eq. apply N.bits_inj. intros n. rewrite N.land_spec, N.bits_0.
  destruct (N.testbit x n) eqn:Ex; [|reflexivity].
  destruct (N.testbit y n) eqn:Ey; [|reflexivity].
  exfalso. exact (H n Ex Ey).
Qed.

Ltac slot_of x :=
  match x with
  | wP _ => constr:((White, Pawn)) | wN _ => constr:((White, Knight)) | wB _ => constr:((White, Bishop))
  | wR _ => constr:((White, Rook)) | wQ _ => constr:((White, Queen)) | wK _ => constr:((White, King))
  | bP _ => constr:((Black, Pawn)) | bN _ => constr:((Black, Knight)) | bB _ => constr:((Black, Bishop))
  | bR _ => constr:((Black, Rook)) | bQ _ => constr:((Black, Queen)) | bK _ => constr:((Black, King))
  end.

Lemma wf_iff : forall b, WfBoard b <-> slots_lt b /\ slots_disj b.
Proof.
  intros b. split.
  - intros H. split; [exact (wf_slots b H) | exact (wf_disjoint b H)].
  - intros [Hl Hd]. unfold WfBoard, wf_boardb. apply andb_true_iff. split.
    + unfold all_slots. cbn [forallb]. rewrite two64_eq.
      repeat (apply andb_true_iff; split); try reflexivity; apply N.ltb_lt;
        match goal with |- ?x < _ => let a := slot_of x in exact (Hl (fst a) (snd a)) end.
    + unfold all_slots. cbn [pairwise_disjoint forallb].
      repeat (apply andb_true_iff; split); try reflexivity;
        match goal with |- (N.land ?x ?y =? 0) = true =>
          let a := slot_of x in let a' := slot_of y in
          apply disj_intro; intros s' H1 H2;
          pose proof (Hd (fst a) (snd a) (fst a') (snd a') s' H1 H2) as E; discriminate E
        end.
Qed.

Lemma piece_at_lt64 : forall b s ck, WfBoard b -> piece_at b s = Some ck -> s < 64.
Proof.
  intros b s [c k] Hwf H. apply piece_at_some_imp in H. destruct H as [_ H].
  exact (test_lt64 _ _ (wf_slots b Hwf c k) H).
Qed.

(* piece_at only reads the twelve bits of the square *)
Lemma piece_at_test_ext : forall b b' s,
  (forall c k, test (pocc b' c k) s = test (pocc b c k) s) -> piece_at b' s = piece_at b s.
Proof.
  intros b b' s H. unfold piece_at. cbn [find all_pieces].
  rewrite !H. reflexivity.
Qed.

(* ---------- clearing the occupant ---------- *)

Lemma wf_clear : forall b c k s, WfBoard b -> WfBoard (pset_bit b c k s false).
Proof.
  intros b c k s Hwf. destruct (piece_eqb k PNone) eqn:Ek.
  - apply piece_eqb_eq in Ek. subst k. rewrite pset_bit_none. exact Hwf.
  - assert (Hk : k <> PNone) by (intros ->; discriminate Ek).
    apply wf_iff in Hwf. destruct Hwf as [Hl Hd]. apply wf_iff.
    assert (Himp : forall c' k' x, test (pocc (pset_bit b c k s false) c' k') x = true ->
                                   test (pocc b c' k') x = true).
    { intros c' k' x. rewrite test_pset_bit by exact Hk.
      destruct (slot_eqb c k c' k') eqn:E; [|trivial].
      apply slot_eqb_eq in E. injection E as <- <-.
      destruct (s =? x); [intros H; discriminate H | trivial]. }
    split.
    + intros c' k'. unfold pset_bit. rewrite pocc_pset by exact Hk.
      destruct (slot_eqb c k c' k'); [apply setb_false_lt; apply Hl | apply Hl].
    + intros c1 k1 c2 k2 x H1 H2. apply (Hd c1 k1 c2 k2 x); apply Himp; assumption.
Qed.

Lemma piece_at_clear : forall b c k s s', WfBoard b -> piece_at b s = Some (c, k) ->
  piece_at (pset_bit b c k s false) s' = if s' =? s then None else piece_at b s'.
Proof.
  intros b c k s s' Hwf Hat. pose proof (piece_at_some_imp _ _ _ _ Hat) as [Hk Ht].
  destruct (N.eqb_spec s' s) as [->|Hne].
  - apply piece_at_none. intros c' k'. rewrite test_pset_bit by exact Hk.
    rewrite N.eqb_refl. destruct (slot_eqb c k c' k') eqn:E; [reflexivity|].
    destruct (test (pocc b c' k') s) eqn:Et; [|reflexivity].
    exfalso. apply slot_eqb_neq in E. apply E. exact (wf_disjoint b Hwf _ _ _ _ s Ht Et).
  - apply piece_at_test_ext. intros c' k'. rewrite test_pset_bit by exact Hk.
    destruct (slot_eqb c k c' k') eqn:E; [|reflexivity].
    apply slot_eqb_eq in E. injection E as <- <-.
    destruct (N.eqb_spec s s') as [E'|_]; [exfalso; apply Hne; symmetry; exact E' | reflexivity].
Qed.

(* ---------- putting a piece on an empty square ---------- *)

Lemma wf_set : forall b c k s, WfBoard b -> piece_at b s = None -> s < 64 -> k <> PNone ->
  WfBoard (pset_bit b c k s true).
Proof.
  intros b c k s Hwf Hnone Hs Hk. rewrite piece_at_none in Hnone.
  apply wf_iff in Hwf. destruct Hwf as [Hl Hd]. apply wf_iff. split.
  - intros c' k'. unfold pset_bit. rewrite pocc_pset by exact Hk.
    destruct (slot_eqb c k c' k'); [apply setb_true_lt; [apply Hl | exact Hs] | apply Hl].
  - intros c1 k1 c2 k2 x. rewrite !test_pset_bit by exact Hk.
    destruct (N.eqb_spec s x) as [<-|Hne].
    + destruct (slot_eqb c k c1 k1) eqn:E1; [|rewrite Hnone; intros H; discriminate H].
      destruct (slot_eqb c k c2 k2) eqn:E2; [|rewrite Hnone; intros _ H; discriminate H].
      intros _ _. apply slot_eqb_eq in E1. apply slot_eqb_eq in E2. congruence.
    + destruct (slot_eqb c k c1 k1) eqn:E1; destruct (slot_eqb c k c2 k2) eqn:E2;
        try (apply slot_eqb_eq in E1; injection E1 as <- <-);
        try (apply slot_eqb_eq in E2; injection E2 as <- <-); apply Hd.
Qed.

Lemma piece_at_set : forall b c k s s', WfBoard b -> piece_at b s = None -> s < 64 -> k <> PNone ->
  piece_at (pset_bit b c k s true) s' = if s' =? s then Some (c, k) else piece_at b s'.
Proof.
  intros b c k s s' Hwf Hnone Hs Hk.
  pose proof (wf_set b c k s Hwf Hnone Hs Hk) as Hwf'.
  destruct (N.eqb_spec s' s) as [->|Hne].
  - apply (piece_at_spec _ s c k Hwf'). split; [exact Hk|].
    rewrite test_pset_bit by exact Hk. rewrite slot_eqb_refl, N.eqb_refl. reflexivity.
  - apply piece_at_test_ext. intros c' k'. rewrite test_pset_bit by exact Hk.
    destruct (slot_eqb c k c' k') eqn:E; [|reflexivity].
    apply slot_eqb_eq in E. injection E as <- <-.
    destruct (N.eqb_spec s s') as [E'|_]; [exfalso; apply Hne; symmetry; exact E' | reflexivity].
Qed.

(* ---------- boards as square maps ---------- *)

Definition sqmap := N -> option (color * piece).
Definition upd (f : sqmap) (s : N) (v : option (color * piece)) : sqmap :=
  fun x => if x =? s then v else f x.
Definition Repr (b : board) (f : sqmap) : Prop := WfBoard b /\ forall x, piece_at b x = f x.

Lemma repr_self : forall b, WfBoard b -> Repr b (piece_at b).
Proof. intros b H. split; [exact H | reflexivity]. Qed.

Lemma repr_ext : forall b f g, Repr b f -> (forall x, f x = g x) -> Repr b g.
Proof. intros b f g [Hw Hf] H. split; [exact Hw|]. intros x. rewrite Hf. apply H. Qed.

Lemma repr_clear : forall b f c k s, Repr b f -> f s = Some (c, k) ->
  Repr (pset_bit b c k s false) (upd f s None).
Proof.
  intros b f c k s [Hw Hf] Hs. split; [apply wf_clear; exact Hw|].
  intros x. unfold upd. rewrite <- Hf. apply piece_at_clear; [exact Hw|]. rewrite Hf. exact Hs.
Qed.

Lemma repr_set : forall b f c k s, Repr b f -> f s = None -> s < 64 -> k <> PNone ->
  Repr (pset_bit b c k s true) (upd f s (Some (c, k))).
Proof.
  intros b f c k s [Hw Hf] Hs Hlt Hk.
  assert (Hn : piece_at b s = None) by (rewrite Hf; exact Hs).
  split; [apply wf_set; assumption|].
  intros x. unfold upd. rewrite <- Hf. apply piece_at_set; assumption.
Qed.

Lemma test_repr : forall b f c k s, Repr b f -> k <> PNone ->
  test (pocc b c k) s = true <-> f s = Some (c, k).
Proof.
  intros b f c k s [Hw Hf] Hk. rewrite <- Hf. rewrite (piece_at_spec b s c k Hw). tauto.
Qed.

Lemma test_repr_b : forall b f c k s, Repr b f -> k <> PNone ->
  test (pocc b c k) s = match f s with
                        | Some (c', k') => slot_eqb c k c' k'
                        | None => false end.
Proof.
  intros b f c k s Hr Hk. apply eq_iff_eq_true. rewrite (test_repr b f c k s Hr Hk).
  destruct (f s) as [[c' k']|].
  - rewrite slot_eqb_eq. split; intros H; [injection H as <- <-; reflexivity | congruence].
  - split; intros H; discriminate H.
Qed.
