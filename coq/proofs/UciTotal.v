(* C14 at the level of the UCI loop: no input line reaches a panic site of the parsers the loop calls
   (FEN reader, coordinate-move token parser), and after ANY line the session still answers isready. *)
From WV Require Import Types Bits Attacks Board MoveEnc MoveGen Rules Abs Wf Encode Text Notation Uci.
From WV Require Import FenBase UciProofs.
From Coq Require Import List NArith.
Import ListNotations.
Open Scope N_scope.

(* the coordinate-move token parser (`m.get(0..2)`, `m.get(2..4)`, `m.chars().nth(4)`) never panics *)
Theorem uci_token_total : forall tok k, uci_move_query tok <> Panic k.
Proof.
  intros tok k. unfold uci_move_query.
  destruct (take_bytes tok 2 3) as [[o rest]|]; [|discriminate].
  destruct (parse_square o) as [osq|]; [|discriminate].
  destruct (take_bytes rest 2 3) as [[d rest2]|]; [|discriminate].
  destruct (parse_square d) as [dsq|]; [|discriminate].
  destruct (nth_error tok 4) as [p|]; [|discriminate].
  destruct (p =? ch_q); [discriminate|]. destruct (p =? ch_r); [discriminate|].
  destruct (p =? ch_b); [discriminate|]. destruct (p =? ch_n); discriminate.
Qed.

(* every parser call a `position` line can make is panic-free *)
Theorem position_parsers_total : forall (fen_text : text) (moves : list text) k,
  fen_read fen_text <> Panic k /\ Forall (fun r => r <> Panic k) (map uci_move_query moves).
Proof.
  intros fen_text moves k. split; [apply fen_total|].
  apply Forall_forall. intros r Hin. apply in_map_iff in Hin. destruct Hin as (tok & <- & _). apply uci_token_total.
Qed.

Section Alive.
Variable start : state.
Variable in_book : state -> bool.

(* after ANY input line: the loop goes on unless the line was `quit`, and the next `isready` is answered *)
Theorem line_keeps_alive : forall s line,
  (snd (step start in_book s line) = false -> is_quit line) /\
  forall l2 args, tokens l2 = t_isready :: args ->
    step start in_book (fst (fst (step start in_book s line))) l2 =
    (fst (fst (step start in_book s line)), [OReadyOk], true).
Proof.
  intros s line. split; [apply step_stops|].
  intros l2 args H. exact (step_isready start in_book _ l2 args H).
Qed.

(* ... and after any SEQUENCE of lines that contains no quit *)
Theorem lines_keep_alive : forall lines s, (forall l, In l lines -> ~ is_quit l) ->
  snd (steps start in_book s lines) = true /\
  forall l2 args, tokens l2 = t_isready :: args ->
    step start in_book (fst (fst (steps start in_book s lines))) l2 =
    (fst (fst (steps start in_book s lines)), [OReadyOk], true).
Proof.
  intros lines s H. split; [exact (steps_no_quit start in_book lines s H)|].
  intros l2 args E. exact (step_isready start in_book _ l2 args E).
Qed.
End Alive.
