(* Theorems about model/Search.v, part 3 (C19): the run is a function of the position, the streams and the
   depth; the jitter stream is only read below the final stream index. *)
From Coq Require Import NArith ZArith List Bool Lia ZifyBool ZifyN ZifyNat.
From WV Require Import Types Bits Attacks Board MoveEnc MoveGen Text Table Eval Search.
From WV Require Import SearchBase.
Import ListNotations.
Import WV.Bits.
Open Scope N_scope.

(* ================================================================== *)
(* pointwise-equal streams give equal runs (no functional extensionality) *)
(* ================================================================== *)

Lemma loop_body_ext : forall (rec rec' : rec_t),
  (forall ns md cd ce a b p w, rec ns md cd ce a b p w = rec' ns md cd ce a b p w) ->
  forall s h md cd ce ext beta1 prev l alpha best kind w,
  loop_body rec s h md cd ce ext beta1 prev l alpha best kind w =
  loop_body rec' s h md cd ce ext beta1 prev l alpha best kind w.
Proof.
  intros rec rec' Hrec s h md cd ce ext beta1 prev l. induction l as [|m tl IH]; intros alpha best kind w.
  - reflexivity.
  - cbn [loop_body]. destruct (apply_move s m) as [ns|]; [|reflexivity].
    destruct (any _); [apply IH|]. rewrite <- Hrec.
    destruct (rec ns (md + ext) (cd + 1 + ext) (ce + ext) (- beta1)%Z (- alpha)%Z None w) as [r w'|w'|site|];
      try reflexivity.
    cbv zeta. destruct (beta1 <=? - r)%Z; [reflexivity|]. destruct (alpha <? - r)%Z; apply IH.
Qed.

Lemma keyed_moves_ext_in : forall jit jit' s j0,
  (forall i, (i < N.of_nat (length (MoveGen.pseudo_legal s)))%N -> jit (j0 + i) = jit' (j0 + i)) ->
  keyed_moves jit s j0 = keyed_moves jit' s j0.
Proof.
  intros jit jit' s j0 H. unfold keyed_moves. cbv zeta. apply map_ext_in. intros [i x] Hin. cbn [fst snd].
  apply in_combine_l in Hin. apply in_map_iff in Hin. destruct Hin as [n [<- Hn]]. apply in_seq in Hn.
  rewrite H by lia. reflexivity.
Qed.

Lemma ordered_moves_ext : forall jit jit' s j0 prio, (forall i, jit i = jit' i) ->
  ordered_moves jit s j0 prio = ordered_moves jit' s j0 prio.
Proof.
  intros jit jit' s j0 prio H. unfold ordered_moves.
  rewrite (keyed_moves_ext_in jit jit' s j0); [reflexivity|]. intros i _. apply H.
Qed.

Lemma node_body_ext : forall hs history jit jit' cancel (rec rec' : rec_t),
  (forall i, jit i = jit' i) ->
  (forall ns md cd ce a b p w, rec ns md cd ce a b p w = rec' ns md cd ce a b p w) ->
  forall s md cd ce a b prio w,
  node_body hs history jit cancel rec s md cd ce a b prio w =
  node_body hs history jit' cancel rec' s md cd ce a b prio w.
Proof.
  intros hs history jit jit' cancel rec rec' Hj Hrec s md cd ce a b prio w. unfold node_body.
  destruct (snd (enter_node cancel w)); [reflexivity|]. cbv zeta.
  destruct ((0 <? cd) && in_history history (hash hs s)); [reflexivity|].
  unfold node_continue. destruct (probe _ _ _ _ _ _); try reflexivity.
  destruct (md <=? cd); [reflexivity|].
  rewrite (ordered_moves_ext jit jit' _ _ _ Hj). apply loop_body_ext. exact Hrec.
Qed.

Theorem analyze_ext : forall hs history jit jit' cancel, (forall i, jit i = jit' i) ->
  forall fuel s maxd cur ext a b prio w,
  analyze hs history jit cancel fuel s maxd cur ext a b prio w =
  analyze hs history jit' cancel fuel s maxd cur ext a b prio w.
Proof.
  intros hs history jit jit' cancel Hj. induction fuel as [|k IH]; intros; [reflexivity|].
  rewrite !analyze_S. apply node_body_ext; [exact Hj|]. intros. apply IH.
Qed.

Lemma iterate_ext : forall hs jit_of jit_of' cancel, (forall d i, jit_of d i = jit_of' d i) ->
  forall iters depth s history tt gnodes flag trace nt be bm acc,
  iterate hs jit_of cancel iters depth s history tt gnodes flag trace nt be bm acc =
  iterate hs jit_of' cancel iters depth s history tt gnodes flag trace nt be bm acc.
Proof.
  intros hs jit_of jit_of' cancel Hj iters. induction iters as [|k IH]; intros; [reflexivity|].
  cbn [iterate]. destruct ((0 <? depth) && flag); [reflexivity|]. cbv zeta.
  rewrite (analyze_ext hs history (jit_of depth) (jit_of' depth) cancel (Hj depth)).
  destruct (analyze hs history (jit_of' depth) cancel (S (S (N.to_nat depth))) s (depth + 1) 0 0
                    (- mate_in_ply 0)%Z (mate_in_ply 0) bm (mkW tt 0 0 gnodes flag trace)) as [ev w|w|site|];
    [|reflexivity|reflexivity|reflexivity].
  destruct (iter_moves _ _ _ _ _ _) as [|mv tl]; [reflexivity|].
  destruct (POS_INF <=? ev)%Z; [reflexivity|]. apply IH.
Qed.

Theorem analyze_iterative_ext : forall hs jit_of jit_of' cancel iters s history tt,
  (forall d i, jit_of d i = jit_of' d i) ->
  analyze_iterative hs jit_of cancel iters s history tt = analyze_iterative hs jit_of' cancel iters s history tt.
Proof. intros hs jit_of jit_of' cancel iters s history tt Hj. unfold analyze_iterative. apply iterate_ext. exact Hj. Qed.

Theorem single_worker_deterministic : forall hs jit_of jit_of' cancel iters s history tt,
  (forall d i, jit_of d i = jit_of' d i) ->
  let r := analyze_iterative hs jit_of cancel iters s history tt in
  let r' := analyze_iterative hs jit_of' cancel iters s history tt in
  r_events r = r_events r' /\ r_gnodes r = r_gnodes r' /\ r_trace r = r_trace r' /\
  r_outcome r = r_outcome r' /\ r_tt r = r_tt r'.
Proof.
  intros hs jit_of jit_of' cancel iters s history tt Hj. cbv zeta.
  rewrite (analyze_iterative_ext hs jit_of jit_of' cancel iters s history tt Hj). repeat split.
Qed.

(* ================================================================== *)
(* the stream index only grows, and the stream is only read below it     *)
(* ================================================================== *)

Definition jmono (w : wstate) (r : sres Z) : Prop :=
  match r with SVal _ w' => w_jidx w <= w_jidx w' | SInterrupt w' => w_jidx w <= w_jidx w' | _ => True end.

Definition jrel (w w' : wstate) : Prop := w_jidx w <= w_jidx w'.

Lemma closure_jmono : forall cancel w r, closure_post cancel jrel w r -> jmono w r.
Proof.
  intros cancel w [v w'|w'|site|] H; cbn [closure_post jmono] in *; try exact H.
  destruct H as (w0 & H1 & _ & ->). exact H1.
Qed.

Lemma jmono_closure : forall cancel w r, jmono w r ->
  (forall w', r = SInterrupt w' -> exists w0, jrel w w0 /\ snd (enter_node cancel w0) = true /\ w' = fst (enter_node cancel w0)) ->
  closure_post cancel jrel w r.
Proof.
  intros cancel w [v w'|w'|site|] H Hi; cbn [closure_post jmono] in *; try exact H. exact (Hi w' eq_refl).
Qed.

Lemma jrel_refl : forall w, jrel w w. Proof. intros w. unfold jrel. lia. Qed.
Lemma jrel_trans : forall w1 w2 w3, jrel w1 w2 -> jrel w2 w3 -> jrel w1 w3.
Proof. unfold jrel. intros. lia. Qed.

Lemma analyze_jclosure : forall hs history jit cancel fuel s maxd cur ext a b prio w,
  closure_post cancel jrel w (analyze hs history jit cancel fuel s maxd cur ext a b prio w).
Proof.
  intros.
  apply (analyze_closure hs history jit cancel (fun _ => True) (fun _ _ => True) (fun _ _ => True)
           (fun _ _ _ _ _ _ _ => conj Logic.I Logic.I) jrel jrel_refl jrel_trans).
  - intros w0 _. unfold jrel, enter_node. cbn [fst w_jidx]. lia.
  - intros w0 x. unfold jrel, with_trace. cbn [w_jidx]. lia.
  - intros w0 d. unfold jrel, with_jidx. cbn [w_jidx]. lia.
  - intros w0 s0 m k c md e _ _ _. unfold jrel, with_insert. cbn [w_jidx]. lia.
  - exact Logic.I.
  - intros pm _. exact Logic.I.
Qed.

Theorem analyze_jmono : forall hs history jit cancel fuel s maxd cur ext a b prio w,
  jmono w (analyze hs history jit cancel fuel s maxd cur ext a b prio w).
Proof. intros. apply (closure_jmono cancel). apply analyze_jclosure. Qed.

Definition jbounded (bound : N) (r : sres Z) : Prop :=
  match r with SVal _ w' => w_jidx w' <= bound | SInterrupt w' => w_jidx w' <= bound | _ => False end.

Section Prefix.
Variable hs : hasher.
Variable history : list N.
Variables jit jit' : N -> Z.
Variable cancel : option N.
Variable bound : N.
Hypothesis Hpre : forall i, i < bound -> jit i = jit' i.

(* the loop never lowers the index *)
Lemma loop_jmono : forall (rec : rec_t),
  (forall ns md cd ce a b w, closure_post cancel jrel w (rec ns md cd ce a b None w)) ->
  forall s md cd ce ext beta1 prev l alpha best kind w, (cd < md)%N ->
  jmono w (loop_body rec s (hash hs s) md cd ce ext beta1 prev l alpha best kind w).
Proof.
  intros rec Hrec s md cd ce ext beta1 prev l alpha best kind w Hlt. apply (closure_jmono cancel).
  apply (loop_closure hs cancel (fun _ => True) (fun _ _ => True) (fun _ _ => True)
           (fun _ _ _ _ _ _ _ => conj Logic.I Logic.I) jrel jrel_trans
           (fun w0 s0 m k c md0 e _ _ _ => jrel_refl w0 : jrel w0 (with_insert w0 _ _)) rec (fun ns md0 cd0 ce0 a b w0 _ => Hrec ns md0 cd0 ce0 a b w0)
           s md cd ce ext beta1 prev Logic.I Hlt l (fun _ _ => or_intror Logic.I) alpha best kind w w
           (jrel_refl w) (fun _ _ => Logic.I)).
Qed.

Lemma loop_prefix : forall (rec rec' : rec_t),
  (forall ns md cd ce a b w, closure_post cancel jrel w (rec ns md cd ce a b None w)) ->
  (forall ns md cd ce a b w, jbounded bound (rec ns md cd ce a b None w) ->
     rec' ns md cd ce a b None w = rec ns md cd ce a b None w) ->
  forall s md cd ce ext beta1 prev, (cd < md)%N ->
  forall l alpha best kind w,
  jbounded bound (loop_body rec s (hash hs s) md cd ce ext beta1 prev l alpha best kind w) ->
  loop_body rec' s (hash hs s) md cd ce ext beta1 prev l alpha best kind w =
  loop_body rec s (hash hs s) md cd ce ext beta1 prev l alpha best kind w.
Proof.
  intros rec rec' Hmono Hrec s md cd ce ext beta1 prev Hlt l.
  induction l as [|m tl IH]; intros alpha best kind w Hb; [reflexivity|].
  cbn [loop_body] in Hb |- *. destruct (apply_move s m) as [ns|]; [|reflexivity].
  destruct (any _); [apply IH; exact Hb|].
  assert (Hc : jbounded bound (rec ns (md + ext) (cd + 1 + ext) (ce + ext) (- beta1)%Z (- alpha)%Z None w)).
  { destruct (rec ns (md + ext) (cd + 1 + ext) (ce + ext) (- beta1)%Z (- alpha)%Z None w) as [r w'|w'|site|];
      cbn [jbounded] in Hb |- *; try exact Hb.
    cbv zeta in Hb. destruct (beta1 <=? - r)%Z; [exact Hb|].
    destruct (alpha <? - r)%Z.
    - pose proof (loop_jmono rec Hmono s md cd ce ext beta1 prev tl (- r)%Z (Some m) Exact w' Hlt) as Hm.
      destruct (loop_body rec s (hash hs s) md cd ce ext beta1 prev tl (- r)%Z (Some m) Exact w');
        cbn [jmono jbounded] in Hm, Hb; try lia; destruct Hb.
    - pose proof (loop_jmono rec Hmono s md cd ce ext beta1 prev tl alpha best kind w' Hlt) as Hm.
      destruct (loop_body rec s (hash hs s) md cd ce ext beta1 prev tl alpha best kind w');
        cbn [jmono jbounded] in Hm, Hb; try lia; destruct Hb. }
  rewrite (Hrec _ _ _ _ _ _ _ Hc).
  destruct (rec ns (md + ext) (cd + 1 + ext) (ce + ext) (- beta1)%Z (- alpha)%Z None w) as [r w'|w'|site|];
    try reflexivity.
  cbv zeta in Hb |- *. destruct (beta1 <=? - r)%Z; [reflexivity|].
  destruct (alpha <? - r)%Z; apply IH; exact Hb.
Qed.

Lemma ordered_moves_short : forall s j0 prio, (length (MoveGen.pseudo_legal s) < 2)%nat ->
  ordered_moves jit' s j0 prio = ordered_moves jit s j0 prio.
Proof.
  intros s j0 prio H. unfold ordered_moves, keyed_moves. cbv zeta.
  destruct (MoveGen.pseudo_legal s) as [|x [|y tl]]; [reflexivity|reflexivity|].
  cbn [length] in H. lia.
Qed.

Theorem analyze_prefix : forall fuel s maxd cur ext a b prio w,
  jbounded bound (analyze hs history jit cancel fuel s maxd cur ext a b prio w) ->
  analyze hs history jit' cancel fuel s maxd cur ext a b prio w =
  analyze hs history jit cancel fuel s maxd cur ext a b prio w.
Proof.
  induction fuel as [|k IH]; intros s maxd cur ext a b prio w Hb; [reflexivity|].
  rewrite !analyze_S in *. unfold node_body in *.
  destruct (snd (enter_node cancel w)); [reflexivity|]. cbv zeta in *.
  destruct ((0 <? cur) && in_history history (hash hs s)); [reflexivity|].
  unfold node_continue in *.
  destruct (probe _ _ _ _ _ _) as [v|a1 b1|site]; try reflexivity.
  destruct (maxd <=? cur) eqn:Hmd; [reflexivity|]. apply N.leb_gt in Hmd.
  set (w1 := with_trace (fst (enter_node cancel w)) (hash hs s, cur, maxd, a, b)) in *.
  assert (Hmono : forall ns md cd ce a0 b0 w0,
            closure_post cancel jrel w0 (analyze hs history jit cancel k ns md cd ce a0 b0 None w0)).
  { intros. apply analyze_jclosure. }
  assert (Hord : ordered_moves jit' s (w_jidx w1) prio = ordered_moves jit s (w_jidx w1) prio).
  { destruct (length (MoveGen.pseudo_legal s) <? 2)%nat eqn:Hlen.
    - apply ordered_moves_short. apply Nat.ltb_lt. exact Hlen.
    - pose proof (loop_jmono _ Hmono s maxd cur ext (node_ext s ext) b1 (w_nodes w1)
                    (ordered_moves jit s (w_jidx w1) prio) a1 None UpperBound
                    (with_jidx w1 (drawn_count s)) Hmd) as Hm.
      assert (Hj : w_jidx w1 + N.of_nat (length (MoveGen.pseudo_legal s)) <= bound).
      { destruct (loop_body _ _ _ _ _ _ _ _ _ _ _ _ _ _) as [v0 w0|w0|site0|];
          cbn [jmono jbounded] in Hm, Hb; [| |destruct Hb|destruct Hb];
          unfold with_jidx, drawn_count in Hm; cbv zeta in Hm; rewrite Hlen in Hm; cbn [w_jidx] in Hm; lia. }
      unfold ordered_moves. rewrite (keyed_moves_ext_in jit' jit s (w_jidx w1)); [reflexivity|].
      intros i Hi. symmetry. apply Hpre. lia. }
  rewrite Hord. apply loop_prefix; [exact Hmono| |exact Hmd|exact Hb].
  intros ns md cd ce a0 b0 w0 Hc. apply IH. exact Hc.
Qed.
End Prefix.
