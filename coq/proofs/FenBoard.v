(* FEN reader/writer, part 2: the piece map under WfBoard, the placement field round trip,
   the reader's placement invariant. *)
From WV Require Import Text Wf FenSpec BitsProofs FenBase.
From Coq Require Import Lia ZifyBool ZifyN ZifyNat.
Ltac Zify.zify_post_hook ::= Z.div_mod_to_equations.
Open Scope N_scope.
Arguments N.add : simpl never.
Arguments N.sub : simpl never.
Arguments N.mul : simpl never.
Arguments N.land : simpl never.
Arguments N.lor : simpl never.
Arguments N.shiftl : simpl never.
Arguments N.shiftr : simpl never.

Lemma two64_pow : two64 = 2 ^ 64.
Proof. reflexivity. Qed.

(* ------------------------------------------------------------------ WfBoard as a proposition *)

Definition slots12 : list (color * piece) :=
  [(White, Pawn); (White, Knight); (White, Bishop); (White, Rook); (White, Queen); (White, King);
   (Black, Pawn); (Black, Knight); (Black, Bishop); (Black, Rook); (Black, Queen); (Black, King)].
Definition poccp (b : board) (cp : color * piece) : N := pocc b (fst cp) (snd cp).

Lemma all_slots_map : forall b, all_slots b = map (poccp b) slots12.
Proof. intros b. reflexivity. Qed.

Lemma cp_dec : forall x y : color * piece, {x = y} + {x <> y}.
Proof. decide equality; decide equality. Qed.

Lemma slots12_In : forall c p, p <> PNone -> In (c, p) slots12.
Proof.
  intros c p Hp. destruct c, p; try congruence; cbn [In slots12]; tauto.
Qed.

Lemma slots12_NoDup : NoDup slots12.
Proof.
  unfold slots12.
  repeat (constructor; [cbn [In]; intros H; repeat (destruct H as [H|H]; [discriminate H|]); exact H|]).
  constructor.
Qed.

Lemma land0_iff : forall x y, N.land x y = 0 <->
  (forall s, N.testbit x s = true -> N.testbit y s = true -> False).
Proof.
  intros x y. split.
  - intros H s Hx Hy. assert (E : N.testbit (N.land x y) s = true) by (rewrite N.land_spec, Hx, Hy; reflexivity).
    rewrite H, N.bits_0 in E. discriminate.
  - intros H. apply N.bits_inj. intros s. rewrite N.land_spec, N.bits_0.
    destruct (N.testbit x s) eqn:Ex; [|reflexivity]. destruct (N.testbit y s) eqn:Ey; [|reflexivity].
    exfalso. exact (H s Ex Ey).
Qed.

Lemma pairwise_map : forall (A : Type) (f : A -> N) (l : list A), NoDup l ->
  (pairwise_disjoint (map f l) = true <->
   forall x y, In x l -> In y l -> x <> y -> N.land (f x) (f y) = 0).
Proof.
  intros A f. induction l as [|a tl IH]; intros Hnd.
  - cbn. split; [intros _ x y []|reflexivity].
  - inversion Hnd as [|a' tl' Hnotin Hnd']; subst.
    cbn [map pairwise_disjoint]. rewrite andb_true_iff, forallb_forall, (IH Hnd'). split.
    + intros [Ha Ht] x y [<-|Hx] [<-|Hy] Hxy.
      * congruence.
      * apply N.eqb_eq. apply Ha. apply in_map. exact Hy.
      * rewrite N.land_comm. apply N.eqb_eq. apply Ha. apply in_map. exact Hx.
      * apply Ht; assumption.
    + intros H. split.
      * intros z Hz. apply in_map_iff in Hz as (y & <- & Hy). apply N.eqb_eq.
        apply H; [left; reflexivity | right; exact Hy | intros ->; contradiction].
      * intros x y Hx Hy Hxy. apply H; [right; exact Hx | right; exact Hy | exact Hxy].
Qed.

Definition WfB (b : board) : Prop :=
  (forall c p, pocc b c p < 2 ^ 64) /\
  (forall c p c' p' s, test (pocc b c p) s = true -> test (pocc b c' p') s = true -> (c, p) = (c', p')).

Lemma pocc_none : forall b c, pocc b c PNone = 0.
Proof. intros b [|]; reflexivity. Qed.

Lemma WfBoard_iff : forall b, WfBoard b <-> WfB b.
Proof.
  intros b. unfold WfBoard, wf_boardb, WfB. rewrite andb_true_iff, all_slots_map.
  rewrite (pairwise_map _ (poccp b) slots12 slots12_NoDup), forallb_forall. split.
  - intros [Hlt Hdj]. split.
    + intros c p. destruct (piece_to_N p =? 0) eqn:Ep.
      * destruct p; try discriminate. rewrite pocc_none. reflexivity.
      * assert (Hp : p <> PNone) by (intros ->; discriminate).
        rewrite <- two64_pow. apply N.ltb_lt. apply Hlt.
        apply (in_map (poccp b) slots12 (c, p)). apply slots12_In. exact Hp.
    + intros c p c' p' s H1 H2.
      destruct (cp_dec (c, p) (c', p')) as [E|NE]; [exact E|exfalso].
      assert (Hp : p <> PNone) by (intros ->; rewrite pocc_none in H1; unfold test in H1; rewrite N.bits_0 in H1; discriminate).
      assert (Hp' : p' <> PNone) by (intros ->; rewrite pocc_none in H2; unfold test in H2; rewrite N.bits_0 in H2; discriminate).
      pose proof (Hdj (c, p) (c', p') (slots12_In c p Hp) (slots12_In c' p' Hp') NE) as H0.
      apply (proj1 (land0_iff _ _) H0 s); assumption.
  - intros [Hlt Hdj]. split.
    + intros x Hx. apply in_map_iff in Hx as ([c p] & <- & _). apply N.ltb_lt. rewrite two64_pow. apply Hlt.
    + intros [c p] [c' p'] _ _ NE. apply land0_iff. intros s H1 H2. apply NE. exact (Hdj c p c' p' s H1 H2).
Qed.

(* ------------------------------------------------------------------ pset / pset_bit *)

Lemma pocc_pset_same : forall b c p v, p <> PNone -> pocc (pset b c p v) c p = v.
Proof. intros b c p v Hp. destruct c, p; try congruence; reflexivity. Qed.

Lemma pocc_pset_other : forall b c p v c' p', (c, p) <> (c', p') -> pocc (pset b c p v) c' p' = pocc b c' p'.
Proof. intros b c p v c' p' NE. destruct c, p, c', p'; try reflexivity; congruence. Qed.

Lemma pset_bit_test : forall b c p sq c' p' s, p <> PNone ->
  (test (pocc (pset_bit b c p sq true) c' p') s = true <->
   test (pocc b c' p') s = true \/ ((c, p) = (c', p') /\ sq = s)).
Proof.
  intros b c p sq c' p' s Hp. unfold pset_bit.
  destruct (cp_dec (c, p) (c', p')) as [E|NE].
  - injection E as <- <-. rewrite pocc_pset_same by exact Hp. unfold test. rewrite setb_true_spec.
    rewrite orb_true_iff, N.eqb_eq. tauto.
  - rewrite pocc_pset_other by exact NE. tauto.
Qed.

Lemma pset_bit_wf : forall b c p sq, WfB b -> p <> PNone -> sq < 64 ->
  (forall c' p', test (pocc b c' p') sq = false) -> WfB (pset_bit b c p sq true).
Proof.
  intros b c p sq [Hlt Hdj] Hp Hsq Hfree. split.
  - intros c' p'. unfold pset_bit. destruct (cp_dec (c, p) (c', p')) as [E|NE].
    + injection E as <- <-. rewrite pocc_pset_same by exact Hp. apply setb_true_lt; [apply Hlt | exact Hsq].
    + rewrite pocc_pset_other by exact NE. apply Hlt.
  - intros c1 p1 c2 p2 s H1 H2.
    apply pset_bit_test in H1; [|exact Hp]. apply pset_bit_test in H2; [|exact Hp].
    destruct H1 as [H1|[E1 S1]], H2 as [H2|[E2 S2]].
    + exact (Hdj _ _ _ _ _ H1 H2).
    + subst s. rewrite Hfree in H1. discriminate.
    + subst s. rewrite Hfree in H2. discriminate.
    + congruence.
Qed.

Lemma board_ext : forall b1 b2, (forall c p, pocc b1 c p = pocc b2 c p) -> b1 = b2.
Proof.
  intros [a1 a2 a3 a4 a5 a6 a7 a8 a9 a10 a11 a12] [c1 c2 c3 c4 c5 c6 c7 c8 c9 c10 c11 c12] H.
  pose proof (H White Pawn) as E1. pose proof (H White Knight) as E2. pose proof (H White Bishop) as E3.
  pose proof (H White Rook) as E4. pose proof (H White Queen) as E5. pose proof (H White King) as E6.
  pose proof (H Black Pawn) as E7. pose proof (H Black Knight) as E8. pose proof (H Black Bishop) as E9.
  pose proof (H Black Rook) as E10. pose proof (H Black Queen) as E11. pose proof (H Black King) as E12.
  cbn [pocc wP wN wB wR wQ wK bP bN bB bR bQ bK] in *. congruence.
Qed.

(* ------------------------------------------------------------------ piece_at *)

Lemma piece_at_Some : forall b s c p, piece_at b s = Some (c, p) -> p <> PNone /\ test (pocc b c p) s = true.
Proof.
  intros b s c p. unfold piece_at, all_pieces. cbn [find pocc].
  destruct (test (wP b) s) eqn:T1; [intros H; injection H as <- <-; split; [discriminate|exact T1]|].
  destruct (test (wN b) s) eqn:T2; [intros H; injection H as <- <-; split; [discriminate|exact T2]|].
  destruct (test (wB b) s) eqn:T3; [intros H; injection H as <- <-; split; [discriminate|exact T3]|].
  destruct (test (wR b) s) eqn:T4; [intros H; injection H as <- <-; split; [discriminate|exact T4]|].
  destruct (test (wQ b) s) eqn:T5; [intros H; injection H as <- <-; split; [discriminate|exact T5]|].
  destruct (test (wK b) s) eqn:T6; [intros H; injection H as <- <-; split; [discriminate|exact T6]|].
  destruct (test (bP b) s) eqn:T7; [intros H; injection H as <- <-; split; [discriminate|exact T7]|].
  destruct (test (bN b) s) eqn:T8; [intros H; injection H as <- <-; split; [discriminate|exact T8]|].
  destruct (test (bB b) s) eqn:T9; [intros H; injection H as <- <-; split; [discriminate|exact T9]|].
  destruct (test (bR b) s) eqn:T10; [intros H; injection H as <- <-; split; [discriminate|exact T10]|].
  destruct (test (bQ b) s) eqn:T11; [intros H; injection H as <- <-; split; [discriminate|exact T11]|].
  destruct (test (bK b) s) eqn:T12; [intros H; injection H as <- <-; split; [discriminate|exact T12]|].
  discriminate.
Qed.

Lemma piece_at_None : forall b s, piece_at b s = None -> forall c p, test (pocc b c p) s = false.
Proof.
  intros b s. unfold piece_at, all_pieces. cbn [find pocc].
  destruct (test (wP b) s) eqn:T1; [discriminate|].
  destruct (test (wN b) s) eqn:T2; [discriminate|].
  destruct (test (wB b) s) eqn:T3; [discriminate|].
  destruct (test (wR b) s) eqn:T4; [discriminate|].
  destruct (test (wQ b) s) eqn:T5; [discriminate|].
  destruct (test (wK b) s) eqn:T6; [discriminate|].
  destruct (test (bP b) s) eqn:T7; [discriminate|].
  destruct (test (bN b) s) eqn:T8; [discriminate|].
  destruct (test (bB b) s) eqn:T9; [discriminate|].
  destruct (test (bR b) s) eqn:T10; [discriminate|].
  destruct (test (bQ b) s) eqn:T11; [discriminate|].
  destruct (test (bK b) s) eqn:T12; [discriminate|].
  intros _ c p. destruct c, p; cbn [pocc]; try assumption; unfold test; apply N.bits_0.
Qed.

Lemma piece_at_unique : forall b s c p, WfB b -> test (pocc b c p) s = true -> piece_at b s = Some (c, p).
Proof.
  intros b s c p [_ Hdj] H. destruct (piece_at b s) as [[c' p']|] eqn:E.
  - apply piece_at_Some in E as [_ E]. rewrite (Hdj _ _ _ _ _ H E). reflexivity.
  - rewrite (piece_at_None b s E c p) in H. discriminate.
Qed.

(* ------------------------------------------------------------------ piece letters *)

Lemma piece_char_parse : forall c p, p <> PNone ->
  fen_piece_of_char (piece_char c p) = Some (c, p) /\
  ((ch_1 <=? piece_char c p) && (piece_char c p <=? ch_8)) = false /\
  (piece_char c p =? ch_space) = false /\ (piece_char c p =? ch_slash) = false /\
  is_placement_char (piece_char c p) = true.
Proof. intros c p Hp. destruct c, p; try congruence; vm_compute; repeat split. Qed.

Lemma piece_char_letter : forall c p, p <> PNone -> FenSpec.letter c p = piece_char c p.
Proof. intros c p Hp. destruct c, p; try congruence; reflexivity. Qed.

(* ------------------------------------------------------------------ one step of the placement reader *)

Definition flip (l : N) : N := mk_square (7 - rank_of l) (file_of l).

Lemma parse_run_step : forall e rest loc acc, e <= 8 -> loc + e <= 255 ->
  parse_placement ((if 0 <? e then dec_of_N e else []) ++ rest) loc acc = parse_placement rest (loc + e) acc.
Proof.
  intros e rest loc acc He Hl. destruct (0 <? e) eqn:E0.
  - apply N.ltb_lt in E0. rewrite dec_of_N_small by lia. cbn [app parse_placement].
    replace ((ch_1 <=? 48 + e) && (48 + e <=? ch_8)) with true by (unfold ch_1, ch_8; lia).
    replace (48 + e - ch_0) with e by (unfold ch_0; lia).
    replace (255 <? loc + e) with false by lia. reflexivity.
  - apply N.ltb_ge in E0. cbn [app]. replace (loc + e) with loc by lia. reflexivity.
Qed.

Lemma parse_piece_step : forall c p rest loc acc, p <> PNone -> loc <= 63 ->
  parse_placement (piece_char c p :: rest) loc acc
  = parse_placement rest (loc + 1) (pset_bit acc c p (flip loc) true).
Proof.
  intros c p rest loc acc Hp Hl. cbn [parse_placement].
  destruct (piece_char_parse c p Hp) as (E1 & E2 & E3 & E4 & _). rewrite E1, E2, E3, E4.
  pose proof (flip_le63 loc Hl) as Hf. fold (flip loc) in Hf |- *.
  replace (63 <? loc) with false by lia. replace (63 <? flip loc) with false by lia.
  replace (255 <? loc + 1) with false by lia. reflexivity.
Qed.

Lemma parse_slash_step : forall rest loc acc,
  parse_placement ([ch_slash] ++ rest) loc acc = parse_placement rest loc acc.
Proof. intros. reflexivity. Qed.

(* ------------------------------------------------------------------ one rank *)

Definition place (b acc : board) (s : N) : board :=
  match piece_at b s with Some (c, p) => pset_bit acc c p s true | None => acc end.

Fixpoint consec (files : list N) (f : N) : Prop :=
  match files with [] => f = 8 | x :: tl => x = f /\ consec tl (f + 1) end.

Lemma consec_le : forall files f, consec files f -> f <= 8.
Proof.
  induction files as [|x tl IH]; intros f H; cbn [consec] in H.
  - lia.
  - destruct H as [_ H]. apply IH in H. lia.
Qed.

Lemma consec_files8 : consec files8 0.
Proof. cbn. repeat split. Qed.

Lemma parse_rank : forall b r, r <= 7 -> forall files f empty loc acc rest,
  consec files f -> empty <= f -> loc + empty = 8 * (7 - r) + f ->
  parse_placement (fen_rank_aux b r files empty ++ rest) loc acc
  = parse_placement rest (8 * (7 - r) + 8) (fold_left (place b) (map (mk_square r) files) acc).
Proof.
  intros b r Hr. induction files as [|x tl IH]; intros f empty loc acc rest Hc He Hl.
  - cbn [consec] in Hc. subst f. cbn [fen_rank_aux map fold_left].
    rewrite parse_run_step by lia. f_equal. lia.
  - cbn [consec] in Hc. destruct Hc as [-> Hc]. pose proof (consec_le _ _ Hc) as Hf.
    cbn [fen_rank_aux map fold_left]. unfold place at 2.
    destruct (piece_at b (mk_square r f)) as [[c p]|] eqn:E.
    + apply piece_at_Some in E as [Hp _].
      rewrite <- List.app_assoc. rewrite parse_run_step by lia.
      rewrite <- List.app_comm_cons. rewrite parse_piece_step by (try exact Hp; lia).
      replace (flip (loc + empty)) with (mk_square r f)
        by (rewrite Hl; unfold flip; symmetry; apply flip_mk; lia).
      apply (IH (f + 1)); [exact Hc | lia | lia].
    + apply (IH (f + 1)); [exact Hc | lia | lia].
Qed.

Definition rank_txt (b : board) (r : N) : text := fen_rank_aux b r files8 0.

Lemma parse_rank0 : forall b r loc acc rest, r <= 7 -> loc = 8 * (7 - r) ->
  parse_placement (rank_txt b r ++ rest) loc acc
  = parse_placement rest (loc + 8) (fold_left (place b) (map (mk_square r) files8) acc).
Proof.
  intros b r loc acc rest Hr ->. unfold rank_txt.
  rewrite (parse_rank b r Hr files8 0 0 (8 * (7 - r)) acc rest consec_files8); [reflexivity | lia | lia].
Qed.

Lemma fen_board_eq : forall b, fen_board b =
  rank_txt b 7 ++ [ch_slash] ++ rank_txt b 6 ++ [ch_slash] ++ rank_txt b 5 ++ [ch_slash] ++ rank_txt b 4 ++ [ch_slash]
  ++ rank_txt b 3 ++ [ch_slash] ++ rank_txt b 2 ++ [ch_slash] ++ rank_txt b 1 ++ [ch_slash] ++ rank_txt b 0.
Proof.
  intros b. unfold fen_board, ranks_desc. cbn [flat_map]. fold (rank_txt b 7). fold (rank_txt b 6).
  fold (rank_txt b 5). fold (rank_txt b 4). fold (rank_txt b 3). fold (rank_txt b 2). fold (rank_txt b 1).
  fold (rank_txt b 0).
  change (7 =? 0) with false. change (6 =? 0) with false. change (5 =? 0) with false.
  change (4 =? 0) with false. change (3 =? 0) with false. change (2 =? 0) with false.
  change (1 =? 0) with false. change (0 =? 0) with true. cbv iota.
  rewrite <- !List.app_assoc. rewrite !List.app_nil_r. reflexivity.
Qed.

(* ------------------------------------------------------------------ the accumulated board *)

Lemma place_fold_test : forall b l acc c p s,
  test (pocc (fold_left (place b) l acc) c p) s = true <->
  test (pocc acc c p) s = true \/ (In s l /\ piece_at b s = Some (c, p)).
Proof.
  intros b. induction l as [|x tl IH]; intros acc c p s; cbn [fold_left In].
  - tauto.
  - rewrite IH. unfold place. destruct (piece_at b x) as [[c0 p0]|] eqn:E.
    + pose proof (piece_at_Some _ _ _ _ E) as [Hp0 _]. rewrite (pset_bit_test acc c0 p0 x c p s Hp0). split.
      * intros [[H|[E1 E2]]|[H1 H2]]; [left; exact H| |right; split; [right; exact H1|exact H2]].
        right. subst s. split; [left; reflexivity|]. rewrite E. f_equal. exact E1.
      * intros [H|[[H1|H1] H2]]; [left; left; exact H| |right; split; assumption].
        left. right. subst s. rewrite E in H2. injection H2 as <- <-. split; reflexivity.
    + split.
      * intros [H|[H1 H2]]; [left; exact H|right; split; [right; exact H1|exact H2]].
      * intros [H|[[H1|H1] H2]]; [left; exact H| |right; split; assumption].
        subst s. rewrite E in H2. discriminate.
Qed.

Lemma empty_board_test : forall c p s, test (pocc empty_board c p) s = false.
Proof. intros c p s. destruct c, p; unfold test; apply N.bits_0. Qed.

Lemma place_all_eq : forall b l, WfB b -> (forall s, s < 64 -> In s l) ->
  fold_left (place b) l empty_board = b.
Proof.
  intros b l Hwf Hall. apply board_ext. intros c p. apply N.bits_inj. intros s.
  apply eq_iff_eq_true. fold (test (pocc (fold_left (place b) l empty_board) c p) s). fold (test (pocc b c p) s).
  rewrite place_fold_test, empty_board_test. split.
  - intros [H|[_ H]]; [discriminate|]. apply piece_at_Some in H. tauto.
  - intros H. right. split.
    + apply Hall. destruct Hwf as [Hlt _]. eapply test_lt64; [apply Hlt | exact H].
    + apply piece_at_unique; assumption.
Qed.

Definition parse_order : list N :=
  (((((((map (mk_square 7) files8 ++ map (mk_square 6) files8) ++ map (mk_square 5) files8)
    ++ map (mk_square 4) files8) ++ map (mk_square 3) files8) ++ map (mk_square 2) files8)
    ++ map (mk_square 1) files8) ++ map (mk_square 0) files8).

Lemma parse_order_all : forall s, s < 64 -> In s parse_order.
Proof.
  intros s Hs.
  assert (H : forallb (fun s => existsb (N.eqb s) parse_order) squares = true) by (vm_compute; reflexivity).
  pose proof (forallb_squares _ H s Hs) as E. cbv beta in E.
  apply existsb_exists in E as (x & Hx & Ex). apply N.eqb_eq in Ex. subst x. exact Hx.
Qed.

Theorem placement_roundtrip : forall b, WfB b -> parse_placement (fen_board b) 0 empty_board = Ok b.
Proof.
  intros b Hwf. rewrite fen_board_eq.
  rewrite parse_rank0 by (try reflexivity; lia). rewrite parse_slash_step.
  rewrite parse_rank0 by (try reflexivity; lia). rewrite parse_slash_step.
  rewrite parse_rank0 by (try reflexivity; lia). rewrite parse_slash_step.
  rewrite parse_rank0 by (try reflexivity; lia). rewrite parse_slash_step.
  rewrite parse_rank0 by (try reflexivity; lia). rewrite parse_slash_step.
  rewrite parse_rank0 by (try reflexivity; lia). rewrite parse_slash_step.
  rewrite parse_rank0 by (try reflexivity; lia). rewrite parse_slash_step.
  rewrite <- (List.app_nil_r (rank_txt b 0)).
  rewrite parse_rank0 by (try reflexivity; lia). cbn [parse_placement].
  rewrite <- !fold_left_app. fold parse_order. f_equal.
  apply place_all_eq; [exact Hwf | exact parse_order_all].
Qed.

(* ------------------------------------------------------------------ the placement gate on the written board *)

Lemma rank_chars : forall b r files empty, empty + N.of_nat (length files) <= 8 ->
  forallb is_placement_char (fen_rank_aux b r files empty) = true.
Proof.
  intros b r. induction files as [|x tl IH]; intros empty He; cbn [fen_rank_aux length] in *.
  - destruct (0 <? empty) eqn:E0; [|reflexivity]. apply N.ltb_lt in E0.
    rewrite dec_of_N_small by lia. cbn [forallb].
    assert (Hc : empty = 1 \/ empty = 2 \/ empty = 3 \/ empty = 4 \/ empty = 5 \/ empty = 6 \/ empty = 7 \/ empty = 8) by lia.
    destruct Hc as [->|[->|[->|[->|[->|[->|[->| ->]]]]]]]; reflexivity.
  - destruct (piece_at b (mk_square r x)) as [[c p]|] eqn:E.
    + apply piece_at_Some in E as [Hp _]. rewrite forallb_app. cbn [forallb].
      destruct (piece_char_parse c p Hp) as (_ & _ & _ & _ & E5). rewrite E5.
      rewrite IH by lia. rewrite andb_true_r.
      destruct (0 <? empty) eqn:E0; [|reflexivity]. apply N.ltb_lt in E0.
      rewrite dec_of_N_small by lia. cbn [forallb].
      assert (Hc : empty = 1 \/ empty = 2 \/ empty = 3 \/ empty = 4 \/ empty = 5 \/ empty = 6 \/ empty = 7 \/ empty = 8) by lia.
      destruct Hc as [->|[->|[->|[->|[->|[->|[->| ->]]]]]]]; reflexivity.
    + apply IH. lia.
Qed.

Lemma rank_nonempty : forall b r files empty, (files <> [] \/ 0 < empty) -> fen_rank_aux b r files empty <> [].
Proof.
  intros b r. induction files as [|x tl IH]; intros empty H; cbn [fen_rank_aux].
  - destruct H as [H|H]; [congruence|]. replace (0 <? empty) with true by lia. apply dec_of_N_nonempty.
  - destruct (piece_at b (mk_square r x)) as [[c p]|].
    + intros E. apply app_eq_nil in E as [_ E]. discriminate.
    + apply IH. right. lia.
Qed.

Lemma rank_txt_chars : forall b r, forallb is_placement_char (rank_txt b r) = true.
Proof. intros b r. apply rank_chars. cbn. lia. Qed.

Lemma rank_txt_nonempty : forall b r, rank_txt b r <> [].
Proof. intros b r. apply rank_nonempty. left. discriminate. Qed.

Lemma chunk_ok : forall (q : N -> bool) l, l <> [] -> forallb q l = true ->
  match l with [] => false | _ => forallb q l end = true.
Proof. intros q [|x tl] Hne H; [congruence | exact H]. Qed.

Lemma gate_placement_board : forall b, gate_placement (fen_board b) = true.
Proof.
  intros b. unfold gate_placement. rewrite fen_board_eq.
  rewrite split8; try reflexivity;
    try (eapply forallb_impl; [apply placement_char_not_slash | apply rank_txt_chars]).
  cbn [length forallb Nat.eqb andb].
  rewrite !chunk_ok by (first [apply rank_txt_nonempty | apply rank_txt_chars]). reflexivity.
Qed.

Lemma fen_board_forall : forall (q : N -> bool) b, q ch_slash = true ->
  (forall c, is_placement_char c = true -> q c = true) -> forallb q (fen_board b) = true.
Proof.
  intros q b Hs Hq. rewrite fen_board_eq. rewrite !forallb_app. cbn [forallb]. rewrite Hs.
  rewrite !(forallb_impl _ _ _ _ Hq (rank_txt_chars b _)). reflexivity.
Qed.

Lemma fen_board_not_ws : forall b, forallb (fun x => negb (is_ws x)) (fen_board b) = true.
Proof. intros b. apply fen_board_forall; [reflexivity | apply placement_char_not_ws]. Qed.

(* ------------------------------------------------------------------ the reader's board is well formed *)

Definition PInv (loc : N) (b : board) : Prop :=
  WfB b /\ forall c p s, test (pocc b c p) s = true -> exists l, l < loc /\ l <= 63 /\ s = flip l.

Lemma flip_inj : forall l1 l2, l1 <= 63 -> l2 <= 63 -> flip l1 = flip l2 -> l1 = l2.
Proof. intros l1 l2 H1 H2. unfold flip, mk_square, rank_of, file_of. lia. Qed.

Lemma PInv_mono : forall loc loc' b, loc <= loc' -> PInv loc b -> PInv loc' b.
Proof.
  intros loc loc' b Hle [Hwf Hb]. split; [exact Hwf|].
  intros c p s H. destruct (Hb c p s H) as (l & H1 & H2 & H3). exists l. repeat split; try assumption. lia.
Qed.

Lemma PInv_place : forall loc b c p, PInv loc b -> p <> PNone -> loc <= 63 ->
  PInv (loc + 1) (pset_bit b c p (flip loc) true).
Proof.
  intros loc b c p [Hwf Hb] Hp Hl. split.
  - apply pset_bit_wf; try assumption.
    + pose proof (flip_le63 loc Hl) as H. unfold flip. lia.
    + intros c' p'. destruct (test (pocc b c' p') (flip loc)) eqn:E; [|reflexivity].
      destruct (Hb c' p' _ E) as (l & H1 & H2 & H3). apply flip_inj in H3; [lia | exact Hl | exact H2].
  - intros c' p' s H. apply pset_bit_test in H; [|exact Hp]. destruct H as [H|[_ <-]].
    + destruct (Hb c' p' s H) as (l & H1 & H2 & H3). exists l. repeat split; try assumption. lia.
    + exists loc. repeat split; [lia | exact Hl].
Qed.

Lemma parse_placement_wf : forall l loc b b', PInv loc b -> parse_placement l loc b = Ok b' -> WfB b'.
Proof.
  induction l as [|c tl IH]; intros loc b b' Hinv H; cbn [parse_placement] in H.
  - injection H as <-. exact (proj1 Hinv).
  - destruct ((ch_1 <=? c) && (c <=? ch_8)).
    + destruct (255 <? loc + (c - ch_0)); [discriminate|].
      eapply IH; [|exact H]. eapply PInv_mono; [|exact Hinv]. lia.
    + destruct (c =? ch_space); [injection H as <-; exact (proj1 Hinv)|].
      destruct (c =? ch_slash); [eapply IH; [exact Hinv | exact H]|].
      destruct (fen_piece_of_char c) as [[col p]|] eqn:Ep; [|discriminate].
      destruct (63 <? loc) eqn:Hloc; [discriminate|]. apply N.ltb_ge in Hloc.
      fold (flip loc) in H.
      destruct (63 <? flip loc); [discriminate|].
      destruct (255 <? loc + 1); [discriminate|].
      eapply IH; [|exact H]. apply PInv_place; [exact Hinv | | exact Hloc].
      intros ->. revert Ep. unfold fen_piece_of_char.
      repeat match goal with |- context [if ?x then _ else _] => destruct x end; discriminate.
Qed.

Lemma PInv_empty : PInv 0 empty_board.
Proof.
  split.
  - apply WfBoard_iff. reflexivity.
  - intros c p s H. rewrite empty_board_test in H. discriminate.
Qed.

Theorem reader_board_wf : forall l b, parse_placement l 0 empty_board = Ok b -> WfBoard b.
Proof. intros l b H. apply WfBoard_iff. eapply parse_placement_wf; [apply PInv_empty | exact H]. Qed.
