(* C06, first half: soundness of mate claims of the search model (model/Search.v) against the rules-level
   forced mate of spec/GameValue.v.

     "If a search reports a winning terminal evaluation for the side to move, that side really has a forced
      checkmate from the searched position."

   Layers: (1) proofs/MateValue.v (Won / Lost, one-step lemmas, rule-key invariance);
           (2) the evaluator and quiescence  (eval_sound, quiesce_sound);
           (3) the table probe               (probe_sound, TOk_insert);
           (4) the move loop                 (loop_sound);
           (5) a node, (6) analyze           (node_sound, analyze_sound);
           (7) iterate / analyze_iterative   (iterate_sound, iterative_sound);
           and, independently, "no UpperBound entry is ever written" (analyze_no_upper).

   RESIDUES (explicit premises):
     a REGION P       a set of legal positions, closed under generated legal moves (Region P), on which the
                      heuristic score of a position that has a legal move is not a terminal score (HeurNTOn P).
                      The global form (P = every legal position: HeurNonTerminal) is what the task text names, but
                      it is FALSE (EvalBound.nonterminal_counterexample: K+9Q+2R+2B+2N v K scores 10388; and
                      MateRegion.wall_violation is a legal position where the search reports a mate that does
                      not exist), so the theorems are stated relative to a region; the global form is the
                      instance P := LegalPos.  MateRegion.v discharges the residue for "at most ten men".
     HashRuleOn P hs  positions of P with equal hash have equal rule keys (no collision; C08).  The task's global
                      HashRule hs is the instance P := LegalPos.

   The working table invariant (TOk P hs) is symmetric in the bound kinds (ScoreOkU), so analyze_sound needs no
   UpperBound-freeness; NoUpper is needed only by the iterative driver (an interrupted iteration reports the root
   entry's value whatever its kind).  The task's ScoreOk / TScore / NoUpper / TInv form is recovered by
   TOk_of_TScore / TScore_of_TOk (sound_call_literal, sound_iterative_literal). *)
From Coq Require Import NArith ZArith List Bool Lia ZifyBool ZifyN ZifyNat.
From WV Require Import Types Bits Attacks Board MoveEnc MoveGen Text Table Eval Search.
From WV Require Import Rules Abs Wf Encode GameValue.
From WV Require Import BoardProofs GenLegal TableProofs HashProofs EvalProofs EvalBound SearchBase SearchProofs SearchSafety.
From WV Require Export MateValue.
Import ListNotations.
Import WV.Bits.
Open Scope Z_scope.

(* ------------------------------------------------------------------ *)
(* definitions                                                          *)
(* ------------------------------------------------------------------ *)

(* what a table entry may claim about a position with its key (the task's form: nothing is known of UpperBound
   entries, so tables are also required to be free of them: NoUpper) *)
Definition ScoreOk (e : entry) (s : state) : Prop :=
  (POS_INF <= e_eval e -> (e_kind e = Exact \/ e_kind e = LowerBound) -> Won s) /\
  (e_eval e <= NEG_INF -> e_kind e = Exact -> Lost s).

Definition TScore (hs : hasher) (tt : access) : Prop :=
  forall h e, acc_find tt h = Some e -> forall s, LegalPos s -> hash hs s = h -> ScoreOk e s.

Definition NoUpper (tt : access) : Prop :=
  forall h e, acc_find tt h = Some e -> e_kind e <> UpperBound.

(* the named no-collision residue, global form *)
Definition HashRule (hs : hasher) : Prop :=
  forall s1 s2, LegalPos s1 -> LegalPos s2 -> hash hs s1 = hash hs s2 -> rulekey s1 = rulekey s2.

(* the working invariant, relative to a region P of positions.  It is symmetric in the bound kinds (an
   UpperBound entry with a losing terminal value must be a real loss), so that analyze_sound needs no
   UpperBound-freeness; and it carries the legality of the stored move (needed for the prioritised move of the
   next iteration). *)
Definition ScoreOkU (e : entry) (s : state) : Prop :=
  (POS_INF <= e_eval e -> (e_kind e = Exact \/ e_kind e = LowerBound) -> Won s) /\
  (e_eval e <= NEG_INF -> (e_kind e = Exact \/ e_kind e = UpperBound) -> Lost s).
Definition EntryOk (e : entry) (s : state) : Prop := ScoreOkU e s /\ In (e_move e) (MoveGen.legal_moves s).
Definition TEntries (P : state -> Prop) (hs : hasher) (tt : access) : Prop :=
  forall h e, acc_find tt h = Some e -> forall s, P s -> hash hs s = h -> EntryOk e s.
Definition TOk (P : state -> Prop) (hs : hasher) (tt : access) : Prop := tt_ok tt /\ TEntries P hs tt.

(* no collision between positions of the region *)
Definition HashRuleOn (P : state -> Prop) (hs : hasher) : Prop :=
  forall s1 s2, P s1 -> P s2 -> hash hs s1 = hash hs s2 -> rulekey s1 = rulekey s2.

(* the material caveat of C05, relative to a region of positions *)
Definition HeurNTOn (P : state -> Prop) : Prop :=
  forall s p, P s -> gen_legal s <> [] -> is_terminal (heuristic (st_board s) p) = false.
Definition Region (P : state -> Prop) : Prop :=
  (forall s, P s -> LegalPos s) /\ (forall s m ns, P s -> In (m, ns) (gen_legal s) -> P ns).
(* the global form (false: see the header) *)
Definition HeurNonTerminal : Prop := HeurNTOn LegalPos.

(* the positions reachable from a root by generated legal moves: the smallest region containing the root *)
Inductive Reach (s0 : state) : state -> Prop :=
  | Reach_root : Reach s0 s0
  | Reach_step : forall s m ns, Reach s0 s -> In (m, ns) (gen_legal s) -> Reach s0 ns.

Lemma Reach_region : forall s0, LegalPos s0 -> Region (Reach s0).
Proof.
  intros s0 H0. split.
  - intros s H. induction H as [|s m ns _ IH Hin]; [exact H0|].
    destruct (apply_saturating s m ns IH Hin) as (_ & _ & HLn). exact HLn.
  - intros s m ns H Hin. exact (Reach_step s0 s m ns H Hin).
Qed.

Lemma LegalPos_region : Region LegalPos.
Proof.
  split; [auto|]. intros s m ns HL Hin. destruct (apply_saturating s m ns HL Hin) as (_ & _ & HLn). exact HLn.
Qed.

Lemma POS_INF_val : POS_INF = 10000. Proof. reflexivity. Qed.
Lemma NEG_INF_val : NEG_INF = -10000. Proof. reflexivity. Qed.
Ltac infs := pose proof POS_INF_val; pose proof NEG_INF_val.

Lemma TOk_empty : forall P hs nt nb, (0 < nt)%nat -> (0 < nb)%nat -> TOk P hs (empty_access nt nb).
Proof.
  intros P hs nt nb Hnt Hnb. split; [apply tt_ok_empty; assumption|].
  intros h e H. pose proof (empty_refines nt nb Hnt Hnb h e H) as H1. discriminate H1.
Qed.

Lemma NoUpper_empty : forall nt nb, (0 < nt)%nat -> (0 < nb)%nat -> NoUpper (empty_access nt nb).
Proof. intros nt nb Hnt Hnb h e H. pose proof (empty_refines nt nb Hnt Hnb h e H) as H1. discriminate H1. Qed.

(* the task's table invariants (with UpperBound-freeness and C03's stored-move invariant) give the working one,
   and back *)
Lemma TOk_of_TScore : forall hs tt, tt_ok tt -> TScore hs tt -> NoUpper tt -> TInv hs tt -> TOk LegalPos hs tt.
Proof.
  intros hs tt Hok Hsc Hnu Hinv. split; [exact Hok|]. intros h e Hf s HL Hh.
  destruct (Hsc h e Hf s HL Hh) as [Hw Hl]. split; [|exact (Hinv h e Hf s HL Hh)].
  split; [exact Hw|]. intros H1 [H2|H2]; [exact (Hl H1 H2)|]. exfalso. exact (Hnu h e Hf H2).
Qed.

Lemma TScore_of_TOk : forall hs tt, TOk LegalPos hs tt -> tt_ok tt /\ TScore hs tt /\ TInv hs tt.
Proof.
  intros hs tt [Hok He]. split; [exact Hok|]. split.
  - intros h e Hf s HL Hh. destruct (He h e Hf s HL Hh) as [[Hw Hl] _]. split; [exact Hw|].
    intros H1 H2. apply Hl; [exact H1|left; exact H2].
  - intros h e Hf s HL Hh. exact (proj2 (He h e Hf s HL Hh)).
Qed.

(* ------------------------------------------------------------------ *)
(* small facts about the move list                                      *)
(* ------------------------------------------------------------------ *)

Lemma gen_legal_not_hit : forall s m ns, In (m, ns) (gen_legal s) ->
  In m (MoveGen.pseudo_legal s) /\ apply_move s m = Some ns /\ king_hit s ns = false.
Proof.
  intros s m ns H. unfold gen_legal in H. apply in_filter_map in H. destruct H as [m0 [Hin Ht]].
  unfold try_as_legal in Ht. destruct (apply_move s m0) as [n|] eqn:Ha; [|discriminate Ht].
  destruct (none _) eqn:Hn; [|discriminate Ht]. injection Ht as <- <-.
  split; [exact Hin|]. split; [exact Ha|]. unfold king_hit, any. unfold none in Hn. rewrite Hn. reflexivity.
Qed.

Lemma combine_in_r : forall (A B : Type) (l : list B) (l' : list A) x,
  length l' = length l -> In x l -> exists i, In (i, x) (combine l' l).
Proof.
  intros A B l. induction l as [|y tl IH]; intros l' x Hlen Hin; [destruct Hin|].
  destruct l' as [|i tl']; [discriminate Hlen|]. cbn [combine]. destruct Hin as [->|Hin].
  - exists i. left. reflexivity.
  - destruct (IH tl' x) as [j Hj]; [cbn [length] in Hlen; lia|exact Hin|]. exists j. right. exact Hj.
Qed.

Lemma ordered_moves_complete : forall jit s j0 prio m, In m (MoveGen.pseudo_legal s) ->
  In m (ordered_moves jit s j0 prio).
Proof.
  intros jit s j0 prio m Hin.
  assert (Hs : In m (rev (map snd (stable_sort (keyed_moves jit s j0))))).
  { apply in_rev. rewrite rev_involutive.
    destruct (combine_in_r N N (MoveGen.pseudo_legal s) (map N.of_nat (seq 0 (length (MoveGen.pseudo_legal s)))) m) as [i Hi];
      [rewrite map_length, seq_length; reflexivity | exact Hin |].
    apply in_map_iff. exists ((estimate s m + jit (j0 + i)%N)%Z, m). split; [reflexivity|].
    apply stable_sort_in. unfold keyed_moves. apply in_map_iff. exists (i, m). split; [reflexivity|exact Hi]. }
  unfold ordered_moves. destruct prio as [pm|]; [right; exact Hs|exact Hs].
Qed.

(* ------------------------------------------------------------------ *)
(* "no UpperBound entry is ever written" (no residue)                   *)
(* ------------------------------------------------------------------ *)

Definition NU (tt : access) : Prop := tt_ok tt /\ NoUpper tt.
Definition nu_post (r : sres Z) : Prop :=
  match r with SVal _ w' => NU (w_tt w') | SInterrupt w' => NU (w_tt w') | _ => True end.

Lemma NU_insert : forall tt h e, NU tt -> e_kind e <> UpperBound -> NU (acc_insert tt h e).
Proof.
  intros tt h e [Hok Hnu] Hk. split; [apply tt_ok_insert; exact Hok|].
  intros h2 x Hfind. destruct (acc_find_insert_cases _ _ _ _ _ Hok Hfind) as [[_ ->]|[_ Hold]];
    [exact Hk | exact (Hnu h2 x Hold)].
Qed.

Lemma loop_no_upper : forall (rec : rec_t),
  (forall ns md cd ce a b w, NU (w_tt w) -> nu_post (rec ns md cd ce a b None w)) ->
  forall s h md cd ce ext b1 prev l alpha best kind w, NU (w_tt w) ->
  (forall bm, best = Some bm -> kind = Exact) ->
  nu_post (loop_body rec s h md cd ce ext b1 prev l alpha best kind w).
Proof.
  intros rec Hrec s h md cd ce ext b1 prev l.
  induction l as [|m tl IH]; intros alpha best kind w Hw Hbest; cbn [loop_body].
  - destruct (prev =? w_nodes w)%N.
    + unfold eval_or_panic. destruct (evaluate s (st_turn s) cd); [exact Hw|exact Logic.I].
    + destruct best as [bm|]; [|exact Hw]. cbn [nu_post w_tt]. apply NU_insert; [exact Hw|].
      cbn [e_kind]. rewrite (Hbest bm eq_refl). discriminate.
  - destruct (apply_move s m) as [ns|]; [|exact Logic.I].
    destruct (any _); [apply IH; assumption|].
    pose proof (Hrec ns (md + ext)%N (cd + 1 + ext)%N (ce + ext)%N (- b1) (- alpha) w Hw) as Hc.
    destruct (rec ns (md + ext)%N (cd + 1 + ext)%N (ce + ext)%N (- b1) (- alpha) None w) as [r w'|w'|site|];
      cbn [nu_post] in Hc |- *; [|exact Hc|exact Logic.I|exact Logic.I].
    cbv zeta. destruct (b1 <=? - r).
    + cbn [nu_post w_tt]. apply NU_insert; [exact Hc|]. cbn [e_kind]. discriminate.
    + destruct (alpha <? - r); apply IH; try assumption. intros bm _. reflexivity.
Qed.

Theorem analyze_no_upper : forall hs history jit cancel fuel s maxd cur ext a b prio w,
  NU (w_tt w) -> nu_post (analyze hs history jit cancel fuel s maxd cur ext a b prio w).
Proof.
  intros hs history jit cancel. induction fuel as [|k IH]; intros s maxd cur ext a b prio w Hw; [exact Logic.I|].
  rewrite analyze_S. unfold node_body.
  destruct (snd (enter_node cancel w)); [cbn [nu_post]; rewrite ?enter_node_tt; exact Hw|]. cbv zeta.
  destruct ((0 <? cur)%N && in_history history (hash hs s)); [cbn [nu_post with_trace w_tt]; rewrite ?enter_node_tt; exact Hw|].
  unfold node_continue. cbn [with_trace w_tt]. rewrite ?enter_node_tt.
  destruct (probe _ _ _ _ _ _) as [v|a1 b1|site]; [cbn [nu_post w_tt]; rewrite ?enter_node_tt; exact Hw| |exact Logic.I].
  destruct (maxd <=? cur)%N.
  - destruct (quiesce _ _ _ _ _); [cbn [nu_post w_tt]; rewrite ?enter_node_tt; exact Hw|exact Logic.I|exact Logic.I].
  - apply loop_no_upper; [intros; apply IH; assumption | cbn [with_jidx with_trace w_tt]; rewrite ?enter_node_tt; exact Hw |].
    intros bm E. discriminate E.
Qed.

(* ------------------------------------------------------------------ *)
(* the main development                                                 *)
(* ------------------------------------------------------------------ *)

Section Sound.
Variable hs : hasher.
Variable P : state -> Prop.
Hypothesis HR : HashRuleOn P hs.
Hypothesis P_legal : forall s, P s -> LegalPos s.
Hypothesis P_step : forall s m ns, P s -> In (m, ns) (gen_legal s) -> P ns.
Hypothesis P_heur : HeurNTOn P.

(* ---- (2) evaluator and quiescence ---- *)

Lemma is_terminal_false : forall v, is_terminal v = false -> NEG_INF < v /\ v < POS_INF.
Proof. intros v H. unfold is_terminal in H. apply orb_false_iff in H. lia. Qed.

Lemma EVal_inj : forall a b, EVal a = EVal b -> a = b.
Proof. intros a b H. injection H as H. exact H. Qed.

Lemma eval_sound : forall s d v, P s -> evaluate s (st_turn s) d = EVal v ->
  v < POS_INF /\ (v <= NEG_INF -> Lost s) /\ (gen_legal s <> [] -> NEG_INF < v).
Proof.
  intros s d v HP He. pose proof (P_legal s HP) as HL. infs.
  destruct (gen_legal s) as [|ms0 tl0] eqn:Eg.
  - destruct (is_check s) eqn:Ec.
    + rewrite (eval_mate s (st_turn s) d HL Eg Ec) in He. rewrite BoardProofs.color_eqb_refl in He. apply EVal_inj in He; subst v.
      destruct (mate_scores d) as (H1 & H2 & _). split; [lia|].
      split; [intros _; exact (lost_of_checkmate s HL Eg Ec)|]. intros Hc. contradiction Hc. reflexivity.
    + rewrite (eval_stalemate s (st_turn s) d HL Eg Ec) in He. apply EVal_inj in He; subst v. unfold EVEN.
      split; [lia|]. split; [lia|]. intros Hc. contradiction Hc. reflexivity.
  - assert (Hne : gen_legal s <> []) by (rewrite Eg; discriminate).
    rewrite (eval_has_move s (st_turn s) d HL Hne) in He. apply EVal_inj in He; subst v.
    destruct (is_terminal_false _ (P_heur s (st_turn s) HP Hne)) as [T1 T2].
    split; [exact T2|]. split; [lia|]. intros _. exact T1.
Qed.

Definition q_claim (s : state) (a b r : Z) : Prop :=
  (POS_INF <= r -> a < r -> Won s) /\ (r <= NEG_INF -> r < b -> Lost s).

Lemma q_loop_sound : forall (rec : state -> N -> Z -> Z -> qres) s depth beta a,
  (forall ns d a' b' r, P ns -> a' < b' -> rec ns d a' b' = QVal r -> q_claim ns a' b' r) ->
  P s -> forall l, (forall ms, In ms l -> In ms (gen_legal s)) ->
  forall alpha r, alpha < beta -> NEG_INF < alpha -> (POS_INF <= alpha -> a < alpha -> Won s) ->
  q_loop rec depth beta l alpha = QVal r -> NEG_INF < r /\ (POS_INF <= r -> a < r -> Won s).
Proof.
  intros rec s depth beta a Hrec HP l. infs.
  induction l as [|[m ns] tl IH]; intros Hl alpha r Hab Hna HJ E; cbn [q_loop] in E.
  - injection E as <-. auto.
  - assert (Htl : forall ms, In ms tl -> In ms (gen_legal s)) by (intros ms Hm; apply Hl; right; exact Hm).
    destruct (m_is_capture m) eqn:Hcap; cbn [negb] in E; [|exact (IH Htl alpha r Hab Hna HJ E)].
    pose proof (Hl (m, ns) (or_introl eq_refl)) as Hin.
    pose proof (P_step s m ns HP Hin) as HPn.
    destruct (rec ns (depth + 1)%N (- beta) (- alpha)) as [rc|site|] eqn:Er; [|discriminate E|discriminate E].
    assert (Hwin : - beta < - alpha) by lia.
    destruct (Hrec ns _ _ _ rc HPn Hwin Er) as [_ HLost].
    cbv zeta in E. destruct (beta <=? - rc) eqn:Hcut.
    + injection E as <-. split; [lia|]. intros Hp _.
      apply (won_of_child_lost s m ns (P_legal s HP) Hin). apply HLost; lia.
    + destruct (alpha <? - rc) eqn:Hr.
      * apply (IH Htl (- rc) r); [lia|lia| |exact E]. intros Hp _.
        apply (won_of_child_lost s m ns (P_legal s HP) Hin). apply HLost; lia.
      * apply (IH Htl alpha r); assumption.
Qed.

Theorem quiesce_sound : forall fuel s depth a b r, P s -> a < b ->
  quiesce fuel s depth a b = QVal r -> q_claim s a b r.
Proof.
  induction fuel as [|k IH]; intros s depth a b r HP Hab E; [discriminate E|].
  rewrite quiesce_S in E. pose proof (P_legal s HP) as HL. rewrite (gen_no_panic s HL) in E. infs.
  destruct (evaluate s (st_turn s) depth) as [normal|] eqn:Ee; [|discriminate E].
  destruct (eval_sound s depth normal HP Ee) as (Hlt & Hlost & Hgt).
  revert E. destruct (gen_legal s) as [|ms0 tl0] eqn:Eg; intros E.
  - injection E as <-. split; [intros Hp _; lia | intros Hn _; exact (Hlost Hn)].
  - rewrite <- Eg in E. rewrite <- Eg in Hgt.
    assert (Hne : gen_legal s <> []) by (rewrite Eg; discriminate).
    pose proof (Hgt Hne) as Hg1.
    destruct (forallb _ (gen_legal s)) in E.
    { injection E as <-. split; [intros Hp _; lia | intros Hn _; lia]. }
    destruct (b <=? normal) eqn:Hb in E.
    { injection E as <-. split; [intros Hp _; lia | intros _ Hn; lia]. }
    destruct (q_loop_sound (quiesce k) s depth b a
                (fun ns d a' b' r' HPn Hab' E' => IH ns d a' b' r' HPn Hab' E') HP
                (q_sorted s) (q_sorted_in s) (if a <? normal then normal else a) r) as [R1 R2].
    + destruct (a <? normal) eqn:Ha; lia.
    + destruct (a <? normal) eqn:Ha; lia.
    + destruct (a <? normal) eqn:Ha; intros; lia.
    + exact E.
    + split; [exact R2 | intros Hn _; lia].
Qed.

(* ---- (3) the table ---- *)

Lemma TOk_insert : forall tt s e, TOk P hs tt -> P s -> EntryOk e s -> TOk P hs (acc_insert tt (hash hs s) e).
Proof.
  intros tt s e (Hok & Hen) HP Hs. split; [apply tt_ok_insert; exact Hok|].
  intros h x Hfind s' HP' Hh.
  destruct (acc_find_insert_cases _ _ _ _ _ Hok Hfind) as [[Hkk ->]|[_ Hold]]; [|exact (Hen h x Hold s' HP' Hh)].
  pose proof (P_legal s HP) as HL. pose proof (P_legal s' HP') as HL'.
  assert (Ekey : rulekey s = rulekey s') by (apply HR; [exact HP|exact HP'|congruence]).
  destruct Hs as [[Hw Hl] Hm]. split; [split|].
  - intros H1 H2. exact (same_key_won s s' HL HL' Ekey (Hw H1 H2)).
  - intros H1 H2. exact (same_key_lost s s' HL HL' Ekey (Hl H1 H2)).
  - unfold MoveGen.legal_moves in Hm |- *.
    rewrite <- (same_key_same_moves s s' (GenPawnsNoDup.legal_pos_wf s HL) (GenPawnsNoDup.legal_pos_wf s' HL') Ekey).
    exact Hm.
Qed.

Lemma probe_sound : forall tt s md cd a b, TOk P hs tt -> P s -> a < b ->
  match probe tt (hash hs s) md cd a b with
  | PEarly v => (POS_INF <= v -> a < v -> Won s) /\ (v <= NEG_INF -> v < b -> Lost s)
  | PWindow a1 b1 => a <= a1 /\ a1 < b1 /\ b1 <= b /\ (POS_INF <= a1 -> a < a1 -> Won s) /\
                     (b1 <= NEG_INF -> b1 < b -> Lost s)
  | PPanic _ => True
  end.
Proof.
  intros tt s md cd a b (Hok & Hen) HP Hab. unfold probe.
  assert (Hwin : a = a -> a <= a /\ a < b /\ b <= b /\ (POS_INF <= a -> a < a -> Won s) /\ (b <= NEG_INF -> b < b -> Lost s)).
  { intros _. split; [lia|]. split; [exact Hab|]. split; [lia|]. split; intros _ Hc; lia. }
  destruct (acc_find tt (hash hs s)) as [e|] eqn:Ef; [|exact (Hwin eq_refl)].
  destruct (md <? cd)%N; [exact Logic.I|]. destruct (e_maxdepth e <? e_depth e)%N; [exact Logic.I|].
  destruct (md - cd <=? e_maxdepth e - e_depth e)%N; [|exact (Hwin eq_refl)].
  destruct (Hen _ e Ef s HP eq_refl) as [[Hw Hl] _].
  destruct (e_kind e) eqn:Ek.
  - split; [intros H _; apply Hw; [exact H|left; reflexivity] | intros H _; apply Hl; [exact H|left; reflexivity]].
  - cbv zeta. destruct (Z.min b (e_eval e) <=? a) eqn:Hc.
    + split; [intros H1 H2; lia | intros H _; apply Hl; [exact H|right; reflexivity]].
    + split; [lia|]. split; [lia|]. split; [lia|]. split; [intros _ H2; lia|].
      intros H1 H2. apply Hl; [lia|right; reflexivity].
  - cbv zeta. destruct (b <=? Z.max a (e_eval e)) eqn:Hc.
    + split; [intros H _; apply Hw; [exact H|right; reflexivity] | intros H1 H2; lia].
    + split; [lia|]. split; [lia|]. split; [lia|]. split; [|intros _ H2; lia].
      intros H1 H2. apply Hw; [lia|right; reflexivity].
Qed.

(* ---- (4) the move loop ---- *)

Definition post (s : state) (a b : Z) (r : sres Z) : Prop :=
  match r with
  | SVal v w' => (POS_INF <= v -> a < v -> Won s) /\ (v <= NEG_INF -> v < b -> Lost s) /\ TOk P hs (w_tt w')
  | SInterrupt w' => TOk P hs (w_tt w')
  | _ => True
  end.

Definition rec_ok (rec : rec_t) : Prop :=
  forall ns md cd ce a b w, P ns -> a < b -> TOk P hs (w_tt w) -> post ns a b (rec ns md cd ce a b None w).

(* a = the node's alpha, b = the node's beta; alpha / b1 = the running window (raised / lowered by the table
   and by the children searched so far) *)
Lemma loop_sound : forall (rec : rec_t), rec_ok rec ->
  forall s md cd ce ext a b b1 prev, P s -> b1 <= b -> (b1 <= NEG_INF -> b1 < b -> Lost s) ->
  forall l, (forall m, In m l -> In m (MoveGen.pseudo_legal s)) ->
  forall alpha best kind w,
    TOk P hs (w_tt w) -> a <= alpha -> alpha < b1 ->
    (POS_INF <= alpha -> a < alpha -> Won s) ->
    (forall bm, best = Some bm -> kind = Exact /\ a < alpha /\ In bm (MoveGen.legal_moves s)) ->
    (prev = w_nodes w \/ gen_legal s <> []) ->
    (forall m ns, In (m, ns) (gen_legal s) -> In m l \/ (alpha <= NEG_INF -> Won ns)) ->
    post s a b (loop_body rec s (hash hs s) md cd ce ext b1 prev l alpha best kind w).
Proof.
  intros rec Hrec s md cd ce ext a b b1 prev HP Hb1 HK l. pose proof (P_legal s HP) as HL. infs.
  induction l as [|m tl IH]; intros Hl alpha best kind w HT Hge Hab HJ Hbest Hprev Hcov; cbn [loop_body].
  - destruct (prev =? w_nodes w)%N eqn:Hpn.
    + unfold eval_or_panic. destruct (evaluate s (st_turn s) cd) as [v|] eqn:Ee; [|exact Logic.I].
      cbn [post]. destruct (eval_sound s cd v HP Ee) as (Hlt & Hlost & _).
      split; [intros Hp _; lia|]. split; [intros Hn _; exact (Hlost Hn)|exact HT].
    + assert (Hne : gen_legal s <> []).
      { destruct Hprev as [E|E]; [|exact E]. apply N.eqb_neq in Hpn. contradiction. }
      assert (HLs : alpha <= NEG_INF -> Lost s).
      { intros Hn. apply (lost_of_children_won s HL Hne). intros m ns Hin.
        destruct (Hcov m ns Hin) as [[]|Hw]. exact (Hw Hn). }
      destruct best as [bm|].
      * destruct (Hbest bm eq_refl) as (-> & Haa & Hbm). cbn [post w_tt].
        split; [exact HJ|]. split; [intros Hn _; exact (HLs Hn)|].
        apply TOk_insert; [exact HT|exact HP|]. split; [|exact Hbm].
        split; cbn [e_eval e_kind]; [intros H1 _; exact (HJ H1 Haa) | intros H1 _; exact (HLs H1)].
      * cbn [post]. split; [exact HJ|]. split; [intros Hn _; exact (HLs Hn)|exact HT].
  - assert (Htl : forall m', In m' tl -> In m' (MoveGen.pseudo_legal s)) by (intros m' Hm'; apply Hl; right; exact Hm').
    destruct (apply_move s m) as [ns|] eqn:Ha; [|exact Logic.I].
    fold (king_hit s ns). destruct (king_hit s ns) eqn:Hk.
    + apply IH; try assumption.
      intros m' ns' Hin. destruct (Hcov m' ns' Hin) as [[<-|Hm']|Hw]; [|left; exact Hm'|right; exact Hw].
      exfalso. destruct (gen_legal_not_hit s m ns' Hin) as (_ & Ha' & Hk'). rewrite Ha in Ha'. injection Ha' as <-.
      rewrite Hk in Hk'. discriminate Hk'.
    + destruct (searched_move s m ns HL (Hl m (or_introl eq_refl)) Ha Hk) as (Hg & _ & Hml).
      pose proof (P_step s m ns HP Hg) as HPn.
      assert (Hwin : - b1 < - alpha) by lia.
      pose proof (Hrec ns (md + ext)%N (cd + 1 + ext)%N (ce + ext)%N (- b1) (- alpha) w HPn Hwin HT) as Hc.
      destruct (rec ns (md + ext)%N (cd + 1 + ext)%N (ce + ext)%N (- b1) (- alpha) None w) as [r w'|w'|site|];
        cbn [post] in Hc |- *; [|exact Hc|exact Logic.I|exact Logic.I].
      destruct Hc as (HcW & HcL & HT').
      assert (Hne : gen_legal s <> []) by (intros E; rewrite E in Hg; destruct Hg).
      assert (Hsame : forall ns', In (m, ns') (gen_legal s) -> ns' = ns).
      { intros ns' Hin. destruct (gen_legal_not_hit s m ns' Hin) as (_ & Ha' & _). rewrite Ha in Ha'.
        injection Ha' as <-. reflexivity. }
      cbv zeta. destruct (b1 <=? - r) eqn:Hcut.
      * assert (HW : POS_INF <= b1 -> Won s).
        { intros Hp. apply (won_of_child_lost s m ns HL Hg). apply HcL; lia. }
        cbn [post w_tt]. split; [intros H1 _; exact (HW H1)|]. split; [exact HK|].
        apply TOk_insert; [exact HT'|exact HP|]. split; [|exact Hml].
        split; cbn [e_eval e_kind]; [intros H1 _; exact (HW H1) | intros _ [H2|H2]; discriminate H2].
      * destruct (alpha <? - r) eqn:Hr.
        -- apply IH; [exact Htl|exact HT'|lia|lia| | | |].
           ++ intros Hp _. apply (won_of_child_lost s m ns HL Hg). apply HcL; lia.
           ++ intros bm E. injection E as <-. split; [reflexivity|]. split; [lia|exact Hml].
           ++ right. exact Hne.
           ++ intros m' ns' Hin. destruct (Hcov m' ns' Hin) as [[<-|Hm']|Hw]; [|left; exact Hm'|].
              ** right. intros Hn. rewrite (Hsame ns' Hin). apply HcW; lia.
              ** right. intros Hn. apply Hw. lia.
        -- apply IH; [exact Htl|exact HT'|exact Hge|exact Hab|exact HJ|exact Hbest| |].
           ++ right. exact Hne.
           ++ intros m' ns' Hin. destruct (Hcov m' ns' Hin) as [[<-|Hm']|Hw]; [|left; exact Hm'|right; exact Hw].
              right. intros Hn. rewrite (Hsame ns' Hin). apply HcW; lia.
Qed.

(* ---- (5) one node ---- *)

Lemma node_sound : forall history jit cancel (rec : rec_t), rec_ok rec ->
  forall s md cd ce a b prio w, P s -> a < b -> TOk P hs (w_tt w) ->
  (forall pm, prio = Some pm -> In pm (MoveGen.legal_moves s)) ->
  post s a b (node_body hs history jit cancel rec s md cd ce a b prio w).
Proof.
  intros history jit cancel rec Hrec s md cd ce a b prio w HP Hab HT Hprio.
  pose proof (P_legal s HP) as HL. infs. unfold node_body.
  destruct (snd (enter_node cancel w)); [cbn [post]; rewrite ?enter_node_tt; exact HT|]. cbv zeta.
  destruct ((0 <? cd)%N && in_history history (hash hs s)).
  - cbn [post with_trace w_tt]. rewrite ?enter_node_tt. unfold EVEN.
    split; [intros; lia|]. split; [intros; lia|exact HT].
  - unfold node_continue. cbn [with_trace w_tt]. rewrite ?enter_node_tt.
    pose proof (probe_sound (w_tt w) s md cd a b HT HP Hab) as Hp.
    destruct (probe (w_tt w) (hash hs s) md cd a b) as [v|a1 b1|site]; [| |exact Logic.I].
    + cbn [post w_tt]. rewrite ?enter_node_tt. destruct Hp as [H1 H2].
      split; [exact H1|]. split; [exact H2|exact HT].
    + destruct Hp as (Hge & Hlt & Hle & HJ & HK).
      destruct (md <=? cd)%N.
      * destruct (quiesce (S (men s)) s cd a1 b1) as [v|site|] eqn:Eq; [|exact Logic.I|exact Logic.I].
        cbn [post w_tt]. rewrite ?enter_node_tt.
        destruct (quiesce_sound _ _ _ _ _ _ HP Hlt Eq) as [Q1 Q2].
        split; [|split; [|exact HT]].
        -- intros Hp Hav. destruct (Z_lt_le_dec a1 v) as [Hc|Hc]; [exact (Q1 Hp Hc)|]. apply HJ; lia.
        -- intros Hn Hvb. destruct (Z_lt_le_dec v b1) as [Hc|Hc]; [exact (Q2 Hn Hc)|]. apply HK; lia.
      * apply (loop_sound rec Hrec s md cd ce _ a b b1 _ HP Hle HK).
        -- intros m Hm. apply ordered_moves_in in Hm. destruct Hm as [Hm|Hm]; [exact Hm|].
           apply legal_in_pseudo. exact (Hprio m Hm).
        -- cbn [with_jidx with_trace w_tt]. rewrite ?enter_node_tt. exact HT.
        -- exact Hge.
        -- exact Hlt.
        -- exact HJ.
        -- intros bm E. discriminate E.
        -- left. reflexivity.
        -- intros m ns Hin. left. apply ordered_moves_complete.
           exact (proj1 (gen_legal_not_hit s m ns Hin)).
Qed.

(* ---- (6) analyze ---- *)

Theorem analyze_sound : forall history jit cancel fuel s maxd cur ext a b prio w,
  P s -> a < b -> TOk P hs (w_tt w) -> (forall pm, prio = Some pm -> In pm (MoveGen.legal_moves s)) ->
  post s a b (analyze hs history jit cancel fuel s maxd cur ext a b prio w).
Proof.
  intros history jit cancel. induction fuel as [|k IH]; intros s maxd cur ext a b prio w HP Hab HT Hprio; [exact Logic.I|].
  rewrite analyze_S. apply node_sound; try assumption.
  intros ns md cd ce a' b' w' HPn Hab' HT'. apply IH; try assumption. intros pm E. discriminate E.
Qed.

(* ---- (7) the iterative driver ---- *)

Definition EvSound (s : state) (l : list event) : Prop :=
  forall ev line, In (EvBest ev line) l -> POS_INF <= ev -> Won s.

Definition TOkN (tt : access) : Prop := TOk P hs tt /\ NoUpper tt.

Lemma iter_moves_head : forall fuel tt s idx maxd mv tl, TOk P hs tt -> P s ->
  iter_moves hs fuel tt s idx maxd = mv :: tl -> In mv (MoveGen.legal_moves s).
Proof.
  intros [|k] tt s idx maxd mv tl [_ Hen] HP E; cbn [iter_moves] in E; [discriminate E|].
  destruct (maxd <? idx)%N; [discriminate E|].
  destruct (acc_find tt (hash hs s)) as [e|] eqn:Ef; [|discriminate E].
  destruct (apply_move s (e_move e)); [|discriminate E]. injection E as <- _.
  exact (proj2 (Hen _ e Ef s HP eq_refl)).
Qed.

Lemma iterate_sound : forall jit_of cancel iters depth s history tt gnodes flag trace nt be bm acc,
  P s -> TOkN tt -> (forall m, bm = Some m -> In m (MoveGen.legal_moves s)) -> EvSound s acc ->
  let r := iterate hs jit_of cancel iters depth s history tt gnodes flag trace nt be bm acc in
  EvSound s (r_events r) /\ TOkN (r_tt r).
Proof.
  intros jit_of cancel iters. induction iters as [|k IH];
    intros depth s history tt gnodes flag trace nt be bm acc HP HT Hbm Hacc; cbn [iterate].
  - cbn [r_events r_tt]. split; [|exact HT]. intros ev line Hin. apply in_rev in Hin. exact (Hacc ev line Hin).
  - assert (Hrev : forall l, EvSound s l -> EvSound s (rev l)).
    { intros l H ev line Hin. apply in_rev in Hin. exact (H ev line Hin). }
    destruct ((0 <? depth)%N && flag); [cbn [r_events r_tt]; auto|]. cbv zeta.
    pose proof (P_legal s HP) as HL. infs.
    set (w0 := mkW tt 0 0 gnodes flag trace).
    assert (Hroot : - mate_in_ply 0 < mate_in_ply 0) by (destruct (mate_scores 0%N) as (H1 & _); lia).
    pose proof (analyze_sound history (jit_of depth) cancel (S (S (N.to_nat depth))) s (depth + 1)%N 0%N 0%N
                  (- mate_in_ply 0) (mate_in_ply 0) bm w0 HP Hroot (proj1 HT) Hbm) as Hs.
    pose proof (analyze_no_upper hs history (jit_of depth) cancel (S (S (N.to_nat depth))) s (depth + 1)%N 0%N 0%N
                  (- mate_in_ply 0) (mate_in_ply 0) bm w0 (conj (proj1 (proj1 HT)) (proj2 HT))) as Hn.
    destruct (analyze hs history (jit_of depth) cancel (S (S (N.to_nat depth))) s (depth + 1)%N 0%N 0%N
                      (- mate_in_ply 0) (mate_in_ply 0) bm w0) as [ev w|w|site|]; cbn [post] in Hs; cbn [nu_post] in Hn.
    + destruct Hs as (HsW & _ & HT'). destruct Hn as [_ Hnu'].
      assert (Hev : POS_INF <= ev -> Won s).
      { intros Hp. apply HsW; [exact Hp|]. assert (E : mate_in_ply 0 = 11000) by reflexivity. lia. }
      destruct (iter_moves hs (S (S (N.to_nat depth))) (w_tt w) s 0%N depth) as [|mv tl] eqn:El.
      * cbn [r_events r_tt]. split; [|exact (conj HT' Hnu')]. apply Hrev.
        intros ev' line [E|Hin]; [discriminate E|exact (Hacc ev' line Hin)].
      * assert (Hacc2 : EvSound s (EvBest ev (mv :: tl) :: EvProgress (depth + 1)%N (nt + w_nodes w)%N :: acc)).
        { intros ev' line [E|[E|Hin]]; [|discriminate E|exact (Hacc ev' line Hin)].
          injection E as <- _. exact Hev. }
        destruct (POS_INF <=? ev); [cbn [r_events r_tt]; split; [apply Hrev; exact Hacc2|exact (conj HT' Hnu')]|].
        apply IH; [exact HP|exact (conj HT' Hnu')| |exact Hacc2].
        intros m E. injection E as <-. exact (iter_moves_head _ _ _ _ _ _ _ HT' HP El).
    + destruct Hn as [_ Hnu']. cbn [r_events r_tt]. split; [|exact (conj Hs Hnu')]. apply Hrev.
      destruct (acc_find (w_tt w) (hash hs s)) as [x|] eqn:Ef; [|exact Hacc].
      destruct ((be <? e_eval x) && _); [|exact Hacc].
      intros ev' line [E|Hin]; [|exact (Hacc ev' line Hin)]. injection E as <- _. intros Hp.
      destruct Hs as [_ Hen]. destruct (Hen _ x Ef s HP eq_refl) as [[Hw _] _].
      apply Hw; [exact Hp|]. pose proof (Hnu' _ x Ef) as Hk. destruct (e_kind x); [left|contradiction Hk|right]; reflexivity.
    + cbn [r_events r_tt]. auto.
    + cbn [r_events r_tt]. auto.
Qed.

Theorem iterative_sound : forall jit_of cancel iters s history tt,
  P s -> TOk P hs tt -> NoUpper tt ->
  let r := analyze_iterative hs jit_of cancel iters s history tt in
  (forall ev line, In (EvBest ev line) (r_events r) -> POS_INF <= ev -> Won s) /\
  TOk P hs (r_tt r) /\ NoUpper (r_tt r).
Proof.
  intros jit_of cancel iters s history tt HP HT Hnu. unfold analyze_iterative.
  apply iterate_sound; [exact HP|exact (conj HT Hnu)|intros m E; discriminate E|intros ev line []].
Qed.

End Sound.

(* ------------------------------------------------------------------ *)
(* final forms                                                          *)
(* ------------------------------------------------------------------ *)

Theorem Won_iff_Win : forall s, Won s <-> exists n, Win n (abs s).
Proof.
  intros s. split; intros [n H]; exists n; [apply win_iff_Win; exact H | apply win_iff_Win; exact H].
Qed.

Theorem Lost_iff_Loss : forall s, Lost s <-> exists n, Loss n (abs s).
Proof.
  intros s. split; intros [n H]; exists n; [apply loss_iff_Loss; exact H | apply loss_iff_Loss; exact H].
Qed.

(* one call of analyze_recursive, region form *)
Theorem sound_call : forall hs P, HashRuleOn P hs -> Region P -> HeurNTOn P ->
  forall history jit cancel fuel s maxd cur ext a b prio w,
  P s -> a < b -> TOk P hs (w_tt w) -> (forall pm, prio = Some pm -> In pm (MoveGen.legal_moves s)) ->
  match analyze hs history jit cancel fuel s maxd cur ext a b prio w with
  | SVal r w' => (POS_INF <= r -> a < r -> Won s) /\ (r <= NEG_INF -> r < b -> Lost s) /\ TOk P hs (w_tt w')
  | SInterrupt w' => TOk P hs (w_tt w')
  | _ => True
  end.
Proof.
  intros hs P HR [HPl HPs] HPh history jit cancel fuel s maxd cur ext a b prio w HP Hab HT Hprio.
  exact (analyze_sound hs P HR HPl HPs HPh history jit cancel fuel s maxd cur ext a b prio w HP Hab HT Hprio).
Qed.

Theorem sound_quiesce : forall P, Region P -> HeurNTOn P ->
  forall fuel s depth a b r, P s -> a < b -> quiesce fuel s depth a b = QVal r ->
  (POS_INF <= r -> a < r -> Won s) /\ (r <= NEG_INF -> r < b -> Lost s).
Proof.
  intros P [HPl HPs] HPh fuel s depth a b r HP Hab E.
  exact (quiesce_sound P HPl HPs HPh fuel s depth a b r HP Hab E).
Qed.

Theorem sound_iterative : forall hs P, HashRuleOn P hs -> Region P -> HeurNTOn P ->
  forall jit_of cancel iters s history tt, P s -> TOk P hs tt -> NoUpper tt ->
  let r := analyze_iterative hs jit_of cancel iters s history tt in
  (forall ev line, In (EvBest ev line) (r_events r) -> POS_INF <= ev -> Won s) /\
  TOk P hs (r_tt r) /\ NoUpper (r_tt r).
Proof.
  intros hs P HR [HPl HPs] HPh jit_of cancel iters s history tt HP HT Hnu.
  exact (iterative_sound hs P HR HPl HPs HPh jit_of cancel iters s history tt HP HT Hnu).
Qed.

(* UpperBound-free tables stay UpperBound-free (no residue at all: only the shape of the table) *)
Theorem no_upper_bound : forall hs history jit cancel fuel s maxd cur ext a b prio w,
  tt_ok (w_tt w) -> NoUpper (w_tt w) ->
  match analyze hs history jit cancel fuel s maxd cur ext a b prio w with
  | SVal _ w' => tt_ok (w_tt w') /\ NoUpper (w_tt w')
  | SInterrupt w' => tt_ok (w_tt w') /\ NoUpper (w_tt w')
  | _ => True
  end.
Proof.
  intros hs history jit cancel fuel s maxd cur ext a b prio w H1 H2.
  pose proof (analyze_no_upper hs history jit cancel fuel s maxd cur ext a b prio w (conj H1 H2)) as H.
  destruct (analyze hs history jit cancel fuel s maxd cur ext a b prio w); exact H.
Qed.

Lemma iterate_no_upper : forall hs jit_of cancel iters depth s history tt gnodes flag trace nt be bm acc,
  NU tt -> NU (r_tt (iterate hs jit_of cancel iters depth s history tt gnodes flag trace nt be bm acc)).
Proof.
  intros hs jit_of cancel iters. induction iters as [|k IH]; intros depth s history tt gnodes flag trace nt be bm acc H;
    cbn [iterate]; [exact H|].
  destruct ((0 <? depth)%N && flag); [exact H|]. cbv zeta.
  pose proof (analyze_no_upper hs history (jit_of depth) cancel (S (S (N.to_nat depth))) s (depth + 1)%N 0%N 0%N
                (- mate_in_ply 0) (mate_in_ply 0) bm (mkW tt 0 0 gnodes flag trace) H) as Hn.
  destruct (analyze _ _ _ _ _ _ _ _ _ _ _ _ _) as [ev w|w|site|]; cbn [nu_post] in Hn; try exact H; [|exact Hn].
  destruct (iter_moves _ _ _ _ _ _); [exact Hn|]. destruct (POS_INF <=? ev); [exact Hn|]. apply IH. exact Hn.
Qed.

Theorem no_upper_bound_iterative : forall hs jit_of cancel iters s history tt,
  tt_ok tt -> NoUpper tt ->
  tt_ok (r_tt (analyze_iterative hs jit_of cancel iters s history tt)) /\
  NoUpper (r_tt (analyze_iterative hs jit_of cancel iters s history tt)).
Proof.
  intros hs jit_of cancel iters s history tt H1 H2. unfold analyze_iterative.
  exact (iterate_no_upper hs jit_of cancel iters _ s _ tt _ _ _ _ _ _ _ (conj H1 H2)).
Qed.

(* instance: the positions reachable from the root *)
Theorem sound_iterative_reach : forall hs s, LegalPos s -> HashRuleOn (Reach s) hs -> HeurNTOn (Reach s) ->
  forall jit_of cancel iters history tt, TOk (Reach s) hs tt -> NoUpper tt ->
  let r := analyze_iterative hs jit_of cancel iters s history tt in
  (forall ev line, In (EvBest ev line) (r_events r) -> POS_INF <= ev -> exists n, Win n (abs s)) /\
  TOk (Reach s) hs (r_tt r) /\ NoUpper (r_tt r).
Proof.
  intros hs s HL HR HH jit_of cancel iters history tt HT Hnu.
  destruct (sound_iterative hs (Reach s) HR (Reach_region s HL) HH jit_of cancel iters s history tt
              (Reach_root s) HT Hnu) as (H1 & H2 & H3).
  split; [|exact (conj H2 H3)]. intros ev line Hin Hp. apply Won_iff_Win. exact (H1 ev line Hin Hp).
Qed.

(* the statements in the task's literal form: global residues, the task's ScoreOk / TScore.  NOTE: the premise
   HeurNonTerminal is refutable (heur_global_false below), so these three are formally vacuous; they are kept
   because they are the instances P := LegalPos of the region theorems, which are not. *)
Theorem heur_global_false : ~ HeurNonTerminal.
Proof.
  intros H. apply EvalBound.nonterminal_counterexample. intros s p d HL Hg.
  exists (heuristic (st_board s) p). split; [exact (eval_has_move s p d HL Hg)|exact (H s p HL Hg)].
Qed.

Theorem sound_call_literal : forall hs, HashRule hs -> HeurNonTerminal ->
  forall history jit cancel fuel s maxd cur ext a b prio w r w',
  tt_ok (w_tt w) -> TScore hs (w_tt w) -> NoUpper (w_tt w) -> TInv hs (w_tt w) ->
  LegalPos s -> a < b -> (forall pm, prio = Some pm -> In pm (MoveGen.legal_moves s)) ->
  analyze hs history jit cancel fuel s maxd cur ext a b prio w = SVal r w' ->
  (POS_INF <= r -> a < r -> Won s) /\ (r <= NEG_INF -> r < b -> Lost s) /\
  tt_ok (w_tt w') /\ TScore hs (w_tt w') /\ NoUpper (w_tt w') /\ TInv hs (w_tt w').
Proof.
  intros hs HR HH history jit cancel fuel s maxd cur ext a b prio w r w' H1 H2 H3 H4 HL Hab Hprio E.
  pose proof (sound_call hs LegalPos HR LegalPos_region HH history jit cancel fuel s maxd cur ext a b prio w
                HL Hab (TOk_of_TScore hs _ H1 H2 H3 H4) Hprio) as Hs.
  pose proof (no_upper_bound hs history jit cancel fuel s maxd cur ext a b prio w H1 H3) as Hn.
  rewrite E in Hs, Hn. destruct Hs as (A & B & C). destruct (TScore_of_TOk hs _ C) as (C1 & C2 & C3).
  split; [exact A|]. split; [exact B|]. split; [exact C1|]. split; [exact C2|]. split; [exact (proj2 Hn)|exact C3].
Qed.

Theorem sound_quiesce_literal : HeurNonTerminal ->
  forall fuel s depth a b r, LegalPos s -> a < b -> quiesce fuel s depth a b = QVal r ->
  (POS_INF <= r -> a < r -> Won s) /\ (r <= NEG_INF -> r < b -> Lost s).
Proof. intros HH. exact (sound_quiesce LegalPos LegalPos_region HH). Qed.

Theorem sound_iterative_literal : forall hs, HashRule hs -> HeurNonTerminal ->
  forall jit_of cancel iters s history tt,
  LegalPos s -> tt_ok tt -> TScore hs tt -> NoUpper tt -> TInv hs tt ->
  let r := analyze_iterative hs jit_of cancel iters s history tt in
  (forall ev line, In (EvBest ev line) (r_events r) -> POS_INF <= ev -> Won s) /\
  tt_ok (r_tt r) /\ TScore hs (r_tt r) /\ NoUpper (r_tt r) /\ TInv hs (r_tt r).
Proof.
  intros hs HR HH jit_of cancel iters s history tt HL H1 H2 H3 H4.
  destruct (sound_iterative hs LegalPos HR LegalPos_region HH jit_of cancel iters s history tt HL
              (TOk_of_TScore hs _ H1 H2 H3 H4) H3) as (A & B & C).
  destruct (TScore_of_TOk hs _ B) as (B1 & B2 & B3).
  split; [exact A|]. split; [exact B1|]. split; [exact B2|]. split; [exact C|exact B3].
Qed.
