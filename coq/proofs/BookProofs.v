(* L7d proofs: the opening book (model/Book.v).

   REUSABLE STATEMENTS
     add_move_In, book_find_append_same, book_find_append_other, book_find_append      book algebra
     book_find_fold                the moves found after appending a list of entries
     walk / parse_moves_walk / game_entries_walk / first_ten
     BInv / build_inv / offers_legal / offers_recorded *)
From WV Require Import Types Bits Attacks Board MoveEnc MoveGen Rules Abs Wf Encode Text Notation Book.
From WV Require Import PosEq ApplyProofs LegalPosProofs PlayProofs GenLegal HashProofs.
From Coq Require Import Lia ZifyBool ZifyN ZifyNat List.
Import ListNotations.
Import WV.Bits.
Open Scope N_scope.

(* ====================================================================== *)
(* book algebra                                                           *)
(* ====================================================================== *)

Lemma add_move_In : forall ms m x, In x (add_move ms m) <-> x = m \/ In x ms.
Proof.
  induction ms as [|y tl IH]; intros m x; cbn [add_move].
  - cbn [In]. split; [intros [H|[]]; left; symmetry; exact H | intros [H|[]]; left; symmetry; exact H].
  - destruct (y =? m) eqn:E.
    + apply N.eqb_eq in E. subst y. cbn [In]. split; [intros H; right; exact H|].
      intros [H|H]; [left; symmetry; exact H | exact H].
    + cbn [In]. rewrite IH. tauto.
Qed.

Lemma add_move_nonempty : forall ms m, add_move ms m <> [].
Proof. intros [|y tl] m; cbn [add_move]; [discriminate|]. destruct (y =? m); discriminate. Qed.

Definition found (b : book) (h : N) : list N := match book_find b h with Some ms => ms | None => [] end.

Lemma book_find_append_same : forall b h m, book_find (book_append b h m) h = Some (add_move (found b h) m).
Proof.
  unfold found. induction b as [|[k ms] tl IH]; intros h m; cbn [book_append book_find].
  - rewrite N.eqb_refl. reflexivity.
  - destruct (k =? h) eqn:E; cbn [book_find]; rewrite E; [reflexivity | apply IH].
Qed.

Lemma book_find_append_other : forall b h m h', h' <> h -> book_find (book_append b h m) h' = book_find b h'.
Proof.
  induction b as [|[k ms] tl IH]; intros h m h' Hne; cbn [book_append book_find].
  - destruct (h =? h') eqn:E; [apply N.eqb_eq in E; subst; destruct (Hne eq_refl) | reflexivity].
  - destruct (k =? h) eqn:E; cbn [book_find].
    + apply N.eqb_eq in E. subst k. destruct (h =? h') eqn:E'; [|reflexivity].
      apply N.eqb_eq in E'. subst. destruct (Hne eq_refl).
    + destruct (k =? h'); [reflexivity | apply IH; exact Hne].
Qed.

Lemma book_find_append : forall b h m h',
  book_find (book_append b h m) h' = if h =? h' then Some (add_move (found b h) m) else book_find b h'.
Proof.
  intros b h m h'. destruct (h =? h') eqn:E.
  - apply N.eqb_eq in E. subst h'. apply book_find_append_same.
  - apply book_find_append_other. intros ->. rewrite N.eqb_refl in E. discriminate E.
Qed.

(* membership after one append *)
Lemma found_append_In : forall b h m h' x,
  In x (found (book_append b h m) h') <-> (h' = h /\ x = m) \/ In x (found b h').
Proof.
  intros b h m h' x. unfold found at 1. rewrite book_find_append. destruct (h =? h') eqn:E.
  - apply N.eqb_eq in E. subst h'. rewrite add_move_In. tauto.
  - fold (found b h'). split; [tauto|]. intros [[-> _]|H]; [rewrite N.eqb_refl in E; discriminate E | exact H].
Qed.

Definition append_all (es : list (N * N)) (b : book) : book :=
  fold_left (fun b e => book_append b (fst e) (snd e)) es b.

(* membership after appending a list of entries: exactly the recorded moves of that hash *)
Lemma found_append_all_In : forall es b h x,
  In x (found (append_all es b) h) <-> In (h, x) es \/ In x (found b h).
Proof.
  unfold append_all. induction es as [|[h0 m0] tl IH]; intros b h x; cbn [fold_left fst snd].
  - cbn [In]. tauto.
  - rewrite IH, found_append_In. cbn [In]. split.
    + intros [H|[[-> ->]|H]]; auto.
    + intros [[H|H]|H]; auto. injection H as -> ->. auto.
Qed.

Lemma append_all_app : forall a c b, append_all (a ++ c) b = append_all c (append_all a b).
Proof. intros a c b. unfold append_all. apply fold_left_app. Qed.

(* the key lists of a book built by appends are never empty *)
Definition NonEmpty (b : book) : Prop := forall h, book_find b h <> Some [].

Lemma nonempty_append : forall b h m, NonEmpty b -> NonEmpty (book_append b h m).
Proof.
  intros b h m H h'. rewrite book_find_append. destruct (h =? h'); [|apply H].
  intros E. injection E as E. exact (add_move_nonempty _ _ E).
Qed.

Lemma nonempty_append_all : forall es b, NonEmpty b -> NonEmpty (append_all es b).
Proof.
  unfold append_all. induction es as [|e tl IH]; intros b H; cbn [fold_left]; [exact H|].
  apply IH. apply nonempty_append. exact H.
Qed.

Lemma nonempty_nil : NonEmpty [].
Proof. intros h. cbn [book_find]. discriminate. Qed.

(* ====================================================================== *)
(* the scan of one game                                                   *)
(* ====================================================================== *)

Section Book.
Variable hs : hasher.

(* the scan as a relation: from s, the tokens are SAN-parsed one after the other, each is answered by the FIRST
   generated legal move that passes the query, the entry is (hash of the position before the move, move) *)
Inductive walk : state -> list text -> list (N * N) -> Prop :=
| walk_nil : forall s, walk s [] []
| walk_cons : forall s t tl q m n es,
    san_parse t = Some q -> find (fun ms => qtest q (fst ms)) (gen_legal s) = Some (m, n) ->
    walk n tl es -> walk s (t :: tl) ((hash hs s, m) :: es).

Definition entries_of (steps : list parse_step) : option (list (N * N)) :=
  fold_right (fun st acc => match st, acc with
                            | PEntry h m, Some l => Some ((h, m) :: l)
                            | _, _ => None end) (Some []) steps.

Lemma parse_moves_walk : forall fuel s toks es,
  entries_of (parse_moves hs fuel s toks) = Some es -> walk s (firstn fuel toks) es.
Proof.
  induction fuel as [|k IH]; intros s toks es H.
  - cbn [parse_moves entries_of fold_right] in H. injection H as <-. cbn [firstn]. constructor.
  - destruct toks as [|t tl]; cbn [parse_moves firstn] in *.
    + cbn [entries_of fold_right] in H. injection H as <-. constructor.
    + destruct (san_parse t) as [q|] eqn:Eq; [|discriminate H].
      destruct (find (fun ms => qtest q (fst ms)) (gen_legal s)) as [[m n]|] eqn:Ef; [|discriminate H].
      unfold entries_of in H. cbn [fold_right] in H. fold (entries_of (parse_moves hs k n tl)) in H.
      destruct (entries_of (parse_moves hs k n tl)) as [l|] eqn:El; [|discriminate H].
      injection H as <-. exact (walk_cons s t (firstn k tl) q m n l Eq Ef (IH n tl l El)).
Qed.

Lemma walk_length : forall s toks es, walk s toks es -> length es = length toks.
Proof. intros s toks es H. induction H; cbn [length]; [reflexivity | rewrite IHwalk; reflexivity]. Qed.

(* every entry of a walk from a legal position is (hash of a legal position, a legal move of it) *)
Definition good_entry (e : N * N) : Prop :=
  exists s, LegalPos s /\ hash hs s = fst e /\ In (snd e) (MoveGen.legal_moves s).

Lemma find_In : forall (A : Type) (f : A -> bool) l x, find f l = Some x -> In x l /\ f x = true.
Proof. intros A f l x H. apply find_some in H. exact H. Qed.

Lemma walk_good : forall s toks es, walk s toks es -> LegalPos s -> Forall good_entry es.
Proof.
  intros s toks es H. induction H as [s | s t tl q m n es Hq Hf Hw IH]; intros HL; [constructor|].
  apply find_In in Hf. destruct Hf as [Hin _].
  destruct (gen_legal_props s m n HL Hin) as (_ & HLn & _).
  constructor; [|exact (IH HLn)].
  exists s. split; [exact HL|]. split; [reflexivity|]. cbn [snd]. unfold MoveGen.legal_moves.
  apply in_map_iff. exists (m, n). split; [reflexivity | exact Hin].
Qed.

(* positions of the walk, for the indexed statement *)
Lemma walk_nth : forall s toks es, walk s toks es -> LegalPos s -> forall i h m, nth_error es i = Some (h, m) ->
  exists si t q n, LegalPos si /\ h = hash hs si /\ nth_error toks i = Some t /\ san_parse t = Some q /\
                   find (fun ms => qtest q (fst ms)) (gen_legal si) = Some (m, n) /\
                   In m (MoveGen.legal_moves si) /\ qtest q m = true.
Proof.
  intros s toks es H. induction H as [s | s t tl q m n es Hq Hf Hw IH]; intros HL i h0 m0 Hi.
  - destruct i; discriminate Hi.
  - pose proof (find_In _ _ _ _ Hf) as [Hin Hqt]. cbn [fst] in Hqt.
    destruct i as [|i]; cbn [nth_error] in *.
    + injection Hi as <- <-. exists s, t, q, n. repeat split; auto.
      unfold MoveGen.legal_moves. apply in_map_iff. exists (m, n). split; [reflexivity | exact Hin].
    + destruct (gen_legal_props s m n HL Hin) as (_ & HLn & _). exact (IH HLn i h0 m0 Hi).
Qed.

Variable start : state.

Theorem game_entries_walk : forall toks es, game_entries hs start toks = Some es ->
  walk start (firstn (N.to_nat book_depth) (clean_tokens toks)) es.
Proof. intros toks es H. apply parse_moves_walk. exact H. Qed.

(* C16_first_ten *)
Theorem first_ten : forall toks es, game_entries hs start toks = Some es ->
  (length es <= 10)%nat /\ length es = Nat.min 10 (length (clean_tokens toks)) /\
  walk start (firstn 10 (clean_tokens toks)) es.
Proof.
  intros toks es H. apply game_entries_walk in H. change (N.to_nat book_depth) with 10%nat in H.
  pose proof (walk_length _ _ _ H) as Hl. rewrite firstn_length in Hl. split; [lia|]. split; [exact Hl | exact H].
Qed.

(* ====================================================================== *)
(* the build                                                              *)
(* ====================================================================== *)

Lemma build_spec : forall games b b', build hs start games b = Some b' ->
  exists ess, Forall2 (fun g es => game_entries hs start g = Some es) games ess /\ b' = append_all (concat ess) b.
Proof.
  induction games as [|g tl IH]; intros b b' H; cbn [build] in H.
  - injection H as <-. exists []. split; [constructor | reflexivity].
  - destruct (game_entries hs start g) as [es|] eqn:E; [|discriminate H].
    destruct (IH _ _ H) as [ess [HF ->]]. exists (es :: ess). split; [constructor; assumption|].
    cbn [concat]. rewrite append_all_app. reflexivity.
Qed.

Definition BInv (b : book) : Prop := forall h ms m, book_find b h = Some ms -> In m ms ->
  exists s, LegalPos s /\ hash hs s = h /\ In m (MoveGen.legal_moves s).

Lemma BInv_nil : BInv [].
Proof. intros h ms m H. discriminate H. Qed.

Lemma BInv_append_all : forall es b, Forall good_entry es -> BInv b -> BInv (append_all es b).
Proof.
  intros es b Hes Hb h ms m Hf Hin.
  assert (Hx : In m (found (append_all es b) h)) by (unfold found; rewrite Hf; exact Hin).
  apply found_append_all_In in Hx. destruct Hx as [Hx|Hx].
  - rewrite Forall_forall in Hes. exact (Hes _ Hx).
  - unfold found in Hx. destruct (book_find b h) as [ms0|] eqn:E; [|destruct Hx]. exact (Hb h ms0 m E Hx).
Qed.

Theorem build_inv : forall games b b', LegalPos start -> BInv b -> build hs start games b = Some b' -> BInv b'.
Proof.
  intros games b b' HL Hb H. destruct (build_spec games b b' H) as [ess [HF ->]].
  apply BInv_append_all; [|exact Hb]. apply Forall_forall. intros e He. apply in_concat in He.
  destruct He as [es [Hes He]].
  assert (Hg : exists g, game_entries hs start g = Some es).
  { clear -HF Hes. induction HF as [|g es0 gs ess0 Hg HF IH]; [destruct Hes|].
    destruct Hes as [<-|Hes]; [exists g; exact Hg | exact (IH Hes)]. }
  destruct Hg as [g Hg]. apply game_entries_walk in Hg.
  pose proof (walk_good _ _ _ Hg HL) as Hgood. rewrite Forall_forall in Hgood. exact (Hgood e He).
Qed.

Definition HashFaithful : Prop := forall s1 s2, LegalPos s1 -> LegalPos s2 -> hash hs s1 = hash hs s2 ->
  MoveGen.legal_moves s1 = MoveGen.legal_moves s2.

(* the residue follows from the absence of collisions between legal positions with different rule keys
   (placement, side to move, rights, capturable e.p. target: HashProofs.rulekey, property C08) *)
Definition HashSeparates : Prop := forall s1 s2, LegalPos s1 -> LegalPos s2 -> hash hs s1 = hash hs s2 ->
  rulekey s1 = rulekey s2.

Lemma separates_faithful : HashSeparates -> HashFaithful.
Proof.
  intros H s1 s2 H1 H2 E. unfold MoveGen.legal_moves. apply same_key_same_moves.
  - unfold LegalPos, legal_posb in H1. apply andb_true_iff in H1. exact (proj1 H1).
  - unfold LegalPos, legal_posb in H2. apply andb_true_iff in H2. exact (proj1 H2).
  - exact (H s1 s2 H1 H2 E).
Qed.

Lemma lookup_find : forall b s ms, lookup hs b s = Some ms -> book_find b (hash hs s) = Some ms /\ ms <> [].
Proof.
  intros b s ms H. unfold lookup in H. destruct (book_find b (hash hs s)) as [[|m tl]|]; try discriminate H.
  injection H as <-. split; [reflexivity | discriminate].
Qed.

Theorem offers_legal : forall games b s ms m, LegalPos start -> HashFaithful ->
  build hs start games [] = Some b -> LegalPos s -> lookup hs b s = Some ms -> In m ms ->
  In m (MoveGen.legal_moves s).
Proof.
  intros games b s ms m HL HF Hb HLs Hl Hin.
  pose proof (build_inv games [] b HL BInv_nil Hb) as Hinv.
  apply lookup_find in Hl. destruct Hl as [Hl _].
  destruct (Hinv _ _ _ Hl Hin) as [s0 (HL0 & Hh & Hm)].
  rewrite <- (HF s0 s HL0 HLs Hh). exact Hm.
Qed.

(* exactness: the book offers exactly the recorded moves of that hash *)
Definition recorded (games : list (list text)) (h m : N) : Prop :=
  exists g es, In g games /\ game_entries hs start g = Some es /\ In (h, m) es.

Lemma Forall2_In_l : forall (A B : Type) (R : A -> B -> Prop) l1 l2 y, Forall2 R l1 l2 -> In y l2 ->
  exists x, In x l1 /\ R x y.
Proof.
  intros A B R l1 l2 y H. induction H as [|a b0 l1 l2 Hab H IH]; intros Hy; [destruct Hy|].
  destruct Hy as [<-|Hy]; [exists a; split; [left; reflexivity | exact Hab]|].
  destruct (IH Hy) as [x [Hx Hr]]. exists x. split; [right; exact Hx | exact Hr].
Qed.

Lemma Forall2_In_r : forall (A B : Type) (R : A -> B -> Prop) l1 l2 x, Forall2 R l1 l2 -> In x l1 ->
  exists y, In y l2 /\ R x y.
Proof.
  intros A B R l1 l2 x H. induction H as [|a b0 l1 l2 Hab H IH]; intros Hx; [destruct Hx|].
  destruct Hx as [<-|Hx]; [exists b0; split; [left; reflexivity | exact Hab]|].
  destruct (IH Hx) as [y [Hy Hr]]. exists y. split; [right; exact Hy | exact Hr].
Qed.

Theorem built_found : forall games b h m, build hs start games [] = Some b ->
  (In m (found b h) <-> recorded games h m).
Proof.
  intros games b h m H. destruct (build_spec games [] b H) as [ess [HF ->]].
  rewrite found_append_all_In. unfold found at 1. cbn [book_find]. split.
  - intros [Hin|[]]. apply in_concat in Hin. destruct Hin as [es [Hes Hin]].
    destruct (Forall2_In_l _ _ _ _ _ es HF Hes) as [g [Hg Hge]]. exists g, es. auto.
  - intros [g [es (Hg & Hge & Hin)]]. left. apply in_concat. exists es. split; [|exact Hin].
    destruct (Forall2_In_r _ _ _ _ _ g HF Hg) as [es' [Hes' Hge']]. rewrite Hge in Hge'. injection Hge' as <-. exact Hes'.
Qed.

Theorem offers_recorded : forall games b s, build hs start games [] = Some b ->
  (forall ms m, lookup hs b s = Some ms -> (In m ms <-> recorded games (hash hs s) m)) /\
  (lookup hs b s = None <-> forall m, ~ recorded games (hash hs s) m).
Proof.
  intros games b s H. split.
  - intros ms m Hl. apply lookup_find in Hl. destruct Hl as [Hl _].
    rewrite <- (built_found games b (hash hs s) m H). unfold found. rewrite Hl. tauto.
  - assert (Hne : NonEmpty b).
    { destruct (build_spec games [] b H) as [ess [_ ->]]. apply nonempty_append_all. exact nonempty_nil. }
    split.
    + intros Hl m Hr. apply (built_found games b (hash hs s) m H) in Hr. unfold found in Hr. unfold lookup in Hl.
      destruct (book_find b (hash hs s)) as [[|x tl]|]; [destruct Hr | discriminate Hl | destruct Hr].
    + intros Hno. unfold lookup. destruct (book_find b (hash hs s)) as [[|x tl]|] eqn:E; try reflexivity.
      exfalso. apply (Hno x). apply (built_found games b (hash hs s) x H). unfold found. rewrite E. left. reflexivity.
Qed.

(* a recorded entry is the i-th entry (i < book_depth) of the walk of its game *)
Theorem recorded_indexed : forall games h m, LegalPos start -> recorded games h m ->
  exists g es i si, In g games /\ game_entries hs start g = Some es /\ (i < 10)%nat /\
    nth_error es i = Some (h, m) /\ LegalPos si /\ h = hash hs si /\ In m (MoveGen.legal_moves si).
Proof.
  intros games h m HL [g [es (Hg & Hge & Hin)]].
  destruct (In_nth_error _ _ Hin) as [i Hi].
  pose proof (first_ten g es Hge) as (Hlen & _ & Hw).
  destruct (walk_nth _ _ _ Hw HL i h m Hi) as [si [t [q [n (HLi & Hh & _ & _ & _ & Hm & _)]]]].
  exists g, es, i, si. repeat split; auto.
  assert (i < length es)%nat by (apply nth_error_Some; rewrite Hi; discriminate). lia.
Qed.

(* both together: an offered move is the i-th entry (i < 10) of some game, recorded for a legal position with
   the hash of s, in which it is legal *)
Theorem offers_indexed : forall games b s ms m, LegalPos start -> build hs start games [] = Some b ->
  lookup hs b s = Some ms -> In m ms ->
  exists g es i si, In g games /\ game_entries hs start g = Some es /\ (i < 10)%nat /\
    nth_error es i = Some (hash hs si, m) /\ LegalPos si /\ hash hs si = hash hs s /\
    In m (MoveGen.legal_moves si).
Proof.
  intros games b s ms m HL Hb Hl Hin.
  apply (proj1 (offers_recorded games b s Hb) ms m Hl) in Hin.
  destruct (recorded_indexed games _ m HL Hin) as [g [es [i [si (H1 & H2 & H3 & H4 & H5 & H6 & H7)]]]].
  exists g, es, i, si. rewrite <- H6. repeat split; auto.
Qed.

End Book.
