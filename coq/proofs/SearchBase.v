(* Base layer for the theorems about model/Search.v:
     - loop_body / node_continue / node_body: the body of `analyze` as standalone definitions, and the
       unfolding lemma analyze_S (by reflexivity: the definitions are copies of the model text);
     - membership lemmas for stable_sort and the ordered move list;
     - the moves the loop actually searches are generated legal moves (searched_move);
     - a generic closure principle for `analyze` (analyze_closure): any reflexive-transitive relation on
       worker states that is closed under the elementary state updates relates the input state to the
       output state. *)
From Coq Require Import NArith ZArith List Bool Lia ZifyBool ZifyN ZifyNat.
From WV Require Import Types Bits Attacks Board MoveEnc MoveGen Text Table Eval Search.
From WV Require Import Rules Abs Wf Encode.
From WV Require Import GenLegal.
Import ListNotations.
Import WV.Bits.
Open Scope N_scope.

#[global] Arguments N.add : simpl never.
#[global] Arguments N.sub : simpl never.
#[global] Arguments N.mul : simpl never.
#[global] Arguments N.modulo : simpl never.
#[global] Arguments N.div : simpl never.
#[global] Arguments N.of_nat : simpl never.
#[global] Arguments N.to_nat : simpl never.

(* ------------------------------------------------------------------ *)
(* 1. the body of analyze                                               *)
(* ------------------------------------------------------------------ *)

Definition rec_t := state -> N -> N -> N -> Z -> Z -> option N -> wstate -> sres Z.

Section Body.
Variable hs : hasher.
Variable history : list N.
Variable jit : N -> Z.
Variable cancel_at : option N.
Variable rec : rec_t.

(* the inner `fix loop` of analyze_recursive, with the recursive call abstracted *)
Definition loop_body (s : state) (h max_depth cur_depth cur_ext ext : N) (beta1 : Z) (prev_nodes : N) :
  list N -> Z -> option N -> ekind -> wstate -> sres Z :=
  fix loop (l : list N) (alpha : Z) (best : option N) (kind : ekind) (w : wstate) : sres Z :=
    match l with
    | [] =>
        if (prev_nodes =? w_nodes w)%N then
          eval_or_panic s (st_turn s) cur_depth (fun v => SVal v w)
        else
          match best with
          | Some bm => SVal alpha (mkW (acc_insert (w_tt w) h (mkEntry kind bm cur_depth max_depth alpha))
                                       (w_jidx w) (w_nodes w) (w_gnodes w) (w_flag w) (w_trace w))
          | None => SVal alpha w
          end
    | m :: tl =>
        match apply_move s m with
        | None => SPanic site_apply_unwrap
        | Some ns =>
            if any (N.land (pocc (st_board ns) (st_turn s) King) (colored_attacks (st_board ns) (st_turn ns)))
            then loop tl alpha best kind w
            else
              match rec ns (max_depth + ext)%N (cur_depth + 1 + ext)%N (cur_ext + ext)%N
                            (- beta1)%Z (- alpha)%Z None w with
              | SVal r w' =>
                  let e := (- r)%Z in
                  if (beta1 <=? e)%Z then
                    SVal beta1 (mkW (acc_insert (w_tt w') h (mkEntry LowerBound m cur_depth max_depth beta1))
                                    (w_jidx w') (w_nodes w') (w_gnodes w') (w_flag w') (w_trace w'))
                  else if (alpha <? e)%Z then loop tl e (Some m) Exact w'
                  else loop tl alpha best kind w'
              | other => other
              end
        end
    end.

(* the move list of a node: the prioritised move, then the moves by descending (estimate + jitter) *)
Definition keyed_moves (s : state) (j0 : N) : list (Z * N) :=
  let moves := MoveGen.pseudo_legal s in
  map (fun im => ((estimate s (snd im) + jit (j0 + fst im)%N)%Z, snd im))
      (combine (map N.of_nat (seq 0 (length moves))) moves).

Definition ordered_moves (s : state) (j0 : N) (prio : option N) : list N :=
  match prio with
  | Some pm => pm :: rev (map snd (stable_sort (keyed_moves s j0)))
  | None => rev (map snd (stable_sort (keyed_moves s j0)))
  end.

Definition drawn_count (s : state) : N :=
  let moves := MoveGen.pseudo_legal s in
  if (length moves <? 2)%nat then 0%N else N.of_nat (length moves).

Definition with_jidx (w : wstate) (d : N) : wstate :=
  mkW (w_tt w) (w_jidx w + d)%N (w_nodes w) (w_gnodes w) (w_flag w) (w_trace w).
Definition with_trace (w : wstate) (x : N * N * N * Z * Z) : wstate :=
  mkW (w_tt w) (w_jidx w) (w_nodes w) (w_gnodes w) (w_flag w) (x :: w_trace w).
Definition with_insert (w : wstate) (h : N) (e : entry) : wstate :=
  mkW (acc_insert (w_tt w) h e) (w_jidx w) (w_nodes w) (w_gnodes w) (w_flag w) (w_trace w).

Definition node_ext (s : state) (cur_ext : N) : N :=
  if (cur_ext <? extension_cap)%N then (if is_check s then 1%N else 0%N) else 0%N.

(* what a node does after the history test: probe, then quiescence or the move loop *)
Definition node_continue (s : state) (max_depth cur_depth cur_ext : N) (alpha beta : Z)
           (prio : option N) (w1 : wstate) : sres Z :=
  let h := hash hs s in
  match probe (w_tt w1) h max_depth cur_depth alpha beta with
  | PPanic site => SPanic site
  | PEarly v => SVal v w1
  | PWindow alpha1 beta1 =>
      if (max_depth <=? cur_depth)%N then
        match quiesce (S (men s)) s cur_depth alpha1 beta1 with
        | QVal v => SVal v w1
        | QPanic site => SPanic site
        | QFuel => SFuel
        end
      else
        loop_body s h max_depth cur_depth cur_ext (node_ext s cur_ext) beta1 (w_nodes w1)
                  (ordered_moves s (w_jidx w1) prio) alpha1 None UpperBound
                  (with_jidx w1 (drawn_count s))
  end.

Definition node_body (s : state) (max_depth cur_depth cur_ext : N) (alpha beta : Z)
           (prio : option N) (w : wstate) : sres Z :=
  if snd (enter_node cancel_at w) then SInterrupt (fst (enter_node cancel_at w)) else
  let w1 := with_trace (fst (enter_node cancel_at w)) (hash hs s, cur_depth, max_depth, alpha, beta) in
  if (0 <? cur_depth)%N && in_history history (hash hs s) then SVal EVEN w1
  else node_continue s max_depth cur_depth cur_ext alpha beta prio w1.

End Body.

Lemma analyze_S : forall hs history jit cancel k s md cd ce a b prio w,
  analyze hs history jit cancel (S k) s md cd ce a b prio w =
  node_body hs history jit cancel (analyze hs history jit cancel k) s md cd ce a b prio w.
Proof. intros. reflexivity. Qed.

Lemma analyze_O : forall hs history jit cancel s md cd ce a b prio w,
  analyze hs history jit cancel O s md cd ce a b prio w = SFuel.
Proof. reflexivity. Qed.

(* ------------------------------------------------------------------ *)
(* 2. stable_sort and the ordered move list                             *)
(* ------------------------------------------------------------------ *)

Lemma insert_by_in : forall (A : Type) (k : Z) (x : A) l y,
  In y (insert_by k x l) <-> y = (k, x) \/ In y l.
Proof.
  intros A k x l y. induction l as [|[k' z] tl IH]; cbn [insert_by In].
  - split; [intros [H|[]]; left; symmetry; exact H | intros [H|[]]; left; symmetry; exact H].
  - destruct (k <? k')%Z; cbn [In].
    + split; [intros [H|H]; [left; symmetry; exact H | right; exact H]
             | intros [H|H]; [left; symmetry; exact H | right; exact H]].
    + rewrite IH. tauto.
Qed.

Lemma stable_sort_fold_in : forall (A : Type) (l acc : list (Z * A)) y,
  In y (fold_left (fun acc kx => insert_by (fst kx) (snd kx) acc) l acc) <-> In y l \/ In y acc.
Proof.
  intros A l. induction l as [|[k x] tl IH]; intros acc y; cbn [fold_left In].
  - tauto.
  - rewrite IH. cbn [fst snd]. rewrite insert_by_in. split.
    + intros [H|[H|H]]; [left; right; exact H | left; left; symmetry; exact H | right; exact H].
    + intros [[H|H]|H]; [right; left; symmetry; exact H | left; exact H | right; right; exact H].
Qed.

Lemma stable_sort_in : forall (A : Type) (l : list (Z * A)) y, In y (stable_sort l) <-> In y l.
Proof.
  intros A l y. unfold stable_sort. rewrite stable_sort_fold_in. cbn [In]. tauto.
Qed.

Lemma stable_sort_single : forall (A : Type) (k k' : Z) (x : A),
  map snd (stable_sort [(k, x)]) = map snd (stable_sort [(k', x)]).
Proof. reflexivity. Qed.

Lemma keyed_moves_in : forall jit s j0 m, In m (map snd (keyed_moves jit s j0)) -> In m (MoveGen.pseudo_legal s).
Proof.
  intros jit s j0 m H. unfold keyed_moves in H. rewrite map_map in H. cbn [snd] in H.
  apply in_map_iff in H. destruct H as [[i x] [E Hin]]. cbn [snd] in E. subst x.
  exact (in_combine_r _ _ _ _ Hin).
Qed.

Lemma ordered_moves_in : forall jit s j0 prio m, In m (ordered_moves jit s j0 prio) ->
  In m (MoveGen.pseudo_legal s) \/ prio = Some m.
Proof.
  intros jit s j0 prio m H.
  assert (Hs : In m (rev (map snd (stable_sort (keyed_moves jit s j0)))) -> In m (MoveGen.pseudo_legal s)).
  { intros H1. apply in_rev in H1. apply in_map_iff in H1. destruct H1 as [[k x] [E Hin]].
    cbn [snd] in E. subst x. apply (proj1 (stable_sort_in _ _ _)) in Hin.
    apply (keyed_moves_in jit s j0). apply in_map_iff. exists (k, m). split; [reflexivity|exact Hin]. }
  unfold ordered_moves in H. destruct prio as [pm|].
  - destruct H as [H|H]; [right; rewrite H; reflexivity | left; exact (Hs H)].
  - left; exact (Hs H).
Qed.

(* ------------------------------------------------------------------ *)
(* 3. the moves the loop searches                                       *)
(* ------------------------------------------------------------------ *)

Definition king_hit (s ns : state) : bool :=
  any (N.land (pocc (st_board ns) (st_turn s) King) (colored_attacks (st_board ns) (st_turn ns))).

Lemma legal_in_pseudo : forall s m, In m (MoveGen.legal_moves s) -> In m (MoveGen.pseudo_legal s).
Proof. intros s m H. rewrite legal_moves_filter in H. apply filter_In in H. apply H. Qed.

Lemma legal_move_succ : forall s m, LegalPos s -> In m (MoveGen.legal_moves s) ->
  exists ns, In (m, ns) (gen_legal s) /\ apply_move s m = Some ns /\ LegalPos ns.
Proof.
  intros s m HL H. unfold MoveGen.legal_moves in H. apply in_map_iff in H.
  destruct H as [[m0 ns] [E Hin]]. cbn [fst] in E. subst m0. exists ns.
  destruct (apply_saturating s m ns HL Hin) as (Ha & _ & HLn). auto.
Qed.

Lemma pseudo_apply_some : forall s m, LegalPos s -> In m (MoveGen.pseudo_legal s) ->
  exists ns, apply_move s m = Some ns.
Proof.
  intros s m HL Hin. pose proof (gen_no_panic s HL) as Hp. unfold gen_panics in Hp.
  destruct (apply_move s m) as [ns|] eqn:E; [exists ns; reflexivity|].
  assert (Ht : existsb (fun m => match apply_move s m with None => true | Some _ => false end)
                       (MoveGen.pseudo_legal s) = true).
  { apply existsb_exists. exists m. split; [exact Hin|]. rewrite E. reflexivity. }
  rewrite Hp in Ht. discriminate Ht.
Qed.

Lemma searched_move : forall s m ns, LegalPos s -> In m (MoveGen.pseudo_legal s) ->
  apply_move s m = Some ns -> king_hit s ns = false ->
  In (m, ns) (gen_legal s) /\ LegalPos ns /\ In m (MoveGen.legal_moves s).
Proof.
  intros s m ns HL Hin Ha Hk.
  assert (Hg : In (m, ns) (gen_legal s)).
  { unfold gen_legal. apply in_filter_map. exists m. split; [exact Hin|].
    unfold try_as_legal. rewrite Ha. unfold king_hit, any in Hk. apply negb_false_iff in Hk.
    unfold none. rewrite Hk. reflexivity. }
  split; [exact Hg|]. split.
  - destruct (apply_saturating s m ns HL Hg) as (_ & _ & HLn). exact HLn.
  - unfold MoveGen.legal_moves. apply in_map_iff. exists (m, ns). split; [reflexivity|exact Hg].
Qed.

(* with no legal move, every pseudo-legal move fails the king test *)
Lemma no_legal_all_hit : forall s m ns, gen_legal s = [] -> In m (MoveGen.pseudo_legal s) ->
  apply_move s m = Some ns -> king_hit s ns = true.
Proof.
  intros s m ns Hg Hin Ha. destruct (king_hit s ns) eqn:Hk; [reflexivity|].
  assert (H : In (m, ns) (gen_legal s)).
  { unfold gen_legal. apply in_filter_map. exists m. split; [exact Hin|].
    unfold try_as_legal. rewrite Ha. unfold king_hit, any in Hk. apply negb_false_iff in Hk.
    unfold none. rewrite Hk. reflexivity. }
  rewrite Hg in H. destruct H.
Qed.

(* ------------------------------------------------------------------ *)
(* 4. the closure principle                                             *)
(* ------------------------------------------------------------------ *)

Section Closure.
Variable hs : hasher.
Variable history : list N.
Variable jit : N -> Z.
Variable cancel_at : option N.

Variable SP : state -> Prop.              (* invariant of the positions visited *)
Variable PrioOk : state -> N -> Prop.     (* what is assumed of a prioritised move *)
Variable Good : state -> N -> Prop.       (* what is known of a move stored in the table *)
Hypothesis SP_step : forall s m ns, SP s -> (In m (MoveGen.pseudo_legal s) \/ PrioOk s m) ->
  apply_move s m = Some ns -> king_hit s ns = false -> SP ns /\ Good s m.

Variable R : wstate -> wstate -> Prop.
Hypothesis R_refl : forall w, R w w.
Hypothesis R_trans : forall w1 w2 w3, R w1 w2 -> R w2 w3 -> R w1 w3.
Hypothesis R_enter : forall w, snd (enter_node cancel_at w) = false -> R w (fst (enter_node cancel_at w)).
Hypothesis R_trace : forall w x, R w (with_trace w x).
Hypothesis R_jidx : forall w d, R w (with_jidx w d).
Hypothesis R_insert : forall w s m k c md e, SP s -> Good s m -> (c < md)%N ->
  R w (with_insert w (hash hs s) (mkEntry k m c md e)).

Definition closure_post (w : wstate) (r : sres Z) : Prop :=
  match r with
  | SVal _ w' => R w w'
  | SInterrupt w' => exists w0, R w w0 /\ snd (enter_node cancel_at w0) = true /\ w' = fst (enter_node cancel_at w0)
  | _ => True
  end.

Lemma loop_closure : forall (rec : rec_t),
  (forall ns md cd ce a b w, SP ns -> closure_post w (rec ns md cd ce a b None w)) ->
  forall s md cd ce ext beta1 prev, SP s -> (cd < md)%N ->
  forall l, (forall m, In m l -> In m (MoveGen.pseudo_legal s) \/ PrioOk s m) ->
  forall alpha best kind w0 w, R w0 w -> (forall bm, best = Some bm -> Good s bm) ->
  closure_post w0 (loop_body rec s (hash hs s) md cd ce ext beta1 prev l alpha best kind w).
Proof.
  intros rec Hrec s md cd ce ext beta1 prev HS Hlt l.
  induction l as [|m tl IH]; intros Hl alpha best kind w0 w HR Hbest; cbn [loop_body].
  - destruct (prev =? w_nodes w).
    + unfold eval_or_panic. destruct (evaluate s (st_turn s) cd); [exact HR|exact Logic.I].
    + destruct best as [bm|]; [|exact HR]. cbn [closure_post].
      eapply R_trans; [exact HR|].
      exact (R_insert w s bm kind cd md alpha HS (Hbest bm eq_refl) Hlt).
  - destruct (apply_move s m) as [ns|] eqn:Ha; [|exact Logic.I].
    fold (king_hit s ns). destruct (king_hit s ns) eqn:Hk.
    + apply IH; [intros m' Hm'; apply Hl; right; exact Hm' | exact HR | exact Hbest].
    + destruct (SP_step s m ns HS (Hl m (or_introl eq_refl)) Ha Hk) as [HSn HG].
      pose proof (Hrec ns (md + ext) (cd + 1 + ext) (ce + ext) (- beta1)%Z (- alpha)%Z w HSn) as Hc.
      destruct (rec ns (md + ext) (cd + 1 + ext) (ce + ext) (- beta1)%Z (- alpha)%Z None w) as [r w'|w'| |];
        cbn [closure_post] in Hc |- *; [| |exact Logic.I|exact Logic.I].
      * assert (HR' : R w0 w') by (eapply R_trans; [exact HR|exact Hc]).
        cbv zeta. destruct (beta1 <=? - r)%Z.
        { cbn [closure_post]. eapply R_trans; [exact HR'|].
          exact (R_insert w' s m LowerBound cd md beta1 HS HG Hlt). }
        destruct (alpha <? - r)%Z.
        { apply IH; [intros m' Hm'; apply Hl; right; exact Hm' | exact HR' |].
          intros bm E. injection E as <-. exact HG. }
        { apply IH; [intros m' Hm'; apply Hl; right; exact Hm' | exact HR' | exact Hbest]. }
      * destruct Hc as (w1 & H1 & H2 & H3). exists w1. split; [|split; assumption].
        eapply R_trans; [exact HR|exact H1].
Qed.

Lemma node_closure : forall (rec : rec_t),
  (forall ns md cd ce a b w, SP ns -> closure_post w (rec ns md cd ce a b None w)) ->
  forall s md cd ce a b prio w, SP s -> (forall pm, prio = Some pm -> PrioOk s pm) ->
  closure_post w (node_body hs history jit cancel_at rec s md cd ce a b prio w).
Proof.
  intros rec Hrec s md cd ce a b prio w HS Hprio. unfold node_body.
  destruct (snd (enter_node cancel_at w)) eqn:Hi.
  - cbn [closure_post]. exists w. split; [apply R_refl|]. split; [exact Hi|reflexivity].
  - cbv zeta. set (w1 := with_trace (fst (enter_node cancel_at w)) (hash hs s, cd, md, a, b)).
    assert (HR1 : R w w1).
    { eapply R_trans; [exact (R_enter w Hi)|]. apply R_trace. }
    destruct ((0 <? cd) && in_history history (hash hs s)); [exact HR1|].
    unfold node_continue.
    destruct (probe (w_tt w1) (hash hs s) md cd a b) as [v|a1 b1|site]; [exact HR1| |exact Logic.I].
    destruct (md <=? cd) eqn:Hmd.
    + destruct (quiesce (S (men s)) s cd a1 b1); [exact HR1|exact Logic.I|exact Logic.I].
    + apply N.leb_gt in Hmd. apply (loop_closure rec Hrec s md cd ce _ b1 _ HS Hmd).
      * intros m Hm. apply ordered_moves_in in Hm. destruct Hm as [Hm|Hm]; [left; exact Hm|].
        right. exact (Hprio m Hm).
      * eapply R_trans; [exact HR1|]. apply R_jidx.
      * intros bm E. discriminate E.
Qed.

Theorem analyze_closure : forall fuel s md cd ce a b prio w,
  SP s -> (forall pm, prio = Some pm -> PrioOk s pm) ->
  closure_post w (analyze hs history jit cancel_at fuel s md cd ce a b prio w).
Proof.
  induction fuel as [|k IH]; intros s md cd ce a b prio w HS Hprio.
  - exact Logic.I.
  - rewrite analyze_S. apply node_closure; [|exact HS|exact Hprio].
    intros ns md' cd' ce' a' b' w' HSn. apply IH; [exact HSn|]. intros pm E. discriminate E.
Qed.

End Closure.
