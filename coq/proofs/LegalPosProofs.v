(* R1, part 4a: Rules-legal moves of legal positions satisfy the side conditions of the make-move
   refinement, and legal positions are closed under legal moves (rules level).

   REUSABLE STATEMENTS
     pmove_ok_k p mv k / move_ok_k_abs      the side conditions of ApplyProofs.move_ok_k at the rules level
     pseudo_legal_move_ok   pseudo_legal p mv -> from,to < 64 -> ep_clause p -> exists k, pmove_ok_k p mv k
     legal_moves_In         In mv (legal_moves p) <-> from,to < 64 /\ promo in promo_options /\ legal p mv
     pseudo_move_ok         LegalPos s -> pseudo_legal (abs s) mv -> mv_to mv < 64 -> move_ok s mv
     legal_move_ok          LegalPos s -> legal (abs s) mv -> mv_to mv < 64 -> move_ok s mv
     apply_at_gen / after_inv / after_keep / after_none / after_to / after_from
                            the placement after Rules.apply
     pseudo_legal_capture_attacks, dest_not_king
     count_one, pawns_clause_spec, rights_clause_spec, king_count_after, rights_after, pawns_after, ep_after
     legal_pos_apply        legal_pos p -> legal p mv -> from,to < 64 -> legal_pos (Rules.apply p mv) *)
From WV Require Import Types Bits Attacks Board MoveEnc MoveGen Rules Abs Wf Encode.
From WV Require Import BitsProofs BoardProofs MoveEncProofs PosEq BoardAlg ApplyProofs.
From Coq Require Import Lia ZifyBool ZifyN ZifyNat FinFun.
Ltac Zify.zify_post_hook ::= Z.div_mod_to_equations.
Open Scope N_scope.
Arguments N.add : simpl never.
Arguments N.sub : simpl never.
Arguments N.mul : simpl never.
Arguments N.land : simpl never.
Arguments N.lor : simpl never.
Arguments N.shiftl : simpl never.
Arguments N.shiftr : simpl never.
Arguments N.ldiff : simpl never.
Arguments N.div : simpl never.
Arguments N.modulo : simpl never.
Arguments Z.add : simpl never.
Arguments Z.sub : simpl never.
Arguments Z.mul : simpl never.

(* ====================================================================== *)
(* pos-level side conditions                                              *)
(* ====================================================================== *)

Definition pmove_ok_k (p : pos) (mv : move) (k : piece) : Prop :=
  let c := p_turn p in
  let f := mv_from mv in
  let t := mv_to mv in
  p_at p f = Some (c, k) /\ f < 64 /\ t < 64 /\ f <> t /\ colour_at p t c = false /\
  (match mv_promo mv with Some pr => k = Pawn /\ is_promo_kind pr = true | None => True end) /\
  (k = Pawn ->
     ((Z.abs (srank t - srank f) <= 1)%Z \/ (sfile t = sfile f /\ srank t = srank f + 2 * fwd c)%Z) /\
     (sfile t <> sfile f -> empty_at p t = true ->
        p_ep p = Some t /\ (srank t = srank f + fwd c)%Z /\
        has p (sq_of (sfile t) (srank f)) (opp c) Pawn = true /\ mv_promo mv = None)) /\
  (k = King -> (Z.abs (sfile t - sfile f) = 2)%Z ->
     f = king_home c /\ srank t = back_rank c /\
     has p (rook_home c (sfile t =? 6)%Z) c Rook = true /\ empty_at p t = true /\
     empty_at p (sq_of (if (sfile t =? 6)%Z then 5 else 3) (back_rank c)) = true).

Lemma move_ok_k_abs : forall s mv k, move_ok_k s mv k <-> pmove_ok_k (abs s) mv k.
Proof. intros. apply iff_refl. Qed.

Lemma color_eqb_true : forall c c', color_eqb c c' = true -> c = c'.
Proof. intros c c' H. apply color_eqb_eq. exact H. Qed.

Lemma colour_at_opp_not_empty : forall p t c, colour_at p t c = true -> empty_at p t = true -> False.
Proof.
  intros p t c H1 H2. unfold colour_at in H1. unfold empty_at in H2.
  destruct (p_at p t) as [[c' k']|]; discriminate.
Qed.

Lemma king_attack_df : forall p c f t, attacks_from p c King f t = true ->
  (Z.abs (sfile t - sfile f) <= 1)%Z.
Proof. intros p c f t H. unfold attacks_from in H. lia. Qed.

Lemma fwd_cases : forall c, (fwd c = 1 \/ fwd c = -1)%Z.
Proof. intros [|]; cbn [fwd]; lia. Qed.

(* the pawn part of pseudo_legal, as a Prop *)
Lemma pawn_shape : forall p c f t (pr : option piece),
  ((((sfile t - sfile f =? 0) && (srank t - srank f =? fwd c) && empty_at p t)
    || ((sfile t - sfile f =? 0) && (srank t - srank f =? 2 * fwd c) && (srank f =? home_rank c)
          && empty_at p (sq_of (sfile f) (srank f + fwd c)) && empty_at p t)
    || ((Z.abs (sfile t - sfile f) =? 1) && (srank t - srank f =? fwd c) && colour_at p t (opp c))
    || ((Z.abs (sfile t - sfile f) =? 1) && (srank t - srank f =? fwd c) && empty_at p t
          && match p_ep p with Some e => N.eqb e t | None => false end))%Z
   && (if (srank t =? last_rank c)%Z
       then match pr with Some k' => is_promo_kind k' | None => false end
       else match pr with None => true | Some _ => false end)) = true ->
  ((srank t = srank f + fwd c)%Z \/
   (sfile t = sfile f /\ srank t = srank f + 2 * fwd c /\ srank f = home_rank c /\
    empty_at p (sq_of (sfile f) (srank f + fwd c)) = true /\ empty_at p t = true)%Z) /\
  (sfile t <> sfile f -> empty_at p t = true -> p_ep p = Some t /\ (srank t = srank f + fwd c)%Z) /\
  (match pr with Some k' => is_promo_kind k' = true /\ srank t = last_rank c
               | None => srank t <> last_rank c end).
Proof.
  intros p c f t pr H. apply andb_true_iff in H. destruct H as [Hm Hp].
  split; [|split].
  - rewrite !orb_true_iff, !andb_true_iff in Hm.
    destruct Hm as [[[Hm|Hm]|Hm]|Hm].
    + left. lia.
    + right. destruct Hm as [[[[H1 H2] H3] H4] H5]. repeat split; try assumption; lia.
    + left. lia.
    + left. lia.
  - intros Hfl Hem. rewrite !orb_true_iff, !andb_true_iff in Hm.
    destruct Hm as [[[Hm|Hm]|Hm]|Hm].
    + exfalso. lia.
    + exfalso. lia.
    + exfalso. destruct Hm as [_ Hc]. exact (colour_at_opp_not_empty _ _ _ Hc Hem).
    + destruct Hm as [[[_ H2] _] He]. split; [|lia].
      destruct (p_ep p) as [e|]; [|discriminate He]. apply N.eqb_eq in He. rewrite He. reflexivity.
  - destruct (Z.eqb_spec (srank t) (last_rank c)) as [E|E].
    + destruct pr as [k'|]; [split; assumption | discriminate Hp].
    + destruct pr as [k'|]; [discriminate Hp | exact E].
Qed.


Lemma ep_clause_some : forall p t, ep_clause p = true -> p_ep p = Some t ->
  (srank t = if is_white (p_turn p) then 5 else 2)%Z /\ empty_at p t = true /\
  empty_at p (sq_of (sfile t) (srank t + fwd (p_turn p))) = true /\
  has p (sq_of (sfile t) (srank t - fwd (p_turn p))) (opp (p_turn p)) Pawn = true.
Proof.
  intros p t H E. unfold ep_clause in H. rewrite E in H. cbv zeta in H.
  rewrite !andb_true_iff in H. destruct H as [[[H1 H2] H3] H4].
  repeat split; try assumption. lia.
Qed.

Lemma pseudo_legal_move_ok : forall p mv, Rules.pseudo_legal p mv = true ->
  mv_from mv < 64 -> mv_to mv < 64 -> ep_clause p = true ->
  exists k, pmove_ok_k p mv k.
Proof.
  intros p mv H Hf64 Ht64 Hepc. unfold Rules.pseudo_legal in H. cbv zeta in H.
  destruct (p_at p (mv_from mv)) as [[c' k]|] eqn:Hf; [|discriminate H].
  apply andb_true_iff in H. destruct H as [H Hk].
  rewrite !andb_true_iff in H. destruct H as [[Hc Hown] Hne].
  apply color_eqb_true in Hc. subst c'.
  apply negb_true_iff in Hown. apply negb_true_iff in Hne. apply N.eqb_neq in Hne.
  exists k. unfold pmove_ok_k. cbv zeta.
  split; [exact Hf|]. split; [exact Hf64|]. split; [exact Ht64|]. split; [exact Hne|].
  split; [exact Hown|].
  destruct k.
  - discriminate Hk.
  - (* Pawn *)
    pose proof (pawn_shape p (p_turn p) (mv_from mv) (mv_to mv) (mv_promo mv) Hk) as (S1 & S2 & S3).
    split; [|split].
    + destruct (mv_promo mv) as [pr|]; [|exact I]. split; [reflexivity | apply S3].
    + intros _. split.
      * destruct (fwd_cases (p_turn p)); destruct S1 as [S1|(S1a & S1b & _)]; [left|right|left|right]; try lia;
          split; assumption.
      * intros Hfl Hem. destruct (S2 Hfl Hem) as [Hep Hrank].
        destruct (ep_clause_some p _ Hepc Hep) as (Er & _ & _ & Hv).
        split; [exact Hep|]. split; [exact Hrank|]. split.
        -- replace (srank (mv_from mv)) with (srank (mv_to mv) - fwd (p_turn p))%Z by lia. exact Hv.
        -- destruct (mv_promo mv) as [pr|]; [|reflexivity]. exfalso. destruct S3 as [_ S3].
           destruct (p_turn p); cbn [is_white last_rank] in *; lia.
    + intros E. discriminate E.
  - (* Knight *)
    destruct (mv_promo mv); [discriminate Hk|].
    split; [exact I|]. split; intros E; discriminate E.
  - destruct (mv_promo mv); [discriminate Hk|].
    split; [exact I|]. split; intros E; discriminate E.
  - destruct (mv_promo mv); [discriminate Hk|].
    split; [exact I|]. split; intros E; discriminate E.
  - destruct (mv_promo mv); [discriminate Hk|].
    split; [exact I|]. split; intros E; discriminate E.
  - (* King *)
    destruct (mv_promo mv); [discriminate Hk|].
    split; [exact I|]. split; [intros E; discriminate E|].
    intros _ Hdf. apply orb_true_iff in Hk. destruct Hk as [Hk|Hk].
    { exfalso. pose proof (king_attack_df _ _ _ _ Hk). lia. }
    unfold is_castle_move in Hk. cbn [mv_from mv_to] in Hk.
    destruct (has p (mv_from mv) (p_turn p) King && (mv_from mv =? king_home (p_turn p))
              && (srank (mv_to mv) =? back_rank (p_turn p))%Z) eqn:Ecm; [|discriminate Hk].
    rewrite !andb_true_iff in Ecm. destruct Ecm as [[_ Eh] Er].
    apply N.eqb_eq in Eh. apply Z.eqb_eq in Er.
    assert (Hside : forall side, castle_ok p (p_turn p) side = true ->
              sfile (mv_to mv) = (if side then 6 else 2)%Z ->
              has p (rook_home (p_turn p) side) (p_turn p) Rook = true /\
              empty_at p (mv_to mv) = true /\
              empty_at p (sq_of (if side then 5 else 3) (back_rank (p_turn p))) = true).
    { intros side Hco Hfile. unfold castle_ok in Hco. cbv zeta in Hco.
      rewrite !andb_true_iff in Hco. destruct Hco as [[[[[_ _] Hrk] Hemp] _] _].
      split; [exact Hrk|].
      assert (Ht : mv_to mv = sq_of (if side then 6 else 2) (back_rank (p_turn p))).
      { rewrite <- (sq_of_coords (mv_to mv) Ht64), Hfile, Er. reflexivity. }
      destruct side; rewrite !andb_true_iff in Hemp.
      - destruct Hemp as [H5 H6]. split; [rewrite Ht; exact H6 | exact H5].
      - destruct Hemp as [[H1 H2] H3]. split; [rewrite Ht; exact H2 | exact H3]. }
    split; [exact Eh|]. split; [exact Er|].
    destruct (Z.eqb_spec (sfile (mv_to mv)) 6) as [E6|E6].
    + exact (Hside true Hk E6).
    + destruct (Z.eqb_spec (sfile (mv_to mv)) 2) as [E2|E2]; [|discriminate Hk].
      exact (Hside false Hk E2).
Qed.


Lemma all_squares_In : forall x, In x all_squares <-> x < 64.
Proof. exact squares_In. Qed.

Lemma legal_pseudo : forall p mv, legal p mv = true -> Rules.pseudo_legal p mv = true.
Proof. intros p mv H. unfold legal in H. apply andb_true_iff in H. apply H. Qed.

Lemma legal_safe : forall p mv, legal p mv = true -> king_attacked (Rules.apply p mv) (p_turn p) = false.
Proof.
  intros p mv H. unfold legal in H. apply andb_true_iff in H. destruct H as [_ H].
  apply negb_true_iff. exact H.
Qed.

Lemma pseudo_legal_from : forall p mv, Rules.pseudo_legal p mv = true ->
  exists k, p_at p (mv_from mv) = Some (p_turn p, k).
Proof.
  intros p mv H. unfold Rules.pseudo_legal in H. cbv zeta in H.
  destruct (p_at p (mv_from mv)) as [[c' k]|]; [|discriminate H].
  rewrite !andb_true_iff in H. destruct H as [[[Hc _] _] _]. apply color_eqb_true in Hc. subst c'.
  exists k. reflexivity.
Qed.

(* Rules.legal_moves enumerates exactly the legal moves between board squares *)
Theorem legal_moves_In : forall p mv, In mv (Rules.legal_moves p) <->
  mv_from mv < 64 /\ mv_to mv < 64 /\ In (mv_promo mv) promo_options /\ legal p mv = true.
Proof.
  intros p mv. unfold Rules.legal_moves. rewrite in_flat_map. split.
  - intros [f [Hf H]]. apply all_squares_In in Hf.
    destruct (p_at p f) as [[c k]|]; [|destruct H].
    destruct (color_eqb c (p_turn p)); [|destruct H].
    apply in_flat_map in H. destruct H as [t [Ht H]]. apply all_squares_In in Ht.
    apply in_flat_map in H. destruct H as [pr [Hpr H]]. cbv zeta in H.
    destruct (legal p (mkMove f t pr)) eqn:El; [|destruct H].
    destruct H as [H|[]]. subst mv. cbn [mv_from mv_to mv_promo]. repeat split; assumption.
  - intros (Hf & Ht & Hpr & Hl). exists (mv_from mv). split; [apply all_squares_In; exact Hf|].
    destruct (pseudo_legal_from p mv (legal_pseudo p mv Hl)) as [k Hk]. rewrite Hk, color_eqb_refl.
    apply in_flat_map. exists (mv_to mv). split; [apply all_squares_In; exact Ht|].
    apply in_flat_map. exists (mv_promo mv). split; [exact Hpr|]. cbv zeta.
    destruct mv as [f t pr]. cbn [mv_from mv_to mv_promo]. rewrite Hl. left. reflexivity.
Qed.

(* a pseudo-legal (a fortiori a legal) move of a legal position satisfies the side conditions of the
   refinement *)
Theorem pseudo_move_ok : forall s mv, LegalPos s -> Rules.pseudo_legal (abs s) mv = true ->
  mv_to mv < 64 -> move_ok s mv.
Proof.
  intros s mv HL Hpl Ht. unfold LegalPos, legal_posb in HL. apply andb_true_iff in HL.
  destruct HL as [Hwf Hlp].
  destruct (pseudo_legal_from _ _ Hpl) as [k Hk].
  assert (Hf : mv_from mv < 64).
  { cbn [abs p_at] in Hk. exact (piece_at_lt64 _ _ _ (wf_state_board s Hwf) Hk). }
  destruct (legal_pos_parts _ Hlp) as (_ & _ & _ & _ & _ & He).
  destruct (pseudo_legal_move_ok _ _ Hpl Hf Ht He) as [k' Hok].
  exists k'. apply move_ok_k_abs. exact Hok.
Qed.

Theorem legal_move_ok : forall s mv, LegalPos s -> Rules.legal (abs s) mv = true -> mv_to mv < 64 ->
  move_ok s mv.
Proof. intros s mv HL Hl Ht. exact (pseudo_move_ok s mv HL (legal_pseudo _ _ Hl) Ht). Qed.

(* ====================================================================== *)
(* the placement after a move, general form                               *)
(* ====================================================================== *)

Lemma apply_at_gen : forall p mv c0 k y, p_at p (mv_from mv) = Some (c0, k) ->
  p_at (Rules.apply p mv) y =
  if y =? mv_to mv then Some (p_turn p, placed_kind k (mv_promo mv))
  else if y =? mv_from mv then None
  else if ep_flag p k (mv_from mv) (mv_to mv) && (y =? sq_of (sfile (mv_to mv)) (srank (mv_from mv))) then None
  else if castle_flag k (mv_from mv) (mv_to mv) then
    if y =? rook_home (p_turn p) (sfile (mv_to mv) =? 6)%Z then None
    else if y =? sq_of (if (sfile (mv_to mv) =? 6)%Z then 5 else 3) (back_rank (p_turn p))
         then Some (p_turn p, Rook) else p_at p y
  else p_at p y.
Proof.
  intros p mv c0 k y Hf. unfold Rules.apply. cbn [p_at]. rewrite Hf.
  unfold ep_flag, castle_flag, placed_kind.
  destruct (piece_eqb k King && (Z.abs (sfile (mv_to mv) - sfile (mv_from mv)) =? 2)%Z); reflexivity.
Qed.

Section Frame.
Variables (p : pos) (mv : move) (k : piece).
Hypothesis Hok : pmove_ok_k p mv k.
Let c := p_turn p.
Let f := mv_from mv.
Let t := mv_to mv.
Let victim := sq_of (sfile t) (srank f).
Let rh := rook_home c (sfile t =? 6)%Z.
Let rt := sq_of (if (sfile t =? 6)%Z then 5 else 3) (back_rank c).

Lemma after_inv : forall y ck, p_at (Rules.apply p mv) y = Some ck ->
  (y = t /\ ck = (c, placed_kind k (mv_promo mv))) \/
  (castle_flag k f t = true /\ y = rt /\ ck = (c, Rook)) \/
  (p_at p y = Some ck /\ y <> t /\ y <> f).
Proof.
  intros y ck H. destruct Hok as (Hf & _).
  rewrite (apply_at_gen p mv c k y Hf) in H. fold c f t victim rh rt in H.
  destruct (N.eqb_spec y t) as [Et|Et].
  { left. injection H as <-. split; [exact Et | reflexivity]. }
  destruct (N.eqb_spec y f) as [Ef|Ef]; [discriminate H|].
  destruct (ep_flag p k f t && (y =? victim)); [discriminate H|].
  destruct (castle_flag k f t).
  - destruct (y =? rh); [discriminate H|].
    destruct (N.eqb_spec y rt) as [Ert|Ert].
    + right. left. injection H as <-. repeat split. exact Ert.
    + right. right. repeat split; assumption.
  - right. right. repeat split; assumption.
Qed.

Lemma after_keep : forall y ck, p_at p y = Some ck -> y <> t -> y <> f ->
  (ep_flag p k f t = true -> y <> victim) -> (castle_flag k f t = true -> y <> rh) ->
  p_at (Rules.apply p mv) y = Some ck.
Proof.
  intros y ck H Et Ef Hv Hr. pose proof Hok as (Hf & _ & _ & _ & _ & _ & _ & Hking).
  rewrite (apply_at_gen p mv c k y Hf). fold c f t victim rh rt.
  apply N.eqb_neq in Et. apply N.eqb_neq in Ef. rewrite Et, Ef.
  destruct (ep_flag p k f t) eqn:Eep.
  - cbn [andb]. pose proof (Hv eq_refl) as Hv'. apply N.eqb_neq in Hv'. rewrite Hv'.
    assert (Eca : castle_flag k f t = false).
    { unfold ep_flag in Eep. unfold castle_flag. rewrite !andb_true_iff in Eep.
      destruct Eep as [[Ep _] _]. apply piece_eqb_eq in Ep. subst k. reflexivity. }
    rewrite Eca. exact H.
  - cbn [andb]. destruct (castle_flag k f t) eqn:Eca; [|exact H].
    pose proof (Hr eq_refl) as Hr'. apply N.eqb_neq in Hr'. rewrite Hr'.
    destruct (N.eqb_spec y rt) as [Ert|Ert]; [|exact H].
    exfalso. unfold castle_flag in Eca. apply andb_true_iff in Eca. destruct Eca as [Ek Edf].
    apply piece_eqb_eq in Ek. apply Z.eqb_eq in Edf.
    destruct (Hking Ek Edf) as (_ & _ & _ & _ & Hem). fold c t rt in Hem.
    unfold empty_at in Hem. rewrite <- Ert, H in Hem. discriminate Hem.
Qed.

Lemma after_to : p_at (Rules.apply p mv) t = Some (c, placed_kind k (mv_promo mv)).
Proof.
  destruct Hok as (Hf & _). rewrite (apply_at_gen p mv c k t Hf). fold t. rewrite N.eqb_refl. reflexivity.
Qed.

Lemma after_from : p_at (Rules.apply p mv) f = None.
Proof.
  destruct Hok as (Hf & _ & _ & Hne & _). rewrite (apply_at_gen p mv c k f Hf). fold f t.
  destruct (N.eqb_spec f t) as [E|E]; [exfalso; exact (Hne E)|]. rewrite N.eqb_refl. reflexivity.
Qed.

End Frame.


(* a pseudo-legal move onto a square held by the opponent is an attack on that square *)
Lemma pseudo_legal_capture_attacks : forall p mv k,
  Rules.pseudo_legal p mv = true -> mv_to mv < 64 ->
  p_at p (mv_from mv) = Some (p_turn p, k) -> colour_at p (mv_to mv) (opp (p_turn p)) = true ->
  attacks_from p (p_turn p) k (mv_from mv) (mv_to mv) = true.
Proof.
  intros p mv k H Ht64 Hf Hocc. unfold Rules.pseudo_legal in H. cbv zeta in H. rewrite Hf in H.
  apply andb_true_iff in H. destruct H as [_ Hk].
  assert (Hne : empty_at p (mv_to mv) = true -> False) by (apply colour_at_opp_not_empty with (c := opp (p_turn p)); exact Hocc).
  destruct k.
  - discriminate Hk.
  - apply andb_true_iff in Hk. destruct Hk as [Hm _].
    rewrite !orb_true_iff, !andb_true_iff in Hm. unfold attacks_from.
    destruct Hm as [[[Hm|Hm]|Hm]|Hm].
    + exfalso. apply Hne. apply Hm.
    + exfalso. apply Hne. apply Hm.
    + destruct Hm as [[H1 H2] _]. rewrite H1, H2. reflexivity.
    + exfalso. apply Hne. apply Hm.
  - destruct (mv_promo mv); [discriminate Hk | exact Hk].
  - destruct (mv_promo mv); [discriminate Hk | exact Hk].
  - destruct (mv_promo mv); [discriminate Hk | exact Hk].
  - destruct (mv_promo mv); [discriminate Hk | exact Hk].
  - destruct (mv_promo mv); [discriminate Hk|].
    apply orb_true_iff in Hk. destruct Hk as [Hk|Hk]; [exact Hk|]. exfalso.
    unfold is_castle_move in Hk.
    destruct (has p (mv_from mv) (p_turn p) King && (mv_from mv =? king_home (p_turn p))
              && (srank (mv_to mv) =? back_rank (p_turn p))%Z) eqn:Ecm; [|discriminate Hk].
    rewrite !andb_true_iff in Ecm. destruct Ecm as [_ Er]. apply Z.eqb_eq in Er.
    assert (Hside : forall side, castle_ok p (p_turn p) side = true ->
              sfile (mv_to mv) = (if side then 6 else 2)%Z -> False).
    { intros side Hco Hfile. unfold castle_ok in Hco. cbv zeta in Hco.
      rewrite !andb_true_iff in Hco. destruct Hco as [[[_ Hemp] _] _].
      assert (Ht : mv_to mv = sq_of (if side then 6 else 2) (back_rank (p_turn p))).
      { rewrite <- (sq_of_coords (mv_to mv) Ht64), Hfile, Er. reflexivity. }
      apply Hne. destruct side; rewrite !andb_true_iff in Hemp; rewrite Ht; apply Hemp. }
    destruct (Z.eqb_spec (sfile (mv_to mv)) 6) as [E6|E6]; [exact (Hside true Hk E6)|].
    destruct (Z.eqb_spec (sfile (mv_to mv)) 2) as [E2|E2]; [exact (Hside false Hk E2) | discriminate Hk].
Qed.

Lemma opp_opp : forall c, opp (opp c) = c.
Proof. intros [|]; reflexivity. Qed.

Lemma attacked_intro : forall p c k f t, f < 64 -> p_at p f = Some (c, k) ->
  attacks_from p c k f t = true -> attacked p c t = true.
Proof.
  intros p c k f t Hf Hat Ha. unfold attacked. apply existsb_exists. exists f.
  split; [apply all_squares_In; exact Hf|]. rewrite Hat, color_eqb_refl, Ha. reflexivity.
Qed.

Lemma king_attacked_intro : forall p c x, x < 64 -> p_at p x = Some (c, King) ->
  attacked p (opp c) x = true -> king_attacked p c = true.
Proof.
  intros p c x Hx Hat Ha. unfold king_attacked. apply existsb_exists. exists x.
  split; [apply all_squares_In; exact Hx|]. rewrite Ha, andb_true_r. apply has_iff. exact Hat.
Qed.

(* in a position where the side not to move is not in check, no pseudo-legal move captures a king *)
Theorem dest_not_king : forall p mv, king_attacked p (opp (p_turn p)) = false ->
  Rules.pseudo_legal p mv = true -> mv_from mv < 64 -> mv_to mv < 64 ->
  forall c1, p_at p (mv_to mv) <> Some (c1, King).
Proof.
  intros p mv Hsafe Hpl Hf64 Ht64 c1 Hk.
  destruct (pseudo_legal_from p mv Hpl) as [k Hf].
  assert (Hown : colour_at p (mv_to mv) (p_turn p) = false).
  { unfold Rules.pseudo_legal in Hpl. cbv zeta in Hpl. rewrite Hf in Hpl.
    rewrite !andb_true_iff in Hpl. destruct Hpl as [[[_ Ho] _] _]. apply negb_true_iff. exact Ho. }
  assert (Hc1 : c1 = opp (p_turn p)).
  { apply opp_of_neq. intros ->. unfold colour_at in Hown. rewrite Hk, color_eqb_refl in Hown.
    discriminate Hown. }
  subst c1.
  assert (Hocc : colour_at p (mv_to mv) (opp (p_turn p)) = true).
  { unfold colour_at. rewrite Hk. apply color_eqb_refl. }
  pose proof (pseudo_legal_capture_attacks p mv k Hpl Ht64 Hf Hocc) as Ha.
  pose proof (attacked_intro p _ k _ _ Hf64 Hf Ha) as Hatt.
  rewrite <- (opp_opp (p_turn p)) in Hatt at 1.
  rewrite (king_attacked_intro p _ _ Ht64 Hk Hatt) in Hsafe. discriminate Hsafe.
Qed.


(* ---------- counting ---------- *)

Lemma filter_length_zero : forall (A : Type) (g : A -> bool) (l : list A),
  length (filter g l) = 0%nat <-> forall y, In y l -> g y = false.
Proof.
  intros A g l. induction l as [|a tl IH]; cbn [filter].
  - split; [intros _ y [] | reflexivity].
  - destruct (g a) eqn:Ea; cbn [length].
    + split; [intros H; discriminate H|]. intros H. rewrite (H a (or_introl eq_refl)) in Ea. discriminate Ea.
    + rewrite IH. split.
      * intros H y [<-|Hy]; [exact Ea | exact (H y Hy)].
      * intros H y Hy. apply H. right. exact Hy.
Qed.

Lemma filter_length_one : forall (A : Type) (g : A -> bool) (l : list A), NoDup l ->
  (length (filter g l) = 1%nat <->
   exists x, In x l /\ g x = true /\ forall y, In y l -> g y = true -> y = x).
Proof.
  intros A g l Hnd. induction Hnd as [|a tl Hnotin Hnd IH]; cbn [filter].
  - split; [intros H; discriminate H | intros [x [[] _]]].
  - destruct (g a) eqn:Ea; cbn [length].
    + split.
      * intros H. injection H as H. rewrite filter_length_zero in H.
        exists a. split; [left; reflexivity|]. split; [exact Ea|].
        intros y [<-|Hy] Hg; [reflexivity|]. rewrite (H y Hy) in Hg. discriminate Hg.
      * intros [x (Hx & Hgx & Hu)]. f_equal. apply filter_length_zero. intros y Hy.
        destruct (g y) eqn:Ey; [|reflexivity]. exfalso.
        assert (E1 : y = x) by (apply Hu; [right; exact Hy | exact Ey]).
        assert (E2 : a = x) by (apply Hu; [left; reflexivity | exact Ea]).
        apply Hnotin. rewrite E2, <- E1. exact Hy.
    + rewrite IH. split.
      * intros [x (Hx & Hgx & Hu)]. exists x. split; [right; exact Hx|]. split; [exact Hgx|].
        intros y [<-|Hy] Hg; [rewrite Ea in Hg; discriminate Hg | exact (Hu y Hy Hg)].
      * intros [x (Hx & Hgx & Hu)]. exists x. destruct Hx as [<-|Hx]; [rewrite Ea in Hgx; discriminate Hgx|].
        split; [exact Hx|]. split; [exact Hgx|]. intros y Hy Hg. apply Hu; [right; exact Hy | exact Hg].
Qed.

Lemma all_squares_NoDup : NoDup all_squares.
Proof.
  unfold all_squares. apply Injective_map_NoDup; [|apply seq_NoDup].
  intros a b H. apply Nat2N.inj. exact H.
Qed.

Lemma count_one : forall p c k, count_pieces p c k = 1%nat <->
  exists x, x < 64 /\ p_at p x = Some (c, k) /\ forall y, y < 64 -> p_at p y = Some (c, k) -> y = x.
Proof.
  intros p c k. unfold count_pieces. rewrite (filter_length_one _ _ _ all_squares_NoDup). split.
  - intros [x (Hx & Hg & Hu)]. exists x. split; [apply all_squares_In; exact Hx|].
    split; [apply has_iff; exact Hg|]. intros y Hy Hat. apply Hu; [apply all_squares_In; exact Hy|].
    apply has_iff. exact Hat.
  - intros [x (Hx & Hg & Hu)]. exists x. split; [apply all_squares_In; exact Hx|].
    split; [apply has_iff; exact Hg|]. intros y Hy Hat. apply Hu; [apply all_squares_In; exact Hy|].
    apply has_iff. exact Hat.
Qed.

Lemma pawns_clause_spec : forall p, pawns_clause p = true <->
  forall s c1, s < 64 -> p_at p s = Some (c1, Pawn) -> srank s <> 0%Z /\ srank s <> 7%Z.
Proof.
  intros p. unfold pawns_clause. rewrite forallb_forall. split.
  - intros H s c1 Hs Hat. pose proof (H s (proj2 (all_squares_In s) Hs)) as Hx. cbv beta in Hx.
    assert (Hh : has p s White Pawn || has p s Black Pawn = true).
    { destruct c1; [rewrite (proj2 (has_iff p s White Pawn) Hat) | rewrite (proj2 (has_iff p s Black Pawn) Hat)];
        [reflexivity | apply orb_true_r]. }
    rewrite Hh in Hx. cbn [negb] in Hx. rewrite orb_false_r in Hx.
    apply negb_true_iff in Hx. apply orb_false_iff in Hx. lia.
  - intros H s Hs. apply all_squares_In in Hs.
    destruct ((srank s =? 0)%Z || (srank s =? 7)%Z) eqn:Er; [|reflexivity]. cbn [negb orb].
    apply negb_true_iff. apply orb_false_iff. split.
    + destruct (has p s White Pawn) eqn:E; [|reflexivity]. apply has_iff in E.
      destruct (H s White Hs E). lia.
    + destruct (has p s Black Pawn) eqn:E; [|reflexivity]. apply has_iff in E.
      destruct (H s Black Hs E). lia.
Qed.

Lemma rights_clause_spec : forall p, rights_clause p = true <->
  forall c side, p_right p c side = true ->
    p_at p (king_home c) = Some (c, King) /\ p_at p (rook_home c side) = Some (c, Rook).
Proof.
  intros p. unfold rights_clause. split.
  - intros H c side Hr. rewrite forallb_forall in H.
    assert (Hc1 : In c [White; Black]) by (destruct c; cbn [In]; auto).
    pose proof (H c Hc1) as H1. cbv beta in H1. rewrite forallb_forall in H1.
    assert (Hs1 : In side [true; false]) by (destruct side; cbn [In]; auto).
    pose proof (H1 side Hs1) as Hx. cbv beta in Hx. rewrite Hr in Hx. cbn [negb orb] in Hx.
    split; apply has_iff; [destruct (has p (king_home c) c King) | destruct (has p (rook_home c side) c Rook)];
      try reflexivity; try discriminate Hx. rewrite andb_false_r in Hx. discriminate Hx.
  - intros H. apply forallb_forall. intros c _. apply forallb_forall. intros side _.
    destruct (p_right p c side) eqn:Hr; [|reflexivity]. cbn [negb orb].
    destruct (H c side Hr) as [H1 H2].
    rewrite (proj2 (has_iff _ _ _ _) H1), (proj2 (has_iff _ _ _ _) H2). reflexivity.
Qed.


Lemma after_none : forall p mv k y, pmove_ok_k p mv k -> p_at p y = None -> y <> mv_to mv ->
  (castle_flag k (mv_from mv) (mv_to mv) = true ->
   y <> sq_of (if (sfile (mv_to mv) =? 6)%Z then 5 else 3) (back_rank (p_turn p))) ->
  p_at (Rules.apply p mv) y = None.
Proof.
  intros p mv k y Hok Hy Ht Hrt. destruct (p_at (Rules.apply p mv) y) as [ck|] eqn:E; [|reflexivity].
  exfalso. destruct (after_inv p mv k Hok y ck E) as [[E1 _]|[[Hca [E1 _]]|[E1 _]]].
  - exact (Ht E1).
  - exact (Hrt Hca E1).
  - rewrite Hy in E1. discriminate E1.
Qed.

Lemma placed_king : forall p mv k, pmove_ok_k p mv k ->
  placed_kind k (mv_promo mv) = King -> k = King.
Proof.
  intros p mv k (_ & _ & _ & _ & _ & Hpro & _) H. unfold placed_kind in H.
  destruct (mv_promo mv) as [pr|]; [|exact H]. subst pr. destruct Hpro as [_ Hpro]. discriminate Hpro.
Qed.

Lemma king_promo_none : forall p mv, pmove_ok_k p mv King -> mv_promo mv = None.
Proof.
  intros p mv (_ & _ & _ & _ & _ & Hpro & _). destruct (mv_promo mv) as [pr|]; [|reflexivity].
  destruct Hpro as [Hpro _]. discriminate Hpro.
Qed.

Lemma ep_victim_pawn : forall p mv k, pmove_ok_k p mv k ->
  ep_flag p k (mv_from mv) (mv_to mv) = true ->
  p_at p (sq_of (sfile (mv_to mv)) (srank (mv_from mv))) = Some (opp (p_turn p), Pawn).
Proof.
  intros p mv k (_ & _ & _ & _ & _ & _ & Hpawn & _) Hep. unfold ep_flag in Hep.
  rewrite !andb_true_iff in Hep. destruct Hep as [[Ep Efl] Eem]. apply piece_eqb_eq in Ep.
  apply negb_true_iff in Efl. apply Z.eqb_neq in Efl.
  assert (Hfl : sfile (mv_to mv) <> sfile (mv_from mv)) by (intros E; apply Efl; symmetry; exact E).
  destruct (proj2 (Hpawn Ep) Hfl Eem) as (_ & _ & Hv & _). apply has_iff. exact Hv.
Qed.

Lemma castle_rook : forall p mv k, pmove_ok_k p mv k ->
  castle_flag k (mv_from mv) (mv_to mv) = true ->
  k = King /\ p_at p (rook_home (p_turn p) (sfile (mv_to mv) =? 6)%Z) = Some (p_turn p, Rook).
Proof.
  intros p mv k (_ & _ & _ & _ & _ & _ & _ & Hking) Hca. unfold castle_flag in Hca.
  apply andb_true_iff in Hca. destruct Hca as [Ek Edf]. apply piece_eqb_eq in Ek. apply Z.eqb_eq in Edf.
  destruct (Hking Ek Edf) as (_ & _ & Hr & _). split; [exact Ek | apply has_iff; exact Hr].
Qed.

(* ---------- kings ---------- *)

Lemma king_count_after : forall p mv k c0, pmove_ok_k p mv k ->
  (forall c1, p_at p (mv_to mv) <> Some (c1, King)) ->
  count_pieces p c0 King = 1%nat -> count_pieces (Rules.apply p mv) c0 King = 1%nat.
Proof.
  intros p mv k c0 Hok Hnk H. rewrite count_one in H. destruct H as [x0 (Hx0 & Hat0 & Hu)].
  pose proof Hok as (Hf & Hf64 & Ht64 & Hne & Hown & Hpro & Hpawn & Hking).
  apply count_one.
  destruct (N.eq_dec x0 (mv_from mv)) as [Ex|Ex].
  - (* the king moves *)
    subst x0. rewrite Hf in Hat0. injection Hat0 as Ec Ek. subst k.
    exists (mv_to mv). split; [exact Ht64|]. split.
    + rewrite (after_to p mv King Hok), (king_promo_none p mv Hok), Ec. reflexivity.
    + intros y Hy Hy'. destruct (after_inv p mv King Hok y _ Hy') as [[E1 _]|[[_ [_ E1]]|[E1 [_ E2]]]].
      * exact E1.
      * discriminate E1.
      * exfalso. apply E2. apply Hu; assumption.
  - exists x0. split; [exact Hx0|]. split.
    + apply (after_keep p mv k Hok); [exact Hat0 | | exact Ex | |].
      * intros E. rewrite E in Hat0. exact (Hnk c0 Hat0).
      * intros Hep E. rewrite E, (ep_victim_pawn p mv k Hok Hep) in Hat0. discriminate Hat0.
      * intros Hca E. destruct (castle_rook p mv k Hok Hca) as [_ Hr]. rewrite E, Hr in Hat0. discriminate Hat0.
    + intros y Hy Hy'. destruct (after_inv p mv k Hok y _ Hy') as [[E1 E2]|[[_ [_ E1]]|[E1 _]]].
      * exfalso. injection E2 as Ec Ek. symmetry in Ek. apply (placed_king p mv k Hok) in Ek. subst k.
        apply Ex. symmetry. apply Hu; [exact Hf64|]. rewrite Hf, Ec. reflexivity.
      * discriminate E1.
      * apply Hu; assumption.
Qed.

(* ---------- castling rights ---------- *)

Lemma rights_after : forall p mv k, pmove_ok_k p mv k ->
  (forall c1, p_at p (mv_to mv) <> Some (c1, King)) ->
  rights_clause p = true -> rights_clause (Rules.apply p mv) = true.
Proof.
  intros p mv k Hok Hnk H. rewrite rights_clause_spec in H. apply rights_clause_spec.
  pose proof Hok as (Hf & Hf64 & Ht64 & Hne & Hown & Hpro & Hpawn & Hking).
  intros c0 side Hr. unfold Rules.apply in Hr. cbn [p_right] in Hr. rewrite Hf in Hr.
  rewrite !andb_true_iff in Hr. destruct Hr as [[[Hr0 Hkm] Hfr] Htr].
  apply negb_true_iff in Hkm. apply negb_true_iff in Hfr. apply negb_true_iff in Htr.
  apply N.eqb_neq in Hfr. apply N.eqb_neq in Htr.
  destruct (H c0 side Hr0) as [Hkh Hrh].
  assert (Hcastle : castle_flag k (mv_from mv) (mv_to mv) = true -> p_turn p <> c0).
  { intros Hca E. destruct (castle_rook p mv k Hok Hca) as [Ek _]. subst k.
    rewrite E, color_eqb_refl in Hkm. discriminate Hkm. }
  split.
  - apply (after_keep p mv k Hok); [exact Hkh | | | |].
    + intros E. rewrite E in Hkh. exact (Hnk c0 Hkh).
    + intros E. rewrite E, Hf in Hkh. injection Hkh as Ec Ek. subst k.
      rewrite Ec, color_eqb_refl in Hkm. discriminate Hkm.
    + intros Hep E. rewrite E, (ep_victim_pawn p mv k Hok Hep) in Hkh. discriminate Hkh.
    + intros Hca E. destruct (castle_rook p mv k Hok Hca) as [_ Hr]. rewrite E, Hr in Hkh. discriminate Hkh.
  - apply (after_keep p mv k Hok); [exact Hrh | | | |].
    + intros E. apply Htr. symmetry. exact E.
    + intros E. apply Hfr. symmetry. exact E.
    + intros Hep E. rewrite E, (ep_victim_pawn p mv k Hok Hep) in Hrh. discriminate Hrh.
    + intros Hca E. destruct (castle_rook p mv k Hok Hca) as [_ Hr]. rewrite E, Hr in Hrh.
      injection Hrh as Ec. exact (Hcastle Hca Ec).
Qed.


Lemma coords_sq_of : forall a b, (0 <= a <= 7)%Z -> (0 <= b)%Z ->
  sfile (sq_of a b) = a /\ srank (sq_of a b) = b.
Proof. intros a b Ha Hb. unfold sfile, srank, sq_of. lia. Qed.

Lemma coords_bound : forall s, s < 64 -> (0 <= sfile s <= 7 /\ 0 <= srank s <= 7)%Z.
Proof. intros s Hs. unfold sfile, srank. lia. Qed.

Lemma pseudo_legal_pawn : forall p mv, Rules.pseudo_legal p mv = true ->
  p_at p (mv_from mv) = Some (p_turn p, Pawn) ->
  let c := p_turn p in let f := mv_from mv in let t := mv_to mv in
  ((srank t = srank f + fwd c)%Z \/
   (sfile t = sfile f /\ srank t = srank f + 2 * fwd c /\ srank f = home_rank c /\
    empty_at p (sq_of (sfile f) (srank f + fwd c)) = true /\ empty_at p t = true)%Z) /\
  (match mv_promo mv with Some k' => is_promo_kind k' = true /\ srank t = last_rank c
                        | None => srank t <> last_rank c end).
Proof.
  intros p mv H Hf. unfold Rules.pseudo_legal in H. cbv zeta in H. rewrite Hf in H.
  apply andb_true_iff in H. destruct H as [_ Hk].
  pose proof (pawn_shape p (p_turn p) (mv_from mv) (mv_to mv) (mv_promo mv) Hk) as (S1 & _ & S3).
  cbv zeta. split; assumption.
Qed.

Lemma fwd_opp : forall c, fwd (opp c) = (- fwd c)%Z.
Proof. intros [|]; reflexivity. Qed.

(* ---------- pawns never stand on the first or last rank ---------- *)

Lemma pawns_after : forall p mv k, pmove_ok_k p mv k -> Rules.pseudo_legal p mv = true ->
  pawns_clause p = true -> pawns_clause (Rules.apply p mv) = true.
Proof.
  intros p mv k Hok Hpl H. rewrite pawns_clause_spec in H. apply pawns_clause_spec.
  pose proof Hok as (Hf & Hf64 & Ht64 & Hne & Hown & Hpro & Hpawn & Hking).
  intros s c1 Hs Hat. destruct (after_inv p mv k Hok s _ Hat) as [[E1 E2]|[[_ [_ E1]]|[E1 _]]].
  - injection E2 as Ec Ek. subst s.
    assert (Hkp : k = Pawn /\ mv_promo mv = None).
    { unfold placed_kind in Ek. destruct (mv_promo mv) as [pr|]; [|split; [symmetry; exact Ek | reflexivity]].
      subst pr. destruct Hpro as [_ Hpro]. discriminate Hpro. }
    destruct Hkp as [-> Hnp].
    destruct (pseudo_legal_pawn p mv Hpl Hf) as [S1 S3]. rewrite Hnp in S3.
    pose proof (coords_bound _ Hf64) as Bf.
    destruct (p_turn p); cbn [fwd home_rank last_rank] in *; lia.
  - discriminate E1.
  - exact (H s c1 Hs E1).
Qed.

(* ---------- the en-passant target ---------- *)

Lemma ep_after : forall p mv k, pmove_ok_k p mv k -> Rules.pseudo_legal p mv = true ->
  ep_clause (Rules.apply p mv) = true.
Proof.
  intros p mv k Hok Hpl.
  pose proof Hok as (Hf & Hf64 & Ht64 & Hne & Hown & Hpro & Hpawn & Hking).
  unfold ep_clause.
  assert (Hep : p_ep (Rules.apply p mv) =
                if piece_eqb k Pawn && (Z.abs (srank (mv_to mv) - srank (mv_from mv)) =? 2)%Z
                then Some (sq_of (sfile (mv_from mv)) (srank (mv_from mv) + fwd (p_turn p))) else None).
  { unfold Rules.apply. cbn [p_ep]. rewrite Hf. reflexivity. }
  rewrite Hep. clear Hep.
  destruct (piece_eqb k Pawn && (Z.abs (srank (mv_to mv) - srank (mv_from mv)) =? 2)%Z) eqn:Ed; [|reflexivity].
  apply andb_true_iff in Ed. destruct Ed as [Ek Ed]. apply piece_eqb_eq in Ek. subst k. apply Z.eqb_eq in Ed.
  destruct (pseudo_legal_pawn p mv Hpl Hf) as [S1 S3]. cbv zeta in S1, S3.
  pose proof (fwd_cases (p_turn p)) as Hfw.
  destruct S1 as [S1|(S1 & S2 & S4 & S5 & S6)]; [exfalso; lia|].
  assert (Hnp : mv_promo mv = None).
  { destruct (mv_promo mv) as [pr|]; [|reflexivity]. exfalso. destruct S3 as [_ S3].
    destruct (p_turn p); cbn [fwd home_rank last_rank] in *; lia. }
  pose proof (coords_bound _ Hf64) as Bf. pose proof (coords_bound _ Ht64) as Bt.
  set (e := sq_of (sfile (mv_from mv)) (srank (mv_from mv) + fwd (p_turn p))) in *.
  assert (He : sfile e = sfile (mv_from mv) /\ srank e = (srank (mv_from mv) + fwd (p_turn p))%Z).
  { apply coords_sq_of; lia. }
  destruct He as [He1 He2].
  change (p_turn (Rules.apply p mv)) with (opp (p_turn p)).
  cbv zeta. rewrite fwd_opp, opp_opp, He1, He2.
  rewrite !andb_true_iff. split; [split; [split|]|].
  - destruct (p_turn p); cbn [fwd home_rank is_white opp] in *; lia.
  - unfold empty_at. rewrite (after_none p mv Pawn e Hok).
    + reflexivity.
    + unfold empty_at in S5. destruct (p_at p e); [discriminate S5 | reflexivity].
    + intros E. rewrite E in He2. lia.
    + intros Hca. discriminate Hca.
  - replace (sq_of (sfile (mv_from mv)) (srank (mv_from mv) + fwd (p_turn p) + - fwd (p_turn p)))
      with (mv_from mv).
    + unfold empty_at. rewrite (after_from p mv Pawn Hok). reflexivity.
    + replace (srank (mv_from mv) + fwd (p_turn p) + - fwd (p_turn p))%Z with (srank (mv_from mv)) by lia.
      symmetry. apply sq_of_coords. exact Hf64.
  - replace (sq_of (sfile (mv_from mv)) (srank (mv_from mv) + fwd (p_turn p) - - fwd (p_turn p)))
      with (mv_to mv).
    + apply has_iff. rewrite (after_to p mv Pawn Hok), Hnp. reflexivity.
    + rewrite <- S1. replace (srank (mv_from mv) + fwd (p_turn p) - - fwd (p_turn p))%Z with (srank (mv_to mv)) by lia.
      symmetry. apply sq_of_coords. exact Ht64.
Qed.

(* ====================================================================== *)
(* legal positions are closed under legal moves (rules level)             *)
(* ====================================================================== *)

Theorem legal_pos_apply : forall p mv, legal_pos p = true -> legal p mv = true ->
  mv_from mv < 64 -> mv_to mv < 64 -> legal_pos (Rules.apply p mv) = true.
Proof.
  intros p mv Hlp Hl Hf64 Ht64.
  destruct (legal_pos_parts p Hlp) as (K1 & K2 & Hsafe & Hpw & Hri & Hep).
  pose proof (legal_pseudo p mv Hl) as Hpl.
  destruct (pseudo_legal_move_ok p mv Hpl Hf64 Ht64 Hep) as [k Hok].
  pose proof (dest_not_king p mv Hsafe Hpl Hf64 Ht64) as Hnk.
  rewrite <- legal_pos_unfold. rewrite !andb_true_iff.
  split; [split; [split; [split; [split|]|]|]|].
  - apply Nat.eqb_eq. exact (king_count_after p mv k White Hok Hnk K1).
  - apply Nat.eqb_eq. exact (king_count_after p mv k Black Hok Hnk K2).
  - apply negb_true_iff. change (p_turn (Rules.apply p mv)) with (opp (p_turn p)).
    rewrite opp_opp. exact (legal_safe p mv Hl).
  - exact (pawns_after p mv k Hok Hpl Hpw).
  - exact (rights_after p mv k Hok Hnk Hri).
  - exact (ep_after p mv k Hok Hpl).
Qed.
