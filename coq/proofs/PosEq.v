(* R1, part 1: [pos_eq] (extensional equality of rules-level positions, spec/Encode.v) is an
   equivalence and every function of spec/Rules.v respects it.

   REUSABLE STATEMENTS (all of the form  pos_eq p q -> F p args = F q args):
     pos_eq_refl / pos_eq_sym / pos_eq_trans / pos_eq_Equivalence
     empty_at_ext has_ext colour_at_ext clear_path_ext attacks_from_ext attacked_ext
     king_attacked_ext castle_ok_ext is_castle_move_ext pseudo_legal_ext apply_ext (pos_eq of the
     results) legal_ext legal_moves_ext count_pieces_ext legal_pos_ext perft_ext
     checkmate_ext stalemate_ext fold_apply_ext
   and the same statements with suffix _nc for the coarser relation pos_eq_nc (everything but the two
   move counters: none of these functions reads p_half / p_full; apply_ext_nc gives pos_eq_nc). *)
From WV Require Import Types Bits Board Rules Abs Wf Encode.
From Coq Require Import Lia RelationClasses.
Open Scope N_scope.

(* ---------- generic list facts ---------- *)

Lemma existsb_pointwise : forall (A : Type) (f g : A -> bool) (l : list A),
  (forall x, f x = g x) -> existsb f l = existsb g l.
Proof.
  intros A f g l H. induction l as [|x tl IH]; cbn [existsb]; [reflexivity|].
  rewrite H, IH. reflexivity.
Qed.

Lemma forallb_pointwise : forall (A : Type) (f g : A -> bool) (l : list A),
  (forall x, f x = g x) -> forallb f l = forallb g l.
Proof.
  intros A f g l H. induction l as [|x tl IH]; cbn [forallb]; [reflexivity|].
  rewrite H, IH. reflexivity.
Qed.

Lemma filter_pointwise : forall (A : Type) (f g : A -> bool) (l : list A),
  (forall x, f x = g x) -> filter f l = filter g l.
Proof.
  intros A f g l H. induction l as [|x tl IH]; cbn [filter]; [reflexivity|].
  rewrite H, IH. reflexivity.
Qed.

Lemma flat_map_pointwise : forall (A B : Type) (f g : A -> list B) (l : list A),
  (forall x, f x = g x) -> flat_map f l = flat_map g l.
Proof.
  intros A B f g l H. induction l as [|x tl IH]; cbn [flat_map]; [reflexivity|].
  rewrite H, IH. reflexivity.
Qed.

(* ---------- equivalence ---------- *)

Lemma pos_eq_refl : forall p, pos_eq p p.
Proof. intros p. unfold pos_eq. repeat split; reflexivity. Qed.

Lemma pos_eq_sym : forall p q, pos_eq p q -> pos_eq q p.
Proof.
  intros p q (Ha & Ht & Hr & He & Hh & Hf). unfold pos_eq.
  repeat split; intros; symmetry; auto.
Qed.

Lemma pos_eq_trans : forall p q r, pos_eq p q -> pos_eq q r -> pos_eq p r.
Proof.
  intros p q r (Ha & Ht & Hr & He & Hh & Hf) (Ha' & Ht' & Hr' & He' & Hh' & Hf'). unfold pos_eq.
  repeat split; intros; etransitivity; eauto.
Qed.

#[global] Instance pos_eq_Equivalence : Equivalence pos_eq.
Proof.
  split; [exact pos_eq_refl | exact pos_eq_sym | exact pos_eq_trans].
Qed.

(* ---------- the Rules functions respect pos_eq_nc (and do not read the counters) ---------- *)

(* equality of everything except the two move counters *)
Definition pos_eq_nc (p q : pos) : Prop :=
  (forall s, p_at p s = p_at q s) /\ p_turn p = p_turn q /\
  (forall c k, p_right p c k = p_right q c k) /\ p_ep p = p_ep q.

Lemma pos_eq_nc_of : forall p q, pos_eq p q -> pos_eq_nc p q.
Proof. intros p q (Ha & Ht & Hr & He & _). unfold pos_eq_nc. auto. Qed.

Lemma pos_eq_nc_refl : forall p, pos_eq_nc p p.
Proof. intros p. apply pos_eq_nc_of, pos_eq_refl. Qed.

Lemma pos_eq_nc_sym : forall p q, pos_eq_nc p q -> pos_eq_nc q p.
Proof.
  intros p q (Ha & Ht & Hr & He). unfold pos_eq_nc. repeat split; intros; symmetry; auto.
Qed.

Lemma pos_eq_nc_trans : forall p q r, pos_eq_nc p q -> pos_eq_nc q r -> pos_eq_nc p r.
Proof.
  intros p q r (Ha & Ht & Hr & He) (Ha' & Ht' & Hr' & He'). unfold pos_eq_nc.
  repeat split; intros; etransitivity; eauto.
Qed.


Section Ext.
Variables p q : pos.
Hypothesis Hpq : pos_eq_nc p q.


Lemma empty_at_ext_nc : forall s, empty_at p s = empty_at q s.
Proof. pose proof Hpq as (Hat & Hturn & Hright & Hep). intros s. unfold empty_at. rewrite Hat. reflexivity. Qed.

Lemma has_ext_nc : forall s c k, has p s c k = has q s c k.
Proof. pose proof Hpq as (Hat & Hturn & Hright & Hep). intros s c k. unfold has. rewrite Hat. reflexivity. Qed.

Lemma colour_at_ext_nc : forall s c, colour_at p s c = colour_at q s c.
Proof. pose proof Hpq as (Hat & Hturn & Hright & Hep). intros s c. unfold colour_at. rewrite Hat. reflexivity. Qed.

Lemma clear_path_ext_nc : forall fuel f r sf sr f' r',
  clear_path p fuel f r sf sr f' r' = clear_path q fuel f r sf sr f' r'.
Proof.
  pose proof Hpq as (Hat & Hturn & Hright & Hep).
  induction fuel as [|k IH]; intros f r sf sr f' r'; cbn [clear_path]; [reflexivity|].
  rewrite IH, empty_at_ext_nc. reflexivity.
Qed.

Lemma attacks_from_ext_nc : forall c k f t, attacks_from p c k f t = attacks_from q c k f t.
Proof. pose proof Hpq as (Hat & Hturn & Hright & Hep). intros c k f t. unfold attacks_from. rewrite clear_path_ext_nc. reflexivity. Qed.

Lemma attacked_ext_nc : forall c t, attacked p c t = attacked q c t.
Proof.
  pose proof Hpq as (Hat & Hturn & Hright & Hep).
  intros c t. unfold attacked. apply existsb_pointwise. intros f. rewrite Hat.
  destruct (p_at q f) as [[c' k]|]; [|reflexivity]. rewrite attacks_from_ext_nc. reflexivity.
Qed.

Lemma king_attacked_ext_nc : forall c, king_attacked p c = king_attacked q c.
Proof.
  pose proof Hpq as (Hat & Hturn & Hright & Hep).
  intros c. unfold king_attacked. apply existsb_pointwise. intros s.
  rewrite has_ext_nc, attacked_ext_nc. reflexivity.
Qed.

Lemma castle_ok_ext_nc : forall c side, castle_ok p c side = castle_ok q c side.
Proof.
  pose proof Hpq as (Hat & Hturn & Hright & Hep).
  intros c side. unfold castle_ok.
  rewrite Hright, !has_ext_nc, !attacked_ext_nc, !empty_at_ext_nc. reflexivity.
Qed.

Lemma is_castle_move_ext_nc : forall m, is_castle_move p m = is_castle_move q m.
Proof. pose proof Hpq as (Hat & Hturn & Hright & Hep). intros m. unfold is_castle_move. rewrite Hturn, has_ext_nc. reflexivity. Qed.

Lemma pseudo_legal_ext_nc : forall m, Rules.pseudo_legal p m = Rules.pseudo_legal q m.
Proof.
  pose proof Hpq as (Hat & Hturn & Hright & Hep).
  intros m. unfold Rules.pseudo_legal. rewrite <- Hturn, <- Hat, <- Hep, <- is_castle_move_ext_nc.
  destruct (p_at p (mv_from m)) as [[c' k]|]; [|reflexivity].
  rewrite <- !colour_at_ext_nc, <- !empty_at_ext_nc, <- !attacks_from_ext_nc.
  destruct k; try reflexivity.
  destruct (mv_promo m); [reflexivity|].
  destruct (is_castle_move p m) as [side|]; [|reflexivity].
  rewrite castle_ok_ext_nc. reflexivity.
Qed.

Lemma apply_ext_nc : forall m, pos_eq_nc (Rules.apply p m) (Rules.apply q m).
Proof.
  pose proof Hpq as (Hat & Hturn & Hright & Hep).
  intros m. unfold pos_eq_nc, Rules.apply. cbn [p_at p_turn p_right p_ep p_half p_full].
  rewrite <- Hturn, <- !Hat, <- !empty_at_ext_nc.
  repeat split.
  - intros s. rewrite <- Hat. reflexivity.
  - intros c k. rewrite <- Hright. reflexivity.
Qed.

End Ext.

Lemma legal_ext_nc : forall p q, pos_eq_nc p q -> forall m, legal p m = legal q m.
Proof.
  intros p q H m. unfold legal. rewrite (pseudo_legal_ext_nc p q H).
  rewrite (king_attacked_ext_nc _ _ (apply_ext_nc p q H m)).
  rewrite (proj1 (proj2 H)). reflexivity.
Qed.

Section Ext2.
Variables p q : pos.
Hypothesis Hpq : pos_eq_nc p q.


Lemma legal_moves_ext_nc : Rules.legal_moves p = Rules.legal_moves q.
Proof.
  pose proof Hpq as (Hat & Hturn & Hright & Hep).
  unfold Rules.legal_moves. apply flat_map_pointwise. intros f. rewrite <- Hat, <- Hturn.
  destruct (p_at p f) as [[c k]|]; [|reflexivity].
  destruct (color_eqb c (p_turn p)); [|reflexivity].
  apply flat_map_pointwise. intros t. apply flat_map_pointwise. intros pr.
  cbv zeta. rewrite (legal_ext_nc p q Hpq). reflexivity.
Qed.

Lemma count_pieces_ext_nc : forall c k, count_pieces p c k = count_pieces q c k.
Proof.
  pose proof Hpq as (Hat & Hturn & Hright & Hep).
  intros c k. unfold count_pieces. f_equal. apply filter_pointwise. intros s. apply (has_ext_nc p q Hpq).
Qed.

Lemma legal_pos_ext_nc : legal_pos p = legal_pos q.
Proof.
  pose proof Hpq as (Hat & Hturn & Hright & Hep).
  unfold legal_pos. rewrite !count_pieces_ext_nc, (king_attacked_ext_nc p q Hpq), Hturn, Hep.
  f_equal; [f_equal; [f_equal|]|].
  - apply forallb_pointwise. intros s. rewrite !(has_ext_nc p q Hpq). reflexivity.
  - apply forallb_pointwise. intros c. apply forallb_pointwise. intros side.
    rewrite Hright, !(has_ext_nc p q Hpq). reflexivity.
  - destruct (p_ep q) as [t|]; [|reflexivity]. rewrite !(empty_at_ext_nc p q Hpq), (has_ext_nc p q Hpq). reflexivity.
Qed.

Lemma checkmate_ext_nc : checkmate p = checkmate q.
Proof. pose proof Hpq as (Hat & Hturn & Hright & Hep). unfold checkmate. rewrite legal_moves_ext_nc, (king_attacked_ext_nc p q Hpq), Hturn. reflexivity. Qed.

Lemma stalemate_ext_nc : stalemate p = stalemate q.
Proof. pose proof Hpq as (Hat & Hturn & Hright & Hep). unfold stalemate. rewrite legal_moves_ext_nc, (king_attacked_ext_nc p q Hpq), Hturn. reflexivity. Qed.

End Ext2.

Lemma perft_ext_nc : forall d p q, pos_eq_nc p q -> Rules.perft d p = Rules.perft d q.
Proof.
  induction d as [|d IH]; intros p q H; [reflexivity|].
  destruct d as [|d'].
  - cbn [Rules.perft]. rewrite (legal_moves_ext_nc p q H). reflexivity.
  - change (Rules.perft (S (S d')) p) with
      (fold_left (fun acc m => (acc + Rules.perft (S d') (Rules.apply p m))%N) (Rules.legal_moves p) 0%N).
    change (Rules.perft (S (S d')) q) with
      (fold_left (fun acc m => (acc + Rules.perft (S d') (Rules.apply q m))%N) (Rules.legal_moves q) 0%N).
    rewrite (legal_moves_ext_nc p q H). generalize 0%N. generalize (Rules.legal_moves q).
    induction l as [|m tl IHl]; intros acc; cbn [fold_left]; [reflexivity|].
    rewrite (IH (Rules.apply p m) (Rules.apply q m) (apply_ext_nc p q H m)). apply IHl.
Qed.

Lemma fold_apply_ext_nc : forall ms p q, pos_eq_nc p q ->
  pos_eq_nc (fold_left Rules.apply ms p) (fold_left Rules.apply ms q).
Proof.
  induction ms as [|m tl IH]; intros p q H; cbn [fold_left]; [exact H|].
  apply IH. apply apply_ext_nc. exact H.
Qed.

(* ---------- the same for pos_eq ---------- *)

Section ExtEq.
Variables p q : pos.
Hypothesis Hpq : pos_eq p q.
Let Hnc : pos_eq_nc p q := pos_eq_nc_of p q Hpq.

Lemma empty_at_ext : forall s, empty_at p s = empty_at q s.
Proof. exact (empty_at_ext_nc p q Hnc). Qed.
Lemma has_ext : forall s c k, has p s c k = has q s c k.
Proof. exact (has_ext_nc p q Hnc). Qed.
Lemma colour_at_ext : forall s c, colour_at p s c = colour_at q s c.
Proof. exact (colour_at_ext_nc p q Hnc). Qed.
Lemma clear_path_ext : forall fuel f r sf sr f' r',
  clear_path p fuel f r sf sr f' r' = clear_path q fuel f r sf sr f' r'.
Proof. exact (clear_path_ext_nc p q Hnc). Qed.
Lemma attacks_from_ext : forall c k f t, attacks_from p c k f t = attacks_from q c k f t.
Proof. exact (attacks_from_ext_nc p q Hnc). Qed.
Lemma attacked_ext : forall c t, attacked p c t = attacked q c t.
Proof. exact (attacked_ext_nc p q Hnc). Qed.
Lemma king_attacked_ext : forall c, king_attacked p c = king_attacked q c.
Proof. exact (king_attacked_ext_nc p q Hnc). Qed.
Lemma castle_ok_ext : forall c side, castle_ok p c side = castle_ok q c side.
Proof. exact (castle_ok_ext_nc p q Hnc). Qed.
Lemma is_castle_move_ext : forall m, is_castle_move p m = is_castle_move q m.
Proof. exact (is_castle_move_ext_nc p q Hnc). Qed.
Lemma pseudo_legal_ext : forall m, Rules.pseudo_legal p m = Rules.pseudo_legal q m.
Proof. exact (pseudo_legal_ext_nc p q Hnc). Qed.
Lemma legal_ext : forall m, legal p m = legal q m.
Proof. exact (legal_ext_nc p q Hnc). Qed.
Lemma legal_moves_ext : Rules.legal_moves p = Rules.legal_moves q.
Proof. exact (legal_moves_ext_nc p q Hnc). Qed.
Lemma count_pieces_ext : forall c k, count_pieces p c k = count_pieces q c k.
Proof. exact (count_pieces_ext_nc p q Hnc). Qed.
Lemma legal_pos_ext : legal_pos p = legal_pos q.
Proof. exact (legal_pos_ext_nc p q Hnc). Qed.
Lemma checkmate_ext : checkmate p = checkmate q.
Proof. exact (checkmate_ext_nc p q Hnc). Qed.
Lemma stalemate_ext : stalemate p = stalemate q.
Proof. exact (stalemate_ext_nc p q Hnc). Qed.

Lemma apply_ext : forall m, pos_eq (Rules.apply p m) (Rules.apply q m).
Proof.
  intros m. destruct (apply_ext_nc p q Hnc m) as (Ha & Ht & Hr & He).
  pose proof Hpq as (Hat & Hturn & _ & _ & Hhalf & Hfull).
  unfold pos_eq. repeat split; try assumption.
  - unfold Rules.apply. cbn [p_half]. rewrite <- !Hat, <- !(empty_at_ext_nc p q Hnc), <- Hhalf. reflexivity.
  - unfold Rules.apply. cbn [p_full]. rewrite <- Hturn, <- Hfull. reflexivity.
Qed.

End ExtEq.

Lemma perft_ext : forall d p q, pos_eq p q -> Rules.perft d p = Rules.perft d q.
Proof. intros d p q H. apply perft_ext_nc. apply pos_eq_nc_of. exact H. Qed.

Lemma fold_apply_ext : forall ms p q, pos_eq p q ->
  pos_eq (fold_left Rules.apply ms p) (fold_left Rules.apply ms q).
Proof.
  induction ms as [|m tl IH]; intros p q H; cbn [fold_left]; [exact H|].
  apply IH. apply apply_ext. exact H.
Qed.
