(* The quiescence measure: along a generated capture the number of men strictly decreases.
   (Rules level: the placement after a move is given by LegalPosProofs.apply_at_gen; a capture is not a
   castling move, so the occupied squares afterwards are included in the old ones minus the origin - for an
   en-passant capture: plus the target, minus the origin and the victim's square.) *)
From WV Require Import Types Bits Attacks Board MoveEnc MoveGen Rules Abs Wf Encode Eval Search.
From WV Require Import BitsProofs BoardProofs MoveEncProofs PosEq BoardAlg ApplyProofs LegalPosProofs PlayProofs.
From WV Require Import GenPieces GenPawnsNoDup KingPrefilter GenLegal GenAttrs.
From Coq Require Import Lia ZifyBool ZifyN ZifyNat.
Import WV.Bits.
Open Scope N_scope.
Arguments N.add : simpl never.
Arguments N.sub : simpl never.
Arguments N.mul : simpl never.
Arguments N.div : simpl never.
Arguments N.modulo : simpl never.

Definition occ_list (s : state) : list N := iter_ones (occupancy (st_board s)).

Lemma men_length : forall s, men s = length (occ_list s).
Proof. intros s. unfold men, count_ones, occ_list. apply Nnat.Nat2N.id. Qed.

Lemma occ_list_In : forall s y, In y (occ_list s) <-> p_at (abs s) y <> None.
Proof.
  intros s y. unfold occ_list. rewrite iter_ones_spec. cbn [abs p_at].
  fold (test (occupancy (st_board s)) y). split.
  - intros H E. apply piece_at_none_occ in E. rewrite H in E. discriminate E.
  - intros H. destruct (test (occupancy (st_board s)) y) eqn:E; [reflexivity|].
    apply piece_at_none_occ in E. contradiction.
Qed.

Lemma occ_list_NoDup : forall s, NoDup (occ_list s).
Proof. intros s. apply iter_ones_NoDup. Qed.

Theorem capture_men : forall s m ns, LegalPos s -> In (m, ns) (gen_legal s) ->
  m_is_capture m = true -> (men ns < men s)%nat.
Proof.
  intros s m ns HL Hin Hcap.
  destruct (gen_legal_props s m ns HL Hin) as (_ & _ & Heq & Hleg & Em).
  set (mv := absm m) in *.
  apply legal_moves_In in Hleg. destruct Hleg as (Hf & Ht & _ & Hl).
  destruct (legal_move_ok s mv HL Hl Ht) as [k Hok].
  pose proof (enc_attributes s mv k (legal_pos_wf s HL) Hok) as Hat. cbv zeta in Hat.
  rewrite <- Em in Hat. destruct Hat as (_ & _ & _ & _ & _ & _ & Hc & _).
  pose proof Hok as (Hpat & _ & _ & Hne & Hown & _ & Hpawn & Hking).
  (* the placement afterwards *)
  assert (Hafter : forall y, p_at (abs ns) y =
            if y =? mv_to mv then Some (st_turn s, placed_kind k (mv_promo mv))
            else if y =? mv_from mv then None
            else if ep_flag (abs s) k (mv_from mv) (mv_to mv) && (y =? sq_of (sfile (mv_to mv)) (srank (mv_from mv))) then None
            else if castle_flag k (mv_from mv) (mv_to mv) then
              if y =? rook_home (st_turn s) (sfile (mv_to mv) =? 6)%Z then None
              else if y =? sq_of (if (sfile (mv_to mv) =? 6)%Z then 5 else 3) (back_rank (st_turn s))
                   then Some (st_turn s, Rook) else p_at (abs s) y
            else p_at (abs s) y).
  { intros y. destruct Heq as (Ha & _). rewrite Ha.
    exact (apply_at_gen (abs s) mv (st_turn s) k y Hpat). }
  rewrite !men_length.
  assert (HfL : In (mv_from mv) (occ_list s)) by (apply occ_list_In; rewrite Hpat; discriminate).
  destruct (castle_flag k (mv_from mv) (mv_to mv)) eqn:Hca.
  { (* a castling move captures nothing *)
    exfalso. unfold castle_flag in Hca. apply andb_true_iff in Hca. destruct Hca as [Hk Hdf].
    assert (Ek : k = King) by (destruct k; try discriminate Hk; reflexivity). subst k.
    apply Z.eqb_eq in Hdf. destruct (Hking eq_refl Hdf) as (_ & _ & _ & Hemp & _).
    unfold ep_flag in Hc. cbn [piece_eqb piece_to_N N.eqb Pos.eqb andb] in Hc.
    change (piece_eqb King Pawn) with false in Hc. cbn [andb] in Hc.
    rewrite <- kind_on_empty in Hemp.
    unfold m_is_capture in Hcap. rewrite Hc in Hcap.
    destruct (kind_on (st_board s) (mv_to mv)); [discriminate Hemp|discriminate Hcap]. }
  destruct (ep_flag (abs s) k (mv_from mv) (mv_to mv)) eqn:Hep.
  - (* en passant *)
    unfold ep_flag in Hep. rewrite !andb_true_iff in Hep. destruct Hep as [[Hk Hfile] Hemp].
    assert (Ek : k = Pawn) by (destruct k; try discriminate Hk; reflexivity). subst k.
    apply negb_true_iff, Z.eqb_neq in Hfile.
    destruct (Hpawn eq_refl) as [_ Hx].
    destruct (Hx (fun E => Hfile (eq_sym E)) Hemp) as (_ & _ & Hvic & _).
    set (v := sq_of (sfile (mv_to mv)) (srank (mv_from mv))) in *.
    assert (HvL : In v (occ_list s)).
    { apply occ_list_In. unfold has in Hvic. destruct (p_at (abs s) v); [discriminate|discriminate Hvic]. }
    assert (Hvt : v <> mv_to mv).
    { intros E. unfold has in Hvic. unfold empty_at in Hemp. rewrite E in Hvic.
      destruct (p_at (abs s) (mv_to mv)); [discriminate Hemp|discriminate Hvic]. }
    assert (Hvf : mv_from mv <> v).
    { intros E. unfold has in Hvic. rewrite <- E, Hpat in Hvic.
      destruct (st_turn s); discriminate Hvic. }
    assert (Hincl : incl (occ_list ns) (remove N.eq_dec (mv_from mv) (remove N.eq_dec v (mv_to mv :: occ_list s)))).
    { intros y Hy. apply occ_list_In in Hy. rewrite Hafter in Hy.
      destruct (y =? mv_to mv) eqn:E1.
      - apply N.eqb_eq in E1. subst y. apply in_in_remove; [exact (fun E => Hne (eq_sym E))|].
        apply in_in_remove; [exact (fun E => Hvt (eq_sym E))|]. left; reflexivity.
      - destruct (y =? mv_from mv) eqn:E2; [contradiction|].
        destruct (y =? v) eqn:E3; cbn [andb] in Hy; [contradiction|].
        apply N.eqb_neq in E1, E2, E3.
        apply in_in_remove; [exact E2|]. apply in_in_remove; [exact E3|]. right. apply occ_list_In. exact Hy. }
    pose proof (NoDup_incl_length (occ_list_NoDup ns) Hincl) as H1.
    assert (H2 : In v (mv_to mv :: occ_list s)) by (right; exact HvL).
    pose proof (remove_length_lt N.eq_dec _ _ H2) as H3. cbn [length] in H3.
    assert (H4 : In (mv_from mv) (remove N.eq_dec v (mv_to mv :: occ_list s))).
    { apply in_in_remove; [exact Hvf|]. right. exact HfL. }
    pose proof (remove_length_lt N.eq_dec _ _ H4) as H5. lia.
  - (* plain capture: the destination was occupied *)
    unfold m_is_capture in Hcap. rewrite Hc in Hcap.
    assert (HtL : In (mv_to mv) (occ_list s)).
    { apply occ_list_In. cbn [abs p_at]. unfold kind_on in Hcap.
      destruct (piece_at (st_board s) (mv_to mv)); [discriminate|discriminate Hcap]. }
    assert (Hincl : incl (occ_list ns) (remove N.eq_dec (mv_from mv) (occ_list s))).
    { intros y Hy. apply occ_list_In in Hy. rewrite Hafter in Hy.
      destruct (y =? mv_to mv) eqn:E1.
      - apply N.eqb_eq in E1. subst y. apply in_in_remove; [exact (fun E => Hne (eq_sym E))|exact HtL].
      - destruct (y =? mv_from mv) eqn:E2; [contradiction|]. cbn [andb] in Hy.
        apply N.eqb_neq in E2. apply in_in_remove; [exact E2|]. apply occ_list_In. exact Hy. }
    pose proof (NoDup_incl_length (occ_list_NoDup ns) Hincl) as H1.
    pose proof (remove_length_lt N.eq_dec _ _ HfL) as H2. lia.
Qed.
