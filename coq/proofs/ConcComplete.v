(* C06, completeness of mate finding, for SEVERAL workers on one shared table, under EVERY schedule.

   The one-worker proof (proofs/MateComplete.v, Section Complete) carried the table invariant TC hs P Hn through the
   worker's own state.  Here the table is not in the worker's hands: the proof is the instance of the
   rely/guarantee predicate `sat` of proofs/ConcRG.v with

     R_cmp h e            what a find may return under key h: e is no UpperBound entry, and for every position s of
                          the region with that hash EC Hn e s holds (= TC, entry by entry);
     G_cmp h e            what a worker inserts under key h: h is the hash of a position s of the region, e is no
                          UpperBound entry and EC Hn e s holds;
     Q_cmp s md cd a b r  the worker's result, r = WVal v _: the two clauses of `cpost` that speak of the VALUE
                            won within n <= min (md - cd, Hn + 1) plies (and the node is the root or its hash is not
                              recorded)                                   ==>  POS_INF <= v or b <= v
                            lost within k <= min (md - cd, Hn) plies      ==>  v <= NEG_INF or v <= a.

   LEFT OUT, on purpose: the clauses of `cpost` about the table AFTER the call (TC / RS of the worker's own table,
   "the root entry is stored").  They are statements about a table the worker owns; on a shared table another
   worker may overwrite (or, by replacement, evict) an entry between the insert and any later read, so they do
   not transfer.  TC itself is not lost: it is the invariant TabR R_cmp that run_workers_sat2 maintains for every
   schedule.  RS (entries under recorded hashes have a small remaining depth) served only the root-entry clause
   and is dropped with it (complete_call of MateComplete.v instantiates it with Hs := fun _ => False as well).

   The worker-local node counter stays: the move loop decides "no legal move was searched" by comparing node
   counts, so the working postcondition Q_cmpN also says that a call increases l_nodes; Q_cmp is Q_cmpN without
   that clause (analyzeP_complete).

   Contents: (0) run_workers_sat2 - run_workers_sat of ConcRG.v with one postcondition per worker (the workers of
   an iteration have different depths), sat_conj (two instances hold together); (1) the instance, G_cmp_R_cmp,
   TabR_TC, probe_of_complete, loopP_complete, nodeP_complete, analyzeP_complete (loop_complete / node_complete /
   analyze_complete of MateComplete.v, step by step); workers_complete (worker 0, full depth and full window,
   reports a winning terminal value under every schedule); (2) iterateM: in the iteration whose depth reaches the
   mate distance the joined evaluation - if there is one - is >= POS_INF, so a run that ends normally ends with a
   reported winning terminal evaluation or with an iteration that had no line to report (iterateM_complete);
   (3) region forms completeM_*.

   Residues: HashRuleOn P hs, Region P, HistFree P hs history Hn - the same as complete_call.  The statements
   about iterateM also use the soundness half (ConcSound.v, hence HeurNTOn P), for the one reason the one-worker
   driver does: the prioritised move of the next iteration is read from the table and must be legal.
   Not proved (see completeM_iterative_table): that an iteration always has a line to report. *)
From Coq Require Import NArith ZArith List Bool Lia ZifyBool ZifyN ZifyNat.
From WV Require Import Types Bits Attacks Board MoveEnc MoveGen Text Table Eval Search Conc.
From WV Require Import Rules Abs Wf Encode GameValue.
From WV Require Import BoardProofs GenPawnsNoDup GenLegal TableProofs HashProofs EvalShortcut EvalProofs EvalBound.
From WV Require Import SearchBase SearchProofs SearchSafety SearchMen SearchTop.
From WV Require Import MateValue MateSound MateRegion MateComplete ConcSeq ConcRG ConcSound.
Import ListNotations.
Import WV.Bits.
Open Scope Z_scope.

(* ------------------------------------------------------------------ *)
(* 0. run_workers_sat with one postcondition PER WORKER                 *)
(* ------------------------------------------------------------------ *)

Section RG2.
Context {A : Type}.
Variable R G : N -> entry -> Prop.
Hypothesis G_R : forall h e, G h e -> R h e.

Notation SATS := (Forall2 (fun (Q : A -> Prop) (p : prog A) => sat R G Q p)).
Notation POSTS := (Forall2 (fun (Q : A -> Prop) (r : A) => Q r)).

Lemma step1_sat2 : forall (Q : A -> Prop) (p : prog A) tt, sat R G Q p -> TabR R tt ->
  sat R G Q (fst (step1 p tt)) /\ TabR R (snd (step1 p tt)).
Proof.
  intros Q p tt Hp HT. destruct Hp as [a Ha|h k Hk|h e k Hg Hk]; cbn [step1 fst snd].
  - split; [apply sat_ret; exact Ha|exact HT].
  - split; [|exact HT]. apply Hk. intros e E. exact (proj2 HT h e E).
  - split; [exact Hk|]. apply (TabR_insert R G G_R); assumption.
Qed.

Lemma step_nth_sat2 : forall Qs (ws : list (prog A)) c tt, SATS Qs ws -> TabR R tt ->
  SATS Qs (fst (step_nth ws c tt)) /\ TabR R (snd (step_nth ws c tt)).
Proof.
  intros Qs ws c tt Hws. revert c tt. induction Hws as [|Q p Qs ws Hp Htl IH]; intros c tt HT; cbn [step_nth].
  - cbn [fst snd]. split; [constructor|exact HT].
  - destruct (finished p).
    + specialize (IH c tt HT). destruct (step_nth ws c tt) as [tl1 tt1]. cbn [fst snd] in IH |- *.
      destruct IH as (H1 & H2). split; [constructor; assumption|exact H2].
    + destruct c as [|c'].
      * pose proof (step1_sat2 Q p tt Hp HT) as [H1 H2]. destruct (step1 p tt) as [p1 tt1]. cbn [fst snd] in H1, H2 |- *.
        split; [constructor; assumption|exact H2].
      * specialize (IH c' tt HT). destruct (step_nth ws c' tt) as [tl1 tt1]. cbn [fst snd] in IH |- *.
        destruct IH as (H1 & H2). split; [constructor; assumption|exact H2].
Qed.

Lemma run_sched_sat2 : forall sched Qs (ws : list (prog A)) tt, SATS Qs ws -> TabR R tt ->
  let '(ws', tt', _) := run_sched sched ws tt in SATS Qs ws' /\ TabR R tt'.
Proof.
  induction sched as [|c rest IH]; intros Qs ws tt Hws HT; cbn [run_sched].
  - split; [exact Hws|exact HT].
  - destruct (unfinished ws) as [|m].
    + split; [exact Hws|exact HT].
    + pose proof (step_nth_sat2 Qs ws (N.to_nat (c mod N.of_nat (S m))) tt Hws HT) as (H1 & H2).
      destruct (step_nth ws (N.to_nat (c mod N.of_nat (S m))) tt) as [ws1 tt1]. cbn [fst snd] in H1, H2.
      exact (IH Qs ws1 tt1 H1 H2).
Qed.

Lemma run_seq_sat2 : forall (Q : A -> Prop) (p : prog A) tt, sat R G Q p -> TabR R tt ->
  Q (fst (run_seq p tt)) /\ TabR R (snd (run_seq p tt)).
Proof.
  intros Q p tt Hp. revert tt. induction Hp as [a Ha|h k _ IH|h e k Hg _ IH]; intros tt HT; cbn [run_seq].
  - cbn [fst snd]. split; assumption.
  - apply IH; [|exact HT]. intros e E. exact (proj2 HT h e E).
  - apply IH. apply (TabR_insert R G G_R); assumption.
Qed.

Lemma finish_all_sat2 : forall Qs (ws : list (prog A)) tt, SATS Qs ws -> TabR R tt ->
  POSTS Qs (fst (finish_all ws tt)) /\ TabR R (snd (finish_all ws tt)).
Proof.
  intros Qs ws tt Hws. revert tt. induction Hws as [|Q p Qs ws Hp Htl IH]; intros tt HT; cbn [finish_all].
  - cbn [fst snd]. split; [constructor|exact HT].
  - pose proof (run_seq_sat2 Q p tt Hp HT) as [H1 H2]. destruct (run_seq p tt) as [a tt1]. cbn [fst snd] in H1, H2.
    specialize (IH tt1 H2). destruct (finish_all ws tt1) as [rs tt2]. cbn [fst snd] in IH |- *.
    destruct IH as (K1 & K2). split; [constructor; assumption|exact K2].
Qed.

(* EVERY schedule, ANY number of workers, worker i with its own postcondition Qs[i] *)
Theorem run_workers_sat2 : forall sched Qs (ws : list (prog A)) tt, SATS Qs ws -> TabR R tt ->
  let '(rs, tt', _) := run_workers sched ws tt in POSTS Qs rs /\ TabR R tt'.
Proof.
  intros sched Qs ws tt Hws HT. unfold run_workers.
  pose proof (run_sched_sat2 sched Qs ws tt Hws HT) as H.
  destruct (run_sched sched ws tt) as [[ws1 tt1] rest]. destruct H as (H1 & H2).
  pose proof (finish_all_sat2 Qs ws1 tt1 H1 H2) as K. destruct (finish_all ws1 tt1) as [rs tt2]. cbn [fst snd] in K.
  exact K.
Qed.

End RG2.

(* two rely/guarantee instances hold together *)
Lemma sat_conj : forall A (R1 G1 R2 G2 : N -> entry -> Prop) (Q1 Q2 : A -> Prop) (p : prog A),
  sat R1 G1 Q1 p -> sat R2 G2 Q2 p ->
  sat (fun h e => R1 h e /\ R2 h e) (fun h e => G1 h e /\ G2 h e) (fun r => Q1 r /\ Q2 r) p.
Proof.
  intros A R1 G1 R2 G2 Q1 Q2 p H1. induction H1 as [a Ha|h k _ IH|h e k Hg _ IH]; intros H2.
  - inversion H2 as [a' Ha'| |]; subst a'. apply sat_ret. split; assumption.
  - inversion H2 as [|h' k' Hk'|]; subst h' k'. apply sat_find. intros r Hr.
    apply IH; [intros e E; exact (proj1 (Hr e E))|]. apply Hk'. intros e E. exact (proj2 (Hr e E)).
  - inversion H2 as [| |h' e' k' Hg' Hk']; subst h' e' k'. apply sat_ins; [split; assumption|]. exact (IH Hk').
Qed.

Lemma Forall2_length_eq : forall A B (Rel : A -> B -> Prop) l1 l2, Forall2 Rel l1 l2 -> length l1 = length l2.
Proof. intros A B Rel l1 l2 H. induction H as [|x y l1 l2 _ _ IH]; cbn [length]; [reflexivity|rewrite IH; reflexivity]. Qed.

Lemma Forall2_map_both : forall A B C (Rel : B -> C -> Prop) (f : A -> B) (g : A -> C) l,
  (forall x, In x l -> Rel (f x) (g x)) -> Forall2 Rel (map f l) (map g l).
Proof.
  intros A B C Rel f g l. induction l as [|x tl IH]; intros H; cbn [map]; constructor.
  - apply H. left. reflexivity.
  - apply IH. intros y Hy. apply H. right. exact Hy.
Qed.

Lemma Forall2_map_l_inv : forall A B C (Rel : B -> C -> Prop) (f : A -> B) l rs,
  Forall2 Rel (map f l) rs -> Forall2 (fun x r => Rel (f x) r) l rs.
Proof.
  intros A B C Rel f l. induction l as [|x tl IH]; intros rs H; cbn [map] in H.
  - inversion H. constructor.
  - inversion H as [|y r l1 l2 Hh Ht E1 E2]; subst. constructor; [exact Hh|]. apply IH. exact Ht.
Qed.

(* ------------------------------------------------------------------ *)
(* 1. the instance                                                      *)
(* ------------------------------------------------------------------ *)

Definition R_cmp (hs : hasher) (P : state -> Prop) (Hn : nat) (h : N) (e : entry) : Prop :=
  e_kind e <> UpperBound /\ forall s, P s -> hash hs s = h -> EC Hn e s.

Definition G_cmp (hs : hasher) (P : state -> Prop) (Hn : nat) (h : N) (e : entry) : Prop :=
  exists s, P s /\ h = hash hs s /\ e_kind e <> UpperBound /\ EC Hn e s.

(* the value clauses of cpost, in the final form of complete_call *)
Definition Q_cmp (hs : hasher) (history : list N) (Hn : nat) (s : state) (md cd : N) (a b : Z) (r : pres) : Prop :=
  match r with
  | WVal v _ =>
      (forall n, win n (abs s) = true -> (n <= remd md cd)%nat -> (n <= S Hn)%nat ->
         cd = 0%N \/ in_history history (hash hs s) = false -> POS_INF <= v \/ b <= v) /\
      (forall k, loss k (abs s) = true -> (k <= remd md cd)%nat -> (k <= Hn)%nat -> v <= NEG_INF \/ v <= a)
  | _ => True
  end.

(* the working form: WonAt / LostAt, plus the node counter of the worker *)
Definition Q_cmpN (hs : hasher) (history : list N) (Hn : nat) (s : state) (md cd : N) (a b : Z) (st : lstate)
           (r : pres) : Prop :=
  match r with
  | WVal v st' =>
      (l_nodes st < l_nodes st')%N /\
      (WonAt Hn s (remd md cd) -> cd = 0%N \/ in_history history (hash hs s) = false -> POS_INF <= v \/ b <= v) /\
      (LostAt Hn s (remd md cd) -> v <= NEG_INF \/ v <= a)
  | _ => True
  end.

Lemma Q_cmpN_Q_cmp : forall hs history Hn s md cd a b st r,
  Q_cmpN hs history Hn s md cd a b st r -> Q_cmp hs history Hn s md cd a b r.
Proof.
  intros hs history Hn s md cd a b st r H. destruct r as [v st'|site|]; cbn [Q_cmpN Q_cmp] in *; try exact Logic.I.
  destruct H as (_ & H4 & H5). split.
  - intros n Hw Hn1 Hn2. apply H4. unfold WonAt. apply (win_mono_le n); [lia|exact Hw].
  - intros k Hl Hk1 Hk2. apply H5. unfold LostAt. apply (loss_mono_le k); [lia|exact Hl].
Qed.

Section CompleteM.
Variable hs : hasher.
Variable P : state -> Prop.
Hypothesis HR : HashRuleOn P hs.
Hypothesis P_legal : forall s, P s -> LegalPos s.
Hypothesis P_step : forall s m ns, P s -> In (m, ns) (gen_legal s) -> P ns.
Variable history : list N.
Variable Hn : nat.
Hypothesis HF : HistFree P hs history Hn.

Notation Rc := (R_cmp hs P Hn).
Notation Gc := (G_cmp hs P Hn).

(* the small lemmas of MateComplete.v on WonAt / LostAt, restated here (there they are generalised over section
   variables they do not use) *)
Lemma WonAt_monoM : forall s R R', (R <= R')%nat -> WonAt Hn s R -> WonAt Hn s R'.
Proof. intros s R R' Hle H. unfold WonAt in *. apply (win_mono_le (Nat.min R (S Hn))); [lia|exact H]. Qed.

Lemma LostAt_monoM : forall s R R', (R <= R')%nat -> LostAt Hn s R -> LostAt Hn s R'.
Proof. intros s R R' Hle H. unfold LostAt in *. apply (loss_mono_le (Nat.min R Hn)); [lia|exact H]. Qed.

Lemma hist_not_lostM : forall s R, P s -> in_history history (hash hs s) = true -> LostAt Hn s R -> False.
Proof.
  intros s R HP Hh H. destruct (HF s HP Hh) as [_ Hl]. unfold LostAt in H.
  rewrite (loss_mono_le (Nat.min R Hn) Hn _ ltac:(lia) H) in Hl. discriminate Hl.
Qed.

Lemma lost_childM : forall s R m ns, P s -> LostAt Hn s R -> In (m, ns) (gen_legal s) ->
  WonAt Hn ns (R - 1) /\ in_history history (hash hs ns) = false.
Proof.
  intros s R m ns HP H Hin. pose proof (P_legal s HP) as HL. unfold LostAt in H.
  assert (Hne : gen_legal s <> []) by (intros E; rewrite E in Hin; destruct Hin).
  destruct (lost_step s _ HL H Hne) as (k' & Ek & Hall). pose proof (Hall m ns Hin) as Hw.
  split.
  - unfold WonAt. apply (win_mono_le (S k')); [lia|exact Hw].
  - destruct (in_history history (hash hs ns)) eqn:Hh; [|reflexivity].
    destruct (HF ns (P_step s m ns HP Hin) Hh) as [Hf _].
    rewrite (win_mono_le (S k') Hn _ ltac:(lia) Hw) in Hf. discriminate Hf.
Qed.

Lemma won_childM : forall s R, P s -> (1 <= R)%nat -> WonAt Hn s R ->
  exists m ns, In (m, ns) (gen_legal s) /\ LostAt Hn ns (R - 1).
Proof.
  intros s R HP HR1 H. unfold WonAt in H.
  replace (Nat.min R (S Hn)) with (S (Nat.min (R - 1) Hn)) in H by lia.
  destruct (won_step s _ (P_legal s HP) H) as (m & ns & Hin & Hl). exists m, ns. split; [exact Hin|exact Hl].
Qed.

(* ---- (1) the guarantee implies the rely; TabR is TC ---- *)

Lemma G_cmp_R_cmp : forall h e, Gc h e -> Rc h e.
Proof.
  intros h e (s & HP & -> & Hk & [E1 E2]). split; [exact Hk|].
  intros s' HP' E. split.
  - intros H1 H2. apply E1; [|exact H2]. exact (WonAt_key hs P HR P_legal Hn s' s _ HP' HP E H1).
  - intros H1. apply E2. exact (LostAt_key hs P HR P_legal Hn s' s _ HP' HP E H1).
Qed.

Lemma TabR_TC : forall tt, TabR Rc tt <-> TC hs P Hn tt.
Proof.
  intros tt. unfold TabR, TC, NoUpper, R_cmp. split.
  - intros [H1 H2]. split; [exact H1|]. split.
    + intros h e Hf. exact (proj1 (H2 h e Hf)).
    + intros h e Hf. exact (proj2 (H2 h e Hf)).
  - intros (H1 & H2 & H3). split; [exact H1|]. intros h e Hf. split; [exact (H2 h e Hf)|exact (H3 h e Hf)].
Qed.

(* ---- (2) the probe, as a function of what find answered ---- *)

Lemma probe_of_complete : forall r s md cd a b,
  (forall e, r = Some e -> Rc (hash hs s) e) -> P s -> a < b ->
  match probe_of r md cd a b with
  | PEarly v => (WonAt Hn s (remd md cd) -> POS_INF <= v \/ b <= v) /\
                (LostAt Hn s (remd md cd) -> v <= NEG_INF \/ v <= a)
  | PWindow a1 b1 => b1 = b /\ a <= a1 /\ a1 < b /\ (LostAt Hn s (remd md cd) -> a1 <= Z.max a NEG_INF)
  | PPanic _ => True
  end.
Proof.
  intros r s md cd a b Hr HP Hab. unfold probe_of.
  assert (Hwin : b = b /\ a <= a /\ a < b /\ (LostAt Hn s (remd md cd) -> a <= Z.max a NEG_INF)).
  { split; [reflexivity|]. split; [lia|]. split; [exact Hab|]. intros _; lia. }
  destruct r as [e|]; [|exact Hwin].
  destruct (md <? cd)%N eqn:H1; [exact Logic.I|]. destruct (e_maxdepth e <? e_depth e)%N eqn:H2; [exact Logic.I|].
  destruct (md - cd <=? e_maxdepth e - e_depth e)%N eqn:H3; [|exact Hwin].
  apply N.leb_le in H3.
  destruct (Hr e eq_refl) as [Hnu Hen]. destruct (Hen s HP eq_refl) as [E1 E2].
  assert (Hle : (remd md cd <= remd (e_maxdepth e) (e_depth e))%nat) by (unfold remd; lia).
  assert (F1 : WonAt Hn s (remd md cd) -> e_kind e = Exact -> POS_INF <= e_eval e).
  { intros H. apply E1. exact (WonAt_monoM s _ _ Hle H). }
  assert (F2 : LostAt Hn s (remd md cd) -> e_eval e <= NEG_INF).
  { intros H. apply E2. exact (LostAt_monoM s _ _ Hle H). }
  destruct (e_kind e) eqn:Ek.
  - split; [intros H; left; exact (F1 H eq_refl)|intros H; left; exact (F2 H)].
  - exfalso. exact (Hnu eq_refl).
  - cbv zeta. destruct (b <=? Z.max a (e_eval e)) eqn:Hc.
    + split; [intros _; right; lia|intros H; left; exact (F2 H)].
    + split; [reflexivity|]. split; [lia|]. split; [lia|].
      intros H. pose proof (F2 H). lia.
Qed.

(* ---- (3) the move loop, a node, analyzeP ---- *)

Notation SAT := (sat Rc Gc).

Definition recP_okC (recP : recP_t) : Prop :=
  forall ns md cd ce a b st, P ns -> a < b ->
  SAT (Q_cmpN hs history Hn ns md cd a b st) (recP ns md cd ce a b None st).

Definition lpostP (s : state) (md cd : N) (a b : Z) (prev : N) (r : pres) : Prop :=
  match r with
  | WVal v st' =>
      (prev <= l_nodes st')%N /\
      (WonAt Hn s (remd md cd) -> POS_INF <= v \/ b <= v) /\
      (LostAt Hn s (remd md cd) -> v <= NEG_INF \/ v <= a)
  | _ => True
  end.

(* a = the node's alpha (the reference of the fail-low claim), b = the node's beta (no UpperBound entry is ever
   found, so the probe never lowers it); alpha = the running lower bound *)
Lemma loopP_complete : forall (recP : recP_t), recP_okC recP ->
  forall s md cd ce ext a b prev, P s -> (cd < md)%N ->
  forall l, (forall m, In m l -> In m (MoveGen.pseudo_legal s)) ->
  forall alpha best kind st,
    (prev <= l_nodes st)%N -> alpha < b ->
    (WonAt Hn s (remd md cd) -> (POS_INF <= alpha /\ (prev < l_nodes st)%N) \/
        exists m ns, In m l /\ In (m, ns) (gen_legal s) /\ LostAt Hn ns (remd md cd - 1)) ->
    (LostAt Hn s (remd md cd) -> alpha <= Z.max a NEG_INF /\ (forall bm, best = Some bm -> alpha <= NEG_INF)) ->
    ((prev < l_nodes st)%N \/ forall m ns, In (m, ns) (gen_legal s) -> In m l) ->
    (forall bm, best = Some bm -> kind = Exact) ->
    SAT (lpostP s md cd a b prev) (loop_bodyP recP s (hash hs s) md cd ce ext b prev l alpha best kind st).
Proof.
  intros recP Hrec s md cd ce ext a b prev HP Hlt l. pose proof (P_legal s HP) as HL. infs.
  induction l as [|m tl IH]; intros Hl alpha best kind st Hpn Hab HW HLo Hcov Hbest; cbn [loop_bodyP].
  - destruct (prev =? l_nodes st)%N eqn:Hpw.
    + apply N.eqb_eq in Hpw.
      assert (Hnil : gen_legal s = []).
      { destruct Hcov as [Hc|Hc]; [lia|]. destruct (gen_legal s) as [|[m0 ns0] tl0]; [reflexivity|].
        destruct (Hc m0 ns0 (or_introl eq_refl)). }
      destruct (evaluate s (st_turn s) cd) as [v|] eqn:Ee; [|apply sat_ret; exact Logic.I].
      apply sat_ret. cbn [lpostP]. split; [lia|]. split.
      * intros HWs. exfalso. exact (won_has_move s _ HL HWs Hnil).
      * intros HLs. left. pose proof (lost_nil s _ HL HLs Hnil) as Hc.
        rewrite (eval_mate s (st_turn s) cd HL Hnil Hc), BoardProofs.color_eqb_refl in Ee.
        injection Ee as <-. destruct (mate_scores cd) as (_ & M2 & _). exact M2.
    + apply N.eqb_neq in Hpw.
      assert (HWa : WonAt Hn s (remd md cd) -> POS_INF <= alpha).
      { intros HWs. destruct (HW HWs) as [[H1 _]|(m & ns & [] & _)]. exact H1. }
      assert (Hpost : lpostP s md cd a b prev (WVal alpha st)).
      { cbn [lpostP]. split; [exact Hpn|]. split; [intros HWs; left; exact (HWa HWs)|].
        intros HLs. destruct (HLo HLs) as [H1 _]. lia. }
      destruct best as [bm|].
      * rewrite (Hbest bm eq_refl). apply sat_ins; [|apply sat_ret; exact Hpost].
        exists s. split; [exact HP|]. split; [reflexivity|]. split; [cbn [e_kind]; discriminate|].
        split; cbn [e_kind e_eval e_maxdepth e_depth].
        -- intros H1 _. exact (HWa H1).
        -- intros H1. exact (proj2 (HLo H1) bm eq_refl).
      * apply sat_ret. exact Hpost.
  - assert (Htl : forall m', In m' tl -> In m' (MoveGen.pseudo_legal s)) by (intros m' Hm'; apply Hl; right; exact Hm').
    destruct (apply_move s m) as [ns|] eqn:Ha; [|apply sat_ret; exact Logic.I].
    fold (king_hit s ns). destruct (king_hit s ns) eqn:Hk.
    + (* not a legal move: skipped *)
      apply IH; try assumption.
      * intros HWs. destruct (HW HWs) as [H1|(m' & ns' & [<-|Hin'] & Hg' & Hl')]; [left; exact H1| |].
        -- exfalso. exact (gen_legal_hit_false s m ns' ns Hg' Ha Hk).
        -- right. exists m', ns'. auto.
      * destruct Hcov as [Hc|Hc]; [left; exact Hc|]. right. intros m' ns' Hg'.
        destruct (Hc m' ns' Hg') as [<-|Hin']; [|exact Hin'].
        exfalso. exact (gen_legal_hit_false s m ns' ns Hg' Ha Hk).
    + destruct (searched_move s m ns HL (Hl m (or_introl eq_refl)) Ha Hk) as (Hg & _ & _).
      pose proof (P_step s m ns HP Hg) as HPn.
      assert (Hwin : - b < - alpha) by lia.
      apply (sat_bind _ _ _ _ (Q_cmpN hs history Hn ns (md + ext)%N (cd + 1 + ext)%N (- b) (- alpha) st));
        [exact (Hrec ns (md + ext)%N (cd + 1 + ext)%N (ce + ext)%N (- b) (- alpha) st HPn Hwin)|].
      intros r Hc. destruct r as [r st'|site|]; [|apply sat_ret; exact Logic.I|apply sat_ret; exact Logic.I].
      cbn [Q_cmpN] in Hc. destruct Hc as (Hn' & HcW & HcL).
      assert (ER : remd (md + ext) (cd + 1 + ext) = (remd md cd - 1)%nat) by (unfold remd; lia).
      rewrite ER in HcW, HcL.
      (* the child of a lost node *)
      assert (F2 : LostAt Hn s (remd md cd) -> POS_INF <= r \/ - alpha <= r).
      { intros HLs. destruct (lost_childM s _ m ns HP HLs Hg) as [Hw Hh]. exact (HcW Hw (or_intror Hh)). }
      (* the good move of a won node *)
      assert (F1 : forall ns', In (m, ns') (gen_legal s) -> LostAt Hn ns' (remd md cd - 1) -> r <= NEG_INF \/ r <= - b).
      { intros ns' Hg' Hl'. rewrite (gen_legal_unique s m ns' ns Hg' Ha) in Hl'. destruct (HcL Hl'); lia. }
      cbv zeta. destruct (b <=? - r) eqn:Hcut.
      * (* cutoff *)
        assert (HLb : LostAt Hn s (remd md cd) -> b <= NEG_INF) by (intros HLs; destruct (F2 HLs); lia).
        apply sat_ins.
        -- exists s. split; [exact HP|]. split; [reflexivity|]. split; [cbn [e_kind]; discriminate|].
           split; cbn [e_kind e_eval e_maxdepth e_depth]; [intros _ E; discriminate E|exact HLb].
        -- apply sat_ret. cbn [lpostP]. split; [lia|]. split; [intros _; right; lia|].
           intros HLs. left. exact (HLb HLs).
      * destruct (alpha <? - r) eqn:Hr.
        -- (* the running bound is raised *)
           apply IH; [exact Htl|lia|lia| | | |].
           ++ intros HWs. destruct (HW HWs) as [[H1 H2]|(m' & ns' & [<-|Hin'] & Hg' & Hl')].
              ** left. lia.
              ** left. destruct (F1 ns' Hg' Hl'); lia.
              ** right. exists m', ns'. auto.
           ++ intros HLs. destruct (HLo HLs) as [H1 H2]. destruct (F2 HLs); [|lia].
              split; [lia|]. intros bm _. lia.
           ++ left. lia.
           ++ intros bm _. reflexivity.
        -- apply IH; [exact Htl|lia|exact Hab| |exact HLo| |exact Hbest].
           ++ intros HWs. destruct (HW HWs) as [[H1 H2]|(m' & ns' & [<-|Hin'] & Hg' & Hl')].
              ** left. lia.
              ** left. destruct (F1 ns' Hg' Hl'); lia.
              ** right. exists m', ns'. auto.
           ++ left. lia.
Qed.

Lemma nodeP_complete : forall jit (recP : recP_t), recP_okC recP ->
  forall s md cd ce a b prio st, P s -> a < b ->
  (forall pm, prio = Some pm -> In pm (MoveGen.legal_moves s)) ->
  SAT (Q_cmpN hs history Hn s md cd a b st) (node_bodyP hs history jit recP s md cd ce a b prio st).
Proof.
  intros jit recP Hrec s md cd ce a b prio st HP Hab Hprio.
  pose proof (P_legal s HP) as HL. infs. unfold node_bodyP. cbv zeta.
  destruct ((0 <? cd)%N && in_history history (hash hs s)) eqn:Hh.
  - apply andb_true_iff in Hh. destruct Hh as [Hh1 Hh2]. apply N.ltb_lt in Hh1.
    apply sat_ret. cbn [Q_cmpN l_nodes]. split; [lia|]. split.
    + intros _ [E|E]; exfalso; [lia|]. rewrite E in Hh2. discriminate Hh2.
    + intros HLs. exfalso. exact (hist_not_lostM s _ HP Hh2 HLs).
  - apply sat_find. intros r Hr.
    pose proof (probe_of_complete r s md cd a b Hr HP Hab) as Hp.
    destruct (probe_of r md cd a b) as [v|a1 b1|site]; [| |apply sat_ret; exact Logic.I].
    + apply sat_ret. cbn [Q_cmpN l_nodes]. destruct Hp as (H1 & H2).
      split; [lia|]. split; [intros Hx _; exact (H1 Hx)|exact H2].
    + destruct Hp as (-> & Hge & Hlt1 & HLa).
      destruct (md <=? cd)%N eqn:Hmd.
      * apply N.leb_le in Hmd.
        assert (ER : remd md cd = O) by (unfold remd; lia).
        destruct (quiesce (S (men s)) s cd a1 b) as [v|site|] eqn:Eq; [|apply sat_ret; exact Logic.I|apply sat_ret; exact Logic.I].
        apply sat_ret. cbn [Q_cmpN l_nodes]. rewrite ER. split; [lia|]. split.
        -- intros HWs. unfold WonAt in HWs. cbn [Nat.min] in HWs. discriminate HWs.
        -- intros HLs. left. unfold LostAt in HLs. cbn [Nat.min] in HLs.
           assert (Hnil : gen_legal s = []).
           { rewrite loss_unfold in HLs. apply (gen_legal_nil_iff s HL).
             destruct (Rules.legal_moves (abs s)); [reflexivity|discriminate HLs]. }
           pose proof (lost_nil s _ HL HLs Hnil) as Hc.
           rewrite quiesce_S, (gen_no_panic s HL), (eval_mate s (st_turn s) cd HL Hnil Hc),
                   BoardProofs.color_eqb_refl, Hnil in Eq.
           injection Eq as <-. destruct (mate_scores cd) as (_ & M2 & _). exact M2.
      * apply N.leb_gt in Hmd.
        assert (HR1 : (1 <= remd md cd)%nat) by (unfold remd; lia).
        assert (Hcovall : forall m ns, In (m, ns) (gen_legal s) -> In m (ordered_moves jit s (l_jidx st) prio)).
        { intros m ns Hin. apply ordered_moves_complete. exact (proj1 (gen_legal_not_hit s m ns Hin)). }
        refine (sat_mono _ _ _ _ _ (lpostP s md cd a b (l_nodes st + 1)%N) _ _ (fun _ _ H => H) (fun _ _ H => H) _ _).
        -- intros r0 Hr0. destruct r0 as [v st'|site|]; cbn [lpostP Q_cmpN] in *; try exact Logic.I.
           destruct Hr0 as (L3 & L4 & L5). split; [lia|]. split; [intros Hx _; exact (L4 Hx)|exact L5].
        -- apply (loopP_complete recP Hrec s md cd ce _ a b _ HP Hmd).
           ++ intros m Hm.
              assert (Hin : In m (ordered_moves jit s (l_jidx st) prio)) by exact Hm.
              apply ordered_moves_in in Hin. destruct Hin as [Hin|Hin]; [exact Hin|].
              apply legal_in_pseudo. exact (Hprio m Hin).
           ++ cbn [l_nodes]. lia.
           ++ exact Hlt1.
           ++ intros HWs. right. destruct (won_childM s _ HP HR1 HWs) as (m & ns & Hin & Hl).
              exists m, ns. split; [exact (Hcovall m ns Hin)|]. split; [exact Hin|exact Hl].
           ++ intros HLs. split; [exact (HLa HLs)|]. intros bm E. discriminate E.
           ++ right. exact Hcovall.
           ++ intros bm E. discriminate E.
Qed.

Lemma analyzeP_completeN : forall jit fuel s md cd ce a b prio st,
  P s -> a < b -> (forall pm, prio = Some pm -> In pm (MoveGen.legal_moves s)) ->
  SAT (Q_cmpN hs history Hn s md cd a b st) (analyzeP hs history jit fuel s md cd ce a b prio st).
Proof.
  intros jit. induction fuel as [|k IH]; intros s md cd ce a b prio st HP Hab Hprio; cbn [analyzeP].
  - apply sat_ret. exact Logic.I.
  - apply nodeP_complete; try assumption.
    intros ns md' cd' ce' a' b' st' HPn Hab'. apply IH; try assumption. intros pm E. discriminate E.
Qed.

(* the call-level theorem: whatever the table answers within the rely, what the call inserts is within the
   guarantee and what it returns is complete *)
Theorem analyzeP_complete : forall jit fuel s md cd ce a b prio st,
  P s -> a < b -> (forall pm, prio = Some pm -> In pm (MoveGen.legal_moves s)) ->
  sat Rc Gc (Q_cmp hs history Hn s md cd a b) (analyzeP hs history jit fuel s md cd ce a b prio st).
Proof.
  intros jit fuel s md cd ce a b prio st HP Hab Hprio.
  refine (sat_mono _ _ _ _ _ _ _ _ (fun _ _ H => H) (fun _ _ H => H) _
            (analyzeP_completeN jit fuel s md cd ce a b prio st HP Hab Hprio)).
  intros r. apply Q_cmpN_Q_cmp.
Qed.

(* ---- (4) the workers of one iteration, under every schedule ---- *)

(* worker i's own postcondition: its own depth, the full window *)
Definition Qw (depth : N) (s : state) (i : nat) : pres -> Prop :=
  Q_cmp hs history Hn s (worker_depth depth i) 0%N (- mate_in_ply 0) (mate_in_ply 0).

Lemma workers_sat_complete : forall jit_of depth s bm (l : list nat), P s ->
  (forall m, bm = Some m -> In m (MoveGen.legal_moves s)) ->
  Forall2 (fun (Q : pres -> Prop) p => sat Rc Gc Q p)
          (map (Qw depth s) l) (map (worker_prog hs jit_of depth s history bm) l).
Proof.
  intros jit_of depth s bm l HP Hbm. apply Forall2_map_both. intros i _. unfold Qw, worker_prog.
  apply analyzeP_complete; [exact HP|exact root_window|].
  destruct i as [|i']; [exact Hbm|intros pm E; discriminate E].
Qed.

(* every worker, its own depth *)
Theorem workers_complete_all : forall jit_of depth s bm workers sched tt,
  P s -> TabR Rc tt -> (forall m, bm = Some m -> In m (MoveGen.legal_moves s)) ->
  let '(rs, tt', _) := run_workers sched (map (worker_prog hs jit_of depth s history bm) (seq 0 workers)) tt in
  TabR Rc tt' /\ length rs = workers /\
  Forall2 (fun i r => Qw depth s i r) (seq 0 workers) rs.
Proof.
  intros jit_of depth s bm workers sched tt HP HT Hbm.
  pose proof (run_workers_sat2 Rc Gc G_cmp_R_cmp sched (map (Qw depth s) (seq 0 workers))
                (map (worker_prog hs jit_of depth s history bm) (seq 0 workers)) tt
                (workers_sat_complete jit_of depth s bm (seq 0 workers) HP Hbm) HT) as Hrw.
  destruct (run_workers sched (map (worker_prog hs jit_of depth s history bm) (seq 0 workers)) tt) as [[rs tt1] sched1].
  destruct Hrw as (H1 & H2). split; [exact H2|]. split.
  - rewrite <- (Forall2_length_eq _ _ _ _ _ H1), map_length, seq_length. reflexivity.
  - exact (Forall2_map_l_inv _ _ _ (fun (Q : pres -> Prop) (r : pres) => Q r) (Qw depth s) _ _ H1).
Qed.

(* a value that is a fail high of the full window is a winning terminal value as well *)
Lemma full_window_high : forall v, POS_INF <= v \/ mate_in_ply 0 <= v -> POS_INF <= v.
Proof. intros v Hv. infs. assert (E : mate_in_ply 0 = 11000) by reflexivity. lia. Qed.

Lemma full_window_low : forall v, v <= NEG_INF \/ v <= - mate_in_ply 0 -> v <= NEG_INF.
Proof. intros v Hv. infs. assert (E : mate_in_ply 0 = 11000) by reflexivity. lia. Qed.

(* worker 0 has the full depth: if the root is won within depth + 1 plies (and within Hn + 1), worker 0's
   value is a winning terminal value, whatever the schedule and whatever the other workers do *)
Theorem workers_complete : forall jit_of depth s bm workers sched tt,
  P s -> TabR Rc tt -> (forall m, bm = Some m -> In m (MoveGen.legal_moves s)) ->
  let '(rs, tt', _) := run_workers sched (map (worker_prog hs jit_of depth s history bm) (seq 0 workers)) tt in
  TabR Rc tt' /\ length rs = workers /\
  (forall n, win n (abs s) = true -> (n <= N.to_nat depth + 1)%nat -> (n <= S Hn)%nat -> (0 < workers)%nat ->
     forall v l, nth_error rs 0 = Some (WVal v l) -> POS_INF <= v) /\
  (forall k, loss k (abs s) = true -> (k <= N.to_nat depth + 1)%nat -> (k <= Hn)%nat -> (0 < workers)%nat ->
     forall v l, nth_error rs 0 = Some (WVal v l) -> v <= NEG_INF).
Proof.
  intros jit_of depth s bm workers sched tt HP HT Hbm.
  pose proof (workers_complete_all jit_of depth s bm workers sched tt HP HT Hbm) as Hall.
  destruct (run_workers sched (map (worker_prog hs jit_of depth s history bm) (seq 0 workers)) tt) as [[rs tt1] sched1].
  destruct Hall as (H1 & H2 & H3). split; [exact H1|]. split; [exact H2|].
  assert (H0 : (0 < workers)%nat -> forall v l, nth_error rs 0 = Some (WVal v l) -> Qw depth s O (WVal v l)).
  { intros Hw v l E. destruct workers as [|w']; [lia|]. cbn [seq] in H3.
    inversion H3 as [|i r li lr Hq _ E1 E2]; subst i li rs. cbn [nth_error] in E. injection E as ->. exact Hq. }
  assert (ER : remd (worker_depth depth 0) 0 = (N.to_nat depth + 1)%nat) by (unfold remd, worker_depth; cbn [Nat.even]; lia).
  split.
  - intros n Hwin Hn1 Hn2 Hw v l E. specialize (H0 Hw v l E). unfold Qw in H0. cbn [Q_cmp] in H0.
    destruct H0 as [HW _]. apply full_window_high. apply (HW n Hwin); [rewrite ER; exact Hn1|exact Hn2|left; reflexivity].
  - intros k Hloss Hk1 Hk2 Hw v l E. specialize (H0 Hw v l E). unfold Qw in H0. cbn [Q_cmp] in H0.
    destruct H0 as [_ HL]. apply full_window_low. apply (HL k Hloss); [rewrite ER; exact Hk1|exact Hk2].
Qed.

End CompleteM.

(* ------------------------------------------------------------------ *)
(* 2. the iterative driver with n workers                               *)
(* ------------------------------------------------------------------ *)

(* join_results: the joined evaluation is at least every worker's evaluation; with outcome 0 and no evaluation
   there was no worker *)
Lemma join_results_ge : forall rs b nodes ev n,
  join_results rs (Some b) nodes = (Some ev, n, 0%N) -> b <= ev.
Proof.
  induction rs as [|r tl IH]; intros b nodes ev n E; cbn [join_results] in E.
  - injection E as E1 _. lia.
  - destruct r as [v l|site|].
    + pose proof (IH _ _ _ _ E). lia.
    + exfalso. injection E as _ _ E3. lia.
    + discriminate E.
Qed.

Lemma join_results_head : forall r tl ev n,
  join_results (r :: tl) None 0%N = (Some ev, n, 0%N) -> exists v l, r = WVal v l /\ v <= ev.
Proof.
  intros r tl ev n E. cbn [join_results] in E. destruct r as [v l|site|].
  - exists v, l. split; [reflexivity|]. exact (join_results_ge _ _ _ _ _ E).
  - exfalso. injection E as _ _ E3. lia.
  - discriminate E.
Qed.

Lemma join_results_none : forall rs best nodes n,
  join_results rs best nodes = (None, n, 0%N) -> rs = [].
Proof.
  induction rs as [|r tl IH]; intros best nodes n E; [reflexivity|]. exfalso. cbn [join_results] in E.
  destruct r as [v l|site|].
  - pose proof (IH _ _ _ E) as Etl. subst tl. cbn [join_results] in E. destruct best; discriminate E.
  - injection E as _ _ E3. lia.
  - discriminate E.
Qed.

(* how a run that ends normally may end, given the events acc reported before it:
   with a reported winning terminal evaluation, or with an iteration that reported no line *)
Definition EndsOk (acc : list event) (r : mrun) : Prop :=
  exists evs, m_events r = rev (evs ++ acc) /\
              match evs with
              | EvBest ev _ :: _ => POS_INF <= ev
              | EvProgress _ _ :: _ => True
              | [] => False
              end.

(* the LAST event of the run is a winning terminal evaluation (the run stopped there: iterateM stops on POS_INF <= ev) *)
Definition FoundM (r : mrun) : Prop := exists ev line pre, m_events r = pre ++ [EvBest ev line] /\ POS_INF <= ev.
(* the last event of the run is a progress event: its last iteration found no root entry to report *)
Definition NoLineM (r : mrun) : Prop := exists d nn pre, m_events r = pre ++ [EvProgress d nn].

Lemma FoundM_In : forall r, FoundM r -> exists ev line, In (EvBest ev line) (m_events r) /\ POS_INF <= ev.
Proof.
  intros r (ev & line & pre & E & Hp). exists ev, line. split; [|exact Hp].
  rewrite E. apply in_or_app. right. left. reflexivity.
Qed.

Lemma EndsOk_cases : forall acc r, EndsOk acc r -> FoundM r \/ NoLineM r.
Proof.
  intros acc r (evs & E & Hhd). destruct evs as [|[d nn|ev line] tl]; [destruct Hhd| |].
  - right. exists d, nn, (rev acc ++ rev tl). rewrite E, rev_app_distr. cbn [rev]. rewrite app_assoc. reflexivity.
  - left. exists ev, line, (rev acc ++ rev tl). split; [|exact Hhd].
    rewrite E, rev_app_distr. cbn [rev]. rewrite app_assoc. reflexivity.
Qed.

Section DriverM.
Variable hs : hasher.
Variable P : state -> Prop.
Hypothesis HR : HashRuleOn P hs.
Hypothesis P_legal : forall s, P s -> LegalPos s.
Hypothesis P_step : forall s m ns, P s -> In (m, ns) (gen_legal s) -> P ns.
Hypothesis P_heur : HeurNTOn P.
Variable jit_of : N -> N -> N -> Z.
Variable workers : nat.
Variable history : list N.
Variable Hn : nat.
Hypothesis HF : HistFree P hs history Hn.

(* both halves of C06 at once: the soundness instance and the completeness instance *)
Definition R_both (h : N) (e : entry) : Prop := R_snd P hs h e /\ R_cmp hs P Hn h e.
Definition G_both (h : N) (e : entry) : Prop := G_snd P hs h e /\ G_cmp hs P Hn h e.

Lemma G_both_R_both : forall h e, G_both h e -> R_both h e.
Proof.
  intros h e [H1 H2]. split; [exact (G_snd_R_snd hs P HR P_legal h e H1)|exact (G_cmp_R_cmp hs P HR P_legal Hn h e H2)].
Qed.

Lemma TabR_both : forall tt, TabR R_both tt <-> TOk P hs tt /\ TC hs P Hn tt.
Proof.
  intros tt. split.
  - intros [H1 H2]. split.
    + apply TabR_TOk. split; [exact H1|]. intros h e Hf. exact (proj1 (H2 h e Hf)).
    + apply TabR_TC. split; [exact H1|]. intros h e Hf. exact (proj2 (H2 h e Hf)).
  - intros [H1 H2]. apply TabR_TOk in H1. apply TabR_TC in H2. split; [exact (proj1 H1)|].
    intros h e Hf. split; [exact (proj2 H1 h e Hf)|exact (proj2 H2 h e Hf)].
Qed.

Definition Qw_both (depth : N) (s : state) (i : nat) (r : pres) : Prop :=
  Q_snd s (- mate_in_ply 0) (mate_in_ply 0) r /\ Qw hs history Hn depth s i r.

(* one iteration: the table keeps both invariants, and if the root is won within depth + 1 plies the joined
   evaluation - whenever there is one - is a winning terminal value *)
Lemma iterationM_complete : forall depth s bm sched tt,
  P s -> TabR R_both tt -> (forall m, bm = Some m -> In m (MoveGen.legal_moves s)) ->
  let '(rs, tt1, _) := run_workers sched (map (worker_prog hs jit_of depth s history bm) (seq 0 workers)) tt in
  TabR R_both tt1 /\ length rs = workers /\
  (forall n, win n (abs s) = true -> (n <= N.to_nat depth + 1)%nat -> (n <= S Hn)%nat -> (0 < workers)%nat ->
     forall ev nn, join_results rs None 0%N = (Some ev, nn, 0%N) -> POS_INF <= ev).
Proof.
  intros depth s bm sched tt HP HT Hbm.
  assert (Hws : Forall2 (fun (Q : pres -> Prop) p => sat R_both G_both Q p)
                  (map (Qw_both depth s) (seq 0 workers))
                  (map (worker_prog hs jit_of depth s history bm) (seq 0 workers))).
  { apply Forall2_map_both. intros i _. unfold Qw_both, Qw, worker_prog.
    assert (Hprio : forall pm, match i with O => bm | S _ => None end = Some pm -> In pm (MoveGen.legal_moves s)).
    { destruct i as [|i']; [exact Hbm|intros pm E; discriminate E]. }
    apply sat_conj.
    - apply (analyzeP_sound hs P P_legal P_step P_heur); [exact HP|exact (root_window)|exact Hprio].
    - apply (analyzeP_complete hs P P_legal P_step history Hn HF); [exact HP|exact (root_window)|exact Hprio]. }
  pose proof (run_workers_sat2 R_both G_both G_both_R_both sched _ _ tt Hws HT) as Hrw.
  destruct (run_workers sched (map (worker_prog hs jit_of depth s history bm) (seq 0 workers)) tt) as [[rs tt1] sched1].
  destruct Hrw as (H1 & H2). split; [exact H2|].
  assert (Hlen : length rs = workers).
  { rewrite <- (Forall2_length_eq _ _ _ _ _ H1), map_length, seq_length. reflexivity. }
  split; [exact Hlen|].
  intros n Hwin Hn1 Hn2 Hw ev nn Ej.
  destruct workers as [|w']; [lia|]. cbn [seq map] in H1.
  inversion H1 as [|Q0 r0 lq lr Hq _ E1 E2]; subst Q0 lq rs.
  destruct (join_results_head r0 lr ev nn Ej) as (v & l & -> & Hle).
  destruct Hq as [_ Hq]. unfold Qw in Hq. cbn [Q_cmp] in Hq. destruct Hq as [HW _].
  assert (ER : remd (worker_depth depth 0) 0 = (N.to_nat depth + 1)%nat) by (unfold remd, worker_depth; cbn [Nat.even]; lia).
  pose proof (full_window_high v (HW n Hwin ltac:(rewrite ER; exact Hn1) Hn2 (or_introl eq_refl))). lia.
Qed.

(* the run: started at an iteration `depth`, with enough iterations left to reach depth n - 1, a run that ends
   normally has reported a winning terminal evaluation - or ended at an iteration whose table walk from the root
   was empty *)
Lemma iterateM_complete : forall s n, P s -> win n (abs s) = true -> (n <= S Hn)%nat -> (0 < workers)%nat ->
  forall iters depth tt sched nt bm acc,
  (0 < iters)%nat -> (n <= N.to_nat depth + iters)%nat ->
  TabR R_both tt -> (forall m, bm = Some m -> In m (MoveGen.legal_moves s)) ->
  let r := iterateM hs jit_of workers iters depth s history tt sched nt bm acc in
  m_outcome r = 0%N -> EndsOk acc r.
Proof.
  intros s n HP Hwin Hn2 Hw. induction iters as [|k IH]; intros depth tt sched nt bm acc Hit Hrange HT Hbm; [lia|].
  cbn [iterateM]. cbv zeta.
  pose proof (iterationM_complete depth s bm sched tt HP HT Hbm) as Hrw.
  destruct (run_workers sched (map (worker_prog hs jit_of depth s history bm) (seq 0 workers)) tt) as [[rs tt1] sched1].
  destruct Hrw as (HT1 & Hlen & Hfound).
  destruct (join_results rs None 0) as [[best nn] oc] eqn:Ej.
  destruct oc as [|poc]; [|destruct best; cbn [m_outcome]; intros E; discriminate E].
  destruct best as [ev|].
  2:{ exfalso. rewrite (join_results_none _ _ _ _ Ej) in Hlen. cbn [length] in Hlen. lia. }
  destruct (iter_moves hs (S (S (N.to_nat depth))) tt1 s 0 depth) as [|mv tl] eqn:El.
  - cbn [m_outcome m_events]. intros _. exists [EvProgress (depth + 1)%N (nt + nn)%N]. split; [reflexivity|exact Logic.I].
  - destruct (POS_INF <=? ev) eqn:Hev.
    + cbn [m_outcome m_events]. intros _.
      exists [EvBest ev (mv :: tl); EvProgress (depth + 1)%N (nt + nn)%N]. split; [reflexivity|lia].
    + assert (Hlt : (N.to_nat depth + 1 < n)%nat).
      { destruct (le_lt_dec n (N.to_nat depth + 1)) as [Hge|Hlt]; [|exact Hlt]. exfalso.
        pose proof (Hfound n Hwin Hge Hn2 Hw ev nn eq_refl). lia. }
      intros Hout.
      assert (HTO : TOk P hs tt1) by exact (proj1 (proj1 (TabR_both tt1) HT1)).
      destruct (IH (depth + 1)%N tt1 sched1 (nt + nn)%N (Some mv)
                  (EvBest ev (mv :: tl) :: EvProgress (depth + 1)%N (nt + nn)%N :: acc)
                  ltac:(lia) ltac:(lia) HT1
                  (fun m E => match E in _ = o return match o with Some m' => In m' (MoveGen.legal_moves s) | None => True end
                              with eq_refl => iter_moves_head hs P _ _ _ _ _ _ _ HTO HP El end)
                  Hout) as (evs & E & Hhd).
      exists (evs ++ [EvBest ev (mv :: tl); EvProgress (depth + 1)%N (nt + nn)%N]). split.
      * rewrite E, <- app_assoc. reflexivity.
      * destruct evs as [|e0 t]; [destruct Hhd|exact Hhd].
Qed.

Theorem iterativeM_complete : forall d s n sched tt,
  P s -> (0 < workers)%nat -> win n (abs s) = true -> (n <= d)%nat -> (n <= S Hn)%nat ->
  TOk P hs tt -> TC hs P Hn tt ->
  let r := iterateM hs jit_of workers d 0%N s history tt sched 0%N None [] in
  m_outcome r = 0%N -> FoundM r \/ NoLineM r.
Proof.
  intros d s n sched tt HP Hw Hwin Hle Hn2 HT HC r Hout.
  assert (Hn1 : (1 <= n)%nat) by (destruct n; [discriminate Hwin|lia]).
  apply (EndsOk_cases []).
  apply (iterateM_complete s n HP Hwin Hn2 Hw d 0%N tt sched 0%N None []); [lia|change (N.to_nat 0) with O; lia| | |exact Hout].
  - apply TabR_both. split; assumption.
  - intros m E. discriminate E.
Qed.

End DriverM.

(* ------------------------------------------------------------------ *)
(* 3. final forms                                                       *)
(* ------------------------------------------------------------------ *)

(* one call, as a program over the shared table: whatever find answers within the rely R_cmp (= whatever the other
   workers do to the table, as long as they keep TC), what the call inserts is within the guarantee G_cmp and its
   value is complete.  (HashRuleOn is used only by the step from the guarantee to the rely.) *)
Theorem completeM_call : forall hs P, HashRuleOn P hs -> Region P ->
  forall history Hn, HistFree P hs history Hn ->
  forall jit fuel s md cd ce a b prio st,
  P s -> a < b -> (forall pm, prio = Some pm -> In pm (MoveGen.legal_moves s)) ->
  sat (R_cmp hs P Hn) (G_cmp hs P Hn) (Q_cmp hs history Hn s md cd a b)
      (analyzeP hs history jit fuel s md cd ce a b prio st).
Proof.
  intros hs P HR [HPl HPs] history Hn HF jit fuel s md cd ce a b prio st HP Hab Hprio.
  exact (analyzeP_complete hs P HPl HPs history Hn HF jit fuel s md cd ce a b prio st HP Hab Hprio).
Qed.

Theorem completeM_guarantee_rely : forall hs P, HashRuleOn P hs -> Region P ->
  forall Hn h e, G_cmp hs P Hn h e -> R_cmp hs P Hn h e.
Proof. intros hs P HR [HPl HPs] Hn h e. exact (G_cmp_R_cmp hs P HR HPl Hn h e). Qed.

(* the workers of one iteration on one table, any schedule: TC is kept, and worker 0 (full depth, full window)
   reports a winning terminal value if the root is won within depth + 1 plies, a losing terminal value if it is
   lost within depth + 1 plies *)
Theorem completeM_workers : forall hs P, HashRuleOn P hs -> Region P ->
  forall history Hn, HistFree P hs history Hn ->
  forall jit_of depth s bm workers sched tt,
  P s -> TC hs P Hn tt -> (forall m, bm = Some m -> In m (MoveGen.legal_moves s)) ->
  let '(rs, tt', _) := run_workers sched (map (worker_prog hs jit_of depth s history bm) (seq 0 workers)) tt in
  TC hs P Hn tt' /\ length rs = workers /\
  (forall n, win n (abs s) = true -> (n <= N.to_nat depth + 1)%nat -> (n <= S Hn)%nat -> (0 < workers)%nat ->
     forall v l, nth_error rs 0 = Some (WVal v l) -> POS_INF <= v) /\
  (forall k, loss k (abs s) = true -> (k <= N.to_nat depth + 1)%nat -> (k <= Hn)%nat -> (0 < workers)%nat ->
     forall v l, nth_error rs 0 = Some (WVal v l) -> v <= NEG_INF).
Proof.
  intros hs P HR [HPl HPs] history Hn HF jit_of depth s bm workers sched tt HP HT Hbm.
  pose proof (workers_complete hs P HR HPl HPs history Hn HF jit_of depth s bm workers sched tt HP
                (proj2 (TabR_TC hs P Hn tt) HT) Hbm) as H.
  destruct (run_workers sched (map (worker_prog hs jit_of depth s history bm) (seq 0 workers)) tt) as [[rs tt1] sched1].
  destruct H as (H1 & H2 & H3 & H4). split; [apply TabR_TC; exact H1|]. split; [exact H2|]. split; [exact H3|exact H4].
Qed.

(* every worker, its own depth (worker i: worker_depth depth i) *)
Theorem completeM_workers_all : forall hs P, HashRuleOn P hs -> Region P ->
  forall history Hn, HistFree P hs history Hn ->
  forall jit_of depth s bm workers sched tt,
  P s -> TC hs P Hn tt -> (forall m, bm = Some m -> In m (MoveGen.legal_moves s)) ->
  let '(rs, tt', _) := run_workers sched (map (worker_prog hs jit_of depth s history bm) (seq 0 workers)) tt in
  TC hs P Hn tt' /\ length rs = workers /\
  Forall2 (fun i r => Q_cmp hs history Hn s (worker_depth depth i) 0%N (- mate_in_ply 0) (mate_in_ply 0) r)
          (seq 0 workers) rs.
Proof.
  intros hs P HR [HPl HPs] history Hn HF jit_of depth s bm workers sched tt HP HT Hbm.
  pose proof (workers_complete_all hs P HR HPl HPs history Hn HF jit_of depth s bm workers sched tt HP
                (proj2 (TabR_TC hs P Hn tt) HT) Hbm) as H.
  destruct (run_workers sched (map (worker_prog hs jit_of depth s history bm) (seq 0 workers)) tt) as [[rs tt1] sched1].
  destruct H as (H1 & H2 & H3). split; [apply TabR_TC; exact H1|]. split; [exact H2|exact H3].
Qed.

(* the run.  n = a mate distance of the root with HistFree (root_history ..) (n - 1), i.e. (for the root itself) the
   exact one.  A run of at least n iterations that ends normally (no panic, not out of fuel: proofs/ConcSafe.v)
   ends with a reported winning terminal evaluation (FoundM: it is the LAST event, the run stops there), or its
   last iteration found the table walk from the root empty (NoLineM).
   NOT proved here: that the second case does not happen.  In the one-worker model it does not, because the root
   store is the last table write of the iteration (the root-entry clause of cpost); on a shared table this needs an
   argument about the ORDER of the table operations of all workers (the last write of every worker that does not
   fail low is its root store), which the rely/guarantee predicate `sat` does not express. *)
Theorem completeM_iterative_table : forall hs P, HashRuleOn P hs -> Region P -> HeurNTOn P ->
  forall jit_of workers d s n history tt sched,
  P s -> (0 < workers)%nat -> win n (abs s) = true -> (n <= d)%nat ->
  HistFree P hs (root_history hs s history) (n - 1) ->
  TOk P hs tt -> TC hs P (n - 1) tt ->
  let r := analyze_iterativeM hs jit_of workers d s history tt sched in
  m_outcome r = 0%N -> FoundM r \/ NoLineM r.
Proof.
  intros hs P HR [HPl HPs] HH jit_of workers d s n history tt sched HP Hw Hwin Hle HF HT HC.
  assert (Hn1 : (1 <= n)%nat) by (destruct n; [discriminate Hwin|lia]).
  exact (iterativeM_complete hs P HR HPl HPs HH jit_of workers (root_history hs s history) (n - 1)%nat HF
           d s n sched tt HP Hw Hwin Hle ltac:(lia) HT HC).
Qed.

(* fresh table, fresh history: the only residues are the region's (no collision, heuristic caveat) *)
Theorem completeM_iterative : forall hs P, HashRuleOn P hs -> Region P -> HeurNTOn P ->
  forall jit_of workers d s n nt nb sched,
  P s -> (0 < workers)%nat -> (0 < nt)%nat -> (0 < nb)%nat -> win n (abs s) = true -> (n <= d)%nat ->
  let r := analyze_iterativeM hs jit_of workers d s [] (empty_access nt nb) sched in
  m_outcome r = 0%N -> FoundM r \/ NoLineM r.
Proof.
  intros hs P HR HReg HH jit_of workers d s n nt nb sched HP Hw Hnt Hnb Hwin Hle.
  destruct (min_win n _ Hwin) as (n0 & H1 & H2 & H3).
  apply (completeM_iterative_table hs P HR HReg HH jit_of workers d s n0 [] _ sched HP Hw H2); [lia| | |].
  - exact (root_hist_free hs P HR HReg s n0 HP H2 H3).
  - apply TOk_empty; assumption.
  - apply TC_empty; assumption.
Qed.

Print Assumptions run_workers_sat2.
Print Assumptions completeM_call.
Print Assumptions completeM_guarantee_rely.
Print Assumptions completeM_workers.
Print Assumptions completeM_workers_all.
Print Assumptions completeM_iterative_table.
Print Assumptions completeM_iterative.
