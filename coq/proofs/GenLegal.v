(* R4, part 2: the generator against the rules.
   Step 1: the pseudo-legal list of a legal position is exactly { enc_move s mv | gen_pseudo (abs s) mv },
           without repetition.
   Step 2: the legality filter keeps exactly the Rules-legal moves, and pairs each with its successor.

   REUSABLE STATEMENTS
     pseudo_legal_spec   LegalPos s -> (In m (MoveGen.pseudo_legal s) <-> exists mv, from,to < 64 /\
                                         gen_pseudo (abs s) mv = true /\ m = enc_move s mv)
     pseudo_legal_NoDup  LegalPos s -> NoDup (MoveGen.pseudo_legal s)
     try_as_legal_enc    the legality filter on enc_move s mv, mv pseudo-legal
     gen_legal_spec      In (m, s') (gen_legal s) <-> exists mv, In mv (Rules.legal_moves (abs s)) /\
                                         m = enc_move s mv /\ apply_move s m = Some s'
     gen_legal_props     the successor of a generated move: LegalPos, refinement, absm m legal, m canonical
     legal_moves_spec / legal_moves_NoDup / movegen_exact
     apply_exact / apply_saturating *)
From WV Require Import Types Bits Attacks Board MoveEnc MoveGen Rules Abs Wf Encode.
From WV Require Import BitsProofs BoardProofs MoveEncProofs PosEq BoardAlg ApplyProofs LegalPosProofs PlayProofs.
From WV Require Import GenPieces GenPawns GenPawnsNoDup KingPrefilter.
From Coq Require Import Lia ZifyBool ZifyN ZifyNat.
Import WV.Bits.
Open Scope N_scope.
Arguments N.add : simpl never.
Arguments N.sub : simpl never.
Arguments N.mul : simpl never.
Arguments N.land : simpl never.
Arguments N.lor : simpl never.

(* ====================================================================== *)
(* Step 1: the pseudo-legal list                                          *)
(* ====================================================================== *)

Definition kind_spec (s : state) (k : piece) (m : N) : Prop :=
  exists mv, kind_on (st_board s) (mv_from mv) = Some k /\ mv_from mv < 64 /\ mv_to mv < 64 /\
             gen_pseudo (abs s) mv = true /\ m = enc_move s mv.

Definition gen_spec (s : state) (m : N) : Prop :=
  exists mv, mv_from mv < 64 /\ mv_to mv < 64 /\ gen_pseudo (abs s) mv = true /\ m = enc_move s mv.

Definition kind_list (s : state) (k : piece) : list N :=
  match k with
  | PNone => []
  | Pawn => pawn_moves s
  | Knight => knight_moves s
  | King => king_moves s
  | Bishop => slider_moves s Bishop bishop_attacks
  | Rook => slider_moves s Rook rook_attacks
  | Queen => slider_moves s Queen queen_attacks
  end.

Lemma pseudo_legal_kinds : forall s,
  MoveGen.pseudo_legal s =
  kind_list s Pawn ++ kind_list s Knight ++ kind_list s King ++ kind_list s Bishop
  ++ kind_list s Rook ++ kind_list s Queen.
Proof. reflexivity. Qed.

(* the pre-filter only concerns moves of the king *)
Lemma gen_pseudo_nonking : forall s mv k, kind_on (st_board s) (mv_from mv) = Some k -> k <> King ->
  gen_pseudo (abs s) mv = Rules.pseudo_legal (abs s) mv.
Proof.
  intros s mv k Hk Hne. unfold gen_pseudo, king_step_prefiltered. cbv zeta.
  apply kind_on_piece_at in Hk. destruct Hk as [c' Hk].
  unfold has. cbn [abs p_at]. rewrite Hk.
  assert (E : piece_eqb King k = false).
  { destruct (piece_eqb King k) eqn:E; [|reflexivity]. apply piece_eqb_eq in E. congruence. }
  rewrite E, andb_false_r. cbn [andb negb]. apply andb_true_r.
Qed.

Lemma nonking_conv : forall s k m, k <> King ->
  ((exists mv, kind_on (st_board s) (mv_from mv) = Some k /\ mv_from mv < 64 /\ mv_to mv < 64 /\
               Rules.pseudo_legal (abs s) mv = true /\ m = enc_move s mv) <-> kind_spec s k m).
Proof.
  intros s k m Hne. unfold kind_spec.
  split; intros [mv (Hk & Hf & Ht & Hp & E)]; exists mv; repeat (split; [assumption|]);
    (split; [|exact E]).
  - rewrite (gen_pseudo_nonking s mv k Hk Hne). exact Hp.
  - rewrite <- (gen_pseudo_nonking s mv k Hk Hne). exact Hp.
Qed.

Lemma kind_list_spec : forall s k m, LegalPos s -> (In m (kind_list s k) <-> kind_spec s k m).
Proof.
  intros s k m HL. pose proof (legal_pos_wf s HL) as Hwf.
  destruct k; cbn [kind_list].
  - split; [intros []|]. intros [mv (Hk & _)]. exfalso. exact (kind_on_not_PNone _ _ Hk).
  - rewrite (pawn_moves_spec_legal s m HL). apply nonking_conv. discriminate.
  - rewrite (knight_moves_spec s m Hwf). apply nonking_conv. discriminate.
  - rewrite (bishop_moves_spec s m Hwf). apply nonking_conv. discriminate.
  - rewrite (rook_moves_spec s m Hwf). apply nonking_conv. discriminate.
  - rewrite (queen_moves_spec s m Hwf). apply nonking_conv. discriminate.
  - exact (king_moves_spec s m Hwf (legal_pos_rights_ok s HL)).
Qed.

Lemma kind_list_NoDup : forall s k, LegalPos s -> NoDup (kind_list s k).
Proof.
  intros s k HL. pose proof (legal_pos_wf s HL) as Hwf.
  destruct k; cbn [kind_list].
  - constructor.
  - exact (pawn_moves_NoDup_legal s HL).
  - exact (knight_moves_NoDup s Hwf).
  - exact (bishop_moves_NoDup s Hwf).
  - exact (rook_moves_NoDup s Hwf).
  - exact (queen_moves_NoDup s Hwf).
  - exact (king_moves_NoDup s Hwf).
Qed.

Lemma In_pseudo_kind : forall s m,
  In m (MoveGen.pseudo_legal s) <-> exists k, In m (kind_list s k).
Proof.
  intros s m. rewrite pseudo_legal_kinds. rewrite !in_app_iff. split.
  - intros [H|[H|[H|[H|[H|H]]]]]; eexists; exact H.
  - intros [k H]. destruct k; [destruct H | | | | | |]; tauto.
Qed.

Lemma kind_spec_gen : forall s k m, kind_spec s k m -> gen_spec s m.
Proof. intros s k m [mv (_ & H)]. exists mv. exact H. Qed.

Lemma gen_spec_kind : forall s m, gen_spec s m -> exists k, kind_spec s k m.
Proof.
  intros s m [mv (Hf & Ht & Hg & E)].
  destruct (pseudo_legal_from _ _ (gen_pseudo_pseudo _ _ Hg)) as [k Hk].
  exists k. exists mv. split; [exact (kind_on_p_at s _ _ _ Hk)|]. auto.
Qed.

Theorem pseudo_legal_spec : forall s m, LegalPos s ->
  (In m (MoveGen.pseudo_legal s) <->
   exists mv, mv_from mv < 64 /\ mv_to mv < 64 /\ gen_pseudo (abs s) mv = true /\ m = enc_move s mv).
Proof.
  intros s m HL. rewrite In_pseudo_kind. fold (gen_spec s m). split.
  - intros [k H]. apply (kind_spec_gen s k). apply kind_list_spec; assumption.
  - intros H. destruct (gen_spec_kind s m H) as [k Hk]. exists k. apply kind_list_spec; assumption.
Qed.

(* a generated move determines its rules-level move *)
Lemma gen_spec_absm : forall s m mv, LegalPos s -> mv_to mv < 64 -> gen_pseudo (abs s) mv = true ->
  m = enc_move s mv -> absm m = mv.
Proof.
  intros s m mv HL Ht Hg ->. apply absm_enc_move.
  exact (pseudo_move_ok s mv HL (gen_pseudo_pseudo _ _ Hg) Ht).
Qed.

Lemma kind_list_disj : forall s m k1 k2, LegalPos s ->
  In m (kind_list s k1) -> In m (kind_list s k2) -> k1 = k2.
Proof.
  intros s m k1 k2 HL H1 H2.
  apply (kind_list_spec s k1 m HL) in H1. apply (kind_list_spec s k2 m HL) in H2.
  destruct H1 as [mv1 (Hk1 & _ & Ht1 & Hg1 & E1)]. destruct H2 as [mv2 (Hk2 & _ & Ht2 & Hg2 & E2)].
  pose proof (gen_spec_absm s m mv1 HL Ht1 Hg1 E1) as A1.
  pose proof (gen_spec_absm s m mv2 HL Ht2 Hg2 E2) as A2.
  rewrite A1 in A2. subst mv2. rewrite Hk1 in Hk2. injection Hk2 as ->. reflexivity.
Qed.

Theorem pseudo_legal_NoDup : forall s, LegalPos s -> NoDup (MoveGen.pseudo_legal s).
Proof.
  intros s HL. rewrite pseudo_legal_kinds.
  assert (D : forall k1 k2 x, k1 <> k2 -> In x (kind_list s k1) -> In x (kind_list s k2) -> False).
  { intros k1 k2 x Hne H1 H2. exact (Hne (kind_list_disj s x k1 k2 HL H1 H2)). }
  repeat (apply NoDup_app_disj; [apply kind_list_NoDup; exact HL | |
    intros x Hx Hy; rewrite ?in_app_iff in Hy;
    repeat (destruct Hy as [Hy|Hy]; [refine (D _ _ x _ Hx Hy); discriminate|]);
    refine (D _ _ x _ Hx Hy); discriminate]).
  apply kind_list_NoDup. exact HL.
Qed.

Theorem pseudo_legal_bounds : forall s m, LegalPos s -> In m (MoveGen.pseudo_legal s) ->
  m_origin m < 64 /\ m_dest m < 64.
Proof.
  intros s m HL H. apply (pseudo_legal_spec s m HL) in H. destruct H as [mv (Hf & Ht & Hg & E)].
  pose proof (gen_spec_absm s m mv HL Ht Hg E) as A. rewrite <- A in Hf, Ht. exact (conj Hf Ht).
Qed.

(* ====================================================================== *)
(* Step 2: the legality filter                                            *)
(* ====================================================================== *)

Lemma board_is_check_bool : forall b c, WfBoard b ->
  board_is_check b c = king_attacked (pos_of_board b) c.
Proof.
  intros b c Hwf. pose proof (is_check_spec b c Hwf) as H.
  destruct (board_is_check b c), (king_attacked (pos_of_board b) c); try reflexivity.
  - symmetry. apply H. reflexivity.
  - apply H. reflexivity.
Qed.

(* the model's own-king test on the successor is the rules' king_attacked *)
Lemma filter_test : forall s s' mv, WfState s' -> pos_eq_nc (abs s') (Rules.apply (abs s) mv) ->
  none (N.land (pocc (st_board s') (st_turn s) King) (colored_attacks (st_board s') (st_turn s')))
  = negb (king_attacked (Rules.apply (abs s) mv) (st_turn s)).
Proof.
  intros s s' mv Hwf Hnc.
  assert (Ht : st_turn s' = opp (st_turn s)).
  { destruct Hnc as (_ & Ht & _). exact Ht. }
  rewrite Ht.
  assert (E : forall x, none x = negb (any x)).
  { intros x. unfold none, any. rewrite negb_involutive. reflexivity. }
  rewrite E. fold (board_is_check (st_board s') (st_turn s)).
  rewrite (board_is_check_bool _ _ (wf_state_board s' Hwf)).
  rewrite <- (abs_king_attacked s').
  rewrite (king_attacked_ext_nc _ _ Hnc). reflexivity.
Qed.

Theorem try_as_legal_enc : forall s mv, LegalPos s -> Rules.pseudo_legal (abs s) mv = true ->
  mv_to mv < 64 ->
  exists s', apply_move s (enc_move s mv) = Some s' /\ WfState s' /\
             pos_eq (abs s') (apply_sat (abs s) mv) /\
             try_as_legal s (enc_move s mv) =
               if Rules.legal (abs s) mv then Some (enc_move s mv, s') else None.
Proof.
  intros s mv HL Hpl Ht. destruct (pseudo_step s mv HL Hpl Ht) as (s' & Ha & Hwf & He & Hnc).
  exists s'. repeat (split; [assumption|]).
  unfold try_as_legal. rewrite Ha. rewrite (filter_test s s' mv Hwf Hnc).
  unfold legal. rewrite Hpl. cbn [andb abs p_turn]. reflexivity.
Qed.

Lemma in_filter_map : forall (A B : Type) (f : A -> option B) (l : list A) (y : B),
  In y (MoveGen.filter_map f l) <-> exists x, In x l /\ f x = Some y.
Proof.
  intros A B f l y. induction l as [|a tl IH]; cbn [MoveGen.filter_map In].
  - split; [intros [] | intros [x [[] _]]].
  - destruct (f a) as [b|] eqn:E; cbn [In]; rewrite IH; split.
    + intros [->|[x [Hx Hf]]]; [exists a; auto | exists x; auto].
    + intros [x [[->|Hx] Hf]]; [left; congruence | right; exists x; auto].
    + intros [x [Hx Hf]]. exists x; auto.
    + intros [x [[->|Hx] Hf]]; [congruence | exists x; auto].
Qed.

Lemma try_as_legal_inv : forall s m m' n, try_as_legal s m = Some (m', n) ->
  m' = m /\ apply_move s m = Some n.
Proof.
  intros s m m' n H. unfold try_as_legal in H. destruct (apply_move s m) as [n0|]; [|discriminate H].
  destruct (none _); [|discriminate H]. injection H as <- <-. split; reflexivity.
Qed.

Lemma promo_in_options : forall s mv, move_ok s mv -> In (mv_promo mv) promo_options.
Proof.
  intros s mv [k (_ & _ & _ & _ & _ & Hp & _)]. unfold promo_options.
  destruct (mv_promo mv) as [pr|]; [|left; reflexivity].
  destruct Hp as [_ Hp]. destruct pr; try discriminate Hp; cbn [In]; tauto.
Qed.

Theorem gen_legal_spec : forall s m s', LegalPos s ->
  (In (m, s') (gen_legal s) <->
   exists mv, In mv (Rules.legal_moves (abs s)) /\ m = enc_move s mv /\ apply_move s m = Some s').
Proof.
  intros s m s' HL. unfold gen_legal. rewrite in_filter_map. split.
  - intros [m0 [Hin Htry]]. apply (pseudo_legal_spec s m0 HL) in Hin.
    destruct Hin as [mv (Hf & Ht & Hg & ->)].
    pose proof (gen_pseudo_pseudo _ _ Hg) as Hpl.
    destruct (try_as_legal_enc s mv HL Hpl Ht) as (s0 & Ha & _ & _ & E). rewrite E in Htry.
    destruct (legal (abs s) mv) eqn:El; [|discriminate Htry]. injection Htry as <- <-.
    exists mv. split; [|split; [reflexivity | exact Ha]].
    apply legal_moves_In. repeat (split; [assumption|]). split; [|exact El].
    exact (promo_in_options s mv (pseudo_move_ok s mv HL Hpl Ht)).
  - intros [mv (Hin & -> & Ha)]. apply legal_moves_In in Hin. destruct Hin as (Hf & Ht & _ & Hl).
    exists (enc_move s mv). split.
    + apply (pseudo_legal_spec s _ HL). exists mv. repeat (split; [assumption|]).
      split; [exact (legal_gen_pseudo _ _ Hf Ht Hl) | reflexivity].
    + destruct (try_as_legal_enc s mv HL (legal_pseudo _ _ Hl) Ht) as (s0 & Ha0 & _ & _ & E).
      rewrite E, Hl. rewrite Ha in Ha0. injection Ha0 as <-. reflexivity.
Qed.

(* everything about one generated (move, successor) pair *)
Theorem gen_legal_props : forall s m s', LegalPos s -> In (m, s') (gen_legal s) ->
  apply_move s m = Some s' /\ LegalPos s' /\
  pos_eq (abs s') (apply_sat (abs s) (absm m)) /\
  In (absm m) (Rules.legal_moves (abs s)) /\ m = enc_move s (absm m).
Proof.
  intros s m s' HL H. apply (gen_legal_spec s m s' HL) in H. destruct H as [mv (Hin & -> & Ha)].
  pose proof Hin as Hin'. apply legal_moves_In in Hin'. destruct Hin' as (Hf & Ht & _ & Hl).
  rewrite (absm_enc_move s mv (legal_move_ok s mv HL Hl Ht)).
  destruct (legal_step s mv HL Hl Ht) as (s0 & Ha0 & HL0 & He). rewrite Ha in Ha0. injection Ha0 as <-.
  repeat (split; [assumption|]). reflexivity.
Qed.

Theorem legal_moves_spec : forall s m, LegalPos s ->
  (In m (MoveGen.legal_moves s) <-> exists mv, In mv (Rules.legal_moves (abs s)) /\ m = enc_move s mv).
Proof.
  intros s m HL. unfold MoveGen.legal_moves. rewrite in_map_iff. split.
  - intros [[m0 s'] [E Hin]]. cbn [fst] in E. subst m0.
    apply (gen_legal_spec s m s' HL) in Hin. destruct Hin as [mv (H1 & H2 & _)]. exists mv. auto.
  - intros [mv (Hin & ->)]. pose proof Hin as Hin'. apply legal_moves_In in Hin'.
    destruct Hin' as (Hf & Ht & _ & Hl).
    destruct (legal_step s mv HL Hl Ht) as (s' & Ha & _ & _).
    exists (enc_move s mv, s'). split; [reflexivity|].
    apply (gen_legal_spec s _ s' HL). exists mv. auto.
Qed.

Theorem legal_moves_canonical : forall s m, LegalPos s -> In m (MoveGen.legal_moves s) ->
  In (absm m) (Rules.legal_moves (abs s)) /\ m = enc_move s (absm m).
Proof.
  intros s m HL H. unfold MoveGen.legal_moves in H. apply in_map_iff in H.
  destruct H as [[m0 s'] [E Hin]]. cbn [fst] in E. subst m0.
  destruct (gen_legal_props s m s' HL Hin) as (_ & _ & _ & H1 & H2). exact (conj H1 H2).
Qed.

Lemma map_fst_filter_map : forall (A B : Type) (f : A -> option (A * B)) (l : list A),
  (forall x y, f x = Some y -> fst y = x) ->
  map fst (MoveGen.filter_map f l) = filter (fun x => match f x with Some _ => true | None => false end) l.
Proof.
  intros A B f l Hf. induction l as [|a tl IH]; cbn [MoveGen.filter_map filter map]; [reflexivity|].
  destruct (f a) as [y|] eqn:E; [|exact IH]. cbn [map]. rewrite (Hf a y E), IH. reflexivity.
Qed.

Lemma legal_moves_filter : forall s,
  MoveGen.legal_moves s =
  filter (fun m => match try_as_legal s m with Some _ => true | None => false end) (MoveGen.pseudo_legal s).
Proof.
  intros s. unfold MoveGen.legal_moves, gen_legal. apply map_fst_filter_map.
  intros x [m' n] H. apply try_as_legal_inv in H. cbn [fst]. apply H.
Qed.

Theorem legal_moves_NoDup : forall s, LegalPos s -> NoDup (MoveGen.legal_moves s).
Proof. intros s HL. rewrite legal_moves_filter. apply NoDup_filter. exact (pseudo_legal_NoDup s HL). Qed.

Theorem movegen_exact : forall s, LegalPos s ->
  NoDup (MoveGen.legal_moves s) /\
  (forall m, In m (MoveGen.legal_moves s) <->
             exists mv, In mv (Rules.legal_moves (abs s)) /\ m = enc_move s mv) /\
  (forall m, In m (MoveGen.legal_moves s) ->
             In (absm m) (Rules.legal_moves (abs s)) /\ m = enc_move s (absm m)).
Proof.
  intros s HL. split; [exact (legal_moves_NoDup s HL)|]. split.
  - intros m. exact (legal_moves_spec s m HL).
  - intros m. exact (legal_moves_canonical s m HL).
Qed.

(* the generator never makes by_performing_move fail (the Rust unwrap cannot panic) *)
Theorem gen_no_panic : forall s, LegalPos s -> gen_panics s = false.
Proof.
  intros s HL. unfold gen_panics. destruct (existsb _ _) eqn:E; [|reflexivity].
  apply existsb_exists in E. destruct E as [m [Hin Hm]]. apply (pseudo_legal_spec s m HL) in Hin.
  destruct Hin as [mv (Hf & Ht & Hg & ->)].
  destruct (pseudo_step s mv HL (gen_pseudo_pseudo _ _ Hg) Ht) as (s' & Ha & _). rewrite Ha in Hm.
  discriminate Hm.
Qed.

(* ====================================================================== *)
(* make-move on generated moves (C02)                                     *)
(* ====================================================================== *)

Theorem apply_saturating : forall s m s', LegalPos s -> In (m, s') (gen_legal s) ->
  apply_move s m = Some s' /\ pos_eq (abs s') (apply_sat (abs s) (absm m)) /\ LegalPos s'.
Proof.
  intros s m s' HL H. destruct (gen_legal_props s m s' HL H) as (H1 & H2 & H3 & _). auto.
Qed.

Theorem apply_exact : forall s m s', LegalPos s -> clock_ok s -> In (m, s') (gen_legal s) ->
  apply_move s m = Some s' /\ pos_eq (abs s') (Rules.apply (abs s) (absm m)) /\ LegalPos s'.
Proof.
  intros s m s' HL [Hh Hf] H. destruct (gen_legal_props s m s' HL H) as (H1 & H2 & H3 & _).
  split; [exact H1|]. split; [|exact H2].
  apply (pos_eq_trans _ _ _ H3). apply apply_sat_eq; assumption.
Qed.

Print Assumptions movegen_exact.
Print Assumptions apply_exact.
Print Assumptions gen_no_panic.
