(* R4, part 1: the king pre-filter of the generator is sound at the rules level.
   A plain king step onto a square that is in the opponent's attack set and holds no opposing piece is
   never legal: after the step the same attacker still attacks the king (the only squares that changed
   are the king's origin, which became empty, and the destination, which is not strictly between the
   attacker and itself).

   REUSABLE STATEMENTS
     clear_path_mono / attacks_from_mono    emptying squares (other than the target) keeps an attack
     king_prefilter_illegal : mv_from mv < 64 -> mv_to mv < 64 -> pseudo_legal p mv = true ->
                              king_step_prefiltered p mv = true -> legal p mv = false
     legal_gen_pseudo       : legal p mv = true -> from,to < 64 -> gen_pseudo p mv = true *)
From WV Require Import Types Bits Attacks Board MoveEnc MoveGen Rules Abs Wf Encode.
From WV Require Import BitsProofs BoardProofs MoveEncProofs PosEq BoardAlg ApplyProofs LegalPosProofs.
From Coq Require Import Lia ZifyBool ZifyN ZifyNat.
Ltac Zify.zify_post_hook ::= Z.div_mod_to_equations.
Open Scope N_scope.
Arguments N.add : simpl never.
Arguments N.sub : simpl never.
Arguments N.mul : simpl never.
Arguments N.div : simpl never.
Arguments N.modulo : simpl never.
Arguments Z.add : simpl never.
Arguments Z.sub : simpl never.
Arguments Z.mul : simpl never.

Lemma clear_path_mono : forall p p' f' r' fuel f r sf sr,
  (forall nf nr, on_board nf nr = true -> ~ (nf = f' /\ nr = r') ->
     empty_at p (sq_of nf nr) = true -> empty_at p' (sq_of nf nr) = true) ->
  clear_path p fuel f r sf sr f' r' = true -> clear_path p' fuel f r sf sr f' r' = true.
Proof.
  intros p p' f' r' fuel. induction fuel as [|k IH]; intros f r sf sr Hm H; cbn [clear_path] in *;
    [discriminate H|].
  destruct (((f + sf =? f') && (r + sr =? r'))%Z) eqn:E; [reflexivity|].
  rewrite !andb_true_iff in H. destruct H as [[Hb He] Hc].
  rewrite Hb, (IH _ _ _ _ Hm Hc), andb_true_r. cbn [andb]. apply Hm; try assumption.
  intros [E1 E2]. rewrite E1, E2, !Z.eqb_refl in E. discriminate E.
Qed.

Lemma attacks_from_mono : forall p p' c k a t,
  (forall nf nr, on_board nf nr = true -> ~ (nf = sfile t /\ nr = srank t) ->
     empty_at p (sq_of nf nr) = true -> empty_at p' (sq_of nf nr) = true) ->
  attacks_from p c k a t = true -> attacks_from p' c k a t = true.
Proof.
  intros p p' c k a t Hm H. unfold attacks_from in *. cbv zeta in *.
  assert (Hs : forall x l, x && l = true ->
            forall l', (l = true -> l' = true) -> x && l' = true).
  { intros x l Hx l' Hl. apply andb_true_iff in Hx. destruct Hx as [-> Hx]. rewrite (Hl Hx). reflexivity. }
  destruct k; [exact H | exact H | exact H | | | | exact H];
    (apply (Hs _ _ H); apply clear_path_mono; exact Hm).
Qed.

Lemma sq_of_on_board_inj : forall nf nr t, on_board nf nr = true -> sq_of nf nr = t ->
  nf = sfile t /\ nr = srank t.
Proof. intros nf nr t H E. subst t. unfold on_board, sq_of, sfile, srank in *. lia. Qed.

Theorem king_prefilter_illegal : forall p mv, mv_from mv < 64 -> mv_to mv < 64 ->
  Rules.pseudo_legal p mv = true -> king_step_prefiltered p mv = true -> Rules.legal p mv = false.
Proof.
  intros p mv Hf64 Ht64 Hpl Hpre. unfold legal. rewrite Hpl. cbn [andb]. apply negb_false_iff.
  unfold king_step_prefiltered in Hpre. cbv zeta in Hpre. rewrite !andb_true_iff in Hpre.
  destruct Hpre as [[[Hk Hstep] Hatt] Hnopp]. apply negb_true_iff in Hnopp.
  apply has_iff in Hk.
  set (c := p_turn p) in *. set (f := mv_from mv) in *. set (t := mv_to mv) in *.
  (* the attacker *)
  unfold attacked in Hatt. apply existsb_exists in Hatt. destruct Hatt as [a [Ha Hatt]].
  apply all_squares_In in Ha.
  destruct (p_at p a) as [[c' k]|] eqn:Eat; [|discriminate Hatt].
  apply andb_true_iff in Hatt. destruct Hatt as [Hc' Hattk]. apply color_eqb_true in Hc'. subst c'.
  assert (Hat_ne : a <> t).
  { intros ->. unfold colour_at in Hnopp. rewrite Eat, color_eqb_refl in Hnopp. discriminate Hnopp. }
  assert (Haf_ne : a <> f).
  { intros ->. rewrite Hk in Eat. injection Eat as Ec _. destruct c; discriminate Ec. }
  (* promotion is None, origin <> destination *)
  assert (Hpr : mv_promo mv = None /\ f <> t).
  { unfold Rules.pseudo_legal in Hpl. cbv zeta in Hpl. fold f t c in Hpl. rewrite Hk in Hpl.
    rewrite !andb_true_iff in Hpl. destruct Hpl as [[_ Hne] Hkm].
    split; [destruct (mv_promo mv); [discriminate Hkm | reflexivity]|].
    apply negb_true_iff, N.eqb_neq in Hne. exact Hne. }
  destruct Hpr as [Hpr Hft].
  (* the placement after the step *)
  assert (Hep : ep_flag p King f t = false) by reflexivity.
  assert (Hca : castle_flag King f t = false).
  { unfold castle_flag. cbn [piece_eqb piece_to_N N.eqb Pos.eqb andb]. apply Z.eqb_neq.
    pose proof (king_attack_df _ _ _ _ Hstep). lia. }
  assert (Hafter : forall y, p_at (Rules.apply p mv) y =
             if y =? t then Some (c, King) else if y =? f then None else p_at p y).
  { intros y. rewrite (apply_at_gen p mv c King y Hk). fold f t c. rewrite Hep, Hca, Hpr.
    cbn [andb placed_kind]. reflexivity. }
  apply (king_attacked_intro _ c t Ht64).
  { rewrite Hafter, N.eqb_refl. reflexivity. }
  apply (attacked_intro _ (opp c) k a t Ha).
  { rewrite Hafter. apply N.eqb_neq in Hat_ne, Haf_ne. rewrite Hat_ne, Haf_ne. exact Eat. }
  apply (attacks_from_mono p); [|exact Hattk].
  intros nf nr Hb Hne He. unfold empty_at in *. rewrite Hafter.
  destruct (N.eqb_spec (sq_of nf nr) t) as [E|E].
  { exfalso. apply Hne. exact (sq_of_on_board_inj nf nr t Hb E). }
  destruct (sq_of nf nr =? f); [reflexivity | exact He].
Qed.

(* hence every legal move is in the generator's pseudo-legal set *)
Corollary legal_gen_pseudo : forall p mv, mv_from mv < 64 -> mv_to mv < 64 ->
  Rules.legal p mv = true -> gen_pseudo p mv = true.
Proof.
  intros p mv Hf Ht Hl. unfold gen_pseudo. rewrite (legal_pseudo p mv Hl). cbn [andb].
  apply negb_true_iff. destruct (king_step_prefiltered p mv) eqn:E; [|reflexivity].
  rewrite (king_prefilter_illegal p mv Hf Ht (legal_pseudo p mv Hl) E) in Hl. discriminate Hl.
Qed.

Lemma gen_pseudo_pseudo : forall p mv, gen_pseudo p mv = true -> Rules.pseudo_legal p mv = true.
Proof. intros p mv H. unfold gen_pseudo in H. apply andb_true_iff in H. apply H. Qed.

Print Assumptions king_prefilter_illegal.
