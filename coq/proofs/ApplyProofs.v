(* R1, part 3: the make-move refinement.  apply_move on the canonical encoding of a rules-level move
   is Rules.apply on the abstraction.

   REUSABLE DEFINITIONS AND STATEMENTS (see the end of the file for the main theorems)
     rights_ok s            a held castling right implies king and rook on their home squares
     move_ok_k s mv k / move_ok s mv     semantic side conditions on a rules-level move
     apply_sat p m          Rules.apply with the two counters incremented by sat_add1
     apply_sat_eq           p_half p < mask64 -> p_full p < mask64 -> pos_eq (apply_sat p m) (Rules.apply p m)
     apply_move_factored    apply_move = board2 ; board4 ; state_after
     enc_plain / enc_ep / enc_castle     the value of enc_move in the three shapes
     ep_flag p k f t / castle_flag k f t the two shape tests of Rules.apply; move_shape: case split
     repr_move_piece / repr_replace / repr_relocate      board steps of apply_move as square-map updates
     apply_at_plain / apply_at_ep / apply_at_castle      p_at (Rules.apply p mv) in the three shapes
     rights_match, finish                the rights / counters / e.p. target part, shared by the shapes
     ep_clause / rights_clause / pawns_clause / legal_pos_unfold / legal_pos_parts
                                         Rules.legal_pos split into its six conjuncts (use these, not
                                         "unfold legal_pos in H; apply ... in H": the kernel re-check of
                                         such a step at Qed time does not terminate in practice)
   MAIN THEOREMS (end of file)
     apply_refines_sat : forall s mv, WfState s -> rights_ok s -> move_ok s mv ->
        exists s', apply_move s (enc_move s mv) = Some s' /\ WfState s' /\
                   pos_eq (abs s') (apply_sat (abs s) mv)
     apply_refines : forall s mv, WfState s -> clock_ok s -> rights_ok s -> move_ok s mv ->
        exists s', apply_move s (enc_move s mv) = Some s' /\ WfState s' /\
                   pos_eq (abs s') (Rules.apply (abs s) mv)
     apply_refines_unique (the same for a given successor), absm_enc_move : move_ok s mv ->
        absm (enc_move s mv) = mv, legal_pos_rights_ok : LegalPos s -> rights_ok s *)
From WV Require Import Types Bits Attacks Board MoveEnc MoveGen Rules Abs Wf Encode.
From WV Require Import BitsProofs BoardProofs MoveEncProofs PosEq BoardAlg.
From Coq Require Import Lia ZifyBool ZifyN ZifyNat.
Ltac Zify.zify_post_hook ::= Z.div_mod_to_equations.
Open Scope N_scope.
Arguments N.add : simpl never.
Arguments N.sub : simpl never.
Arguments N.mul : simpl never.
Arguments N.land : simpl never.
Arguments N.lor : simpl never.
Arguments N.shiftl : simpl never.
Arguments N.shiftr : simpl never.
Arguments N.ldiff : simpl never.
Arguments N.div : simpl never.
Arguments N.modulo : simpl never.
Arguments Z.add : simpl never.
Arguments Z.sub : simpl never.
Arguments Z.mul : simpl never.

(* ====================================================================== *)
(* definitions                                                            *)
(* ====================================================================== *)

Definition rights_ok (s : state) : Prop := forall c side, castle_right s c side = true ->
  has (abs s) (king_home c) c King = true /\ has (abs s) (rook_home c side) c Rook = true.

(* side conditions on the rules-level move mv in state s, the mover being of kind k *)
Definition move_ok_k (s : state) (mv : move) (k : piece) : Prop :=
  let p := abs s in
  let c := st_turn s in
  let f := mv_from mv in
  let t := mv_to mv in
  p_at p f = Some (c, k) /\ f < 64 /\ t < 64 /\ f <> t /\ colour_at p t c = false /\
  (* promotion kinds: pawns only, Q R B N only *)
  (match mv_promo mv with Some pr => k = Pawn /\ is_promo_kind pr = true | None => True end) /\
  (k = Pawn ->
     (* the only long pawn move is the straight double step forward *)
     ((Z.abs (srank t - srank f) <= 1)%Z \/ (sfile t = sfile f /\ srank t = srank f + 2 * fwd c)%Z) /\
     (* en-passant shape: the pawn changes file onto an empty square *)
     (sfile t <> sfile f -> empty_at p t = true ->
        st_ep s = Some t /\ (srank t = srank f + fwd c)%Z /\
        has p (sq_of (sfile t) (srank f)) (opp c) Pawn = true /\ mv_promo mv = None)) /\
  (* castling shape: the king moves two files *)
  (k = King -> (Z.abs (sfile t - sfile f) = 2)%Z ->
     f = king_home c /\ srank t = back_rank c /\
     has p (rook_home c (sfile t =? 6)%Z) c Rook = true /\ empty_at p t = true /\
     empty_at p (sq_of (if (sfile t =? 6)%Z then 5 else 3) (back_rank c)) = true).

Definition move_ok (s : state) (mv : move) : Prop := exists k, move_ok_k s mv k.

(* Rules.apply with saturating counters *)
Definition resets_clock (p : pos) (m : move) : bool :=
  let k := match p_at p (mv_from m) with Some (_, k) => k | None => PNone end in
  piece_eqb k Pawn || negb (empty_at p (mv_to m)).

Definition apply_sat (p : pos) (m : move) : pos :=
  let r := Rules.apply p m in
  mkPos (p_at r) (p_turn r) (p_right r) (p_ep r)
        (if resets_clock p m then 0 else sat_add1 (p_half p))
        (match p_turn p with Black => sat_add1 (p_full p) | White => p_full p end).

Lemma apply_sat_eq : forall p m, p_half p < mask64 -> p_full p < mask64 ->
  pos_eq (apply_sat p m) (Rules.apply p m).
Proof.
  intros p m Hh Hf. unfold pos_eq, apply_sat, resets_clock, Rules.apply.
  cbn [p_at p_turn p_right p_ep p_half p_full].
  repeat split.
  - destruct (p_at p (mv_from m)) as [[c k]|]; cbn [piece_eqb];
      destruct (piece_eqb _ Pawn); cbn [orb andb];
      destruct (empty_at p (mv_to m)); cbn [orb andb negb]; try reflexivity;
      unfold sat_add1; destruct (N.eqb_spec (p_half p) mask64); try reflexivity; lia.
  - destruct (p_turn p); [reflexivity|].
    unfold sat_add1; destruct (N.eqb_spec (p_full p) mask64); try reflexivity; lia.
Qed.

(* ====================================================================== *)
(* apply_move, factored                                                   *)
(* ====================================================================== *)

Definition board2 (s : state) (p : piece) (o d : N) (cap : option piece) (ep : bool) : option board :=
  let b := st_board s in
  let c := st_turn s in
  let b1 := pset_bit (pset_bit b c p o false) c p d true in
  if ep then
    match st_ep s with
    | None => None
    | Some t => match offset t 0 (backward_dr c) with
                | None => None
                | Some cs => Some (pset_bit b1 (opp c) Pawn cs false)
                end
    end
  else match cap with
       | Some cp => Some (pset_bit b1 (opp c) cp d false)
       | None => Some b1
       end.

Definition board4 (c : color) (p : piece) (o d : N) (pro : option piece) (cside : option bool)
                  (b2 : board) : board :=
  let b3 := match pro with
            | Some pr => pset_bit (pset_bit b2 c p d false) c pr d true
            | None => b2 end in
  let r := rank_of o in
  if match cside with Some k => Bool.eqb k true | None => false end then
    pset_bit (pset_bit b3 c Rook (mk_square r 7) false) c Rook (mk_square r 5) true
  else if match cside with Some k => Bool.eqb k false | None => false end then
    pset_bit (pset_bit b3 c Rook (mk_square r 0) false) c Rook (mk_square r 3) true
  else b3.

Definition state_after (s : state) (b4 : board) (p : piece) (d : N) (iscap dbl : bool) : state :=
  let c := st_turn s in
  let kingmove := piece_eqb p King in
  let wk0 := if kingmove && is_white c then false else st_wk s in
  let wq0 := if kingmove && is_white c then false else st_wq s in
  let bk0 := if kingmove && negb (is_white c) then false else st_bk s in
  let bq0 := if kingmove && negb (is_white c) then false else st_bq s in
  mkState b4 (opp c)
          (wk0 && test (pocc b4 White Rook) 7)
          (wq0 && test (pocc b4 White Rook) 0)
          (bk0 && test (pocc b4 Black Rook) 63)
          (bq0 && test (pocc b4 Black Rook) 56)
          (if dbl then offset d 0 (backward_dr c) else None)
          (if iscap || piece_eqb p Pawn then 0 else sat_add1 (st_half s))
          (match c with Black => sat_add1 (st_full s) | White => st_full s end).

Lemma apply_move_factored : forall s m,
  apply_move s m =
  match board2 s (m_piece m) (m_origin m) (m_dest m) (m_capture m) (m_is_ep m) with
  | None => None
  | Some b2 =>
      Some (state_after s
              (board4 (st_turn s) (m_piece m) (m_origin m) (m_dest m) (m_promotion m) (m_castle_side m) b2)
              (m_piece m) (m_dest m) (m_is_capture m) (m_is_double m))
  end.
Proof. reflexivity. Qed.

(* ====================================================================== *)
(* geometry                                                               *)
(* ====================================================================== *)

Lemma sfile_file : forall s, sfile s = Z.of_N (file_of s).
Proof. reflexivity. Qed.
Lemma srank_rank : forall s, srank s = Z.of_N (rank_of s).
Proof. reflexivity. Qed.

Lemma sq_of_coords : forall s, s < 64 -> sq_of (sfile s) (srank s) = s.
Proof. intros s Hs. unfold sq_of, sfile, srank. lia. Qed.

Lemma sq_eq_coords : forall a b, sfile a = sfile b -> srank a = srank b -> a = b.
Proof. intros a b. unfold sfile, srank. lia. Qed.

Lemma abs_dist_Z : forall a b, Z.of_N (abs_dist a b) = Z.abs (Z.of_N b - Z.of_N a).
Proof. intros a b. unfold abs_dist. destruct (N.ltb_spec a b); lia. Qed.

Lemma king_origin_home : forall c, king_origin c = king_home c.
Proof. intros [|]; reflexivity. Qed.

Lemma castle_dest_sq : forall c side, castle_dest c side = sq_of (if side then 6 else 2) (back_rank c).
Proof. intros [|] [|]; reflexivity. Qed.

(* ====================================================================== *)
(* the value of enc_move in the three shapes                              *)
(* ====================================================================== *)

Lemma kind_on_p_at : forall s x c k, p_at (abs s) x = Some (c, k) -> kind_on (st_board s) x = Some k.
Proof. intros s x c k H. unfold kind_on. cbn [abs p_at] in H. rewrite H. reflexivity. Qed.

Lemma kind_on_empty : forall s x,
  match kind_on (st_board s) x with None => true | Some _ => false end = empty_at (abs s) x.
Proof.
  intros s x. unfold kind_on, empty_at. cbn [abs p_at].
  destruct (piece_at (st_board s) x) as [[c k]|]; reflexivity.
Qed.

Lemma build_nopromo : forall c p o d cap, set_capture (by_moving c p o d) cap = build c p o d cap None.
Proof.
  intros. unfold build, set_promotion. cbn [opt_piece_to_N]. rewrite store_zero. reflexivity.
Qed.

Lemma file_eqb_Z : forall a b, (file_of a =? file_of b) = (sfile a =? sfile b)%Z.
Proof. intros a b. unfold sfile, file_of. lia. Qed.

Definition ep_flag (p : pos) (k : piece) (f t : N) : bool :=
  piece_eqb k Pawn && negb (sfile f =? sfile t)%Z && empty_at p t.
Definition castle_flag (k : piece) (f t : N) : bool :=
  piece_eqb k King && (Z.abs (sfile t - sfile f) =? 2)%Z.

Lemma enc_plain : forall s mv k, move_ok_k s mv k ->
  ep_flag (abs s) k (mv_from mv) (mv_to mv) = false -> castle_flag k (mv_from mv) (mv_to mv) = false ->
  enc_move s mv = build (st_turn s) k (mv_from mv) (mv_to mv) (kind_on (st_board s) (mv_to mv)) (mv_promo mv).
Proof.
  intros s mv k (Hf & Hf64 & Ht64 & Hne & Hown & Hpro & Hpawn & Hking) Hep Hca.
  unfold enc_move. rewrite (kind_on_p_at _ _ _ _ Hf).
  unfold ep_flag in Hep. unfold castle_flag in Hca.
  assert (Hnp : k <> Pawn -> mv_promo mv = None).
  { intros Hk. destruct (mv_promo mv) as [pr|]; [|reflexivity]. exfalso. apply Hk. apply Hpro. }
  destruct k.
  - (* PNone *) cbn [abs p_at] in Hf. apply piece_at_some_imp in Hf. exfalso. apply (proj1 Hf). reflexivity.
  - (* Pawn *)
    rewrite kind_on_empty, file_eqb_Z.
    change (piece_eqb Pawn Pawn) with true in Hep. cbn [andb] in Hep. rewrite Hep. reflexivity.
  - rewrite Hnp by discriminate. apply build_nopromo.
  - rewrite Hnp by discriminate. apply build_nopromo.
  - rewrite Hnp by discriminate. apply build_nopromo.
  - rewrite Hnp by discriminate. apply build_nopromo.
  - (* King *)
    change (piece_eqb King King) with true in Hca. cbn [andb] in Hca.
    rewrite Hnp by discriminate.
    replace ((file_of (mv_from mv) + 2 =? file_of (mv_to mv)) && (rank_of (mv_from mv) =? rank_of (mv_to mv)))
      with false by (unfold sfile, file_of in *; lia).
    replace ((file_of (mv_to mv) + 2 =? file_of (mv_from mv)) && (rank_of (mv_from mv) =? rank_of (mv_to mv)))
      with false by (unfold sfile, file_of in *; lia).
    apply build_nopromo.
Qed.

Lemma enc_ep : forall s mv, move_ok_k s mv Pawn ->
  ep_flag (abs s) Pawn (mv_from mv) (mv_to mv) = true ->
  enc_move s mv = by_en_passant (st_turn s) Pawn (mv_from mv) (mv_to mv).
Proof.
  intros s mv (Hf & _) Hep. unfold enc_move. rewrite (kind_on_p_at _ _ _ _ Hf).
  rewrite kind_on_empty, file_eqb_Z. unfold ep_flag in Hep.
  change (piece_eqb Pawn Pawn) with true in Hep. cbn [andb] in Hep. rewrite Hep. reflexivity.
Qed.

Lemma enc_castle : forall s mv, move_ok_k s mv King ->
  castle_flag King (mv_from mv) (mv_to mv) = true ->
  enc_move s mv = by_castling (st_turn s) (sfile (mv_to mv) =? 6)%Z /\
  mv_from mv = king_origin (st_turn s) /\
  mv_to mv = castle_dest (st_turn s) (sfile (mv_to mv) =? 6)%Z.
Proof.
  intros s mv (Hf & Hf64 & Ht64 & Hne & Hown & Hpro & Hpawn & Hking) Hca.
  unfold castle_flag in Hca. change (piece_eqb King King) with true in Hca. cbn [andb] in Hca.
  apply Z.eqb_eq in Hca. destruct (Hking eq_refl Hca) as (Hhome & Hrank & _).
  unfold enc_move. rewrite (kind_on_p_at _ _ _ _ Hf).
  rewrite king_origin_home, castle_dest_sq.
  assert (Hf4 : sfile (mv_from mv) = 4%Z /\ srank (mv_from mv) = back_rank (st_turn s)).
  { rewrite Hhome. destruct (st_turn s); split; reflexivity. }
  destruct Hf4 as [Hf4 Hfr].
  destruct (Z.eqb_spec (sfile (mv_to mv)) 6) as [H6|H6].
  - replace ((file_of (mv_from mv) + 2 =? file_of (mv_to mv)) && (rank_of (mv_from mv) =? rank_of (mv_to mv)))
      with true by (unfold sfile, srank, file_of, rank_of in *; lia).
    repeat split; [exact Hhome|].
    apply sq_eq_coords; destruct (st_turn s); cbn [back_rank] in *;
      unfold sfile, srank, sq_of in *; lia.
  - replace ((file_of (mv_from mv) + 2 =? file_of (mv_to mv)) && (rank_of (mv_from mv) =? rank_of (mv_to mv)))
      with false by (unfold sfile, srank, file_of, rank_of in *; lia).
    replace ((file_of (mv_to mv) + 2 =? file_of (mv_from mv)) && (rank_of (mv_from mv) =? rank_of (mv_to mv)))
      with true by (unfold sfile, srank, file_of, rank_of in *; lia).
    repeat split; [exact Hhome|].
    apply sq_eq_coords; destruct (st_turn s); cbn [back_rank] in *;
      unfold sfile, srank, sq_of in *; lia.
Qed.

(* ====================================================================== *)
(* boards                                                                 *)
(* ====================================================================== *)

Lemma opp_of_neq : forall c c', c' <> c -> c' = opp c.
Proof. intros [|] [|] H; try reflexivity; exfalso; apply H; reflexivity. Qed.

Lemma slot_opp_neq : forall (c : color) (k x : piece), (c, k) <> (opp c, x).
Proof. intros [|] k x H; discriminate H. Qed.

(* the mover goes from f to t, the enemy occupant of t (if any) is removed, in the model's order *)
Lemma repr_move_piece : forall b c k f t, WfBoard b -> piece_at b f = Some (c, k) -> t < 64 -> f <> t ->
  (forall k', piece_at b t <> Some (c, k')) ->
  Repr (match kind_on b t with
        | Some x => pset_bit (pset_bit (pset_bit b c k f false) c k t true) (opp c) x t false
        | None => pset_bit (pset_bit b c k f false) c k t true
        end)
       (upd (upd (piece_at b) f None) t (Some (c, k))).
Proof.
  intros b c k f t Hwf Hf Ht Hne Hown.
  pose proof (piece_at_some_imp _ _ _ _ Hf) as [Hk _].
  pose proof (repr_clear b _ c k f (repr_self b Hwf) Hf) as R1.
  assert (Etf : (t =? f) = false) by (apply N.eqb_neq; intros E; apply Hne; symmetry; exact E).
  unfold kind_on. destruct (piece_at b t) as [[c' x]|] eqn:Et.
  - assert (Hc' : c' = opp c).
    { apply opp_of_neq. intros ->. exact (Hown x eq_refl). }
    subst c'. rewrite (pset_bit_comm _ c k t true (opp c) x t false (slot_opp_neq c k x)).
    assert (H1 : upd (piece_at b) f None t = Some (opp c, x)) by (unfold upd; rewrite Etf; exact Et).
    pose proof (repr_clear _ _ (opp c) x t R1 H1) as R2.
    assert (H2 : upd (upd (piece_at b) f None) t None t = None) by (unfold upd; rewrite N.eqb_refl; reflexivity).
    pose proof (repr_set _ _ c k t R2 H2 Ht Hk) as R3.
    apply (repr_ext _ _ _ R3). intros y. unfold upd. destruct (y =? t); reflexivity.
  - assert (H1 : upd (piece_at b) f None t = None) by (unfold upd; rewrite Etf; exact Et).
    exact (repr_set _ _ c k t R1 H1 Ht Hk).
Qed.

Lemma repr_replace : forall b g c k pr t, Repr b g -> g t = Some (c, k) -> t < 64 -> pr <> PNone ->
  Repr (pset_bit (pset_bit b c k t false) c pr t true) (upd g t (Some (c, pr))).
Proof.
  intros b g c k pr t R Hg Ht Hpr.
  pose proof (repr_clear _ _ c k t R Hg) as R1.
  assert (H1 : upd g t None t = None) by (unfold upd; rewrite N.eqb_refl; reflexivity).
  pose proof (repr_set _ _ c pr t R1 H1 Ht Hpr) as R2.
  apply (repr_ext _ _ _ R2). intros y. unfold upd. destruct (y =? t); reflexivity.
Qed.

Lemma repr_relocate : forall b g c k a a', Repr b g -> g a = Some (c, k) -> g a' = None -> a' < 64 ->
  Repr (pset_bit (pset_bit b c k a false) c k a' true) (upd (upd g a None) a' (Some (c, k))).
Proof.
  intros b g c k a a' R Ha Ha' Hlt.
  pose proof (repr_clear _ _ c k a R Ha) as R1.
  assert (Hk : k <> PNone).
  { destruct R as [Hw Hg]. rewrite <- Hg in Ha. apply piece_at_some_imp in Ha. apply Ha. }
  assert (H1 : upd g a None a' = None).
  { unfold upd. destruct (a' =? a); [reflexivity | exact Ha']. }
  exact (repr_set _ _ c k a' R1 H1 Hlt Hk).
Qed.

(* ====================================================================== *)
(* the placement after Rules.apply, in the three shapes                   *)
(* ====================================================================== *)

Definition placed_kind (k : piece) (pr : option piece) : piece :=
  match pr with Some k' => k' | None => k end.

Lemma apply_at_plain : forall p mv c0 k x, p_at p (mv_from mv) = Some (c0, k) ->
  ep_flag p k (mv_from mv) (mv_to mv) = false -> castle_flag k (mv_from mv) (mv_to mv) = false ->
  p_at (Rules.apply p mv) x =
  upd (upd (p_at p) (mv_from mv) None) (mv_to mv) (Some (p_turn p, placed_kind k (mv_promo mv))) x.
Proof.
  intros p mv c0 k x Hf Hep Hca. unfold Rules.apply. cbn [p_at]. rewrite Hf.
  unfold ep_flag in Hep. unfold castle_flag in Hca. rewrite Hep, Hca. cbn [andb].
  unfold upd, placed_kind. reflexivity.
Qed.

Lemma apply_at_ep : forall p mv c0 x, p_at p (mv_from mv) = Some (c0, Pawn) ->
  ep_flag p Pawn (mv_from mv) (mv_to mv) = true ->
  p_at (Rules.apply p mv) x =
  if x =? mv_to mv then Some (p_turn p, placed_kind Pawn (mv_promo mv))
  else if x =? mv_from mv then None
  else if x =? sq_of (sfile (mv_to mv)) (srank (mv_from mv)) then None
  else p_at p x.
Proof.
  intros p mv c0 x Hf Hep. unfold Rules.apply. cbn [p_at]. rewrite Hf.
  unfold ep_flag in Hep. rewrite Hep.
  change (piece_eqb Pawn King) with false. cbn [andb]. reflexivity.
Qed.

Lemma apply_at_castle : forall p mv c0 x, p_at p (mv_from mv) = Some (c0, King) ->
  castle_flag King (mv_from mv) (mv_to mv) = true ->
  p_at (Rules.apply p mv) x =
  if x =? mv_to mv then Some (p_turn p, placed_kind King (mv_promo mv))
  else if x =? mv_from mv then None
  else if x =? rook_home (p_turn p) (sfile (mv_to mv) =? 6)%Z then None
  else if x =? sq_of (if (sfile (mv_to mv) =? 6)%Z then 5 else 3) (back_rank (p_turn p)) then Some (p_turn p, Rook)
  else p_at p x.
Proof.
  intros p mv c0 x Hf Hca. unfold Rules.apply. cbn [p_at]. rewrite Hf.
  unfold castle_flag in Hca. rewrite Hca.
  change (piece_eqb King Pawn) with false. cbn [andb]. reflexivity.
Qed.


(* ====================================================================== *)
(* castling rights                                                        *)
(* ====================================================================== *)

Lemma has_p_at : forall p s c k, has p s c k = true -> p_at p s = Some (c, k).
Proof. intros p s c k H. apply has_iff. exact H. Qed.

Lemma corner_facts : forall c c0 side side', c <> c0 ->
  (rook_home c0 side =? rook_home c side') = false /\
  (rook_home c0 side =? sq_of (if side' then 5 else 3) (back_rank c)) = false.
Proof.
  intros [|] [|] [|] [|] H; try (exfalso; apply H; reflexivity); split; reflexivity.
Qed.

Lemma rights_match : forall s mv k b4, rights_ok s -> move_ok_k s mv k ->
  Repr b4 (p_at (Rules.apply (abs s) mv)) ->
  forall c0 side,
  (if piece_eqb k King && color_eqb (st_turn s) c0 then false else castle_right s c0 side)
    && test (pocc b4 c0 Rook) (rook_home c0 side)
  = p_right (Rules.apply (abs s) mv) c0 side.
Proof.
  intros s mv k b4 Hro (Hf & Hf64 & Ht64 & Hne & Hown & Hpro & Hpawn & Hking) R c0 side.
  rewrite (test_repr_b b4 _ c0 Rook (rook_home c0 side) R) by discriminate.
  set (rh := rook_home c0 side).
  unfold Rules.apply at 2. cbn [p_right]. rewrite Hf.
  change (p_turn (abs s)) with (st_turn s). change (p_right (abs s)) with (castle_right s).
  destruct (castle_right s c0 side) eqn:Er;
    [|destruct (piece_eqb k King && color_eqb (st_turn s) c0); reflexivity].
  destruct (Hro c0 side Er) as [Hkh Hrh]. apply has_p_at in Hkh. apply has_p_at in Hrh. fold rh in Hrh.
  destruct (piece_eqb k King && color_eqb (st_turn s) c0) eqn:Ekm; [reflexivity|].
  cbn [andb negb].
  (* the new occupant of the corner *)
  unfold Rules.apply. cbn [p_at]. rewrite Hf. change (p_turn (abs s)) with (st_turn s).
  fold rh. rewrite (N.eqb_sym (mv_from mv) rh), (N.eqb_sym (mv_to mv) rh).
  destruct (N.eqb_spec rh (mv_to mv)) as [Et|Et].
  { (* something landed on the corner: it is an enemy piece *)
    rewrite andb_false_r.
    assert (Hc : color_eqb c0 (st_turn s) = false).
    { destruct (color_eqb c0 (st_turn s)) eqn:E; [|reflexivity]. apply color_eqb_eq in E. subst c0.
      unfold colour_at in Hown. rewrite <- Et, Hrh, color_eqb_refl in Hown. discriminate Hown. }
    unfold slot_eqb. rewrite Hc. reflexivity. }
  destruct (N.eqb_spec rh (mv_from mv)) as [Ef|Ef]; [reflexivity|].
  cbn [negb andb].
  (* not the e.p. victim *)
  assert (Hnv : (piece_eqb k Pawn && negb (sfile (mv_from mv) =? sfile (mv_to mv))%Z && empty_at (abs s) (mv_to mv)
                 && (rh =? sq_of (sfile (mv_to mv)) (srank (mv_from mv)))) = false).
  { destruct (piece_eqb k Pawn) eqn:Ep; [|reflexivity]. apply piece_eqb_eq in Ep.
    destruct (negb (sfile (mv_from mv) =? sfile (mv_to mv))%Z) eqn:Efl; [|reflexivity].
    destruct (empty_at (abs s) (mv_to mv)) eqn:Eem; [|reflexivity].
    destruct (N.eqb_spec rh (sq_of (sfile (mv_to mv)) (srank (mv_from mv)))) as [Ev|Ev]; [|reflexivity].
    exfalso. destruct (Hpawn Ep) as [_ Hep].
    assert (Hfl : sfile (mv_to mv) <> sfile (mv_from mv)).
    { apply negb_true_iff in Efl. apply Z.eqb_neq in Efl. intros E. apply Efl. symmetry. exact E. }
    destruct (Hep Hfl eq_refl) as (_ & _ & Hv & _). apply has_p_at in Hv. rewrite <- Ev, Hrh in Hv.
    discriminate Hv. }
  rewrite Hnv.
  (* not touched by a castling move of the other side *)
  destruct (piece_eqb k King && (Z.abs (sfile (mv_to mv) - sfile (mv_from mv)) =? 2)%Z) eqn:Eca.
  - assert (Hcc : st_turn s <> c0).
    { intros E. apply andb_true_iff in Eca. destruct Eca as [Ek _]. rewrite Ek in Ekm.
      rewrite E, color_eqb_refl in Ekm. discriminate Ekm. }
    destruct (corner_facts (st_turn s) c0 side (sfile (mv_to mv) =? 6)%Z Hcc) as [E1 E2].
    fold rh in E1, E2. rewrite E1, E2, Hrh. apply slot_eqb_refl.
  - rewrite Hrh. apply slot_eqb_refl.
Qed.


Lemma sat_add1_lt : forall n, n < two64 -> sat_add1 n < two64.
Proof.
  intros n H. unfold sat_add1. destruct (N.eqb_spec n mask64) as [E|E]; [exact H|].
  unfold two64, mask64 in *. lia.
Qed.

(* the en-passant target after a double step *)
Lemma double_target : forall c f t, f < 64 -> t < 64 ->
  sfile t = sfile f -> (srank t = srank f + 2 * fwd c)%Z ->
  offset t 0 (backward_dr c) = Some (sq_of (sfile f) (srank f + fwd c)).
Proof.
  intros c f t Hf Ht Hfile Hrank. apply offset_spec; [exact Ht|].
  unfold sfile, srank, sq_of in *. destruct c; cbn [fwd backward_dr] in *; lia.
Qed.

Lemma finish : forall s mv k b4 iscap dbl,
  WfState s -> rights_ok s -> move_ok_k s mv k ->
  Repr b4 (p_at (Rules.apply (abs s) mv)) ->
  dbl = piece_eqb k Pawn && (1 <? abs_dist (rank_of (mv_from mv)) (rank_of (mv_to mv))) ->
  iscap || piece_eqb k Pawn = piece_eqb k Pawn || negb (empty_at (abs s) (mv_to mv)) ->
  WfState (state_after s b4 k (mv_to mv) iscap dbl) /\
  pos_eq (abs (state_after s b4 k (mv_to mv) iscap dbl)) (apply_sat (abs s) mv).
Proof.
  intros s mv k b4 iscap dbl Hwf Hro Hok R Hdbl Hcap.
  pose proof Hok as (Hf & Hf64 & Ht64 & Hne & Hown & Hpro & Hpawn & Hking).
  unfold WfState, wf_stateb in Hwf. rewrite !andb_true_iff in Hwf.
  destruct Hwf as [[[Hwb Hwep] Hwh] Hwfl]. apply N.ltb_lt in Hwh. apply N.ltb_lt in Hwfl.
  (* the double-step flag against the rules *)
  assert (Hd : (if dbl then offset (mv_to mv) 0 (backward_dr (st_turn s)) else None) =
               p_ep (Rules.apply (abs s) mv)).
  { unfold Rules.apply. cbn [p_ep]. rewrite Hf. change (p_turn (abs s)) with (st_turn s).
    subst dbl. destruct (piece_eqb k Pawn) eqn:Ep; [|reflexivity]. cbn [andb].
    apply piece_eqb_eq in Ep. destruct (Hpawn Ep) as [Hlong _].
    pose proof (abs_dist_Z (rank_of (mv_from mv)) (rank_of (mv_to mv))) as Had.
    rewrite <- !srank_rank in Had.
    destruct (N.ltb_spec 1 (abs_dist (rank_of (mv_from mv)) (rank_of (mv_to mv)))) as [Hl|Hl].
    - destruct Hlong as [Hlong|[Hfile Hrank]]; [lia|].
      replace (Z.abs (srank (mv_to mv) - srank (mv_from mv)) =? 2)%Z with true
        by (destruct (st_turn s); cbn [fwd] in Hrank; lia).
      apply double_target; assumption.
    - replace (Z.abs (srank (mv_to mv) - srank (mv_from mv)) =? 2)%Z with false by lia.
      reflexivity. }
  split.
  - (* WfState *)
    unfold WfState, wf_stateb, state_after.
    cbn [st_board st_ep st_half st_full]. rewrite !andb_true_iff. repeat split.
    + exact (proj1 R).
    + destruct dbl; [|reflexivity].
      destruct (offset (mv_to mv) 0 (backward_dr (st_turn s))) as [e|] eqn:Eo; [|reflexivity].
      apply N.ltb_lt. exact (offset_lt _ _ _ _ Ht64 Eo).
    + apply N.ltb_lt. destruct (iscap || piece_eqb k Pawn); [reflexivity | apply sat_add1_lt; exact Hwh].
    + apply N.ltb_lt. destruct (st_turn s); [exact Hwfl | apply sat_add1_lt; exact Hwfl].
  - unfold pos_eq, apply_sat. cbn [p_at p_turn p_right p_ep p_half p_full].
    split; [|split; [|split; [|split; [|split]]]].
    + intros x. cbn [abs p_at state_after st_board]. apply (proj2 R).
    + reflexivity.
    + intros c0 side. rewrite <- (rights_match s mv k b4 Hro Hok R c0 side).
      destruct c0, side; cbn [abs p_right castle_right state_after st_wk st_wq st_bk st_bq rook_home];
        destruct (st_turn s); destruct (piece_eqb k King); reflexivity.
    + cbn [abs p_ep state_after st_ep]. exact Hd.
    + cbn [abs p_half state_after st_half]. unfold resets_clock. rewrite Hf, Hcap. reflexivity.
    + cbn [abs p_full p_turn state_after st_full]. reflexivity.
Qed.


Lemma not_own_of_colour_at : forall s t c, colour_at (abs s) t c = false ->
  forall k', piece_at (st_board s) t <> Some (c, k').
Proof.
  intros s t c H k' E. unfold colour_at in H. cbn [abs p_at] in H. rewrite E, color_eqb_refl in H.
  discriminate H.
Qed.

Lemma move_ok_kind : forall s mv k, move_ok_k s mv k -> k <> PNone.
Proof.
  intros s mv k (Hf & _). cbn [abs p_at] in Hf. apply piece_at_some_imp in Hf. apply Hf.
Qed.

Lemma wf_state_board : forall s, WfState s -> WfBoard (st_board s).
Proof.
  intros s H. unfold WfState, wf_stateb in H. rewrite !andb_true_iff in H. apply H.
Qed.

Lemma kind_on_not_none : forall b t, kind_on b t <> Some PNone.
Proof.
  intros b t. unfold kind_on. destruct (piece_at b t) as [[c k]|] eqn:E; [|discriminate].
  apply piece_at_some_imp in E. intros H. injection H as H. apply (proj1 E). exact H.
Qed.

Lemma promo_not_none : forall pr, is_promo_kind pr = true -> pr <> PNone.
Proof. intros pr H ->. discriminate H. Qed.

(* ---------------------------------------------------------------------- *)
(* ordinary moves, captures, promotions                                   *)
(* ---------------------------------------------------------------------- *)

Lemma refines_plain : forall s mv k, WfState s -> rights_ok s -> move_ok_k s mv k ->
  ep_flag (abs s) k (mv_from mv) (mv_to mv) = false -> castle_flag k (mv_from mv) (mv_to mv) = false ->
  exists s', apply_move s (enc_move s mv) = Some s' /\ WfState s' /\
             pos_eq (abs s') (apply_sat (abs s) mv).
Proof.
  intros s mv k Hwf Hro Hok Hep Hca.
  pose proof Hok as (Hf & Hf64 & Ht64 & Hne & Hown & Hpro & Hpawn & Hking).
  pose proof (move_ok_kind _ _ _ Hok) as Hk.
  rewrite (enc_plain s mv k Hok Hep Hca), apply_move_factored.
  assert (Hpn : mv_promo mv <> Some PNone).
  { destruct (mv_promo mv) as [pr|]; [|discriminate]. intros E. injection E as ->.
    destruct Hpro as [_ Hpro]. discriminate Hpro. }
  destruct (roundtrip (st_turn s) k (mv_from mv) (mv_to mv) (kind_on (st_board s) (mv_to mv))
              (mv_promo mv) Hk Hf64 Ht64 (kind_on_not_none _ _) Hpn)
    as (E1 & _ & E3 & E4 & E5 & E6 & E7 & E8 & E9 & _).
  unfold m_is_capture. rewrite E1, E3, E4, E5, E6, E7, E8, E9. clear E1 E3 E4 E5 E6 E7 E8 E9.
  set (b := st_board s). set (c := st_turn s). set (f := mv_from mv). set (t := mv_to mv).
  pose proof (repr_move_piece b c k f t (wf_state_board s Hwf) Hf Ht64 Hne
                (not_own_of_colour_at s t c Hown)) as R2.
  set (b2 := match kind_on b t with
             | Some x => pset_bit (pset_bit (pset_bit b c k f false) c k t true) (opp c) x t false
             | None => pset_bit (pset_bit b c k f false) c k t true end) in R2.
  assert (Eb2 : board2 s k f t (kind_on b t) false = Some b2).
  { unfold board2, b2. fold b c. destruct (kind_on b t); reflexivity. }
  rewrite Eb2.
  assert (R4 : Repr (board4 c k f t (mv_promo mv) None b2) (p_at (Rules.apply (abs s) mv))).
  { unfold board4. cbv beta iota zeta.
    destruct (mv_promo mv) as [pr|] eqn:Epr.
    - destruct Hpro as [_ Hpro].
      assert (G : upd (upd (piece_at b) f None) t (Some (c, k)) t = Some (c, k))
        by (unfold upd; rewrite N.eqb_refl; reflexivity).
      pose proof (repr_replace _ _ c k pr t R2 G Ht64 (promo_not_none pr Hpro)) as R3.
      apply (repr_ext _ _ _ R3). intros x.
      rewrite (apply_at_plain (abs s) mv c k x Hf Hep Hca). fold f t. rewrite Epr.
      unfold upd, placed_kind. destruct (x =? t); reflexivity.
    - apply (repr_ext _ _ _ R2). intros x.
      rewrite (apply_at_plain (abs s) mv c k x Hf Hep Hca). fold f t. rewrite Epr. reflexivity. }
  eexists. split; [reflexivity|].
  apply (finish s mv k _ _ _ Hwf Hro Hok R4); [reflexivity|].
  fold b t. rewrite <- kind_on_empty. fold b. destruct (kind_on b t); destruct (piece_eqb k Pawn); reflexivity.
Qed.


Lemma ep_is_double : forall c o d,
  m_is_double (by_en_passant c Pawn o d) = piece_eqb Pawn Pawn && (1 <? abs_dist (rank_of o) (rank_of d)).
Proof.
  intros c o d. unfold m_is_double, by_en_passant, set_capture.
  rewrite bit_store_other by reflexivity. rewrite bit_set_bit_other by reflexivity.
  rewrite <- build_by_moving. apply build_is_double.
Qed.

Lemma ep_victim_sq : forall c f t, f < 64 -> t < 64 -> (srank t = srank f + fwd c)%Z ->
  offset t 0 (backward_dr c) = Some (sq_of (sfile t) (srank f)).
Proof.
  intros c f t Hf Ht Hrank. apply offset_spec; [exact Ht|].
  unfold sfile, srank, sq_of in *. destruct c; cbn [fwd backward_dr] in *; lia.
Qed.

Lemma refines_ep : forall s mv, WfState s -> rights_ok s -> move_ok_k s mv Pawn ->
  ep_flag (abs s) Pawn (mv_from mv) (mv_to mv) = true ->
  exists s', apply_move s (enc_move s mv) = Some s' /\ WfState s' /\
             pos_eq (abs s') (apply_sat (abs s) mv).
Proof.
  intros s mv Hwf Hro Hok Hep.
  pose proof Hok as (Hf & Hf64 & Ht64 & Hne & Hown & Hpro & Hpawn & Hking).
  rewrite (enc_ep s mv Hok Hep), apply_move_factored.
  destruct (en_passant_fields (st_turn s) (mv_from mv) (mv_to mv) Hf64 Ht64)
    as (E1 & _ & E3 & E4 & E5 & E6 & E7 & E8).
  unfold m_is_capture. rewrite E1, E3, E4, E5, E6, E7, E8, ep_is_double. clear E1 E3 E4 E5 E6 E7 E8.
  pose proof Hep as Hep'. unfold ep_flag in Hep'. change (piece_eqb Pawn Pawn) with true in Hep'.
  cbn [andb] in Hep'. apply andb_true_iff in Hep'. destruct Hep' as [Hfl Hem].
  apply negb_true_iff in Hfl. apply Z.eqb_neq in Hfl.
  assert (Hfl' : sfile (mv_to mv) <> sfile (mv_from mv)) by (intros E; apply Hfl; symmetry; exact E).
  destruct (proj2 (Hpawn eq_refl) Hfl' Hem) as (Hst & Hrank & Hvic & Hnp).
  set (b := st_board s) in *. set (c := st_turn s) in *. set (f := mv_from mv) in *. set (t := mv_to mv) in *.
  set (cs := sq_of (sfile t) (srank f)) in *.
  assert (Hkt : kind_on b t = None).
  { pose proof (kind_on_empty s t) as E. fold b in E. rewrite Hem in E.
    destruct (kind_on b t); [discriminate E | reflexivity]. }
  pose proof (repr_move_piece b c Pawn f t (wf_state_board s Hwf) Hf Ht64 Hne
                (not_own_of_colour_at s t c Hown)) as R1.
  rewrite Hkt in R1.
  assert (Ecs_t : (cs =? t) = false).
  { apply N.eqb_neq. intros E. assert (Hr : srank cs = srank t) by (rewrite E; reflexivity).
    unfold cs, srank, sfile, sq_of in Hr, Hrank. destruct c; cbn [fwd] in Hrank; lia. }
  assert (Ecs_f : (cs =? f) = false).
  { apply N.eqb_neq. intros E. assert (Hr : sfile cs = sfile f) by (rewrite E; reflexivity).
    unfold cs, srank, sfile, sq_of in Hr, Hfl'. lia. }
  assert (G : upd (upd (piece_at b) f None) t (Some (c, Pawn)) cs = Some (opp c, Pawn)).
  { unfold upd. rewrite Ecs_t, Ecs_f. apply has_p_at in Hvic. exact Hvic. }
  pose proof (repr_clear _ _ (opp c) Pawn cs R1 G) as R2.
  assert (Eb2 : board2 s Pawn f t (Some Pawn) true =
                Some (pset_bit (pset_bit (pset_bit b c Pawn f false) c Pawn t true) (opp c) Pawn cs false)).
  { unfold board2. fold b c. rewrite Hst, (ep_victim_sq c f t Hf64 Ht64 Hrank). reflexivity. }
  rewrite Eb2.
  assert (R4 : Repr (board4 c Pawn f t None None
                       (pset_bit (pset_bit (pset_bit b c Pawn f false) c Pawn t true) (opp c) Pawn cs false))
                    (p_at (Rules.apply (abs s) mv))).
  { unfold board4. cbv beta iota zeta. apply (repr_ext _ _ _ R2). intros x.
    rewrite (apply_at_ep (abs s) mv c x Hf Hep). fold f t cs. rewrite Hnp. unfold upd, placed_kind.
    change (p_turn (abs s)) with c. change (p_at (abs s)) with (piece_at b).
    destruct (N.eqb_spec x cs) as [->|Hx].
    - rewrite Ecs_t, Ecs_f. reflexivity.
    - reflexivity. }
  eexists. split; [reflexivity|].
  apply (finish s mv Pawn _ _ _ Hwf Hro Hok R4); reflexivity.
Qed.


Lemma castle_squares : forall c side,
  let f := king_home c in
  let t := castle_dest c side in
  let rh := rook_home c side in
  let rt := sq_of (if side then 5 else 3) (back_rank c) in
  (mk_square (rank_of f) (if side then 7 else 0) = rh) /\
  (mk_square (rank_of f) (if side then 5 else 3) = rt) /\
  rt < 64 /\
  (rh =? t) = false /\ (rh =? f) = false /\ (rt =? t) = false /\ (rt =? f) = false /\ (rt =? rh) = false /\
  (sfile t =? 6)%Z = side.
Proof. intros [|] [|]; vm_compute; repeat split; reflexivity. Qed.

Lemma refines_castle : forall s mv, WfState s -> rights_ok s -> move_ok_k s mv King ->
  castle_flag King (mv_from mv) (mv_to mv) = true ->
  exists s', apply_move s (enc_move s mv) = Some s' /\ WfState s' /\
             pos_eq (abs s') (apply_sat (abs s) mv).
Proof.
  intros s mv Hwf Hro Hok Hca.
  pose proof Hok as (Hf & Hf64 & Ht64 & Hne & Hown & Hpro & Hpawn & Hking).
  destruct (enc_castle s mv Hok Hca) as (Henc & Hfo & Hto).
  rewrite Henc, apply_move_factored.
  destruct (castle_fields (st_turn s) (sfile (mv_to mv) =? 6)%Z)
    as (E1 & _ & E3 & E4 & E5 & E6 & E7 & E8 & E9).
  unfold m_is_capture. rewrite E1, E3, E4, E5, E6, E7, E8, E9. clear E1 E3 E4 E5 E6 E7 E8 E9.
  rewrite <- Hfo, <- Hto.
  pose proof Hca as Hca'. unfold castle_flag in Hca'. change (piece_eqb King King) with true in Hca'.
  cbn [andb] in Hca'. apply Z.eqb_eq in Hca'.
  destruct (Hking eq_refl Hca') as (Hhome & Hrank & Hrook & Hem & Hem2).
  assert (Hnp : mv_promo mv = None).
  { destruct (mv_promo mv) as [pr|]; [|reflexivity]. destruct Hpro as [Hpro _]. discriminate Hpro. }
  set (b := st_board s) in *. set (c := st_turn s) in *. set (f := mv_from mv) in *. set (t := mv_to mv) in *.
  set (side := (sfile t =? 6)%Z) in *.
  rewrite king_origin_home in Hfo.
  destruct (castle_squares c side) as (Q1 & Q2 & Q3 & Q4 & Q5 & Q6 & Q7 & Q8 & Q9).
  rewrite <- Hfo in Q1, Q2, Q5, Q7. rewrite <- Hto in Q4, Q6.
  set (rh := rook_home c side) in *. set (rt := sq_of (if side then 5 else 3)%Z (back_rank c)) in *.
  assert (Hkt : kind_on b t = None).
  { pose proof (kind_on_empty s t) as E. fold b in E. rewrite Hem in E.
    destruct (kind_on b t); [discriminate E | reflexivity]. }
  pose proof (repr_move_piece b c King f t (wf_state_board s Hwf) Hf Ht64 Hne
                (not_own_of_colour_at s t c Hown)) as R1.
  rewrite Hkt in R1.
  assert (Eb2 : board2 s King f t None false = Some (pset_bit (pset_bit b c King f false) c King t true))
    by reflexivity.
  rewrite Eb2.
  assert (G1 : upd (upd (piece_at b) f None) t (Some (c, King)) rh = Some (c, Rook)).
  { unfold upd. rewrite Q4, Q5. apply has_p_at in Hrook. exact Hrook. }
  assert (G2 : upd (upd (piece_at b) f None) t (Some (c, King)) rt = None).
  { unfold upd. rewrite Q6, Q7. unfold empty_at in Hem2. fold rt in Hem2.
    change (p_at (abs s)) with (piece_at b) in Hem2.
    destruct (piece_at b rt); [discriminate Hem2 | reflexivity]. }
  pose proof (repr_relocate _ _ c Rook rh rt R1 G1 G2 Q3) as R3.
  assert (R4 : Repr (board4 c King f t None (Some side) (pset_bit (pset_bit b c King f false) c King t true))
                    (p_at (Rules.apply (abs s) mv))).
  { assert (Eb4 : board4 c King f t None (Some side) (pset_bit (pset_bit b c King f false) c King t true) =
                  pset_bit (pset_bit (pset_bit (pset_bit b c King f false) c King t true) c Rook rh false)
                           c Rook rt true).
    { unfold board4. cbv beta iota zeta. rewrite <- Q1, <- Q2. destruct side; reflexivity. }
    rewrite Eb4. apply (repr_ext _ _ _ R3). intros x.
    rewrite (apply_at_castle (abs s) mv c x Hf Hca). fold f t side. rewrite Hnp.
    change (p_turn (abs s)) with c. change (p_at (abs s)) with (piece_at b). fold rh rt.
    unfold upd, placed_kind.
    destruct (N.eqb_spec x rt) as [->|Hx1].
    - rewrite Q6, Q7, Q8. reflexivity.
    - destruct (N.eqb_spec x rh) as [->|Hx2].
      + rewrite Q4, Q5. reflexivity.
      + reflexivity. }
  eexists. split; [reflexivity|].
  apply (finish s mv King _ _ _ Hwf Hro Hok R4); [reflexivity|].
  fold t. rewrite Hem. reflexivity.
Qed.


(* ====================================================================== *)
(* MAIN THEOREMS                                                          *)
(* ====================================================================== *)

Lemma move_shape : forall s mv k, move_ok_k s mv k ->
  (k = Pawn /\ ep_flag (abs s) k (mv_from mv) (mv_to mv) = true) \/
  (k = King /\ ep_flag (abs s) k (mv_from mv) (mv_to mv) = false /\ castle_flag k (mv_from mv) (mv_to mv) = true) \/
  (ep_flag (abs s) k (mv_from mv) (mv_to mv) = false /\ castle_flag k (mv_from mv) (mv_to mv) = false).
Proof.
  intros s mv k Hok.
  destruct (ep_flag (abs s) k (mv_from mv) (mv_to mv)) eqn:Eep.
  - left. split; [|reflexivity]. unfold ep_flag in Eep. rewrite !andb_true_iff in Eep.
    apply piece_eqb_eq. apply Eep.
  - right. destruct (castle_flag k (mv_from mv) (mv_to mv)) eqn:Eca.
    + left. split; [|split; reflexivity]. unfold castle_flag in Eca. rewrite andb_true_iff in Eca.
      apply piece_eqb_eq. apply Eca.
    + right. split; reflexivity.
Qed.

Theorem apply_refines_sat : forall s mv, WfState s -> rights_ok s -> move_ok s mv ->
  exists s', apply_move s (enc_move s mv) = Some s' /\ WfState s' /\
             pos_eq (abs s') (apply_sat (abs s) mv).
Proof.
  intros s mv Hwf Hro [k Hok].
  destruct (move_shape s mv k Hok) as [[-> Hep] | [[-> [Hep Hca]] | [Hep Hca]]].
  - exact (refines_ep s mv Hwf Hro Hok Hep).
  - exact (refines_castle s mv Hwf Hro Hok Hca).
  - exact (refines_plain s mv k Hwf Hro Hok Hep Hca).
Qed.

Theorem apply_refines : forall s mv, WfState s -> clock_ok s -> rights_ok s -> move_ok s mv ->
  exists s', apply_move s (enc_move s mv) = Some s' /\ WfState s' /\
             pos_eq (abs s') (Rules.apply (abs s) mv).
Proof.
  intros s mv Hwf [Hh Hfl] Hro Hok.
  destruct (apply_refines_sat s mv Hwf Hro Hok) as (s' & Ha & Hw' & He).
  exists s'. split; [exact Ha|]. split; [exact Hw'|].
  apply (pos_eq_trans _ _ _ He). apply apply_sat_eq; assumption.
Qed.

(* apply_move is a function: the successor is unique *)
Corollary apply_refines_unique : forall s mv s', WfState s -> rights_ok s -> move_ok s mv ->
  apply_move s (enc_move s mv) = Some s' ->
  WfState s' /\ pos_eq (abs s') (apply_sat (abs s) mv).
Proof.
  intros s mv s' Hwf Hro Hok Ha.
  destruct (apply_refines_sat s mv Hwf Hro Hok) as (s'' & Ha' & Hw' & He).
  rewrite Ha in Ha'. injection Ha' as <-. split; assumption.
Qed.

(* the packed move reads back as the rules-level move *)
Theorem absm_enc_move : forall s mv, move_ok s mv -> absm (enc_move s mv) = mv.
Proof.
  intros s mv [k Hok].
  pose proof Hok as (Hf & Hf64 & Ht64 & Hne & Hown & Hpro & Hpawn & Hking).
  unfold absm.
  destruct (move_shape s mv k Hok) as [[-> Hep] | [[-> [Hep Hca]] | [Hep Hca]]].
  - rewrite (enc_ep s mv Hok Hep).
    destruct (en_passant_fields (st_turn s) (mv_from mv) (mv_to mv) Hf64 Ht64)
      as (_ & _ & E3 & E4 & _ & E6 & _).
    rewrite E3, E4, E6.
    unfold ep_flag in Hep. change (piece_eqb Pawn Pawn) with true in Hep.
    cbn [andb] in Hep. apply andb_true_iff in Hep. destruct Hep as [Hfl Hem].
    apply negb_true_iff in Hfl. apply Z.eqb_neq in Hfl.
    assert (Hfl' : sfile (mv_to mv) <> sfile (mv_from mv)) by (intros E; apply Hfl; symmetry; exact E).
    destruct (proj2 (Hpawn eq_refl) Hfl' Hem) as (_ & _ & _ & Hnp).
    rewrite <- Hnp. destruct mv; reflexivity.
  - destruct (enc_castle s mv Hok Hca) as (Henc & Hfo & Hto). rewrite Henc.
    destruct (castle_fields (st_turn s) (sfile (mv_to mv) =? 6)%Z) as (_ & _ & E3 & E4 & _ & E6 & _).
    rewrite E3, E4, E6, <- Hfo, <- Hto.
    assert (Hnp : mv_promo mv = None).
    { destruct (mv_promo mv) as [pr|]; [|reflexivity]. destruct Hpro as [Hpro _]. discriminate Hpro. }
    rewrite <- Hnp. destruct mv; reflexivity.
  - rewrite (enc_plain s mv k Hok Hep Hca).
    assert (Hpn : mv_promo mv <> Some PNone).
    { destruct (mv_promo mv) as [pr|]; [|discriminate]. intros E. injection E as ->.
      destruct Hpro as [_ Hpro]. discriminate Hpro. }
    destruct (roundtrip (st_turn s) k (mv_from mv) (mv_to mv) (kind_on (st_board s) (mv_to mv))
                (mv_promo mv) (move_ok_kind _ _ _ Hok) Hf64 Ht64 (kind_on_not_none _ _) Hpn)
      as (_ & _ & E3 & E4 & _ & E6 & _).
    rewrite E3, E4, E6. destruct mv; reflexivity.
Qed.

(* the rights invariant is part of "legal position" *)
Definition ep_clause (p : pos) : bool :=
  match p_ep p with
  | None => true
  | Some t =>
      let c := p_turn p in
      (srank t =? (if is_white c then 5 else 2))%Z
      && empty_at p t
      && empty_at p (sq_of (sfile t) (srank t + fwd c))
      && has p (sq_of (sfile t) (srank t - fwd c)) (opp c) Pawn
  end.
Definition rights_clause (p : pos) : bool :=
  forallb (fun c => forallb (fun side =>
        negb (p_right p c side) || (has p (king_home c) c King && has p (rook_home c side) c Rook)) [true; false])
       [White; Black].
Definition pawns_clause (p : pos) : bool :=
  forallb (fun s => negb ((srank s =? 0)%Z || (srank s =? 7)%Z) || negb (has p s White Pawn || has p s Black Pawn)) all_squares.

Lemma legal_pos_unfold : forall p,
  ((count_pieces p White King =? 1)%nat && (count_pieces p Black King =? 1)%nat
  && negb (king_attacked p (opp (p_turn p)))
  && pawns_clause p && rights_clause p && ep_clause p) = legal_pos p.
Proof. intros p. exact (eq_refl _). Qed.

Lemma legal_pos_parts : forall p, legal_pos p = true ->
  (count_pieces p White King = 1)%nat /\ (count_pieces p Black King = 1)%nat /\
  king_attacked p (opp (p_turn p)) = false /\ pawns_clause p = true /\ rights_clause p = true /\
  ep_clause p = true.
Proof.
  intros p H. rewrite <- legal_pos_unfold in H. rewrite !andb_true_iff in H.
  destruct H as [[[[[H1 H2] H3] H4] H5] H6].
  split; [apply Nat.eqb_eq; exact H1|].
  split; [apply Nat.eqb_eq; exact H2|].
  split; [apply negb_true_iff; exact H3|].
  split; [exact H4|]. split; [exact H5|exact H6].
Qed.

Lemma legal_pos_rights : forall p, legal_pos p = true -> forall c side, p_right p c side = true ->
  has p (king_home c) c King = true /\ has p (rook_home c side) c Rook = true.
Proof.
  intros p H c side Hc. destruct (legal_pos_parts p H) as (_ & _ & _ & _ & Hr & _).
  unfold rights_clause in Hr. rewrite forallb_forall in Hr.
  assert (Hc1 : In c [White; Black]) by (destruct c; cbn [In]; auto).
  pose proof (Hr c Hc1) as Hr1. cbv beta in Hr1. rewrite forallb_forall in Hr1.
  assert (Hs1 : In side [true; false]) by (destruct side; cbn [In]; auto).
  pose proof (Hr1 side Hs1) as Hx. cbv beta in Hx.
  rewrite Hc in Hx. cbn [negb orb] in Hx. apply andb_true_iff. exact Hx.
Qed.

Theorem legal_pos_rights_ok : forall s, LegalPos s -> rights_ok s.
Proof.
  intros s H. unfold LegalPos, legal_posb in H. apply andb_true_iff in H. destruct H as [_ H].
  intros c side Hc. exact (legal_pos_rights (abs s) H c side Hc).
Qed.

