(* R1, part 3: the make-move refinement.  apply_move on the canonical encoding of a rules-level move
   is Rules.apply on the abstraction.

   REUSABLE DEFINITIONS AND STATEMENTS (see the end of the file for the main theorems)
     rights_ok s            a held castling right implies king and rook on their home squares
     move_ok_k s mv k / move_ok s mv     semantic side conditions on a rules-level move
     apply_sat p m          Rules.apply with the two counters incremented by sat_add1
     apply_sat_eq           p_half p < mask64 -> p_full p < mask64 -> pos_eq (apply_sat p m) (Rules.apply p m)
     apply_move_factored    apply_move = board2 ; board4 ; state_after
     enc_plain / enc_ep / enc_castle     the value of enc_move in the three shapes
     apply_refines_sat, apply_refines, absm_enc_move, legal_pos_rights_ok *)
From WV Require Import Types Bits Attacks Board MoveEnc MoveGen Rules Abs Wf Encode.
From WV Require Import BitsProofs BoardProofs MoveEncProofs PosEq BoardAlg.
From Coq Require Import Lia ZifyBool ZifyN ZifyNat.
Ltac Zify.zify_post_hook ::= Z.div_mod_to_equations.
Open Scope N_scope.
Arguments N.add : simpl never.
Arguments N.sub : simpl never.
Arguments N.mul : simpl never.
Arguments N.land : simpl never.
Arguments N.lor : simpl never.
Arguments N.shiftl : simpl never.
Arguments N.shiftr : simpl never.
Arguments N.ldiff : simpl never.
Arguments N.div : simpl never.
Arguments N.modulo : simpl never.
Arguments Z.add : simpl never.
Arguments Z.sub : simpl never.
Arguments Z.mul : simpl never.

(* ====================================================================== *)
(* definitions                                                            *)
(* ====================================================================== *)

Definition rights_ok (s : state) : Prop := forall c side, castle_right s c side = true ->
  has (abs s) (king_home c) c King = true /\ has (abs s) (rook_home c side) c Rook = true.

(* side conditions on the rules-level move mv in state s, the mover being of kind k *)
Definition move_ok_k (s : state) (mv : move) (k : piece) : Prop :=
  let p := abs s in
  let c := st_turn s in
  let f := mv_from mv in
  let t := mv_to mv in
  p_at p f = Some (c, k) /\ f < 64 /\ t < 64 /\ f <> t /\ colour_at p t c = false /\
  (* promotion kinds: pawns only, Q R B N only *)
  (match mv_promo mv with Some pr => k = Pawn /\ is_promo_kind pr = true | None => True end) /\
  (k = Pawn ->
     (* the only long pawn move is the straight double step forward *)
     ((Z.abs (srank t - srank f) <= 1)%Z \/ (sfile t = sfile f /\ srank t = srank f + 2 * fwd c)%Z) /\
     (* en-passant shape: the pawn changes file onto an empty square *)
     (sfile t <> sfile f -> empty_at p t = true ->
        st_ep s = Some t /\ (srank t = srank f + fwd c)%Z /\
        has p (sq_of (sfile t) (srank f)) (opp c) Pawn = true /\ mv_promo mv = None)) /\
  (* castling shape: the king moves two files *)
  (k = King -> (Z.abs (sfile t - sfile f) = 2)%Z ->
     f = king_home c /\ srank t = back_rank c /\
     has p (rook_home c (sfile t =? 6)%Z) c Rook = true /\ empty_at p t = true /\
     empty_at p (sq_of (if (sfile t =? 6)%Z then 5 else 3) (back_rank c)) = true).

Definition move_ok (s : state) (mv : move) : Prop := exists k, move_ok_k s mv k.

(* Rules.apply with saturating counters *)
Definition resets_clock (p : pos) (m : move) : bool :=
  let k := match p_at p (mv_from m) with Some (_, k) => k | None => PNone end in
  piece_eqb k Pawn || negb (empty_at p (mv_to m)).

Definition apply_sat (p : pos) (m : move) : pos :=
  let r := Rules.apply p m in
  mkPos (p_at r) (p_turn r) (p_right r) (p_ep r)
        (if resets_clock p m then 0 else sat_add1 (p_half p))
        (match p_turn p with Black => sat_add1 (p_full p) | White => p_full p end).

Lemma apply_sat_eq : forall p m, p_half p < mask64 -> p_full p < mask64 ->
  pos_eq (apply_sat p m) (Rules.apply p m).
Proof.
  intros p m Hh Hf. unfold pos_eq, apply_sat, resets_clock, Rules.apply.
  cbn [p_at p_turn p_right p_ep p_half p_full].
  repeat split.
  - destruct (p_at p (mv_from m)) as [[c k]|]; cbn [piece_eqb];
      destruct (piece_eqb _ Pawn); cbn [orb andb];
      destruct (empty_at p (mv_to m)); cbn [orb andb negb]; try reflexivity;
      unfold sat_add1; destruct (N.eqb_spec (p_half p) mask64); try reflexivity; lia.
  - destruct (p_turn p); [reflexivity|].
    unfold sat_add1; destruct (N.eqb_spec (p_full p) mask64); try reflexivity; lia.
Qed.

(* ====================================================================== *)
(* apply_move, factored                                                   *)
(* ====================================================================== *)

Definition board2 (s : state) (p : piece) (o d : N) (cap : option piece) (ep : bool) : option board :=
  let b := st_board s in
  let c := st_turn s in
  let b1 := pset_bit (pset_bit b c p o false) c p d true in
  if ep then
    match st_ep s with
    | None => None
    | Some t => match offset t 0 (backward_dr c) with
                | None => None
                | Some cs => Some (pset_bit b1 (opp c) Pawn cs false)
                end
    end
  else match cap with
       | Some cp => Some (pset_bit b1 (opp c) cp d false)
       | None => Some b1
       end.

Definition board4 (c : color) (p : piece) (o d : N) (pro : option piece) (cside : option bool)
                  (b2 : board) : board :=
  let b3 := match pro with
            | Some pr => pset_bit (pset_bit b2 c p d false) c pr d true
            | None => b2 end in
  let r := rank_of o in
  if match cside with Some k => Bool.eqb k true | None => false end then
    pset_bit (pset_bit b3 c Rook (mk_square r 7) false) c Rook (mk_square r 5) true
  else if match cside with Some k => Bool.eqb k false | None => false end then
    pset_bit (pset_bit b3 c Rook (mk_square r 0) false) c Rook (mk_square r 3) true
  else b3.

Definition state_after (s : state) (b4 : board) (p : piece) (d : N) (iscap dbl : bool) : state :=
  let c := st_turn s in
  let kingmove := piece_eqb p King in
  let wk0 := if kingmove && is_white c then false else st_wk s in
  let wq0 := if kingmove && is_white c then false else st_wq s in
  let bk0 := if kingmove && negb (is_white c) then false else st_bk s in
  let bq0 := if kingmove && negb (is_white c) then false else st_bq s in
  mkState b4 (opp c)
          (wk0 && test (pocc b4 White Rook) 7)
          (wq0 && test (pocc b4 White Rook) 0)
          (bk0 && test (pocc b4 Black Rook) 63)
          (bq0 && test (pocc b4 Black Rook) 56)
          (if dbl then offset d 0 (backward_dr c) else None)
          (if iscap || piece_eqb p Pawn then 0 else sat_add1 (st_half s))
          (match c with Black => sat_add1 (st_full s) | White => st_full s end).

Lemma apply_move_factored : forall s m,
  apply_move s m =
  match board2 s (m_piece m) (m_origin m) (m_dest m) (m_capture m) (m_is_ep m) with
  | None => None
  | Some b2 =>
      Some (state_after s
              (board4 (st_turn s) (m_piece m) (m_origin m) (m_dest m) (m_promotion m) (m_castle_side m) b2)
              (m_piece m) (m_dest m) (m_is_capture m) (m_is_double m))
  end.
Proof. reflexivity. Qed.

(* ====================================================================== *)
(* geometry                                                               *)
(* ====================================================================== *)

Lemma sfile_file : forall s, sfile s = Z.of_N (file_of s).
Proof. reflexivity. Qed.
Lemma srank_rank : forall s, srank s = Z.of_N (rank_of s).
Proof. reflexivity. Qed.

Lemma sq_of_coords : forall s, s < 64 -> sq_of (sfile s) (srank s) = s.
Proof. intros s Hs. unfold sq_of, sfile, srank. lia. Qed.

Lemma sq_eq_coords : forall a b, sfile a = sfile b -> srank a = srank b -> a = b.
Proof. intros a b. unfold sfile, srank. lia. Qed.

Lemma abs_dist_Z : forall a b, Z.of_N (abs_dist a b) = Z.abs (Z.of_N b - Z.of_N a).
Proof. intros a b. unfold abs_dist. destruct (N.ltb_spec a b); lia. Qed.

Lemma king_origin_home : forall c, king_origin c = king_home c.
Proof. intros [|]; reflexivity. Qed.

Lemma castle_dest_sq : forall c side, castle_dest c side = sq_of (if side then 6 else 2) (back_rank c).
Proof. intros [|] [|]; reflexivity. Qed.

(* ====================================================================== *)
(* the value of enc_move in the three shapes                              *)
(* ====================================================================== *)

Lemma kind_on_p_at : forall s x c k, p_at (abs s) x = Some (c, k) -> kind_on (st_board s) x = Some k.
Proof. intros s x c k H. unfold kind_on. cbn [abs p_at] in H. rewrite H. reflexivity. Qed.

Lemma kind_on_empty : forall s x,
  match kind_on (st_board s) x with None => true | Some _ => false end = empty_at (abs s) x.
Proof.
  intros s x. unfold kind_on, empty_at. cbn [abs p_at].
  destruct (piece_at (st_board s) x) as [[c k]|]; reflexivity.
Qed.

Lemma build_nopromo : forall c p o d cap, set_capture (by_moving c p o d) cap = build c p o d cap None.
Proof.
  intros. unfold build, set_promotion. cbn [opt_piece_to_N]. rewrite store_zero. reflexivity.
Qed.

Lemma file_eqb_Z : forall a b, (file_of a =? file_of b) = (sfile a =? sfile b)%Z.
Proof. intros a b. unfold sfile, file_of. lia. Qed.

Definition ep_flag (p : pos) (k : piece) (f t : N) : bool :=
  piece_eqb k Pawn && negb (sfile f =? sfile t)%Z && empty_at p t.
Definition castle_flag (k : piece) (f t : N) : bool :=
  piece_eqb k King && (Z.abs (sfile t - sfile f) =? 2)%Z.

Lemma enc_plain : forall s mv k, move_ok_k s mv k ->
  ep_flag (abs s) k (mv_from mv) (mv_to mv) = false -> castle_flag k (mv_from mv) (mv_to mv) = false ->
  enc_move s mv = build (st_turn s) k (mv_from mv) (mv_to mv) (kind_on (st_board s) (mv_to mv)) (mv_promo mv).
Proof.
  intros s mv k (Hf & Hf64 & Ht64 & Hne & Hown & Hpro & Hpawn & Hking) Hep Hca.
  unfold enc_move. rewrite (kind_on_p_at _ _ _ _ Hf).
  unfold ep_flag in Hep. unfold castle_flag in Hca.
  assert (Hnp : k <> Pawn -> mv_promo mv = None).
  { intros Hk. destruct (mv_promo mv) as [pr|]; [|reflexivity]. exfalso. apply Hk. apply Hpro. }
  destruct k.
  - (* PNone *) cbn [abs p_at] in Hf. apply piece_at_some_imp in Hf. exfalso. apply (proj1 Hf). reflexivity.
  - (* Pawn *)
    rewrite kind_on_empty, file_eqb_Z.
    change (piece_eqb Pawn Pawn) with true in Hep. cbn [andb] in Hep. rewrite Hep. reflexivity.
  - rewrite Hnp by discriminate. apply build_nopromo.
  - rewrite Hnp by discriminate. apply build_nopromo.
  - rewrite Hnp by discriminate. apply build_nopromo.
  - rewrite Hnp by discriminate. apply build_nopromo.
  - (* King *)
    change (piece_eqb King King) with true in Hca. cbn [andb] in Hca.
    rewrite Hnp by discriminate.
    replace ((file_of (mv_from mv) + 2 =? file_of (mv_to mv)) && (rank_of (mv_from mv) =? rank_of (mv_to mv)))
      with false by (unfold sfile, file_of in *; lia).
    replace ((file_of (mv_to mv) + 2 =? file_of (mv_from mv)) && (rank_of (mv_from mv) =? rank_of (mv_to mv)))
      with false by (unfold sfile, file_of in *; lia).
    apply build_nopromo.
Qed.

Lemma enc_ep : forall s mv, move_ok_k s mv Pawn ->
  ep_flag (abs s) Pawn (mv_from mv) (mv_to mv) = true ->
  enc_move s mv = by_en_passant (st_turn s) Pawn (mv_from mv) (mv_to mv).
Proof.
  intros s mv (Hf & _) Hep. unfold enc_move. rewrite (kind_on_p_at _ _ _ _ Hf).
  rewrite kind_on_empty, file_eqb_Z. unfold ep_flag in Hep.
  change (piece_eqb Pawn Pawn) with true in Hep. cbn [andb] in Hep. rewrite Hep. reflexivity.
Qed.

Lemma enc_castle : forall s mv, move_ok_k s mv King ->
  castle_flag King (mv_from mv) (mv_to mv) = true ->
  enc_move s mv = by_castling (st_turn s) (sfile (mv_to mv) =? 6)%Z /\
  mv_from mv = king_origin (st_turn s) /\
  mv_to mv = castle_dest (st_turn s) (sfile (mv_to mv) =? 6)%Z.
Proof.
  intros s mv (Hf & Hf64 & Ht64 & Hne & Hown & Hpro & Hpawn & Hking) Hca.
  unfold castle_flag in Hca. change (piece_eqb King King) with true in Hca. cbn [andb] in Hca.
  apply Z.eqb_eq in Hca. destruct (Hking eq_refl Hca) as (Hhome & Hrank & _).
  unfold enc_move. rewrite (kind_on_p_at _ _ _ _ Hf).
  rewrite king_origin_home, castle_dest_sq.
  assert (Hf4 : sfile (mv_from mv) = 4%Z /\ srank (mv_from mv) = back_rank (st_turn s)).
  { rewrite Hhome. destruct (st_turn s); split; reflexivity. }
  destruct Hf4 as [Hf4 Hfr].
  destruct (Z.eqb_spec (sfile (mv_to mv)) 6) as [H6|H6].
  - replace ((file_of (mv_from mv) + 2 =? file_of (mv_to mv)) && (rank_of (mv_from mv) =? rank_of (mv_to mv)))
      with true by (unfold sfile, srank, file_of, rank_of in *; lia).
    repeat split; [exact Hhome|].
    apply sq_eq_coords; destruct (st_turn s); cbn [back_rank] in *;
      unfold sfile, srank, sq_of in *; lia.
  - replace ((file_of (mv_from mv) + 2 =? file_of (mv_to mv)) && (rank_of (mv_from mv) =? rank_of (mv_to mv)))
      with false by (unfold sfile, srank, file_of, rank_of in *; lia).
    replace ((file_of (mv_to mv) + 2 =? file_of (mv_from mv)) && (rank_of (mv_from mv) =? rank_of (mv_to mv)))
      with true by (unfold sfile, srank, file_of, rank_of in *; lia).
    repeat split; [exact Hhome|].
    apply sq_eq_coords; destruct (st_turn s); cbn [back_rank] in *;
      unfold sfile, srank, sq_of in *; lia.
Qed.
