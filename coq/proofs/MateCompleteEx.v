(* C06, completeness: concrete runs (non-vacuity, and the necessity of the history premise).

   kr2 : White Kf6 Ra1, Black Kh8, White to move ("7k/8/5K2/8/8/8/8/R7 w - - 0 1").  Forced mate in exactly three
         plies (1.Kf7 Kh7 2.Rh1#  or  1.Kg6 Kg8 2.Ra8#): win 3 = true, win 2 = false.
   p1  : the position after 1.Kf7 Kh7 ("8/5K1k/8/8/8/8/8/R7 w - - 2 2"),
   p2  : the position after 1.Kg6 Kg8 ("6k1/8/6K1/8/8/8/8/R7 w - - 2 2"); both are mates in one.

   kr2_found          from the empty history and an empty table the depth-3 run reports 10700 >= POS_INF.
   kr2_history_blocks with the hashes of p1 and p2 recorded in the history, both three-ply mates run through a
                      recorded position; a node below the root whose hash is recorded is scored 0 unsearched, and the
                      depth-3 run ends normally WITHOUT reporting a terminal evaluation although win 3 holds.  (The
                      recorded positions occurred once; re-entering them is not a draw by the rules.)  So the premise
                      HistFree of the completeness theorems cannot be dropped. *)
From Coq Require Import NArith ZArith List Bool.
From WV Require Import Types Bits Board MoveGen Text Table Eval Search Rules Abs Wf GameValue.
From WV Require Import SearchMen.
Import ListNotations.
Open Scope Z_scope.

Definition hx : hasher := hasher_of_stream (map N.of_nat (seq 1 1038)).
Definition kr2 : state :=
  mkState (mkBoard 0 0 0 1 0 (N.shiftl 1 45) 0 0 0 0 0 (N.shiftl 1 63))%N White false false false false None 0%N 1%N.
Definition kr2_p1 : state :=
  mkState (mkBoard 0 0 0 1 0 (N.shiftl 1 53) 0 0 0 0 0 (N.shiftl 1 55))%N White false false false false None 2%N 2%N.
Definition kr2_p2 : state :=
  mkState (mkBoard 0 0 0 1 0 (N.shiftl 1 46) 0 0 0 0 0 (N.shiftl 1 62))%N White false false false false None 2%N 2%N.

Lemma kr2_facts : legal_posb kr2 = true /\ men kr2 = 3%nat /\ win 3 (abs kr2) = true /\ win 2 (abs kr2) = false.
Proof.
  split; [lazy; reflexivity|]. split; [vm_compute; reflexivity|]. split; [lazy; reflexivity|lazy; reflexivity].
Qed.

Lemma kr2_found :
  let r := analyze_iterative hx (fun _ _ => 0) None 3 kr2 [] (empty_access 2 4) in
  r_outcome r = 0%N /\
  r_events r = [EvProgress 1 22; EvBest 620 [268473046%N]; EvProgress 2 68; EvBest 588 [268473046%N; 56310%N];
                EvProgress 3 472; EvBest 10700 [268490454%N]] /\
  (POS_INF <=? 10700) = true.
Proof. vm_compute. repeat split. Qed.

Lemma kr2_history_blocks :
  let r := analyze_iterative hx (fun _ _ => 0) None 3 kr2 [hash hx kr2_p1; hash hx kr2_p2] (empty_access 2 4) in
  (legal_posb kr2_p1 = true /\ legal_posb kr2_p2 = true /\ win 1 (abs kr2_p1) = true /\ win 1 (abs kr2_p2) = true) /\
  r_outcome r = 0%N /\
  r_events r = [EvProgress 1 22; EvBest 620 [268473046%N]; EvProgress 2 68; EvBest 588 [268473046%N; 56310%N];
                EvProgress 3 414; EvBest 600 [268484612%N; 64502%N; 268473046%N]] /\
  (POS_INF <=? 620) = false /\ (POS_INF <=? 588) = false /\ (POS_INF <=? 600) = false.
Proof.
  split; [lazy; repeat split|]. vm_compute. repeat split.
Qed.
