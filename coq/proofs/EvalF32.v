(* Facts about the binary32 model (model/F32.v) used by the evaluator proofs.
   1. Oddness: rnd, f_of_Z, f_mul are odd; f_to_i32 is odd away from the saturation bounds.
   2. Magnitude bounds: fabs_le x k  ==  |value of x| <= k  (k an integer); one rounding adds at most a
      relative 2^-21 (the significand kept by rnd_mag is at least 2^21), so |rnd (a/b)| <= k + 1 whenever
      |a/b| <= k <= 2^21.  Bounds compose through f_mul, f_add, f_sub, f_neg, f_div (divisor >= 1).

   REUSABLE STATEMENTS
     rnd_opp f_of_Z_opp f_mul_neg_l f_to_i32_neg emul_f_opp
     rnd_le f_of_Z_le f_of_dec_le f_mul_le f_add_le f_sub_le f_neg_le f_div_le f_to_i32_le emul_f_le *)
From WV Require Import F32 Eval.
From Coq Require Import Lia ZifyBool.
Ltac Zify.zify_post_hook ::= Z.to_euclidean_division_equations.
Open Scope Z_scope.
Arguments Z.add : simpl never.
Arguments Z.sub : simpl never.
Arguments Z.mul : simpl never.
Arguments Z.pow : simpl never.
Arguments Z.div : simpl never.
Arguments Z.modulo : simpl never.
Arguments Z.quot : simpl never.
Arguments Z.log2 : simpl never.

(* ====================================================================== *)
(* uniform form of frac                                                    *)
(* ====================================================================== *)

Definition P2 (e : Z) : Z := 2 ^ Z.max e 0.
Definition Q2 (e : Z) : Z := 2 ^ Z.max (- e) 0.

Lemma P2_pos : forall e, 0 < P2 e.
Proof. intros e. unfold P2. apply Z.pow_pos_nonneg; lia. Qed.
Lemma Q2_pos : forall e, 0 < Q2 e.
Proof. intros e. unfold Q2. apply Z.pow_pos_nonneg; lia. Qed.

Lemma frac_eq : forall m e, frac m e = (m * P2 e, Q2 e).
Proof.
  intros m e. unfold frac, P2, Q2. destruct (Z.leb_spec 0 e) as [H|H].
  - rewrite (Z.max_l e 0) by lia. rewrite (Z.max_r (- e) 0) by lia. reflexivity.
  - rewrite (Z.max_r e 0) by lia. rewrite (Z.max_l (- e) 0) by lia.
    change (2 ^ 0) with 1. rewrite Z.mul_1_r. reflexivity.
Qed.

(* 2^e1 * 2^e2 = 2^(e1+e2) in the split form *)
Lemma PQ_add : forall e1 e2, P2 (e1 + e2) * (Q2 e1 * Q2 e2) = P2 e1 * P2 e2 * Q2 (e1 + e2).
Proof.
  intros e1 e2. unfold P2, Q2. rewrite <- !Z.pow_add_r by lia. f_equal. lia.
Qed.

(* ====================================================================== *)
(* oddness                                                                *)
(* ====================================================================== *)

Lemma rnd_opp : forall a b, rnd (- a) b = f_neg (rnd a b).
Proof.
  intros a b. unfold rnd. destruct (Z.eqb_spec a 0) as [E|E].
  - subst a. reflexivity.
  - destruct (Z.eqb_spec (- a) 0) as [E'|E']; [lia|].
    rewrite Z.abs_opp. destruct (rnd_mag (Z.abs a) b) as [m e]. unfold f_neg. cbn [fm fe].
    f_equal. rewrite Z.sgn_opp. ring.
Qed.

Lemma f_neg_invol : forall x, f_neg (f_neg x) = x.
Proof. intros [m e]. unfold f_neg. cbn [fm fe]. rewrite Z.opp_involutive. reflexivity. Qed.

Lemma f_of_Z_opp : forall z, f_of_Z (- z) = f_neg (f_of_Z z).
Proof. intros z. exact (rnd_opp z 1). Qed.

Lemma f_mul_neg_l : forall x y, f_mul (f_neg x) y = f_neg (f_mul x y).
Proof.
  intros x y. unfold f_mul, f_neg. cbn [fm fe]. rewrite !frac_eq.
  replace (- fm x * fm y * P2 (fe x + fe y)) with (- (fm x * fm y * P2 (fe x + fe y))) by ring.
  apply rnd_opp.
Qed.

Lemma f_to_i32_neg : forall x, -2147483648 < f_to_i32 x < 2147483647 -> f_to_i32 (f_neg x) = - f_to_i32 x.
Proof.
  intros x. unfold f_to_i32, f_neg. cbn [fm fe]. rewrite !frac_eq.
  replace (- fm x * P2 (fe x)) with (- (fm x * P2 (fe x))) by ring.
  pose proof (Q2_pos (fe x)) as Hq. rewrite Z.quot_opp_l by lia. lia.
Qed.

(* ====================================================================== *)
(* magnitude bounds                                                       *)
(* ====================================================================== *)

Definition fabs_le (x : f32) (k : Z) : Prop := Z.abs (fm x) * P2 (fe x) <= k * Q2 (fe x).

Lemma fabs_le_mono : forall x k k', fabs_le x k -> k <= k' -> fabs_le x k'.
Proof. intros x k k' H Hk. unfold fabs_le in *. pose proof (Q2_pos (fe x)). nia. Qed.

Lemma fabs_le_nonneg : forall x k, fabs_le x k -> 0 <= k.
Proof. intros x k H. unfold fabs_le in H. pose proof (Q2_pos (fe x)). pose proof (P2_pos (fe x)). nia. Qed.

(* one rounding step: q' <= q + 1 *)
Lemma round_step : forall a b, 0 <= a -> 0 < b ->
  let q := a / b in let r := a mod b in
  let q' := if b <? 2 * r then q + 1 else if b =? 2 * r then (if Z.odd q then q + 1 else q) else q in
  q <= q' <= q + 1.
Proof. intros a b Ha Hb. cbv zeta. destruct (b <? 2 * (a mod b)), (b =? 2 * (a mod b)), (Z.odd (a / b)); lia. Qed.

Definition scaled (n d e : Z) : Z * Z := if 0 <=? e then (n, d * 2 ^ e) else (n * 2 ^ (- e), d).

Lemma scaled_eq : forall n d e, scaled n d e = (n * Q2 e, d * P2 e).
Proof.
  intros n d e. unfold scaled, P2, Q2. destruct (Z.leb_spec 0 e) as [H|H].
  - rewrite (Z.max_l e 0) by lia. rewrite (Z.max_r (- e) 0) by lia.
    change (2 ^ 0) with 1. rewrite Z.mul_1_r. reflexivity.
  - rewrite (Z.max_r e 0) by lia. rewrite (Z.max_l (- e) 0) by lia.
    change (2 ^ 0) with 1. rewrite Z.mul_1_r. reflexivity.
Qed.

Definition round_q (a b : Z) : Z :=
  let q := a / b in let r := a mod b in
  if b <? 2 * r then q + 1 else if b =? 2 * r then (if Z.odd q then q + 1 else q) else q.

Lemma rnd_mag_unfold : forall n d,
  rnd_mag n d =
  let e0 := Z.log2 n - Z.log2 d - 23 in
  let q0 := fst (scaled n d e0) / snd (scaled n d e0) in
  let e := if 2 ^ 24 <=? q0 then e0 + 1 else if q0 <? 2 ^ 23 then e0 - 1 else e0 in
  (round_q (fst (scaled n d e)) (snd (scaled n d e)), e).
Proof.
  intros n d. unfold rnd_mag, scaled, round_q. cbv zeta.
  destruct (0 <=? Z.log2 n - Z.log2 d - 23); cbn [fst snd];
    match goal with |- context [if ?c then _ + 1 else if ?c2 then _ - 1 else _] =>
      destruct c; [|destruct c2] end;
    match goal with |- context [0 <=? ?e] => destruct (0 <=? e) end; reflexivity.
Qed.

(* the quotient kept by rnd_mag is at least 2^21 whenever the exponent is at most e0 + 1 *)
Lemma scaled_big : forall n d e, 0 < n -> 0 < d -> e <= Z.log2 n - Z.log2 d - 22 ->
  2 ^ 21 * (d * P2 e) <= n * Q2 e.
Proof.
  intros n d e Hn Hd He. unfold P2, Q2.
  pose proof (Z.log2_spec n Hn) as [Hn1 _]. pose proof (Z.log2_spec d Hd) as [_ Hd2].
  pose proof (Z.log2_nonneg n) as Ln. pose proof (Z.log2_nonneg d) as Ld.
  assert (H1 : 2 ^ 21 * (2 ^ Z.succ (Z.log2 d) * 2 ^ Z.max e 0) <= 2 ^ Z.log2 n * 2 ^ Z.max (- e) 0).
  { rewrite <- !Z.pow_add_r by lia. apply Z.pow_le_mono_r; lia. }
  assert (A : 0 < 2 ^ Z.max e 0) by (apply Z.pow_pos_nonneg; lia).
  assert (B : 0 < 2 ^ Z.max (- e) 0) by (apply Z.pow_pos_nonneg; lia).
  assert (H2 : 2 ^ 21 * (d * 2 ^ Z.max e 0) <= 2 ^ 21 * (2 ^ Z.succ (Z.log2 d) * 2 ^ Z.max e 0)) by nia.
  assert (H3 : 2 ^ Z.log2 n * 2 ^ Z.max (- e) 0 <= n * 2 ^ Z.max (- e) 0) by nia.
  lia.
Qed.

Lemma rnd_mag_tight : forall n d q e, 0 < n -> 0 < d -> rnd_mag n d = (q, e) ->
  0 <= q /\ q * P2 e * d * 2 ^ 21 <= (2 ^ 21 + 1) * n * Q2 e.
Proof.
  intros n d q e Hn Hd H. rewrite rnd_mag_unfold in H. cbv zeta in H.
  set (e0 := Z.log2 n - Z.log2 d - 23) in *.
  set (q0 := fst (scaled n d e0) / snd (scaled n d e0)) in *.
  set (e1 := if 2 ^ 24 <=? q0 then e0 + 1 else if q0 <? 2 ^ 23 then e0 - 1 else e0) in *.
  assert (He1 : e1 <= Z.log2 n - Z.log2 d - 22).
  { unfold e1. destruct (2 ^ 24 <=? q0); [unfold e0; lia|]. destruct (q0 <? 2 ^ 23); unfold e0; lia. }
  injection H as Hq He. subst e. rewrite scaled_eq in Hq. cbn [fst snd] in Hq.
  pose proof (scaled_big n d e1 Hn Hd He1) as Hbig.
  pose proof (P2_pos e1) as HP. pose proof (Q2_pos e1) as HQ.
  set (a := n * Q2 e1) in *. set (b := d * P2 e1) in *.
  assert (Ha : 0 <= a) by (unfold a; nia). assert (Hb : 0 < b) by (unfold b; nia).
  pose proof (round_step a b Ha Hb) as Hr. cbv zeta in Hr. fold (round_q a b) in Hr. rewrite Hq in Hr.
  assert (Hdiv : 2 ^ 21 <= a / b).
  { apply Z.div_le_lower_bound; [exact Hb|]. lia. }
  assert (Hqb : (a / b) * b <= a) by (pose proof (Z.mul_div_le a b Hb); lia).
  split; [lia|].
  assert (Hq1 : q * 2 ^ 21 <= (2 ^ 21 + 1) * (a / b)) by lia.
  replace (q * P2 e1 * d * 2 ^ 21) with ((q * 2 ^ 21) * b) by (unfold b; ring).
  replace ((2 ^ 21 + 1) * n * Q2 e1) with ((2 ^ 21 + 1) * a) by (unfold a; ring).
  nia.
Qed.

(* |a / b| <= k  ->  |rnd (a/b)| <= K  as soon as  k (1 + 2^-21) <= K *)
Theorem rnd_le_gen : forall a b k K, 0 < b -> 0 <= k -> k * (2 ^ 21 + 1) <= K * 2 ^ 21 ->
  Z.abs a <= k * b -> fabs_le (rnd a b) K.
Proof.
  intros a b k K Hb Hk HK Ha. unfold rnd, fabs_le. destruct (Z.eqb_spec a 0) as [E|E].
  - cbn [fm fe]. change (Z.abs 0) with 0. pose proof (Q2_pos 0). nia.
  - destruct (rnd_mag (Z.abs a) b) as [m e] eqn:Em. cbn [fm fe].
    destruct (rnd_mag_tight (Z.abs a) b m e ltac:(lia) Hb Em) as [Hm Ht].
    assert (Habs : Z.abs (Z.sgn a * m) = m).
    { assert (Hs : Z.sgn a = 1 \/ Z.sgn a = -1) by lia. destruct Hs as [-> | ->]; lia. }
    rewrite Habs. pose proof (P2_pos e) as HP. pose proof (Q2_pos e) as HQ.
    set (X := m * P2 e) in *. set (Y := Q2 e) in *.
    assert (H1 : X * b * 2 ^ 21 <= (2 ^ 21 + 1) * (k * b) * Y).
    { replace (X * b * 2 ^ 21) with (m * P2 e * b * 2 ^ 21) by (unfold X; ring).
      assert ((2 ^ 21 + 1) * Z.abs a * Y <= (2 ^ 21 + 1) * (k * b) * Y) by nia. lia. }
    assert (H2 : X * 2 ^ 21 <= (2 ^ 21 + 1) * k * Y) by nia.
    assert (H3 : (2 ^ 21 + 1) * k * Y <= K * 2 ^ 21 * Y) by nia.
    nia.
Qed.

(* |a / b| <= k <= 2^21  ->  |rnd (a/b)| <= k + 1 *)
Theorem rnd_le : forall a b k, 0 < b -> 0 <= k <= 2 ^ 21 -> Z.abs a <= k * b -> fabs_le (rnd a b) (k + 1).
Proof. intros a b k Hb Hk Ha. apply (rnd_le_gen a b k (k + 1) Hb); lia. Qed.

Theorem rnd_le2 : forall a b k, 0 < b -> 0 <= k -> Z.abs a <= k * b -> fabs_le (rnd a b) (2 * k).
Proof. intros a b k Hb Hk Ha. apply (rnd_le_gen a b k (2 * k) Hb); lia. Qed.

Lemma f_of_Z_le : forall z k, 0 <= k <= 2 ^ 21 -> Z.abs z <= k -> fabs_le (f_of_Z z) (k + 1).
Proof. intros z k Hk Hz. unfold f_of_Z. apply rnd_le; lia. Qed.

Lemma f_of_dec_le : forall q k, 0 < snd q -> 0 <= k <= 2 ^ 21 -> Z.abs (fst q) <= k * snd q ->
  fabs_le (f_of_dec q) (k + 1).
Proof. intros q k Hq Hk Hz. unfold f_of_dec. apply rnd_le; assumption. Qed.

Lemma f_neg_le : forall x k, fabs_le x k -> fabs_le (f_neg x) k.
Proof. intros x k H. unfold fabs_le, f_neg in *. cbn [fm fe]. rewrite Z.abs_opp. exact H. Qed.

Lemma f_mul_le : forall x y kx ky, fabs_le x kx -> fabs_le y ky -> kx * ky <= 2 ^ 21 ->
  fabs_le (f_mul x y) (kx * ky + 1).
Proof.
  intros x y kx ky Hx Hy Hk. pose proof (fabs_le_nonneg _ _ Hx). pose proof (fabs_le_nonneg _ _ Hy).
  unfold f_mul. rewrite frac_eq. unfold fabs_le in Hx, Hy.
  pose proof (PQ_add (fe x) (fe y)) as HI.
  pose proof (P2_pos (fe x)). pose proof (P2_pos (fe y)). pose proof (Q2_pos (fe x)). pose proof (Q2_pos (fe y)).
  pose proof (P2_pos (fe x + fe y)). pose proof (Q2_pos (fe x + fe y)).
  apply rnd_le; [assumption | nia |].
  rewrite !Z.abs_mul. rewrite (Z.abs_eq (P2 _)) by lia.
  set (A := Z.abs (fm x)) in *. set (B := Z.abs (fm y)) in *.
  set (P1 := P2 (fe x)) in *. set (P' := P2 (fe y)) in *. set (Q1 := Q2 (fe x)) in *. set (Q' := Q2 (fe y)) in *.
  set (PS := P2 (fe x + fe y)) in *. set (QS := Q2 (fe x + fe y)) in *.
  assert (Hprod : (A * P1) * (B * P') <= (kx * Q1) * (ky * Q')).
  { apply Z.mul_le_mono_nonneg; unfold A, B; nia. }
  assert (E : A * B * PS * (Q1 * Q') = (A * P1) * (B * P') * QS) by (rewrite <- Z.mul_assoc, HI; ring).
  assert (H7 : A * B * PS * (Q1 * Q') <= kx * ky * QS * (Q1 * Q')).
  { rewrite E. replace (kx * ky * QS * (Q1 * Q')) with ((kx * Q1) * (ky * Q') * QS) by ring.
    apply Z.mul_le_mono_nonneg_r; lia. }
  assert (Hqq : 0 < Q1 * Q') by nia.
  apply (Zmult_le_reg_r _ _ (Q1 * Q')); [lia | exact H7].
Qed.

Lemma f_add_le : forall x y kx ky, fabs_le x kx -> fabs_le y ky -> kx + ky <= 2 ^ 21 ->
  fabs_le (f_add x y) (kx + ky + 1).
Proof.
  intros x y kx ky Hx Hy Hk. pose proof (fabs_le_nonneg _ _ Hx). pose proof (fabs_le_nonneg _ _ Hy).
  unfold f_add. rewrite !frac_eq. unfold fabs_le in Hx, Hy.
  pose proof (P2_pos (fe x)). pose proof (P2_pos (fe y)). pose proof (Q2_pos (fe x)). pose proof (Q2_pos (fe y)).
  apply rnd_le; [nia | lia |].
  set (P1 := P2 (fe x)) in *. set (P' := P2 (fe y)) in *. set (Q1 := Q2 (fe x)) in *. set (Q' := Q2 (fe y)) in *.
  assert (Ea1 : Z.abs (fm x * P1 * Q') = Z.abs (fm x) * P1 * Q') by (rewrite !Z.abs_mul, (Z.abs_eq P1), (Z.abs_eq Q') by lia; reflexivity).
  assert (Ea2 : Z.abs (fm y * P' * Q1) = Z.abs (fm y) * P' * Q1) by (rewrite !Z.abs_mul, (Z.abs_eq P'), (Z.abs_eq Q1) by lia; reflexivity).
  pose proof (Z.abs_triangle (fm x * P1 * Q') (fm y * P' * Q1)) as Ht. rewrite Ea1, Ea2 in Ht.
  assert (Z.abs (fm x) * P1 * Q' <= kx * Q1 * Q') by nia.
  assert (Z.abs (fm y) * P' * Q1 <= ky * Q' * Q1) by nia.
  nia.
Qed.

Lemma f_sub_le : forall x y kx ky, fabs_le x kx -> fabs_le y ky -> kx + ky <= 2 ^ 21 ->
  fabs_le (f_sub x y) (kx + ky + 1).
Proof. intros x y kx ky Hx Hy Hk. unfold f_sub. apply f_add_le; [exact Hx | apply f_neg_le; exact Hy | exact Hk]. Qed.

(* |y| >= 1 *)
Definition fabs_ge1 (y : f32) : Prop := Q2 (fe y) <= Z.abs (fm y) * P2 (fe y).

Lemma f_div_le : forall x y kx, fabs_le x kx -> fabs_ge1 y -> kx <= 2 ^ 21 -> fabs_le (f_div x y) (kx + 1).
Proof.
  intros x y kx Hx Hy Hk. pose proof (fabs_le_nonneg _ _ Hx).
  unfold f_div. rewrite !frac_eq. unfold fabs_le in Hx. unfold fabs_ge1 in Hy.
  pose proof (P2_pos (fe x)). pose proof (P2_pos (fe y)). pose proof (Q2_pos (fe x)). pose proof (Q2_pos (fe y)).
  set (P1 := P2 (fe x)) in *. set (P' := P2 (fe y)) in *. set (Q1 := Q2 (fe x)) in *. set (Q' := Q2 (fe y)) in *.
  assert (Hy0 : fm y <> 0) by nia.
  assert (Habs : Z.abs (fm y * P') = Z.abs (fm y) * P') by (rewrite Z.abs_mul, (Z.abs_eq P') by lia; reflexivity).
  assert (Hden : 0 < Q1 * Z.abs (fm y * P')) by nia.
  destruct (Z.eqb_spec (Q1 * Z.abs (fm y * P')) 0) as [E|E]; [lia|].
  apply rnd_le; [exact Hden | lia |].
  set (a2 := fm y * P') in *.
  assert (Ha2 : a2 <> 0) by (unfold a2; nia).
  assert (Hs : Z.abs (Z.sgn a2) = 1) by lia.
  rewrite !Z.abs_mul, Hs, (Z.abs_eq P1), (Z.abs_eq Q') by lia. rewrite Habs.
  assert (Hn1 : Z.abs (fm x) * P1 * Q' <= kx * Q1 * Q') by nia.
  assert (Hn2 : kx * Q1 * Q' <= kx * Q1 * (Z.abs (fm y) * P')) by nia.
  nia.
Qed.

Lemma f_to_i32_le : forall x k, fabs_le x k -> Z.abs (f_to_i32 x) <= k.
Proof.
  intros x k H. pose proof (fabs_le_nonneg _ _ H) as Hk. unfold f_to_i32. rewrite frac_eq. unfold fabs_le in H.
  pose proof (P2_pos (fe x)). pose proof (Q2_pos (fe x)).
  set (a := fm x * P2 (fe x)) in *. set (b := Q2 (fe x)) in *.
  assert (Ha : Z.abs a <= k * b) by (unfold a; rewrite Z.abs_mul, (Z.abs_eq (P2 _)) by lia; exact H).
  assert (Hq : Z.abs (Z.quot a b) <= k).
  { rewrite <- (Z.quot_abs a b) by lia. rewrite (Z.abs_eq b) by lia.
    pose proof (Z.mul_quot_le (Z.abs a) b ltac:(lia) ltac:(lia)) as Hm.
    pose proof (Z.quot_pos (Z.abs a) b ltac:(lia) ltac:(lia)) as Hp.
    nia. }
  lia.
Qed.

(* crude variants without the 2^21 ceiling *)
Lemma f_mul_le2 : forall x y kx ky, fabs_le x kx -> fabs_le y ky -> fabs_le (f_mul x y) (2 * (kx * ky)).
Proof.
  intros x y kx ky Hx Hy. pose proof (fabs_le_nonneg _ _ Hx). pose proof (fabs_le_nonneg _ _ Hy).
  unfold f_mul. rewrite frac_eq. unfold fabs_le in Hx, Hy.
  pose proof (PQ_add (fe x) (fe y)) as HI.
  pose proof (P2_pos (fe x)). pose proof (P2_pos (fe y)). pose proof (Q2_pos (fe x)). pose proof (Q2_pos (fe y)).
  pose proof (P2_pos (fe x + fe y)). pose proof (Q2_pos (fe x + fe y)).
  apply rnd_le2; [assumption | nia |].
  rewrite !Z.abs_mul. rewrite (Z.abs_eq (P2 _)) by lia.
  set (A := Z.abs (fm x)) in *. set (B := Z.abs (fm y)) in *.
  set (P1 := P2 (fe x)) in *. set (P' := P2 (fe y)) in *. set (Q1 := Q2 (fe x)) in *. set (Q' := Q2 (fe y)) in *.
  set (PS := P2 (fe x + fe y)) in *. set (QS := Q2 (fe x + fe y)) in *.
  assert (Hprod : (A * P1) * (B * P') <= (kx * Q1) * (ky * Q')).
  { apply Z.mul_le_mono_nonneg; unfold A, B; nia. }
  assert (E : A * B * PS * (Q1 * Q') = (A * P1) * (B * P') * QS) by (rewrite <- Z.mul_assoc, HI; ring).
  assert (H7 : A * B * PS * (Q1 * Q') <= kx * ky * QS * (Q1 * Q')).
  { rewrite E. replace (kx * ky * QS * (Q1 * Q')) with ((kx * Q1) * (ky * Q') * QS) by ring.
    apply Z.mul_le_mono_nonneg_r; lia. }
  assert (Hqq : 0 < Q1 * Q') by nia.
  apply (Zmult_le_reg_r _ _ (Q1 * Q')); [lia | exact H7].
Qed.

(* `(e as f32 * w) as i32` is Eval.emul_f *)
Lemma emul_f_le : forall e w ke kw, 0 <= ke -> Z.abs e <= ke -> fabs_le w kw -> ke <= 2 ^ 21 -> (ke + 1) * kw <= 2 ^ 21 ->
  Z.abs (emul_f e w) <= (ke + 1) * kw + 1.
Proof.
  intros e w ke kw H0 He Hw H1 H2. unfold emul_f. apply f_to_i32_le. apply f_mul_le; [|exact Hw|exact H2].
  apply f_of_Z_le; lia.
Qed.

Lemma emul_f_le2 : forall e w ke kw, 0 <= ke -> Z.abs e <= ke -> fabs_le w kw ->
  Z.abs (emul_f e w) <= 4 * ke * kw.
Proof.
  intros e w ke kw H0 He Hw. unfold emul_f.
  replace (4 * ke * kw) with (2 * ((2 * ke) * kw)) by ring.
  apply f_to_i32_le. apply f_mul_le2; [|exact Hw].
  unfold f_of_Z. apply rnd_le2; lia.
Qed.

Lemma emul_f_opp : forall e w ke kw, 0 <= ke -> Z.abs e <= ke -> fabs_le w kw -> 4 * ke * kw < 2147483647 ->
  emul_f (- e) w = - emul_f e w.
Proof.
  intros e w ke kw H0 He Hw H2. pose proof (emul_f_le2 e w ke kw H0 He Hw) as Hb.
  unfold emul_f in *. rewrite f_of_Z_opp, f_mul_neg_l. apply f_to_i32_neg. lia.
Qed.

Print Assumptions emul_f_opp.
