(* C13, second half, terminal branch: the rules are symmetric under the colour-swapping rank flip, hence
   (with C01/C10) move generation and the check flag of the mirrored state agree with the original, and
   the whole of Evaluator::evaluate is mirror invariant.

   mpos p      the rules-level mirror image of a position
   mmove m     the mirror image of a move

   REUSABLE STATEMENTS
     attacks_from_m attacked_m king_attacked_m pseudo_legal_m apply_at_m legal_m
     legal_moves_nil_m   : bounded p -> (Rules.legal_moves (mpos p) = [] <-> Rules.legal_moves p = [])
     legal_pos_m         : bounded p -> legal_pos p = true -> legal_pos (mpos p) = true
     abs_mirror          : WfBoard (st_board s) -> pos_eq_nc (abs (mirror_state s)) (mpos (abs s))
     mirror_legal        : LegalPos s -> LegalPos (mirror_state s)
     evaluate_mirror     : LegalPos s -> evaluate (mirror_state s) (opp p) d = evaluate s p d *)
From WV Require Import Types Bits Attacks Board MoveEnc MoveGen Rules Abs Wf Encode Eval.
From WV Require Import BitsProofs BoardProofs MoveEncProofs PosEq BoardAlg ApplyProofs LegalPosProofs.
From WV Require Import GenPieces GenPawns KingPrefilter GenLegal GenCount.
From WV Require Import EvalF32 EvalShortcut EvalProofs EvalMirror.
From Coq Require Import Lia ZifyBool ZifyN ZifyNat.
Import WV.Bits.
Ltac Zify.zify_post_hook ::= Z.div_mod_to_equations.
Open Scope N_scope.
Arguments N.add : simpl never.
Arguments N.sub : simpl never.
Arguments N.mul : simpl never.
Arguments N.div : simpl never.
Arguments N.modulo : simpl never.
Arguments N.land : simpl never.
Arguments N.lor : simpl never.
Arguments Z.add : simpl never.
Arguments Z.sub : simpl never.
Arguments Z.mul : simpl never.

Definition swapc (x : option (color * piece)) : option (color * piece) :=
  match x with Some (c, k) => Some (opp c, k) | None => None end.

Definition mpos (p : pos) : pos :=
  mkPos (fun s => if s <? 64 then swapc (p_at p (flip_rank s)) else None)
        (opp (p_turn p)) (fun c side => p_right p (opp c) side)
        (option_map flip_rank (p_ep p)) (p_half p) (p_full p).

Definition mmove (m : move) : move := mkMove (flip_rank (mv_from m)) (flip_rank (mv_to m)) (mv_promo m).

Definition bounded (p : pos) : Prop :=
  (forall s, 64 <= s -> p_at p s = None) /\ (forall t, p_ep p = Some t -> t < 64).

(* ---------- coordinates ---------- *)
Lemma flip_coords : forall t, t < 64 ->
  sfile (flip_rank t) = sfile t /\ srank (flip_rank t) = (7 - srank t)%Z /\
  (0 <= sfile t <= 7)%Z /\ (0 <= srank t <= 7)%Z.
Proof. intros t H. unfold sfile, srank, flip_rank, mk_square, rank_of, file_of. lia. Qed.

Lemma flip_sq_of : forall f r, on_board f r = true ->
  flip_rank (sq_of f r) = sq_of f (7 - r) /\ sq_of f r < 64 /\ on_board f (7 - r) = true.
Proof. intros f r H. unfold on_board, sq_of, flip_rank, mk_square, rank_of, file_of in *. lia. Qed.

Lemma flip_eqb : forall a b, a < 64 -> b < 64 -> (flip_rank a =? flip_rank b) = (a =? b).
Proof. intros a b Ha Hb. unfold flip_rank, mk_square, rank_of, file_of. lia. Qed.

Lemma flip_eqb_swap : forall s t, s < 64 -> t < 64 -> (s =? flip_rank t) = (flip_rank s =? t).
Proof. intros s t Hs Ht. unfold flip_rank, mk_square, rank_of, file_of. lia. Qed.

Lemma opp_color_eqb : forall c c', color_eqb (opp c) (opp c') = color_eqb c c'.
Proof. intros [|] [|]; reflexivity. Qed.

Lemma color_eqb_opp_l : forall c c', color_eqb (opp c) c' = color_eqb c (opp c').
Proof. intros [|] [|]; reflexivity. Qed.

Lemma fwd_opp' : forall c, fwd (opp c) = (- fwd c)%Z.
Proof. intros [|]; reflexivity. Qed.

(* ---------- placement ---------- *)
Lemma mpos_at : forall p t, t < 64 -> p_at (mpos p) (flip_rank t) = swapc (p_at p t).
Proof.
  intros p t Ht. cbn [mpos p_at]. pose proof (flip_rank_lt t) as H.
  destruct (N.ltb_spec (flip_rank t) 64) as [L|L]; [|lia]. rewrite (flip_rank_invol t Ht). reflexivity.
Qed.

Lemma mpos_at' : forall p t, t < 64 -> p_at (mpos p) t = swapc (p_at p (flip_rank t)).
Proof. intros p t Ht. cbn [mpos p_at]. destruct (N.ltb_spec t 64) as [L|L]; [reflexivity | lia]. Qed.

Lemma mpos_at_high : forall p t, 64 <= t -> p_at (mpos p) t = None.
Proof. intros p t Ht. cbn [mpos p_at]. destruct (N.ltb_spec t 64) as [L|L]; [lia | reflexivity]. Qed.

Lemma empty_at_m : forall p t, t < 64 -> empty_at (mpos p) (flip_rank t) = empty_at p t.
Proof. intros p t Ht. unfold empty_at. rewrite (mpos_at p t Ht). destruct (p_at p t) as [[c k]|]; reflexivity. Qed.

Lemma has_m : forall p t c k, t < 64 -> has (mpos p) (flip_rank t) c k = has p t (opp c) k.
Proof.
  intros p t c k Ht. unfold has. rewrite (mpos_at p t Ht). destruct (p_at p t) as [[c' k']|]; [|reflexivity].
  cbn [swapc]. rewrite <- (opp_color_eqb c (opp c')), opp_opp. reflexivity.
Qed.

Lemma colour_at_m : forall p t c, t < 64 -> colour_at (mpos p) (flip_rank t) c = colour_at p t (opp c).
Proof.
  intros p t c Ht. unfold colour_at. rewrite (mpos_at p t Ht). destruct (p_at p t) as [[c' k']|]; [|reflexivity].
  cbn [swapc]. rewrite <- (opp_color_eqb c (opp c')), opp_opp. reflexivity.
Qed.

Lemma empty_at_m_sq : forall p f r, on_board f r = true ->
  empty_at (mpos p) (sq_of f r) = empty_at p (sq_of f (7 - r)).
Proof.
  intros p f r H. destruct (flip_sq_of f r H) as (E & L & H').
  destruct (flip_sq_of f (7 - r) H') as (E' & L' & _).
  replace (7 - (7 - r))%Z with r in E' by lia. rewrite <- E'. apply empty_at_m. exact L'.
Qed.

(* ---------- paths and attacks ---------- *)
Lemma clear_path_m : forall p fuel f r sf sr f' r',
  clear_path (mpos p) fuel f r sf sr f' r' = clear_path p fuel f (7 - r) sf (- sr) f' (7 - r').
Proof.
  intros p fuel. induction fuel as [|k IH]; intros f r sf sr f' r'; cbn [clear_path]; [reflexivity|].
  replace (7 - r + - sr =? 7 - r')%Z with (r + sr =? r')%Z by lia.
  destruct ((f + sf =? f') && (r + sr =? r'))%Z; [reflexivity|].
  replace (7 - r + - sr)%Z with (7 - (r + sr))%Z by lia.
  destruct (on_board (f + sf) (r + sr)) eqn:Eb.
  - destruct (flip_sq_of _ _ Eb) as (_ & _ & Eb'). rewrite Eb'. cbn [andb].
    rewrite (empty_at_m_sq p _ _ Eb), IH. reflexivity.
  - assert (Eb' : on_board (f + sf) (7 - (r + sr)) = false) by (unfold on_board in *; lia).
    rewrite Eb'. reflexivity.
Qed.

Lemma attacks_from_m : forall p c k a t, a < 64 -> t < 64 ->
  attacks_from (mpos p) c k (flip_rank a) (flip_rank t) = attacks_from p (opp c) k a t.
Proof.
  intros p c k a t Ha Ht. unfold attacks_from. cbv zeta.
  destruct (flip_coords a Ha) as (Fa & Ra & Ba1 & Ba2). destruct (flip_coords t Ht) as (Ft & Rt & Bt1 & Bt2).
  rewrite Fa, Ra, Ft, Rt, clear_path_m.
  set (df := (sfile t - sfile a)%Z). set (dr := (srank t - srank a)%Z).
  replace (7 - srank t - (7 - srank a))%Z with (- dr)%Z by (unfold dr; lia).
  replace (7 - (7 - srank a))%Z with (srank a) by lia. replace (7 - (7 - srank t))%Z with (srank t) by lia.
  replace (- Z.sgn (- dr))%Z with (Z.sgn dr) by lia.
  rewrite Z.abs_opp. replace (- dr =? 0)%Z with (dr =? 0)%Z by lia.
  destruct k; try reflexivity.
  rewrite fwd_opp'. replace (- dr =? fwd c)%Z with (dr =? - fwd c)%Z by lia. reflexivity.
Qed.

Lemma existsb_flip : forall g, existsb g all_squares = existsb (fun s => g (flip_rank s)) all_squares.
Proof.
  intros g. apply eq_iff_eq_true. rewrite !existsb_exists. split.
  - intros [x [Hx Hg]]. apply all_squares_In in Hx. exists (flip_rank x).
    split; [apply all_squares_In, flip_rank_lt|]. rewrite (flip_rank_invol x Hx). exact Hg.
  - intros [x [Hx Hg]]. exists (flip_rank x). split; [apply all_squares_In, flip_rank_lt | exact Hg].
Qed.

Lemma existsb_ext_in : forall (A : Type) (f g : A -> bool) l, (forall x, In x l -> f x = g x) -> existsb f l = existsb g l.
Proof.
  intros A f g l H. induction l as [|x tl IH]; cbn [existsb]; [reflexivity|].
  rewrite (H x (or_introl eq_refl)), IH; [reflexivity|]. intros y Hy. apply H. right. exact Hy.
Qed.

Lemma attacked_m : forall p c t, t < 64 -> attacked (mpos p) c (flip_rank t) = attacked p (opp c) t.
Proof.
  intros p c t Ht. unfold attacked. rewrite existsb_flip. apply existsb_ext_in. intros a Ha.
  apply all_squares_In in Ha. rewrite (mpos_at p a Ha). destruct (p_at p a) as [[c' k]|]; [|reflexivity].
  cbn [swapc]. rewrite (attacks_from_m p c k a t Ha Ht).
  rewrite <- (opp_color_eqb c (opp c')), opp_opp. reflexivity.
Qed.

Lemma king_attacked_m : forall p c, king_attacked (mpos p) c = king_attacked p (opp c).
Proof.
  intros p c. unfold king_attacked. rewrite existsb_flip. apply existsb_ext_in. intros s Hs.
  apply all_squares_In in Hs. rewrite (has_m p s c King Hs), (attacked_m p (opp c) s Hs). reflexivity.
Qed.

(* ---------- statements on board squares given by coordinates ---------- *)
Lemma has_m_sq : forall p f r r' c k, on_board f r = true -> r' = (7 - r)%Z ->
  has (mpos p) (sq_of f r) c k = has p (sq_of f r') (opp c) k.
Proof.
  intros p f r r' c k H ->. destruct (flip_sq_of f r H) as (E & L & H').
  destruct (flip_sq_of f (7 - r) H') as (E' & L' & _).
  replace (7 - (7 - r))%Z with r in E' by lia. rewrite <- E'. apply has_m. exact L'.
Qed.

Lemma attacked_m_sq : forall p f r r' c, on_board f r = true -> r' = (7 - r)%Z ->
  attacked (mpos p) c (sq_of f r) = attacked p (opp c) (sq_of f r').
Proof.
  intros p f r r' c H ->. destruct (flip_sq_of f r H) as (E & L & H').
  destruct (flip_sq_of f (7 - r) H') as (E' & L' & _).
  replace (7 - (7 - r))%Z with r in E' by lia. rewrite <- E'. apply attacked_m. exact L'.
Qed.

Lemma empty_at_m_sq' : forall p f r r', on_board f r = true -> r' = (7 - r)%Z ->
  empty_at (mpos p) (sq_of f r) = empty_at p (sq_of f r').
Proof. intros p f r r' H ->. apply empty_at_m_sq. exact H. Qed.

Lemma castle_ok_m : forall p c side, castle_ok (mpos p) c side = castle_ok p (opp c) side.
Proof.
  intros p c side. unfold castle_ok. cbv zeta. cbn [mpos p_right]. unfold king_home, rook_home. rewrite opp_opp.
  destruct c; cbn [back_rank opp]; destruct side;
    repeat first [ rewrite (has_m_sq p _ 0%Z 7%Z) by reflexivity
                 | rewrite (has_m_sq p _ 7%Z 0%Z) by reflexivity
                 | rewrite (attacked_m_sq p _ 0%Z 7%Z) by reflexivity
                 | rewrite (attacked_m_sq p _ 7%Z 0%Z) by reflexivity
                 | rewrite (empty_at_m_sq' p _ 0%Z 7%Z) by reflexivity
                 | rewrite (empty_at_m_sq' p _ 7%Z 0%Z) by reflexivity ];
    cbn [opp]; reflexivity.
Qed.

Lemma king_home_flip : forall c, king_home (opp c) = flip_rank (king_home c).
Proof. intros [|]; reflexivity. Qed.

Lemma rook_home_flip : forall c side, rook_home (opp c) side = flip_rank (rook_home c side).
Proof. intros [|] [|]; reflexivity. Qed.

Lemma king_home_lt : forall c, king_home c < 64.
Proof. intros [|]; reflexivity. Qed.

Lemma rook_home_lt : forall c side, rook_home c side < 64.
Proof. intros [|] [|]; reflexivity. Qed.

Lemma back_rank_opp : forall c, back_rank (opp c) = (7 - back_rank c)%Z.
Proof. intros [|]; reflexivity. Qed.

Lemma is_castle_move_m : forall p m, mv_from m < 64 -> mv_to m < 64 ->
  is_castle_move (mpos p) (mmove m) = is_castle_move p m.
Proof.
  intros p m Hf Ht. unfold is_castle_move. cbv zeta. cbn [mmove mv_from mv_to mpos p_turn].
  change (p_at (mpos p)) with (p_at (mpos p)).
  rewrite (has_m p _ _ King Hf), opp_opp, king_home_flip, (flip_eqb _ _ Hf (king_home_lt _)), back_rank_opp.
  destruct (flip_coords _ Ht) as (Ft & Rt & _ & _). rewrite Ft, Rt.
  replace (7 - srank (mv_to m) =? 7 - back_rank (p_turn p))%Z with (srank (mv_to m) =? back_rank (p_turn p))%Z by lia.
  reflexivity.
Qed.

(* ---------- pseudo-legality ---------- *)
Lemma home_rank_opp : forall c, home_rank (opp c) = (7 - home_rank c)%Z.
Proof. intros [|]; reflexivity. Qed.
Lemma last_rank_opp : forall c, last_rank (opp c) = (7 - last_rank c)%Z.
Proof. intros [|]; reflexivity. Qed.

Lemma pseudo_legal_m : forall p m, mv_from m < 64 -> mv_to m < 64 -> (forall e, p_ep p = Some e -> e < 64) ->
  Rules.pseudo_legal (mpos p) (mmove m) = Rules.pseudo_legal p m.
Proof.
  intros p m Hf Ht Hep. unfold Rules.pseudo_legal. cbv zeta. cbn [mmove mv_from mv_to mv_promo].
  change (p_turn (mpos p)) with (opp (p_turn p)).
  set (c := p_turn p). set (f := mv_from m) in *. set (t := mv_to m) in *.
  rewrite (mpos_at p f Hf). destruct (p_at p f) as [[c' k]|] eqn:Eat; cbn [swapc]; [|reflexivity].
  rewrite opp_color_eqb, (colour_at_m p t _ Ht), opp_opp, (flip_eqb f t Hf Ht).
  f_equal.
  destruct (flip_coords f Hf) as (Ff & Rf & Bf1 & Bf2). destruct (flip_coords t Ht) as (Ft & Rt & Bt1 & Bt2).
  destruct k.
  - reflexivity.
  - (* Pawn *)
    rewrite Ff, Rf, Ft, Rt, fwd_opp', home_rank_opp, last_rank_opp, (empty_at_m p t Ht), (colour_at_m p t _ Ht).
    replace (7 - srank t - (7 - srank f) =? - fwd c)%Z with (srank t - srank f =? fwd c)%Z by lia.
    replace (7 - srank t - (7 - srank f) =? 2 * - fwd c)%Z with (srank t - srank f =? 2 * fwd c)%Z by lia.
    replace (7 - srank f =? 7 - home_rank c)%Z with (srank f =? home_rank c)%Z by lia.
    replace (7 - srank t =? 7 - last_rank c)%Z with (srank t =? last_rank c)%Z by lia.
    assert (Eep : match p_ep (mpos p) with Some e => e =? flip_rank t | None => false end =
                  match p_ep p with Some e => e =? t | None => false end).
    { cbn [mpos p_ep]. destruct (p_ep p) as [e|] eqn:Ee; cbn [option_map]; [|reflexivity].
      exact (flip_eqb e t (Hep e eq_refl) Ht). }
    rewrite Eep.
    destruct (Z.eqb_spec (srank f) (home_rank c)) as [Eh|Eh].
    + assert (Hb : on_board (sfile f) (srank f + fwd c) = true).
      { unfold on_board. destruct c; cbn [home_rank fwd] in *; lia. }
      rewrite (empty_at_m_sq' p (sfile f) (7 - srank f + - fwd c) (srank f + fwd c)).
      * reflexivity.
      * unfold on_board in *. lia.
      * lia.
    + rewrite !andb_false_r. cbn [andb orb]. reflexivity.
  - destruct (mv_promo m); [reflexivity|]. rewrite (attacks_from_m p _ _ f t Hf Ht), opp_opp. reflexivity.
  - destruct (mv_promo m); [reflexivity|]. rewrite (attacks_from_m p _ _ f t Hf Ht), opp_opp. reflexivity.
  - destruct (mv_promo m); [reflexivity|]. rewrite (attacks_from_m p _ _ f t Hf Ht), opp_opp. reflexivity.
  - destruct (mv_promo m); [reflexivity|]. rewrite (attacks_from_m p _ _ f t Hf Ht), opp_opp. reflexivity.
  - (* King *)
    destruct (mv_promo m) as [pr|] eqn:Epr; [reflexivity|].
    rewrite (attacks_from_m p (opp c) King f t Hf Ht), opp_opp.
    rewrite (is_castle_move_m p m Hf Ht). destruct (is_castle_move p m) as [side|]; [|reflexivity].
    rewrite castle_ok_m, opp_opp. reflexivity.
Qed.

(* ---------- the placement after a move ---------- *)
Lemma apply_at_m : forall p m c0 k s, mv_from m < 64 -> mv_to m < 64 -> p_at p (mv_from m) = Some (c0, k) ->
  p_at (Rules.apply (mpos p) (mmove m)) s = p_at (mpos (Rules.apply p m)) s.
Proof.
  intros p m c0 k s Hf Ht Hat.
  assert (Hat' : p_at (mpos p) (mv_from (mmove m)) = Some (opp c0, k)).
  { cbn [mmove mv_from]. rewrite (mpos_at p _ Hf), Hat. reflexivity. }
  rewrite (apply_at_gen (mpos p) (mmove m) (opp c0) k s Hat').
  cbn [mmove mv_from mv_to mv_promo]. change (p_turn (mpos p)) with (opp (p_turn p)).
  set (c := p_turn p). set (f := mv_from m) in *. set (t := mv_to m) in *.
  destruct (flip_coords f Hf) as (Ff & Rf & Bf1 & Bf2). destruct (flip_coords t Ht) as (Ft & Rt & Bt1 & Bt2).
  assert (Eep : ep_flag (mpos p) k (flip_rank f) (flip_rank t) = ep_flag p k f t).
  { unfold ep_flag. rewrite Ff, Ft, (empty_at_m p t Ht). reflexivity. }
  assert (Eca : castle_flag k (flip_rank f) (flip_rank t) = castle_flag k f t).
  { unfold castle_flag. rewrite Ff, Ft. reflexivity. }
  rewrite Eep, Eca, Ft, Rf, rook_home_flip, back_rank_opp.
  assert (Hv : on_board (sfile t) (srank f) = true) by (unfold on_board; lia).
  destruct (flip_sq_of _ _ Hv) as (Ev & Lv & _). rewrite <- Ev.
  set (x := if (sfile t =? 6)%Z then 5%Z else 3%Z).
  assert (Hx : on_board x (back_rank c) = true) by (unfold on_board, x; destruct c, (sfile t =? 6)%Z; reflexivity).
  destruct (flip_sq_of _ _ Hx) as (Ex & Lx & _). rewrite <- Ex.
  pose proof (rook_home_lt c (sfile t =? 6)%Z) as Lr.
  destruct (N.ltb_spec s 64) as [L|L].
  - rewrite (flip_eqb_swap s t L Ht), (flip_eqb_swap s f L Hf), (flip_eqb_swap s _ L Lv),
            (flip_eqb_swap s _ L Lr), (flip_eqb_swap s _ L Lx), (mpos_at' p s L).
    rewrite (mpos_at' (Rules.apply p m) s L), (apply_at_gen p m c0 k (flip_rank s) Hat).
    fold f t c x.
    destruct (flip_rank s =? t); [reflexivity|].
    destruct (flip_rank s =? f); [reflexivity|].
    destruct (ep_flag p k f t && (flip_rank s =? sq_of (sfile t) (srank f))); [reflexivity|].
    destruct (castle_flag k f t); [|reflexivity].
    destruct (flip_rank s =? rook_home c (sfile t =? 6)%Z); [reflexivity|].
    destruct (flip_rank s =? sq_of x (back_rank c)); reflexivity.
  - rewrite (mpos_at_high (Rules.apply p m) s L), (mpos_at_high p s L).
    pose proof (flip_rank_lt t). pose proof (flip_rank_lt f). pose proof (flip_rank_lt (sq_of (sfile t) (srank f))).
    pose proof (flip_rank_lt (rook_home c (sfile t =? 6)%Z)). pose proof (flip_rank_lt (sq_of x (back_rank c))).
    destruct (N.eqb_spec s (flip_rank t)); [lia|].
    destruct (N.eqb_spec s (flip_rank f)); [lia|].
    destruct (N.eqb_spec s (flip_rank (sq_of (sfile t) (srank f)))); [lia|]. rewrite andb_false_r.
    destruct (castle_flag k f t); [|reflexivity].
    destruct (N.eqb_spec s (flip_rank (rook_home c (sfile t =? 6)%Z))); [lia|].
    destruct (N.eqb_spec s (flip_rank (sq_of x (back_rank c)))); [lia | reflexivity].
Qed.

(* ---------- legality ---------- *)
Lemma clear_path_at_ext : forall p q, (forall s, p_at p s = p_at q s) -> forall fuel f r sf sr f' r',
  clear_path p fuel f r sf sr f' r' = clear_path q fuel f r sf sr f' r'.
Proof.
  intros p q H fuel. induction fuel as [|k IH]; intros f r sf sr f' r'; cbn [clear_path]; [reflexivity|].
  unfold empty_at. rewrite H, IH. reflexivity.
Qed.

Lemma attacks_from_at_ext : forall p q, (forall s, p_at p s = p_at q s) -> forall c k a t,
  attacks_from p c k a t = attacks_from q c k a t.
Proof. intros p q H c k a t. unfold attacks_from. rewrite (clear_path_at_ext p q H). reflexivity. Qed.

Lemma king_attacked_at_ext : forall p q c, (forall s, p_at p s = p_at q s) -> king_attacked p c = king_attacked q c.
Proof.
  intros p q c H. unfold king_attacked. apply existsb_ext_in. intros s _. unfold has. rewrite H. f_equal.
  unfold attacked. apply existsb_ext_in. intros a _. rewrite H. destruct (p_at q a) as [[c' k]|]; [|reflexivity].
  rewrite (attacks_from_at_ext p q H). reflexivity.
Qed.

Lemma legal_m : forall p m, mv_from m < 64 -> mv_to m < 64 -> (forall e, p_ep p = Some e -> e < 64) ->
  Rules.legal (mpos p) (mmove m) = Rules.legal p m.
Proof.
  intros p m Hf Ht Hep. unfold legal. rewrite (pseudo_legal_m p m Hf Ht Hep).
  destruct (Rules.pseudo_legal p m) eqn:Epl; [|reflexivity]. cbn [andb]. f_equal.
  destruct (pseudo_legal_from p m Epl) as [k Hk].
  rewrite (king_attacked_at_ext _ (mpos (Rules.apply p m)) _ (fun s => apply_at_m p m _ k s Hf Ht Hk)).
  rewrite king_attacked_m. cbn [mpos p_turn]. rewrite opp_opp. reflexivity.
Qed.

Lemma mmove_invol : forall m, mv_from m < 64 -> mv_to m < 64 -> mmove (mmove m) = m.
Proof.
  intros [f t pr] Hf Ht. cbn [mv_from mv_to] in *. unfold mmove. cbn [mv_from mv_to mv_promo].
  rewrite (flip_rank_invol f Hf), (flip_rank_invol t Ht). reflexivity.
Qed.

Lemma swapc_invol : forall x, swapc (swapc x) = x.
Proof. intros [[c k]|]; cbn [swapc]; [rewrite opp_opp|]; reflexivity. Qed.

Lemma mpos_invol : forall p, bounded p -> pos_eq_nc (mpos (mpos p)) p.
Proof.
  intros p [Hb He]. unfold pos_eq_nc. split; [|split; [|split]].
  - intros s. destruct (N.ltb_spec s 64) as [L|L].
    + rewrite (mpos_at' (mpos p) s L), (mpos_at p s L), swapc_invol. reflexivity.
    + rewrite (mpos_at_high (mpos p) s L), (Hb s L). reflexivity.
  - cbn [mpos p_turn]. apply opp_opp.
  - intros c k. cbn [mpos p_right]. rewrite opp_opp. reflexivity.
  - cbn [mpos p_ep]. destruct (p_ep p) as [e|] eqn:Ee; cbn [option_map]; [|reflexivity].
    rewrite (flip_rank_invol e (He e eq_refl)). reflexivity.
Qed.

Lemma mpos_ep_lt : forall p e, p_ep (mpos p) = Some e -> e < 64.
Proof.
  intros p e H. cbn [mpos p_ep] in H. destruct (p_ep p); cbn [option_map] in H; [|discriminate H].
  injection H as <-. apply flip_rank_lt.
Qed.

Lemma legal_moves_In_m : forall p m, (forall e, p_ep p = Some e -> e < 64) ->
  In m (Rules.legal_moves p) -> In (mmove m) (Rules.legal_moves (mpos p)).
Proof.
  intros p m Hep H. apply legal_moves_In in H. destruct H as (Hf & Ht & Hpr & Hl).
  apply legal_moves_In. cbn [mmove mv_from mv_to mv_promo].
  split; [apply flip_rank_lt|]. split; [apply flip_rank_lt|]. split; [exact Hpr|].
  change (Rules.legal (mpos p) (mmove m) = true). rewrite (legal_m p m Hf Ht Hep). exact Hl.
Qed.

Theorem legal_moves_nil_m : forall p, bounded p -> (Rules.legal_moves (mpos p) = [] <-> Rules.legal_moves p = []).
Proof.
  intros p Hb. pose proof Hb as [_ He]. split; intros E.
  - destruct (Rules.legal_moves p) as [|m l] eqn:El; [reflexivity|]. exfalso.
    assert (Hin : In m (Rules.legal_moves p)) by (rewrite El; left; reflexivity).
    apply (legal_moves_In_m p m He) in Hin. rewrite E in Hin. exact Hin.
  - destruct (Rules.legal_moves (mpos p)) as [|m l] eqn:El; [reflexivity|]. exfalso.
    assert (Hin : In m (Rules.legal_moves (mpos p))) by (rewrite El; left; reflexivity).
    apply (legal_moves_In_m (mpos p) m (mpos_ep_lt p)) in Hin.
    rewrite (legal_moves_ext_nc _ _ (mpos_invol p Hb)), E in Hin. exact Hin.
Qed.

(* ---------- legal positions ---------- *)
Lemma swapc_some : forall x c k, swapc x = Some (c, k) <-> x = Some (opp c, k).
Proof.
  intros [[c' k']|] c k; cbn [swapc]; split; intros H; try discriminate H.
  - injection H as <- <-. rewrite opp_opp. reflexivity.
  - injection H as -> ->. rewrite opp_opp. reflexivity.
Qed.

Lemma count_one_m : forall p c k, count_pieces p (opp c) k = 1%nat -> count_pieces (mpos p) c k = 1%nat.
Proof.
  intros p c k H. apply count_one in H. destruct H as [x (Hx & Hat & Hu)]. apply count_one.
  exists (flip_rank x). split; [apply flip_rank_lt|]. split.
  - rewrite (mpos_at p x Hx), Hat. cbn [swapc]. rewrite opp_opp. reflexivity.
  - intros y Hy Hy'. rewrite (mpos_at' p y Hy) in Hy'. apply swapc_some in Hy'.
    rewrite <- (Hu (flip_rank y) (flip_rank_lt y) Hy'). symmetry. apply flip_rank_invol. exact Hy.
Qed.

Theorem legal_pos_m : forall p, bounded p -> legal_pos p = true -> legal_pos (mpos p) = true.
Proof.
  intros p [Hb He] H. destruct (legal_pos_parts p H) as (HW & HB & Hka & Hpw & Hri & Hep).
  rewrite <- legal_pos_unfold. rewrite !andb_true_iff. repeat split.
  - apply Nat.eqb_eq. apply count_one_m. exact HB.
  - apply Nat.eqb_eq. apply count_one_m. exact HW.
  - apply negb_true_iff. rewrite king_attacked_m. cbn [mpos p_turn]. rewrite opp_opp. exact Hka.
  - apply pawns_clause_spec. intros s c1 Hs Hat. rewrite (mpos_at' p s Hs) in Hat. apply swapc_some in Hat.
    pose proof (proj1 (pawns_clause_spec p) Hpw (flip_rank s) (opp c1) (flip_rank_lt s) Hat) as [H0 H7].
    destruct (flip_coords s Hs) as (_ & Rs & _ & _). rewrite Rs in H0, H7. lia.
  - apply rights_clause_spec. intros c side Hr. cbn [mpos p_right] in Hr.
    destruct (proj1 (rights_clause_spec p) Hri (opp c) side Hr) as [Hk Hrk].
    assert (E1 : king_home c = flip_rank (king_home (opp c))) by (destruct c; reflexivity).
    assert (E2 : rook_home c side = flip_rank (rook_home (opp c) side)) by (destruct c, side; reflexivity).
    rewrite E1, E2, (mpos_at p _ (king_home_lt _)), (mpos_at p _ (rook_home_lt _ _)), Hk, Hrk. cbn [swapc].
    rewrite opp_opp. split; reflexivity.
  - unfold ep_clause in *. cbn [mpos p_ep p_turn]. destruct (p_ep p) as [t|] eqn:Et; cbn [option_map]; [|reflexivity].
    pose proof (He t eq_refl) as Ht. cbv zeta in Hep |- *. rewrite !andb_true_iff in Hep.
    destruct Hep as [[[H1 H2] H3] H4].
    destruct (flip_coords t Ht) as (Ft & Rt & Bt1 & Bt2). rewrite Ft, Rt, fwd_opp', opp_opp.
    rewrite (empty_at_m p t Ht), H2.
    assert (Hr : (srank t = if is_white (p_turn p) then 5 else 2)%Z) by lia.
    assert (Hb1 : on_board (sfile t) (srank t + fwd (p_turn p)) = true)
      by (unfold on_board; destruct (p_turn p); cbn [is_white fwd] in *; lia).
    assert (Hb2 : on_board (sfile t) (srank t - fwd (p_turn p)) = true)
      by (unfold on_board; destruct (p_turn p); cbn [is_white fwd] in *; lia).
    rewrite (empty_at_m_sq' p (sfile t) (7 - srank t + - fwd (p_turn p)) (srank t + fwd (p_turn p)))
      by (unfold on_board in *; lia).
    rewrite (has_m_sq p (sfile t) (7 - srank t - - fwd (p_turn p)) (srank t - fwd (p_turn p)))
      by (unfold on_board in *; lia).
    rewrite H3, H4. rewrite !andb_true_r. destruct (p_turn p); cbn [is_white opp] in *; lia.
Qed.

(* ====================================================================== *)
(* the model's mirror_state is the rules' mpos                            *)
(* ====================================================================== *)

Lemma piece_at_mirror : forall b t, WfBoard b ->
  piece_at (mirror_board b) t = if t <? 64 then swapc (piece_at b (flip_rank t)) else None.
Proof.
  intros b t Hwf. pose proof (mirror_wf b Hwf) as Hwf'.
  destruct (N.ltb_spec t 64) as [L|L].
  - destruct (piece_at b (flip_rank t)) as [[c k]|] eqn:E; cbn [swapc].
    + apply (piece_at_spec _ _ _ _ Hwf) in E. destruct E as [Hk Ht].
      apply (piece_at_spec _ _ _ _ Hwf'). split; [exact Hk|].
      rewrite pocc_mirror, opp_opp. apply (mirror_bb_test _ t (pocc_lt b c k Hwf)). split; [exact L | exact Ht].
    + apply piece_at_none. intros c k. rewrite pocc_mirror.
      destruct (test (mirror_bb (pocc b (opp c) k)) t) eqn:Et; [|reflexivity]. exfalso.
      apply (mirror_bb_test _ t (pocc_lt b (opp c) k Hwf)) in Et. destruct Et as [_ Et].
      rewrite (proj1 (piece_at_none b (flip_rank t)) E (opp c) k) in Et. discriminate Et.
  - apply piece_at_none. intros c k. rewrite pocc_mirror. unfold test.
    apply (testbit_high _ 64 t (mirror_bb_lt _) L).
Qed.

Lemma castle_right_mirror : forall s c side, castle_right (mirror_state s) c side = castle_right s (opp c) side.
Proof. intros s [|] [|]; reflexivity. Qed.

Theorem abs_mirror : forall s, WfBoard (st_board s) -> pos_eq (abs (mirror_state s)) (mpos (abs s)).
Proof.
  intros s Hwf. unfold pos_eq. cbn [abs mpos mirror_state p_at p_turn p_right p_ep p_half p_full st_board st_turn st_ep st_half st_full].
  split; [|split; [|split; [|split; [|split]]]]; try reflexivity.
  - intros t. exact (piece_at_mirror (st_board s) t Hwf).
  - intros c k. exact (castle_right_mirror s c k).
Qed.

Lemma abs_bounded : forall s, WfState s -> bounded (abs s).
Proof.
  intros s Hwf. pose proof (wf_state_board s Hwf) as Hb. split.
  - intros t Ht. cbn [abs p_at]. destruct (piece_at (st_board s) t) as [ck|] eqn:E; [|reflexivity].
    pose proof (piece_at_lt64 _ _ _ Hb E). lia.
  - intros t Ht. cbn [abs p_ep] in Ht. unfold WfState, wf_stateb in Hwf. rewrite !andb_true_iff in Hwf.
    destruct Hwf as [[[_ He] _] _]. rewrite Ht in He. apply N.ltb_lt. exact He.
Qed.

Theorem mirror_legal : forall s, LegalPos s -> LegalPos (mirror_state s).
Proof.
  intros s HL. destruct (legal_pos_wf s HL) as [Hwf Hlp]. unfold LegalPos, legal_posb.
  rewrite (mirror_wf_state s Hwf). cbn [andb].
  rewrite (legal_pos_ext_nc _ _ (pos_eq_nc_of _ _ (abs_mirror s (wf_state_board s Hwf)))).
  exact (legal_pos_m (abs s) (abs_bounded s Hwf) Hlp).
Qed.

Theorem gen_legal_nil_mirror : forall s, LegalPos s -> (gen_legal (mirror_state s) = [] <-> gen_legal s = []).
Proof.
  intros s HL. destruct (legal_pos_wf s HL) as [Hwf _].
  rewrite (gen_legal_nil_iff _ (mirror_legal s HL)), (gen_legal_nil_iff s HL).
  rewrite (legal_moves_ext_nc _ _ (pos_eq_nc_of _ _ (abs_mirror s (wf_state_board s Hwf)))).
  exact (legal_moves_nil_m (abs s) (abs_bounded s Hwf)).
Qed.

Theorem is_check_mirror : forall s, WfState s -> is_check (mirror_state s) = is_check s.
Proof.
  intros s Hwf. rewrite (is_check_rules _ (mirror_wf_state s Hwf)), (is_check_rules s Hwf).
  rewrite (king_attacked_ext_nc _ _ (pos_eq_nc_of _ _ (abs_mirror s (wf_state_board s Hwf)))).
  cbn [abs p_turn mirror_state st_turn]. rewrite king_attacked_m, opp_opp. reflexivity.
Qed.

(* ====================================================================== *)
(* C13: the evaluator is mirror invariant                                 *)
(* ====================================================================== *)

Theorem evaluate_mirror : forall s p d, LegalPos s ->
  evaluate (mirror_state s) (opp p) d = evaluate s p d.
Proof.
  intros s p d HL. destruct (legal_pos_wf s HL) as [Hwf _]. pose proof (mirror_legal s HL) as HL'.
  pose proof (is_check_mirror s Hwf) as Hc. pose proof (gen_legal_nil_mirror s HL) as Hg.
  destruct (gen_legal s) as [|ms l] eqn:Eg.
  - pose proof (proj2 Hg eq_refl) as Eg'. destruct (is_check s) eqn:Ec.
    + rewrite (eval_mate _ (opp p) d HL' Eg' (eq_trans Hc eq_refl)), (eval_mate s p d HL Eg Ec).
      cbn [mirror_state st_turn]. rewrite opp_color_eqb. reflexivity.
    + rewrite (eval_stalemate _ (opp p) d HL' Eg' (eq_trans Hc eq_refl)), (eval_stalemate s p d HL Eg Ec).
      reflexivity.
  - assert (Hne : gen_legal s <> []) by (rewrite Eg; discriminate).
    assert (Hne' : gen_legal (mirror_state s) <> []).
    { intros E. apply Hg in E. discriminate E. }
    rewrite (eval_has_move _ (opp p) d HL' Hne'), (eval_has_move s p d HL Hne).
    rewrite (mirror_heuristic_legal s p HL). reflexivity.
Qed.

Print Assumptions evaluate_mirror.
Print Assumptions mirror_legal.
